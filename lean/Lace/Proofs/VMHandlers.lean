/-
  Each handler of `runtime.rs` (model) equals the corresponding register-transfer statement of
  the ISA specification.
-/
import Lace.Proofs.Bits
namespace Lace
open ISA

@[simp] theorem extract_shift (w : Word) (k : Nat) :
    (w >>> k).extractLsb' 0 3 = w.extractLsb' k 3 := by
  ext i hi
  simp

theorem writeDR_eq (m : Machine) (dr : BitVec 3) (v : Word) :
    setcc (m.setReg dr v) v = (setcc m v).setReg dr v := by
  simp [setcc, Machine.setReg, Machine.setCC]

theorem add_eq (m : Machine) (w : Word) :
    VM.add m w = (if w.getLsbD 5
      then writeDR m (w.extractLsb' 9 3) (m.getReg (w.extractLsb' 6 3) + sext (w.extractLsb' 0 5))
      else writeDR m (w.extractLsb' 9 3) (m.getReg (w.extractLsb' 6 3) + m.getReg (w.extractLsb' 0 3))) := by
  unfold VM.add writeDR
  simp only [reg_field0, setReg_field, bit5_test, setFlags_eq, sExt_5, extract_shift]
  cases h : w.getLsbD 5 <;> simp [setcc, Machine.setReg, Machine.setCC]

theorem and_eq (m : Machine) (w : Word) :
    VM.and m w = (if w.getLsbD 5
      then writeDR m (w.extractLsb' 9 3) (m.getReg (w.extractLsb' 6 3) &&& sext (w.extractLsb' 0 5))
      else writeDR m (w.extractLsb' 9 3) (m.getReg (w.extractLsb' 6 3) &&& m.getReg (w.extractLsb' 0 3))) := by
  unfold VM.and writeDR
  simp only [reg_field0, setReg_field, bit5_test, setFlags_eq, sExt_5, extract_shift]
  cases h : w.getLsbD 5 <;> simp [setcc, Machine.setReg, Machine.setCC]

theorem not_eq (m : Machine) (w : Word) :
    VM.not m w = writeDR m (w.extractLsb' 9 3) (~~~ m.getReg (w.extractLsb' 6 3)) := by
  unfold VM.not writeDR
  simp only [reg_field, setReg_field, setFlags_eq]

theorem br_eq (m : Machine) (w : Word) :
    VM.br m w = (if w.extractLsb' 9 3 &&& m.cc.bits ≠ 0 then m.setPC (m.pc + sext (w.extractLsb' 0 9)) else m) := by
  unfold VM.br
  simp only [field3, br_test, sExt_9]
  by_cases h : w.extractLsb' 9 3 &&& m.cc.bits = 0 <;> simp [h]

theorem jmp_eq (m : Machine) (w : Word) : VM.jmp m w = m.setPC (m.getReg (w.extractLsb' 6 3)) := by
  unfold VM.jmp; simp only [reg_field]

theorem jsr_eq (m : Machine) (w : Word) :
    VM.jsr m w = (if w.getLsbD 11
      then (m.setReg 7 m.pc).setPC (m.pc + sext (w.extractLsb' 0 11))
      else (m.setReg 7 m.pc).setPC (m.getReg (w.extractLsb' 6 3))) := by
  unfold VM.jsr
  simp only [reg_field, setReg_7, bit11_test, sExt_11]
  cases h : w.getLsbD 11 <;> simp

theorem ld_eq (m : Machine) (w : Word) :
    VM.ld m w = writeDR m (w.extractLsb' 9 3) (m.read (m.pc + sext (w.extractLsb' 0 9))) := by
  unfold VM.ld writeDR; simp only [setReg_field, setFlags_eq, sExt_9]

theorem ldi_eq (m : Machine) (w : Word) :
    VM.ldi m w = writeDR m (w.extractLsb' 9 3) (m.read (m.read (m.pc + sext (w.extractLsb' 0 9)))) := by
  unfold VM.ldi writeDR; simp only [setReg_field, setFlags_eq, sExt_9]

theorem ldr_eq (m : Machine) (w : Word) :
    VM.ldr m w = writeDR m (w.extractLsb' 9 3)
      (m.read (m.getReg (w.extractLsb' 6 3) + sext (w.extractLsb' 0 6))) := by
  unfold VM.ldr writeDR; simp only [reg_field, setReg_field, setFlags_eq, sExt_6]

theorem lea_eq (m : Machine) (w : Word) :
    VM.lea m w = writeDR m (w.extractLsb' 9 3) (m.pc + sext (w.extractLsb' 0 9)) := by
  unfold VM.lea writeDR; simp only [setReg_field, setFlags_eq, sExt_9]

theorem st_eq (m : Machine) (w : Word) :
    VM.st m w = m.write (m.pc + sext (w.extractLsb' 0 9)) (m.getReg (w.extractLsb' 9 3)) := by
  unfold VM.st; simp only [reg_field, sExt_9]

theorem sti_eq (m : Machine) (w : Word) :
    VM.sti m w = m.write (m.read (m.pc + sext (w.extractLsb' 0 9))) (m.getReg (w.extractLsb' 9 3)) := by
  unfold VM.sti; simp only [reg_field, sExt_9]

theorem str_eq (m : Machine) (w : Word) :
    VM.str m w = m.write (m.getReg (w.extractLsb' 6 3) + sext (w.extractLsb' 0 6))
      (m.getReg (w.extractLsb' 9 3)) := by
  unfold VM.str; simp only [reg_field, sExt_6]

theorem pushVal_eq (m : Machine) (v : Word) : VM.pushVal m v = pushWord m v := by
  unfold VM.pushVal pushWord SP
  simp [Machine.getReg, Machine.setReg]

theorem popVal_eq (m : Machine) : VM.popVal m = popWord m := by
  unfold VM.popVal popWord SP
  simp

end Lace
