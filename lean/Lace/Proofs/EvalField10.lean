/- `bit_offs` with 10 bits agrees with the specification's PC-relative field for every wrapped
   line difference: exhaustive kernel evaluation over all 65,536 words. -/
import Lace.Proofs.AllRange
import Lace.Proofs.EvalField
namespace Lace.Asm
theorem fieldAgrees_10 (d : Word) : fieldAgrees 10 d = true :=
  forall_word_of_allRange (fun d => fieldAgrees 10 d) (by decide +kernel) d
end Lace.Asm
