/-
  The reference debugger's instruction classes (`Spec/RefDebug.lean`, by `ISA.decode`) are the
  debugger's (`SignificantInstr::try_from`, `is_subroutine_call`: shifts and masks) on all 65,536
  words — one exhaustive kernel evaluation.
-/
import Lace.Spec.RefDebug
import Lace.Model.Debugger
import Lace.Proofs.AllRange
namespace Lace.RefDebugProofs
open Lace Lace.Dbg

def classOk (x : Word) : Bool :=
  (RefDebug.isCall x == isCall x) &&
  (RefDebug.isRet x == (sigOf x == some .ret)) &&
  (RefDebug.isHalt x == (sigOf x == some .halt))

theorem classOk_all : ∀ x, classOk x = true :=
  forall_word_of_allRange classOk (by decide +kernel)

theorem isCall_eq (x : Word) : RefDebug.isCall x = isCall x := by
  have := classOk_all x; simp only [classOk, Bool.and_eq_true, beq_iff_eq] at this; exact this.1.1

theorem isRet_eq (x : Word) : RefDebug.isRet x = (sigOf x == some .ret) := by
  have := classOk_all x; simp only [classOk, Bool.and_eq_true, beq_iff_eq] at this; exact this.1.2

theorem isHalt_eq (x : Word) : RefDebug.isHalt x = (sigOf x == some .halt) := by
  have := classOk_all x; simp only [classOk, Bool.and_eq_true, beq_iff_eq] at this; exact this.2

end Lace.RefDebugProofs
