/-
  Lemmas about the model of `Features::from_str` (C18): what `split(',')` produces, and what the
  word loop accepts.
-/
import Lace.Model.Features
namespace Lace.Features

theorem splitComma_ne_nil (s : List Char) : splitComma s ≠ [] := by
  induction s with
  | nil => simp [splitComma]
  | cons c cs ih =>
    unfold splitComma
    split
    · simp
    · split <;> simp

/-- No piece contains a comma. -/
theorem splitComma_no_comma (s : List Char) : ∀ w ∈ splitComma s, ',' ∉ w := by
  induction s with
  | nil => intro w hw; simp [splitComma] at hw; subst hw; simp
  | cons c cs ih =>
    intro w hw
    unfold splitComma at hw
    split at hw
    · rcases List.mem_cons.mp hw with rfl | hw
      · simp
      · exact ih w hw
    · rename_i hc
      split at hw
      · rename_i heq; exact absurd heq (splitComma_ne_nil cs)
      · rename_i w0 ws heq
        rcases List.mem_cons.mp hw with rfl | hw
        · intro hmem
          rcases List.mem_cons.mp hmem with h | h
          · exact hc h.symm
          · exact ih w0 (by rw [heq]; exact List.mem_cons_self) h
        · exact ih w (by rw [heq]; exact List.mem_cons_of_mem _ hw)

/-- Joining the pieces with commas gives the string back. -/
theorem splitComma_join (s : List Char) : [','].intercalate (splitComma s) = s := by
  induction s with
  | nil => simp [splitComma]
  | cons c cs ih =>
    unfold splitComma
    split
    · rename_i hc
      subst hc
      have hne := splitComma_ne_nil cs
      cases hsp : splitComma cs with
      | nil => exact absurd hsp hne
      | cons w ws =>
        rw [hsp] at ih
        rw [← ih]
        simp [List.intercalate_cons_cons]
    · split
      · rename_i heq; exact absurd heq (splitComma_ne_nil cs)
      · rename_i w0 ws heq
        rw [heq] at ih
        rw [← ih]
        cases ws with
        | nil => simp
        | cons w1 ws => simp [List.intercalate_cons_cons]

/-- every word is `""` or `"stack"` -/
def AllKnown (ws : List (List Char)) : Prop := ∀ w ∈ ws, w = [] ∨ w = stackWord

theorem loop_ok_iff : ∀ (ws : List (List Char)) (st b : Bool),
    loop ws st = .ok b ↔
      (AllKnown ws ∧ ws.count stackWord + (if st then 1 else 0) ≤ 1 ∧
        b = (st || decide (stackWord ∈ ws))) := by
  intro ws
  induction ws with
  | nil =>
    intro st b
    simp only [loop, AllKnown, List.count_nil, List.not_mem_nil, decide_false, Bool.or_false]
    constructor
    · intro h; cases h; refine ⟨fun _ h => h.elim, ?_, rfl⟩; split <;> omega
    · rintro ⟨_, _, rfl⟩; rfl
  | cons w ws ih =>
    intro st b
    unfold loop
    by_cases hw : w = []
    · subst hw
      have hne : ([] : List Char) ≠ stackWord := by decide
      have hne' : stackWord ≠ ([] : List Char) := by decide
      simp only [if_true, ih, AllKnown, List.mem_cons, List.count_cons, beq_iff_eq, hne, if_false,
        Nat.add_zero, hne', false_or]
      constructor
      · rintro ⟨h1, h2, h3⟩
        exact ⟨fun x hx => hx.elim (fun e => Or.inl e) (h1 x), h2, h3⟩
      · rintro ⟨h1, h2, h3⟩
        exact ⟨fun x hx => h1 x (Or.inr hx), h2, h3⟩
    · simp only [hw, if_false]
      by_cases hs : w = stackWord
      · subst hs
        simp only [if_true]
        cases st with
        | true =>
          simp only [if_true, List.count_cons_self]
          constructor
          · intro h; cases h
          · rintro ⟨_, h2, _⟩; omega
        | false =>
          simp only [Bool.false_eq_true, if_false, ih, if_true, AllKnown, List.mem_cons,
            List.count_cons_self, Nat.add_zero, Bool.true_or, Bool.false_or, true_or, decide_true]
          constructor
          · rintro ⟨h1, h2, h3⟩
            exact ⟨fun x hx => hx.elim (fun e => Or.inr e) (h1 x), by omega, h3⟩
          · rintro ⟨h1, h2, h3⟩
            exact ⟨fun x hx => h1 x (Or.inr hx), by omega, h3⟩
      · simp only [hs, if_false]
        constructor
        · intro h; cases h
        · rintro ⟨h1, _, _⟩
          rcases h1 w List.mem_cons_self with h | h
          · exact absurd h hw
          · exact absurd h hs

/-- The first word that is neither empty nor `stack` is reported as unknown — unless `stack`
was already given twice before it. -/
theorem loop_unknown (ws : List (List Char)) (st : Bool) (x : List Char) :
    loop ws st = .error (.unknown x) → x ∈ ws ∧ x ≠ [] ∧ x ≠ stackWord := by
  induction ws generalizing st with
  | nil => intro h; cases h
  | cons w ws ih =>
    unfold loop
    split
    · intro h; obtain ⟨h1, h2⟩ := ih st h; exact ⟨List.mem_cons_of_mem _ h1, h2⟩
    · rename_i hw
      split
      · split
        · intro h; cases h
        · intro h; obtain ⟨h1, h2⟩ := ih true h; exact ⟨List.mem_cons_of_mem _ h1, h2⟩
      · rename_i hs
        intro h
        cases h
        exact ⟨List.mem_cons_self, hw, hs⟩

/-- The only word ever reported as given twice is `stack`. -/
theorem loop_twice (ws : List (List Char)) (st : Bool) (x : List Char) :
    loop ws st = .error (.twice x) → x = stackWord ∧ 2 ≤ ws.count stackWord + (if st then 1 else 0) := by
  induction ws generalizing st with
  | nil => intro h; cases h
  | cons w ws ih =>
    unfold loop
    split
    · rename_i hw
      subst hw
      intro h
      have hne : ([] : List Char) ≠ stackWord := by decide
      obtain ⟨h1, h2⟩ := ih st h
      refine ⟨h1, ?_⟩
      simp only [List.count_cons, beq_iff_eq, hne, if_false, Nat.add_zero]
      exact h2
    · split
      · rename_i hs
        subst hs
        split
        · rename_i hst
          intro h; cases h
          subst hst
          exact ⟨rfl, by simp only [List.count_cons_self]; omega⟩
        · rename_i hst
          intro h
          obtain ⟨h1, h2⟩ := ih true h
          refine ⟨h1, ?_⟩
          simp only [List.count_cons_self]
          simp only [if_true] at h2
          omega
      · intro h; cases h

end Lace.Features
