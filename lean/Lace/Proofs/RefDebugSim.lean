/-
  Helper lemmas for C10's refinement theorem (`Props/C10Ref.lean`): the debugger model against the
  reference debugger `Spec/RefDebug.lean`.

  * bridging: `RefDebug.step` is the model's fetch / increment / execute (C02), `RefDebug.inUser`
    is `check_pc_bounds = Equal`, `RefDebug.interrupt` makes the preamble of `next_action` wait;
    breakpoint sets against the model's sorted list (`BpRel`);
  * `runObs`: `runLoop` together with what the user was shown at every command read (`note`);
    `Reaches` / `Ends`: composition of iterations; `runObs_stable`;
  * the status machine as a function: `after` (status after one executed instruction), `pausedAt`;
    `runStatus`: the reference loop driven by a status; `run_sim`: the model's running phase
    performs `runStatus` (one induction, all statuses, breakpoints / HALT / bounds included);
  * per command: `runStatus` from the status a command sets up is `runUntil` with that command's
    stop condition.
-/
import Lace.Props.C10Big
import Lace.Proofs.RefDebugClass
namespace Lace.RefDebugProofs
open Lace Lace.Dbg Lace.Cmd Lace.DbgProofs Lace.RefDebug

/-! ### Bridging the reference machine and the model -/

theorem step_eq (env : Env) (m : Machine) (w : World) :
    RefDebug.step env.stackOn env.minimal m w =
      VM.execute env.stackOn env.minimal (m.read m.pc) (m.setPC (m.pc + 1)) w := by
  unfold RefDebug.step; rw [C02.execute_eq_isa]

theorem inUser_eq (m : Machine) : RefDebug.inUser m = (Run.checkPcBounds m == .eq) := by
  unfold RefDebug.inUser Run.checkPcBounds
  by_cases h1 : m.pc < m.orig
  · have : ¬ m.orig ≤ m.pc := by simpa [BitVec.not_le] using h1
    simp [h1, this]
  · have h1' : m.orig ≤ m.pc := by simpa [BitVec.not_lt] using h1
    by_cases h2 : m.pc ≥ 0xFE00#16
    · have : ¬ m.pc < 0xFE00#16 := by simpa [BitVec.not_lt] using h2
      simp [h1, h2, this]
    · have : m.pc < 0xFE00#16 := by simpa [BitVec.not_le] using h2
      simp [h1, h2, h1', this]

theorem inUser_true (m : Machine) (h : RefDebug.inUser m = true) : Run.checkPcBounds m = .eq := by
  rw [inUser_eq] at h; simpa using h

theorem inUser_false (m : Machine) (h : RefDebug.inUser m = false) : Run.checkPcBounds m ≠ .eq := by
  rw [inUser_eq] at h; simpa using h

theorem atHalt_eq (m : Machine) : atHalt m = RefDebug.isHalt (m.read m.pc) := by
  rw [isHalt_eq]; rfl

/-- The reference set and the model's list hold the same addresses. -/
def BpRel (s : BpSet) (bs : Breakpoints) : Prop := ∀ a, s a = (bpGet bs a).isSome

theorem bpGet_cons (o : Breakpoint) (l : Breakpoints) (x : Word) :
    (bpGet (o :: l) x).isSome = (o.address == x || (bpGet l x).isSome) := by
  unfold bpGet
  rw [List.find?_cons]
  cases h : (o.address == x) <;> simp

theorem bpInsert_spec (a : Word) : ∀ (bs : Breakpoints),
    ((bpInsert bs ⟨a, false⟩).2 = true → (bpInsert bs ⟨a, false⟩).1 = bs ∧ (bpGet bs a).isSome = true) ∧
    ((bpInsert bs ⟨a, false⟩).2 = false →
      ∀ x, (bpGet (bpInsert bs ⟨a, false⟩).1 x).isSome = (x == a || (bpGet bs x).isSome))
  | [] => by
    refine ⟨by simp [bpInsert], fun _ x => ?_⟩
    simp only [bpInsert, bpGet_cons]
    rw [show (a == x) = (x == a) from Bool.beq_comm]
  | o :: rest => by
    have ih := bpInsert_spec a rest
    simp only [bpInsert]
    by_cases h1 : (o.address == a) = true
    · simp only [h1, if_true]
      refine ⟨fun _ => ?_, by simp⟩
      simp [bpGet_cons, h1]
    · have h1' : (o.address == a) = false := by simpa using h1
      simp only [h1', Bool.false_eq_true, if_false]
      by_cases h2 : o.address ≥ a
      · simp only [h2, if_true]
        refine ⟨by simp, fun _ x => ?_⟩
        rw [bpGet_cons]
        simp only
        rw [show (a == x) = (x == a) from Bool.beq_comm]
      · simp only [h2, if_false]
        refine ⟨fun h => ?_, fun h x => ?_⟩
        · obtain ⟨e1, e2⟩ := ih.1 h
          exact ⟨by rw [e1], by rw [bpGet_cons, e2]; simp⟩
        · rw [bpGet_cons, ih.2 h x, bpGet_cons]
          cases (o.address == x) <;> cases (x == a) <;> simp

theorem bpGet_filter (a x : Word) : ∀ (bs : Breakpoints),
    (bpGet (bs.filter (·.address != a)) x).isSome = (x != a && (bpGet bs x).isSome)
  | [] => by simp [bpGet]
  | o :: rest => by
    have ih := bpGet_filter a x rest
    rw [List.filter_cons]
    by_cases h : (o.address != a) = true
    · rw [if_pos h, bpGet_cons, bpGet_cons, ih]
      by_cases hx : (o.address == x) = true
      · have : o.address = x := by simpa using hx
        subst this
        simp [h]
      · have hx' : (o.address == x) = false := by simpa using hx
        simp [hx']
    · rw [if_neg h, ih, bpGet_cons]
      have ho : o.address = a := by simpa using h
      by_cases hx : (o.address == x) = true
      · have : o.address = x := by simpa using hx
        subst this; subst ho
        simp
      · have hx' : (o.address == x) = false := by simpa using hx
        simp [hx']

theorem filter_length_eq {α : Type} (p : α → Bool) : ∀ (l : List α), (l.filter p).length = l.length → l.filter p = l
  | [] => by simp
  | x :: xs => by
    intro h
    rw [List.filter_cons] at h ⊢
    by_cases hp : p x = true
    · rw [if_pos hp] at h ⊢
      simp only [List.length_cons, Nat.add_right_cancel_iff] at h
      rw [filter_length_eq p xs h]
    · rw [if_neg hp] at h
      have := List.length_filter_le p xs
      simp only [List.length_cons] at h
      omega

theorem bpRel_add (s : BpSet) (bs : Breakpoints) (a : Word) (h : BpRel s bs) :
    BpRel (s.add a) (if (bpInsert bs ⟨a, false⟩).2 then bs else (bpInsert bs ⟨a, false⟩).1) := by
  intro x
  have sp := bpInsert_spec a bs
  unfold BpSet.add
  by_cases he : (bpInsert bs ⟨a, false⟩).2 = true
  · rw [if_pos he, h x]
    by_cases hx : (x == a) = true
    · have : x = a := by simpa using hx
      subst this
      rw [(sp.1 he).2]; simp
    · have hx' : (x == a) = false := by simpa using hx
      simp [hx']
  · have he' : (bpInsert bs ⟨a, false⟩).2 = false := by simpa using he
    rw [if_neg he, sp.2 he' x, h x]

theorem bpRel_remove (s : BpSet) (bs : Breakpoints) (a : Word) (h : BpRel s bs) :
    BpRel (s.remove a) (if (bpRemove bs a).2 then (bpRemove bs a).1 else bs) := by
  intro x
  unfold BpSet.remove
  by_cases he : (bpRemove bs a).2 = true
  · rw [if_pos he]
    simp only [bpRemove]
    rw [bpGet_filter, h x]
  · rw [if_neg he]
    have hl : (bs.filter (·.address != a)).length = bs.length := by
      simpa [bpRemove] using he
    have := filter_length_eq _ bs hl
    rw [← this, bpGet_filter, h x]

theorem bpRel_ofList (pc : Word) (l : List Word) :
    BpRel (BpSet.ofList (l.map (· + pc))) (l.map fun a => { address := a + pc, predefined := true }) := by
  intro x
  unfold BpSet.ofList
  induction l with
  | nil => simp [bpGet]
  | cons a r ih =>
    rw [List.map_cons, List.map_cons, bpGet_cons, ← ih]
    simp only [List.contains_cons]
    rw [show (x == a + pc) = (a + pc == x) from Bool.beq_comm]

/-! ### `runLoop` with what the user was shown at every command read -/

/-- A configuration of `RunEnvironment::run` between two iterations. `sh` = one entry per
command read so far (newest first): instructions executed and the machine at that moment. -/
structure Cfg where
  att : Bool
  d : Dbg
  m : Machine
  w : World
  ex : List Word
  sh : List Entry

/-- The commands read in an iteration that started at `(d, m, w)` and ended with record `d'` were
all read with that machine in front of the user (for C10's alphabet no command changes it). -/
def note (att : Bool) (d d' : Dbg) (m : Machine) (w : World) (sh : List Entry) : List Entry :=
  if att then List.replicate (d'.ncmds - d.ncmds) ⟨d.nexec, m, w⟩ ++ sh else sh

/-- `runLoop`, also returning the entries. -/
def runObs (env : Env) : Nat → Cfg → DbgRun × List Entry
  | 0, c => (.fuel c.att c.d c.m c.w c.ex, c.sh)
  | n + 1, c =>
    match iter env c.att c.d c.m c.w with
    | .cont att' d' m' w' e =>
      runObs env n ⟨att', d', m', w', pushExec e c.ex, note c.att c.d d' c.m c.w c.sh⟩
    | .done att' d' m' w' => (.done att' d' m' w' c.ex, note c.att c.d d' c.m c.w c.sh)
    | .exit code att' d' m' w' e =>
      (.exit code att' d' m' w' (pushExec e c.ex), note c.att c.d d' c.m c.w c.sh)
    | .panic s => (.panic s, c.sh)

theorem runObs_fst (env : Env) : ∀ (n : Nat) (c : Cfg),
    (runObs env n c).1 = runLoop env n c.att c.d c.m c.w c.ex
  | 0, c => rfl
  | n + 1, c => by
    unfold runObs runLoop
    cases iter env c.att c.d c.m c.w with
    | cont a d m w e => exact runObs_fst env n _
    | done a d m w => rfl
    | exit code a d m w e => rfl
    | panic s => rfl

def isFuel : DbgRun → Bool
  | .fuel _ _ _ _ _ => true
  | _ => false

/-- `k` iterations lead from `c` to `c'`. -/
def Reaches (env : Env) (k : Nat) (c c' : Cfg) : Prop := ∀ n, runObs env (n + k) c = runObs env n c'

/-- after `k` iterations (or more) the session has ended with `r`. -/
def Ends (env : Env) (k : Nat) (c : Cfg) (r : DbgRun × List Entry) : Prop := ∀ n, runObs env (n + k) c = r

theorem Reaches.refl (env : Env) (c : Cfg) : Reaches env 0 c c := fun _ => rfl

theorem Reaches.trans {env : Env} {a b : Nat} {c1 c2 c3 : Cfg} (h1 : Reaches env a c1 c2)
    (h2 : Reaches env b c2 c3) : Reaches env (b + a) c1 c3 := by
  intro n
  rw [← Nat.add_assoc, h1 (n + b), h2 n]

theorem Reaches.ends {env : Env} {a b : Nat} {c1 c2 : Cfg} {r : DbgRun × List Entry}
    (h1 : Reaches env a c1 c2) (h2 : Ends env b c2 r) : Ends env (b + a) c1 r := by
  intro n
  rw [← Nat.add_assoc, h1 (n + b), h2 n]

theorem reaches_of_iter (env : Env) (c : Cfg) (att' : Bool) (d' : Dbg) (m' : Machine) (w' : World)
    (e : Option Word) (h : iter env c.att c.d c.m c.w = .cont att' d' m' w' e) :
    Reaches env 1 c ⟨att', d', m', w', pushExec e c.ex, note c.att c.d d' c.m c.w c.sh⟩ := by
  intro n
  show runObs env (n + 1) c = _
  conv => lhs; unfold runObs
  rw [h]

theorem ends_of_done (env : Env) (c : Cfg) (att' : Bool) (d' : Dbg) (m' : Machine) (w' : World)
    (h : iter env c.att c.d c.m c.w = .done att' d' m' w') :
    Ends env 1 c (.done att' d' m' w' c.ex, note c.att c.d d' c.m c.w c.sh) := by
  intro n
  show runObs env (n + 1) c = _
  conv => lhs; unfold runObs
  rw [h]

theorem ends_of_exit (env : Env) (c : Cfg) (code : Nat) (att' : Bool) (d' : Dbg) (m' : Machine) (w' : World)
    (e : Option Word) (h : iter env c.att c.d c.m c.w = .exit code att' d' m' w' e) :
    Ends env 1 c (.exit code att' d' m' w' (pushExec e c.ex), note c.att c.d d' c.m c.w c.sh) := by
  intro n
  show runObs env (n + 1) c = _
  conv => lhs; unfold runObs
  rw [h]

theorem ends_of_panic (env : Env) (c : Cfg) (s : String)
    (h : iter env c.att c.d c.m c.w = .panic s) : Ends env 1 c (.panic s, c.sh) := by
  intro n
  show runObs env (n + 1) c = _
  conv => lhs; unfold runObs
  rw [h]

/-- A session that has ended stays ended: more iterations change nothing. -/
theorem runObs_stable (env : Env) : ∀ (n : Nat) (c : Cfg), isFuel (runObs env n c).1 = false →
    ∀ k, runObs env (n + k) c = runObs env n c
  | 0, c, h => by simp [runObs, isFuel] at h
  | n + 1, c, h => by
    intro k
    have e : n + 1 + k = (n + k) + 1 := by omega
    rw [e]
    conv => lhs; unfold runObs
    conv => rhs; unfold runObs
    conv at h => unfold runObs
    cases hi : iter env c.att c.d c.m c.w with
    | cont a d m w ex =>
      rw [hi] at h
      exact runObs_stable env n _ h k
    | done a d m w => rfl
    | exit code a d m w ex => rfl
    | panic s => rfl

/-- An iteration executes at most one instruction. -/
theorem runObs_fuel_len (env : Env) : ∀ (n : Nat) (c : Cfg) (a : Bool) (d : Dbg) (m : Machine) (w : World)
    (ex : List Word) (s : List Entry), runObs env n c = (.fuel a d m w ex, s) → ex.length ≤ c.ex.length + n
  | 0, c, a, d, m, w, ex, s, h => by
    simp only [runObs, Prod.mk.injEq, DbgRun.fuel.injEq] at h
    rw [← h.1.2.2.2.2]; omega
  | n + 1, c, a, d, m, w, ex, s, h => by
    conv at h => lhs; unfold runObs
    cases hi : iter env c.att c.d c.m c.w with
    | cont a1 d1 m1 w1 e =>
      rw [hi] at h
      have := runObs_fuel_len env n _ a d m w ex s h
      cases e <;> simp [pushExec] at this <;> omega
    | done a1 d1 m1 w1 => rw [hi] at h; simp at h
    | exit code a1 d1 m1 w1 e => rw [hi] at h; simp at h
    | panic s1 => rw [hi] at h; simp at h

theorem note_same (att : Bool) (d d' : Dbg) (m : Machine) (w : World) (sh : List Entry)
    (h : d'.ncmds = d.ncmds) : note att d d' m w sh = sh := by
  unfold note; rw [h]; simp

/-! ### The status machine as a function -/

/-- `d'` is `d` up to status, `current_breakpoint`, the instruction counters and the log. -/
structure Keep (d d' : Dbg) : Prop where
  initial : d'.initial = d.initial
  cmds : d'.cmds = d.cmds
  bps : d'.bps = d.bps
  ncmds : d'.ncmds = d.ncmds
  cmdAt : d'.cmdAt = d.cmdAt

theorem Keep.refl (d : Dbg) : Keep d d := ⟨rfl, rfl, rfl, rfl, rfl⟩
theorem Keep.trans {a b c : Dbg} (h1 : Keep a b) (h2 : Keep b c) : Keep a c :=
  ⟨h2.initial.trans h1.initial, h2.cmds.trans h1.cmds, h2.bps.trans h1.bps, h2.ncmds.trans h1.ncmds,
   h2.cmdAt.trans h1.cmdAt⟩

theorem checkInterrupts_keep (d : Dbg) (pc : Word) (i : Option Sig) :
    Keep d (checkInterrupts d pc i) ∧ (checkInterrupts d pc i).nexec = d.nexec ∧
    (checkInterrupts d pc i).icount = d.icount := by
  unfold checkInterrupts
  split <;> (try split) <;> (try split) <;> exact ⟨⟨rfl, rfl, rfl, rfl, rfl⟩, rfl, rfl⟩

theorem preamble_keep (d : Dbg) (m : Machine) :
    Keep d (preamble d m) ∧ (preamble d m).nexec = d.nexec ∧ (preamble d m).icount = d.icount := by
  unfold preamble
  cases Run.checkPcBounds m <;> simp only
  · have := checkInterrupts_keep { say d "OutOfBounds::ProgramCounter" with status := .wait } m.pc (sigOf (m.read m.pc))
    exact ⟨⟨this.1.initial, this.1.cmds, this.1.bps, this.1.ncmds, this.1.cmdAt⟩, this.2.1, this.2.2⟩
  · exact checkInterrupts_keep d m.pc _
  · have := checkInterrupts_keep { say d "OutOfBounds::ProgramCounter" with status := .wait } m.pc (sigOf (m.read m.pc))
    exact ⟨⟨this.1.initial, this.1.cmds, this.1.bps, this.1.ncmds, this.1.cmdAt⟩, this.2.1, this.2.2⟩

theorem preamble_wait (d : Dbg) (m : Machine) (h : d.status = .wait) : (preamble d m).status = .wait := by
  unfold preamble
  cases Run.checkPcBounds m <;> exact checkInterrupts_wait _ _ _ (by first | rfl | exact h)

/-- Status at the next iteration after executing the word `instr` (`next_action`'s status arms). -/
def after (s : Status) (instr : Word) : Status :=
  match s with
  | .stepInto c => if c.toNat > 0 then .stepInto (c - 1) else .wait
  | .finish => if sigOf instr == some .ret then .wait else .finish
  | .wait => .wait
  | .cont => .cont
  | .stepOver ret => .stepOver ret

/-- In this status at this machine the debugger asks for a command (if nothing interrupts). -/
def pausedAt (s : Status) (m : Machine) : Bool :=
  match s with
  | .wait => true
  | .stepOver ret => m.pc == ret
  | .stepInto _ => false
  | .cont => false
  | .finish => false

/-- Not paused: the status loop says `proceed` and moves to `after`. -/
theorem actionLoop_proceeds (env : Env) (n : Nat) (d : Dbg) (m : Machine) (w : World)
    (hp : pausedAt d.status m = false) :
    ∃ d2, actionLoop env (n + 1) d m w (sigOf (m.read m.pc)) = .action .proceed d2 m w ∧
      d2.status = after d.status (m.read m.pc) ∧ Keep d d2 ∧ d2.nexec = d.nexec ∧ d2.icount = d.icount := by
  unfold actionLoop
  cases hs : d.status with
  | wait => rw [hs] at hp; simp [pausedAt] at hp
  | stepOver ret =>
    rw [hs] at hp
    simp only [pausedAt] at hp
    simp only [hp, Bool.false_eq_true, if_false]
    exact ⟨d, rfl, by simp [after, hs], Keep.refl d, rfl, rfl⟩
  | stepInto c =>
    simp only
    by_cases hc : c.toNat > 0
    · rw [if_pos hc]
      exact ⟨_, rfl, by simp [after, hc], ⟨rfl, rfl, rfl, rfl, rfl⟩, rfl, rfl⟩
    · rw [if_neg hc]
      exact ⟨_, rfl, by simp [after, hc], ⟨rfl, rfl, rfl, rfl, rfl⟩, rfl, rfl⟩
  | cont => exact ⟨d, rfl, by simp [after, hs], Keep.refl d, rfl, rfl⟩
  | finish =>
    simp only
    by_cases hr : (sigOf (m.read m.pc) == some Sig.ret) = true
    · rw [if_pos hr]
      exact ⟨_, rfl, by simp [after, hr], ⟨rfl, rfl, rfl, rfl, rfl⟩, rfl, rfl⟩
    · rw [if_neg hr]
      exact ⟨d, rfl, by simp [after, hr, hs], Keep.refl d, rfl, rfl⟩

/-- `step` over a call, arrived at the return address: the status loop goes on in `wait`. -/
theorem actionLoop_arrives (env : Env) (n : Nat) (d : Dbg) (m : Machine) (w : World) (instr : Option Sig)
    (ret : Word) (hs : d.status = .stepOver ret) (hpc : (m.pc == ret) = true) :
    ∃ d', actionLoop env (n + 1) d m w instr = actionLoop env n d' m w instr ∧ d'.status = .wait ∧
      Keep d d' ∧ d'.nexec = d.nexec := by
  conv => enter [1, d', 1, 1]; unfold actionLoop
  simp only [hs, hpc, if_true]
  refine ⟨_, rfl, rfl, ?_, ?_⟩
  · split <;> exact ⟨rfl, rfl, rfl, rfl, rfl⟩
  · split <;> rfl

/-- At the start of an iteration the debugger will ask for a command: `next_action` is the status
loop in `wait`, with enough fuel, on the record `d'`. -/
def Asks (env : Env) (d : Dbg) (m : Machine) (w : World) (d' : Dbg) (N : Nat) : Prop :=
  nextAction env d m w = actionLoop env N d' m w (sigOf (m.read m.pc)) ∧ d'.status = .wait ∧
  2 * d'.cmds.length + 1 ≤ N

theorem asks_of_wait (env : Env) (d : Dbg) (m : Machine) (w : World)
    (h : (preamble d m).status = .wait) :
    Asks env d m w (preamble d m) (2 * (preamble d m).cmds.length + 3) :=
  ⟨nextAction_eq env d m w, h, by omega⟩

theorem interrupt_false (bps : BpSet) (d : Dbg) (m : Machine) (hr : BpRel bps d.bps)
    (h : interrupt bps m = false) :
    Run.checkPcBounds m = .eq ∧ sigOf (m.read m.pc) ≠ some .halt ∧ bpGet d.bps m.pc = none := by
  unfold interrupt at h
  simp only [Bool.or_eq_false_iff, Bool.not_eq_false'] at h
  obtain ⟨⟨h1, h2⟩, h3⟩ := h
  refine ⟨inUser_true m h3, ?_, ?_⟩
  · rw [isHalt_eq] at h2; simpa using h2
  · rw [hr m.pc] at h1
    cases hg : bpGet d.bps m.pc with
    | none => rfl
    | some b => rw [hg] at h1; simp at h1

/-- After at least one executed instruction, an interrupt makes the preamble wait. -/
theorem preamble_interrupted (bps : BpSet) (d : Dbg) (m : Machine) (hr : BpRel bps d.bps)
    (hic : d.icount > 0) (h : interrupt bps m = true) : (preamble d m).status = .wait := by
  unfold interrupt at h
  simp only [Bool.or_eq_true, Bool.not_eq_true'] at h
  rcases h with (h | h) | h
  · rw [hr m.pc] at h
    exact (C11.preamble_fires d m ⟨h, fun hh => by omega⟩).1
  · rw [isHalt_eq] at h
    have hh : sigOf (m.read m.pc) = some .halt := by simpa using h
    unfold preamble; rw [hh]; exact checkInterrupts_halt _ _
  · have hb := inUser_false m h
    unfold preamble
    cases hc : Run.checkPcBounds m with
    | eq => exact absurd hc hb
    | lt => exact checkInterrupts_wait _ _ _ rfl
    | gt => exact checkInterrupts_wait _ _ _ rfl

/-- Arrived (≥ 1 instruction since the command) where the status pauses or something interrupts:
the debugger asks for a command. -/
theorem asks_of_arrival (env : Env) (bps : BpSet) (d : Dbg) (m : Machine) (w : World)
    (hr : BpRel bps d.bps) (hic : d.icount > 0)
    (h : (pausedAt d.status m || interrupt bps m) = true) :
    ∃ d' N, Asks env d m w d' N ∧ Keep d d' ∧ d'.nexec = d.nexec := by
  by_cases hi : interrupt bps m = true
  · have hk := preamble_keep d m
    exact ⟨_, _, asks_of_wait env d m w (preamble_interrupted bps d m hr hic hi), hk.1, hk.2.1⟩
  · have hi' : interrupt bps m = false := by simpa using hi
    rw [hi', Bool.or_false] at h
    obtain ⟨hb, hh, hg⟩ := interrupt_false bps d m hr hi'
    have hcl := C10.clear_of_nobp_at d m hg hb hh
    cases hs : d.status with
    | wait =>
      have hk := preamble_keep d m
      exact ⟨_, _, asks_of_wait env d m w (preamble_wait d m hs), hk.1, hk.2.1⟩
    | stepOver ret =>
      rw [hs] at h
      simp only [pausedAt] at h
      obtain ⟨d', h1, h2, h3, h4⟩ := actionLoop_arrives env (2 * d.cmds.length + 2) { d with curBp := none } m w
        (sigOf (m.read m.pc)) ret hs h
      refine ⟨d', 2 * d.cmds.length + 2, ⟨?_, h2, ?_⟩, ⟨h3.initial, h3.cmds, h3.bps, h3.ncmds, h3.cmdAt⟩, h4⟩
      · rw [nextAction_eq, C10.preamble_clear d m hcl]
        exact h1
      · rw [h3.cmds]; simp
    | stepInto c => rw [hs] at h; simp [pausedAt] at h
    | cont => rw [hs] at h; simp [pausedAt] at h
    | finish => rw [hs] at h; simp [pausedAt] at h

theorem iter_of_proceed' (env : Env) (d d1 : Dbg) (m : Machine) (w : World)
    (hb : Run.checkPcBounds m = .eq) (hh : sigOf (m.read m.pc) ≠ some .halt)
    (hn : nextAction env d m w = .action .proceed d1 m w) :
    iter env true d m w = execOne env true (C10.ran d1) m w := by
  unfold iter
  simp only [if_true, hn]
  have hh' : ¬ (sigOf (m.read m.pc) == some Sig.halt) = true := by simpa using hh
  have hb' : ¬ (Run.checkPcBounds m != Ordering.eq) = true := by simp [hb]
  rw [if_neg hh', if_neg hb']
  rfl

/-- One iteration of the running phase: nothing interrupts, the status does not pause — exactly
one instruction is executed, nothing is read, the status becomes `after`. -/
theorem iter_runs (env : Env) (bps : BpSet) (d : Dbg) (m : Machine) (w : World)
    (hr : BpRel bps d.bps) (hp : pausedAt d.status m = false) (hi : interrupt bps m = false) :
    ∃ d2, iter env true d m w = execOne env true (C10.ran d2) m w ∧
      d2.status = after d.status (m.read m.pc) ∧ Keep d d2 ∧ d2.nexec = d.nexec ∧ d2.icount = d.icount := by
  obtain ⟨hb, hh, hg⟩ := interrupt_false bps d m hr hi
  have hcl := C10.clear_of_nobp_at d m hg hb hh
  obtain ⟨d2, h1, h2, h3, h4, h5⟩ :=
    actionLoop_proceeds env (2 * d.cmds.length + 2) { d with curBp := none } m w hp
  refine ⟨d2, ?_, h2, ⟨h3.initial, h3.cmds, h3.bps, h3.ncmds, h3.cmdAt⟩, h4, h5⟩
  apply iter_of_proceed' env d d2 m w hb hh
  rw [nextAction_eq, C10.preamble_clear d m hcl]
  exact h1

/-! ### The reference loop driven by a status -/

/-- `RefDebug.runUntil` with the stop condition read off the debugger's status. -/
def runStatus (so mi : Bool) (bps : BpSet) : Nat → Nat → Status → Machine → World → Out
  | 0, j, _, m, w => .fuel j m w
  | f + 1, j, s, m, w =>
    match RefDebug.step so mi m w with
    | .ok m' w' =>
      if pausedAt (after s (m.read m.pc)) m' || interrupt bps m' then .paused (j + 1) m' w'
      else runStatus so mi bps f (j + 1) (after s (m.read m.pc)) m' w'
    | .exit c w' => .ended (j + 1) c (m.setPC (m.pc + 1)) w'
    | .panic s' => .panic (j + 1) s'

/-- … entered on arrival at `m` after `j` instructions. -/
def arrive (so mi : Bool) (bps : BpSet) (f j : Nat) (s : Status) (m : Machine) (w : World) : Out :=
  if pausedAt s m || interrupt bps m then .paused j m w else runStatus so mi bps f j s m w

theorem runStatus_succ (so mi : Bool) (bps : BpSet) (f j : Nat) (s : Status) (m : Machine) (w : World) :
    runStatus so mi bps (f + 1) j s m w =
      match RefDebug.step so mi m w with
      | .ok m' w' => arrive so mi bps f (j + 1) (after s (m.read m.pc)) m' w'
      | .exit c w' => .ended (j + 1) c (m.setPC (m.pc + 1)) w'
      | .panic s' => .panic (j + 1) s' := by
  conv => lhs; unfold runStatus
  cases RefDebug.step so mi m w <;> simp only [arrive]

/-- What the model does while the reference performs `o`, `j` instructions into the command,
from configuration `c`. -/
def SimOut (env : Env) (c : Cfg) (j : Nat) : Out → Prop
  | .paused j' m' w' => j ≤ j' ∧ ∃ k dP exP d' N,
      Reaches env k c ⟨true, dP, m', w', exP, c.sh⟩ ∧ Asks env dP m' w' d' N ∧ Keep c.d dP ∧ Keep dP d' ∧
      dP.nexec = c.d.nexec + (j' - j) ∧ d'.nexec = dP.nexec ∧ exP.length = c.ex.length + (j' - j)
  | .ended j' code m' w' => j ≤ j' ∧ ∃ k dF exF,
      Ends env k c (.exit code true dF m' w' exF, c.sh) ∧ Keep c.d dF ∧
      dF.nexec = c.d.nexec + (j' - j) ∧ exF.length = c.ex.length + (j' - j)
  | .panic _ s => ∃ k, Ends env k c (.panic s, c.sh)
  | .fuel j' m' w' => j ≤ j' ∧ ∃ k dF exF,
      Reaches env k c ⟨true, dF, m', w', exF, c.sh⟩ ∧ Keep c.d dF ∧
      dF.nexec = c.d.nexec + (j' - j) ∧ exF.length = c.ex.length + (j' - j)

theorem SimOut.lift {env : Env} {c c1 : Cfg} {j : Nat} {o : Out} (hreach : Reaches env 1 c c1)
    (hk : Keep c.d c1.d) (hn : c1.d.nexec = c.d.nexec + 1) (hex : c1.ex.length = c.ex.length + 1)
    (hsh : c1.sh = c.sh) (h : SimOut env c1 (j + 1) o) : SimOut env c j o := by
  cases o with
  | paused j' m' w' =>
    obtain ⟨hj, k, dP, exP, d', N, h1, h2, h3, h4, h5, h6, h7⟩ := h
    refine ⟨by omega, k + 1, dP, exP, d', N, ?_, h2, hk.trans h3, h4, by omega, h6, by omega⟩
    rw [← hsh]; exact hreach.trans h1
  | ended j' code m' w' =>
    obtain ⟨hj, k, dF, exF, h1, h2, h3, h4⟩ := h
    refine ⟨by omega, k + 1, dF, exF, ?_, hk.trans h2, by omega, by omega⟩
    rw [← hsh]; exact hreach.ends h1
  | panic j' s =>
    obtain ⟨k, h1⟩ := h
    exact ⟨k + 1, by rw [← hsh]; exact hreach.ends h1⟩
  | fuel j' m' w' =>
    obtain ⟨hj, k, dF, exF, h1, h2, h3, h4⟩ := h
    refine ⟨by omega, k + 1, dF, exF, ?_, hk.trans h2, by omega, by omega⟩
    rw [← hsh]; exact hreach.trans h1

theorem ran_keep (d : Dbg) : Keep d (C10.ran d) := ⟨rfl, rfl, rfl, rfl, rfl⟩

theorem ran_icount (d : Dbg) : (C10.ran d).icount > 0 := by
  simp only [C10.ran]; split <;> omega

/-- What an executing iteration does, by the outcome of the reference step. -/
theorem execOne_step (env : Env) (d : Dbg) (m : Machine) (w : World) :
    execOne env true d m w =
      match RefDebug.step env.stackOn env.minimal m w with
      | .ok m' w' => .cont true d m' w' (some m.pc)
      | .exit c w' => .exit c true d (m.setPC (m.pc + 1)) w' (some m.pc)
      | .panic s => .panic s := by
  rw [step_eq]; rfl

/-- **The running phase.** From a configuration reached by executing at least one instruction
since the last command, with the debugger in status `s`, the model performs exactly
`arrive … s`: it executes the reference's instructions one per iteration without reading a
command, and asks for a command exactly where the reference pauses. -/
theorem run_sim (env : Env) (bps : BpSet) : ∀ (f j : Nat) (c : Cfg),
    c.att = true → c.d.icount > 0 → BpRel bps c.d.bps →
    SimOut env c j (arrive env.stackOn env.minimal bps f j c.d.status c.m c.w)
  | f, j, c, hatt, hic, hr => by
    obtain ⟨att, d, m, w, ex, sh⟩ := c
    simp only at hatt hic hr ⊢
    subst hatt
    unfold arrive
    by_cases hp : (pausedAt d.status m || interrupt bps m) = true
    · rw [if_pos hp]
      obtain ⟨d', N, h1, h2, h3⟩ := asks_of_arrival env bps d m w hr hic hp
      exact ⟨Nat.le_refl _, 0, d, ex, d', N, Reaches.refl env _, h1, Keep.refl d, h2, by simp, h3, by simp⟩
    · rw [if_neg hp]
      have hp' : (pausedAt d.status m || interrupt bps m) = false := by simpa using hp
      rw [Bool.or_eq_false_iff] at hp'
      cases f with
      | zero =>
        exact ⟨Nat.le_refl _, 0, d, ex, Reaches.refl env _, Keep.refl d, by simp, by simp⟩
      | succ f =>
        rw [runStatus_succ]
        obtain ⟨d2, hit, hs2, hk2, hn2, hi2⟩ := iter_runs env bps d m w hr hp'.1 hp'.2
        rw [execOne_step] at hit
        cases hx : RefDebug.step env.stackOn env.minimal m w with
        | ok m' w' =>
          rw [hx] at hit
          simp only at hit ⊢
          have hreach := reaches_of_iter env ⟨true, d, m, w, ex, sh⟩ true (C10.ran d2) m' w' (some m.pc) hit
          simp only at hreach
          rw [note_same true d (C10.ran d2) m w sh (by simp [C10.ran, hk2.ncmds])] at hreach
          have ih := run_sim env bps f (j + 1) ⟨true, C10.ran d2, m', w', pushExec (some m.pc) ex, sh⟩ rfl
            (ran_icount d2) (by show BpRel bps d2.bps; rw [hk2.bps]; exact hr)
          have hst : (C10.ran d2).status = after d.status (m.read m.pc) := hs2
          simp only [hst] at ih
          exact SimOut.lift hreach (hk2.trans (ran_keep d2)) (by simp [C10.ran, hn2]) (by simp [pushExec]) rfl ih
        | exit code w' =>
          rw [hx] at hit
          simp only at hit ⊢
          have he := ends_of_exit env ⟨true, d, m, w, ex, sh⟩ code true (C10.ran d2) _ w' (some m.pc) hit
          simp only at he
          rw [note_same true d (C10.ran d2) m w sh (by simp [C10.ran, hk2.ncmds])] at he
          exact ⟨by omega, 1, C10.ran d2, _, he, hk2.trans (ran_keep d2),
            by simp [C10.ran, hn2], by simp [pushExec]⟩
        | panic s =>
          rw [hx] at hit
          simp only at hit ⊢
          exact ⟨1, ends_of_panic env ⟨true, d, m, w, ex, sh⟩ s hit⟩
  termination_by f => f

/-! ### Each command's status performs that command's reference loop -/

theorem runStatus_cont (so mi : Bool) (bps : BpSet) : ∀ (f j : Nat) (m : Machine) (w : World),
    runStatus so mi bps f j .cont m w = runUntil so mi continueStop bps f j m w
  | 0, j, m, w => rfl
  | f + 1, j, m, w => by
    unfold runStatus runUntil
    cases RefDebug.step so mi m w with
    | ok m' w' =>
      simp only [after, pausedAt, continueStop, Bool.false_or]
      rw [runStatus_cont so mi bps f (j + 1) m' w']
    | exit c w' => rfl
    | panic s => rfl

theorem runStatus_stepOver (so mi : Bool) (bps : BpSet) (ret : Word) : ∀ (f j : Nat) (m : Machine) (w : World),
    runStatus so mi bps f j (.stepOver ret) m w = runUntil so mi (stepOverStop ret) bps f j m w
  | 0, j, m, w => rfl
  | f + 1, j, m, w => by
    unfold runStatus runUntil
    cases RefDebug.step so mi m w with
    | ok m' w' =>
      simp only [after, pausedAt, stepOverStop]
      rw [runStatus_stepOver so mi bps ret f (j + 1) m' w']
      rfl
    | exit c w' => rfl
    | panic s => rfl

theorem runStatus_finish (so mi : Bool) (bps : BpSet) : ∀ (f j : Nat) (m : Machine) (w : World),
    runStatus so mi bps f j .finish m w = runUntil so mi stepOutStop bps f j m w
  | 0, j, m, w => rfl
  | f + 1, j, m, w => by
    unfold runStatus runUntil
    cases RefDebug.step so mi m w with
    | ok m' w' =>
      simp only [after, stepOutStop, isRet_eq]
      by_cases hr : (sigOf (m.read m.pc) == some Sig.ret) = true
      · simp [hr, pausedAt]
      · have hr' : (sigOf (m.read m.pc) == some Sig.ret) = false := by simpa using hr
        simp only [hr', Bool.false_eq_true, if_false, pausedAt, Bool.false_or]
        rw [runStatus_finish so mi bps f (j + 1) m' w']
    | exit c w' => rfl
    | panic s => rfl

theorem runStatus_stepInto (so mi : Bool) (bps : BpSet) (K : Nat) : ∀ (f j : Nat) (c : Word) (m : Machine) (w : World),
    j + c.toNat + 1 = K →
    runStatus so mi bps f j (.stepInto c) m w = runUntil so mi (fun _ n _ => n == K) bps f j m w
  | 0, j, c, m, w, _ => rfl
  | f + 1, j, c, m, w, hK => by
    unfold runStatus runUntil
    cases RefDebug.step so mi m w with
    | ok m' w' =>
      simp only [after]
      by_cases hc : c.toNat > 0
      · have hne : (j + 1 == K) = false := by simp; omega
        simp only [hc, if_true, pausedAt, hne, Bool.false_or]
        have hc1 : (c - 1).toNat = c.toNat - 1 := by
          have := c.isLt
          simp [BitVec.toNat_sub]; omega
        rw [runStatus_stepInto so mi bps K f (j + 1) (c - 1) m' w' (by omega)]
      · have he : (j + 1 == K) = true := by simp; omega
        simp [hc, pausedAt, he]
    | exit c' w' => rfl
    | panic s => rfl

end Lace.RefDebugProofs
