/-
  C14: `TryParse` for registers, PC offsets, labels, memory locations and locations, and the
  `NaiveType` pre-check, against the grammar.
-/
import Lace.Proofs.CmdInteger
import Lace.Proofs.CmdText
import Lace.Model.Cmd.Parse
namespace Lace.C14
open Lace.Cmd Lace.CmdGrammar

/-- A result that is not a panic. -/
def NoPanic {α : Type} (r : PR α) : Prop := ∀ s, r ≠ .panic s

/-- `ok v ↦ some v`, everything else ↦ `none` (what the callers do with `Ok(None)` / `Err`). -/
def collapse {α : Type} : PR α → Option α
  | .ok a => some a
  | _ => none

/-! ### the grammar never panics -/

theorem number_noPanic (sign : Option Int) (d : Bool) (r : Nat) (body : List Char) :
    NoPanic (number sign d r body) := by
  intro s
  unfold number
  simp only
  repeat' split
  all_goals simp

theorem afterZero_noPanic (sign : Option Int) (z : Bool) (s₂ : List Char) :
    NoPanic (afterZero sign z s₂) := by
  intro s
  unfold afterZero
  repeat' split
  all_goals first | exact number_noPanic _ _ _ _ s | simp

theorem integer_noPanic (t : List Char) : NoPanic (integer t) := by
  intro s
  unfold integer unsignedPart
  repeat' split
  all_goals first | exact afterZero_noPanic _ _ _ s | simp

theorem signedInteger_noPanic (t : List Char) : NoPanic (signedInteger t) := by
  intro s
  unfold signedInteger
  repeat' split
  all_goals first | exact integer_noPanic _ s | simp

/-- **`parse_integer` never panics** (the `assert!` after the digit loop and the overflow check
on `integer *= sign` cannot fire). -/
theorem parseInteger_noPanic (t : List Char) : NoPanic (parseInteger t) := by
  rw [parseInteger_eq]; exact integer_noPanic t

theorem parseIntegerSigned_noPanic (t : List Char) : NoPanic (parseIntegerSigned t) := by
  rw [parseIntegerSigned_eq]; exact signedInteger_noPanic t

/-! ### conversions -/

theorem asI16_eq (v : Int) : Cmd.asI16 v = CmdGrammar.asI16 v := rfl
theorem asU16_eq (v : Int) : Cmd.asU16 v = CmdGrammar.asU16 v := rfl
theorem asU16Cast_eq (v : Int) : Cmd.asU16Cast v = CmdGrammar.asU16Cast v := by
  unfold Cmd.asU16Cast CmdGrammar.asU16Cast Cmd.asI16 Cmd.asU16
  by_cases h : v < 0
  · simp only [h, if_true]
    by_cases h2 : -32768 ≤ v ∧ v ≤ 32767
    · have : -32768 ≤ v ∧ v ≤ 65535 := ⟨h2.1, by omega⟩
      simp [h2, this]
    · have : ¬ (-32768 ≤ v ∧ v ≤ 65535) := by omega
      simp [h2, this]
  · simp only [h, if_false]
    by_cases h2 : 0 ≤ v ∧ v ≤ 65535
    · have : -32768 ≤ v ∧ v ≤ 65535 := ⟨by omega, h2.2⟩
      simp [h2, this]
    · have : ¬ (-32768 ≤ v ∧ v ≤ 65535) := by omega
      simp [h2, this]

theorem offsetOf_eq {r : PR Int} (h : NoPanic r) : offsetOf r = offset r := by
  unfold offsetOf offset
  cases r with
  | ok v => simp only [asI16_eq]; rfl
  | none => rfl
  | err => rfl
  | panic s => exact absurd rfl (h s)

theorem offset_cases (r : PR Int) : (∃ o, offset r = .ok o) ∨ offset r = .err := by
  unfold offset
  cases r with
  | ok v => cases h : CmdGrammar.asI16 v <;> simp [h]
  | none => simp
  | err => simp
  | panic s => simp

/-! ### label characters -/

theorem canStartWith_eq (c : Char) : canStartWith c = isLabelStart c := by
  have e1 : 'a'.toNat = 97 := by decide
  have e2 : 'z'.toNat = 122 := by decide
  have e3 : 'A'.toNat = 65 := by decide
  have e4 : 'Z'.toNat = 90 := by decide
  unfold canStartWith isLabelStart
  simp only [e1, e2, e3, e4]
  have : (c.toNat == 95) = (c == '_') := by
    rw [Bool.eq_iff_iff]
    simp only [beq_iff_eq]
    constructor
    · intro h; exact Char.toNat_inj.1 (by rw [h]; decide)
    · intro h; subst h; decide
  rw [this]

theorem canContain_eq (c : Char) : canContain c = isLabelChar c := by
  have e5 : '0'.toNat = 48 := by decide
  have e6 : '9'.toNat = 57 := by decide
  have h := canStartWith_eq c
  unfold canContain isLabelChar
  unfold canStartWith at h
  simp only [e5, e6, ← h]
  cases (decide (97 ≤ c.toNat) && decide (c.toNat ≤ 122)) <;>
    cases (decide (65 ≤ c.toNat) && decide (c.toNat ≤ 90)) <;>
    cases (decide (48 ≤ c.toNat) && decide (c.toNat ≤ 57)) <;>
    cases (c.toNat == 95) <;> rfl

/-! ### memory locations -/

theorem tryParsePCOffset_eq (c : Char) (rest : List Char) :
    tryParsePCOffset (c :: rest) =
      if c = '^' then (if rest = [] then .ok 0 else offset (integer rest)) else .none := by
  unfold tryParsePCOffset
  by_cases hc : c = '^'
  · subst hc
    have hd : dropBytes ('^' :: rest) 1 = some rest := by
      have := dropBytes_cons_add '^' rest 0
      have h1 : '^'.utf8Size = 1 := by decide
      rw [h1] at this
      simpa [dropBytes_zero] using this
    simp only [ne_eq, not_true_eq_false, if_false, hd, if_true]
    cases rest with
    | nil => simp
    | cons d ds =>
      simp only [List.isEmpty_cons, Bool.false_eq_true, if_false, reduceCtorEq]
      rw [offsetOf_eq (parseInteger_noPanic _), parseInteger_eq]
  · simp [hc]

theorem tryParseLabel_eq (c : Char) (rest : List Char) :
    tryParseLabel (c :: rest) =
      if ¬ isLabelStart c then .none else
      if rest.dropWhile isLabelChar = [] then .ok (c :: rest.takeWhile isLabelChar, 0) else
      match offset (signedInteger (rest.dropWhile isLabelChar)) with
      | .ok o => .ok (c :: rest.takeWhile isLabelChar, o)
      | _ => .err := by
  unfold tryParseLabel
  have hcc : canContain = isLabelChar := funext canContain_eq
  simp only [canStartWith_eq, hcc]
  by_cases hs : isLabelStart c = true
  · simp only [hs, not_true_eq_false, if_false]
    have hsplit : splitAtBytes (c :: rest)
        (c.utf8Size + utf8Len (rest.takeWhile isLabelChar)) =
        some (c :: rest.takeWhile isLabelChar, rest.dropWhile isLabelChar) := by
      have := splitAtBytes_append (c :: rest.takeWhile isLabelChar) (rest.dropWhile isLabelChar)
      simpa [List.takeWhile_append_dropWhile] using this
    simp only [hsplit]
    cases hd : rest.dropWhile isLabelChar with
    | nil => simp
    | cons d ds =>
      simp only [List.isEmpty_cons, Bool.false_eq_true, if_false, reduceCtorEq]
      rw [offsetOf_eq (parseIntegerSigned_noPanic _), parseIntegerSigned_eq]
      rcases offset_cases (signedInteger (d :: ds)) with ⟨o, h⟩ | h <;> rw [h]
  · simp [hs]

/-- **`MemoryLocation::try_parse` is the grammar's `memLoc`**, on every token. -/
theorem tryParseMemLoc_eq (t : List Char) : tryParseMemLoc t = memLoc t := by
  cases t with
  | nil => simp [tryParseMemLoc, tryParsePCOffset, parseInteger, parseIntegerWith, tryParseLabel, memLoc]
  | cons c rest =>
    unfold tryParseMemLoc memLoc
    rw [tryParsePCOffset_eq]
    by_cases hc : c = '^'
    · simp only [hc, if_true]
      cases rest with
      | nil => simp
      | cons d ds =>
        simp only [reduceCtorEq, if_false]
        rcases offset_cases (integer (d :: ds)) with ⟨o, h⟩ | h <;> rw [h]
    · simp only [hc, if_false]
      rw [parseInteger_eq]
      have hnp := integer_noPanic (c :: rest)
      cases hi : integer (c :: rest) with
      | ok v => simp only [asU16_eq]; cases CmdGrammar.asU16 v <;> rfl
      | err => rfl
      | panic s => exact absurd hi (hnp s)
      | none =>
        simp only [tryParseLabel_eq]
        by_cases hs : isLabelStart c = true
        · simp only [hs, not_true_eq_false, if_false]
          cases hd : rest.dropWhile isLabelChar with
          | nil => simp
          | cons d ds =>
            simp only [reduceCtorEq, if_false]
            rcases offset_cases (signedInteger (d :: ds)) with ⟨o, h⟩ | h <;> rw [h]
        · simp [hs]

theorem memLoc_noPanic (t : List Char) : NoPanic (memLoc t) := by
  intro s
  unfold memLoc
  repeat' split
  all_goals first
    | (simp; done)
    | (intro h; dsimp only at h; split at h
       · simp at h
       · rcases offset_cases (signedInteger (List.dropWhile isLabelChar _)) with ⟨o, ho⟩ | ho <;>
           rw [ho] at h <;> simp at h)

/-! ### registers and locations -/

theorem tryParseRegister_eq (t : List Char) :
    tryParseRegister t = match registerLike t with
      | some (r, []) => .ok r
      | some (_, _ :: _) => .err
      | none => .none := by
  have e0 : '0'.toNat = 48 := by decide
  have e7 : '7'.toNat = 55 := by decide
  unfold tryParseRegister registerLike
  simp only [e0, e7]
  match t with
  | [] => simp
  | [c] => by_cases hc : c = 'r' ∨ c = 'R' <;> simp [hc]
  | c :: d :: rest =>
    by_cases hc : c = 'r' ∨ c = 'R'
    · simp only [hc, not_true_eq_false, if_false, true_and, registerDigit]
      by_cases hd : 48 ≤ d.toNat ∧ d.toNat ≤ 55
      · simp only [hd, if_true, true_and, and_self]
        cases rest with
        | nil => simp
        | cons x xs =>
          simp only [List.head?_cons, Option.all_some, canContain_eq]
          by_cases hx : isLabelChar x = true
          · simp [hx]
          · simp [hx]
      · have : ¬ (48 ≤ d.toNat ∧ d.toNat ≤ 55 ∧
            (Option.all (fun x => !isLabelChar x) rest.head?) = true) := fun h => hd ⟨h.1, h.2.1⟩
        simp [hd, this]
    · simp [hc]

theorem tryParseLoc_collapse (t : List Char) : collapse (tryParseLoc t) = locArg t := by
  unfold tryParseLoc locArg
  rw [tryParseRegister_eq, tryParseMemLoc_eq]
  have hnp := memLoc_noPanic t
  cases hr : registerLike t with
  | none =>
    simp only
    cases hm : memLoc t with
    | ok l => rfl
    | none => rfl
    | err => rfl
    | panic s => exact absurd hm (hnp s)
  | some p =>
    obtain ⟨r, rest⟩ := p
    cases rest <;> rfl

theorem tryParseLoc_noPanic (t : List Char) : NoPanic (tryParseLoc t) := by
  intro s
  unfold tryParseLoc
  rw [tryParseRegister_eq, tryParseMemLoc_eq]
  have hnp := memLoc_noPanic t
  cases hr : registerLike t with
  | none =>
    simp only
    cases hm : memLoc t with
    | ok l => simp
    | none => simp
    | err => simp
    | panic s' => exact absurd hm (hnp s')
  | some p =>
    obtain ⟨r, rest⟩ := p
    cases rest <;> simp

/-! ### the `NaiveType` pre-check -/

theorem isStrRegister_eq (t : List Char) : isStrRegister t = (registerLike t).isSome := by
  have e0 : '0'.toNat = 48 := by decide
  have e7 : '7'.toNat = 55 := by decide
  unfold isStrRegister registerLike
  simp only [e0, e7]
  match t with
  | [] => simp
  | [c] => simp
  | c :: d :: rest =>
    simp only
    by_cases hc : c = 'r' ∨ c = 'R'
    · by_cases hd : 48 ≤ d.toNat ∧ d.toNat ≤ 55
      · cases rest with
        | nil => simp [hc, hd]
        | cons x xs =>
          by_cases hx : isLabelChar x = true <;> simp [hc, hd, canContain_eq, hx]
      · have : ¬ (48 ≤ d.toNat ∧ d.toNat ≤ 55 ∧
            (Option.all (fun x => !isLabelChar x) rest.head?) = true) := fun h => hd ⟨h.1, h.2.1⟩
        simp [hc, hd, this]
    · simp [hc]

theorem registerLike_first {t : List Char} (h : (registerLike t).isSome = true) :
    ∃ c rest, t = c :: rest ∧ (c = 'r' ∨ c = 'R') := by
  unfold registerLike at h
  match t with
  | [] => simp at h
  | [c] => simp at h
  | c :: d :: rest =>
    simp only at h
    by_cases hc : c = 'r' ∨ c = 'R'
    · exact ⟨c, d :: rest, rfl, hc⟩
    · simp [hc] at h

/-- In a memory-location position the pre-check rejects exactly the register-like tokens. -/
theorem checkNaive_memLoc (t : List Char) :
    checkNaiveType [.integer, .label, .pcOffset] t = !(registerLike t).isSome := by
  unfold checkNaiveType naiveType
  rw [isStrRegister_eq]
  by_cases hr : (registerLike t).isSome = true
  · obtain ⟨c, rest, ht, hc⟩ := registerLike_first hr
    have hp : isStrPCOffset t = false := by
      subst ht
      rcases hc with h | h <;> subst h <;> simp [isStrPCOffset]
    simp [hp, hr]
  · simp only [hr]
    split
    · simp
    · rename_i t' heq
      have : t' = .integer ∨ t' = .label ∨ t' = .pcOffset := by
        simp only [Bool.false_eq_true, if_false] at heq
        repeat' split at heq
        all_goals simp_all
      rcases this with h | h | h <;> subst h <;> simp

theorem all_of_takeWhile_length {p : Char → Bool} (l : List Char)
    (h : ¬ (l.takeWhile p).length < l.length) : l.all p = true := by
  induction l with
  | nil => rfl
  | cons c cs ih =>
    by_cases hc : p c = true
    · simp only [List.takeWhile, hc, List.length_cons, Nat.add_lt_add_iff_right] at h
      simp [hc, ih h]
    · simp [List.takeWhile, hc] at h

theorem number_ok {sign : Option Int} {d : Bool} {r : Nat} {body : List Char} {v : Int}
    (h : number sign d r body = .ok v) : body ≠ [] ∧ body.all (isDigit r) = true := by
  unfold number at h
  simp only at h
  split at h
  · split at h <;> simp at h
  · rename_i hne
    split at h
    · simp at h
    · split at h
      · split at h <;> simp at h
      · rename_i hlen
        exact ⟨hne, all_of_takeWhile_length body hlen⟩

/-- A token the grammar reads as an integer passes the pre-check of an integer position. -/
theorem checkNaive_integer {t : List Char} {v : Int} (h : integer t = .ok v) :
    checkNaiveType [.integer] t = true := by
  cases t with
  | nil => simp [integer] at h
  | cons c rest =>
    by_cases hA : c = '-' ∨ c = '+' ∨ c = '#' ∨ (48 ≤ c.toNat ∧ c.toNat ≤ 57)
    · have h1 : isStrInteger (c :: rest) = true := by simp [isStrInteger, hA]
      have h2 : isStrPCOffset (c :: rest) = false := by
        rcases hA with h | h | h | h
        · subst h; simp [isStrPCOffset]
        · subst h; simp [isStrPCOffset]
        · subst h; simp [isStrPCOffset]
        · simp only [isStrPCOffset, decide_eq_false_iff_not]; intro hc; subst hc; simp at h
      have h3 : isStrRegister (c :: rest) = false := by
        cases rest with
        | nil => rfl
        | cons d ds =>
          have : ¬ (c = 'r' ∨ c = 'R') := by
            rcases hA with h | h | h | h
            · subst h; decide
            · subst h; decide
            · subst h; decide
            · intro hc; rcases hc with hc | hc <;> subst hc <;> simp at h
          simp [isStrRegister, this]
      simp [checkNaiveType, naiveType, h1, h2, h3]
    · have hm : c ≠ '-' := fun hc => hA (.inl hc)
      have hp : c ≠ '+' := fun hc => hA (.inr (.inl hc))
      have hh : c ≠ '#' := fun hc => hA (.inr (.inr (.inl hc)))
      have hd : ¬ (48 ≤ c.toNat ∧ c.toNat ≤ 57) := fun hc => hA (.inr (.inr (.inr hc)))
      have hz : c ≠ '0' := by intro hc; subst hc; simp at hd
      have hos : optSign (c :: rest) = (none, c :: rest) := by
        unfold optSign; split <;> simp_all
      have hne : ¬ (c :: rest = ['0']) := by simp [hz]
      have hdig : ¬ isDigit 10 c = true := fun hc => hd ((isDigit10_iff c).1 hc)
      simp only [integer, reduceCtorEq, if_false, hos, unsignedPart, hne, hz, afterZero] at h
      cases hr : radixOfPrefix c with
      | none =>
        rw [hr] at h
        simp [hdig, hm, hp] at h
      | some r =>
        rw [hr] at h
        simp only [hh, false_and, if_false, Option.isSome_none, Bool.false_eq_true] at h
        have hok := number_ok h
        -- the radix of the model
        have hradix : ∃ radix : Radix, radix.toNat = r ∧
            (if c = 'b' ∨ c = 'B' then some Radix.binary
             else if c = 'o' ∨ c = 'O' then some Radix.octal
             else if c = 'x' ∨ c = 'X' then some Radix.hex else none) = some radix := by
          unfold radixOfPrefix at hr
          by_cases h1 : c = 'b' ∨ c = 'B'
          · simp only [h1, if_true, Option.some.injEq] at hr; exact ⟨.binary, by simp [Radix.toNat, ← hr], by simp [h1]⟩
          · by_cases h2 : c = 'o' ∨ c = 'O'
            · simp only [h1, h2, if_true, if_false, Option.some.injEq] at hr
              exact ⟨.octal, by simp [Radix.toNat, ← hr], by simp [h1, h2]⟩
            · by_cases h3 : c = 'x' ∨ c = 'X'
              · simp only [h1, h2, h3, if_true, if_false, Option.some.injEq] at hr
                exact ⟨.hex, by simp [Radix.toNat, ← hr], by simp [h1, h2, h3]⟩
              · simp [h1, h2, h3, hh] at hr
        obtain ⟨radix, hrn, hrad⟩ := hradix
        have hfirst : c = 'b' ∨ c = 'B' ∨ c = 'o' ∨ c = 'O' ∨ c = 'x' ∨ c = 'X' := by
          by_cases h1 : c = 'b' ∨ c = 'B'
          · rcases h1 with h | h <;> simp [h]
          · by_cases h2 : c = 'o' ∨ c = 'O'
            · rcases h2 with h | h <;> simp [h]
            · by_cases h3 : c = 'x' ∨ c = 'X'
              · rcases h3 with h | h <;> simp [h]
              · simp [h1, h2, h3] at hrad
        have h1 : isStrInteger (c :: rest) = true := by
          unfold isStrInteger
          simp only [hA, if_false, hrad]
          have hsk : (takeSign rest).2 = (optSign rest).2 := by rw [optSign_eq]
          rw [hsk]
          have hne' : (optSign rest).2 ≠ [] := hok.1
          have hall : (optSign rest).2.all (fun ch => (radix.parseDigit ch).isSome) = true := by
            have := hok.2
            rw [← hrn] at this
            simpa [parseDigit_eq, isDigit] using this
          cases hb : (optSign rest).2 with
          | nil => exact absurd hb hne'
          | cons x xs => rw [hb] at hall; simpa using hall
        have h2 : isStrPCOffset (c :: rest) = false := by
          rcases hfirst with h | h | h | h | h | h <;> subst h <;> simp [isStrPCOffset]
        have h3 : isStrRegister (c :: rest) = false := by
          cases rest with
          | nil => rfl
          | cons d ds =>
            have : ¬ (c = 'r' ∨ c = 'R') := by
              rcases hfirst with h | h | h | h | h | h <;> subst h <;> decide
            simp [isStrRegister, this]
        simp [checkNaiveType, naiveType, h1, h2, h3]

end Lace.C14
