/-
  Lemmas about the preprocessor and parser model (`Lace/Model/Parser.lean`) used by C05: no
  iteration panics, every diagnostic span lies inside the source, every iteration consumes input
  (so the fuel the loops are started with suffices), and the token stream handed to the parser
  only contains kinds the parser can meet.
-/
import Lace.Proofs.AsmLex
namespace Lace.Asm

/-- Token kinds that can occur in the preprocessed stream. -/
def StreamKind : TokenKind → Prop
  | .whitespace => False
  | .comment => False
  | .eof => False
  | .dir d => d = .orig
  | _ => True

/-- A token of the preprocessed stream: its span lies inside the source and its kind is one the
parser can meet. -/
def TokIn (total : Nat) (t : Token) : Prop :=
  t.span.offs + t.span.len ≤ total ∧ StreamKind t.kind

theorem join_ok {total : Nat} {a b : Span} (ha : a.offs + a.len ≤ total) (hb : b.offs + b.len ≤ total) :
    ∃ s, a.join? b = some s ∧ s.offs + s.len ≤ total := by
  unfold Span.join? Span.stop
  simp only []
  split
  · omega
  · exact ⟨_, rfl, by simp only []; omega⟩

/-- What C05 needs to know about a result of the preprocessor. -/
def ResToksOk (total : Nat) : Res (List Token) → Prop
  | .panic _ => False
  | .diag _ none => False
  | .diag _ (some (o, l)) => o + l ≤ total
  | .ok toks => ∀ t ∈ toks, TokIn total t

def PreOk (total n : Nat) : PreStep → Prop
  | .done r => ResToksOk total r
  | .more pos' rest' acc' =>
    pos' + utf8Len rest' = total ∧ rest'.length < n ∧ ∀ t ∈ acc', TokIn total t

theorem byteTok_in {total : Nat} {v : Word} {s : Span} (h : s.offs + s.len ≤ total) :
    TokIn total (byteTok v s) := ⟨h, trivial⟩

theorem preprocessStep_ok (f : Bool) (pos : Nat) (rest : List Char) (acc : List Token)
    (hacc : ∀ t ∈ acc, TokIn (pos + utf8Len rest) t) :
    PreOk (pos + utf8Len rest) rest.length (preprocessStep (some f) pos rest acc) := by
  have h1 := advanceReal_ok f pos rest
  unfold preprocessStep
  generalize advanceReal (some f) pos rest = r1 at h1 ⊢
  cases r1 with
  | panic s => exact h1
  | diag k o l => exact h1
  | tok d pos1 rest1 =>
    obtain ⟨hd1, hd2, hd3, hd4⟩ := h1
    have h2 := advanceReal_ok f pos1 rest1
    rw [hd2] at h2
    simp only []
    -- facts about the second token, used by .fill / .blkw / .stringz
    split
    · -- .fill
      rename_i hk
      have hlt : rest1.length < rest.length := by
        rcases hd3 with h | h
        · rw [hk] at h; simp at h
        · exact h
      generalize advanceReal (some f) pos1 rest1 = r2 at h2 ⊢
      cases r2 with
      | panic s => exact h2
      | diag k o l => exact h2
      | tok val pos2 rest2 =>
        obtain ⟨hv1, hv2, hv3, hv4⟩ := h2
        obtain ⟨s, hs, hs'⟩ := join_ok hd1 hv1
        simp only [hs]
        have hlt2 : val.kind ≠ .eof → rest2.length < rest.length := by
          intro hne; rcases hv3 with h | h
          · exact absurd h hne
          · omega
        split
        · rename_i hvk
          exact ⟨hv2, hlt2 (by rw [hvk]; simp), fun t ht => by
            rcases List.mem_cons.mp ht with rfl | ht
            · exact byteTok_in hs'
            · exact hacc t ht⟩
        · rename_i hvk
          exact ⟨hv2, hlt2 (by rw [hvk]; simp), fun t ht => by
            rcases List.mem_cons.mp ht with rfl | ht
            · exact byteTok_in hs'
            · exact hacc t ht⟩
        · exact hv1
    · -- .blkw
      rename_i hk
      have hlt : rest1.length < rest.length := by
        rcases hd3 with h | h
        · rw [hk] at h; simp at h
        · exact h
      generalize advanceReal (some f) pos1 rest1 = r2 at h2 ⊢
      cases r2 with
      | panic s => exact h2
      | diag k o l => exact h2
      | tok val pos2 rest2 =>
        obtain ⟨hv1, hv2, hv3, hv4⟩ := h2
        obtain ⟨s, hs, hs'⟩ := join_ok hd1 hv1
        simp only [hs]
        have hlt2 : val.kind ≠ .eof → rest2.length < rest.length := by
          intro hne; rcases hv3 with h | h
          · exact absurd h hne
          · omega
        split
        · rename_i hvk
          exact ⟨hv2, hlt2 (by rw [hvk]; simp), fun t ht => by
            rcases List.mem_append.mp ht with ht | ht
            · rw [List.eq_of_mem_replicate ht]; exact byteTok_in hs'
            · exact hacc t ht⟩
        · rename_i hvk
          exact ⟨hv2, hlt2 (by rw [hvk]; simp), fun t ht => by
            rcases List.mem_append.mp ht with ht | ht
            · rw [List.eq_of_mem_replicate ht]; exact byteTok_in hs'
            · exact hacc t ht⟩
        · exact hv1
    · -- .stringz
      rename_i hk
      have hlt : rest1.length < rest.length := by
        rcases hd3 with h | h
        · rw [hk] at h; simp at h
        · exact h
      generalize advanceReal (some f) pos1 rest1 = r2 at h2 ⊢
      cases r2 with
      | panic s => exact h2
      | diag k o l => exact h2
      | tok val pos2 rest2 =>
        obtain ⟨hv1, hv2, hv3, hv4⟩ := h2
        obtain ⟨s, hs, hs'⟩ := join_ok hd1 hv1
        simp only []
        have hlt2 : val.kind ≠ .eof → rest2.length < rest.length := by
          intro hne; rcases hv3 with h | h
          · exact absurd h hne
          · omega
        split
        · rename_i hvk
          simp only [hs]
          have hsq := hv4 hvk
          split
          · rename_i hnone; rw [hnone] at hsq; simp at hsq
          · exact ⟨hv2, hlt2 (by rw [hvk]; simp), fun t ht => by
              rcases List.mem_cons.mp ht with rfl | ht
              · exact byteTok_in hs'
              · rcases List.mem_append.mp ht with ht | ht
                · rw [List.mem_reverse, List.mem_map] at ht
                  obtain ⟨c, _, rfl⟩ := ht
                  exact byteTok_in hs'
                · exact hacc t ht⟩
        · exact hv1
    · -- .break
      rename_i hk
      have hlt : rest1.length < rest.length := by
        rcases hd3 with h | h
        · rw [hk] at h; simp at h
        · exact h
      exact ⟨hd2, hlt, fun t ht => by
        rcases List.mem_cons.mp ht with rfl | ht
        · exact ⟨hd1, trivial⟩
        · exact hacc t ht⟩
    · -- comment
      rename_i hk
      have hlt : rest1.length < rest.length := by
        rcases hd3 with h | h
        · rw [hk] at h; simp at h
        · exact h
      exact ⟨hd2, hlt, hacc⟩
    · -- white space
      rename_i hk
      have hlt : rest1.length < rest.length := by
        rcases hd3 with h | h
        · rw [hk] at h; simp at h
        · exact h
      exact ⟨hd2, hlt, hacc⟩
    · -- end of input
      exact fun t ht => hacc t (List.mem_reverse.mp ht)
    · -- .end
      exact fun t ht => hacc t (List.mem_reverse.mp ht)
    · -- any other token is passed through
      rename_i h_fill h_blkw h_stringz h_break h_comment h_ws h_eof h_end
      have hlt : rest1.length < rest.length := by
        rcases hd3 with h | h
        · exact absurd h h_eof
        · exact h
      refine ⟨hd2, hlt, fun t ht => ?_⟩
      rcases List.mem_cons.mp ht with rfl | ht
      · refine ⟨hd1, ?_⟩
        cases hk : t.kind with
        | dir dk => cases dk <;> simp_all [StreamKind]
        | _ => simp_all [StreamKind]
      · exact hacc t ht

theorem preprocessLoop_ok (f : Bool) : ∀ (fuel pos : Nat) (rest : List Char) (acc : List Token),
    rest.length < fuel → (∀ t ∈ acc, TokIn (pos + utf8Len rest) t) →
    ResToksOk (pos + utf8Len rest) (preprocessLoop (some f) fuel pos rest acc) := by
  intro fuel
  induction fuel with
  | zero => intro pos rest acc h; omega
  | succ fuel ih =>
    intro pos rest acc hlen hacc
    have hs := preprocessStep_ok f pos rest acc hacc
    unfold preprocessLoop
    generalize preprocessStep (some f) pos rest acc = r at hs ⊢
    cases r with
    | done r => exact hs
    | more pos' rest' acc' =>
      obtain ⟨h1, h2, h3⟩ := hs
      have := ih pos' rest' acc' (by omega) (by rw [h1]; exact h3)
      rw [h1] at this
      exact this

theorem preprocess_ok (f : Bool) (src : List Char) :
    ResToksOk (utf8Len src) (preprocess (some f) src) := by
  have := preprocessLoop_ok f (src.length + 1) 0 src [] (by omega) (by simp)
  simpa [preprocess] using this

end Lace.Asm
