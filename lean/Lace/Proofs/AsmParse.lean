/-
  Lemmas about the preprocessor and parser model (`Lace/Model/Parser.lean`) used by C05: no
  iteration panics, every diagnostic span lies inside the source, every iteration consumes input
  (so the fuel the loops are started with suffices), and the token stream handed to the parser
  only contains kinds the parser can meet.

  The lemmas about `expect_*`, `parse_instr` and `parse_trap` come in two forms: primed
  (`expectWhere_ok'` … `parseInstr_ok'`, `parseTrap_ok'`), which only ask that every token can be
  displayed (`TokShown`; used by C15 for `parse_simple`, where any directive token may stand in
  operand position), and unprimed corollaries for the whole-program stream (`TokIn`).
-/
import Lace.Proofs.AsmLex
namespace Lace.Asm

/-- Token kinds that can occur in the preprocessed stream. -/
def StreamKind : TokenKind → Prop
  | .whitespace => False
  | .comment => False
  | .eof => False
  | .dir d => d = .orig
  | _ => True

/-- A token of the preprocessed stream: its span lies inside the source and its kind is one the
parser can meet. -/
def TokIn (total : Nat) (t : Token) : Prop :=
  t.span.offs + t.span.len ≤ total ∧ StreamKind t.kind

/-- Token kinds `Display for TokenKind` can format (everything but white space, comments and the
end of input): all that `parse_instr` / `parse_trap` and the `expect_*` family need of the tokens
they look at in order not to panic.  The debugger's statement parser (`parse_simple`) lets every
directive token through, so its stream satisfies this but not `StreamKind`. -/
def ShowKind : TokenKind → Prop
  | .whitespace => False
  | .comment => False
  | .eof => False
  | _ => True

/-- A token whose span lies inside the source and whose kind can be displayed. -/
def TokShown (total : Nat) (t : Token) : Prop :=
  t.span.offs + t.span.len ≤ total ∧ ShowKind t.kind

theorem StreamKind.shown {k : TokenKind} (h : StreamKind k) : ShowKind k := by
  cases k <;> simp_all [StreamKind, ShowKind]

theorem TokIn.shown {total : Nat} {t : Token} (h : TokIn total t) : TokShown total t :=
  ⟨h.1, h.2.shown⟩

theorem join_ok {total : Nat} {a b : Span} (ha : a.offs + a.len ≤ total) (hb : b.offs + b.len ≤ total) :
    ∃ s, a.join? b = some s ∧ s.offs + s.len ≤ total := by
  unfold Span.join? Span.stop
  simp only []
  split
  · omega
  · exact ⟨_, rfl, by simp only []; omega⟩

/-- What C05 needs to know about a result of the preprocessor. -/
def ResToksOk (total : Nat) : Res (List Token) → Prop
  | .panic _ => False
  | .diag _ none => False
  | .diag _ (some (o, l)) => o + l ≤ total
  | .ok toks => ∀ t ∈ toks, TokIn total t

def PreOk (total n : Nat) : PreStep → Prop
  | .done r => ResToksOk total r
  | .more pos' rest' acc' =>
    pos' + utf8Len rest' = total ∧ rest'.length < n ∧ ∀ t ∈ acc', TokIn total t

theorem byteTok_in {total : Nat} {v : Word} {s : Span} (h : s.offs + s.len ≤ total) :
    TokIn total (byteTok v s) := ⟨h, trivial⟩

theorem preprocessStep_ok (f : Bool) (pos : Nat) (rest : List Char) (acc : List Token)
    (hacc : ∀ t ∈ acc, TokIn (pos + utf8Len rest) t) :
    PreOk (pos + utf8Len rest) rest.length (preprocessStep (some f) pos rest acc) := by
  have h1 := advanceReal_ok f pos rest
  unfold preprocessStep
  generalize advanceReal (some f) pos rest = r1 at h1 ⊢
  cases r1 with
  | panic s => exact h1
  | diag k o l => exact h1
  | tok d pos1 rest1 =>
    obtain ⟨hd1, hd2, hd3, hd4⟩ := h1
    have h2 := advanceReal_ok f pos1 rest1
    rw [hd2] at h2
    simp only []
    -- facts about the second token, used by .fill / .blkw / .stringz
    split
    · -- .fill
      rename_i hk
      have hlt : rest1.length < rest.length := by
        rcases hd3 with h | h
        · rw [hk] at h; simp at h
        · exact h
      generalize advanceReal (some f) pos1 rest1 = r2 at h2 ⊢
      cases r2 with
      | panic s => exact h2
      | diag k o l => exact h2
      | tok val pos2 rest2 =>
        obtain ⟨hv1, hv2, hv3, hv4⟩ := h2
        obtain ⟨s, hs, hs'⟩ := join_ok hd1 hv1
        simp only [hs]
        have hlt2 : val.kind ≠ .eof → rest2.length < rest.length := by
          intro hne; rcases hv3 with h | h
          · exact absurd h hne
          · omega
        split
        · rename_i hvk
          exact ⟨hv2, hlt2 (by rw [hvk]; simp), fun t ht => by
            rcases List.mem_cons.mp ht with rfl | ht
            · exact byteTok_in hs'
            · exact hacc t ht⟩
        · rename_i hvk
          exact ⟨hv2, hlt2 (by rw [hvk]; simp), fun t ht => by
            rcases List.mem_cons.mp ht with rfl | ht
            · exact byteTok_in hs'
            · exact hacc t ht⟩
        · exact hv1
    · -- .blkw
      rename_i hk
      have hlt : rest1.length < rest.length := by
        rcases hd3 with h | h
        · rw [hk] at h; simp at h
        · exact h
      generalize advanceReal (some f) pos1 rest1 = r2 at h2 ⊢
      cases r2 with
      | panic s => exact h2
      | diag k o l => exact h2
      | tok val pos2 rest2 =>
        obtain ⟨hv1, hv2, hv3, hv4⟩ := h2
        obtain ⟨s, hs, hs'⟩ := join_ok hd1 hv1
        simp only [hs]
        have hlt2 : val.kind ≠ .eof → rest2.length < rest.length := by
          intro hne; rcases hv3 with h | h
          · exact absurd h hne
          · omega
        split
        · rename_i hvk
          exact ⟨hv2, hlt2 (by rw [hvk]; simp), fun t ht => by
            rcases List.mem_append.mp ht with ht | ht
            · rw [List.eq_of_mem_replicate ht]; exact byteTok_in hs'
            · exact hacc t ht⟩
        · rename_i hvk
          exact ⟨hv2, hlt2 (by rw [hvk]; simp), fun t ht => by
            rcases List.mem_append.mp ht with ht | ht
            · rw [List.eq_of_mem_replicate ht]; exact byteTok_in hs'
            · exact hacc t ht⟩
        · exact hv1
    · -- .stringz
      rename_i hk
      have hlt : rest1.length < rest.length := by
        rcases hd3 with h | h
        · rw [hk] at h; simp at h
        · exact h
      generalize advanceReal (some f) pos1 rest1 = r2 at h2 ⊢
      cases r2 with
      | panic s => exact h2
      | diag k o l => exact h2
      | tok val pos2 rest2 =>
        obtain ⟨hv1, hv2, hv3, hv4⟩ := h2
        obtain ⟨s, hs, hs'⟩ := join_ok hd1 hv1
        simp only []
        have hlt2 : val.kind ≠ .eof → rest2.length < rest.length := by
          intro hne; rcases hv3 with h | h
          · exact absurd h hne
          · omega
        split
        · rename_i hvk
          simp only [hs]
          have hsq := hv4 hvk
          split
          · rename_i hnone; rw [hnone] at hsq; simp at hsq
          · exact ⟨hv2, hlt2 (by rw [hvk]; simp), fun t ht => by
              rcases List.mem_cons.mp ht with rfl | ht
              · exact byteTok_in hs'
              · rcases List.mem_append.mp ht with ht | ht
                · rw [List.mem_reverse, List.mem_map] at ht
                  obtain ⟨c, _, rfl⟩ := ht
                  exact byteTok_in hs'
                · exact hacc t ht⟩
        · exact hv1
    · -- .break
      rename_i hk
      have hlt : rest1.length < rest.length := by
        rcases hd3 with h | h
        · rw [hk] at h; simp at h
        · exact h
      exact ⟨hd2, hlt, fun t ht => by
        rcases List.mem_cons.mp ht with rfl | ht
        · exact ⟨hd1, trivial⟩
        · exact hacc t ht⟩
    · -- comment
      rename_i hk
      have hlt : rest1.length < rest.length := by
        rcases hd3 with h | h
        · rw [hk] at h; simp at h
        · exact h
      exact ⟨hd2, hlt, hacc⟩
    · -- white space
      rename_i hk
      have hlt : rest1.length < rest.length := by
        rcases hd3 with h | h
        · rw [hk] at h; simp at h
        · exact h
      exact ⟨hd2, hlt, hacc⟩
    · -- end of input
      exact fun t ht => hacc t (List.mem_reverse.mp ht)
    · -- .end
      exact fun t ht => hacc t (List.mem_reverse.mp ht)
    · -- any other token is passed through
      rename_i h_fill h_blkw h_stringz h_break h_comment h_ws h_eof h_end
      have hlt : rest1.length < rest.length := by
        rcases hd3 with h | h
        · exact absurd h h_eof
        · exact h
      refine ⟨hd2, hlt, fun t ht => ?_⟩
      rcases List.mem_cons.mp ht with rfl | ht
      · refine ⟨hd1, ?_⟩
        cases hk : t.kind with
        | dir dk => cases dk <;> simp_all [StreamKind]
        | _ => simp_all [StreamKind]
      · exact hacc t ht

theorem preprocessLoop_ok (f : Bool) : ∀ (fuel pos : Nat) (rest : List Char) (acc : List Token),
    rest.length < fuel → (∀ t ∈ acc, TokIn (pos + utf8Len rest) t) →
    ResToksOk (pos + utf8Len rest) (preprocessLoop (some f) fuel pos rest acc) := by
  intro fuel
  induction fuel with
  | zero => intro pos rest acc h; omega
  | succ fuel ih =>
    intro pos rest acc hlen hacc
    have hs := preprocessStep_ok f pos rest acc hacc
    unfold preprocessLoop
    generalize preprocessStep (some f) pos rest acc = r at hs ⊢
    cases r with
    | done r => exact hs
    | more pos' rest' acc' =>
      obtain ⟨h1, h2, h3⟩ := hs
      have := ih pos' rest' acc' (by omega) (by rw [h1]; exact h3)
      rw [h1] at this
      exact this

theorem preprocess_ok (f : Bool) (src : List Char) :
    ResToksOk (utf8Len src) (preprocess (some f) src) := by
  have := preprocessLoop_ok f (src.length + 1) 0 src [] (by omega) (by simp)
  simpa [preprocess] using this

end Lace.Asm

namespace Lace.Asm

/-- Result of an `expect_*` function on a stream `toks` of well-formed tokens. -/
def ExpOk {α : Type} (total : Nat) (toks : List Token) (strict : Bool) :
    Res (α × List Token × β) → Prop
  | .panic _ => False
  | .diag _ none => False
  | .diag _ (some (o, l)) => o + l ≤ total
  | .ok (_, ts, _) =>
    (if strict then ts.length < toks.length else ts.length ≤ toks.length) ∧ ∀ t ∈ ts, t ∈ toks

theorem ExpOk.diag_cast {α β α' β' : Type} {total : Nat} {toks toks' : List Token} {b b' : Bool}
    {k : DiagKind} {s : Option (Nat × Nat)}
    (h : ExpOk (α := α) (β := β) total toks b (.diag k s)) :
    ExpOk (α := α') (β := β') total toks' b' (.diag k s) := by
  cases s with
  | none => exact h.elim
  | some p => exact h

theorem ShowKind.display_isSome {k : TokenKind} (h : ShowKind k) : ∃ s, k.display = some s := by
  cases k <;> simp_all [ShowKind, TokenKind.display]

theorem StreamKind.display_isSome {k : TokenKind} (h : StreamKind k) : ∃ s, k.display = some s :=
  h.shown.display_isSome

theorem unexpectedDiag_ok' {α β : Type} {total : Nat} {toks : List Token} {b : Bool} {t : Token}
    (ht : TokShown total t) : ExpOk (α := α) (β := β) total toks b (unexpectedDiag t) := by
  obtain ⟨s, hs⟩ := ShowKind.display_isSome ht.2
  simp only [unexpectedDiag, hs, ExpOk]
  exact ht.1

theorem eofDiag_ok {α β : Type} {total : Nat} {toks : List Token} {b : Bool} :
    ExpOk (α := α) (β := β) total toks b (eofDiag total) := by
  simp only [eofDiag, ExpOk]; omega

theorem expectWhere_ok' {total : Nat} (check : TokenKind → Bool) (toks : List Token)
    (h : ∀ t ∈ toks, TokShown total t) :
    ExpOk total toks true (expectWhere total check toks) := by
  unfold expectWhere
  split
  · exact eofDiag_ok
  · rename_i t ts
    split
    · simp only [ExpOk, if_true, List.length_cons]
      exact ⟨by omega, fun x hx => List.mem_cons_of_mem _ hx⟩
    · exact unexpectedDiag_ok' (h t (List.mem_cons_self))

def Bits.valid : Bits → Prop
  | .signed n => 1 ≤ n ∧ n ≤ 15
  | .unsigned n => n ≤ 31

theorem expectLit_ok' {total : Nat} (bits : Bits) (hb : bits.valid) (toks : List Token)
    (h : ∀ t ∈ toks, TokShown total t) :
    ExpOk total toks true (expectLit total bits toks) := by
  have hw := expectWhere_ok' isNumLit toks h
  unfold expectLit
  generalize hr : expectWhere total isNumLit toks = r at hw ⊢
  cases r with
  | panic s => exact hw.elim
  | diag k s => exact hw.diag_cast
  | ok p =>
    obtain ⟨t, ts, te⟩ := p
    have htmem : t ∈ toks := by
      unfold expectWhere at hr
      split at hr
      · simp [eofDiag] at hr
      · split at hr
        · simp at hr; rw [← hr.1]; exact List.mem_cons_self
        · simp only [unexpectedDiag] at hr; split at hr <;> simp at hr
    simp only []
    have hcr : ∀ v, ∃ b, checkRange bits v = some b := by
      intro v
      unfold checkRange
      cases bits with
      | signed n =>
        have := hb; simp only [Bits.valid] at this
        simp only []; split
        · omega
        · exact ⟨_, rfl⟩
      | unsigned n =>
        have := hb; simp only [Bits.valid] at this
        simp only []; split
        · omega
        · exact ⟨_, rfl⟩
    split
    · rename_i v _
      obtain ⟨b, hbv⟩ := hcr v
      rw [hbv]; cases b
      · exact (h t htmem).1
      · exact hw
    · rename_i v _
      obtain ⟨b, hbv⟩ := hcr v
      rw [hbv]; cases b
      · exact (h t htmem).1
      · exact hw
    · -- not a numeric literal: impossible, `expectWhere isNumLit` succeeded
      rename_i hnd hnh
      exfalso
      unfold expectWhere at hr
      split at hr
      · simp [eofDiag] at hr
      · split at hr
        · rename_i hc
          simp at hr; rw [hr.1] at hc
          cases hk : t.kind <;> simp_all [isNumLit]
        · simp only [unexpectedDiag] at hr; split at hr <;> simp at hr
end Lace.Asm

namespace Lace.Asm

theorem ExpOk.trans_ok {α β : Type} {total : Nat} {toks ts : List Token} {b : Bool}
    (h1 : ts.length ≤ toks.length) (h2 : ∀ t ∈ ts, t ∈ toks)
    {r : Res (α × List Token × β)} (h : ExpOk total ts b r) : ExpOk total toks b r := by
  cases r with
  | panic s => exact h.elim
  | diag k s => exact h.diag_cast
  | ok p =>
    obtain ⟨a, ts', x⟩ := p
    obtain ⟨h3, h4⟩ := h
    refine ⟨?_, fun t ht => h2 t (h4 t ht)⟩
    cases b <;> simp_all <;> omega

theorem ExpOk.weaken {α β : Type} {total : Nat} {toks : List Token}
    {r : Res (α × List Token × β)} (h : ExpOk total toks true r) : ExpOk total toks false r := by
  cases r with
  | panic s => exact h.elim
  | diag k s => exact h.diag_cast
  | ok p =>
    obtain ⟨a, ts', x⟩ := p
    obtain ⟨h3, h4⟩ := h
    exact ⟨by simp_all; omega, h4⟩

theorem expectReg_ok' {total : Nat} (toks : List Token) (h : ∀ t ∈ toks, TokShown total t) :
    ExpOk total toks true (expectReg total toks) := by
  have hw := expectWhere_ok' isReg toks h
  unfold expectReg
  generalize hr : expectWhere total isReg toks = r at hw ⊢
  cases r with
  | panic s => exact hw.elim
  | diag k s => exact hw.diag_cast
  | ok p =>
    obtain ⟨t, ts, te⟩ := p
    simp only []
    split
    · exact hw
    · rename_i hnr
      exfalso
      unfold expectWhere at hr
      split at hr
      · simp [eofDiag] at hr
      · split at hr
        · rename_i hc
          simp at hr; rw [hr.1] at hc
          cases hk : t.kind <;> simp_all [isReg]
        · simp only [unexpectedDiag] at hr; split at hr <;> simp at hr

theorem expectLitOrReg_ok' {total : Nat} (toks : List Token) (h : ∀ t ∈ toks, TokShown total t) :
    ExpOk total toks true (expectLitOrReg total toks) := by
  unfold expectLitOrReg
  split
  · exact eofDiag_ok
  · rename_i t ts
    split
    · have hw := expectReg_ok' (t :: ts) h
      generalize expectReg total (t :: ts) = r at hw ⊢
      cases r with
      | panic s => exact hw.elim
      | diag k s => exact hw.diag_cast
      | ok p => obtain ⟨a, ts', x⟩ := p; exact hw
    · have hw := expectLit_ok' (.signed 5) (by simp [Bits.valid]) (t :: ts) h
      generalize expectLit total (.signed 5) (t :: ts) = r at hw ⊢
      cases r with
      | panic s => exact hw.elim
      | diag k s => exact hw.diag_cast
      | ok p => obtain ⟨a, ts', x⟩ := p; exact hw
    · exact unexpectedDiag_ok' (h t List.mem_cons_self)

theorem expectLitOrLabel_ok' {total : Nat} (tbl : SymTab) (line bits : Nat) (hb : 1 ≤ bits ∧ bits ≤ 15)
    (toks : List Token) (h : ∀ t ∈ toks, TokShown total t) :
    ExpOk total toks true (expectLitOrLabel total tbl line bits toks) := by
  unfold expectLitOrLabel
  split
  · exact eofDiag_ok
  · rename_i t ts
    split
    · have hw := expectWhere_ok' (fun k => k = .label) (t :: ts) h
      generalize expectWhere total (fun k => decide (k = .label)) (t :: ts) = r at hw ⊢
      cases r with
      | panic s => exact hw.elim
      | diag k s => exact hw.diag_cast
      | ok p => obtain ⟨a, ts', x⟩ := p; exact hw
    · have hw := expectLit_ok' (.signed bits) hb (t :: ts) h
      generalize expectLit total (.signed bits) (t :: ts) = r at hw ⊢
      cases r with
      | panic s => exact hw.elim
      | diag k s => exact hw.diag_cast
      | ok p => obtain ⟨a, ts', x⟩ := p; exact hw
    · exact unexpectedDiag_ok' (h t List.mem_cons_self)

end Lace.Asm

namespace Lace.Asm

/-- after `split` on a `match e with …` whose scrutinee satisfies `hw : ExpOk … e`: close the
diag / panic branches, leave the ok branch with `hw` rewritten -/
macro "exp_step" hw:ident : tactic =>
  `(tactic| (split
             all_goals (rename_i heq; rw [heq] at $hw:ident)
             all_goals first | exact ($hw).elim | exact ExpOk.diag_cast $hw | skip))

theorem piReg1_ok' {total : Nat} (toks : List Token) (f : BitVec 3 → Stmt)
    (h : ∀ t ∈ toks, TokShown total t) : ExpOk total toks false (piReg1 total toks f) := by
  have hw := expectReg_ok' toks h
  unfold piReg1
  exp_step hw
  exact hw.weaken

theorem piLbl_ok' {total : Nat} (tbl : SymTab) (line bits : Nat) (hb : 1 ≤ bits ∧ bits ≤ 15)
    (toks : List Token) (f : Label → Stmt)
    (h : ∀ t ∈ toks, TokShown total t) : ExpOk total toks false (piLbl total tbl line bits toks f) := by
  have hw := expectLitOrLabel_ok' tbl line bits hb toks h
  unfold piLbl
  exp_step hw
  exact hw.weaken

theorem piRegLbl_ok' {total : Nat} (tbl : SymTab) (line : Nat)
    (toks : List Token) (f : BitVec 3 → Label → Stmt)
    (h : ∀ t ∈ toks, TokShown total t) : ExpOk total toks false (piRegLbl total tbl line toks f) := by
  have hw := expectReg_ok' toks h
  unfold piRegLbl
  exp_step hw
  rename_i r ts te _
  obtain ⟨h3, h4⟩ := hw
  have := piLbl_ok' tbl line 9 (by omega) ts (f r) (fun t ht => h t (h4 t ht))
  exact this.trans_ok (by simp at h3; omega) h4

theorem piReg2_ok' {total : Nat} (toks : List Token) (f : BitVec 3 → BitVec 3 → Stmt)
    (h : ∀ t ∈ toks, TokShown total t) : ExpOk total toks false (piReg2 total toks f) := by
  have hw := expectReg_ok' toks h
  unfold piReg2
  exp_step hw
  rename_i a ts te _
  obtain ⟨h3, h4⟩ := hw
  have hw2 := expectReg_ok' ts (fun t ht => h t (h4 t ht))
  exp_step hw2
  exact (hw2.trans_ok (toks := toks) (by simp at h3; omega) h4).weaken

theorem piReg2Lit_ok' {total : Nat} (toks : List Token) (f : BitVec 3 → BitVec 3 → BitVec 8 → Stmt)
    (h : ∀ t ∈ toks, TokShown total t) : ExpOk total toks false (piReg2Lit total toks f) := by
  have hw := expectReg_ok' toks h
  unfold piReg2Lit
  exp_step hw
  rename_i a ts te _
  obtain ⟨h3, h4⟩ := hw
  have hw2 := expectReg_ok' ts (fun t ht => h t (h4 t ht))
  exp_step hw2
  rename_i b ts' te' _
  obtain ⟨h5, h6⟩ := hw2
  have hw3 := expectLit_ok' (.signed 6) (by simp [Bits.valid]) ts' (fun t ht => h t (h4 t (h6 t ht)))
  exp_step hw3
  have h7 : ts'.length ≤ toks.length := by simp at h3 h5; omega
  exact (hw3.trans_ok (toks := toks) h7 (fun t ht => h4 t (h6 t ht))).weaken

theorem piReg2Imm_ok' {total : Nat} (toks : List Token) (f : BitVec 3 → BitVec 3 → ImmOrReg → Stmt)
    (h : ∀ t ∈ toks, TokShown total t) : ExpOk total toks false (piReg2Imm total toks f) := by
  have hw := expectReg_ok' toks h
  unfold piReg2Imm
  exp_step hw
  rename_i a ts te _
  obtain ⟨h3, h4⟩ := hw
  have hw2 := expectReg_ok' ts (fun t ht => h t (h4 t ht))
  exp_step hw2
  rename_i b ts' te' _
  obtain ⟨h5, h6⟩ := hw2
  have hw3 := expectLitOrReg_ok' ts' (fun t ht => h t (h4 t (h6 t ht)))
  exp_step hw3
  have h7 : ts'.length ≤ toks.length := by simp at h3 h5; omega
  exact (hw3.trans_ok (toks := toks) h7 (fun t ht => h4 t (h6 t ht))).weaken

theorem ExpOk.refl_ok {total : Nat} {toks : List Token} {s : Stmt} :
    ExpOk (α := Stmt) (β := Option Nat) total toks false (.ok (s, toks, none)) :=
  ⟨by simp, fun _ h => h⟩

theorem parseInstr_ok' {total : Nat} (tbl : SymTab) (line : Nat) (kind : InstrKind)
    (toks : List Token) (h : ∀ t ∈ toks, TokShown total t) :
    ExpOk total toks false (parseInstr total tbl line kind toks) := by
  cases kind <;> simp only [parseInstr]
  case call =>
    have hw := expectWhere_ok' (fun k => k = .label) toks h
    exp_step hw
    exact hw.weaken
  all_goals first
    | exact piReg1_ok' toks _ h
    | exact piReg2_ok' toks _ h
    | exact piReg2Imm_ok' toks _ h
    | exact piReg2Lit_ok' toks _ h
    | exact piRegLbl_ok' tbl line toks _ h
    | exact piLbl_ok' tbl line _ (by omega) toks _ h
    | exact ExpOk.refl_ok

theorem parseTrap_ok' {total : Nat} (kind : TrapKind)
    (toks : List Token) (h : ∀ t ∈ toks, TokShown total t) :
    ExpOk total toks false (parseTrap total kind toks) := by
  cases kind <;> simp only [parseTrap]
  case generic =>
    have hw := expectLit_ok' (.unsigned 8) (by simp [Bits.valid]) toks h
    exp_step hw
    exact hw.weaken
  all_goals exact ⟨by simp, fun _ h => h⟩
end Lace.Asm

namespace Lace.Asm

/-! The statements about the whole-program stream (`TokIn`: the only directive is `.orig`) are
corollaries of the primed ones (`TokShown`: any displayable kind). -/

theorem unexpectedDiag_ok {α β : Type} {total : Nat} {toks : List Token} {b : Bool} {t : Token}
    (ht : TokIn total t) : ExpOk (α := α) (β := β) total toks b (unexpectedDiag t) :=
  unexpectedDiag_ok' ht.shown

theorem expectWhere_ok {total : Nat} (check : TokenKind → Bool) (toks : List Token)
    (h : ∀ t ∈ toks, TokIn total t) :
    ExpOk total toks true (expectWhere total check toks) :=
  expectWhere_ok' check toks (fun t ht => (h t ht).shown)

theorem expectLit_ok {total : Nat} (bits : Bits) (hb : bits.valid) (toks : List Token)
    (h : ∀ t ∈ toks, TokIn total t) :
    ExpOk total toks true (expectLit total bits toks) :=
  expectLit_ok' bits hb toks (fun t ht => (h t ht).shown)

theorem expectReg_ok {total : Nat} (toks : List Token) (h : ∀ t ∈ toks, TokIn total t) :
    ExpOk total toks true (expectReg total toks) :=
  expectReg_ok' toks (fun t ht => (h t ht).shown)

theorem expectLitOrReg_ok {total : Nat} (toks : List Token) (h : ∀ t ∈ toks, TokIn total t) :
    ExpOk total toks true (expectLitOrReg total toks) :=
  expectLitOrReg_ok' toks (fun t ht => (h t ht).shown)

theorem expectLitOrLabel_ok {total : Nat} (tbl : SymTab) (line bits : Nat) (hb : 1 ≤ bits ∧ bits ≤ 15)
    (toks : List Token) (h : ∀ t ∈ toks, TokIn total t) :
    ExpOk total toks true (expectLitOrLabel total tbl line bits toks) :=
  expectLitOrLabel_ok' tbl line bits hb toks (fun t ht => (h t ht).shown)

theorem piReg1_ok {total : Nat} (toks : List Token) (f : BitVec 3 → Stmt)
    (h : ∀ t ∈ toks, TokIn total t) : ExpOk total toks false (piReg1 total toks f) :=
  piReg1_ok' toks f (fun t ht => (h t ht).shown)

theorem piLbl_ok {total : Nat} (tbl : SymTab) (line bits : Nat) (hb : 1 ≤ bits ∧ bits ≤ 15)
    (toks : List Token) (f : Label → Stmt)
    (h : ∀ t ∈ toks, TokIn total t) : ExpOk total toks false (piLbl total tbl line bits toks f) :=
  piLbl_ok' tbl line bits hb toks f (fun t ht => (h t ht).shown)

theorem piRegLbl_ok {total : Nat} (tbl : SymTab) (line : Nat)
    (toks : List Token) (f : BitVec 3 → Label → Stmt)
    (h : ∀ t ∈ toks, TokIn total t) : ExpOk total toks false (piRegLbl total tbl line toks f) :=
  piRegLbl_ok' tbl line toks f (fun t ht => (h t ht).shown)

theorem piReg2_ok {total : Nat} (toks : List Token) (f : BitVec 3 → BitVec 3 → Stmt)
    (h : ∀ t ∈ toks, TokIn total t) : ExpOk total toks false (piReg2 total toks f) :=
  piReg2_ok' toks f (fun t ht => (h t ht).shown)

theorem piReg2Lit_ok {total : Nat} (toks : List Token) (f : BitVec 3 → BitVec 3 → BitVec 8 → Stmt)
    (h : ∀ t ∈ toks, TokIn total t) : ExpOk total toks false (piReg2Lit total toks f) :=
  piReg2Lit_ok' toks f (fun t ht => (h t ht).shown)

theorem piReg2Imm_ok {total : Nat} (toks : List Token) (f : BitVec 3 → BitVec 3 → ImmOrReg → Stmt)
    (h : ∀ t ∈ toks, TokIn total t) : ExpOk total toks false (piReg2Imm total toks f) :=
  piReg2Imm_ok' toks f (fun t ht => (h t ht).shown)

theorem parseInstr_ok {total : Nat} (tbl : SymTab) (line : Nat) (kind : InstrKind)
    (toks : List Token) (h : ∀ t ∈ toks, TokIn total t) :
    ExpOk total toks false (parseInstr total tbl line kind toks) :=
  parseInstr_ok' tbl line kind toks (fun t ht => (h t ht).shown)

theorem parseTrap_ok {total : Nat} (kind : TrapKind)
    (toks : List Token) (h : ∀ t ∈ toks, TokIn total t) :
    ExpOk total toks false (parseTrap total kind toks) :=
  parseTrap_ok' kind toks (fun t ht => (h t ht).shown)

end Lace.Asm

namespace Lace.Asm

/-- What C05 needs to know about the result of the parser. -/
def ResAirOk (total : Nat) : Res Air → Prop
  | .panic _ => False
  | .diag _ none => True
  | .diag _ (some (o, l)) => o + l ≤ total
  | .ok _ => True

def ParseOk (total n : Nat) : ParseStep → Prop
  | .done r => ResAirOk total r
  | .more toks' _ => toks'.length < n ∧ ∀ t ∈ toks', TokIn total t

theorem ParseOk.mono {total n m : Nat} {r : ParseStep} (h : ParseOk total n r) (hnm : n ≤ m) :
    ParseOk total m r := by
  cases r with
  | done r => exact h
  | more toks' st => exact ⟨by have := h.1; omega, h.2⟩

theorem ExpOk.toAir {α β : Type} {total : Nat} {toks : List Token} {b : Bool} {k : DiagKind}
    {s : Option (Nat × Nat)} (h : ExpOk (α := α) (β := β) total toks b (.diag k s)) :
    ResAirOk total (.diag k s) := by
  cases s with
  | none => exact h.elim
  | some p => exact h

theorem finishStmt_ok {total : Nat} (st : PState) (tok : Token) (ts : List Token)
    (r : StmtRes) (hts : ∀ t ∈ ts, TokIn total t) (hr : ExpOk total ts false r) :
    ParseOk total (ts.length + 1) (finishStmt st tok r) := by
  unfold finishStmt
  split
  · exact hr.toAir
  · exact hr.elim
  · rename_i stmt ts' te
    obtain ⟨h1, h2⟩ := hr
    simp only []
    split
    · split
      · trivial
      · rename_i nxt rest
        exact (hts nxt (h2 nxt List.mem_cons_self)).1
    · exact ⟨by simp at h1; omega, fun t ht => hts t (h2 t ht)⟩

theorem parseLine_ok {total : Nat} (labeled : Bool) (toks : List Token) (st : PState) (tbl : SymTab)
    (h : ∀ t ∈ toks, TokIn total t) :
    ParseOk total toks.length (parseLine total labeled toks st tbl) := by
  unfold parseLine
  split
  · split
    · simp only [ParseOk, eofDiag, ResAirOk]; omega
    · trivial
  · rename_i tok ts
    have htok := h tok List.mem_cons_self
    have hts : ∀ t ∈ ts, TokIn total t := fun t ht => h t (List.mem_cons_of_mem _ ht)
    have hun : ParseOk total (tok :: ts).length (.done (unexpectedDiag tok)) := by
      obtain ⟨s, hs⟩ := StreamKind.display_isSome htok.2
      simp only [ParseOk, unexpectedDiag, hs, ResAirOk]
      exact htok.1
    split
    · exact hun
    · exact hun
    · exact hun
    · -- .orig
      rename_i d hk
      have hd : d = .orig := by have := htok.2; rw [hk] at this; exact this
      simp only [hd, ne_eq, not_true_eq_false, if_false]
      have hw := expectLit_ok (.unsigned 16) (by simp [Bits.valid]) ts hts
      split
      · rename_i heq; rw [heq] at hw; exact hw.toAir
      · rename_i heq; rw [heq] at hw; exact hw.elim
      · rename_i v ts' te heq
        rw [heq] at hw
        obtain ⟨h1, h2⟩ := hw
        split
        · trivial
        · exact ⟨by simp at h1 ⊢; omega, fun t ht => hts t (h2 t ht)⟩
    · exact ⟨by simp, hts⟩
    · exact finishStmt_ok st tok ts _ hts (parseInstr_ok tbl st.line _ ts hts)
    · exact finishStmt_ok st tok ts _ hts (parseTrap_ok _ ts hts)
    · exact finishStmt_ok st tok ts _ hts ExpOk.refl_ok
    · rename_i hk; have := htok.2; rw [hk] at this; exact this.elim
    · rename_i hk; have := htok.2; rw [hk] at this; exact this.elim
    · rename_i hk; have := htok.2; rw [hk] at this; exact this.elim

theorem parseStep_ok {total : Nat} (toks : List Token) (st : PState) (tbl : SymTab)
    (h : ∀ t ∈ toks, TokIn total t) :
    ParseOk total toks.length (parseStep total toks st tbl).1 := by
  unfold parseStep
  split
  · rename_i t ts
    have hts : ∀ x ∈ ts, TokIn total x := fun x hx => h x (List.mem_cons_of_mem _ hx)
    split
    · split
      · exact (h t List.mem_cons_self).1
      · exact (parseLine_ok true ts st _ hts).mono (by simp)
    · exact parseLine_ok false (t :: ts) st tbl h
  · exact parseLine_ok false [] st tbl h

theorem parseLoop_ok {total : Nat} : ∀ (fuel : Nat) (toks : List Token) (st : PState) (tbl : SymTab),
    toks.length < fuel → (∀ t ∈ toks, TokIn total t) →
    ResAirOk total (parseLoop total fuel toks st tbl).1 := by
  intro fuel
  induction fuel with
  | zero => intro toks st tbl h; omega
  | succ fuel ih =>
    intro toks st tbl hlen h
    have hs := parseStep_ok toks st tbl h
    unfold parseLoop
    generalize parseStep total toks st tbl = r at hs ⊢
    obtain ⟨ps, tbl'⟩ := r
    cases ps with
    | done r => exact hs
    | more toks' st' =>
      obtain ⟨h1, h2⟩ := hs
      exact ih toks' st' tbl' (by omega) h2

theorem parse_ok (f : Bool) (tbl : SymTab) (src : List Char) :
    ResAirOk (utf8Len src) (parse (some f) tbl src).1 := by
  have hp := preprocess_ok f src
  unfold parse
  generalize preprocess (some f) src = r at hp ⊢
  cases r with
  | panic s => exact hp.elim
  | diag k s =>
    cases s with
    | none => exact hp.elim
    | some p => exact hp
  | ok toks => exact parseLoop_ok _ toks _ tbl (by omega) hp
end Lace.Asm

namespace Lace.Asm

/-- every label operand of the statement is resolved -/
def AsmLine.Resolved (a : AsmLine) : Prop := ∀ l, a.stmt.label? = some l → ∃ n, l = Label.ref n

theorem filled_ref {tbl : SymTab} {l l' : Label} (h : l.filled tbl = some l') : ∃ n, l' = .ref n := by
  unfold Label.filled at h
  split at h
  · split at h
    · simp at h; exact ⟨_, h.symm⟩
    · simp at h
  · simp at h; exact ⟨_, h.symm⟩

theorem setLabel_label? {s : Stmt} {l l' : Label} (h : s.label? = some l) :
    (s.setLabel l').label? = some l' := by
  cases s <;> simp_all [Stmt.label?, Stmt.setLabel]

theorem backpatch_resolved {tbl : SymTab} {a a' : AsmLine} (h : a.backpatch tbl = some a') :
    a'.Resolved := by
  unfold AsmLine.backpatch at h
  split at h
  · rename_i hn
    simp at h; subst h
    intro l hl; rw [hn] at hl; simp at hl
  · rename_i l hl
    split at h
    · rename_i l' hf
      simp at h; subst h
      intro l2 hl2
      simp only [setLabel_label? hl] at hl2
      simp at hl2; subst hl2
      exact filled_ref hf
    · simp at h

theorem backpatchAll_resolved {tbl : SymTab} : ∀ {l l' : List AsmLine},
    backpatchAll tbl l = some l' → ∀ a ∈ l', a.Resolved := by
  intro l
  induction l with
  | nil => intro l' h; simp [backpatchAll] at h; subst h; simp
  | cons a rest ih =>
    intro l' h
    unfold backpatchAll at h
    split at h
    · simp at h
    · rename_i a' ha
      split at h
      · simp at h
      · rename_i rest' hr
        simp at h; subst h
        intro x hx
        rcases List.mem_cons.mp hx with rfl | hx
        · exact backpatch_resolved ha
        · exact ih hr x hx

/-- `emit` of a resolved statement: a word or a span-less diagnostic. -/
def EmitOk : Res Word → Prop
  | .panic _ => False
  | .diag _ (some _) => False
  | _ => True

theorem bitOffs_ref (line n bits : Nat) :
    (∃ w, bitOffs line (.ref n) bits = .ok w) ∨
    bitOffs line (.ref n) bits = .diag .offsetTooLarge none := by
  unfold bitOffs
  simp only []
  repeat' split
  all_goals first | (right; rfl) | (left; exact ⟨_, rfl⟩)

theorem withOffs_ok (raw : Word) (line n bits : Nat) : EmitOk (withOffs raw line (.ref n) bits) := by
  unfold withOffs
  rcases bitOffs_ref line n bits with ⟨w, h⟩ | h <;> rw [h] <;> trivial

theorem emit_ok {a : AsmLine} (h : a.Resolved) : EmitOk a.emit := by
  unfold AsmLine.emit
  unfold AsmLine.Resolved at h
  cases hs : a.stmt <;> simp only [hs, Stmt.label?] at h ⊢ <;> (try trivial)
  all_goals
    (rename_i l
     obtain ⟨n, rfl⟩ := h l rfl
     exact withOffs_ok _ _ _ _)

theorem emitAll_ok : ∀ (l : List AsmLine) (acc : List Word), (∀ a ∈ l, a.Resolved) →
    (∃ ws, emitAll l acc = .ok ws) ∨ (∃ k, emitAll l acc = .diag k none) := by
  intro l
  induction l with
  | nil => intro acc _; exact Or.inl ⟨_, rfl⟩
  | cons a rest ih =>
    intro acc h
    have ha := emit_ok (h a List.mem_cons_self)
    unfold emitAll
    generalize a.emit = r at ha ⊢
    cases r with
    | panic s => exact ha.elim
    | diag k s =>
      cases s with
      | none => exact Or.inr ⟨k, rfl⟩
      | some p => exact ha.elim
    | ok w => exact ih _ (fun x hx => h x (List.mem_cons_of_mem _ hx))

end Lace.Asm
