/-
  Lemmas about the lexer model (`Lace/Model/Lexer.lean`) used by C05: `advance_token` never
  panics (with the feature state initialised), every span it produces lies inside the source,
  the cursor advances consistently, every non-EOF token consumes at least one character, and a
  string token has its two quotes.
-/
import Lace.Model.Parser
namespace Lace.Asm

theorem utf8Len_append (a b : List Char) : utf8Len (a ++ b) = utf8Len a + utf8Len b := by
  induction a with
  | nil => simp [utf8Len]
  | cons c cs ih => simp [utf8Len, ih]; omega

theorem utf8Len_takeWhile_dropWhile (p : Char → Bool) (l : List Char) :
    utf8Len (l.takeWhile p) + utf8Len (l.dropWhile p) = utf8Len l := by
  rw [← utf8Len_append, List.takeWhile_append_dropWhile]

theorem utf8Len_takeWhile_le (p : Char → Bool) (l : List Char) :
    utf8Len (l.takeWhile p) ≤ utf8Len l := by
  have := utf8Len_takeWhile_dropWhile p l; omega

theorem length_dropWhile_le' (p : Char → Bool) (l : List Char) :
    (l.dropWhile p).length ≤ l.length := by
  induction l with
  | nil => simp
  | cons c cs ih => simp only [List.dropWhile_cons]; split <;> simp <;> omega

theorem utf8Len_reverse (l : List Char) : utf8Len l.reverse = utf8Len l := by
  induction l with
  | nil => rfl
  | cons c cs ih => simp [utf8Len_append, utf8Len, ih]; omega

theorem utf8Size_pos' (c : Char) : 1 ≤ c.utf8Size := Char.utf8Size_pos c

theorem utf8Size_of_le (c : Char) (h : c.val ≤ 127) : c.utf8Size = 1 := by
  simp [Char.utf8Size, h]

end Lace.Asm

namespace Lace.Asm

/-- What C05 needs to know about one lexer step started with `total = pos + utf8Len rest` bytes in
all and `n > rest.length`. -/
def LexOk (total n : Nat) : LexStep → Prop
  | .panic _ => False
  | .diag _ o l => o + l ≤ total
  | .tok t pos' rest' =>
    t.span.offs + t.span.len ≤ total ∧ pos' + utf8Len rest' = total ∧
    (t.kind = .eof ∨ rest'.length < n) ∧
    (t.kind = .lit .str → (stripQuotes t.text).isSome = true)

theorem LexOk.mono {total n m : Nat} {r : LexStep} (h : LexOk total n r) (hnm : n ≤ m) :
    LexOk total m r := by
  cases r with
  | panic s => exact h
  | diag k o l => exact h
  | tok t p r =>
    obtain ⟨h1, h2, h3, h4⟩ := h
    exact ⟨h1, h2, h3.imp id (fun h => by omega), h4⟩

theorem mkTok_ok {total n : Nat} {k : TokenKind} {pos : Nat} {consumed rest' : List Char}
    (h1 : pos + utf8Len consumed + utf8Len rest' = total) (h2 : rest'.length < n)
    (h3 : k = .lit .str → (stripQuotes consumed).isSome = true) :
    LexOk total n (mkTok k pos consumed rest') := by
  unfold mkTok
  exact ⟨by show pos + utf8Len consumed ≤ total; omega, by omega, Or.inr h2, h3⟩

theorem identKind_ne_str (s : String) : identKind s ≠ .lit .str := by
  unfold identKind; split <;> (try split) <;> simp

theorem identFrom_ok {f : Bool} {total n pos : Nat} {consumed pre : List Char} {identStart : Nat}
    {rest : List Char}
    (h1 : pos + utf8Len consumed + utf8Len rest = total) (h2 : rest.length < n)
    (h3 : isStackMnemonic (String.ofList (lowerAll (pre ++ rest.takeWhile isId))) = true →
      identStart = pos) :
    LexOk total n (identFrom (some f) pos consumed pre identStart rest) := by
  have hl := utf8Len_takeWhile_dropWhile isId rest
  have hd := length_dropWhile_le' isId rest
  have hm : LexOk total n (mkTok (identKind (String.ofList (lowerAll (pre ++ rest.takeWhile isId))))
      pos (consumed ++ rest.takeWhile isId) (rest.dropWhile isId)) := by
    apply mkTok_ok
    · rw [utf8Len_append]; omega
    · omega
    · intro h; exact absurd h (identKind_ne_str _)
  unfold identFrom
  simp only []
  split
  · rename_i hs
    cases f with
    | true => exact hm
    | false =>
      simp only [LexOk]
      rw [h3 hs, utf8Len_append]; omega
  · exact hm

end Lace.Asm

namespace Lace.Asm

/-- `ident()` after a single one-byte character. -/
theorem ident_single_ok {f : Bool} {total n pos : Nat} {c : Char} {rest : List Char}
    (hc : c.utf8Size = 1) (h1 : pos + 1 + utf8Len rest = total) (h2 : rest.length < n) :
    LexOk total n (ident (some f) pos [c] rest) := by
  unfold ident
  simp only [List.getLast?_singleton, hc, if_true]
  apply identFrom_ok
  · simp [utf8Len, hc]; omega
  · exact h2
  · intro _; simp [utf8Len, hc]

theorem isRegNum_size {c : Char} (h : isRegNum c = true) : c.utf8Size = 1 := by
  apply utf8Size_of_le
  simp [isRegNum] at h
  have := h.2
  have : c.val ≤ ('7' : Char).val := this
  have h7 : ('7' : Char).val = 55 := by decide
  rw [h7] at this
  exact Nat.le_trans (UInt32.le_iff_toNat_le.mp this) (by decide)

end Lace.Asm

namespace Lace.Asm

theorem stack_head {x : Char} {ys : List Char}
    (h : isStackMnemonic (String.ofList (x :: ys)) = true) : x = 'p' ∨ x = 'c' ∨ x = 'r' := by
  simp only [isStackMnemonic, Bool.or_eq_true, beq_iff_eq] at h
  rcases h with ((h | h) | h) | h <;>
    (have h' := congrArg String.toList h; simp at h'; simp [h'.1])

theorem regnum_lower_not_stack {l : Char} (h : isRegNum l = true) :
    ¬ (asciiLower l = 'p' ∨ asciiLower l = 'c' ∨ asciiLower l = 'r') := by
  simp only [isRegNum, Bool.and_eq_true, decide_eq_true_eq] at h
  have h7 : l.val.toNat ≤ 55 := UInt32.le_iff_toNat_le.mp h.2
  have hA : ¬ ('A' ≤ l) := by
    intro hA
    have : (65:Nat) ≤ l.val.toNat := UInt32.le_iff_toNat_le.mp hA
    omega
  simp only [asciiLower, hA, false_and, if_false]
  rintro (rfl | rfl | rfl) <;> simp at h7

/-- `ident()` in the register branch: `r`/`R` followed by one or more digits `0..7`. -/
theorem ident_reg_ok {f : Bool} {total n pos : Nat} {c : Char} {ds rest : List Char}
    (hds : ds ≠ []) (hall : ∀ x ∈ ds, isRegNum x = true)
    (h1 : pos + utf8Len (c :: ds) + utf8Len rest = total) (h2 : rest.length < n) :
    LexOk total n (ident (some f) pos (c :: ds) rest) := by
  unfold ident
  have hlast : (c :: ds).getLast? = some (ds.getLast hds) := by
    rw [List.getLast?_cons_of_ne_nil hds]  ; exact List.getLast?_eq_some_getLast hds
  have hreg : isRegNum (ds.getLast hds) = true := hall _ (List.getLast_mem hds)
  simp only [hlast, isRegNum_size hreg, if_true]
  apply identFrom_ok h1 h2
  intro hs
  exfalso
  simp only [lowerAll, List.singleton_append, List.map_cons] at hs
  exact regnum_lower_not_stack hreg (stack_head hs)
end Lace.Asm

namespace Lace.Asm

theorem hex_ok {f : Bool} {total n pos : Nat} {pre rest : List Char}
    (h1 : pos + utf8Len pre + utf8Len rest = total) (h2 : rest.length < n) :
    LexOk total n (hex (some f) pos pre rest) := by
  have hl := utf8Len_takeWhile_dropWhile notWs rest
  have hd := length_dropWhile_le' notWs rest
  have hm : ∀ k, k ≠ TokenKind.lit .str →
      LexOk total n (mkTok k pos (pre ++ rest.takeWhile notWs) (rest.dropWhile notWs)) := by
    intro k hk
    apply mkTok_ok
    · rw [utf8Len_append]; omega
    · omega
    · intro h; exact absurd h hk
  unfold hex
  simp only []
  split
  · exact hm _ (by simp)
  · split
    · exact hm _ (by simp)
    · simp only [LexOk]; rw [utf8Len_append]; omega
    · apply identFrom_ok
      · rw [utf8Len_append]; omega
      · omega
      · intro _; rfl

theorem dec_ok {total n pos : Nat} {pre rest : List Char}
    (h1 : pos + utf8Len pre + utf8Len rest = total) (h2 : rest.length < n) :
    LexOk total n (dec pos pre rest) := by
  have hl := utf8Len_takeWhile_dropWhile notWs rest
  have hd := length_dropWhile_le' notWs rest
  have hm : ∀ k, k ≠ TokenKind.lit .str →
      LexOk total n (mkTok k pos (pre ++ rest.takeWhile notWs) (rest.dropWhile notWs)) := by
    intro k hk
    apply mkTok_ok
    · rw [utf8Len_append]; omega
    · omega
    · intro h; exact absurd h hk
  unfold dec
  simp only []
  split
  · exact hm _ (by simp)
  · split
    · exact hm _ (by simp)
    · simp only [LexOk]; rw [utf8Len_append]; omega

theorem dir_ok {total n pos : Nat} {rest : List Char}
    (h1 : pos + 1 + utf8Len rest = total) (h2 : rest.length < n) :
    LexOk total n (dir pos rest) := by
  have hl := utf8Len_takeWhile_dropWhile isId rest
  have hd := length_dropWhile_le' isId rest
  have hdot : ('.' : Char).utf8Size = 1 := by decide
  unfold dir
  simp only []
  split
  · apply mkTok_ok
    · simp only [utf8Len, hdot]; omega
    · omega
    · intro h; simp at h
  · simp only [LexOk, utf8Len, hdot]; omega

end Lace.Asm

namespace Lace.Asm

theorem strLoop_spec (rest acc : List Char) :
    utf8Len (strLoop rest acc).2.1 + utf8Len (strLoop rest acc).2.2 = utf8Len acc + utf8Len rest ∧
    (strLoop rest acc).2.2.length ≤ rest.length ∧
    ((strLoop rest acc).1 = true → ∃ mid, (strLoop rest acc).2.1 = '"' :: (mid ++ acc)) := by
  fun_induction strLoop rest acc with
  | case1 acc => simp [utf8Len]
  | case2 c cs acc h =>
    simp [utf8Len]; omega
  | case3 c cs acc h1 h2 =>
    simp at h2; subst h2
    refine ⟨by simp [utf8Len]; omega, by simp, fun _ => ⟨[], by simp⟩⟩
  | case4 c acc h1 h2 h3 => simp [utf8Len]; omega
  | case5 c acc h1 h2 h3 d ds ih =>
    obtain ⟨i1, i2, i3⟩ := ih
    refine ⟨by simp only [utf8Len] at i1 ⊢; omega, by simp; omega, fun ht => ?_⟩
    obtain ⟨mid, hm⟩ := i3 ht
    exact ⟨mid ++ [d, c], by simp [hm]⟩
  | case6 c cs acc h1 h2 h3 ih =>
    obtain ⟨i1, i2, i3⟩ := ih
    refine ⟨by simp only [utf8Len] at i1 ⊢; omega, by simp; omega, fun ht => ?_⟩
    obtain ⟨mid, hm⟩ := i3 ht
    exact ⟨mid ++ [c], by simp [hm]⟩

theorem stripQuotes_quoted (mid : List Char) :
    (stripQuotes ('"' :: (mid ++ ['"']))).isSome = true := by
  unfold stripQuotes
  simp
  decide

theorem str_ok {total n pos : Nat} {rest : List Char}
    (h1 : pos + 1 + utf8Len rest = total) (h2 : rest.length < n) :
    LexOk total n (str pos rest) := by
  obtain ⟨s1, s2, s3⟩ := strLoop_spec rest ['"']
  have hq : utf8Len ['"'] = 1 := by decide
  rw [hq] at s1
  unfold str
  split
  · rename_i acc rest' heq
    rw [heq] at s1 s2 s3
    simp only at s1 s2 s3
    obtain ⟨mid, hm⟩ := s3 trivial
    apply mkTok_ok
    · rw [utf8Len_reverse]; omega
    · omega
    · intro _
      subst hm
      simp only [List.reverse_cons, List.reverse_append, List.reverse_nil, List.nil_append,
        List.cons_append]
      exact stripQuotes_quoted _
  · rename_i acc rest' heq
    rw [heq] at s1
    simp only at s1
    simp only [LexOk]; omega
end Lace.Asm

namespace Lace.Asm

theorem isId_size {c : Char} (h : isId c = true) : c.utf8Size = 1 := by
  apply utf8Size_of_le
  simp only [isId, Bool.or_eq_true, Bool.and_eq_true, decide_eq_true_eq, beq_iff_eq] at h
  rcases h with ((h | h) | h) | h
  · exact UInt32.le_iff_toNat_le.mpr (Nat.le_trans (UInt32.le_iff_toNat_le.mp h.2) (by decide))
  · exact UInt32.le_iff_toNat_le.mpr (Nat.le_trans (UInt32.le_iff_toNat_le.mp h.2) (by decide))
  · exact UInt32.le_iff_toNat_le.mpr (Nat.le_trans (UInt32.le_iff_toNat_le.mp h.2) (by decide))
  · subst h; decide

theorem mem_takeWhile_imp' {p : Char → Bool} {l : List Char} {x : Char}
    (h : x ∈ l.takeWhile p) : p x = true := by
  induction l with
  | nil => simp at h
  | cons c cs ih =>
    simp only [List.takeWhile_cons] at h
    split at h
    · rename_i hc
      rcases List.mem_cons.mp h with rfl | h'
      · exact hc
      · exact ih h'
    · simp at h

theorem advanceToken_ok (f : Bool) (pos : Nat) (rest : List Char) :
    LexOk (pos + utf8Len rest) rest.length (advanceToken (some f) pos rest) := by
  cases rest with
  | nil => simp [advanceToken, LexOk, Span.dummy, utf8Len]
  | cons c rest =>
    have hpos := utf8Size_pos' c
    simp only [advanceToken, List.length_cons]
    rw [show utf8Len (c :: rest) = c.utf8Size + utf8Len rest from rfl]
    split
    · -- comment
      have hl := utf8Len_takeWhile_dropWhile (fun d => d != '\n') rest
      have hd := length_dropWhile_le' (fun d => d != '\n') rest
      apply mkTok_ok
      · simp only [utf8Len]; omega
      · omega
      · intro h; simp at h
    split
    · -- white space
      have hl := utf8Len_takeWhile_dropWhile isWs rest
      have hd := length_dropWhile_le' isWs rest
      apply mkTok_ok
      · simp only [utf8Len]; omega
      · omega
      · intro h; simp at h
    split
    · exact hex_ok (by simp only [utf8Len]; omega) (by omega)
    split
    · rename_i h0
      simp at h0; subst h0
      have h1 : ('0' : Char).utf8Size = 1 := by decide
      split
      · rename_i d rest'
        split
        · exact hex_ok (by simp only [utf8Len]; omega) (by simp; omega)
        · exact ident_single_ok h1 (by simp only [utf8Len]; omega) (by simp)
      · exact ident_single_ok h1 (by simp only [utf8Len]; omega) (by simp)
    split
    · rename_i hr
      have h1 : c.utf8Size = 1 := by
        simp at hr; rcases hr with rfl | rfl <;> decide
      split
      · rename_i d rest'
        split
        · rename_i hd
          have hl := utf8Len_takeWhile_dropWhile isRegNum (d :: rest')
          have hdl := length_dropWhile_le' isRegNum (d :: rest')
          have hne : (d :: rest').takeWhile isRegNum ≠ [] := by simp [List.takeWhile, hd]
          have hall : ∀ x ∈ (d :: rest').takeWhile isRegNum, isRegNum x = true :=
            fun x hx => mem_takeWhile_imp' hx
          have hA : LexOk (pos + (c.utf8Size + utf8Len (d :: rest'))) ((d :: rest').length + 1)
              (mkTok (TokenKind.reg (regOfChar d)) pos (c :: List.takeWhile isRegNum (d :: rest'))
                (List.dropWhile isRegNum (d :: rest'))) := by
            apply mkTok_ok
            · simp only [utf8Len] at hl ⊢; omega
            · simp at hdl ⊢; omega
            · intro h; simp at h
          have hB : LexOk (pos + (c.utf8Size + utf8Len (d :: rest'))) ((d :: rest').length + 1)
              (ident (some f) pos (c :: List.takeWhile isRegNum (d :: rest'))
                (List.dropWhile isRegNum (d :: rest'))) := by
            apply ident_reg_ok hne hall
            · simp only [utf8Len] at hl ⊢; omega
            · simp at hdl ⊢; omega
          repeat' split
          all_goals first | exact hA | exact hB
        · exact ident_single_ok h1 (by simp only [utf8Len]; omega) (by simp)
      · exact ident_single_ok h1 (by simp only [utf8Len]; omega) (by simp)
    split
    · rename_i hi
      have hs := isId_size hi
      exact ident_single_ok hs (by omega) (by omega)
    split
    · exact dec_ok (by simp only [utf8Len]; omega) (by omega)
    split
    · rename_i hc; simp at hc; subst hc
      have h1 : ('.' : Char).utf8Size = 1 := by decide
      exact dir_ok (by omega) (by omega)
    split
    · rename_i hc; simp at hc; subst hc
      have h1 : ('"' : Char).utf8Size = 1 := by decide
      exact str_ok (by omega) (by omega)
    · have := utf8Len_takeWhile_le notWs rest
      simp only [LexOk]; omega

theorem advanceRealLoop_ok (f : Bool) : ∀ (fuel : List Char) (pos : Nat) (rest : List Char),
    LexOk (pos + utf8Len rest) rest.length (advanceRealLoop (some f) fuel pos rest) := by
  intro fuel
  induction fuel with
  | nil => intro pos rest; exact advanceToken_ok f pos rest
  | cons _ fuel ih =>
    intro pos rest
    have h := advanceToken_ok f pos rest
    unfold advanceRealLoop
    split
    · rename_i t pos' rest' heq
      rw [heq] at h
      split
      · rename_i hws
        obtain ⟨_, h2, h3, _⟩ := h
        have h3' : rest'.length < rest.length := by
          rcases h3 with h3 | h3
          · rcases hws with hws | hws <;> (rw [hws] at h3; simp at h3)
          · exact h3
        have := ih pos' rest'
        rw [h2] at this
        exact this.mono (by omega)
      · exact h
    · rename_i r hne
      exact h

theorem advanceReal_ok (f : Bool) (pos : Nat) (rest : List Char) :
    LexOk (pos + utf8Len rest) rest.length (advanceReal (some f) pos rest) :=
  advanceRealLoop_ok f _ pos rest

/-- what `advance_real` returns is a real token: with the unread text as fuel the loop never stops
on white space or a comment. -/
def RealTok : LexStep → Prop
  | .tok t _ _ => t.kind ≠ .whitespace ∧ t.kind ≠ .comment
  | _ => True

theorem advanceRealLoop_real (f : Bool) : ∀ (fuel : List Char) (pos : Nat) (rest : List Char),
    rest.length ≤ fuel.length → RealTok (advanceRealLoop (some f) fuel pos rest) := by
  intro fuel
  induction fuel with
  | nil =>
    intro pos rest h
    have : rest = [] := List.eq_nil_of_length_eq_zero (by simpa using h)
    subst this
    simp [advanceRealLoop, advanceToken, RealTok]
  | cons _ fuel ih =>
    intro pos rest hlen
    have h := advanceToken_ok f pos rest
    unfold advanceRealLoop
    split
    · rename_i t pos' rest' heq
      rw [heq] at h
      split
      · rename_i hws
        obtain ⟨_, _, h3, _⟩ := h
        have h3' : rest'.length < rest.length := by
          rcases h3 with h3 | h3
          · rcases hws with hws | hws <;> (rw [hws] at h3; simp at h3)
          · exact h3
        exact ih pos' rest' (by simp at hlen; omega)
      · rename_i hn
        exact ⟨fun h1 => hn (Or.inl h1), fun h2 => hn (Or.inr h2)⟩
    · rename_i r hne
      generalize advanceToken (some f) pos rest = q at hne
      cases q with
      | tok t p r' => exact (hne t p r' rfl).elim
      | diag k o l => trivial
      | panic s => trivial

theorem advanceReal_real (f : Bool) (pos : Nat) (rest : List Char) :
    RealTok (advanceReal (some f) pos rest) :=
  advanceRealLoop_real f rest pos rest (Nat.le_refl _)
end Lace.Asm
