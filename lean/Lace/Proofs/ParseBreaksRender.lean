/-
  `.break` of an abstract program, token level (C11, parser side of the text level).

  `parse_items_breaks` / `parse_tokens_breaks`: whenever the parser accepts a token list that matches
  the expected token stream of a program (`progETok`, any program in the domain), the breakpoint list
  it hands over is `Prog.breaks` (`Spec/Prog.lean`): for every `Item.brk` the number of words the items
  in front of it produce, increasing, each once.

  The `.break` information is threaded through the same induction over the items as the image
  (`parse_items`, `Proofs/ParseProg.lean`) and the spans (`parse_items_spans`, `Proofs/ParseSpans.lean`),
  as a parallel lemma: the state invariant is `line = n + 1 ≤ 65535`, the conclusion
  `air.bps = (breakIdx its st.n).foldl bpInsert st.bps`.  Only the parser's answer `.ok` is assumed — no
  well-formedness, no full-image side condition: a statement that fills the image ends the loop, and
  then no token — hence no `.break` — follows (`stmt_breaks`, first alternative).

  List side: `foldl bpInsert [] l = l.eraseDups` for a non-decreasing `l` (`foldl_bpInsert_eraseDups`),
  by extensionality of strictly increasing lists (`incr_ext`).
-/
import Lace.Proofs.ParseSpans
import Lace.Proofs.ParseBreaks
namespace Lace.C11
open Lace Lace.Asm Lace.Spec Lace.C01 Lace.C04

/-! ### strictly increasing lists, `bpInsert` folded, `eraseDups` -/

/-- a strictly increasing list is determined by its members -/
theorem incr_ext : ∀ (l1 l2 : List Nat), Incr l1 → Incr l2 → (∀ x, x ∈ l1 ↔ x ∈ l2) → l1 = l2
  | [], [], _, _, _ => rfl
  | [], b :: r2, _, _, h => by have := (h b).mpr List.mem_cons_self; cases this
  | a :: r1, [], _, _, h => by have := (h a).mp List.mem_cons_self; cases this
  | a :: r1, b :: r2, h1, h2, h => by
    have p1 := List.pairwise_cons.mp h1
    have p2 := List.pairwise_cons.mp h2
    have hab : a = b := by
      rcases List.mem_cons.mp ((h a).mp List.mem_cons_self) with e | ha
      · exact e
      · rcases List.mem_cons.mp ((h b).mpr List.mem_cons_self) with e | hb
        · exact e.symm
        · have := p1.1 b hb; have := p2.1 a ha; omega
    subst hab
    rw [incr_ext r1 r2 p1.2 p2.2]
    intro x
    constructor
    · intro hx
      rcases List.mem_cons.mp ((h x).mp (List.mem_cons_of_mem _ hx)) with e | hx'
      · have := p1.1 x hx; omega
      · exact hx'
    · intro hx
      rcases List.mem_cons.mp ((h x).mpr (List.mem_cons_of_mem _ hx)) with e | hx'
      · have := p2.1 x hx; omega
      · exact hx'

theorem mem_foldl_bpInsert : ∀ (raw acc : List Nat) (x : Nat),
    x ∈ raw.foldl Asm.bpInsert acc ↔ x ∈ acc ∨ x ∈ raw
  | [], acc, x => by simp
  | a :: raw, acc, x => by
    rw [List.foldl_cons, mem_foldl_bpInsert raw, mem_bpInsert, List.mem_cons]
    constructor
    · rintro ((h | h) | h)
      · exact Or.inr (Or.inl h)
      · exact Or.inl h
      · exact Or.inr (Or.inr h)
    · rintro (h | h | h)
      · exact Or.inl (Or.inr h)
      · exact Or.inl (Or.inl h)
      · exact Or.inr h

theorem foldl_bpInsert_incr : ∀ (raw acc : List Nat), Incr acc → Incr (raw.foldl Asm.bpInsert acc)
  | [], _, h => h
  | a :: raw, acc, h => foldl_bpInsert_incr raw _ (bpInsert_incr acc a h)

theorem mem_eraseDups_aux : ∀ (n : Nat) (l : List Nat) (x : Nat), l.length ≤ n → (x ∈ l.eraseDups ↔ x ∈ l)
  | _, [], x, _ => by simp
  | 0, a :: as, x, h => by simp at h
  | n + 1, a :: as, x, h => by
    rw [List.eraseDups_cons, List.mem_cons, List.mem_cons,
      mem_eraseDups_aux n _ x (Nat.le_trans (List.length_filter_le _ _)
        (by simp only [List.length_cons] at h; omega)),
      List.mem_filter]
    constructor
    · rintro (h | ⟨h, _⟩)
      · exact Or.inl h
      · exact Or.inr h
    · rintro (h | h)
      · exact Or.inl h
      · by_cases e : x = a
        · exact Or.inl e
        · exact Or.inr ⟨h, by simpa using e⟩

theorem mem_eraseDups (l : List Nat) (x : Nat) : x ∈ l.eraseDups ↔ x ∈ l :=
  mem_eraseDups_aux l.length l x (Nat.le_refl _)

/-- erasing the duplicates of a non-decreasing list leaves a strictly increasing one -/
theorem eraseDups_incr_aux : ∀ (n : Nat) (l : List Nat), l.length ≤ n → l.Pairwise (· ≤ ·) → Incr l.eraseDups
  | _, [], _, _ => by simp [Incr]
  | 0, a :: as, h, _ => by simp at h
  | n + 1, a :: as, h, hp => by
    have p := List.pairwise_cons.mp hp
    rw [List.eraseDups_cons]
    refine List.pairwise_cons.mpr ⟨?_, ?_⟩
    · intro x hx
      rw [mem_eraseDups, List.mem_filter] at hx
      have h1 := p.1 x hx.1
      have h2 : x ≠ a := by simpa using hx.2
      omega
    · exact eraseDups_incr_aux n _ (Nat.le_trans (List.length_filter_le _ _)
        (by simp only [List.length_cons] at h; omega)) (p.2.sublist List.filter_sublist)

/-- **Recording non-decreasing indices one by one** (`Breakpoints::insert` per `.break`) gives the
list without its duplicates. -/
theorem foldl_bpInsert_eraseDups (l : List Nat) (h : l.Pairwise (· ≤ ·)) :
    l.foldl Asm.bpInsert [] = l.eraseDups :=
  incr_ext _ _ (foldl_bpInsert_incr l [] List.Pairwise.nil) (eraseDups_incr_aux l.length l (Nat.le_refl _) h)
    fun x => by rw [mem_foldl_bpInsert, mem_eraseDups]; simp

/-! ### `breakIdx` -/

theorem breakIdx_ge : ∀ (its : List Item) (k x : Nat), x ∈ breakIdx its k → k ≤ x
  | [], _, _, h => by cases h
  | .brk :: rest, k, x, h => by
    simp only [breakIdx, List.mem_cons] at h
    rcases h with rfl | h
    · exact Nat.le_refl _
    · exact breakIdx_ge rest k x h
  | .orig _ :: rest, k, x, h => breakIdx_ge rest k x h
  | .stmt _ s :: rest, k, x, h => by
    have := breakIdx_ge rest (k + s.size) x h
    omega

/-- the indices of the `.break` items never decrease along the program -/
theorem breakIdx_sorted : ∀ (its : List Item) (k : Nat), (breakIdx its k).Pairwise (· ≤ ·)
  | [], _ => List.Pairwise.nil
  | .brk :: rest, k => List.pairwise_cons.mpr ⟨breakIdx_ge rest k, breakIdx_sorted rest k⟩
  | .orig _ :: rest, k => breakIdx_sorted rest k
  | .stmt _ s :: rest, k => breakIdx_sorted rest (k + s.size)

theorem forall₂_nil_right {α β : Type _} {R : α → β → Prop} {l : List α} (h : List.Forall₂ R l []) : l = [] := by
  cases h; rfl

/-- items that reach the parser as no token at all contain no `.break` -/
theorem breakIdx_no_tokens (names : Nat → List Char) : ∀ (its : List Item) (k : Nat),
    itemsETok names its = [] → breakIdx its k = []
  | [], _, _ => rfl
  | .brk :: rest, k, h => by simp [itemsETok, itemETok] at h
  | .orig _ :: rest, k, h => by simp [itemsETok, itemETok] at h
  | .stmt _ s :: rest, k, h => by
    simp only [itemsETok, List.append_eq_nil_iff] at h
    exact breakIdx_no_tokens names rest _ h.2

/-! ### one statement -/

/-- The byte tokens of a data directive in an accepted token stream: either the loop ends inside
(the last word is word 65,535; nothing follows) or it goes on behind them; the breakpoint list is
not touched. -/
theorem bytes_breaks (srcLen : Nat) : ∀ (bs : List Word) (btoks rest : List Token) (st : PState) (tbl : SymTab)
    (fuel : Nat) (air : Air) (tblF : SymTab),
    List.Forall₂ ETok.Matches (bs.map .byte) btoks → st.line = st.n + 1 → st.line ≤ 65535 →
    parseLoop srcLen fuel (btoks ++ rest) st tbl = (.ok air, tblF) →
    (rest = [] ∧ air.bps = st.bps) ∨
    ∃ fuel' st', parseLoop srcLen fuel' rest st' tbl = (.ok air, tblF) ∧ st'.bps = st.bps ∧
      st'.n = st.n + bs.length ∧ st'.line = st'.n + 1 ∧ st'.line ≤ 65535 := by
  intro bs
  induction bs with
  | nil =>
    intro btoks rest st tbl fuel air tblF hm hline hle h
    rw [forall₂_nil_left hm] at h
    exact Or.inr ⟨fuel, st, h, rfl, rfl, hline, hle⟩
  | cons b bs ih =>
    intro btoks rest st tbl fuel air tblF hm hline hle h
    obtain ⟨t, ts, rfl, hk, hm'⟩ := forall₂_cons_left hm
    have hk : t.kind = .byte b := hk
    cases fuel with
    | zero => exact absurd h (parseLoop_zero _ _ _ _ _ _)
    | succ fuel =>
      have hstep : parseStep srcLen (t :: ts ++ rest) st tbl =
          (finishStmt st t (.ok (.rawWord b, ts ++ rest, none)), tbl) := by
        rw [List.cons_append, parseStep_nolabel srcLen t _ st tbl (by rw [hk]; exact fun h => by cases h)]
        simp only [parseLine, hk]
      by_cases hfull : st.line + 1 > 65535
      · cases hr : ts ++ rest with
        | nil =>
          rw [hr] at hstep
          simp only [finishStmt, hfull, if_true] at hstep
          simp only [parseLoop, hstep, Prod.mk.injEq, Res.ok.injEq] at h
          obtain ⟨rfl, _⟩ := h
          exact Or.inl ⟨(List.append_eq_nil_iff.mp hr).2, rfl⟩
        | cons nxt more =>
          rw [hr] at hstep
          simp only [finishStmt, hfull, if_true] at hstep
          simp only [parseLoop, hstep, Prod.mk.injEq, reduceCtorEq, false_and] at h
      · simp only [finishStmt, hfull, if_false] at hstep
        simp only [parseLoop, hstep] at h
        rcases ih ts rest { st.addStmt t (.rawWord b) none with line := st.line + 1 } tbl fuel air tblF hm'
            (by show st.line + 1 = st.n + 1 + 1; omega) (by show st.line + 1 ≤ 65535; omega) h with
          h1 | ⟨fuel', st', e1, e2, e3, e4, e5⟩
        · exact Or.inl h1
        · refine Or.inr ⟨fuel', st', e1, e2, ?_, e4, e5⟩
          rw [e3]
          show st.n + 1 + bs.length = _
          simp only [List.length_cons]; omega

/-- **One statement of an accepted token stream** (mnemonic and operands, or the byte tokens of a
data directive): the breakpoint list is not touched; the statement counter advances by the number
of words; when the statement fills the image the loop ends there and no token follows. -/
theorem stmt_breaks (names : Nat → List Char) (srcLen : Nat) (s : SrcStmt) (stoks rest : List Token)
    (st : PState) (tbl : SymTab) (fuel : Nat) (air : Air) (tblF : SymTab)
    (hms : List.Forall₂ ETok.Matches (stmtETok names s) stoks) (hren : s.renderable = true)
    (hline : st.line = st.n + 1) (hle : st.line ≤ 65535)
    (h : parseLoop srcLen fuel (stoks ++ rest) st tbl = (.ok air, tblF)) :
    (rest = [] ∧ air.bps = st.bps) ∨
    ∃ fuel' st', parseLoop srcLen fuel' rest st' tbl = (.ok air, tblF) ∧ st'.bps = st.bps ∧
      st'.n = st.n + s.size ∧ st'.line = st'.n + 1 ∧ st'.line ≤ 65535 := by
  cases hs : stmtSyntax names s with
  | none =>
    obtain ⟨h1, _, h3, _⟩ := data_stmt hs hren (fun _ => none) 0#16
    rw [h1] at hms
    rw [h3]
    exact bytes_breaks srcLen (dataWords s) stoks rest st tbl fuel air tblF hms hline hle h
  | some p =>
    obtain ⟨hd, ops⟩ := p
    rw [stmtETok_syntax hs] at hms
    obtain ⟨t, ots, rfl, ht, hops⟩ := forall₂_cons_left hms
    have hsz : s.size = 1 := by
      cases s <;> first | rfl | (cases hs; done)
    cases fuel with
    | zero => exact absurd h (parseLoop_zero _ _ _ _ _ _)
    | succ fuel =>
      cases ha : airOf names tbl st.line s with
      | none =>
        obtain ⟨sp, hstep⟩ := instr_step_none names srcLen s hd ops hs t ots rest ht hops st tbl ha
        simp only [parseLoop, hstep, Prod.mk.injEq, reduceCtorEq, false_and] at h
      | some stmt =>
        obtain ⟨te, hstep⟩ := instr_step_some names srcLen s hd ops hs t ots rest ht hops st tbl stmt ha
        by_cases hfull : st.line + 1 > 65535
        · cases rest with
          | nil =>
            simp only [finishStmt, hfull, if_true] at hstep
            simp only [parseLoop, hstep, Prod.mk.injEq, Res.ok.injEq] at h
            obtain ⟨rfl, _⟩ := h
            exact Or.inl ⟨rfl, rfl⟩
          | cons nxt more =>
            simp only [finishStmt, hfull, if_true] at hstep
            simp only [parseLoop, hstep, Prod.mk.injEq, reduceCtorEq, false_and] at h
        · simp only [finishStmt, hfull, if_false] at hstep
          simp only [parseLoop, hstep] at h
          refine Or.inr ⟨fuel, _, h, rfl, ?_, ?_, ?_⟩
          · show st.n + 1 = _; rw [hsz]
          · show st.line + 1 = st.n + 1 + 1; omega
          · show st.line + 1 ≤ 65535; omega

/-! ### the induction over the items -/

/-- **The breakpoints of a whole program, token level.**  If the parser loop, run over tokens that
match the expected token stream of `its`, answers `.ok air`, then the breakpoint list of `air` is
the one it started with plus, recorded one by one, the index of every `.break` item: the number of
statements (= words) parsed before it. -/
theorem parse_items_breaks (names : Nat → List Char) (srcLen : Nat) :
    ∀ (its : List Item) (fuel : Nat) (toks : List Token) (st : PState) (tbl : SymTab)
      (air : Air) (tblF : SymTab),
      st.line = st.n + 1 → st.line ≤ 65535 →
      List.Forall₂ ETok.Matches (itemsETok names its) toks →
      (∀ ls ∈ itemsStmts its, ls.2.renderable = true ∧ (ls.1.isSome = true → 1 ≤ ls.2.size)) →
      parseLoop srcLen fuel toks st tbl = (.ok air, tblF) →
      air.bps = (breakIdx its st.n).foldl Asm.bpInsert st.bps := by
  intro its
  induction its with
  | nil =>
    intro fuel toks st tbl air tblF hline hle hm hrs h
    rw [forall₂_nil_left hm] at h
    cases fuel with
    | zero => exact absurd h (parseLoop_zero _ _ _ _ _ _)
    | succ fuel =>
      rw [parseLoop_nil] at h
      simp only [Prod.mk.injEq, Res.ok.injEq] at h
      obtain ⟨rfl, _⟩ := h
      rfl
  | cons it rest ih =>
    intro fuel toks st tbl air tblF hline hle hm hrs h
    cases fuel with
    | zero => exact absurd h (parseLoop_zero _ _ _ _ _ _)
    | succ fuel =>
    cases it with
    | orig w =>
      simp only [itemsETok, itemETok, List.cons_append, List.nil_append] at hm
      obtain ⟨ot, ts1, rfl, hot, hm⟩ := forall₂_cons_left hm
      obtain ⟨lt, rtoks, rfl, hlt, hm⟩ := forall₂_cons_left hm
      have hot : ot.kind = .dir .orig := hot
      have hlt : litWord lt.kind = some w := hlt
      have hnl := parseStep_nolabel srcLen ot (lt :: rtoks) st tbl (by rw [hot]; exact fun h => by cases h)
      cases hso : st.orig with
      | some w0 =>
        rw [parseLine_second_orig srcLen false ot lt rtoks st tbl hot w w0 hlt hso] at hnl
        simp only [parseLoop, hnl, Prod.mk.injEq, reduceCtorEq, false_and] at h
      | none =>
        rw [parseLine_first_orig srcLen false ot lt rtoks st tbl hot w hlt hso] at hnl
        simp only [parseLoop, hnl] at h
        exact ih fuel rtoks { st with orig := some w, tokEnd := lt.span.offs + lt.span.len } tbl air tblF
          hline hle hm hrs h
    | brk =>
      simp only [itemsETok, itemETok, List.cons_append, List.nil_append] at hm
      obtain ⟨bt, rtoks, rfl, hbt, hm⟩ := forall₂_cons_left hm
      have hbt : bt.kind = .breakpoint := hbt
      have hstep : parseStep srcLen (bt :: rtoks) st tbl =
          (.more rtoks { st with bps := Asm.bpInsert st.bps (st.n % 65536) }, tbl) := by
        rw [parseStep_nolabel srcLen bt _ st tbl (by rw [hbt]; exact fun h => by cases h)]
        simp only [parseLine, hbt]
      simp only [parseLoop, hstep] at h
      have hI := ih fuel rtoks { st with bps := Asm.bpInsert st.bps (st.n % 65536) } tbl air tblF
        hline hle hm hrs h
      rw [hI, Nat.mod_eq_of_lt (show st.n < 65536 by omega)]
      rfl
    | stmt l s =>
      simp only [itemsStmts] at hrs
      obtain ⟨hren, hlsz⟩ := hrs (l, s) List.mem_cons_self
      have hrs' : ∀ ls ∈ itemsStmts rest, ls.2.renderable = true ∧ (ls.1.isSome = true → 1 ≤ ls.2.size) :=
        fun ls h => hrs ls (List.mem_cons_of_mem _ h)
      -- the statement and everything after it, from any table
      have core : ∀ (stoks rtoks : List Token) (tblX : SymTab) (fuelX : Nat),
          List.Forall₂ ETok.Matches (stmtETok names s) stoks →
          List.Forall₂ ETok.Matches (itemsETok names rest) rtoks →
          parseLoop srcLen fuelX (stoks ++ rtoks) st tblX = (.ok air, tblF) →
          air.bps = (breakIdx rest (st.n + s.size)).foldl Asm.bpInsert st.bps := by
        intro stoks rtoks tblX fuelX hms hmr hX
        rcases stmt_breaks names srcLen s stoks rtoks st tblX fuelX air tblF hms hren hline hle hX with
          ⟨rfl, hb⟩ | ⟨fuel', st', e1, e2, e3, e4, e5⟩
        · rw [breakIdx_no_tokens names rest _ (forall₂_nil_right hmr), hb]
          rfl
        · rw [ih fuel' rtoks st' tblX air tblF e4 e5 hmr hrs' e1, e2, e3]
      show air.bps = (breakIdx rest (st.n + s.size)).foldl Asm.bpInsert st.bps
      cases l with
      | none =>
        simp only [itemsETok, itemETok] at hm
        obtain ⟨stoks, rtoks, rfl, hms, hmr⟩ := forall₂_append_left hm
        exact core stoks rtoks tbl (fuel + 1) hms hmr h
      | some id =>
        simp only [itemsETok, itemETok, List.cons_append] at hm
        obtain ⟨lt, ts1, rfl, hlt, hm⟩ := forall₂_cons_left hm
        obtain ⟨hltk, hltt⟩ : lt.kind = .label ∧ lt.text = names id := hlt
        obtain ⟨stoks, rtoks, rfl, hms, hmr⟩ := forall₂_append_left hm
        have hsz : 1 ≤ s.size := hlsz rfl
        obtain ⟨t, ts, rfl, htk⟩ := stmt_first names s stoks hms hren hsz
        cases hget : tbl.get? (names id) with
        | some v =>
          have hdup := parseStep_dup_label srcLen lt (t :: ts ++ rtoks) st tbl hltk v (by rw [hltt]; exact hget)
          exfalso
          revert h
          simp only [parseLoop]
          generalize parseStep srcLen (lt :: (t :: ts ++ rtoks)) st tbl = r at hdup
          obtain ⟨r1, r2⟩ := r
          simp only at hdup
          subst hdup
          simp only [Prod.mk.injEq, reduceCtorEq, false_and]
          exact fun h => h
        | none =>
          rw [List.cons_append, parseLoop_label srcLen fuel lt t (ts ++ rtoks) st tbl hltk
            (by rw [hltt]; exact hget) htk, ← List.cons_append] at h
          exact core (t :: ts) rtoks _ (fuel + 1) hms hmr h

/-- **… from the start of the parser**: the breakpoint list is `Prog.breaks`. -/
theorem parse_tokens_breaks (names : Nat → List Char) (P : Prog) (srcLen : Nat) (toks : List Token)
    (hm : List.Forall₂ ETok.Matches (progETok names P) toks)
    (hren : P.renderable = true) (hsyn : P.syntaxOk = true)
    (air : Air) (tbl' : SymTab)
    (hp : parseLoop srcLen (toks.length + 1) toks
        { orig := none, stmts := [], n := 0, bps := [], line := 1, tokEnd := 0 } [] = (.ok air, tbl')) :
    air.bps = P.breaks := by
  unfold Prog.renderable at hren
  rw [Bool.and_eq_true, List.all_eq_true] at hren
  unfold Prog.syntaxOk at hsyn
  rw [List.all_eq_true] at hsyn
  rw [stmts_eq] at hren hsyn
  have := parse_items_breaks names srcLen P.items (toks.length + 1) toks
    { orig := none, stmts := [], n := 0, bps := [], line := 1, tokEnd := 0 } [] air tbl'
    rfl (by decide) hm
    (fun ls hls => ⟨hren.1 ls hls, fun hsome => by
      have := hsyn ls hls
      obtain ⟨l, s⟩ := ls
      cases l with
      | none => cases hsome
      | some id => simpa using this⟩)
    hp
  rw [this]
  exact foldl_bpInsert_eraseDups _ (breakIdx_sorted P.items 0)

/-- hypotheses satisfiable: the token stream of `.orig x3000 / L brnzp L / .fill x0005 / .blkw 0 /
.break` (the example of `Proofs/ParseProg.lean`) is accepted with the breakpoint list `[2]`; and what
`Prog.breaks` computes on a program with `.break` in front of the first statement, doubled, behind a
three-word `.stringz` and an empty `.blkw`, and at the very end -/
example : (match (parseLoop 50 8
    [⟨.dir .orig, ⟨0, 5⟩, []⟩, ⟨.lit (.hex 0x3000#16), ⟨6, 5⟩, []⟩, ⟨.label, ⟨12, 1⟩, ['L']⟩,
     ⟨.instr (.br .nzp), ⟨14, 5⟩, []⟩, ⟨.label, ⟨20, 1⟩, ['L']⟩, ⟨.byte 5#16, ⟨22, 8⟩, []⟩,
     ⟨.breakpoint, ⟨40, 6⟩, []⟩]
    { orig := none, stmts := [], n := 0, bps := [], line := 1, tokEnd := 0 } []).1 with
      | .ok air => some air.bps | _ => none) = some [2] ∧
    Prog.breaks ⟨[.orig 0x3000#16, .stmt (some 0) (.br 7#3 (.label 0)), .stmt none (.fill 5#16),
      .stmt none (.blkw 0#16), .brk]⟩ = [2] ∧
    Prog.breaks ⟨[.brk, .brk, .stmt none (.stringz ['a', 'b']), .brk, .stmt none (.blkw 0#16), .brk,
      .stmt none .ret, .brk]⟩ = [0, 3, 4] := by
  decide

end Lace.C11
