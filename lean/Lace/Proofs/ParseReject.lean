/-
  Tokens → image, whole program, **both directions** (C04, parser side of the text level).

  `Proofs/ParseProg.lean` (`parse_tokens_image`) runs the parser over the token stream of a program
  whose image is defined.  This file proves the converse by *inversion*: whenever `parseLoop`, run
  over a token list that matches the expected token stream of **any** program (`itemsETok`; operands
  arbitrary 16-bit words, labels defined or not, any number of `.orig`), answers `.ok air`, then

    * every literal operand fitted its field (else `litRange`), no label was defined twice (else
      `dupLabel`), there was at most one `.orig` (else `origTwice`), the program has at most 65,535
      words (else `tooMany`) — `ItemsInv.origs`, `.nodup`, `.size`;
    * the final symbol table holds exactly the labels of the program, each with 1 + the number of
      words before it — `ItemsInv.mono`, `.defs`, `.only`;
    * resolving the parsed lines against the final table and reading off the specification's words
      (`finishAll`) gives **the same option** as `Spec.wordsFrom`: `none` on both sides when a label
      is undefined or a label distance does not fit — `ItemsInv.lines`.

  Structure:
  * `finishAll_append'`, `finishAll_of_emit` — `finishAll` as an equation / from `backpatchAll` + `emitAll`;
  * `bytes_overflow` — a data directive that crosses word 65,535 is the `tooMany` diagnostic;
  * `instr_step_none` / `instr_step_some` — one instruction statement: `litRange`, or `finishStmt`;
  * `ItemsInv`, `parse_items_inv` — the induction over the items;
  * `stack_token` — a program with a stack statement has a stack mnemonic in its token stream;
  * `parse_tokens_ok_image` — whole program: `parseLoop` ok, `backpatchAll` ok and `emitAll` ok
    imply that `Prog.image` is defined.
-/
import Lace.Proofs.ParseProg
import Lace.Proofs.AsmFlag

namespace Lace.C01
open Lace.Asm Lace.Spec Lace.C04

/-! ### `finishAll` -/

theorem finishAll_append' (tbl' : SymTab) (o : Word) : ∀ (l1 l2 : List AsmLine),
    finishAll tbl' o (l1 ++ l2) =
      match finishAll tbl' o l1, finishAll tbl' o l2 with
      | some w1, some w2 => some (w1 ++ w2)
      | _, _ => none := by
  intro l1
  induction l1 with
  | nil =>
    intro l2
    simp only [List.nil_append, finishAll]
    cases finishAll tbl' o l2 <;> rfl
  | cons a rest ih =>
    intro l2
    simp only [List.cons_append, finishAll, ih l2]
    cases finish tbl' o a.line a.span a.stmt <;> cases finishAll tbl' o rest <;>
      cases finishAll tbl' o l2 <;> simp only [List.append_assoc]

theorem finishAll_single (tbl' : SymTab) (o : Word) (a : AsmLine) :
    finishAll tbl' o [a] = finish tbl' o a.line a.span a.stmt := by
  simp only [finishAll]
  cases finish tbl' o a.line a.span a.stmt with
  | none => rfl
  | some w => simp only [List.append_nil]

/-- lines that resolve and whose resolved forms all have a specification word: `finishAll` is defined -/
theorem finishAll_of_spec (tbl' : SymTab) (o : Word) : ∀ (l stmts : List AsmLine) (ws : List Word),
    backpatchAll tbl' l = some stmts → specWords o stmts = some ws → finishAll tbl' o l = some ws := by
  intro l
  induction l with
  | nil =>
    intro stmts ws hb hs
    simp only [backpatchAll, Option.some.injEq] at hb
    subst hb
    simp only [specWords, Option.some.injEq] at hs
    subst hs
    rfl
  | cons a rest ih =>
    intro stmts ws hb hs
    simp only [backpatchAll] at hb
    cases ha : AsmLine.backpatch tbl' a with
    | none => rw [ha] at hb; cases hb
    | some a' =>
      rw [ha] at hb
      simp only [] at hb
      cases hr : backpatchAll tbl' rest with
      | none => rw [hr] at hb; cases hb
      | some rest' =>
        rw [hr] at hb
        simp only [Option.some.injEq] at hb
        subst hb
        simp only [specWords] at hs
        cases hw : specWord o a' with
        | none => rw [hw] at hs; cases hs
        | some w =>
          cases hws : specWords o rest' with
          | none => rw [hw, hws] at hs; cases hs
          | some ws' =>
            rw [hw, hws] at hs
            simp only [Option.some.injEq] at hs
            subst hs
            have h1 : finish tbl' o a.line a.span a.stmt = some [w] := by
              have : AsmLine.backpatch tbl' { line := a.line, stmt := a.stmt, span := a.span } = some a' := ha
              simp only [finish, this, Option.bind_some, hw, Option.map_some]
            simp only [finishAll, h1, ih rest' ws' hr hws, List.cons_append, List.nil_append]

/-! ### a data directive that crosses word 65,535 -/

theorem parseLoop_zero (srcLen : Nat) (toks : List Token) (st : PState) (tbl : SymTab) (air : Air)
    (tblF : SymTab) : parseLoop srcLen 0 toks st tbl ≠ (.ok air, tblF) := by
  intro h
  simp only [parseLoop, Prod.mk.injEq, reduceCtorEq, false_and] at h

/-- the byte tokens of a data directive that has words beyond word 65,535: the statement counter is
full while tokens remain — `too many`, never `.ok` -/
theorem bytes_overflow (srcLen : Nat) : ∀ (bs : List Word) (btoks rest : List Token) (st : PState)
    (tbl : SymTab) (fuel : Nat),
    List.Forall₂ ETok.Matches (bs.map .byte) btoks → st.line ≤ 65535 → st.line + bs.length > 65536 →
    ∀ air tblF, parseLoop srcLen fuel (btoks ++ rest) st tbl ≠ (.ok air, tblF) := by
  intro bs
  induction bs with
  | nil =>
    intro btoks rest st tbl fuel _ h1 h2
    simp only [List.length_nil, Nat.add_zero] at h2
    omega
  | cons b bs ih =>
    intro btoks rest st tbl fuel hm h1 h2 air tblF
    obtain ⟨t, ts, rfl, hk, hm'⟩ := forall₂_cons_left hm
    have hk : t.kind = .byte b := hk
    simp only [List.length_cons] at h2
    cases fuel with
    | zero => exact parseLoop_zero _ _ _ _ _ _
    | succ fuel =>
      by_cases hfull : st.line + 1 > 65535
      · -- this is statement 65,535 and at least one more byte token follows
        have hlen : bs.length ≥ 1 := by omega
        have hl := forall₂_length hm'
        rw [List.length_map] at hl
        cases ts with
        | nil => simp only [List.length_nil] at hl; omega
        | cons nxt ts' =>
          have hstep : parseStep srcLen (t :: (nxt :: ts') ++ rest) st tbl =
              (.done (.diag .tooMany (some (nxt.span.offs, nxt.span.len))), tbl) := by
            rw [List.cons_append, parseStep_nolabel srcLen t _ st tbl (by rw [hk]; exact fun h => by cases h)]
            simp only [parseLine, hk, finishStmt, hfull, if_true, List.cons_append]
          intro h
          simp only [parseLoop, hstep, Prod.mk.injEq, reduceCtorEq, false_and] at h
      · have hstep : parseStep srcLen (t :: ts ++ rest) st tbl =
            (.more (ts ++ rest) { st.addStmt t (.rawWord b) none with line := st.line + 1 }, tbl) := by
          rw [List.cons_append, parseStep_nolabel srcLen t _ st tbl (by rw [hk]; exact fun h => by cases h)]
          simp only [parseLine, hk, finishStmt, hfull, if_false]
        have := ih ts rest { st.addStmt t (.rawWord b) none with line := st.line + 1 } tbl fuel hm'
          (by show st.line + 1 ≤ 65535; omega) (by show st.line + 1 + bs.length > 65536; omega) air tblF
        intro h
        rw [List.cons_append] at hstep
        simp only [List.cons_append, parseLoop, hstep] at h
        exact this h

/-! ### one instruction statement -/

/-- a literal operand that does not fit: the `litRange` diagnostic -/
theorem instr_step_none (names : Nat → List Char) (srcLen : Nat) (s : SrcStmt) (hd : Head) (ops : List Opnd)
    (hs : stmtSyntax names s = some (hd, ops)) (t : Token) (ots rest : List Token)
    (ht : hd.etok.Matches t) (hops : List.Forall₂ ETok.Matches (ops.map .opnd) ots)
    (st : PState) (tbl : SymTab) (ha : airOf names tbl st.line s = none) :
    ∃ sp, parseStep srcLen (t :: ots ++ rest) st tbl = (.done (.diag .litRange sp), tbl) := by
  have hp := parse_stmt_tokens names srcLen tbl st.line s hd ops hs ots rest (matchAll_of_forall₂ hops)
  rw [ha] at hp
  obtain ⟨sp, hp⟩ := hp
  refine ⟨sp, ?_⟩
  rw [List.cons_append, parseStep_nolabel srcLen t _ st tbl (head_not_label hd t ht),
    parseLine_head srcLen hd t _ st tbl ht, hp]
  rfl

/-- every operand fits: the statement `airOf` is appended -/
theorem instr_step_some (names : Nat → List Char) (srcLen : Nat) (s : SrcStmt) (hd : Head) (ops : List Opnd)
    (hs : stmtSyntax names s = some (hd, ops)) (t : Token) (ots rest : List Token)
    (ht : hd.etok.Matches t) (hops : List.Forall₂ ETok.Matches (ops.map .opnd) ots)
    (st : PState) (tbl : SymTab) (stmt : Stmt) (ha : airOf names tbl st.line s = some stmt) :
    ∃ te, parseStep srcLen (t :: ots ++ rest) st tbl = (finishStmt st t (.ok (stmt, rest, te)), tbl) := by
  have hp := parse_stmt_tokens names srcLen tbl st.line s hd ops hs ots rest (matchAll_of_forall₂ hops)
  rw [ha] at hp
  obtain ⟨te, hp⟩ := hp
  refine ⟨te, ?_⟩
  rw [List.cons_append, parseStep_nolabel srcLen t _ st tbl (head_not_label hd t ht),
    parseLine_head srcLen hd t _ st tbl ht, hp]

/-! ### what a successful parse implies -/

/-- What `parseLoop … = (.ok air, tblF)` over the tokens of `its`, started in state `st` with table
`tbl` after `k` words, implies. -/
structure ItemsInv (names : Nat → List Char) (ow : Word) (its : List Item) (st : PState) (tbl : SymTab)
    (k : Nat) (air : Air) (tblF : SymTab) : Prop where
  /-- no `.orig` after an `.orig` -/
  orig1 : st.orig = none ∨ itemsOrigs its = []
  origs : (itemsOrigs its).length ≤ 1
  airOrig : air.orig = st.orig.or (itemsOrigs its).head?
  size : k + totalSize (itemsStmts its) ≤ 65535
  /-- the table only grows -/
  mono : ∀ n v, tbl.get? n = some v → tblF.get? n = some v
  /-- every label defined in `its` was new and ends up with its statement number -/
  defs : ∀ d ∈ labelDefs (itemsStmts its) k, tbl.get? (names d.1) = none ∧ tblF.get? (names d.1) = some (d.2 + 1)
  nodup : ((labelDefs (itemsStmts its) k).map (·.1)).Nodup
  /-- nothing else is entered -/
  only : ∀ n v, tblF.get? n = some v → tbl.get? n = some v ∨ ∃ d ∈ labelDefs (itemsStmts its) k, names d.1 = n
  /-- the lines added, resolved against the final table, have the specification's words — or both
  sides are undefined -/
  lines : ∃ lines, air.stmts = st.stmts.reverse ++ lines ∧
    ∀ lab : Nat → Option Word,
      (∀ id ∈ stmtsIds (itemsStmts its), lab id = (tblF.get? (names id)).map (addrOf ow)) →
      finishAll tblF ow lines = wordsFrom lab ow (itemsStmts its) k

theorem silent_total : ∀ (its : List Item) (k : Nat), 65535 ≤ k → fullOk its k = true →
    totalSize (itemsStmts its) = 0 := by
  intro its
  induction its with
  | nil => intro _ _ _; rfl
  | cons it rest ih =>
    intro k hk h
    simp only [fullOk, Bool.and_eq_true, Bool.or_eq_true, decide_eq_true_eq] at h
    obtain ⟨h1, h2⟩ := h
    have hs : it.silent = true := by
      rcases h1 with h1 | h1
      · omega
      · exact h1
    rw [silent_eq hs] at h2 ⊢
    have hz : (SrcStmt.blkw 0#16).size = 0 := rfl
    simp only [Item.size, hz, Nat.add_zero] at h2
    simp only [itemsStmts, totalSize, hz, ih k hk h2]

/-- what the lines of one statement, parsed with table `tblX` after `k` words, contribute -/
def StmtFin (names : Nat → List Char) (ow : Word) (s : SrcStmt) (tblX : SymTab) (k : Nat)
    (lines : List AsmLine) : Prop :=
  ∀ tblF : SymTab, (∀ n v, tblX.get? n = some v → tblF.get? n = some v) →
    ∀ lab : Nat → Option Word, (∀ id ∈ s.ids, lab id = (tblF.get? (names id)).map (addrOf ow)) →
      finishAll tblF ow lines = s.words lab (addrOf ow (k + 1))

theorem stmtFin_data {names : Nat → List Char} {s : SrcStmt} (hs : stmtSyntax names s = none)
    (hren : s.renderable = true) (ow : Word) (tblX : SymTab) (k : Nat) (lines : List AsmLine)
    (h : lines.map (·.stmt) = (dataWords s).map Stmt.rawWord) : StmtFin names ow s tblX k lines := by
  intro tblF _ lab _
  obtain ⟨_, h2, _, _⟩ := data_stmt hs hren lab (addrOf ow (k + 1))
  rw [h2]
  exact finishAll_raw tblF ow lines _ h

theorem stmtFin_instr {names : Nat → List Char} {s : SrcStmt} (hsyn : (stmtSyntax names s).isSome = true)
    (ow : Word) (tblX : SymTab) (k : Nat) (sp : Span) (stmt : Stmt)
    (ha : airOf names tblX (k + 1) s = some stmt) :
    StmtFin names ow s tblX k [{ line := k + 1, stmt := stmt, span := sp }] := by
  intro tblF hmono lab hids
  have h1 := airOf_words names tblX tblF (k + 1) ow sp hmono
    (fun id => (tblF.get? (names id)).map (addrOf ow)) (fun _ => rfl) s hsyn
  rw [ha, Option.bind_some, ← words_congr hids] at h1
  rw [finishAll_single]
  exact h1.symm

/-- a statement after which the loop goes on -/
theorem itemsInv_stmt_more {names : Nat → List Char} {ow : Word} {s : SrcStmt} {rest : List Item}
    {st st' : PState} {tblX : SymTab} {k : Nat} {air : Air} {tblF : SymTab} {lines : List AsmLine}
    (hI : ItemsInv names ow rest st' tblX (k + s.size) air tblF)
    (horig : st'.orig = st.orig) (hstmts : st'.stmts = lines.reverse ++ st.stmts)
    (hfin : StmtFin names ow s tblX k lines) :
    ItemsInv names ow (.stmt none s :: rest) st tblX k air tblF where
  orig1 := by rw [← horig]; exact hI.orig1
  origs := hI.origs
  airOrig := by rw [← horig]; exact hI.airOrig
  size := by
    have := hI.size
    simp only [itemsStmts, totalSize]
    omega
  mono := hI.mono
  defs := hI.defs
  nodup := hI.nodup
  only := hI.only
  lines := by
    obtain ⟨lines', e1, e2⟩ := hI.lines
    refine ⟨lines ++ lines', ?_, ?_⟩
    · rw [e1, hstmts, List.reverse_append, List.reverse_reverse, List.append_assoc]
    · intro lab hlab
      have hs := hfin tblF hI.mono lab (fun id hid => hlab id (List.mem_append_left _ hid))
      have hr := e2 lab (fun id hid => hlab id (List.mem_append_right _ hid))
      rw [finishAll_append', hs, hr]
      simp only [itemsStmts, wordsFrom, addrOf_succ]
      cases s.words lab (ow + BitVec.ofNat 16 k) <;>
        cases wordsFrom lab ow (itemsStmts rest) (k + s.size) <;> rfl

/-- the statement that fills the image: only silent items follow, the loop has ended -/
theorem itemsInv_stmt_last {names : Nat → List Char} {ow : Word} {s : SrcStmt} {rest : List Item}
    {st : PState} {tblX : SymTab} {k : Nat} {air : Air} {lines : List AsmLine}
    (hk : k + s.size = 65535) (hfull : fullOk rest (k + s.size) = true)
    (horig : air.orig = st.orig) (hstmts : air.stmts = st.stmts.reverse ++ lines)
    (hfin : StmtFin names ow s tblX k lines) :
    ItemsInv names ow (.stmt none s :: rest) st tblX k air tblX := by
  have hge : 65535 ≤ k + s.size := by omega
  have htot := silent_total rest (k + s.size) hge hfull
  have hsil := fun lab => silent_rest names lab ow rest (k + s.size) hge hfull
  obtain ⟨_, s2, s3, _⟩ := hsil (fun _ => none)
  have hdefs : labelDefs (itemsStmts (.stmt none s :: rest)) k = [] := s2
  have horigs : itemsOrigs (.stmt none s :: rest) = [] := s3
  refine ⟨Or.inr horigs, by rw [horigs]; exact Nat.zero_le _, ?_, ?_, fun _ _ h => h, ?_, ?_,
    fun _ _ h => Or.inl h, lines, hstmts, ?_⟩
  · rw [horig, horigs]; cases st.orig <;> rfl
  · simp only [itemsStmts, totalSize, htot]; omega
  · rw [hdefs]; intro d hd; cases hd
  · rw [hdefs]; exact List.nodup_nil
  · intro lab hlab
    have hs := hfin tblX (fun _ _ h => h) lab (fun id hid => hlab id (List.mem_append_left _ hid))
    rw [hs]
    simp only [itemsStmts, wordsFrom, addrOf_succ, (hsil lab).2.2.2]
    cases s.words lab (ow + BitVec.ofNat 16 k) with
    | none => rfl
    | some w => simp only [List.append_nil]

/-- a prefix label -/
theorem itemsInv_label {names : Nat → List Char} {ow : Word} {s : SrcStmt} {rest : List Item}
    {st : PState} {tbl : SymTab} {k : Nat} {air : Air} {tblF : SymTab} (id : Nat)
    (hnew : tbl.get? (names id) = none)
    (hI : ItemsInv names ow (.stmt none s :: rest) st (tbl.insert (names id) (k + 1)).1 k air tblF) :
    ItemsInv names ow (.stmt (some id) s :: rest) st tbl k air tblF := by
  have hins : (tbl.insert (names id) (k + 1)).1.get? (names id) = some (k + 1) := by
    rw [insert_get?, if_pos rfl]
  have hF : tblF.get? (names id) = some (k + 1) := hI.mono _ _ hins
  have hdefs : labelDefs (itemsStmts (.stmt (some id) s :: rest)) k =
      (id, k) :: labelDefs (itemsStmts (.stmt none s :: rest)) k := rfl
  have hother : ∀ d ∈ labelDefs (itemsStmts (.stmt none s :: rest)) k, ¬ names id = names d.1 := by
    intro d hd hc
    have := (hI.defs d hd).1
    rw [← hc, hins] at this
    cases this
  refine ⟨hI.orig1, hI.origs, hI.airOrig, hI.size, ?_, ?_, ?_, ?_, ?_⟩
  · intro n v h
    apply hI.mono
    rw [insert_get?]
    by_cases hn : names id = n
    · rw [← hn, hnew] at h; cases h
    · rw [if_neg hn]; exact h
  · rw [hdefs]
    intro d hd
    rcases List.mem_cons.mp hd with rfl | hd
    · exact ⟨hnew, hF⟩
    · have h1 := hI.defs d hd
      refine ⟨?_, h1.2⟩
      have := h1.1
      rw [insert_get?, if_neg (hother d hd)] at this
      exact this
  · rw [hdefs, List.map_cons, List.nodup_cons]
    refine ⟨?_, hI.nodup⟩
    intro hmem
    obtain ⟨d, hd, hdi⟩ := List.mem_map.mp hmem
    have hdi' : d.1 = id := hdi
    exact hother d hd (by rw [hdi'])
  · intro n v h
    rcases hI.only n v h with h1 | ⟨d, hd, hdn⟩
    · rw [insert_get?] at h1
      by_cases hn : names id = n
      · right; exact ⟨(id, k), by rw [hdefs]; exact List.mem_cons_self, hn⟩
      · rw [if_neg hn] at h1; exact Or.inl h1
    · right; exact ⟨d, by rw [hdefs]; exact List.mem_cons_of_mem _ hd, hdn⟩
  · obtain ⟨lines, e1, e2⟩ := hI.lines
    refine ⟨lines, e1, ?_⟩
    intro lab hlab
    exact e2 lab (fun i hi => hlab i (List.mem_cons_of_mem _ hi))

/-! ### the induction over the items -/

/-- **The parser accepts well-formed programs only.**  If the parser loop, run over tokens that
match the expected token stream of `its`, answers `.ok air` with final table `tblF`, then the items
are well formed as far as the parser checks (`ItemsInv`), and the parsed lines stand for the
specification's words. -/
theorem parse_items_inv (names : Nat → List Char) (srcLen : Nat) (ow : Word) :
    ∀ (its : List Item) (fuel : Nat) (toks : List Token) (st : PState) (tbl : SymTab) (k : Nat)
      (air : Air) (tblF : SymTab),
      st.line = k + 1 → st.n = k → k < 65535 → fullOk its k = true →
      toks.length < fuel →
      List.Forall₂ ETok.Matches (itemsETok names its) toks →
      (∀ ls ∈ itemsStmts its, ls.2.renderable = true ∧ (ls.1.isSome = true → 1 ≤ ls.2.size)) →
      parseLoop srcLen fuel toks st tbl = (.ok air, tblF) →
      ItemsInv names ow its st tbl k air tblF := by
  intro its
  induction its with
  | nil =>
    intro fuel toks st tbl k air tblF hline hn hk65 hfull hfuel hm hrs h
    rw [forall₂_nil_left hm] at hfuel h
    obtain ⟨fuel', rfl⟩ : ∃ f, fuel = f + 1 := ⟨fuel - 1, by omega⟩
    rw [parseLoop_nil] at h
    simp only [Prod.mk.injEq, Res.ok.injEq] at h
    obtain ⟨rfl, rfl⟩ := h
    refine ⟨Or.inr rfl, Nat.zero_le _, ?_, (by simp only [itemsStmts, totalSize]; omega), fun _ _ h => h,
      (fun d hd => by cases hd), List.nodup_nil, fun _ _ h => Or.inl h, [], ?_, fun _ _ => rfl⟩
    · show st.orig = st.orig.or none
      cases st.orig <;> rfl
    · show st.stmts.reverse = _
      rw [List.append_nil]
  | cons it rest ih =>
    intro fuel toks st tbl k air tblF hline hn hk65 hfull hfuel hm hrs h
    cases it with
    | orig w =>
      simp only [itemsETok, itemETok, List.cons_append, List.nil_append] at hm
      obtain ⟨ot, ts1, rfl, hot, hm⟩ := forall₂_cons_left hm
      obtain ⟨lt, rtoks, rfl, hlt, hm⟩ := forall₂_cons_left hm
      have hot : ot.kind = .dir .orig := hot
      have hlt : litWord lt.kind = some w := hlt
      simp only [List.length_cons] at hfuel
      obtain ⟨fuel', rfl⟩ : ∃ f, fuel = f + 1 := ⟨fuel - 1, by omega⟩
      have hnl := parseStep_nolabel srcLen ot (lt :: rtoks) st tbl (by rw [hot]; exact fun h => by cases h)
      cases hso : st.orig with
      | some w0 =>
        rw [parseLine_second_orig srcLen false ot lt rtoks st tbl hot w w0 hlt hso] at hnl
        simp only [parseLoop, hnl, Prod.mk.injEq, reduceCtorEq, false_and] at h
      | none =>
        rw [parseLine_first_orig srcLen false ot lt rtoks st tbl hot w hlt hso] at hnl
        simp only [parseLoop, hnl] at h
        have hI := ih fuel' rtoks { st with orig := some w, tokEnd := lt.span.offs + lt.span.len } tbl k air tblF
          hline hn hk65
          (by simp only [fullOk, Item.size, Bool.and_eq_true, Nat.add_zero] at hfull; exact hfull.2)
          (by omega) hm hrs h
        have hrest : itemsOrigs rest = [] := by
          rcases hI.orig1 with h1 | h1
          · cases h1
          · exact h1
        refine ⟨Or.inl hso, ?_, ?_, hI.size, hI.mono, hI.defs, hI.nodup, hI.only, hI.lines⟩
        · simp only [itemsOrigs, hrest, List.length_cons, List.length_nil]; omega
        · rw [hI.airOrig, hso]; rfl
    | brk =>
      simp only [itemsETok, itemETok, List.cons_append, List.nil_append] at hm
      obtain ⟨bt, rtoks, rfl, hbt, hm⟩ := forall₂_cons_left hm
      have hbt : bt.kind = .breakpoint := hbt
      simp only [List.length_cons] at hfuel
      obtain ⟨fuel', rfl⟩ : ∃ f, fuel = f + 1 := ⟨fuel - 1, by omega⟩
      have hstep : parseStep srcLen (bt :: rtoks) st tbl =
          (.more rtoks { st with bps := bpInsert st.bps (st.n % 65536) }, tbl) := by
        rw [parseStep_nolabel srcLen bt _ st tbl (by rw [hbt]; exact fun h => by cases h)]
        simp only [parseLine, hbt]
      simp only [parseLoop, hstep] at h
      have hI := ih fuel' rtoks { st with bps := bpInsert st.bps (st.n % 65536) } tbl k air tblF hline hn hk65
        (by simp only [fullOk, Item.size, Bool.and_eq_true, Nat.add_zero] at hfull; exact hfull.2)
        (by omega) hm hrs h
      exact ⟨hI.orig1, hI.origs, hI.airOrig, hI.size, hI.mono, hI.defs, hI.nodup, hI.only, hI.lines⟩
    | stmt l s =>
      simp only [itemsStmts] at hrs
      simp only [fullOk, Item.size, Bool.and_eq_true] at hfull
      have hfull' := hfull.2
      obtain ⟨hren, hlsz⟩ := hrs (l, s) List.mem_cons_self
      have hrs' : ∀ ls ∈ itemsStmts rest, ls.2.renderable = true ∧ (ls.1.isSome = true → 1 ≤ ls.2.size) :=
        fun ls h => hrs ls (List.mem_cons_of_mem _ h)
      -- the statement and everything after it, from any table
      have core : ∀ (stoks rtoks : List Token) (tblX : SymTab) (fuelX : Nat),
          stoks.length + rtoks.length < fuelX →
          List.Forall₂ ETok.Matches (stmtETok names s) stoks →
          List.Forall₂ ETok.Matches (itemsETok names rest) rtoks →
          parseLoop srcLen fuelX (stoks ++ rtoks) st tblX = (.ok air, tblF) →
          ItemsInv names ow (.stmt none s :: rest) st tblX k air tblF := by
        intro stoks rtoks tblX fuelX hfX hms hmr hX
        -- when the statement fills the image nothing follows
        have hlast : k + s.size = 65535 → rtoks = [] := by
          intro heq
          obtain ⟨s1, _, _, _⟩ := silent_rest names (fun _ => none) ow rest (k + s.size) (by omega) hfull'
          rw [s1] at hmr
          exact forall₂_nil_left hmr
        cases hs : stmtSyntax names s with
        | none =>
          obtain ⟨h1, _, h3, _⟩ := data_stmt hs hren (fun _ => none) 0#16
          rw [h1] at hms
          have hlen : stoks.length = (dataWords s).length := by
            rw [forall₂_length hms, List.length_map]
          rcases Nat.lt_trichotomy (k + s.size) 65535 with hlt | heq | hgt
          · obtain ⟨st', hr, a1, a2, a3, lines, a4, a5, _, _⟩ :=
              bytes_reaches srcLen (dataWords s) stoks rtoks st tblX hms (by rw [hline, ← h3]; omega)
            have hf : fuelX = (fuelX - (dataWords s).length) + (dataWords s).length := by omega
            rw [hf, hr (fuelX - (dataWords s).length)] at hX
            have hI := ih (fuelX - (dataWords s).length) rtoks st' tblX (k + s.size) air tblF
              (by rw [a1, hline, h3]; omega) (by rw [a2, hn, h3]) hlt hfull' (by omega) hmr hrs' hX
            exact itemsInv_stmt_more hI a3 a4 (stmtFin_data hs hren ow tblX k lines a5)
          · have hnil := hlast heq
            subst hnil
            rw [List.append_nil] at hX
            simp only [List.length_nil, Nat.add_zero] at hfX
            cases hd : dataWords s with
            | nil => rw [hd] at h3; simp only [List.length_nil] at h3; omega
            | cons b bs =>
              rw [hd] at hms h3
              simp only [List.length_cons] at h3
              obtain ⟨air', e1, e2, lines, e3, e4, _⟩ :=
                bytes_final srcLen bs b stoks st tblX fuelX hms (by omega) hfX
              rw [e1] at hX
              simp only [Prod.mk.injEq, Res.ok.injEq] at hX
              obtain ⟨rfl, rfl⟩ := hX
              exact itemsInv_stmt_last heq hfull' e2 e3
                (stmtFin_data hs hren ow tblX k lines (by rw [hd]; exact e4))
          · exact absurd hX (bytes_overflow srcLen (dataWords s) stoks rtoks st tblX fuelX hms
              (by omega) (by rw [hline, ← h3]; omega) air tblF)
        | some p =>
          obtain ⟨hd, ops⟩ := p
          rw [stmtETok_syntax hs] at hms
          obtain ⟨t, ots, rfl, ht, hops⟩ := forall₂_cons_left hms
          have hsz : s.size = 1 := by
            cases s <;> first | rfl | (cases hs; done)
          simp only [List.length_cons] at hfX
          obtain ⟨fuel', rfl⟩ : ∃ f, fuelX = f + 1 := ⟨fuelX - 1, by omega⟩
          cases ha : airOf names tblX st.line s with
          | none =>
            obtain ⟨sp, hstep⟩ := instr_step_none names srcLen s hd ops hs t ots rtoks ht hops st tblX ha
            simp only [parseLoop, hstep, Prod.mk.injEq, reduceCtorEq, false_and] at hX
          | some stmt =>
            obtain ⟨te, hstep⟩ := instr_step_some names srcLen s hd ops hs t ots rtoks ht hops st tblX stmt ha
            obtain ⟨sp, hsp⟩ := addStmt_stmts st t stmt te
            have hmod : (st.n + 1) % 65536 = k + 1 := by rw [hn]; exact Nat.mod_eq_of_lt (by omega)
            rw [hmod] at hsp
            rw [hline] at ha
            have hfin := stmtFin_instr (names := names) (s := s) (by rw [hs]; rfl) ow tblX k sp stmt ha
            by_cases hgt : st.line + 1 > 65535
            · have heq : k + s.size = 65535 := by omega
              have hnil := hlast heq
              subst hnil
              have hfs : finishStmt st t (.ok (stmt, [], te)) = .done (.ok (st.addStmt t stmt te).air) := by
                simp only [finishStmt, hgt, if_true]
              rw [hfs] at hstep
              simp only [parseLoop, hstep, Prod.mk.injEq, Res.ok.injEq] at hX
              obtain ⟨rfl, rfl⟩ := hX
              refine itemsInv_stmt_last heq hfull' rfl ?_ hfin
              show (st.addStmt t stmt te).stmts.reverse = _
              rw [hsp, List.reverse_cons]
            · have hfs : finishStmt st t (.ok (stmt, rtoks, te)) =
                  .more rtoks { st.addStmt t stmt te with line := st.line + 1 } := by
                simp only [finishStmt, hgt, if_false]
              rw [hfs] at hstep
              simp only [parseLoop, hstep] at hX
              have hI := ih fuel' rtoks { st.addStmt t stmt te with line := st.line + 1 } tblX (k + s.size)
                air tblF (by show st.line + 1 = _; omega) (by show st.n + 1 = _; omega) (by omega) hfull'
                (by omega) hmr hrs' hX
              refine itemsInv_stmt_more hI rfl ?_ hfin
              show (st.addStmt t stmt te).stmts = _
              rw [hsp]; rfl
      cases l with
      | none =>
        simp only [itemsETok, itemETok] at hm
        obtain ⟨stoks, rtoks, rfl, hms, hmr⟩ := forall₂_append_left hm
        simp only [List.length_append] at hfuel
        exact core stoks rtoks tbl fuel hfuel hms hmr h
      | some id =>
        simp only [itemsETok, itemETok, List.cons_append] at hm
        obtain ⟨lt, ts1, rfl, hlt, hm⟩ := forall₂_cons_left hm
        obtain ⟨hltk, hltt⟩ : lt.kind = .label ∧ lt.text = names id := hlt
        obtain ⟨stoks, rtoks, rfl, hms, hmr⟩ := forall₂_append_left hm
        have hsz : 1 ≤ s.size := hlsz rfl
        obtain ⟨t, ts, rfl, htk⟩ := stmt_first names s stoks hms hren hsz
        simp only [List.length_cons, List.length_append] at hfuel
        obtain ⟨fuel', rfl⟩ : ∃ f, fuel = f + 1 := ⟨fuel - 1, by omega⟩
        cases hget : tbl.get? (names id) with
        | some v =>
          have hdup := parseStep_dup_label srcLen lt (t :: ts ++ rtoks) st tbl hltk v (by rw [hltt]; exact hget)
          exfalso
          revert h
          simp only [parseLoop]
          generalize parseStep srcLen (lt :: (t :: ts ++ rtoks)) st tbl = r at hdup
          obtain ⟨r1, r2⟩ := r
          simp only at hdup
          subst hdup
          simp only [Prod.mk.injEq, reduceCtorEq, false_and]
          exact fun h => h
        | none =>
          rw [List.cons_append, parseLoop_label srcLen fuel' lt t (ts ++ rtoks) st tbl hltk
            (by rw [hltt]; exact hget) htk, hltt, hline, ← List.cons_append] at h
          exact itemsInv_label id hget
            (core (t :: ts) rtoks _ (fuel' + 1) (by simp only [List.length_cons]; omega) hms hmr h)

/-! ### the stack mnemonics -/

theorem forall₂_mem_left {α β : Type _} {R : α → β → Prop} : ∀ {as : List α} {bs : List β},
    List.Forall₂ R as bs → ∀ a ∈ as, ∃ b ∈ bs, R a b := by
  intro as
  induction as with
  | nil => intro bs _ a ha; cases ha
  | cons x xs ih =>
    intro bs h a ha
    obtain ⟨b, bs', rfl, h1, h2⟩ := forall₂_cons_left h
    rcases List.mem_cons.mp ha with rfl | ha
    · exact ⟨b, List.mem_cons_self, h1⟩
    · obtain ⟨b', hb', hr⟩ := ih h2 a ha
      exact ⟨b', List.mem_cons_of_mem _ hb', hr⟩

theorem stack_etok (names : Nat → List Char) (s : SrcStmt) (h : s.isStack = true) :
    ∃ k, ETok.instr k ∈ stmtETok names s ∧ (TokenKind.instr k).isStack = true := by
  cases s <;> first | (cases h; done) | exact ⟨_, List.mem_cons_self, rfl⟩

theorem stack_items (names : Nat → List Char) : ∀ its : List Item,
    (itemsStmts its).all (fun ls => !ls.2.isStack) = false →
    ∃ k, ETok.instr k ∈ itemsETok names its ∧ (TokenKind.instr k).isStack = true := by
  intro its
  induction its with
  | nil => intro h; cases h
  | cons it rest ih =>
    intro h
    cases it with
    | orig w =>
      obtain ⟨k, hk, hs⟩ := ih h
      exact ⟨k, List.mem_append_right _ hk, hs⟩
    | brk =>
      obtain ⟨k, hk, hs⟩ := ih h
      exact ⟨k, List.mem_append_right _ hk, hs⟩
    | stmt l s =>
      simp only [itemsStmts, List.all_cons, Bool.and_eq_false_iff, Bool.not_eq_eq_eq_not, Bool.not_false] at h
      rcases h with h | h
      · obtain ⟨k, hk, hs⟩ := stack_etok names s h
        refine ⟨k, List.mem_append_left _ ?_, hs⟩
        cases l with
        | none => exact hk
        | some id => exact List.mem_cons_of_mem _ hk
      · obtain ⟨k, hk, hs⟩ := ih h
        exact ⟨k, List.mem_append_right _ hk, hs⟩

/-- **A program with a stack statement has a stack mnemonic in its token stream.** -/
theorem stack_token (names : Nat → List Char) (P : Prog) (toks : List Token)
    (hm : List.Forall₂ ETok.Matches (progETok names P) toks)
    (h : P.stmts.all (fun ls => !ls.2.isStack) = false) : ∃ t ∈ toks, t.kind.isStack = true := by
  rw [stmts_eq] at h
  obtain ⟨k, hk, hs⟩ := stack_items names P.items h
  obtain ⟨t, ht, hr⟩ := forall₂_mem_left hm _ hk
  have hr : t.kind = .instr k := hr
  exact ⟨t, ht, by rw [hr]; exact hs⟩

/-! ### the whole program -/

theorem lookup_mem : ∀ (defs : List (Nat × Nat)) (id k : Nat), defs.lookup id = some k → (id, k) ∈ defs := by
  intro defs
  induction defs with
  | nil => intro id k h; cases h
  | cons e rest ih =>
    intro id k h
    obtain ⟨i, j⟩ := e
    by_cases he : id = i
    · subst he
      simp only [List.lookup_cons, beq_self_eq_true, Option.some.injEq] at h
      subst h
      exact List.mem_cons_self
    · have hb : (id == i) = false := by simp only [beq_eq_false_iff_ne, ne_eq]; exact he
      simp only [List.lookup_cons, hb] at h
      exact List.mem_cons_of_mem _ (ih id k h)

theorem lookup_none : ∀ (defs : List (Nat × Nat)) (id : Nat), defs.lookup id = none →
    ∀ d ∈ defs, d.1 ≠ id := by
  intro defs
  induction defs with
  | nil => intro id _ d hd; cases hd
  | cons e rest ih =>
    intro id h d hd
    obtain ⟨i, j⟩ := e
    by_cases he : id = i
    · subst he
      simp only [List.lookup_cons, beq_self_eq_true, reduceCtorEq] at h
    · have hb : (id == i) = false := by simp only [beq_eq_false_iff_ne, ne_eq]; exact he
      simp only [List.lookup_cons, hb] at h
      rcases List.mem_cons.mp hd with rfl | hd
      · exact fun hc => he hc.symm
      · exact ih id h d hd

/-- **Tokens → image, the converse of `parse_tokens_image`.**  If a token list that matches the
expected token stream of a program `P` — *any* `P` in the domain, well formed or not — parses (from
the empty symbol table), resolves and emits, then `P` is well formed and the words are its image. -/
theorem parse_tokens_ok_image (flag : Bool) (names : Nat → List Char) (P : Prog) (srcLen : Nat) (toks : List Token)
    (hm : List.Forall₂ ETok.Matches (progETok names P) toks)
    (hinj : namesInjOn names (stmtsIds P.stmts) = true)
    (hren : P.renderable = true) (hsyn : P.syntaxOk = true)
    (hst : flag = true ∨ P.stmts.all (fun ls => !ls.2.isStack) = true)
    (air : Air) (tbl' : SymTab) (stmts : List AsmLine) (ws : List Word)
    (hp : parseLoop srcLen (toks.length + 1) toks
        { orig := none, stmts := [], n := 0, bps := [], line := 1, tokEnd := 0 } [] = (.ok air, tbl'))
    (hb : backpatchAll tbl' air.stmts = some stmts) (he : emitAll stmts [] = .ok ws) :
    P.image flag = some (air.orig, ws) := by
  unfold Prog.renderable at hren
  rw [Bool.and_eq_true, List.all_eq_true] at hren
  unfold Prog.syntaxOk at hsyn
  rw [List.all_eq_true] at hsyn
  have hids := labelDefs_ids P.stmts 0
  rw [stmts_eq] at hren hsyn hinj hids
  have hI := parse_items_inv names srcLen ((itemsOrigs P.items).head?.getD 0x3000#16) P.items (toks.length + 1) toks
    { orig := none, stmts := [], n := 0, bps := [], line := 1, tokEnd := 0 } [] 0 air tbl'
    rfl rfl (by decide) hren.2 (Nat.lt_succ_self _) hm
    (fun ls hls => ⟨hren.1 ls hls, fun hsome => by
      have := hsyn ls hls
      obtain ⟨l, s⟩ := ls
      cases l with
      | none => cases hsome
      | some id => simpa using this⟩)
    hp
  -- the emitted words are the specification's words of the resolved lines
  have hsw : specWords ((itemsOrigs P.items).head?.getD 0x3000#16) stmts = some ws := by
    have := emitAll_eq_specWords ((itemsOrigs P.items).head?.getD 0x3000#16) stmts (backpatchAll_resolved hb)
    rw [he] at this
    cases hs : specWords ((itemsOrigs P.items).head?.getD 0x3000#16) stmts with
    | none => rw [hs] at this; cases this
    | some ws' => rw [hs] at this; simp only [Res.ok.injEq] at this; rw [this]
  have hfin := finishAll_of_spec tbl' _ air.stmts stmts ws hb hsw
  obtain ⟨lines, e1, e2⟩ := hI.lines
  have hl : air.stmts = lines := by rw [e1]; rfl
  rw [hl] at hfin
  have hw := e2 (fun id => ((labelDefs (itemsStmts P.items) 0).lookup id).map fun k =>
      (itemsOrigs P.items).head?.getD 0x3000#16 + BitVec.ofNat 16 k) (by
    intro id hid
    cases hlk : (labelDefs (itemsStmts P.items) 0).lookup id with
    | some kk =>
      have hd := lookup_mem _ _ _ hlk
      rw [(hI.defs (id, kk) hd).2]
      simp only [Option.map_some, addrOf_succ]
    | none =>
      cases hg : tbl'.get? (names id) with
      | none => rfl
      | some v =>
        exfalso
        rcases hI.only _ _ hg with h0 | ⟨d, hd, hdn⟩
        · cases h0
        · exact lookup_none _ _ hlk d hd (namesInj hinj (hids d hd) hid hdn))
  rw [hfin] at hw
  have horig : air.orig = (itemsOrigs P.items).head? := by
    rw [hI.airOrig]; rfl
  unfold Prog.image
  simp only []
  rw [stmts_eq, origs_eq, if_pos ⟨hI.origs, by rw [← stmts_eq]; exact hst, hI.nodup, by simpa using hI.size⟩,
    ← hw, horig]
  rfl

end Lace.C01
