/-
  `write_all_or_nothing` on the path-level file system: what the temporary-file-and-rename
  sequence does to the entry table and to the inode table (`replaceVia_plain`), for a destination
  path whose directory part is a chain of plain directories.
-/
import Lace.Proofs.PathFsLemmas
namespace Lace.PathFs
open Lace

theorem writeLimited_fits (f : Cli.Faults) (old bytes : List Nat) :
    (Cli.writeLimited f old bytes).2 = true → (Cli.writeLimited f old bytes).1 = old ++ bytes := by
  unfold Cli.writeLimited
  cases f.limit with
  | none => simp
  | some l => by_cases h : old.length + bytes.length ≤ l <;> simp [h]

/-- A path whose directory part `init` is a chain of plain directories resolves by one look-up. -/
theorem resolve_plain (fs : Fs) (fl : Bool) (fuel : Nat) (p : Path) (init : List Name) (n : Name)
    (hp : p.comps = init ++ [n]) (hd : dirsFrom fs.ents (startOf fs p) init) :
    resolve fs fl fuel p = lastStep (cont fs.ents fl fuel) fs.ents fl (startOf fs p ++ init) n := by
  unfold resolve
  rw [hp, walk_plain _ _ _ _ _ _ hd, walkWith_last]

/-- What the outcome of `write_all_or_nothing` looks like from outside: `L` holds a new regular
file with the bytes and nothing else changed, or nothing changed at all. -/
structure Outcome (fs : Fs) (r : Fs × Bool) (L : Loc) (bytes : List Nat) : Prop where
  cwd : r.1.cwd = fs.cwd
  /-- the contents of every inode that had a name are what they were -/
  data : ∀ i, i ≠ freshIno fs → contents r.1 i = contents fs i
  ok : r.2 = true → (∀ l, entryAt r.1.ents l = if l = L then some (.file (freshIno fs)) else entryAt fs.ents l) ∧
    contents r.1 (freshIno fs) = bytes
  fail : r.2 = false → ∀ l, entryAt r.1.ents l = entryAt fs.ents l

theorem ne_nil_of_snoc {α} (D : List α) (n : α) : D ++ [n] ≠ [] := by simp

theorem snoc_ne_snoc {α} (D : List α) {n t : α} (h : n ≠ t) : D ++ [n] ≠ D ++ [t] := by
  intro e; exact h (by simpa using e)

/-- The temporary-file-and-rename sequence for a destination `dp` whose directory part is a chain
of plain directories and whose own name `n` is absent, a regular file or a symbolic link: -/
theorem replaceVia_plain (f : Cli.Faults) (fuel : Nat) (fs : Fs) (dp : Path) (tmp : Name)
    (bytes : List Nat) (init : List Name) (n : Name)
    (hp : dp.comps = init ++ [n]) (hd : dirsFrom fs.ents (startOf fs dp) init) (hn : n ≠ tmp)
    (hfree : entryAt fs.ents (startOf fs dp ++ init ++ [tmp]) = none)
    (hL : entryAt fs.ents (startOf fs dp ++ init ++ [n]) = none ∨
          (∃ i, entryAt fs.ents (startOf fs dp ++ init ++ [n]) = some (.file i)) ∨
          (∃ t, entryAt fs.ents (startOf fs dp ++ init ++ [n]) = some (.link t))) :
    Outcome fs (replaceVia f fuel fs (withFileName dp tmp) dp bytes) (startOf fs dp ++ init ++ [n]) bytes ∧
    ((replaceVia f fuel fs (withFileName dp tmp) dp bytes).2 = true ↔
      (Cli.writeLimited f [] bytes).2 = true ∧ f.renameFails = false) := by
  -- names
  have hstart : ∀ (fs1 : Fs), fs1.cwd = fs.cwd →
      startOf fs1 (withFileName dp tmp) = startOf fs dp ∧ startOf fs1 dp = startOf fs dp := by
    intro fs1 h; simp [startOf, withFileName, h]
  generalize startOf fs dp = S at *
  have hd' : ∀ m : Ents, dirsFrom m S init → True := fun _ _ => trivial
  generalize hD : S ++ init = D at *
  have hKt : D ++ [tmp] ≠ [] := ne_nil_of_snoc _ _
  have hKL : D ++ [n] ≠ D ++ [tmp] := snoc_ne_snoc _ hn
  have hKL' : D ++ [tmp] ≠ D ++ [n] := fun h => hKL h.symm
  have hLne : D ++ [n] ≠ [] := ne_nil_of_snoc _ _
  -- the temporary path
  have htp : (withFileName dp tmp).comps = init ++ [tmp] := by simp [withFileName, hp]
  -- any file system that differs from `fs` only by the temporary file
  have key : ∀ (fs1 : Fs), fs1.cwd = fs.cwd →
      (∀ l, entryAt fs1.ents l = if l = D ++ [tmp] then some (.file (freshIno fs)) else entryAt fs.ents l) →
      resolve fs1 false fuel (withFileName dp tmp) = .found (D ++ [tmp]) (.file (freshIno fs)) ∧
      renameTarget fs1 fuel dp = some (D ++ [n]) := by
    intro fs1 hcwd hent
    obtain ⟨hs1, hs2⟩ := hstart fs1 hcwd
    have hd1 : dirsFrom fs1.ents S init := by
      refine dirsFrom_mono ?_ _ _ hd
      intro l hl
      rw [hent]
      by_cases h : l = D ++ [tmp]
      · subst h; rw [hfree] at hl; cases hl
      · rw [if_neg h]; exact hl
    constructor
    · rw [resolve_plain fs1 false fuel _ init tmp htp (by rw [hs1]; exact hd1), hs1, hD]
      exact lastStep_other (by rw [hent, if_pos rfl]) (by simp)
    · unfold renameTarget
      rw [resolve_plain fs1 false fuel _ init n hp (by rw [hs2]; exact hd1), hs2, hD]
      have hentL : entryAt fs1.ents (D ++ [n]) = entryAt fs.ents (D ++ [n]) := by rw [hent, if_neg hKL]
      rcases hL with h | ⟨i, h⟩ | ⟨t, h⟩
      · rw [lastStep_none (by rw [hentL, h])]
      · rw [lastStep_other (by rw [hentL, h]) (by simp)]
      · rw [lastStep_link (by rw [hentL, h])]; simp
  -- create
  have hcreate : resolve fs true fuel (withFileName dp tmp) = .missing D tmp := by
    have := (hstart fs rfl).1
    rw [resolve_plain fs true fuel _ init tmp htp (by rw [this]; exact hd), this, hD]
    exact lastStep_none hfree
  have hfresh : entryAt fs.ents (D ++ [n]) ≠ some (.file (freshIno fs)) := by
    intro h; exact Nat.lt_irrefl _ (lt_freshIno fs _ _ h)
  -- run it
  have hc0 : contents { ents := mset (D ++ [tmp]) (Entry.file (freshIno fs)) fs.ents, data := mset (freshIno fs) [] fs.data, cwd := fs.cwd } (freshIno fs) = [] := by
    simp [contents, mget_mset]
  have hwf : writeFile f fs fuel (withFileName dp tmp) bytes =
      ({ ents := mset (D ++ [tmp]) (Entry.file (freshIno fs)) fs.ents, data := mset (freshIno fs) (Cli.writeLimited f [] bytes).1 (mset (freshIno fs) [] fs.data), cwd := fs.cwd }, (Cli.writeLimited f [] bytes).2) := by
    simp only [writeFile, create, hcreate, write, hc0]
  generalize hr : replaceVia f fuel fs (withFileName dp tmp) dp bytes = r
  simp only [replaceVia, hwf] at hr
  -- the state after the write (whatever was written)
  have hwb := writeLimited_fits f [] bytes
  generalize Cli.writeLimited f [] bytes = w at hr hwb ⊢
  obtain ⟨wb, wok⟩ := w
  simp only [List.nil_append] at hwb
  generalize hfs2 : ({ ents := mset (D ++ [tmp]) (Entry.file (freshIno fs)) fs.ents, data := mset (freshIno fs) wb (mset (freshIno fs) [] fs.data), cwd := fs.cwd } : Fs) = fs2 at hr
  have hent2 : ∀ l, entryAt fs2.ents l =
      if l = D ++ [tmp] then some (.file (freshIno fs)) else entryAt fs.ents l := by
    intro l; subst hfs2; exact entryAt_mset _ _ _ _ hKt
  have hcwd2 : fs2.cwd = fs.cwd := by subst hfs2; rfl
  obtain ⟨hsrc, htgt⟩ := key fs2 hcwd2 hent2
  have hdata2 : ∀ i, contents fs2 i = if i = freshIno fs then wb else contents fs i := by
    intro i; subst hfs2
    simp only [contents, mget_mset]
    split <;> simp
  -- removing the temporary file restores the entry table
  have hremove : ∀ l, entryAt (removeFile fs2 fuel (withFileName dp tmp)).1.ents l = entryAt fs.ents l := by
    intro l
    simp only [removeFile, hsrc]
    rw [entryAt_merase _ _ _ hKt, hent2]
    by_cases h : l = D ++ [tmp]
    · subst h; simp [hfree]
    · simp [h]
  have hremove_data : ∀ i, contents (removeFile fs2 fuel (withFileName dp tmp)).1 i = contents fs2 i := by
    intro i; simp only [removeFile, hsrc]; rfl
  have hremove_cwd : (removeFile fs2 fuel (withFileName dp tmp)).1.cwd = fs.cwd := by
    simp only [removeFile, hsrc]; exact hcwd2
  have hfail : Outcome fs ((removeFile fs2 fuel (withFileName dp tmp)).1, false) (D ++ [n]) bytes :=
    { cwd := hremove_cwd
      data := by intro i hi; rw [hremove_data, hdata2]; simp [hi]
      ok := by simp
      fail := fun _ => hremove }
  cases wok with
  | false =>
    simp only [Bool.false_eq_true, if_false] at hr
    subst hr
    exact ⟨hfail, by simp⟩
  | true =>
    have hb : wb = bytes := hwb rfl
    subst hb
    simp only [if_true] at hr
    have hren : rename f fs2 fuel (withFileName dp tmp) dp =
        if f.renameFails then (fs2, false)
        else ({ fs2 with ents := mset (D ++ [n]) (.file (freshIno fs)) (merase (D ++ [tmp]) fs2.ents) }, true) := by
      simp only [rename, hsrc, htgt]
      have h2 : ¬ (entryAt fs2.ents (D ++ [n]) = some (.file (freshIno fs))) := by
        rw [hent2, if_neg hKL]; exact hfresh
      simp [hKL', h2]
    rw [hren] at hr
    cases hrf : f.renameFails with
    | true =>
      simp only [hrf, if_true, Bool.false_eq_true, if_false] at hr
      subst hr
      exact ⟨hfail, by simp⟩
    | false =>
      simp only [hrf, Bool.false_eq_true, if_false, if_true] at hr
      subst hr
      refine ⟨{ cwd := hcwd2, data := ?_, ok := fun _ => ⟨?_, ?_⟩, fail := by simp }, by simp⟩
      · intro i hi
        show contents fs2 i = _
        rw [hdata2]; simp [hi]
      · intro l
        show entryAt (mset _ _ (merase _ fs2.ents)) l = _
        rw [entryAt_mset _ _ _ _ hLne, entryAt_merase _ _ _ hKt, hent2]
        by_cases h : l = D ++ [n]
        · simp [h]
        · by_cases h' : l = D ++ [tmp]
          · subst h'; simp [h, hfree]
          · simp [h, h']
      · show contents fs2 (freshIno fs) = _
        rw [hdata2]; simp

end Lace.PathFs
