/-
  `write_all_or_nothing` on the path-level file system: what the temporary-file-and-rename
  sequence does to the entry table and to the inode table (`replaceVia_core`), for a destination
  path whose directory part leads — stably — to a directory.
-/
import Lace.Proofs.PathFsLemmas
namespace Lace.PathFs
open Lace

theorem writeLimited_fits (f : Cli.Faults) (old bytes : List Nat) :
    (Cli.writeLimited f old bytes).2 = true → (Cli.writeLimited f old bytes).1 = old ++ bytes := by
  unfold Cli.writeLimited
  cases f.limit with
  | none => simp
  | some l => by_cases h : old.length + bytes.length ≤ l <;> simp [h]

/-- A path whose directory part `init` is a chain of plain directories resolves by one look-up. -/
theorem resolve_plain (fs : Fs) (fl : Bool) (fuel : Nat) (p : Path) (init : List Name) (n : Name)
    (hp : p.comps = init ++ [n]) (hd : dirsFrom fs.ents (startOf fs p) init) :
    resolve fs fl fuel p = lastStep (cont fs.ents fl fuel) fs.ents fl (startOf fs p ++ init) n := by
  unfold resolve
  rw [hp, walk_plain _ _ _ _ _ _ hd, walkWith_last]

/-- What the outcome of `write_all_or_nothing` looks like from outside: `L` holds a new regular
file with the bytes and nothing else changed, or nothing changed at all. -/
structure Outcome (fs : Fs) (r : Fs × Bool) (L : Loc) (bytes : List Nat) : Prop where
  cwd : r.1.cwd = fs.cwd
  /-- the contents of every inode that had a name are what they were -/
  data : ∀ i, i ≠ freshIno fs → contents r.1 i = contents fs i
  ok : r.2 = true → (∀ l, entryAt r.1.ents l = if l = L then some (.file (freshIno fs)) else entryAt fs.ents l) ∧
    contents r.1 (freshIno fs) = bytes
  fail : r.2 = false → ∀ l, entryAt r.1.ents l = entryAt fs.ents l

theorem ne_nil_of_snoc {α} (D : List α) (n : α) : D ++ [n] ≠ [] := by simp

theorem snoc_ne_snoc {α} (D : List α) {n t : α} (h : n ≠ t) : D ++ [n] ≠ D ++ [t] := by
  intro e; exact h (by simpa using e)

/-- The hypothesis of `replaceVia_core`: in entry table `m'`, from directory `S`, the path
`init ++ [x]` resolves by looking `x` up in directory `D`, for every `x`. -/
def LastIn (m' : Ents) (fuel : Nat) (S : Loc) (init : List Name) (D : Loc) : Prop :=
  ∀ (fl : Bool) (x : Name), ∃ k, walk m' fl fuel S (init ++ [x]) = lastStep k m' fl D x

/-- The sequence "create the temporary file exclusively, write, rename, remove on failure" for a
destination `dp = init/n` whose directory part leads to directory `D` — stably: also after the
entries `D/tmp` and `D/n` have been re-bound — and whose own name `n` is absent, a regular file
or a symbolic link. If `D/tmp` exists, nothing happens; otherwise `D/n` ends up a new regular file
with the bytes, or nothing changed. -/
theorem replaceVia_core (f : Cli.Faults) (fuel : Nat) (fs : Fs) (dp : Path) (tmp : Name)
    (bytes : List Nat) (init : List Name) (n : Name) (D : Loc)
    (hp : dp.comps = init ++ [n])
    (hst0 : LastIn fs.ents fuel (startOf fs dp) init D)
    (hst : entryAt fs.ents (D ++ [tmp]) = none → ∀ m' : Ents,
      (∀ l, l ≠ D ++ [tmp] → l ≠ D ++ [n] → entryAt m' l = entryAt fs.ents l) →
      LastIn m' fuel (startOf fs dp) init D)
    (hL : entryAt fs.ents (D ++ [n]) = none ∨ (∃ i, entryAt fs.ents (D ++ [n]) = some (.file i)) ∨
          (∃ t, entryAt fs.ents (D ++ [n]) = some (.link t))) :
    (entryAt fs.ents (D ++ [tmp]) ≠ none →
      replaceVia f fuel fs (withFileName dp tmp) dp bytes = (fs, false)) ∧
    (entryAt fs.ents (D ++ [tmp]) = none →
      Outcome fs (replaceVia f fuel fs (withFileName dp tmp) dp bytes) (D ++ [n]) bytes ∧
      ((replaceVia f fuel fs (withFileName dp tmp) dp bytes).2 = true ↔
        (Cli.writeLimited f [] bytes).2 = true ∧ f.renameFails = false)) := by
  have hstart : ∀ (fs1 : Fs), fs1.cwd = fs.cwd →
      startOf fs1 (withFileName dp tmp) = startOf fs dp ∧ startOf fs1 dp = startOf fs dp := by
    intro fs1 h; simp [startOf, withFileName, h]
  generalize startOf fs dp = S at *
  have htp : (withFileName dp tmp).comps = init ++ [tmp] := by simp [withFileName, hp]
  have hKt : D ++ [tmp] ≠ [] := ne_nil_of_snoc _ _
  have hLne : D ++ [n] ≠ [] := ne_nil_of_snoc _ _
  -- resolution of the two paths in a file system with the same working directory
  have hres : ∀ (fs1 : Fs), fs1.cwd = fs.cwd → LastIn fs1.ents fuel S init D → ∀ fl,
      (∃ k, resolve fs1 fl fuel (withFileName dp tmp) = lastStep k fs1.ents fl D tmp) ∧
      (∃ k, resolve fs1 fl fuel dp = lastStep k fs1.ents fl D n) := by
    intro fs1 hcwd hl fl
    obtain ⟨hs1, hs2⟩ := hstart fs1 hcwd
    unfold resolve
    rw [hs1, hs2, htp, hp]
    exact ⟨hl fl tmp, hl fl n⟩
  constructor
  · -- the temporary name exists: EEXIST
    intro hex
    obtain ⟨⟨k, hk⟩, _⟩ := hres fs rfl hst0 false
    have : ∃ l e, resolve fs false fuel (withFileName dp tmp) = .found l e := by
      rw [hk]
      rcases he : entryAt fs.ents (D ++ [tmp]) with _ | e
      · exact absurd he hex
      · cases e with
        | link t => exact ⟨D ++ [tmp], .link t, by rw [lastStep_link he]; simp⟩
        | _ => exact ⟨_, _, lastStep_other he (by simp)⟩
    obtain ⟨l, e, hfound⟩ := this
    simp [replaceVia, createNew, hfound]
  intro hfree
  have hst := hst hfree
  have hfresh : entryAt fs.ents (D ++ [n]) ≠ some (.file (freshIno fs)) := by
    intro h; exact Nat.lt_irrefl _ (lt_freshIno fs _ _ h)
  -- any file system that differs from `fs` only by the temporary file
  have key : ∀ (fs1 : Fs), fs1.cwd = fs.cwd →
      (∀ l, entryAt fs1.ents l = if l = D ++ [tmp] then some (.file (freshIno fs)) else entryAt fs.ents l) →
      resolve fs1 false fuel (withFileName dp tmp) = .found (D ++ [tmp]) (.file (freshIno fs)) ∧
      renameTarget fs1 fuel dp = some (D ++ [n]) := by
    intro fs1 hcwd hent
    have hl : LastIn fs1.ents fuel S init D := hst fs1.ents (fun l h1 _ => by rw [hent, if_neg h1])
    obtain ⟨⟨k1, h1⟩, ⟨k2, h2⟩⟩ := hres fs1 hcwd hl false
    constructor
    · rw [h1]; exact lastStep_other (by rw [hent, if_pos rfl]) (by simp)
    · unfold renameTarget
      rw [h2]
      by_cases hn : n = tmp
      · subst hn
        rw [lastStep_other (by rw [hent, if_pos rfl]) (by simp)]
      · have hentL : entryAt fs1.ents (D ++ [n]) = entryAt fs.ents (D ++ [n]) := by
          rw [hent, if_neg (snoc_ne_snoc _ hn)]
        rcases hL with h | ⟨i, h⟩ | ⟨t, h⟩
        · rw [lastStep_none (by rw [hentL, h])]
        · rw [lastStep_other (by rw [hentL, h]) (by simp)]
        · rw [lastStep_link (by rw [hentL, h])]; simp
  -- create
  have hcreate : resolve fs false fuel (withFileName dp tmp) = .missing D tmp := by
    obtain ⟨⟨k, hk⟩, _⟩ := hres fs rfl hst0 false
    rw [hk]; exact lastStep_none hfree
  -- run it
  have hc0 : contents { ents := mset (D ++ [tmp]) (Entry.file (freshIno fs)) fs.ents, data := mset (freshIno fs) [] fs.data, cwd := fs.cwd } (freshIno fs) = [] := by
    simp [contents, mget_mset]
  generalize hr : replaceVia f fuel fs (withFileName dp tmp) dp bytes = r
  simp only [replaceVia, createNew, hcreate, write, hc0] at hr
  -- the state after the write (whatever was written)
  have hwb := writeLimited_fits f [] bytes
  generalize Cli.writeLimited f [] bytes = w at hr hwb ⊢
  obtain ⟨wb, wok⟩ := w
  simp only [List.nil_append] at hwb
  generalize hfs2 : ({ ents := mset (D ++ [tmp]) (Entry.file (freshIno fs)) fs.ents, data := mset (freshIno fs) wb (mset (freshIno fs) [] fs.data), cwd := fs.cwd } : Fs) = fs2 at hr
  have hent2 : ∀ l, entryAt fs2.ents l =
      if l = D ++ [tmp] then some (.file (freshIno fs)) else entryAt fs.ents l := by
    intro l; subst hfs2; exact entryAt_mset _ _ _ _ hKt
  have hcwd2 : fs2.cwd = fs.cwd := by subst hfs2; rfl
  obtain ⟨hsrc, htgt⟩ := key fs2 hcwd2 hent2
  have hdata2 : ∀ i, contents fs2 i = if i = freshIno fs then wb else contents fs i := by
    intro i; subst hfs2
    simp only [contents, mget_mset]
    split <;> simp
  -- removing the temporary file restores the entry table
  have hremove : ∀ l, entryAt (removeFile fs2 fuel (withFileName dp tmp)).1.ents l = entryAt fs.ents l := by
    intro l
    simp only [removeFile, hsrc]
    rw [entryAt_merase _ _ _ hKt, hent2]
    by_cases h : l = D ++ [tmp]
    · subst h; simp [hfree]
    · simp [h]
  have hremove_data : ∀ i, contents (removeFile fs2 fuel (withFileName dp tmp)).1 i = contents fs2 i := by
    intro i; simp only [removeFile, hsrc]; rfl
  have hremove_cwd : (removeFile fs2 fuel (withFileName dp tmp)).1.cwd = fs.cwd := by
    simp only [removeFile, hsrc]; exact hcwd2
  have hfail : Outcome fs ((removeFile fs2 fuel (withFileName dp tmp)).1, false) (D ++ [n]) bytes :=
    { cwd := hremove_cwd
      data := by intro i hi; rw [hremove_data, hdata2]; simp [hi]
      ok := by simp
      fail := fun _ => hremove }
  cases wok with
  | false =>
    simp only [Bool.false_eq_true, if_false] at hr
    subst hr
    exact ⟨hfail, by simp⟩
  | true =>
    have hb : wb = bytes := hwb rfl
    subst hb
    simp only [if_true] at hr
    by_cases hn : n = tmp
    · -- the destination's own name is the temporary name (and absent): renaming a name onto itself
      subst hn
      have hren : rename f fs2 fuel (withFileName dp n) dp = if f.renameFails then (fs2, false) else (fs2, true) := by
        simp only [rename, hsrc, htgt]
        simp
      rw [hren] at hr
      cases hrf : f.renameFails with
      | true =>
        simp only [hrf, if_true, Bool.false_eq_true, if_false] at hr
        subst hr
        exact ⟨hfail, by simp⟩
      | false =>
        simp only [hrf, Bool.false_eq_true, if_false, if_true] at hr
        subst hr
        refine ⟨{ cwd := hcwd2, data := ?_, ok := fun _ => ⟨?_, ?_⟩, fail := by simp }, by simp⟩
        · intro i hi; show contents fs2 i = _; rw [hdata2]; simp [hi]
        · intro l; exact hent2 l
        · show contents fs2 (freshIno fs) = _; rw [hdata2]; simp
    · have hKL : D ++ [n] ≠ D ++ [tmp] := snoc_ne_snoc _ hn
      have hKL' : D ++ [tmp] ≠ D ++ [n] := fun h => hKL h.symm
      have hren : rename f fs2 fuel (withFileName dp tmp) dp =
          if f.renameFails then (fs2, false)
          else ({ fs2 with ents := mset (D ++ [n]) (.file (freshIno fs)) (merase (D ++ [tmp]) fs2.ents) }, true) := by
        simp only [rename, hsrc, htgt]
        have h2 : ¬ (entryAt fs2.ents (D ++ [n]) = some (.file (freshIno fs))) := by
          rw [hent2, if_neg hKL]; exact hfresh
        simp [hKL', h2]
      rw [hren] at hr
      cases hrf : f.renameFails with
      | true =>
        simp only [hrf, if_true, Bool.false_eq_true, if_false] at hr
        subst hr
        exact ⟨hfail, by simp⟩
      | false =>
        simp only [hrf, Bool.false_eq_true, if_false, if_true] at hr
        subst hr
        refine ⟨{ cwd := hcwd2, data := ?_, ok := fun _ => ⟨?_, ?_⟩, fail := by simp }, by simp⟩
        · intro i hi
          show contents fs2 i = _
          rw [hdata2]; simp [hi]
        · intro l
          show entryAt (mset _ _ (merase _ fs2.ents)) l = _
          rw [entryAt_mset _ _ _ _ hLne, entryAt_merase _ _ _ hKt, hent2]
          by_cases h : l = D ++ [n]
          · simp [h]
          · by_cases h' : l = D ++ [tmp]
            · subst h'; simp [h, hfree]
            · simp [h, h']
        · show contents fs2 (freshIno fs) = _
          rw [hdata2]; simp

/-- `LastIn` for a directory part that is a chain of plain directories: whatever is bound below its
end. -/
theorem lastIn_plain (m m' : Ents) (fuel : Nat) (S init : List Name) (hd : dirsFrom m S init)
    (h : ∀ l : Loc, l.length ≤ (S ++ init).length → entryAt m' l = entryAt m l) :
    LastIn m' fuel S init (S ++ init) := by
  intro fl x
  exact ⟨_, by rw [walk_plain _ _ _ _ _ _ (dirsFrom_of_agree_short init S h hd), walkWith_last]⟩

/-- `LastIn` for a directory part that leads to `D` through any links: stable when names that
were not bound get bound. -/
theorem lastIn_extend (m m' : Ents) (fuel : Nat) (S init : List Name) (D : Loc)
    (hinit : walk m true fuel S init = .found D .dir)
    (h : ∀ l, entryAt m l ≠ none → entryAt m' l = entryAt m l) :
    LastIn m' fuel S init D := by
  intro fl x
  have h1 := walk_extend h true fuel S init D .dir hinit
  have h2 := walk_snoc m' fl fuel S init
  rw [h1] at h2
  obtain ⟨k, hk⟩ := h2
  exact ⟨k, hk x⟩

end Lace.PathFs
