/-
  C09 with a shared standard input: the debugger that reads its commands on demand
  (`Model/DebuggerIO.lean`) and the debugger that is handed the parsed commands beforehand
  (`Model/Debugger.lean`) do the same thing, step by step — as long as the script ends the
  session itself (or nothing follows it) and no instruction executed while the debugger is
  attached takes standard input away from the command reader.
-/
import Lace.Proofs.DbgIOFrame
import Lace.Proofs.ReaderTail
namespace Lace.C09IO
open Lace Lace.Dbg Lace.Cmd Lace.DbgIO Lace.DbgProofs Lace.C14

/-! ### bytes -/

theorem bytesOf_natsOf (b : List UInt8) : bytesOf (natsOf b) = b := by
  induction b with
  | nil => rfl
  | cons x xs ih =>
    simp only [natsOf, bytesOf, List.map_cons, UInt8.ofNat_toNat, List.cons.injEq, true_and] at ih ⊢
    exact ih

theorem bytesOf_append (a b : List Nat) : bytesOf (a ++ b) = bytesOf a ++ bytesOf b := by
  simp [bytesOf]

theorem natsOf_append (a b : List UInt8) : natsOf (a ++ b) = natsOf a ++ natsOf b := by
  simp [natsOf]

theorem length_bytesOf (a : List Nat) : (bytesOf a).length = a.length := by simp [bytesOf]
theorem length_natsOf (a : List UInt8) : (natsOf a).length = a.length := by simp [natsOf]

theorem bytesOf_eq_nil {a : List Nat} : bytesOf a = [] ↔ a = [] := by simp [bytesOf]

theorem keepLast_append (a b : List Nat) : keepLast (a ++ b) b.length = b := by
  simp [keepLast]

theorem keepLast_zero (a : List Nat) : keepLast a 0 = [] := by simp [keepLast]

/-! ### one `read_from` on the world's input -/

/-- What the `--command` argument has still to deliver. -/
def SView (s : Src) (ta : List Char) : Prop :=
  match s.arg with
  | none => ta = []
  | some a => ArgView a ta

theorem sview_from (a : Option (List Char)) : SView (Src.from a) (a.getD []) := by
  cases a with
  | none => rfl
  | some a => exact argView_from a

theorem tview_readerOf {s : Src} {w : World} {ta tb : List Char} {Rn : List Nat}
    (hs : SView s ta) (hw : w.inp = natsOf (encode tb) ++ Rn) (he : EndsDelim tb ∨ Rn = []) :
    TView (readerOf s w) ta tb (bytesOf Rn) := by
  refine ⟨?_, ?_, hs⟩
  · simp only [readerOf, hw, bytesOf_append, bytesOf_natsOf]
  · rcases he with h | h
    · exact .inl h
    · exact .inr (by rw [h]; rfl)

/-- **One `Command::read_from` on the shared input**, in terms of the pending lines: the command
is the first one the lines hold; what is left in the world is the rest of the command text
followed by the untouched program input `Rn`. -/
theorem fetch_view {s : Src} {w : World} {ta tb : List Char} {Rn : List Nat}
    (hs : SView s ta) (hw : w.inp = natsOf (encode tb) ++ Rn) (he : EndsDelim tb ∨ Rn = []) :
    match loopL (pendingLines ta tb) 0 with
    | .command c k L' => ∃ s' ta' tb',
        fetch s w = .command c s' { w with inp := natsOf (encode tb') ++ Rn } ∧
        s'.nerr = s.nerr + k ∧ SView s' ta' ∧ (EndsDelim tb' ∨ Rn = []) ∧
        pendingLines ta' tb' = L' ∧ (tb = [] → tb' = []) ∧
        (readerOf s' { w with inp := natsOf (encode tb') ++ Rn }).size < (readerOf s w).size
    | .eof k => Rn = [] → ∃ s', fetch s w = .eof s' { w with inp := [] } ∧ s'.nerr = s.nerr + k
    | .exit code k => fetch s w = .exit code { s with nerr := s.nerr + k } w
    | .panic site _ => fetch s w = .panic site := by
  have hv := tview_readerOf hs hw he
  have h := readFromLoop_tview hv 0
  cases hl : loopL (pendingLines ta tb) 0 with
  | command c k L' =>
    rw [hl] at h
    obtain ⟨r', ta', tb', h1, h2, h3, pre, h4⟩ := h
    obtain ⟨g1, g2, g3⟩ := h2
    have hlen : r'.stdin.length = (natsOf (encode tb') ++ Rn).length := by
      rw [g1]; simp [length_bytesOf, length_natsOf]
    have hkeep : keepLast w.inp r'.stdin.length = natsOf (encode tb') ++ Rn := by
      rw [hw, h4, encode_append, natsOf_append, List.append_assoc, hlen]
      exact keepLast_append _ _
    have hr' : readerOf { arg := r'.argument, nerr := s.nerr + k }
        { w with inp := natsOf (encode tb') ++ Rn } = r' := by
      cases r' with
      | mk a st =>
        simp only [readerOf, bytesOf_append, bytesOf_natsOf]
        simp only at g1
        rw [g1]
    refine ⟨{ arg := r'.argument, nerr := s.nerr + k }, ta', tb', ?_, rfl, g3, ?_, h3, ?_, ?_⟩
    · unfold fetch readFrom
      rw [h1]
      simp only [hkeep]
    · rcases g2 with g | g
      · exact .inl g
      · exact .inr (bytesOf_eq_nil.1 g)
    · intro h0; rw [h0] at h4
      have := congrArg List.length h4
      simp at this
      exact List.eq_nil_of_length_eq_zero (by omega)
    · rw [hr']
      exact readFromLoop_size h1
  | eof k =>
    rw [hl] at h
    intro hR
    obtain ⟨r', h1, h2⟩ := h (by rw [hR]; rfl)
    refine ⟨{ arg := r'.argument, nerr := s.nerr + k }, ?_, rfl⟩
    unfold fetch readFrom
    rw [h1]
    simp only [h2, List.length_nil, keepLast_zero]
  | exit code k =>
    rw [hl] at h
    unfold fetch readFrom
    rw [h]
  | panic site k =>
    rw [hl] at h
    unfold fetch readFrom
    rw [h]

/-! ### scripts -/

/-- The commands the pending lines hold (what the pre-parsed model is given). -/
def cmdsL (L : List (List Char)) : List Command := (sessionL L).events.filterMap id

theorem filterMap_replicate_none (k : Nat) :
    (List.replicate k (none : Option Command)).filterMap id = [] := by
  induction k with
  | zero => rfl
  | succ k ih => simp [List.replicate_succ, ih]

theorem cmdsL_command {L L' : List (List Char)} {c : Command} {k : Nat}
    (h : loopL L 0 = .command c k L') : cmdsL L = c :: cmdsL L' := by
  have := sessionL_loopL L 0
  rw [h] at this
  have := congrArg Session.events this
  simp only [List.replicate_zero, List.nil_append] at this
  simp [cmdsL, this, List.filterMap_append, filterMap_replicate_none]

theorem cmdsL_eof {L : List (List Char)} {k : Nat} (h : loopL L 0 = .eof k) : cmdsL L = [] := by
  have := sessionL_loopL L 0
  rw [h] at this
  have := congrArg Session.events this
  simp only [List.replicate_zero, List.nil_append] at this
  simp [cmdsL, this, filterMap_replicate_none]

/-- Commands after which the debugger goes on reading or running (everything but `quit`,
`exit`, and `eval`, which executes an instruction on the spot). -/
def Stays : Command → Bool
  | .quit | .exit | .eval _ => false
  | _ => true

/-- `quit` and `exit`: the commands that end the debugging session. -/
def Ends : Command → Bool
  | .quit | .exit => true
  | _ => false

/-- **A script that ends the session itself.**  Every line is blank, rejected by the parser, or
a command other than `quit` / `exit` / `eval`; `quit` or `exit` may only be the last line; and a
script without such a last line is allowed only under `P` (instantiated with "nothing follows
the script on standard input").  No line names `sudo`, none makes the parser panic. -/
def Good (P : Prop) : List (List Char) → Prop
  | [] => P
  | l :: L =>
    if (trim l).isEmpty then Good P L else
    match parseLine (trim l) with
    | .ok c => if Stays c then Good P L else (Ends c = true ∧ L = [])
    | .err => Good P L
    | .exit _ => False
    | .panic _ => False

theorem good_loopL {P : Prop} {L : List (List Char)} (h : Good P L) (n : Nat) :
    match loopL L n with
    | .eof _ => P
    | .command c _ L' => (Stays c = true ∧ Good P L') ∨ (Ends c = true ∧ L' = [])
    | .exit _ _ => False
    | .panic _ _ => False := by
  induction L generalizing n with
  | nil => simpa [loopL, Good] using h
  | cons l L ih =>
    simp only [Good] at h
    simp only [loopL]
    by_cases he : (trim l).isEmpty = true
    · simp only [he, if_true] at h ⊢
      exact ih h n
    · simp only [he, if_false, Bool.false_eq_true] at h ⊢
      cases hp : parseLine (trim l) with
      | ok c =>
        rw [hp] at h
        simp only at h ⊢
        by_cases hs : Stays c = true
        · simp only [hs, if_true] at h; exact .inl ⟨hs, h⟩
        · simp only [hs, if_false, Bool.false_eq_true] at h; exact .inr h
      | err => rw [hp] at h; exact ih h (n + 1)
      | exit code => rw [hp] at h; exact h
      | panic s => rw [hp] at h; exact h

/-- A command other than `quit` / `exit` / `eval` never raises an action and never exits. -/
theorem runCommand_stays (env : Env) (d : Dbg) (m : Machine) (w : World) (c : Command)
    (hc : Stays c = true) :
    (∃ d2 m2 w2, runCommand env d m w c = .next d2 m2 w2) ∨ (∃ e, runCommand env d m w c = .panic e) := by
  cases c <;> simp only [Stays] at hc <;> try cases hc
  case print l => cases l <;> simp only [runCommand] <;> (repeat' split) <;> simp
  case move l v => cases l <;> simp only [runCommand] <;> (repeat' split) <;> simp
  all_goals (simp only [runCommand]; (repeat' split) <;> simp)

/-! ### the simulation -/

/-- The two models in step.  `P`: what is known when the script has no `quit` / `exit` of its
own.  `free`: all the commands are in the `--command` argument, standard input belongs to the
program. -/
structure SyncAt (P : Prop) (free : Bool) (ta tb : List Char) (s : Src) (d : Dbg) (w : World)
    (d' : Dbg) (w' : World) : Prop where
  arg : SView s ta
  inp : w.inp = natsOf (encode tb) ++ w'.inp
  delim : EndsDelim tb ∨ w'.inp = []
  out : w.outRev = w'.outRev
  dbg : d = setCmds [] d'
  cmds : d'.cmds = cmdsL (pendingLines ta tb)
  good : Good P (pendingLines ta tb)
  pinp : P → w'.inp = []
  free : free = true → tb = [] ∧ ¬ P

def Sync (P : Prop) (free : Bool) (s : Src) (d : Dbg) (w : World) (d' : Dbg) (w' : World) : Prop :=
  ∃ ta tb, SyncAt P free ta tb s d w d' w'

theorem SyncAt.withDbg {P : Prop} {free : Bool} {ta tb : List Char} {s : Src} {d d' e e' : Dbg}
    {w w' : World} (h : SyncAt P free ta tb s d w d' w') (hd : e = setCmds [] e')
    (hc : e'.cmds = d'.cmds) : SyncAt P free ta tb s e w e' w' :=
  { h with dbg := hd, cmds := hc.trans h.cmds }

def needIO (s : Src) (w : World) (d : Dbg) : Nat :=
  2 * (readerOf s w).size + (if d.status = .wait then 1 else 2)

def need (d : Dbg) : Nat := 2 * d.cmds.length + (if d.status = .wait then 1 else 2)

/-- What the two `next_action`s return, in relation. -/
def RelNext (P : Prop) (free : Bool) : Src × NextResult → NextResult → Prop
  | (s, .action .proceed d m w), .action .proceed d' m' w' => m = m' ∧ Sync P free s d w d' w'
  | (_, .action .stopDebugger d m w), .action .stopDebugger d' m' w' => d = d' ∧ m = m' ∧ w = w'
  | (_, .action .exitProgram d m w), .action .exitProgram d' m' w' => d = d' ∧ m = m' ∧ w = w'
  | (_, .panic e), .panic e' => e = e'
  | _, _ => False

theorem world_eq_of {w w' : World} (h1 : w.inp = w'.inp) (h2 : w.outRev = w'.outRev) : w = w' := by
  cases w; cases w'; simp_all

theorem actionLoop_sync (env : Env) (P : Prop) (free : Bool) (instr : Option Sig) :
    ∀ (n n' : Nat) (s : Src) (d : Dbg) (w : World) (d' : Dbg) (w' : World) (m : Machine),
      Sync P free s d w d' w' → needIO s w d ≤ n → need d' ≤ n' →
      RelNext P free (actionLoopIO env n s d m w instr) (actionLoop env n' d' m w' instr)
  | 0, _, s, d, w, _, _, _, _, hn, _ => by
    simp only [needIO] at hn; split at hn <;> omega
  | _ + 1, 0, _, _, _, d', _, _, _, _, hn' => by
    simp only [need] at hn'; split at hn' <;> omega
  | n + 1, n' + 1, s, d, w, d', w', m, hsync, hn, hn' => by
    obtain ⟨ta, tb, h⟩ := hsync
    have hst : d.status = d'.status := by rw [h.dbg]; rfl
    unfold actionLoopIO actionLoop
    rw [hst]
    cases hs : d'.status with
    | wait =>
      simp only
      have hsw : d.status = .wait := hst.trans hs
      simp only [needIO, hsw, if_true] at hn
      simp only [need, hs, if_true] at hn'
      have hg := good_loopL h.good 0
      have hf := fetch_view h.arg h.inp h.delim
      cases hl : loopL (pendingLines ta tb) 0 with
      | eof k =>
        rw [hl] at hg hf
        have hR := h.pinp hg
        obtain ⟨s', hfe, _⟩ := hf hR
        have hc : d'.cmds = [] := h.cmds.trans (cmdsL_eof hl)
        rw [hfe, hc]
        have hd : d = d' := by rw [h.dbg]; exact setCmds_eq_self hc
        refine ⟨?_, rfl, world_eq_of ?_ h.out⟩
        · subst hd; simp [hc]
        · simp [hR]
      | exit code k => rw [hl] at hg; exact hg.elim
      | panic site k => rw [hl] at hg; exact hg.elim
      | command c k L' =>
        rw [hl] at hg hf
        obtain ⟨s', ta', tb', hfe, _, hsv, hde, hpl, htb, hsz⟩ := hf
        have hc : d'.cmds = c :: cmdsL L' := h.cmds.trans (cmdsL_command hl)
        rw [hfe, hc]
        simp only
        rcases hg with ⟨hstay, hgood⟩ | ⟨hend, hnil⟩
        · -- the debugger goes on
          have hne : NoEval c = true := by cases c <;> simp_all [Stays, NoEval]
          have e1 := runCommand_frame env d' m { w with inp := natsOf (encode tb') ++ w'.inp } w' c []
            hne
          have e2 := runCommand_frame env d' m w' w' c (cmdsL L') hne
          rw [h.dbg, e1]
          have e2' : ∀ st, d'.status = st →
              runCommand env { d' with cmds := cmdsL L', status := st } m w' c =
                mapRes (cmdsL L') w' (runCommand env d' m w' c) := by
            intro st hst; subst hst; exact e2
          rw [e2' Status.wait hs]
          have hupd := runCommand_upd env d' m w' c
          rcases runCommand_stays env d' m w' c hstay with ⟨d2, m2, w2, hr⟩ | ⟨e, hr⟩
          · rw [hr]
            simp only [mapRes]
            have hcm : d2.cmds = d'.cmds := (hupd d2 (by rw [hr]; rfl)).2.1
            apply actionLoop_sync env P free instr n n'
            · refine ⟨ta', tb', ?_⟩
              exact { arg := hsv, inp := rfl, delim := hde, out := h.out, dbg := rfl,
                      cmds := by simp [hpl], good := by rw [hpl]; exact hgood, pinp := h.pinp,
                      free := fun hf => ⟨htb (h.free hf).1, (h.free hf).2⟩ }
            · simp only [needIO]; split <;> omega
            · simp only [need, cmds_setCmds]
              simp only [hc, List.length_cons] at hn'
              split <;> omega
          · rw [hr]; simp [mapRes, RelNext]
        · -- `quit` / `exit` on the last line
          subst hnil
          have htb' : tb' = [] := by
            simp only [pendingLines, List.append_eq_nil_iff, textLines_eq_nil] at hpl
            exact hpl.2
          subst htb'
          have hw1 : ({ w with inp := natsOf (encode []) ++ w'.inp } : World) = w' :=
            world_eq_of (by simp [natsOf]) h.out
          rw [hw1, h.dbg]
          have hcl : cmdsL ([] : List (List Char)) = [] := rfl
          rw [hcl]
          cases c <;> simp only [Ends] at hend <;> first | cases hend | skip
          · simp [runCommand, RelNext, setCmds, hs]
          · simp [runCommand, RelNext, setCmds, hs]
    | stepOver ret =>
      simp only
      have hsw : d.status ≠ .wait := by rw [hst, hs]; simp
      have hsw' : d'.status ≠ .wait := by rw [hs]; simp
      simp only [needIO, hsw, if_false] at hn
      simp only [need, hsw', if_false] at hn'
      by_cases hpc : (m.pc == ret) = true
      · simp only [hpc, if_true]
        have hic : d.icount = d'.icount := by rw [h.dbg]; rfl
        apply actionLoop_sync env P free instr n n'
        · refine ⟨ta, tb, h.withDbg ?_ ?_⟩
          · rw [hic, h.dbg]; split <;> rfl
          · split <;> rfl
        · simp only [needIO, if_true]; omega
        · simp only [need, if_true]
          have : ({ (if d'.icount > 1 then say d' "Reached::SubroutineEnd" else d') with
              status := Status.wait } : Dbg).cmds = d'.cmds := by split <;> rfl
          rw [this]; omega
      · simp only [hpc, if_false, Bool.false_eq_true]
        exact ⟨rfl, ta, tb, h⟩
    | stepInto count =>
      simp only
      by_cases hk : count.toNat > 0
      · simp only [hk, if_true]
        exact ⟨rfl, ta, tb, h.withDbg (by rw [h.dbg]; rfl) rfl⟩
      · simp only [hk, if_false]
        exact ⟨rfl, ta, tb, h.withDbg (by rw [h.dbg]; rfl) rfl⟩
    | cont => exact ⟨rfl, ta, tb, h⟩
    | finish =>
      simp only
      by_cases hr : (instr == some Sig.ret) = true
      · simp only [hr, if_true]
        exact ⟨rfl, ta, tb, h.withDbg (by rw [h.dbg]; rfl) rfl⟩
      · simp only [hr, if_false, Bool.false_eq_true]
        exact ⟨rfl, ta, tb, h⟩

theorem checkInterrupts_setCmds (x : List Command) (d : Dbg) (pc : Word) (i : Option Sig) :
    checkInterrupts (setCmds x d) pc i = setCmds x (checkInterrupts d pc i) := by
  unfold checkInterrupts
  simp only [bps_setCmds]
  cases bpGet d.bps pc with
  | some b =>
    by_cases h1 : (d.curBp != some pc || decide (d.icount > 0)) = true
    · simp [h1, setCmds, say]
    · by_cases h2 : (i == some Sig.halt) = true
      · simp [h1, h2, setCmds, say]
      · simp [h1, h2, setCmds]
  | none =>
    by_cases h2 : (i == some Sig.halt) = true
    · simp [h2, setCmds, say]
    · simp [h2, setCmds]

theorem preamble_setCmds (x : List Command) (d : Dbg) (m : Machine) :
    preamble (setCmds x d) m = setCmds x (preamble d m) := by
  unfold preamble
  cases Run.checkPcBounds m <;> simp only <;> rw [← checkInterrupts_setCmds] <;> rfl

theorem nextActionIO_eq (env : Env) (s : Src) (d : Dbg) (m : Machine) (w : World) :
    nextActionIO env s d m w =
      actionLoopIO env (2 * (readerOf s w).size + 3) s (preamble d m) m w (sigOf (m.read m.pc)) := rfl

theorem nextAction_sync (env : Env) (P : Prop) (free : Bool) (s : Src) (d : Dbg) (w : World)
    (d' : Dbg) (w' : World) (m : Machine) (h : Sync P free s d w d' w') :
    RelNext P free (nextActionIO env s d m w) (nextAction env d' m w') := by
  rw [nextActionIO_eq, nextAction_eq]
  obtain ⟨ta, tb, h⟩ := h
  have hc := (preamble_facts d' m).2.2.1
  apply actionLoop_sync
  · exact ⟨ta, tb, h.withDbg (by rw [h.dbg, preamble_setCmds]) hc⟩
  · simp only [needIO]; split <;> omega
  · simp only [need]; split <;> omega

theorem iter_eq_afterAction (env : Env) (d : Dbg) (m : Machine) (w : World) :
    iter env true d m w = afterAction env (nextAction env d m w) := by
  unfold iter
  simp only [if_true]
  cases nextAction env d m w with
  | panic s => rfl
  | exit c d m w => rfl
  | action a d m w => cases a <;> rfl

/-- What one iteration of the two run loops gives, in relation. -/
def RelIter (P : Prop) (free : Bool) : Src × Iter → Iter → Prop
  | (s, .cont true d m w e), .cont true d' m' w' e' => m = m' ∧ e = e' ∧ Sync P free s d w d' w'
  | (_, .cont false d m w e), .cont false d' m' w' e' => d = d' ∧ m = m' ∧ w = w' ∧ e = e'
  | (_, .done att d m w), .done att' d' m' w' => att = att' ∧ d = d' ∧ m = m' ∧ w = w'
  | (_, .exit c att d m w e), .exit c' att' d' m' w' e' =>
    c = c' ∧ att = true ∧ att' = true ∧ d = setCmds [] d' ∧ m = m' ∧ e = e' ∧ w.outRev = w'.outRev
  | (_, .panic e), .panic e' => e = e'
  | _, _ => False

theorem iter_sync (env : Env) (P : Prop) (free : Bool) (s : Src) (d : Dbg) (w : World)
    (d' : Dbg) (w' : World) (m : Machine) (h : Sync P free s d w d' w')
    (hr : free = true ∨ ∀ x ∈ (attachedWord env s d m w).toList, readsInput x = false) :
    RelIter P free (iterIO env true s d m w) (iter env true d' m w') := by
  rw [iter_eq_afterAction]
  have hn := nextAction_sync env P free s d w d' w' m h
  simp only [iterIO, if_true]
  unfold attachedWord at hr
  generalize nextActionIO env s d m w = rio at hn hr
  obtain ⟨s1, r1⟩ := rio
  generalize nextAction env d' m w' = r1' at hn
  cases r1 with
  | panic e =>
    cases r1' with
    | panic e' => simpa [RelNext, afterAction, RelIter] using hn
    | exit _ _ _ _ => simp [RelNext] at hn
    | action a _ _ _ => simp [RelNext] at hn
  | exit c d1 m1 w1 => cases r1' <;> simp [RelNext] at hn
  | action a d1 m1 w1 =>
    cases r1' with
    | panic e' => cases a <;> simp [RelNext] at hn
    | exit _ _ _ _ => cases a <;> simp [RelNext] at hn
    | action a' d1' m1' w1' =>
      cases a <;> cases a' <;> simp only [RelNext] at hn <;> try exact hn.elim
      · -- proceed
        obtain ⟨hm, ta, tb, hs⟩ := hn
        subst hm
        simp only [afterAction]
        by_cases hh : (sigOf (m1.read m1.pc) == some Sig.halt) = true
        · simp only [hh, if_true]
          exact ⟨rfl, rfl, ta, tb, hs⟩
        · simp only [hh, if_false, Bool.false_eq_true]
          by_cases hb : (Run.checkPcBounds m1 != Ordering.eq) = true
          · simp only [hb, if_true]
            exact ⟨rfl, rfl, ta, tb, hs⟩
          · simp only [hb, if_false, Bool.false_eq_true]
            simp only [hh, hb, if_false, Bool.false_eq_true, Option.toList_some, List.mem_singleton,
              forall_eq] at hr
            simp only [execOne]
            have hic : d1.icount = d1'.icount := by rw [hs.dbg]; rfl
            have hne : d1.nexec = d1'.nexec := by rw [hs.dbg]; rfl
            rcases hr with hfree | hread
            · -- all commands in the argument: the two worlds are the same world
              obtain ⟨htb, hnp⟩ := hs.free hfree
              have hw : w1 = w1' := world_eq_of (by rw [hs.inp, htb]; simp [natsOf]) hs.out
              subst hw
              cases hx : VM.execute env.stackOn env.minimal (m1.read m1.pc) (m1.setPC (m1.pc + 1)) w1 with
              | ok m2 w2 =>
                refine ⟨rfl, rfl, ta, tb, ?_⟩
                exact { arg := hs.arg
                        inp := by rw [htb]; simp [natsOf]
                        delim := .inl (.inl htb), out := rfl
                        dbg := by rw [hs.dbg]; rfl
                        cmds := hs.cmds, good := hs.good, pinp := fun hp => absurd hp hnp
                        free := hs.free }
              | exit c w2 => exact ⟨rfl, rfl, rfl, by rw [hs.dbg]; rfl, rfl, rfl, rfl⟩
              | panic e => rfl
            · have hw1 : w1 = setInp w1.inp w1' := world_eq_of rfl hs.out
              have hexec : VM.execute env.stackOn env.minimal (m1.read m1.pc) (m1.setPC (m1.pc + 1)) w1 =
                  stepSetInp w1.inp
                    (VM.execute env.stackOn env.minimal (m1.read m1.pc) (m1.setPC (m1.pc + 1)) w1') := by
                conv => lhs; rw [hw1]
                exact execute_setInp _ _ _ _ _ _ hread
              rw [hexec]
              cases hx : VM.execute env.stackOn env.minimal (m1.read m1.pc) (m1.setPC (m1.pc + 1)) w1' with
              | ok m2 w2 =>
                have hinp : w2.inp = w1'.inp := execute_inp_unchanged hread hx
                simp only [stepSetInp]
                refine ⟨rfl, rfl, ta, tb, ?_⟩
                exact { arg := hs.arg
                        inp := by show w1.inp = _; rw [hinp]; exact hs.inp
                        delim := by rw [hinp]; exact hs.delim
                        out := rfl
                        dbg := by rw [hs.dbg]; rfl
                        cmds := hs.cmds, good := hs.good
                        pinp := fun hp => by rw [hinp]; exact hs.pinp hp
                        free := hs.free }
              | exit c w2 =>
                simp only [stepSetInp]
                exact ⟨rfl, rfl, rfl, by rw [hs.dbg]; rfl, rfl, rfl, rfl⟩
              | panic e => rfl
      · exact ⟨hn.1, hn.2.1, hn.2.2, rfl⟩
      · exact ⟨rfl, hn.1, hn.2.1, hn.2.2⟩

end Lace.C09IO

namespace Lace.C09IO
open Lace Lace.Dbg Lace.Cmd Lace.DbgIO Lace.DbgProofs Lace.C14

/-! ### whole runs -/

theorem iter_detached_att {env : Env} {d d1 : Dbg} {m m1 : Machine} {w w1 : World} {att : Bool}
    {e : Option Word} (h : iter env false d m w = .cont att d1 m1 w1 e) : att = false := by
  unfold iter at h
  simp only [Bool.false_eq_true, if_false] at h
  split at h
  · cases h
  · split at h
    · cases h
    · cases h
    · simp only [execOne] at h
      split at h
      · simp only [Iter.cont.injEq] at h; exact h.1.symm
      · cases h
      · cases h

/-- Detached, the on-demand loop *is* the pre-parsed loop (which is the plain loop,
`Lace.C09.detached_eq_plain`). -/
theorem runLoopIO_detached (env : Env) : ∀ (n : Nat) (s : Src) (d : Dbg) (m : Machine) (w : World)
    (ex : List Word), runLoopIO env n false s d m w ex = (s, runLoop env n false d m w ex)
  | 0, _, _, _, _, _ => rfl
  | n + 1, s, d, m, w, ex => by
    unfold runLoopIO runLoop
    simp only [iterIO, Bool.false_eq_true, if_false]
    cases hit : iter env false d m w with
    | cont att d1 m1 w1 e =>
      have := iter_detached_att hit
      subst this
      exact runLoopIO_detached env n s d1 m1 w1 _
    | done att d1 m1 w1 => rfl
    | exit c att d1 m1 w1 e => rfl
    | panic e => rfl

/-- What the two runs give, in relation: the same ending, the same final machine, the same
executed addresses, the same debugger record up to the field `cmds` (which the on-demand model
does not use), the same program output; and the same remaining input once the debugger is gone.
(While it is attached the on-demand world still holds the unread part of the script.) -/
def RelRun : Src × DbgRun → DbgRun → Prop
  | (_, .done att d m w ex), .done att' d' m' w' ex' =>
    att = att' ∧ setCmds [] d = setCmds [] d' ∧ m = m' ∧ w = w' ∧ ex = ex'
  | (_, .exit c att d m w ex), .exit c' att' d' m' w' ex' =>
    c = c' ∧ att = att' ∧ setCmds [] d = setCmds [] d' ∧ m = m' ∧ ex = ex' ∧
      w.outRev = w'.outRev ∧ (att = false → w = w')
  | (_, .fuel att d m w ex), .fuel att' d' m' w' ex' =>
    att = att' ∧ setCmds [] d = setCmds [] d' ∧ m = m' ∧ ex = ex' ∧
      w.outRev = w'.outRev ∧ (att = false → w = w')
  | (_, .panic e), .panic e' => e = e'
  | _, _ => False

theorem RelRun.refl (s : Src) (r : DbgRun) : RelRun (s, r) r := by
  cases r <;> simp [RelRun]

theorem runLoop_sync (env : Env) (P : Prop) (free : Bool) :
    ∀ (n : Nat) (s : Src) (d : Dbg) (w : World) (d' : Dbg) (w' : World) (m : Machine) (ex : List Word),
      Sync P free s d w d' w' →
      (free = true ∨ ∀ x ∈ attachedWords env n true s d m w, readsInput x = false) →
      RelRun (runLoopIO env n true s d m w ex) (runLoop env n true d' m w' ex)
  | 0, s, d, w, d', w', m, ex, hs, _ => by
    obtain ⟨ta, tb, h⟩ := hs
    simp only [runLoopIO, runLoop, RelRun, true_and, Bool.true_eq_false, false_implies, and_true]
    exact ⟨by rw [h.dbg]; rfl, h.out⟩
  | n + 1, s, d, w, d', w', m, ex, hs, hr => by
    have hr1 : free = true ∨ ∀ x ∈ (attachedWord env s d m w).toList, readsInput x = false := by
      rcases hr with h | h
      · exact .inl h
      · right; intro x hx; apply h; simp only [attachedWords]; exact List.mem_append_left _ hx
    have hi := iter_sync env P free s d w d' w' m hs hr1
    unfold runLoopIO runLoop
    generalize hio : iterIO env true s d m w = rio at hi
    obtain ⟨s1, it⟩ := rio
    generalize iter env true d' m w' = it' at hi
    cases it with
    | cont att d1 m1 w1 e =>
      cases it' with
      | cont att' d1' m1' w1' e' =>
        cases att <;> cases att' <;> simp only [RelIter] at hi <;> try exact hi.elim
        · obtain ⟨h1, h2, h3, h4⟩ := hi
          subst h1 h2 h3 h4
          simp only
          rw [runLoopIO_detached]
          exact RelRun.refl _ _
        · obtain ⟨h1, h2, h3⟩ := hi
          subst h1 h2
          simp only
          apply runLoop_sync env P free n s1 d1 w1 d1' w1' m1 _ h3
          rcases hr with h | h
          · exact .inl h
          · right; intro x hx; apply h
            simp only [attachedWords, hio]
            exact List.mem_append_right _ hx
      | done _ _ _ _ => cases att <;> exact hi.elim
      | exit _ _ _ _ _ _ => cases att <;> exact hi.elim
      | panic _ => cases att <;> exact hi.elim
    | done att d1 m1 w1 =>
      cases it' with
      | done att' d1' m1' w1' =>
        simp only [RelIter] at hi
        obtain ⟨h1, h2, h3, h4⟩ := hi
        subst h1 h2 h3 h4
        simp [RelRun]
      | cont _ _ _ _ _ => exact hi.elim
      | exit _ _ _ _ _ _ => exact hi.elim
      | panic _ => exact hi.elim
    | exit c att d1 m1 w1 e =>
      cases it' with
      | exit c' att' d1' m1' w1' e' =>
        simp only [RelIter] at hi
        obtain ⟨h1, h2, h3, h4, h5, h6, h7⟩ := hi
        subst h1 h2 h3 h5 h6
        simp only [RelRun, true_and, Bool.true_eq_false, false_implies, and_true]
        exact ⟨by rw [h4]; rfl, h7⟩
      | cont _ _ _ _ _ => exact hi.elim
      | done _ _ _ _ => exact hi.elim
      | panic _ => exact hi.elim
    | panic e =>
      cases it' with
      | panic e' => simpa [RelIter, RelRun] using hi
      | cont _ _ _ _ _ => exact hi.elim
      | done _ _ _ _ => exact hi.elim
      | exit _ _ _ _ _ _ => exact hi.elim

end Lace.C09IO
