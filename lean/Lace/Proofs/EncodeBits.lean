/-
  Bit-level bridging lemmas between `AsmLine::emit` (shifts, masks, ORs on `u16`) and the
  bit-field concatenations of `Lace/Spec/Encode.lean`.  All by exhaustive kernel evaluation over
  the (small) operand fields.
-/
import Lace.Model.Air
import Lace.Spec.Encode
namespace Lace.Asm

theorem imm5_low (v : BitVec 8) : (v.setWidth 16 &&& 0b11111#16) = (v.setWidth 5).setWidth 16 := by
  revert v; decide
theorem off6_low (v : BitVec 8) : (v.setWidth 16 &&& 0x3F#16) = (v.setWidth 6).setWidth 16 := by
  revert v; decide

theorem field9 (x : BitVec 9) : (BitVec.ofInt 16 x.toInt &&& BitVec.ofNat 16 (2 ^ 9 - 1)) = x.setWidth 16 := by
  revert x; decide
theorem field10 (x : BitVec 10) : (BitVec.ofInt 16 x.toInt &&& BitVec.ofNat 16 (2 ^ 10 - 1)) = x.setWidth 16 := by
  revert x; decide
theorem field11 (x : BitVec 11) : (BitVec.ofInt 16 x.toInt &&& BitVec.ofNat 16 (2 ^ 11 - 1)) = x.setWidth 16 := by
  revert x; decide

theorem enc_add_reg (d s r : BitVec 3) :
    0x1000#16 ||| regBits d 9 ||| regBits s 6 ||| r.setWidth 16 = 0b0001#4 ++ d ++ s ++ 0b000#3 ++ r := by
  revert d s r; decide
theorem enc_add_imm (d s : BitVec 3) (i : BitVec 5) :
    0x1000#16 ||| regBits d 9 ||| regBits s 6 ||| (i.setWidth 16 ||| 0b100000#16) =
      0b0001#4 ++ d ++ s ++ 0b1#1 ++ i := by
  revert d s i; decide
theorem enc_and_reg (d s r : BitVec 3) :
    0x5000#16 ||| regBits d 9 ||| regBits s 6 ||| r.setWidth 16 = 0b0101#4 ++ d ++ s ++ 0b000#3 ++ r := by
  revert d s r; decide
theorem enc_and_imm (d s : BitVec 3) (i : BitVec 5) :
    0x5000#16 ||| regBits d 9 ||| regBits s 6 ||| (i.setWidth 16 ||| 0b100000#16) =
      0b0101#4 ++ d ++ s ++ 0b1#1 ++ i := by
  revert d s i; decide
theorem enc_ldr (d s : BitVec 3) (o : BitVec 6) :
    0x6000#16 ||| regBits d 9 ||| regBits s 6 ||| o.setWidth 16 = 0b0110#4 ++ d ++ s ++ o := by
  revert d s o; decide
theorem enc_str (d s : BitVec 3) (o : BitVec 6) :
    0x7000#16 ||| regBits d 9 ||| regBits s 6 ||| o.setWidth 16 = 0b0111#4 ++ d ++ s ++ o := by
  revert d s o; decide
theorem enc_not (d s : BitVec 3) :
    0x9000#16 ||| regBits d 9 ||| regBits s 6 ||| 0b111111#16 = 0b1001#4 ++ d ++ s ++ 0b111111#6 := by
  revert d s; decide
theorem enc_jmp (s : BitVec 3) : 0xC000#16 ||| regBits s 6 = 0b1100#4 ++ 0b000#3 ++ s ++ 0b000000#6 := by
  revert s; decide
theorem enc_jsrr (s : BitVec 3) : 0x4000#16 ||| regBits s 6 = 0b0100#4 ++ 0b000#3 ++ s ++ 0b000000#6 := by
  revert s; decide
theorem enc_push (s : BitVec 3) :
    0xD000#16 ||| 0x0400#16 ||| regBits s 6 = 0b1101#4 ++ 0b01#2 ++ 0b0#1 ++ s ++ 0b000000#6 := by
  revert s; decide
theorem enc_pop (s : BitVec 3) :
    0xD000#16 ||| regBits s 6 = 0b1101#4 ++ 0b00#2 ++ 0b0#1 ++ s ++ 0b000000#6 := by
  revert s; decide
theorem enc_trap (v : BitVec 8) : 0xF000#16 ||| v.setWidth 16 = 0b1111#4 ++ 0b0000#4 ++ v := by
  revert v; decide

theorem enc_ld (d : BitVec 3) (x : BitVec 9) :
    0x2000#16 ||| regBits d 9 ||| x.setWidth 16 = 0b0010#4 ++ d ++ x := by revert d x; decide
theorem enc_ldi (d : BitVec 3) (x : BitVec 9) :
    0xA000#16 ||| regBits d 9 ||| x.setWidth 16 = 0b1010#4 ++ d ++ x := by revert d x; decide
theorem enc_lea (d : BitVec 3) (x : BitVec 9) :
    0xE000#16 ||| regBits d 9 ||| x.setWidth 16 = 0b1110#4 ++ d ++ x := by revert d x; decide
theorem enc_st (d : BitVec 3) (x : BitVec 9) :
    0x3000#16 ||| regBits d 9 ||| x.setWidth 16 = 0b0011#4 ++ d ++ x := by revert d x; decide
theorem enc_sti (d : BitVec 3) (x : BitVec 9) :
    0xB000#16 ||| regBits d 9 ||| x.setWidth 16 = 0b1011#4 ++ d ++ x := by revert d x; decide
theorem enc_br (f : Flag) (x : BitVec 9) :
    0x0000#16 ||| (f.bits <<< 9) ||| x.setWidth 16 = 0b0000#4 ++ f.bits.setWidth 3 ++ x := by
  cases f <;> (revert x; decide)
theorem enc_jsr (x : BitVec 11) : 0x4800#16 ||| x.setWidth 16 = 0b0100#4 ++ 0b1#1 ++ x := by
  revert x; decide
theorem enc_call (x : BitVec 10) :
    0xD000#16 ||| 0x0C00#16 ||| x.setWidth 16 = 0b1101#4 ++ 0b11#2 ++ x := by revert x; decide
end Lace.Asm
