/-
  Helper lemmas for the debugger model: sortedness of the breakpoint list, and the fact that
  printing (`say`, `sayL`, …) touches nothing but the stderr log.
-/
import Lace.Model.Debugger
import Lace.Proofs.MachineLemmas
namespace Lace.DbgProofs
open Lace Lace.Dbg Lace.Cmd

/-! ### Breakpoint list invariant (C11) -/

/-- strictly increasing addresses -/
def Sorted : Breakpoints → Prop
  | [] => True
  | [_] => True
  | a :: b :: rest => a.address < b.address ∧ Sorted (b :: rest)

theorem Sorted.tail {a : Breakpoint} {l : Breakpoints} (h : Sorted (a :: l)) : Sorted l := by
  cases l with
  | nil => trivial
  | cons b r => exact h.2

theorem sorted_cons_of_lt (a : Breakpoint) (l : Breakpoints) (hl : Sorted l)
    (h : ∀ b ∈ l.head?, a.address < b.address) : Sorted (a :: l) := by
  cases l with
  | nil => trivial
  | cons b r => exact ⟨h b (by simp), hl⟩

theorem bpInsert_head (bs : Breakpoints) (b : Breakpoint) :
    ∀ x ∈ (bpInsert bs b).1.head?, x = b ∨ x ∈ bs.head? := by
  cases bs with
  | nil => simp [bpInsert]
  | cons o rest =>
    simp only [bpInsert]
    split
    · simp
    · split
      · simp
      · simp

theorem bpInsert_sorted (bs : Breakpoints) (b : Breakpoint) (h : Sorted bs) : Sorted (bpInsert bs b).1 := by
  induction bs with
  | nil => simp [bpInsert, Sorted]
  | cons o rest ih =>
    simp only [bpInsert]
    split
    · exact h
    · rename_i hne
      split
      · rename_i hge
        refine ⟨?_, h⟩
        have hne' : o.address ≠ b.address := by simpa using hne
        have : b.address ≤ o.address := hge
        exact BitVec.lt_of_le_ne this (fun e => hne' e.symm)
      · rename_i hlt
        have hlt' : o.address < b.address := by simpa [BitVec.not_le] using hlt
        apply sorted_cons_of_lt _ _ (ih h.tail)
        intro x hx
        rcases bpInsert_head rest b x hx with rfl | hx
        · exact hlt'
        · cases rest with
          | nil => simp at hx
          | cons r rs => simp at hx; subst hx; exact h.1

end Lace.DbgProofs

namespace Lace.DbgProofs
open Lace Lace.Dbg Lace.Cmd

theorem filter_head (p : Breakpoint → Bool) (l : Breakpoints) (hl : Sorted l) (a : Breakpoint)
    (ha : ∀ b ∈ l.head?, a.address < b.address) : ∀ x ∈ (l.filter p).head?, a.address < x.address := by
  induction l with
  | nil => simp
  | cons b r ih =>
    intro x hx
    simp only [List.filter_cons] at hx
    split at hx
    · simp at hx; subst hx; exact ha b (by simp)
    · apply ih hl.tail _ x hx
      intro c hc
      cases r with
      | nil => simp at hc
      | cons r0 rs =>
        simp at hc; subst hc
        exact BitVec.lt_trans (ha b (by simp)) hl.1

theorem filter_sorted (p : Breakpoint → Bool) (l : Breakpoints) (hl : Sorted l) : Sorted (l.filter p) := by
  induction l with
  | nil => trivial
  | cons a r ih =>
    simp only [List.filter_cons]
    split
    · apply sorted_cons_of_lt _ _ (ih hl.tail)
      apply filter_head p r hl.tail a
      intro b hb
      cases r with
      | nil => simp at hb
      | cons r0 rs => simp at hb; subst hb; exact hl.1
    · exact ih hl.tail

theorem bpRemove_sorted (bs : Breakpoints) (a : Word) (h : Sorted bs) : Sorted (bpRemove bs a).1 :=
  filter_sorted _ _ h

/-- The Dbg record inside a command result, if any. -/
def _root_.Lace.Dbg.CmdResult.dbg? : CmdResult → Option Dbg
  | .next d _ _ => some d
  | .action _ d _ _ => some d
  | .exit _ d _ _ => some d
  | .panic _ => none

/-- `d'` differs from `d` at most in what has been printed. -/
def SameButLog (d d' : Dbg) : Prop :=
  d'.initial = d.initial ∧ d'.status = d.status ∧ d'.bps = d.bps ∧ d'.curBp = d.curBp ∧
  d'.icount = d.icount ∧ d'.cmds = d.cmds ∧ d'.ncmds = d.ncmds ∧ d'.nexec = d.nexec ∧ d'.cmdAt = d.cmdAt

theorem SameButLog.refl (d : Dbg) : SameButLog d d := ⟨rfl, rfl, rfl, rfl, rfl, rfl, rfl, rfl, rfl⟩
theorem SameButLog.trans {a b c : Dbg} (h1 : SameButLog a b) (h2 : SameButLog b c) : SameButLog a c := by
  obtain ⟨a1, a2, a3, a4, a5, a6, a7, a8, a9⟩ := h1
  obtain ⟨b1, b2, b3, b4, b5, b6, b7, b8, b9⟩ := h2
  exact ⟨b1.trans a1, b2.trans a2, b3.trans a3, b4.trans a4, b5.trans a5, b6.trans a6, b7.trans a7,
    b8.trans a8, b9.trans a9⟩

theorem say_same (d : Dbg) (s : String) : SameButLog d (say d s) := SameButLog.refl d
theorem sayL_same (d : Dbg) (s : List Char) : SameButLog d (sayL d s) := SameButLog.refl d
theorem printInteger_same (d : Dbg) (v : Word) : SameButLog d (printInteger d v) := SameButLog.refl d

theorem foldl_same {α : Type} (f : Dbg → α → Dbg) (hf : ∀ d a, SameButLog d (f d a)) (l : List α) (d : Dbg) :
    SameButLog d (l.foldl f d) := by
  induction l generalizing d with
  | nil => exact SameButLog.refl d
  | cons x xs ih => rw [List.foldl_cons]; exact (hf d x).trans (ih _)

theorem printRegisters_same (d : Dbg) (m : Machine) : SameButLog d (printRegisters d m) := by
  unfold printRegisters
  exact ((foldl_same _ (fun d _ => sayL_same d _) _ d).trans (sayL_same _ _)).trans (sayL_same _ _)

end Lace.DbgProofs
