/-
  White space and comments (C01 stage 2, DESIGN.md I12): `advance_real` skips any separator the
  specification allows (`Spec.gapAux`: runs of SPACE / TAB / LF / FF / CR / `,` / `:` and comments
  `;…` up to a line feed, the last one possibly open at the end of the text) and then reads the next
  token; at the end of the text it answers `Eof`.
-/
import Lace.Proofs.LexTok
set_option linter.unusedSimpArgs false
namespace Lace.C01
open Lace.Asm Lace.Spec Lace.C04

/-- a token that is neither white space nor a comment stops `advance_real`, whatever the fuel -/
theorem advanceRealLoop_stop (feat : Option Bool) (pos : Nat) (text : List Char)
    (h : RealTok (advanceToken feat pos text)) :
    ∀ fuel, advanceRealLoop feat fuel pos text = advanceToken feat pos text := by
  intro fuel
  cases fuel with
  | nil => rfl
  | cons _ fuel =>
    unfold advanceRealLoop
    generalize advanceToken feat pos text = r at h
    cases r with
    | tok t p r' =>
      simp only [RealTok] at h
      simp only [h.1, h.2, or_self, if_false]
    | diag k o l => rfl
    | panic s => rfl

theorem advanceToken_ws (feat : Option Bool) (pos : Nat) (c : Char) (cs : List Char) (h : isWs c = true) :
    advanceToken feat pos (c :: cs) =
      mkTok .whitespace pos (c :: cs.takeWhile isWs) (cs.dropWhile isWs) := by
  have := isWs_ne_semi h
  simp only [advanceToken, beq_iff_eq, this, if_false, h, if_true]

theorem advanceToken_comment (feat : Option Bool) (pos : Nat) (cs : List Char) :
    advanceToken feat pos (';' :: cs) =
      mkTok .comment pos (';' :: cs.takeWhile (fun d => d != '\n')) (cs.dropWhile (fun d => d != '\n')) := by
  simp only [advanceToken, beq_self_eq_true, if_true]

theorem gapAux_dropWs (eof : Bool) : ∀ cs : List Char, gapAux eof false cs = true →
    gapAux eof false (cs.dropWhile isWs) = true := by
  intro cs
  induction cs with
  | nil => intro h; exact h
  | cons c r ih =>
    intro h
    simp only [List.dropWhile_cons]
    split
    · rename_i hw
      have hs := isWs_ne_semi hw
      simp only [gapAux, beq_iff_eq, hs, if_false, Bool.and_eq_true] at h
      exact ih h.2
    · exact h

/-- inside a comment: either it is closed by a line feed, or the text ends in it -/
theorem gapAux_comment (eof : Bool) : ∀ cs : List Char, gapAux eof true cs = true →
    (∃ body g', cs = body ++ '\n' :: g' ∧ (∀ c ∈ body, (c != '\n') = true) ∧ gapAux eof false g' = true) ∨
    ((∀ c ∈ cs, (c != '\n') = true) ∧ eof = true) := by
  intro cs
  induction cs with
  | nil => intro h; right; exact ⟨by simp, by simpa [gapAux] using h⟩
  | cons c r ih =>
    intro h
    simp only [gapAux] at h
    split at h
    · rename_i hc
      simp only [beq_iff_eq] at hc
      subst hc
      left
      exact ⟨[], r, rfl, by simp, h⟩
    · rename_i hc
      have hc' : (c != '\n') = true := by simpa using hc
      rcases ih h with ⟨body, g', e, hb, hg⟩ | ⟨hall, he⟩
      · left
        refine ⟨c :: body, g', by rw [e]; rfl, ?_, hg⟩
        intro x hx
        rcases List.mem_cons.mp hx with rfl | hx
        · exact hc'
        · exact hb x hx
      · right
        refine ⟨?_, he⟩
        intro x hx
        rcases List.mem_cons.mp hx with rfl | hx
        · exact hc'
        · exact hall x hx

theorem takeWhile_all (p : Char → Bool) (l : List Char) (h : ∀ c ∈ l, p c = true) :
    l.takeWhile p = l ∧ l.dropWhile p = [] := by
  have := takeWhile_run p l [] h (by intro c r e; cases e)
  simpa using this

/-- **`advance_real` skips a separator**: white space and comments `g` in front of `tail` are
skipped (with enough fuel — `advance_real` uses the text itself) and the answer is what
`advance_token` makes of `tail`, provided that is a real token; `eof` = the text ends with `g`. -/
theorem advanceRealLoop_gap (feat : Option Bool) (eof : Bool) (tail : List Char)
    (heof : eof = true → tail = [])
    (hT : ∀ c r, tail = c :: r → isWs c = false)
    (hR : ∀ pos', RealTok (advanceToken feat pos' tail)) :
    ∀ (n : Nat) (g : List Char), g.length ≤ n → gapAux eof false g = true →
    ∀ (fuel : List Char) (pos : Nat), g.length ≤ fuel.length →
      advanceRealLoop feat fuel pos (g ++ tail) = advanceToken feat (pos + utf8Len g) tail := by
  intro n
  induction n with
  | zero =>
    intro g hn _ fuel pos _
    have : g = [] := List.eq_nil_of_length_eq_zero (by omega)
    subst this
    simp only [List.nil_append, utf8Len, Nat.add_zero]
    exact advanceRealLoop_stop feat pos tail (hR pos) fuel
  | succ n ih =>
    intro g hn hg fuel pos hf
    cases g with
    | nil =>
      simp only [List.nil_append, utf8Len, Nat.add_zero]
      exact advanceRealLoop_stop feat pos tail (hR pos) fuel
    | cons c cs =>
      cases fuel with
      | nil => simp at hf
      | cons f0 fuel =>
        simp only [List.length_cons] at hn hf
        by_cases hsemi : c = ';'
        · subst hsemi
          have hg' : gapAux eof true cs = true := by simpa [gapAux] using hg
          rw [List.cons_append]
          unfold advanceRealLoop
          rw [advanceToken_comment]
          simp only [mkTok, or_true, if_true]
          rcases gapAux_comment eof cs hg' with ⟨body, g', e, hb, hgg⟩ | ⟨hall, he⟩
          · obtain ⟨t1, t2⟩ := takeWhile_run (fun d => d != '\n') body ('\n' :: (g' ++ tail)) hb
              (by intro c r e; cases e; simp)
            have e2 : cs ++ tail = body ++ '\n' :: (g' ++ tail) := by rw [e]; simp
            rw [e2, t1, t2]
            have hlen : cs.length = body.length + (g'.length + 1) := by rw [e]; simp
            have hws : isWs '\n' = true := by decide
            have hgn : gapAux eof false ('\n' :: g') = true := by
              have hns : ('\n' == ';') = false := by decide
              simp only [gapAux, isSepChar_eq, hws, hgg, Bool.and_self, hns, Bool.false_eq_true, if_false]
            have := ih ('\n' :: g') (by simp; omega) hgn fuel (pos + utf8Len (';' :: body))
              (by simp; omega)
            rw [List.cons_append] at this
            rw [this]
            congr 1
            rw [e]
            simp only [utf8Len, utf8Len_append]
            omega
          · have ht := heof he
            subst ht
            obtain ⟨t1, t2⟩ := takeWhile_all (fun d => d != '\n') cs hall
            simp only [List.append_nil, t1, t2]
            have := advanceRealLoop_stop feat (pos + utf8Len (';' :: cs)) [] (hR _) fuel
            rw [this]
        · have hg' : isWs c = true ∧ gapAux eof false cs = true := by
            simpa [gapAux, hsemi, isSepChar_eq] using hg
          rw [List.cons_append]
          unfold advanceRealLoop
          rw [advanceToken_ws feat pos c _ hg'.1]
          simp only [mkTok, true_or, if_true]
          have hsplit := List.takeWhile_append_dropWhile (p := isWs) (l := cs)
          have hhead : ∀ e r, cs.dropWhile isWs ++ tail = e :: r → isWs e = false := by
            intro e r he
            cases hd : cs.dropWhile isWs with
            | nil => rw [hd] at he; exact hT e r he
            | cons a b =>
              rw [hd] at he
              simp only [List.cons_append, List.cons.injEq] at he
              rw [← he.1]
              have hne : cs.dropWhile isWs ≠ [] := by rw [hd]; simp
              have := List.head_dropWhile_not isWs hne
              simp only [hd, List.head_cons] at this
              simpa using this
          obtain ⟨t1, t2⟩ := takeWhile_run isWs (cs.takeWhile isWs) (cs.dropWhile isWs ++ tail)
            (fun x hx => mem_takeWhile_imp' hx) hhead
          have e2 : cs ++ tail = cs.takeWhile isWs ++ (cs.dropWhile isWs ++ tail) := by
            rw [← List.append_assoc, hsplit]
          rw [e2, t1, t2]
          have hl1 := length_dropWhile_le' isWs cs
          have := ih (cs.dropWhile isWs) (by omega) (gapAux_dropWs eof cs hg'.2) fuel
            (pos + utf8Len (c :: cs.takeWhile isWs)) (by omega)
          rw [this]
          congr 1
          have := utf8Len_takeWhile_dropWhile isWs cs
          simp only [utf8Len]
          omega

end Lace.C01
