/-
  The lexer lemma of DESIGN.md I13 in both directions, for names over `[A-Za-z0-9_]`:

      lexKind feat s = some .label  ↔  validLabel s

  (`lexKind` = the kind of the single token the whole of `s` is read as).  Outside that alphabet the
  equivalence fails in lace — `x-zz` is read as a label although it contains `-` (after an `x` /
  `0x` prefix the lexer takes everything up to the next separator) — which is why `validLabel`
  demands the alphabet and the theorem assumes it.
-/
import Lace.Proofs.LexTok
set_option linter.unusedSimpArgs false
namespace Lace.C01
open Lace.Asm Lace.Spec Lace.C04

/-- the kind of the one token that `s`, on its own, is read as (`none`: an error, or not one token) -/
def lexKind (feat : Option Bool) (s : List Char) : Option TokenKind :=
  match advanceToken feat 0 s with
  | .tok t _ [] => if t.text = s then some t.kind else none
  | _ => none

theorem lexKind_of_lexes {feat : Option Bool} {s : List Char} {k : TokenKind} (h : Lexes feat s k) :
    lexKind feat s = some k := by
  have := h 0 [] trivial
  rw [List.append_nil] at this
  simp [lexKind, this, mkTok]

theorem keywords_kind : ∀ kw ∈ keywords, identKind (String.ofList kw) ≠ .label := by decide

theorem keywords_alpha : ∀ kw ∈ keywords, ∀ c ∈ kw, c ∈ kwAlpha := by decide

theorem not_alpha_x : 'x' ∉ kwAlpha ∧ '0' ∉ kwAlpha := by decide

theorem lower_x {c : Char} (h : c = 'x' ∨ c = 'X' ∨ c = '0') : asciiLower c ∉ kwAlpha := by
  rcases h with rfl | rfl | rfl <;> decide

theorem lexKind_ne_of_tok {feat : Option Bool} {s : List Char}
    (h : ∀ tk p r, advanceToken feat 0 s = .tok tk p r → tk.kind ≠ .label) :
    lexKind feat s ≠ some .label := by
  unfold lexKind
  split
  · rename_i t p heq
    split
    · intro e
      simp only [Option.some.injEq] at e
      exact h t p [] heq e
    · simp
  · simp

/-- a mnemonic in any letter case is not read as a label -/
theorem lexKind_keyword (feat : Option Bool) (s : List Char) (hid : ∀ c ∈ s, isId c = true)
    (hk : keywords.contains (lowerAll s) = true) : lexKind feat s ≠ some .label := by
  have hm : lowerAll s ∈ keywords := List.contains_iff_mem.mp hk
  have halpha := keywords_alpha _ hm
  cases s with
  | nil =>
    exfalso
    have := keywords_head_alpha _ hm
    obtain ⟨_, _, e, _⟩ := this
    cases e
  | cons c s' =>
    have hc : asciiLower c ∈ kwAlpha := halpha _ (by simp [lowerAll])
    have hx : c ≠ 'x' ∧ c ≠ 'X' := by
      constructor <;> (intro e; exact lower_x (by simp [e]) hc)
    have h0 : c ≠ '0' := by intro e; exact lower_x (by simp [e]) hc
    have hr : (c = 'r' ∨ c = 'R') → ∀ d t, s' = d :: t → isRegNum d = false := by
      intro _ d t e
      cases hd : isRegNum d with
      | false => rfl
      | true =>
        exfalso
        have : asciiLower d ∈ kwAlpha := halpha _ (by simp [lowerAll, e])
        rw [regnum_lower hd] at this
        rw [kwAlpha_not_regnum d this] at hd
        cases hd
    have h1 := advanceToken_ident feat 0 c s' [] hid hx (fun e => (h0 e).elim) hr trivial
    rw [List.append_nil] at h1
    rw [identFrom_run feat 0 [c] [c] 0 s' [] (fun x hx => hid x (List.mem_cons_of_mem _ hx)) trivial] at h1
    simp only [List.singleton_append, List.append_nil] at h1
    have hkind := keywords_kind _ hm
    apply lexKind_ne_of_tok
    intro tk p r htok
    rw [h1] at htok
    cases hst : isStackMnemonic (String.ofList (lowerAll (c :: s'))) with
    | false =>
      simp only [hst, Bool.false_eq_true, if_false, mkTok, LexStep.tok.injEq] at htok
      rw [← htok.1]; exact hkind
    | true =>
      simp only [hst, if_true] at htok
      cases feat with
      | none => cases htok
      | some b =>
        cases b with
        | false => cases htok
        | true =>
          simp only [mkTok, LexStep.tok.injEq] at htok
          rw [← htok.1]; exact hkind

/-- after an `x` / `0x` prefix: all hex digits to the end, or too large before anything else -/
theorem hexScan_false : ∀ (ds : List Char) (acc : Nat), ds ≠ [] → hexScan ds acc = false →
    (∃ v, digitsLoop 16 0 65535 false ds (acc : Int) = .ok v) ∨
    digitsLoop 16 0 65535 false ds (acc : Int) = .error .posOverflow := by
  intro ds
  induction ds with
  | nil => intro _ h; exact (h rfl).elim
  | cons c cs ih =>
    intro acc _ h
    simp only [hexScan] at h
    simp only [digitsLoop, toDigit_eq]
    split at h
    · rename_i d hd
      simp only [hd]
      split at h
      · rename_i hlt
        simp only [hlt, if_true, Bool.false_eq_true, if_false]
        have e1 : ((acc * 16 + d : Nat) : Int) = (acc : Int) * ((16 : Nat) : Int) + (d : Int) := by
          rw [Int.natCast_add, Int.natCast_mul]
        have hnn : (0 : Int) ≤ (acc : Int) * ((16 : Nat) : Int) := by
          rw [← Int.natCast_mul]; exact Int.natCast_nonneg _
        have hdn : (0 : Int) ≤ (d : Int) := Int.natCast_nonneg _
        split at h
        · rename_i hle
          have hle' : ((acc * 16 + d : Nat) : Int) ≤ 65535 := by omega
          rw [e1] at hle'
          rw [if_neg (by omega), if_neg (by omega), ← e1]
          cases cs with
          | nil => left; exact ⟨_, rfl⟩
          | cons c' cs' => exact ih _ (by simp) h
        · rename_i hgt
          have hgt' : (65535 : Int) < ((acc * 16 + d : Nat) : Int) := by omega
          rw [e1] at hgt'
          right
          split
          · rfl
          · rw [if_pos (by omega)]
      · cases h
    · cases h

theorem lexKind_hex (feat : Option Bool) (pre t : List Char) (hid : ∀ c ∈ t, isId c = true)
    (hl : hexLabel t = false) (pos : Nat) :
    ∀ tk p r, hex feat pos pre (t ++ []) = .tok tk p r → tk.kind ≠ .label := by
  obtain ⟨t1, t2⟩ := takeWhile_run notWs t []
    (fun c hc => by simp [notWs, isId_not_isWs (hid c hc)]) (by intro c r e; cases e)
  cases t with
  | nil => simp [hexLabel] at hl
  | cons c ds =>
    have hs := isId_not_sign (hid c List.mem_cons_self)
    simp only [hexLabel, List.isEmpty_cons, Bool.false_or] at hl
    have hu := hexScan_false (c :: ds) 0 (by simp) hl
    have h0 : ((0 : Nat) : Int) = 0 := rfl
    rw [h0] at hu
    intro tk p r h
    unfold hex at h
    simp only [t1, t2] at h
    rw [fromStrRadix_digits true 16 c ds hs, fromStrRadix_digits false 16 c ds hs] at h
    simp only [if_true, Bool.false_eq_true, if_false] at h
    split at h
    · simp only [mkTok, LexStep.tok.injEq] at h
      rw [← h.1]; simp
    · rcases hu with ⟨v, hv⟩ | hv
      · rw [hv] at h
        simp only [mkTok, LexStep.tok.injEq] at h
        rw [← h.1]; simp
      · rw [hv] at h
        cases h

/-- **The lexer reads a name over `[A-Za-z0-9_]` as a label exactly when it is a valid label name.** -/
theorem lexKind_label_iff (feat : Option Bool) (s : List Char) (hid : ∀ c ∈ s, isIdChar c = true) :
    lexKind feat s = some .label ↔ validLabel s = true := by
  constructor
  · intro h
    have hid' : ∀ c ∈ s, isId c = true := hid
    unfold validLabel
    simp only [Bool.and_eq_true, Bool.not_eq_true', List.all_eq_true]
    refine ⟨⟨⟨⟨?_, hid⟩, ?_⟩, ?_⟩, ?_⟩
    · cases s with
      | nil => simp [lexKind, advanceToken] at h
      | cons _ _ => rfl
    · cases hk : keywords.contains (s.map lowerChar) with
      | false => rfl
      | true => exact (lexKind_keyword feat s hid' hk h).elim
    · cases hr : isRegName s with
      | false => rfl
      | true =>
        exfalso
        unfold isRegName at hr
        split at hr
        · rename_i c d
          simp only [Bool.and_eq_true, Bool.or_eq_true, beq_iff_eq] at hr
          have := lexKind_of_lexes (lexes_reg_chars feat c d hr.1 (by simpa [isRegNum] using hr.2))
          rw [this] at h
          cases h
        · cases hr
    · have w1 : isWs 'x' = false := by decide
      have w2 : isWs 'X' = false := by decide
      have w3 : isWs '0' = false := by decide
      split
      · rename_i t
        cases hl : hexLabel t with
        | true => rfl
        | false =>
          exfalso
          refine lexKind_ne_of_tok ?_ h
          have := lexKind_hex feat ['x'] t (fun c hc => hid' c (List.mem_cons_of_mem _ hc)) hl 0
          rw [List.append_nil] at this
          simpa [advanceToken, w1] using this
      · rename_i t
        cases hl : hexLabel t with
        | true => rfl
        | false =>
          exfalso
          refine lexKind_ne_of_tok ?_ h
          have := lexKind_hex feat ['X'] t (fun c hc => hid' c (List.mem_cons_of_mem _ hc)) hl 0
          rw [List.append_nil] at this
          simpa [advanceToken, w2] using this
      · rename_i t
        cases hl : hexLabel t with
        | true => rfl
        | false =>
          exfalso
          refine lexKind_ne_of_tok ?_ h
          have := lexKind_hex feat ['0', 'x'] t
            (fun c hc => hid' c (List.mem_cons_of_mem _ (List.mem_cons_of_mem _ hc))) hl 0
          rw [List.append_nil] at this
          simpa [advanceToken, w3] using this
      · rename_i t
        cases hl : hexLabel t with
        | true => rfl
        | false =>
          exfalso
          refine lexKind_ne_of_tok ?_ h
          have := lexKind_hex feat ['0', 'X'] t
            (fun c hc => hid' c (List.mem_cons_of_mem _ (List.mem_cons_of_mem _ hc))) hl 0
          rw [List.append_nil] at this
          simpa [advanceToken, w3] using this
      · rfl
  · intro h
    exact lexKind_of_lexes (lexes_label feat s h)

end Lace.C01
