/- Read-over-write lemmas for registers and memory. -/
import Lace.Basic.Machine
namespace Lace.Machine

@[simp] theorem getReg_setReg_same (m : Machine) (r : BitVec 3) (v : Word) :
    (m.setReg r v).getReg r = v := by simp [getReg, setReg]

theorem getReg_setReg_ne (m : Machine) (r r' : BitVec 3) (v : Word) (h : r' ≠ r) :
    (m.setReg r v).getReg r' = m.getReg r' := by
  simp only [getReg, setReg]
  rw [Vector.getElem_set_ne]
  intro hh; exact h (BitVec.eq_of_toNat_eq hh.symm)

@[simp] theorem read_write_same (m : Machine) (a : Word) (v : Word) :
    (m.write a v).read a = v := by simp [read, write]

theorem read_write_ne (m : Machine) (a a' : Word) (v : Word) (h : a' ≠ a) :
    (m.write a v).read a' = m.read a' := by
  simp only [read, write]
  rw [Vector.getElem_set_ne]
  intro hh; exact h (BitVec.eq_of_toNat_eq hh.symm)

@[simp] theorem read_setReg (m : Machine) (r : BitVec 3) (v : Word) (a : Word) :
    (m.setReg r v).read a = m.read a := rfl
@[simp] theorem read_setPC (m : Machine) (v : Word) (a : Word) : (m.setPC v).read a = m.read a := rfl
@[simp] theorem read_setCC (m : Machine) (c : CC) (a : Word) : (m.setCC c).read a = m.read a := rfl
@[simp] theorem getReg_write (m : Machine) (a v : Word) (r : BitVec 3) :
    (m.write a v).getReg r = m.getReg r := rfl
@[simp] theorem getReg_setPC (m : Machine) (v : Word) (r : BitVec 3) : (m.setPC v).getReg r = m.getReg r := rfl
@[simp] theorem getReg_setCC (m : Machine) (c : CC) (r : BitVec 3) : (m.setCC c).getReg r = m.getReg r := rfl
@[simp] theorem pc_setReg (m : Machine) (r : BitVec 3) (v : Word) : (m.setReg r v).pc = m.pc := rfl
@[simp] theorem pc_write (m : Machine) (a v : Word) : (m.write a v).pc = m.pc := rfl
@[simp] theorem pc_setCC (m : Machine) (c : CC) : (m.setCC c).pc = m.pc := rfl
@[simp] theorem pc_setPC (m : Machine) (v : Word) : (m.setPC v).pc = v := rfl
@[simp] theorem cc_setReg (m : Machine) (r : BitVec 3) (v : Word) : (m.setReg r v).cc = m.cc := rfl
@[simp] theorem cc_write (m : Machine) (a v : Word) : (m.write a v).cc = m.cc := rfl
@[simp] theorem cc_setPC (m : Machine) (v : Word) : (m.setPC v).cc = m.cc := rfl
@[simp] theorem cc_setCC (m : Machine) (c : CC) : (m.setCC c).cc = c := rfl
@[simp] theorem orig_setReg (m : Machine) (r : BitVec 3) (v : Word) : (m.setReg r v).orig = m.orig := rfl
@[simp] theorem orig_write (m : Machine) (a v : Word) : (m.write a v).orig = m.orig := rfl
@[simp] theorem orig_setPC (m : Machine) (v : Word) : (m.setPC v).orig = m.orig := rfl
@[simp] theorem orig_setCC (m : Machine) (c : CC) : (m.setCC c).orig = m.orig := rfl

end Lace.Machine
