/-
  AIR-level lemmas for C01 / C04:

  * `emitAll_eq_specWords` — emitting a list of resolved statements gives exactly the list of their
    ISA encodings (`Spec.encode` of `toSpec`), or the "offset too large" diagnostic iff one of them
    cannot be encoded;
  * the numbering invariant of the parser (`parseLoop_numbered`): the statements `parse` returns
    carry the numbers 1, 2, 3, … (so statement `i` sits at `orig + i`), at most 65,535 of them;
  * `backpatchAll` keeps the numbers, resolves every label through the symbol table only, and
    fails exactly when a referenced name is not in the table.
-/
import Lace.Props.C01Stage1
import Lace.Proofs.AsmParse
namespace Lace.C01
open Lace.Asm Lace.Spec

/-! ### emitAll -/

/-- the specification's word for a resolved statement (`none`: unresolved or does not fit) -/
def specWord (orig : Word) (a : AsmLine) : Option Word :=
  match toSpec orig a.stmt with
  | some i => encode i (addrOf orig a.line)
  | none => none

/-- the specification's words for a list of statements: all of them, or `none` -/
def specWords (orig : Word) : List AsmLine → Option (List Word)
  | [] => some []
  | a :: rest =>
    match specWord orig a, specWords orig rest with
    | some w, some ws => some (w :: ws)
    | _, _ => none

theorem emitAll_acc : ∀ (l : List AsmLine) (acc : List Word),
    emitAll l acc = match emitAll l [] with
      | .ok ws => .ok (acc.reverse ++ ws)
      | .diag k s => .diag k s
      | .panic s => .panic s := by
  intro l
  induction l with
  | nil => intro acc; simp [emitAll]
  | cons a rest ih =>
    intro acc
    unfold emitAll
    cases a.emit with
    | diag k s => rfl
    | panic s => rfl
    | ok w =>
      simp only []
      rw [ih (w :: acc), ih [w]]
      cases emitAll rest [] <;> simp

/-- a statement all of whose labels are resolved reads as an ISA instruction -/
theorem toSpec_isSome_of_resolved (orig : Word) {a : AsmLine} (h : a.Resolved) :
    ∃ i, toSpec orig a.stmt = some i := by
  unfold AsmLine.Resolved at h
  cases hs : a.stmt with
  | add d s x => cases x <;> exact ⟨_, rfl⟩
  | and d s x => cases x <;> exact ⟨_, rfl⟩
  | branch f l => rw [hs] at h; obtain ⟨n, rfl⟩ := h l rfl; exact ⟨_, rfl⟩
  | jumpSub l => rw [hs] at h; obtain ⟨n, rfl⟩ := h l rfl; exact ⟨_, rfl⟩
  | load d l => rw [hs] at h; obtain ⟨n, rfl⟩ := h l rfl; exact ⟨_, rfl⟩
  | loadInd d l => rw [hs] at h; obtain ⟨n, rfl⟩ := h l rfl; exact ⟨_, rfl⟩
  | loadEAddr d l => rw [hs] at h; obtain ⟨n, rfl⟩ := h l rfl; exact ⟨_, rfl⟩
  | store d l => rw [hs] at h; obtain ⟨n, rfl⟩ := h l rfl; exact ⟨_, rfl⟩
  | storeInd d l => rw [hs] at h; obtain ⟨n, rfl⟩ := h l rfl; exact ⟨_, rfl⟩
  | call l => rw [hs] at h; obtain ⟨n, rfl⟩ := h l rfl; exact ⟨_, rfl⟩
  | _ => exact ⟨_, rfl⟩

/-- `emit` of a resolved statement is its specification word, or the diagnostic. -/
theorem emit_eq_specWord (orig : Word) {a : AsmLine} (h : a.Resolved) :
    a.emit = match specWord orig a with
      | some w => .ok w
      | none => .diag .offsetTooLarge none := by
  obtain ⟨i, hi⟩ := toSpec_isSome_of_resolved orig h
  rw [emit_eq_encode_holds orig a i hi]
  unfold specWord expected
  rw [hi]
  rfl

/-- **Emission is the ISA encoding, statement by statement**: for resolved statements `emitAll`
returns exactly the specification's words, and the diagnostic iff some statement does not fit. -/
theorem emitAll_eq_specWords (orig : Word) : ∀ (l : List AsmLine), (∀ a ∈ l, a.Resolved) →
    emitAll l [] = match specWords orig l with
      | some ws => .ok ws
      | none => .diag .offsetTooLarge none := by
  intro l
  induction l with
  | nil => intro _; rfl
  | cons a rest ih =>
    intro h
    have ha := emit_eq_specWord orig (h a List.mem_cons_self)
    have hr := ih (fun x hx => h x (List.mem_cons_of_mem _ hx))
    unfold emitAll specWords
    rw [ha]
    cases specWord orig a with
    | none => rfl
    | some w =>
      simp only []
      rw [emitAll_acc, hr]
      cases specWords orig rest <;> rfl

/-! ### the parser numbers the statements 1, 2, 3, … -/

/-- statements numbered `k, k+1, …` in order -/
def Numbered : Nat → List AsmLine → Prop
  | _, [] => True
  | k, a :: rest => a.line = k ∧ Numbered (k + 1) rest

theorem Numbered.append {k : Nat} {l : List AsmLine} {a : AsmLine} (h : Numbered k l)
    (ha : a.line = k + l.length) : Numbered k (l ++ [a]) := by
  induction l generalizing k with
  | nil => exact ⟨by simpa using ha, trivial⟩
  | cons b rest ih =>
    exact ⟨h.1, ih h.2 (by simp at ha; omega)⟩

theorem Numbered.getElem {k : Nat} {l : List AsmLine} (h : Numbered k l) (i : Nat) (hi : i < l.length) :
    l[i].line = k + i := by
  induction l generalizing k i with
  | nil => simp at hi
  | cons b rest ih =>
    cases i with
    | zero => exact h.1
    | succ j =>
      have := ih h.2 j (by simpa using hi)
      simp only [List.getElem_cons_succ]
      omega

/-- invariant of the parser state: `line` is one more than the number of statements, the
statements (newest first) are numbered from 1, and the counter has not passed 65,535 -/
def PInv (st : PState) : Prop :=
  st.line = st.n + 1 ∧ st.line ≤ 65535 ∧ st.n = st.stmts.length ∧ Numbered 1 st.stmts.reverse

/-- what `parse` returns: statements numbered from 1, at most 65,535 of them -/
def AirNumbered (air : Air) : Prop := Numbered 1 air.stmts ∧ air.stmts.length ≤ 65535

def StepInv : ParseStep → Prop
  | .done (.ok air) => AirNumbered air
  | .done _ => True
  | .more _ st => PInv st

theorem PInv.air {st : PState} (h : PInv st) : AirNumbered st.air := by
  obtain ⟨h1, h2, h3, h4⟩ := h
  refine ⟨h4, ?_⟩
  simp only [PState.air, List.length_reverse]
  omega

theorem addStmt_numbered {st : PState} (h : PInv st) (tok : Token) (stmt : Stmt) (te : Option Nat) :
    let st' := st.addStmt tok stmt te
    st'.n = st.n + 1 ∧ st'.n = st'.stmts.length ∧ Numbered 1 st'.stmts.reverse ∧ st'.line = st.line ∧
    st'.n ≤ 65535 := by
  obtain ⟨h1, h2, h3, h4⟩ := h
  simp only [PState.addStmt]
  refine ⟨trivial, by simp [h3], ?_, trivial, by omega⟩
  rw [List.reverse_cons]
  apply Numbered.append h4
  simp only [List.length_reverse]
  have : (st.n + 1) % 65536 = st.n + 1 := Nat.mod_eq_of_lt (by omega)
  rw [this]; omega

theorem finishStmt_inv {st : PState} (h : PInv st) (tok : Token) (r : StmtRes) :
    StepInv (finishStmt st tok r) := by
  unfold finishStmt
  split
  · trivial
  · trivial
  · rename_i stmt ts' te
    have ha := addStmt_numbered h tok stmt te
    simp only at ha
    obtain ⟨a1, a2, a3, a4, a5⟩ := ha
    simp only []
    split
    · split
      · refine ⟨a3, ?_⟩
        simp only [PState.air, List.length_reverse]
        omega
      · trivial
    · rename_i hlt
      refine ⟨?_, ?_, a2, a3⟩
      · show st.line + 1 = (st.addStmt tok stmt te).n + 1
        rw [a1]; have := h.1; omega
      · show st.line + 1 ≤ 65535
        omega

theorem parseLine_inv (srcLen : Nat) (labeled : Bool) (toks : List Token) {st : PState} (h : PInv st)
    (tbl : SymTab) : StepInv (parseLine srcLen labeled toks st tbl) := by
  unfold parseLine
  split
  · split
    · trivial
    · exact h.air
  · rename_i tok ts
    split
    · unfold unexpectedDiag; split <;> trivial
    · unfold unexpectedDiag; split <;> trivial
    · unfold unexpectedDiag; split <;> trivial
    · split
      · trivial
      · split
        · trivial
        · trivial
        · split
          · trivial
          · exact h
    · exact h
    · exact finishStmt_inv h tok _
    · exact finishStmt_inv h tok _
    · exact finishStmt_inv h tok _
    · trivial
    · trivial
    · trivial

theorem parseStep_inv (srcLen : Nat) (toks : List Token) {st : PState} (h : PInv st) (tbl : SymTab) :
    StepInv (parseStep srcLen toks st tbl).1 := by
  unfold parseStep
  split
  · split
    · split
      · trivial
      · exact parseLine_inv srcLen true _ h _
    · exact parseLine_inv srcLen false (_ :: _) h tbl
  · exact parseLine_inv srcLen false [] h tbl

theorem parseLoop_numbered (srcLen : Nat) : ∀ (fuel : Nat) (toks : List Token) (st : PState)
    (tbl : SymTab), PInv st → ∀ air, (parseLoop srcLen fuel toks st tbl).1 = .ok air → AirNumbered air := by
  intro fuel
  induction fuel with
  | zero => intro toks st tbl _ air h; simp [parseLoop] at h
  | succ fuel ih =>
    intro toks st tbl hinv air h
    have hs := parseStep_inv srcLen toks hinv tbl
    unfold parseLoop at h
    generalize parseStep srcLen toks st tbl = r at hs h
    obtain ⟨ps, tbl'⟩ := r
    cases ps with
    | done r =>
      simp only at h
      subst h
      exact hs
    | more toks' st' => exact ih toks' st' tbl' hs air h

/-- **The statements `parse` returns are numbered 1, 2, 3, …**, at most 65,535 of them. -/
theorem parse_numbered (feat : Option Bool) (tbl : SymTab) (src : List Char) (air : Air)
    (h : (parse feat tbl src).1 = .ok air) : AirNumbered air := by
  unfold parse at h
  split at h
  · simp at h
  · simp at h
  · have h0 : PInv { orig := none, stmts := [], n := 0, bps := [], line := 1, tokEnd := 0 } :=
      ⟨rfl, by decide, rfl, (trivial : Numbered 1 [])⟩
    exact parseLoop_numbered _ _ _ _ _ h0 air h

/-! ### backpatch -/

theorem backpatch_line {tbl : SymTab} {a a' : AsmLine} (h : a.backpatch tbl = some a') :
    a'.line = a.line := by
  unfold AsmLine.backpatch at h
  split at h
  · cases h; rfl
  · split at h
    · cases h; rfl
    · cases h

theorem backpatchAll_numbered {tbl : SymTab} : ∀ {l l' : List AsmLine} {k : Nat},
    backpatchAll tbl l = some l' → Numbered k l → Numbered k l' ∧ l'.length = l.length := by
  intro l
  induction l with
  | nil => intro l' k h _; simp [backpatchAll] at h; subst h; exact ⟨trivial, rfl⟩
  | cons a rest ih =>
    intro l' k h hn
    unfold backpatchAll at h
    split at h
    · cases h
    · rename_i a' ha
      split at h
      · cases h
      · rename_i rest' hr
        cases h
        obtain ⟨h1, h2⟩ := ih hr hn.2
        exact ⟨⟨(backpatch_line ha).trans hn.1, h1⟩, by simp [h2]⟩

/-- `backpatch` fails exactly when a statement refers to a name that is not in the table. -/
theorem backpatchAll_none_iff {tbl : SymTab} : ∀ {l : List AsmLine},
    backpatchAll tbl l = none ↔
      ∃ a ∈ l, ∃ name, a.stmt.label? = some (.unfilled name) ∧ tbl.get? name = none := by
  intro l
  induction l with
  | nil => simp [backpatchAll]
  | cons a rest ih =>
    have hone : a.backpatch tbl = none ↔
        ∃ name, a.stmt.label? = some (.unfilled name) ∧ tbl.get? name = none := by
      unfold AsmLine.backpatch
      cases hl : a.stmt.label? with
      | none => simp
      | some l =>
        cases l with
        | ref n => simp [Label.filled]
        | unfilled nm =>
          simp only [Label.filled]
          cases hg : tbl.get? nm <;> simp [hg]
    unfold backpatchAll
    cases ha : a.backpatch tbl with
    | none =>
      simp only [true_iff]
      exact ⟨a, List.mem_cons_self, hone.mp ha⟩
    | some a' =>
      simp only []
      have hne : ¬ ∃ name, a.stmt.label? = some (.unfilled name) ∧ tbl.get? name = none := by
        intro hc; rw [hone.mpr hc] at ha; cases ha
      cases hr : backpatchAll tbl rest with
      | none =>
        simp only [true_iff]
        obtain ⟨b, hb, hx⟩ := ih.mp hr
        exact ⟨b, List.mem_cons_of_mem _ hb, hx⟩
      | some rest' =>
        simp only [false_iff, reduceCtorEq]
        rintro ⟨b, hb, hx⟩
        rcases List.mem_cons.mp hb with rfl | hb
        · exact hne hx
        · have := ih.mpr ⟨b, hb, hx⟩
          rw [hr] at this; cases this

/-- The resolved statements depend on the symbol table only through `name ↦ statement number`
(not on the order in which the labels were entered, nor on anything else in the table). -/
theorem backpatchAll_congr {t1 t2 : SymTab} (h : ∀ name, t1.get? name = t2.get? name)
    (l : List AsmLine) : backpatchAll t1 l = backpatchAll t2 l := by
  induction l with
  | nil => rfl
  | cons a rest ih =>
    have ha : a.backpatch t1 = a.backpatch t2 := by
      unfold AsmLine.backpatch
      cases a.stmt.label? with
      | none => rfl
      | some l =>
        cases l with
        | ref n => rfl
        | unfilled nm => simp only [Label.filled, h nm]
    unfold backpatchAll
    rw [ha, ih]

/-! ### words, one by one -/

theorem specWords_getElem {orig : Word} : ∀ {l : List AsmLine} {ws : List Word},
    specWords orig l = some ws →
      ws.length = l.length ∧
      ∀ (i : Nat) (h1 : i < l.length) (h2 : i < ws.length), specWord orig l[i] = some ws[i] := by
  intro l
  induction l with
  | nil => intro ws h; simp [specWords] at h; subst h; exact ⟨rfl, fun i h1 => by simp at h1⟩
  | cons a rest ih =>
    intro ws h
    unfold specWords at h
    split at h
    · rename_i w ws' hw hws
      cases h
      obtain ⟨hl, hi⟩ := ih hws
      refine ⟨by simp [hl], ?_⟩
      intro i h1 h2
      cases i with
      | zero => exact hw
      | succ j => exact hi j (by simpa using h1) (by simpa using h2)
    · cases h

theorem specWords_none_iff {orig : Word} : ∀ {l : List AsmLine},
    specWords orig l = none ↔ ∃ a ∈ l, specWord orig a = none := by
  intro l
  induction l with
  | nil => simp [specWords]
  | cons a rest ih =>
    unfold specWords
    cases ha : specWord orig a with
    | none => simp only [true_iff]; exact ⟨a, List.mem_cons_self, ha⟩
    | some w =>
      cases hr : specWords orig rest with
      | none =>
        simp only [true_iff]
        obtain ⟨b, hb, hx⟩ := ih.mp hr
        exact ⟨b, List.mem_cons_of_mem _ hb, hx⟩
      | some ws =>
        simp only [false_iff, reduceCtorEq]
        rintro ⟨b, hb, hx⟩
        rcases List.mem_cons.mp hb with rfl | hb
        · rw [ha] at hx; cases hx
        · have := ih.mpr ⟨b, hb, hx⟩
          rw [hr] at this; cases this

/-- statement number `i + 1` sits at `orig + i` -/
theorem addrOf_succ (orig : Word) (i : Nat) : addrOf orig (i + 1) = orig + BitVec.ofNat 16 i := by
  unfold addrOf
  have : BitVec.ofNat 16 (i + 1) = BitVec.ofNat 16 i + 1 := by
    apply BitVec.eq_of_toNat_eq; simp [BitVec.toNat_add, BitVec.toNat_ofNat]
  rw [this]
  grind

end Lace.C01
