/-
  Lemmas for C17's `span_inside_source`: every statement span of an assembled image starts and
  ends on a character boundary of the source, so the debugger's slice `&src[span]` never panics.

  The invariant is `Bdy src n` — "byte offset `n` is a character boundary of `src`" (`src` splits
  into `pre ++ post` with `utf8Len pre = n`) — for both ends of a span (`SpanBdy`), carried
  * through the lexer (`advanceToken_span`, `advanceReal_span`: the span of a token is the cursor
    position before it and the position after the characters it consumed; the cursor itself stays
    on a boundary),
  * through the preprocessor (`preprocessStep_span`, `preprocess_span`: the joined span of
    `.fill` / `.blkw` / `.stringz` and their operand runs from the smaller start to the larger
    end of two such spans — `join_bdy`),
  * through the parser (`expect*_span` … `parseInstr_span`: every new `tok_end` is the end of a
    token of the stream; `addStmt_span`: a statement span runs from the start of its token to that
    token's end or to `tok_end`; `parseLoop_span`, `parse_span`) and `backpatch`
    (`backpatchAll_span`),
  and finally turned into a slice (`sliceBytes_of_bdy`).
-/
import Lace.Proofs.AsmParse
import Lace.Model.AsmSource
namespace Lace.Asm

/-- Byte offset `n` is a character boundary of `src` (0, the end, or between two characters). -/
def Bdy (src : List Char) (n : Nat) : Prop := ∃ pre post, src = pre ++ post ∧ utf8Len pre = n

theorem Bdy.zero (src : List Char) : Bdy src 0 := ⟨[], src, rfl, rfl⟩

theorem Bdy.pre (pre post : List Char) : Bdy (pre ++ post) (utf8Len pre) := ⟨pre, post, rfl, rfl⟩

/-- Both ends of the span are character boundaries of `src`. -/
def SpanBdy (src : List Char) (s : Span) : Prop := Bdy src s.offs ∧ Bdy src (s.offs + s.len)

/-- A lexer step on `src`: the token's span starts and ends on character boundaries, and so does
the cursor after it. -/
def LexSpan (src : List Char) : LexStep → Prop
  | .tok t pos' rest' => SpanBdy src t.span ∧ ∃ pre', src = pre' ++ rest' ∧ utf8Len pre' = pos'
  | _ => True

theorem mkTok_span (k : TokenKind) (pre consumed rest' : List Char) :
    LexSpan (pre ++ (consumed ++ rest')) (mkTok k (utf8Len pre) consumed rest') := by
  refine ⟨⟨⟨pre, consumed ++ rest', rfl, rfl⟩, ⟨pre ++ consumed, rest', by simp, ?_⟩⟩,
    ⟨pre ++ consumed, by simp, ?_⟩⟩
  · exact utf8Len_append _ _
  · exact utf8Len_append _ _

theorem identFrom_span (feat : Option Bool) (pre consumed p : List Char) (identStart : Nat)
    (rest : List Char) :
    LexSpan (pre ++ (consumed ++ rest)) (identFrom feat (utf8Len pre) consumed p identStart rest) := by
  have hsplit : consumed ++ rest = (consumed ++ rest.takeWhile isId) ++ rest.dropWhile isId := by
    rw [List.append_assoc, List.takeWhile_append_dropWhile]
  unfold identFrom
  simp only []
  rw [hsplit]
  split
  · split
    · trivial
    · trivial
    · exact mkTok_span _ _ _ _
  · exact mkTok_span _ _ _ _

theorem ident_span (feat : Option Bool) (pre consumed rest : List Char) :
    LexSpan (pre ++ (consumed ++ rest)) (ident feat (utf8Len pre) consumed rest) := by
  unfold ident
  split
  · trivial
  · split
    · exact identFrom_span _ _ _ _ _ _
    · trivial

theorem hex_span (feat : Option Bool) (pre p rest : List Char) :
    LexSpan (pre ++ (p ++ rest)) (hex feat (utf8Len pre) p rest) := by
  have hsplit : p ++ rest = (p ++ rest.takeWhile notWs) ++ rest.dropWhile notWs := by
    rw [List.append_assoc, List.takeWhile_append_dropWhile]
  unfold hex
  simp only []
  rw [hsplit]
  split
  · exact mkTok_span _ _ _ _
  · split
    · exact mkTok_span _ _ _ _
    · trivial
    · have := identFrom_span feat pre (p ++ rest.takeWhile notWs) (p ++ rest.takeWhile notWs)
        (utf8Len pre) (rest.dropWhile notWs)
      exact this

theorem dec_span (pre p rest : List Char) :
    LexSpan (pre ++ (p ++ rest)) (dec (utf8Len pre) p rest) := by
  have hsplit : p ++ rest = (p ++ rest.takeWhile notWs) ++ rest.dropWhile notWs := by
    rw [List.append_assoc, List.takeWhile_append_dropWhile]
  unfold dec
  simp only []
  rw [hsplit]
  split
  · exact mkTok_span _ _ _ _
  · split
    · exact mkTok_span _ _ _ _
    · trivial

theorem dir_span (pre rest : List Char) :
    LexSpan (pre ++ ('.' :: rest)) (dir (utf8Len pre) rest) := by
  have hsplit : '.' :: rest = ('.' :: rest.takeWhile isId) ++ rest.dropWhile isId := by
    rw [List.cons_append, List.takeWhile_append_dropWhile]
  unfold dir
  simp only []
  rw [hsplit]
  split
  · exact mkTok_span _ _ _ _
  · trivial

theorem strLoop_text (rest acc : List Char) :
    (strLoop rest acc).2.1.reverse ++ (strLoop rest acc).2.2 = acc.reverse ++ rest := by
  fun_induction strLoop rest acc with
  | case1 acc => simp
  | case2 c cs acc h => simp
  | case3 c cs acc h1 h2 => simp
  | case4 c acc h1 h2 h3 => simp
  | case5 c acc h1 h2 h3 d ds ih => rw [ih]; simp
  | case6 c cs acc h1 h2 h3 ih => rw [ih]; simp

theorem str_span (pre rest : List Char) :
    LexSpan (pre ++ ('"' :: rest)) (str (utf8Len pre) rest) := by
  have ht := strLoop_text rest ['"']
  unfold str
  split
  · rename_i acc rest' heq
    rw [heq] at ht
    simp only [List.reverse_cons, List.reverse_nil, List.nil_append, List.singleton_append] at ht
    rw [← ht]
    exact mkTok_span _ _ _ _
  · trivial

theorem advanceToken_span (feat : Option Bool) (pre rest : List Char) :
    LexSpan (pre ++ rest) (advanceToken feat (utf8Len pre) rest) := by
  cases rest with
  | nil =>
    simp only [advanceToken]
    exact ⟨⟨Bdy.zero _, Bdy.zero _⟩, pre, rfl, rfl⟩
  | cons c rest =>
    simp only [advanceToken]
    split
    · have := mkTok_span .comment pre (c :: rest.takeWhile (fun d => d != '\n')) (rest.dropWhile (fun d => d != '\n'))
      rw [List.cons_append, List.takeWhile_append_dropWhile] at this
      exact this
    split
    · have := mkTok_span .whitespace pre (c :: rest.takeWhile isWs) (rest.dropWhile isWs)
      rw [List.cons_append, List.takeWhile_append_dropWhile] at this
      exact this
    split
    · exact hex_span feat pre [c] rest
    split
    · split
      · rename_i d rest'
        split
        · exact hex_span feat pre [c, d] rest'
        · exact ident_span feat pre [c] (d :: rest')
      · exact ident_span feat pre [c] []
    split
    · split
      · rename_i d rest'
        split
        · have hA := mkTok_span (.reg (regOfChar d)) pre (c :: (d :: rest').takeWhile isRegNum)
            ((d :: rest').dropWhile isRegNum)
          have hB := ident_span feat pre (c :: (d :: rest').takeWhile isRegNum)
            ((d :: rest').dropWhile isRegNum)
          rw [List.cons_append, List.takeWhile_append_dropWhile] at hA hB
          repeat' split
          all_goals first | exact hA | exact hB
        · exact ident_span feat pre [c] (d :: rest')
      · exact ident_span feat pre [c] []
    split
    · exact ident_span feat pre [c] rest
    split
    · exact dec_span pre [c] rest
    split
    · rename_i hc; simp at hc; subst hc
      exact dir_span pre rest
    split
    · rename_i hc; simp at hc; subst hc
      exact str_span pre rest
    · trivial

theorem advanceRealLoop_span (feat : Option Bool) : ∀ (fuel : List Char) (pre rest : List Char),
    LexSpan (pre ++ rest) (advanceRealLoop feat fuel (utf8Len pre) rest) := by
  intro fuel
  induction fuel with
  | nil => intro pre rest; exact advanceToken_span feat pre rest
  | cons _ fuel ih =>
    intro pre rest
    have h := advanceToken_span feat pre rest
    unfold advanceRealLoop
    split
    · rename_i t pos' rest' heq
      rw [heq] at h
      split
      · obtain ⟨_, pre', h1, h2⟩ := h
        rw [h1, ← h2]
        exact ih pre' rest'
      · exact h
    · trivial

theorem advanceReal_span (feat : Option Bool) (pre rest : List Char) :
    LexSpan (pre ++ rest) (advanceReal feat (utf8Len pre) rest) :=
  advanceRealLoop_span feat _ pre rest

end Lace.Asm

namespace Lace.Asm

/-! ### The preprocessor keeps spans on character boundaries -/

/-- A token whose span starts and ends on character boundaries of `src`. -/
def TokBdy (src : List Char) (t : Token) : Prop := SpanBdy src t.span

theorem join_bdy {src : List Char} {a b s : Span} (ha : SpanBdy src a) (hb : SpanBdy src b)
    (h : a.join? b = some s) : SpanBdy src s := by
  unfold Span.join? Span.stop at h
  simp only [] at h
  split at h
  · cases h
  · rename_i hlt
    cases h
    constructor
    · show Bdy src (min a.offs b.offs)
      rcases Nat.le_total a.offs b.offs with hle | hle
      · rw [Nat.min_eq_left hle]; exact ha.1
      · rw [Nat.min_eq_right hle]; exact hb.1
    · show Bdy src (min a.offs b.offs + (max (a.offs + a.len) (b.offs + b.len) - min a.offs b.offs))
      have : min a.offs b.offs + (max (a.offs + a.len) (b.offs + b.len) - min a.offs b.offs) =
          max (a.offs + a.len) (b.offs + b.len) := by omega
      rw [this]
      rcases Nat.le_total (a.offs + a.len) (b.offs + b.len) with hle | hle
      · rw [Nat.max_eq_right hle]; exact hb.2
      · rw [Nat.max_eq_left hle]; exact ha.2

def PreSpan (src : List Char) : PreStep → Prop
  | .done (.ok toks) => ∀ t ∈ toks, TokBdy src t
  | .done _ => True
  | .more pos' rest' acc' =>
    (∃ pre', src = pre' ++ rest' ∧ utf8Len pre' = pos') ∧ ∀ t ∈ acc', TokBdy src t

theorem byteTok_bdy {src : List Char} {v : Word} {s : Span} (h : SpanBdy src s) :
    TokBdy src (byteTok v s) := h

theorem preprocessStep_span (feat : Option Bool) (src pre rest : List Char) (acc : List Token)
    (hsrc : src = pre ++ rest) (hacc : ∀ t ∈ acc, TokBdy src t) :
    PreSpan src (preprocessStep feat (utf8Len pre) rest acc) := by
  have h1 := advanceReal_span feat pre rest
  rw [← hsrc] at h1
  unfold preprocessStep
  generalize advanceReal feat (utf8Len pre) rest = r1 at h1 ⊢
  cases r1 with
  | panic s => trivial
  | diag k o l => trivial
  | tok d pos1 rest1 =>
    obtain ⟨hd, pre1, e1, e2⟩ := h1
    subst e2
    have h2 := advanceReal_span feat pre1 rest1
    rw [← e1] at h2
    have hcons : ∀ t, TokBdy src t → ∀ x ∈ t :: acc, TokBdy src x := by
      intro t ht x hx
      rcases List.mem_cons.mp hx with rfl | hx
      · exact ht
      · exact hacc x hx
    simp only []
    split
    · -- .fill
      generalize advanceReal feat (utf8Len pre1) rest1 = r2 at h2 ⊢
      cases r2 with
      | panic s => trivial
      | diag k o l => trivial
      | tok val pos2 rest2 =>
        obtain ⟨hv, hcur⟩ := h2
        simp only []
        split
        · trivial
        · rename_i span hj
          have hs := join_bdy hd hv hj
          split
          · exact ⟨hcur, hcons _ (byteTok_bdy hs)⟩
          · exact ⟨hcur, hcons _ (byteTok_bdy hs)⟩
          · trivial
    · -- .blkw
      generalize advanceReal feat (utf8Len pre1) rest1 = r2 at h2 ⊢
      cases r2 with
      | panic s => trivial
      | diag k o l => trivial
      | tok val pos2 rest2 =>
        obtain ⟨hv, hcur⟩ := h2
        simp only []
        split
        · trivial
        · rename_i span hj
          have hs := join_bdy hd hv hj
          split
          · exact ⟨hcur, fun t ht => by
              rcases List.mem_append.mp ht with ht | ht
              · rw [List.eq_of_mem_replicate ht]; exact byteTok_bdy hs
              · exact hacc t ht⟩
          · exact ⟨hcur, fun t ht => by
              rcases List.mem_append.mp ht with ht | ht
              · rw [List.eq_of_mem_replicate ht]; exact byteTok_bdy hs
              · exact hacc t ht⟩
          · trivial
    · -- .stringz
      generalize advanceReal feat (utf8Len pre1) rest1 = r2 at h2 ⊢
      cases r2 with
      | panic s => trivial
      | diag k o l => trivial
      | tok val pos2 rest2 =>
        obtain ⟨hv, hcur⟩ := h2
        simp only []
        split
        · split
          · trivial
          · rename_i span hj
            have hs := join_bdy hd hv hj
            split
            · trivial
            · exact ⟨hcur, fun t ht => by
                rcases List.mem_cons.mp ht with rfl | ht
                · exact byteTok_bdy hs
                · rcases List.mem_append.mp ht with ht | ht
                  · rw [List.mem_reverse, List.mem_map] at ht
                    obtain ⟨c, _, rfl⟩ := ht
                    exact byteTok_bdy hs
                  · exact hacc t ht⟩
        · trivial
    · -- .break
      exact ⟨⟨pre1, e1, rfl⟩, hcons _ hd⟩
    · exact ⟨⟨pre1, e1, rfl⟩, hacc⟩
    · exact ⟨⟨pre1, e1, rfl⟩, hacc⟩
    · exact fun t ht => hacc t (List.mem_reverse.mp ht)
    · exact fun t ht => hacc t (List.mem_reverse.mp ht)
    · exact ⟨⟨pre1, e1, rfl⟩, hcons _ hd⟩

def ResToksSpan (src : List Char) : Res (List Token) → Prop
  | .ok toks => ∀ t ∈ toks, TokBdy src t
  | _ => True

theorem preprocessLoop_span (feat : Option Bool) (src : List Char) :
    ∀ (fuel : Nat) (pre rest : List Char) (acc : List Token),
    src = pre ++ rest → (∀ t ∈ acc, TokBdy src t) →
    ResToksSpan src (preprocessLoop feat fuel (utf8Len pre) rest acc) := by
  intro fuel
  induction fuel with
  | zero => intro pre rest acc _ _; trivial
  | succ fuel ih =>
    intro pre rest acc hsrc hacc
    have hs := preprocessStep_span feat src pre rest acc hsrc hacc
    unfold preprocessLoop
    generalize preprocessStep feat (utf8Len pre) rest acc = r at hs ⊢
    cases r with
    | done r =>
      cases r with
      | ok toks => exact hs
      | diag k s => trivial
      | panic s => trivial
    | more pos' rest' acc' =>
      obtain ⟨⟨pre', e1, e2⟩, h3⟩ := hs
      subst e2
      exact ih pre' rest' acc' e1 h3

theorem preprocess_span (feat : Option Bool) (src : List Char) :
    ResToksSpan src (preprocess feat src) :=
  preprocessLoop_span feat src (src.length + 1) [] src [] rfl (by simp)

end Lace.Asm

namespace Lace.Asm

/-! ### The parser: `tok_end` and statement spans stay on character boundaries -/

/-- Result of an `expect_*` / `parse_instr` function: the new `tok_end` satisfies `P`, the
remaining tokens come from `toks`. -/
def ExpB {α β : Type} (P : β → Prop) (toks : List Token) : Res (α × List Token × β) → Prop
  | .ok (_, ts, te) => P te ∧ ∀ t ∈ ts, t ∈ toks
  | _ => True

/-- the optional new `tok_end` of a statement is a character boundary -/
def OptBdy (src : List Char) (o : Option Nat) : Prop := ∀ e, o = some e → Bdy src e

theorem ExpB.trans {α β : Type} {P : β → Prop} {toks ts : List Token}
    (h2 : ∀ t ∈ ts, t ∈ toks) {r : Res (α × List Token × β)} (h : ExpB P ts r) : ExpB P toks r := by
  cases r with
  | panic s => trivial
  | diag k s => trivial
  | ok p =>
    obtain ⟨a, ts', x⟩ := p
    exact ⟨h.1, fun t ht => h2 t (h.2 t ht)⟩

theorem expectWhere_span {src : List Char} (srcLen : Nat) (check : TokenKind → Bool)
    (toks : List Token) (h : ∀ t ∈ toks, TokBdy src t) :
    ExpB (Bdy src) toks (expectWhere srcLen check toks) := by
  unfold expectWhere
  split
  · trivial
  · rename_i t ts
    split
    · exact ⟨(h t List.mem_cons_self).2, fun x hx => List.mem_cons_of_mem _ hx⟩
    · unfold unexpectedDiag; split <;> trivial

/-- after `split` on a `match e with …` whose scrutinee satisfies `hw : ExpB … e`: close the
diag / panic branches, leave the ok branch with `hw` rewritten -/
macro "spn_step" hw:ident : tactic =>
  `(tactic| (split
             all_goals (rename_i heq; rw [heq] at $hw:ident)
             all_goals first | trivial | skip))

theorem expectLit_span {src : List Char} (srcLen : Nat) (bits : Bits) (toks : List Token)
    (h : ∀ t ∈ toks, TokBdy src t) :
    ExpB (Bdy src) toks (expectLit srcLen bits toks) := by
  have hw := expectWhere_span srcLen isNumLit toks h
  unfold expectLit
  spn_step hw
  split
  · split
    · trivial
    · exact hw
    · trivial
  · split
    · trivial
    · exact hw
    · trivial
  · trivial

theorem expectReg_span {src : List Char} (srcLen : Nat) (toks : List Token)
    (h : ∀ t ∈ toks, TokBdy src t) :
    ExpB (Bdy src) toks (expectReg srcLen toks) := by
  have hw := expectWhere_span srcLen isReg toks h
  unfold expectReg
  spn_step hw
  split
  · exact hw
  · trivial

theorem expectLitOrReg_span {src : List Char} (srcLen : Nat) (toks : List Token)
    (h : ∀ t ∈ toks, TokBdy src t) :
    ExpB (Bdy src) toks (expectLitOrReg srcLen toks) := by
  unfold expectLitOrReg
  split
  · trivial
  · rename_i t ts
    split
    · have hw := expectReg_span srcLen (t :: ts) h
      spn_step hw
    · have hw := expectLit_span srcLen (.signed 5) (t :: ts) h
      spn_step hw
    · unfold unexpectedDiag; split <;> trivial

theorem expectLitOrLabel_span {src : List Char} (srcLen : Nat) (tbl : SymTab) (line bits : Nat)
    (toks : List Token) (h : ∀ t ∈ toks, TokBdy src t) :
    ExpB (Bdy src) toks (expectLitOrLabel srcLen tbl line bits toks) := by
  unfold expectLitOrLabel
  split
  · trivial
  · rename_i t ts
    split
    · have hw := expectWhere_span srcLen (fun k => k = .label) (t :: ts) h
      spn_step hw
    · have hw := expectLit_span srcLen (.signed bits) (t :: ts) h
      spn_step hw
    · unfold unexpectedDiag; split <;> trivial

theorem ExpB.some {α α' : Type} {src : List Char} {toks ts : List Token} {a : α} {a' : α'} {te : Nat}
    (h : ExpB (Bdy src) toks (.ok (a, ts, te))) :
    ExpB (OptBdy src) toks (.ok (a', ts, some te)) :=
  ⟨fun e he => (by cases he; exact h.1), h.2⟩

theorem piReg1_span {src : List Char} (srcLen : Nat) (toks : List Token) (f : BitVec 3 → Stmt)
    (h : ∀ t ∈ toks, TokBdy src t) : ExpB (OptBdy src) toks (piReg1 srcLen toks f) := by
  have hw := expectReg_span srcLen toks h
  unfold piReg1
  spn_step hw
  exact hw.some

theorem piLbl_span {src : List Char} (srcLen : Nat) (tbl : SymTab) (line bits : Nat)
    (toks : List Token) (f : Label → Stmt) (h : ∀ t ∈ toks, TokBdy src t) :
    ExpB (OptBdy src) toks (piLbl srcLen tbl line bits toks f) := by
  have hw := expectLitOrLabel_span srcLen tbl line bits toks h
  unfold piLbl
  spn_step hw
  exact hw.some

theorem piRegLbl_span {src : List Char} (srcLen : Nat) (tbl : SymTab) (line : Nat)
    (toks : List Token) (f : BitVec 3 → Label → Stmt) (h : ∀ t ∈ toks, TokBdy src t) :
    ExpB (OptBdy src) toks (piRegLbl srcLen tbl line toks f) := by
  have hw := expectReg_span srcLen toks h
  unfold piRegLbl
  spn_step hw
  rename_i r ts te _
  exact (piLbl_span srcLen tbl line 9 ts (f r) (fun t ht => h t (hw.2 t ht))).trans hw.2

theorem piReg2_span {src : List Char} (srcLen : Nat) (toks : List Token)
    (f : BitVec 3 → BitVec 3 → Stmt) (h : ∀ t ∈ toks, TokBdy src t) :
    ExpB (OptBdy src) toks (piReg2 srcLen toks f) := by
  have hw := expectReg_span srcLen toks h
  unfold piReg2
  spn_step hw
  rename_i a ts te _
  have hw2 := expectReg_span srcLen ts (fun t ht => h t (hw.2 t ht))
  spn_step hw2
  exact (ExpB.some hw2).trans hw.2

theorem piReg2Lit_span {src : List Char} (srcLen : Nat) (toks : List Token)
    (f : BitVec 3 → BitVec 3 → BitVec 8 → Stmt) (h : ∀ t ∈ toks, TokBdy src t) :
    ExpB (OptBdy src) toks (piReg2Lit srcLen toks f) := by
  have hw := expectReg_span srcLen toks h
  unfold piReg2Lit
  spn_step hw
  rename_i a ts te _
  have hw2 := expectReg_span srcLen ts (fun t ht => h t (hw.2 t ht))
  spn_step hw2
  rename_i b ts' te' _
  have hw3 := expectLit_span srcLen (.signed 6) ts' (fun t ht => h t (hw.2 t (hw2.2 t ht)))
  spn_step hw3
  exact (ExpB.some hw3).trans (fun t ht => hw.2 t (hw2.2 t ht))

theorem piReg2Imm_span {src : List Char} (srcLen : Nat) (toks : List Token)
    (f : BitVec 3 → BitVec 3 → ImmOrReg → Stmt) (h : ∀ t ∈ toks, TokBdy src t) :
    ExpB (OptBdy src) toks (piReg2Imm srcLen toks f) := by
  have hw := expectReg_span srcLen toks h
  unfold piReg2Imm
  spn_step hw
  rename_i a ts te _
  have hw2 := expectReg_span srcLen ts (fun t ht => h t (hw.2 t ht))
  spn_step hw2
  rename_i b ts' te' _
  have hw3 := expectLitOrReg_span srcLen ts' (fun t ht => h t (hw.2 t (hw2.2 t ht)))
  spn_step hw3
  exact (ExpB.some hw3).trans (fun t ht => hw.2 t (hw2.2 t ht))

theorem ExpB.none {src : List Char} {toks : List Token} {s : Stmt} :
    ExpB (α := Stmt) (OptBdy src) toks (.ok (s, toks, none)) :=
  ⟨fun e he => (by cases he), fun _ h => h⟩

theorem parseInstr_span {src : List Char} (srcLen : Nat) (tbl : SymTab) (line : Nat)
    (kind : InstrKind) (toks : List Token) (h : ∀ t ∈ toks, TokBdy src t) :
    ExpB (OptBdy src) toks (parseInstr srcLen tbl line kind toks) := by
  cases kind <;> simp only [parseInstr]
  case call =>
    have hw := expectWhere_span srcLen (fun k => k = .label) toks h
    spn_step hw
    exact hw.some
  all_goals first
    | exact piReg1_span srcLen toks _ h
    | exact piReg2_span srcLen toks _ h
    | exact piReg2Imm_span srcLen toks _ h
    | exact piReg2Lit_span srcLen toks _ h
    | exact piRegLbl_span srcLen tbl line toks _ h
    | exact piLbl_span srcLen tbl line _ toks _ h
    | exact ExpB.none

theorem parseTrap_span {src : List Char} (srcLen : Nat) (kind : TrapKind)
    (toks : List Token) (h : ∀ t ∈ toks, TokBdy src t) :
    ExpB (OptBdy src) toks (parseTrap srcLen kind toks) := by
  cases kind <;> simp only [parseTrap]
  case generic =>
    have hw := expectLit_span srcLen (.unsigned 8) toks h
    spn_step hw
    exact hw.some
  all_goals exact ExpB.none

/-- Parser state: `tok_end` and the span of every statement added so far are on character
boundaries. -/
def StSpan (src : List Char) (st : PState) : Prop :=
  Bdy src st.tokEnd ∧ ∀ a ∈ st.stmts, SpanBdy src a.span

theorem addStmt_span {src : List Char} {st : PState} {tok : Token} (stmt : Stmt) {te : Option Nat}
    (hst : StSpan src st) (htok : TokBdy src tok) (hte : OptBdy src te) :
    StSpan src (st.addStmt tok stmt te) := by
  have key : ∀ e, Bdy src e → SpanBdy src
      ⟨tok.span.offs, if e ≤ tok.span.offs then tok.span.len else e - tok.span.offs⟩ := by
    intro e he
    refine ⟨htok.1, ?_⟩
    show Bdy src (tok.span.offs + if e ≤ tok.span.offs then tok.span.len else e - tok.span.offs)
    split
    · exact htok.2
    · rename_i hlt
      have : tok.span.offs + (e - tok.span.offs) = e := by omega
      rw [this]; exact he
  cases te with
  | none =>
    refine ⟨hst.1, fun a ha => ?_⟩
    rcases List.mem_cons.mp ha with rfl | ha
    · exact key _ hst.1
    · exact hst.2 a ha
  | some e =>
    have he := hte e rfl
    refine ⟨he, fun a ha => ?_⟩
    rcases List.mem_cons.mp ha with rfl | ha
    · exact key _ he
    · exact hst.2 a ha

def ParseSpan (src : List Char) : ParseStep → Prop
  | .done (.ok air) => ∀ a ∈ air.stmts, SpanBdy src a.span
  | .done _ => True
  | .more toks' st' => (∀ t ∈ toks', TokBdy src t) ∧ StSpan src st'

theorem air_span {src : List Char} {st : PState} (hst : StSpan src st) :
    ∀ a ∈ st.air.stmts, SpanBdy src a.span :=
  fun a ha => hst.2 a (List.mem_reverse.mp ha)

theorem finishStmt_span {src : List Char} (st : PState) (tok : Token) (ts : List Token)
    (r : StmtRes) (hst : StSpan src st) (htok : TokBdy src tok) (hts : ∀ t ∈ ts, TokBdy src t)
    (hr : ExpB (OptBdy src) ts r) : ParseSpan src (finishStmt st tok r) := by
  unfold finishStmt
  split
  · trivial
  · trivial
  · rename_i stmt ts' te
    have hst' := addStmt_span stmt hst htok hr.1
    simp only []
    split
    · split
      · exact air_span hst'
      · trivial
    · exact ⟨fun t ht => hts t (hr.2 t ht), hst'⟩

theorem parseLine_span {src : List Char} (srcLen : Nat) (labeled : Bool) (toks : List Token)
    (st : PState) (tbl : SymTab) (h : ∀ t ∈ toks, TokBdy src t) (hst : StSpan src st) :
    ParseSpan src (parseLine srcLen labeled toks st tbl) := by
  unfold parseLine
  split
  · split
    · trivial
    · exact air_span hst
  · rename_i tok ts
    have htok := h tok List.mem_cons_self
    have hts : ∀ t ∈ ts, TokBdy src t := fun t ht => h t (List.mem_cons_of_mem _ ht)
    have hun : ParseSpan src (.done (unexpectedDiag tok)) := by
      unfold unexpectedDiag; split <;> trivial
    split
    · exact hun
    · exact hun
    · exact hun
    · split
      · trivial
      · have hw := expectLit_span srcLen (.unsigned 16) ts hts
        split
        · trivial
        · trivial
        · rename_i v ts' te heq
          rw [heq] at hw
          split
          · trivial
          · exact ⟨fun t ht => hts t (hw.2 t ht), hw.1, hst.2⟩
    · exact ⟨hts, hst.1, hst.2⟩
    · exact finishStmt_span st tok ts _ hst htok hts (parseInstr_span srcLen tbl st.line _ ts hts)
    · exact finishStmt_span st tok ts _ hst htok hts (parseTrap_span srcLen _ ts hts)
    · exact finishStmt_span st tok ts _ hst htok hts ExpB.none
    · trivial
    · trivial
    · trivial

theorem parseStep_span {src : List Char} (srcLen : Nat) (toks : List Token) (st : PState)
    (tbl : SymTab) (h : ∀ t ∈ toks, TokBdy src t) (hst : StSpan src st) :
    ParseSpan src (parseStep srcLen toks st tbl).1 := by
  unfold parseStep
  split
  · rename_i t ts
    have hts : ∀ x ∈ ts, TokBdy src x := fun x hx => h x (List.mem_cons_of_mem _ hx)
    split
    · split
      · trivial
      · exact parseLine_span srcLen true ts st _ hts hst
    · exact parseLine_span srcLen false (t :: ts) st tbl h hst
  · exact parseLine_span srcLen false [] st tbl h hst

def ResAirSpan (src : List Char) : Res Air → Prop
  | .ok air => ∀ a ∈ air.stmts, SpanBdy src a.span
  | _ => True

theorem parseLoop_span {src : List Char} (srcLen : Nat) : ∀ (fuel : Nat) (toks : List Token)
    (st : PState) (tbl : SymTab), (∀ t ∈ toks, TokBdy src t) → StSpan src st →
    ResAirSpan src (parseLoop srcLen fuel toks st tbl).1 := by
  intro fuel
  induction fuel with
  | zero => intro toks st tbl _ _; trivial
  | succ fuel ih =>
    intro toks st tbl h hst
    have hs := parseStep_span srcLen toks st tbl h hst
    unfold parseLoop
    generalize parseStep srcLen toks st tbl = r at hs ⊢
    obtain ⟨ps, tbl'⟩ := r
    cases ps with
    | done r =>
      cases r with
      | ok air => exact hs
      | diag k s => trivial
      | panic s => trivial
    | more toks' st' => exact ih toks' st' tbl' hs.1 hs.2

theorem parse_span (feat : Option Bool) (tbl : SymTab) (src : List Char) :
    ResAirSpan src (parse feat tbl src).1 := by
  have hp := preprocess_span feat src
  unfold parse
  generalize preprocess feat src = r at hp ⊢
  cases r with
  | panic s => trivial
  | diag k s => trivial
  | ok toks => exact parseLoop_span _ _ toks _ tbl hp ⟨Bdy.zero src, by simp⟩

/-! ### `backpatch` keeps spans -/

theorem backpatch_span {tbl : SymTab} {a a' : AsmLine} (h : a.backpatch tbl = some a') :
    a'.span = a.span := by
  unfold AsmLine.backpatch at h
  split at h
  · cases h; rfl
  · split at h
    · cases h; rfl
    · cases h

theorem backpatchAll_span {tbl : SymTab} : ∀ {l l' : List AsmLine},
    backpatchAll tbl l = some l' → ∀ a' ∈ l', ∃ a ∈ l, a'.span = a.span := by
  intro l
  induction l with
  | nil => intro l' h; simp [backpatchAll] at h; subst h; simp
  | cons a rest ih =>
    intro l' h
    unfold backpatchAll at h
    split at h
    · cases h
    · rename_i a1 ha
      split at h
      · cases h
      · rename_i rest' hr
        cases h
        intro x hx
        rcases List.mem_cons.mp hx with rfl | hx
        · exact ⟨a, List.mem_cons_self, backpatch_span ha⟩
        · obtain ⟨y, hy, e⟩ := ih hr x hx
          exact ⟨y, List.mem_cons_of_mem _ hy, e⟩

end Lace.Asm

namespace Lace.Asm
open Lace.Dbg

/-! ### Slicing at character boundaries -/

theorem dropBytes_prefix : ∀ (pre post : List Char), dropBytes (pre ++ post) (utf8Len pre) = some post := by
  intro pre
  induction pre with
  | nil => intro post; cases post <;> rfl
  | cons c pre ih =>
    intro post
    have hc := utf8Size_pos' c
    cases hn : utf8Len (c :: pre) with
    | zero => simp only [utf8Len] at hn; omega
    | succ n =>
      simp only [utf8Len] at hn
      show (if c.utf8Size ≤ n + 1 then dropBytes (pre ++ post) (n + 1 - c.utf8Size) else none) = _
      rw [if_pos (by omega)]
      have : n + 1 - c.utf8Size = utf8Len pre := by omega
      rw [this]
      exact ih post

theorem takeBytes_prefix : ∀ (mid post : List Char), takeBytes (mid ++ post) (utf8Len mid) = some mid := by
  intro mid
  induction mid with
  | nil => intro post; cases post <;> rfl
  | cons c mid ih =>
    intro post
    have hc := utf8Size_pos' c
    cases hn : utf8Len (c :: mid) with
    | zero => simp only [utf8Len] at hn; omega
    | succ n =>
      simp only [utf8Len] at hn
      show (if c.utf8Size ≤ n + 1 then (takeBytes (mid ++ post) (n + 1 - c.utf8Size)).map (c :: ·) else none) = _
      rw [if_pos (by omega)]
      have : n + 1 - c.utf8Size = utf8Len mid := by omega
      rw [this, ih post]
      rfl

/-- of two prefixes of one text, the one with fewer bytes is a prefix of the other -/
theorem prefix_of_utf8Len_le : ∀ (pre post pre2 post2 : List Char),
    pre ++ post = pre2 ++ post2 → utf8Len pre ≤ utf8Len pre2 → ∃ mid, pre2 = pre ++ mid := by
  intro pre
  induction pre with
  | nil => intro post pre2 post2 _ _; exact ⟨pre2, rfl⟩
  | cons c pre ih =>
    intro post pre2 post2 he hle
    cases pre2 with
    | nil =>
      have := utf8Size_pos' c
      simp only [utf8Len] at hle; omega
    | cons c2 pre2 =>
      simp only [List.cons_append, List.cons.injEq] at he
      obtain ⟨rfl, he⟩ := he
      simp only [utf8Len] at hle
      obtain ⟨mid, hm⟩ := ih post pre2 post2 he (by omega)
      exact ⟨mid, by rw [hm]; rfl⟩

/-- **A span whose two ends are character boundaries of the text can be sliced out of it.** -/
theorem sliceBytes_of_bdy {src : List Char} {o l : Nat} (h1 : Bdy src o) (h2 : Bdy src (o + l)) :
    ∃ t, sliceBytes src o l = some t := by
  obtain ⟨pre, post, e1, e2⟩ := h1
  obtain ⟨pre2, post2, e3, e4⟩ := h2
  obtain ⟨mid, hm⟩ := prefix_of_utf8Len_le pre post pre2 post2 (by rw [← e1, ← e3]) (by omega)
  subst hm
  have hpost : post = mid ++ post2 := by
    rw [e1, List.append_assoc] at e3
    exact List.append_cancel_left e3
  have hl : utf8Len mid = l := by rw [utf8Len_append] at e4; omega
  refine ⟨mid, ?_⟩
  unfold sliceBytes
  rw [e1, ← e2, dropBytes_prefix]
  simp only []
  rw [hpost, ← hl, takeBytes_prefix]

/-- Every statement span of a successfully assembled image starts and ends on a character
boundary of the source. -/
theorem assemble_spans_bdy (feat : Option Bool) (tbl : SymTab) (src : List Char) (img : Image)
    (tbl' : SymTab) (h : assembleWith feat tbl src = (.ok img, tbl')) :
    ∀ p ∈ img.spans, Bdy src p.1 ∧ Bdy src (p.1 + p.2) := by
  have hp := parse_span feat tbl src
  unfold assembleWith at h
  generalize parse feat tbl src = r at hp h
  obtain ⟨r, tbl1⟩ := r
  cases r with
  | panic s => simp at h
  | diag k s => simp at h
  | ok air =>
    simp only [] at h
    split at h
    · simp at h
    · rename_i stmts hb
      split at h
      · simp at h
      · simp at h
      · simp only [Prod.mk.injEq, Outcome.ok.injEq] at h
        obtain ⟨rfl, _⟩ := h
        intro p hp'
        simp only [List.mem_map] at hp'
        obtain ⟨a', ha', rfl⟩ := hp'
        obtain ⟨a, ha, e⟩ := backpatchAll_span hb a' ha'
        rw [e]
        exact hp a ha

end Lace.Asm
