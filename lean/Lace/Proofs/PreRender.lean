/-
  The preprocessor on rendered text (C01 stage 2/3): `TextRel feat trail text es` says that `text`
  is a sequence of separator-and-token pieces followed by `trail`, grouped the way the preprocessor
  consumes them (a plain token; `.break`; `.fill` / `.blkw` / `.stringz` with their operand), and
  `es` is the token stream the parser must receive.  `preprocess_textRel`: on such a text
  `preprocess` returns tokens matching `es` (`.fill/.blkw/.stringz` expanded to data words, `.break`
  turned into the breakpoint token, `.orig` kept, white space and comments dropped).

  Offsets (C17): the relation also carries the byte offset `pos` at which `text` begins and the list
  `sps` of the spans the tokens must get — (offset of the first byte, byte length of the spelling) for
  a plain token, the joined span of directive and operand for every data word.
  `preprocess_textRel_spans`: the tokens have exactly these spans and stand in reading order (`PosOk`).
-/
import Lace.Proofs.LexGap
import Lace.Proofs.TextTokens
import Lace.Proofs.TokPos
set_option linter.unusedSimpArgs false
namespace Lace.C01
open Lace.Asm Lace.Spec Lace.C04

def RealKind (k : TokenKind) : Prop := k ≠ .whitespace ∧ k ≠ .comment

theorem mkTok_real {k : TokenKind} (hk : RealKind k) (pos : Nat) (s rest : List Char) :
    RealTok (mkTok k pos s rest) := ⟨hk.1, hk.2⟩

/-- a separator `sep` and a token spelled `s` of kind `k`, in front of `tail` -/
structure Piece (feat : Option Bool) (sep s : List Char) (k : TokenKind) (tail : List Char) : Prop where
  gap : gapAux false false sep = true
  lex : Lexes feat s k
  real : RealKind k
  ne : s ≠ []
  delim : Delim tail

theorem Lexes.head_not_ws {feat : Option Bool} {s : List Char} {k : TokenKind} (h : Lexes feat s k)
    (hk : RealKind k) (rest : List Char) : ∀ c r, s ++ rest = c :: r → s ≠ [] → isWs c = false := by
  intro c r e hne
  cases s with
  | nil => exact (hne rfl).elim
  | cons a s' =>
    simp only [List.cons_append, List.cons.injEq] at e
    rw [← e.1]
    cases hw : isWs a with
    | false => rfl
    | true =>
      exfalso
      have h1 := h 0 [] trivial
      rw [List.append_nil, advanceToken_ws feat 0 a s' hw] at h1
      simp only [mkTok, LexStep.tok.injEq, Token.mk.injEq] at h1
      exact hk.1 h1.1.1.symm

/-- **`advance_real` on a piece**: the separator is skipped and the token is read. -/
theorem Piece.advance {feat : Option Bool} {sep s : List Char} {k : TokenKind} {tail : List Char}
    (h : Piece feat sep s k tail) (pos : Nat) :
    advanceReal feat pos (sep ++ (s ++ tail)) = mkTok k (pos + utf8Len sep) s tail := by
  unfold advanceReal
  rw [advanceRealLoop_gap feat false (s ++ tail) (by intro e; cases e)
    (fun c r e => h.lex.head_not_ws h.real tail c r e h.ne)
    (fun pos' => by rw [h.lex pos' tail h.delim]; exact mkTok_real h.real _ _ _)
    sep.length sep (Nat.le_refl _) h.gap _ pos (by simp)]
  exact h.lex _ tail h.delim

/-- at the end of the text `advance_real` answers `Eof` -/
theorem advanceReal_eof (feat : Option Bool) (pos : Nat) (trail : List Char)
    (h : gapAux true false trail = true) :
    advanceReal feat pos trail =
      .tok { kind := .eof, span := Span.dummy, text := [] } (pos + utf8Len trail) [] := by
  unfold advanceReal
  have := advanceRealLoop_gap feat true [] (fun _ => rfl) (by intro c r e; cases e)
    (fun pos' => by simp [advanceToken, RealTok]) trail.length trail (Nat.le_refl _) h trail pos (Nat.le_refl _)
  rw [List.append_nil] at this
  rw [this]
  rfl

/-! ### one iteration of the preprocessor -/

/-- token kinds the preprocessor passes on unchanged -/
def isPlain : TokenKind → Bool
  | .label | .instr _ | .trap _ | .lit _ | .reg _ | .dir .orig => true
  | _ => false

theorem isPlain_real {k : TokenKind} (h : isPlain k = true) : RealKind k := by
  constructor <;> (intro e; subst e; cases h)

theorem preprocessStep_plain {feat : Option Bool} {sep s : List Char} {k : TokenKind} {tail : List Char}
    (h : Piece feat sep s k tail) (hp : isPlain k = true) (pos : Nat) (acc : List Token) :
    preprocessStep feat pos (sep ++ (s ++ tail)) acc =
      .more (pos + utf8Len sep + utf8Len s) tail
        ({ kind := k, span := ⟨pos + utf8Len sep, utf8Len s⟩, text := s } :: acc) := by
  unfold preprocessStep
  rw [h.advance pos]
  simp only [mkTok]
  cases k with
  | dir d => cases d <;> first | rfl | cases hp
  | label => rfl
  | instr _ => rfl
  | trap _ => rfl
  | lit _ => rfl
  | reg _ => rfl
  | byte _ => cases hp
  | breakpoint => cases hp
  | whitespace => cases hp
  | comment => cases hp
  | eof => cases hp

theorem preprocessStep_break {feat : Option Bool} {sep s : List Char} {tail : List Char}
    (h : Piece feat sep s (.dir .break_) tail) (pos : Nat) (acc : List Token) :
    preprocessStep feat pos (sep ++ (s ++ tail)) acc =
      .more (pos + utf8Len sep + utf8Len s) tail
        ({ kind := .breakpoint, span := ⟨pos + utf8Len sep, utf8Len s⟩, text := [] } :: acc) := by
  unfold preprocessStep
  rw [h.advance pos]
  rfl

/-- the joined span of a token and a later one: from the start of the first to the end of the second -/
theorem join?_piece (p a g b : Nat) : (Span.mk p a).join? (Span.mk (p + a + g) b) = some ⟨p, a + g + b⟩ := by
  unfold Span.join? Span.stop
  have h1 : min p (p + a + g) = p := Nat.min_eq_left (by omega)
  have h2 : max (p + a) (p + a + g + b) = p + a + g + b := Nat.max_eq_right (by omega)
  simp only [h1, h2]
  rw [if_neg (by omega)]
  have : p + a + g + b - p = a + g + b := by omega
  rw [this]

theorem utf8Len_pos_of_ne {s : List Char} (h : s ≠ []) : 0 < utf8Len s := by
  cases s with
  | nil => exact (h rfl).elim
  | cons c cs => have := utf8Size_pos' c; simp only [utf8Len]; omega

theorem preprocessStep_fill {feat : Option Bool} {sep1 s1 sep2 s2 : List Char} {k : TokenKind} {w : Word}
    {tail : List Char} (h1 : Piece feat sep1 s1 (.dir .fill) (sep2 ++ (s2 ++ tail)))
    (h2 : Piece feat sep2 s2 k tail) (hw : litWord k = some w) (pos : Nat) (acc : List Token) :
    preprocessStep feat pos (sep1 ++ (s1 ++ (sep2 ++ (s2 ++ tail)))) acc =
      .more (pos + utf8Len sep1 + utf8Len s1 + utf8Len sep2 + utf8Len s2) tail
        (byteTok w ⟨pos + utf8Len sep1, utf8Len s1 + utf8Len sep2 + utf8Len s2⟩ :: acc) := by
  unfold preprocessStep
  rw [h1.advance pos]
  simp only [mkTok]
  rw [h2.advance]
  simp only [mkTok, join?_piece]
  cases k with
  | lit l =>
    cases l with
    | hex v => simp only [litWord, Option.some.injEq] at hw; subst hw; rfl
    | dec v => simp only [litWord, Option.some.injEq] at hw; subst hw; rfl
    | str => cases hw
  | _ => cases hw

theorem preprocessStep_blkw {feat : Option Bool} {sep1 s1 sep2 s2 : List Char} {k : TokenKind} {w : Word}
    {tail : List Char} (h1 : Piece feat sep1 s1 (.dir .blkw) (sep2 ++ (s2 ++ tail)))
    (h2 : Piece feat sep2 s2 k tail) (hw : litWord k = some w) (pos : Nat) (acc : List Token) :
    preprocessStep feat pos (sep1 ++ (s1 ++ (sep2 ++ (s2 ++ tail)))) acc =
      .more (pos + utf8Len sep1 + utf8Len s1 + utf8Len sep2 + utf8Len s2) tail
        (List.replicate w.toNat (byteTok 0 ⟨pos + utf8Len sep1, utf8Len s1 + utf8Len sep2 + utf8Len s2⟩) ++ acc) := by
  unfold preprocessStep
  rw [h1.advance pos]
  simp only [mkTok]
  rw [h2.advance]
  simp only [mkTok, join?_piece]
  cases k with
  | lit l =>
    cases l with
    | hex v => simp only [litWord, Option.some.injEq] at hw; subst hw; rfl
    | dec v => simp only [litWord, Option.some.injEq] at hw; subst hw; rfl
    | str => cases hw
  | _ => cases hw

theorem stripQuotes_body (body : List Char) : stripQuotes ('"' :: (body ++ ['"'])) = some body := by
  unfold stripQuotes
  have h1 : ('"' : Char).utf8Size = 1 := by decide
  simp [h1]

/-- the specification's escape processing is the model's -/
theorem unescape_eq : ∀ body : List Char, Asm.unescape body = Spec.unescape body := by
  intro body
  fun_induction Spec.unescape body with
  | case1 => rfl
  | case2 c =>
    unfold Asm.unescape
    split
    · rename_i h; simp only [beq_iff_eq] at h; subst h; rfl
    · rfl
  | case3 d rest e he ih =>
    have : unescapeChar d = [e] := by
      unfold escapeChar at he
      unfold unescapeChar
      split at he
      · rename_i h; subst h; cases he; rfl
      · split at he
        · rename_i _ h; subst h; cases he; rfl
        · split at he
          · rename_i _ _ h; subst h; cases he; rfl
          · split at he
            · rename_i _ _ _ h; subst h; cases he; rfl
            · split at he
              · rename_i _ _ _ _ h; subst h; cases he; rfl
              · cases he
    rw [Asm.unescape]
    simp only [beq_self_eq_true, if_true, this, ih]
    rfl
  | case4 d rest he ih =>
    have : unescapeChar d = ['\\', d] := by
      unfold escapeChar at he
      unfold unescapeChar
      split at he
      · cases he
      · rename_i h1
        split at he
        · cases he
        · rename_i h2
          split at he
          · cases he
          · rename_i h3
            split at he
            · cases he
            · rename_i h4
              split at he
              · cases he
              · rename_i h5
                simp [h1, h2, h3, h4, h5]
    rw [Asm.unescape]
    simp only [beq_self_eq_true, if_true, this, ih]
    rfl
  | case5 c d rest hc ih =>
    rw [Asm.unescape]
    have : (c == '\\') = false := by simpa using hc
    simp only [this, Bool.false_eq_true, if_false, ih]

theorem preprocessStep_stringz {feat : Option Bool} {sep1 s1 sep2 body : List Char}
    {tail : List Char} (h1 : Piece feat sep1 s1 (.dir .stringz) (sep2 ++ (('"' :: (body ++ ['"'])) ++ tail)))
    (h2 : Piece feat sep2 ('"' :: (body ++ ['"'])) (.lit .str) tail) (pos : Nat) (acc : List Token) :
    preprocessStep feat pos (sep1 ++ (s1 ++ (sep2 ++ (('"' :: (body ++ ['"'])) ++ tail)))) acc =
      .more (pos + utf8Len sep1 + utf8Len s1 + utf8Len sep2 + utf8Len ('"' :: (body ++ ['"']))) tail
        (byteTok 0 ⟨pos + utf8Len sep1, utf8Len s1 + utf8Len sep2 + utf8Len ('"' :: (body ++ ['"']))⟩ ::
        (((Spec.unescape body).map (fun c => byteTok (charWord c)
          ⟨pos + utf8Len sep1, utf8Len s1 + utf8Len sep2 + utf8Len ('"' :: (body ++ ['"']))⟩)).reverse ++ acc)) := by
  unfold preprocessStep
  rw [h1.advance pos]
  simp only [mkTok]
  rw [h2.advance]
  simp only [mkTok, join?_piece, stripQuotes_body, unescape_eq]

theorem preprocessStep_eof (feat : Option Bool) (pos : Nat) (trail : List Char) (acc : List Token)
    (h : gapAux true false trail = true) :
    preprocessStep feat pos trail acc = .done (.ok acc.reverse) := by
  unfold preprocessStep
  rw [advanceReal_eof feat pos trail h]

/-- `.end` in some mixture of letter cases -/
def EndSpelled (s : List Char) : Prop :=
  ∃ e n d, s = ['.', e, n, d] ∧ (e = 'e' ∨ e = 'E') ∧ (n = 'n' ∨ n = 'N') ∧ (d = 'd' ∨ d = 'D')

/-- **`.end`**, followed by the end of the text or by a character that cannot continue it -/
theorem lexes_end (feat : Option Bool) (pos : Nat) (s junk : List Char) (hs : EndSpelled s)
    (hj : ∀ c r, junk = c :: r → isId c = false) :
    advanceToken feat pos (s ++ junk) = mkTok (.dir .end_) pos s junk := by
  obtain ⟨e, n, d, rfl, he, hn, hd⟩ := hs
  have w1 : isWs '.' = false := by decide
  have w2 : isId '.' = false := by decide
  have hid : ∀ x ∈ [e, n, d], isId x = true := by
    intro x hx
    simp only [List.mem_cons, List.not_mem_nil, or_false] at hx
    rcases hx with rfl | rfl | rfl
    · rcases he with rfl | rfl <;> decide
    · rcases hn with rfl | rfl <;> decide
    · rcases hd with rfl | rfl <;> decide
  obtain ⟨t1, t2⟩ := takeWhile_run isId [e, n, d] junk hid hj
  have hl : checkDirective (String.ofList (lowerAll ['.', e, n, d])) = some .end_ := by
    rcases he with rfl | rfl <;> rcases hn with rfl | rfl <;> rcases hd with rfl | rfl <;> decide
  have e1 : ['.', e, n, d] ++ junk = '.' :: ([e, n, d] ++ junk) := rfl
  rw [e1]
  simp only [advanceToken, dir, t1, t2, hl]
  simp [w1, w2]

/-- the text ends the preprocessor's loop: only white space and comments up to the end of the text,
or up to `.end` -/
def TrailEnds (feat : Option Bool) (trail : List Char) : Prop :=
  ∀ pos acc, preprocessStep feat pos trail acc = .done (.ok acc.reverse)

theorem trailEnds_eof (feat : Option Bool) (trail : List Char) (h : gapAux true false trail = true) :
    TrailEnds feat trail := fun pos acc => preprocessStep_eof feat pos trail acc h

theorem trailEnds_end (feat : Option Bool) (g0 s junk : List Char) (hg : gapAux false false g0 = true)
    (hs : EndSpelled s) (hj : ∀ c r, junk = c :: r → isId c = false) :
    TrailEnds feat (g0 ++ (s ++ junk)) := by
  intro pos acc
  have hne : s ≠ [] := by obtain ⟨e, n, d, rfl, _⟩ := hs; simp
  have hhead : ∀ c r, s ++ junk = c :: r → isWs c = false := by
    obtain ⟨e, n, d, rfl, _⟩ := hs
    intro c r h
    simp only [List.cons_append, List.cons.injEq] at h
    rw [← h.1]; decide
  have hadv : advanceReal feat pos (g0 ++ (s ++ junk)) = mkTok (.dir .end_) (pos + utf8Len g0) s junk := by
    unfold advanceReal
    rw [advanceRealLoop_gap feat false (s ++ junk) (by intro e; cases e) hhead
      (fun pos' => by rw [lexes_end feat pos' s junk hs hj]; exact ⟨by simp, by simp⟩)
      g0.length g0 (Nat.le_refl _) hg _ pos (by simp)]
    exact lexes_end feat _ s junk hs hj
  unfold preprocessStep
  rw [hadv]
  rfl

/-! ### a whole text -/

/-- the data words of a string body, as expected tokens -/
def strETok (body : List Char) : List ETok :=
  (Spec.unescape body).map (fun c => ETok.byte (BitVec.ofNat 16 c.toNat)) ++ [.byte 0#16]

/-- `text`, which begins at byte offset `pos` of the source, = pieces grouped as the preprocessor
consumes them, then `trail`; `es` = what the parser must receive, `sps` = the spans of these tokens. -/
inductive TextRel (feat : Option Bool) (trail : List Char) : Nat → List Char → List ETok → List Span → Prop
  | nil {pos : Nat} : TextRel feat trail pos trail [] []
  | plain {pos : Nat} {sep s : List Char} {k : TokenKind} {tail : List Char} {e : ETok} {es : List ETok}
      {sps : List Span} :
      Piece feat sep s k tail → isPlain k = true → (∀ sp, e.Matches ⟨k, sp, s⟩) →
      TextRel feat trail (pos + utf8Len sep + utf8Len s) tail es sps →
      TextRel feat trail pos (sep ++ (s ++ tail)) (e :: es) (⟨pos + utf8Len sep, utf8Len s⟩ :: sps)
  | brk {pos : Nat} {sep s : List Char} {tail : List Char} {es : List ETok} {sps : List Span} :
      Piece feat sep s (.dir .break_) tail →
      TextRel feat trail (pos + utf8Len sep + utf8Len s) tail es sps →
      TextRel feat trail pos (sep ++ (s ++ tail)) (.brk :: es) (⟨pos + utf8Len sep, utf8Len s⟩ :: sps)
  | fill {pos : Nat} {sep1 s1 sep2 s2 : List Char} {k : TokenKind} {w : Word} {tail : List Char} {es : List ETok}
      {sps : List Span} :
      Piece feat sep1 s1 (.dir .fill) (sep2 ++ (s2 ++ tail)) → Piece feat sep2 s2 k tail →
      litWord k = some w →
      TextRel feat trail (pos + utf8Len sep1 + utf8Len s1 + utf8Len sep2 + utf8Len s2) tail es sps →
      TextRel feat trail pos (sep1 ++ (s1 ++ (sep2 ++ (s2 ++ tail)))) (.byte w :: es)
        (⟨pos + utf8Len sep1, utf8Len s1 + utf8Len sep2 + utf8Len s2⟩ :: sps)
  | blkw {pos : Nat} {sep1 s1 sep2 s2 : List Char} {k : TokenKind} {w : Word} {tail : List Char} {es : List ETok}
      {sps : List Span} :
      Piece feat sep1 s1 (.dir .blkw) (sep2 ++ (s2 ++ tail)) → Piece feat sep2 s2 k tail →
      litWord k = some w →
      TextRel feat trail (pos + utf8Len sep1 + utf8Len s1 + utf8Len sep2 + utf8Len s2) tail es sps →
      TextRel feat trail pos (sep1 ++ (s1 ++ (sep2 ++ (s2 ++ tail))))
        (List.replicate w.toNat (.byte 0#16) ++ es)
        (List.replicate w.toNat ⟨pos + utf8Len sep1, utf8Len s1 + utf8Len sep2 + utf8Len s2⟩ ++ sps)
  | stringz {pos : Nat} {sep1 s1 sep2 body : List Char} {tail : List Char} {es : List ETok} {sps : List Span} :
      Piece feat sep1 s1 (.dir .stringz) (sep2 ++ (('"' :: (body ++ ['"'])) ++ tail)) →
      Piece feat sep2 ('"' :: (body ++ ['"'])) (.lit .str) tail →
      TextRel feat trail (pos + utf8Len sep1 + utf8Len s1 + utf8Len sep2 + utf8Len ('"' :: (body ++ ['"']))) tail es sps →
      TextRel feat trail pos (sep1 ++ (s1 ++ (sep2 ++ (('"' :: (body ++ ['"'])) ++ tail)))) (strETok body ++ es)
        (List.replicate (strETok body).length
          ⟨pos + utf8Len sep1, utf8Len s1 + utf8Len sep2 + utf8Len ('"' :: (body ++ ['"']))⟩ ++ sps)

theorem forall₂_bytes (sp : Span) : ∀ ws : List Word,
    List.Forall₂ ETok.Matches (ws.map ETok.byte) (ws.map (fun w => byteTok w sp)) := by
  intro ws
  induction ws with
  | nil => exact .nil
  | cons w r ih => exact .cons rfl ih

theorem forall₂_app {α β : Type} {R : α → β → Prop} : ∀ {a1 : List α} {b1 : List β} {a2 : List α} {b2 : List β},
    List.Forall₂ R a1 b1 → List.Forall₂ R a2 b2 → List.Forall₂ R (a1 ++ a2) (b1 ++ b2) := by
  intro a1 b1 a2 b2 h1 h2
  induction h1 with
  | nil => exact h2
  | cons h _ ih => exact .cons h ih

theorem isPlain_isByte {k : TokenKind} (h : isPlain k = true) (sp : Span) (s : List Char) :
    (Token.mk k sp s).isByte = false := by
  cases k <;> first | rfl | cases h

/-- **The preprocessor on a rendered text**: with enough fuel (`preprocess` takes the length of the
text plus one) the loop returns what it had (`acc`) followed by tokens that match `es`, have the spans
`sps` and stand in reading order behind `pos`. -/
theorem preprocessLoop_textRel (feat : Option Bool) (trail : List Char)
    (htr : TrailEnds feat trail) : ∀ (pos : Nat) (text : List Char) (es : List ETok) (sps : List Span),
    TextRel feat trail pos text es sps → ∀ (fuel : Nat) (acc : List Token), text.length < fuel →
      ∃ new, preprocessLoop feat fuel pos text acc = .ok (acc.reverse ++ new) ∧
        List.Forall₂ ETok.Matches es new ∧ new.map (·.span) = sps ∧ PosOk pos new := by
  intro pos text es sps h
  induction h with
  | nil =>
    intro fuel acc hf
    cases fuel with
    | zero => omega
    | succ f =>
      refine ⟨[], ?_, .nil, rfl, trivial⟩
      simp only [preprocessLoop, htr _ acc, List.append_nil]
  | @plain pos sep s k tail e es sps hp hk he _ ih =>
    intro fuel acc hf
    cases fuel with
    | zero => omega
    | succ f =>
      have hs : 0 < s.length := List.length_pos_iff.mpr hp.ne
      obtain ⟨new, h1, h2, h3, h4⟩ := ih f
        ({ kind := k, span := ⟨pos + utf8Len sep, utf8Len s⟩, text := s } :: acc)
        (by simp only [List.length_append] at hf; omega)
      refine ⟨({ kind := k, span := ⟨pos + utf8Len sep, utf8Len s⟩, text := s } : Token) :: new, ?_,
        .cons (he _) h2, by rw [List.map_cons, h3], ?_⟩
      · simp only [preprocessLoop, preprocessStep_plain hp hk, h1, List.reverse_cons, List.append_assoc,
          List.singleton_append]
      · refine ⟨Nat.le_add_right _ _, utf8Len_pos_of_ne hp.ne, ?_⟩
        simp only [isPlain_isByte hk, Bool.false_eq_true, if_false]
        exact h4
  | @brk pos sep s tail es sps hp _ ih =>
    intro fuel acc hf
    cases fuel with
    | zero => omega
    | succ f =>
      have hs : 0 < s.length := List.length_pos_iff.mpr hp.ne
      obtain ⟨new, h1, h2, h3, h4⟩ := ih f
        ({ kind := .breakpoint, span := ⟨pos + utf8Len sep, utf8Len s⟩, text := [] } :: acc)
        (by simp only [List.length_append] at hf; omega)
      refine ⟨({ kind := .breakpoint, span := ⟨pos + utf8Len sep, utf8Len s⟩, text := [] } : Token) :: new, ?_,
        .cons rfl h2, by rw [List.map_cons, h3], ?_⟩
      · simp only [preprocessLoop, preprocessStep_break hp, h1, List.reverse_cons, List.append_assoc,
          List.singleton_append]
      · exact ⟨Nat.le_add_right _ _, utf8Len_pos_of_ne hp.ne, h4⟩
  | @fill pos sep1 s1 sep2 s2 k w tail es sps hp1 hp2 hw _ ih =>
    intro fuel acc hf
    cases fuel with
    | zero => omega
    | succ f =>
      have hs1 : 0 < s1.length := List.length_pos_iff.mpr hp1.ne
      have hl1 := utf8Len_pos_of_ne hp1.ne
      obtain ⟨new, h1, h2, h3, h4⟩ := ih f
        (byteTok w ⟨pos + utf8Len sep1, utf8Len s1 + utf8Len sep2 + utf8Len s2⟩ :: acc)
        (by simp only [List.length_append] at hf; omega)
      refine ⟨byteTok w ⟨pos + utf8Len sep1, utf8Len s1 + utf8Len sep2 + utf8Len s2⟩ :: new, ?_, .cons rfl h2,
        by rw [List.map_cons, h3]; rfl, ?_⟩
      · simp only [preprocessLoop, preprocessStep_fill hp1 hp2 hw, h1, List.reverse_cons, List.append_assoc,
          List.singleton_append]
      · refine ⟨Nat.le_add_right _ _, by show 0 < utf8Len s1 + utf8Len sep2 + utf8Len s2; omega, ?_⟩
        simp only [byteTok_isByte, if_true]
        exact h4.mono (by omega)
  | @blkw pos sep1 s1 sep2 s2 k w tail es sps hp1 hp2 hw _ ih =>
    intro fuel acc hf
    cases fuel with
    | zero => omega
    | succ f =>
      have hs1 : 0 < s1.length := List.length_pos_iff.mpr hp1.ne
      have hl1 := utf8Len_pos_of_ne hp1.ne
      obtain ⟨new, h1, h2, h3, h4⟩ := ih f
        (List.replicate w.toNat (byteTok 0 ⟨pos + utf8Len sep1, utf8Len s1 + utf8Len sep2 + utf8Len s2⟩) ++ acc)
        (by simp only [List.length_append] at hf; omega)
      refine ⟨List.replicate w.toNat (byteTok 0 ⟨pos + utf8Len sep1, utf8Len s1 + utf8Len sep2 + utf8Len s2⟩) ++ new,
        ?_, forall₂_app ?_ h2, ?_, ?_⟩
      · simp only [preprocessLoop, preprocessStep_blkw hp1 hp2 hw, h1, List.reverse_append, List.reverse_replicate,
          List.append_assoc]
      · have := forall₂_bytes ⟨pos + utf8Len sep1, utf8Len s1 + utf8Len sep2 + utf8Len s2⟩
          (List.replicate w.toNat 0#16)
        simpa using this
      · rw [List.map_append, h3, List.map_replicate]; rfl
      · apply PosOk.append_bytes (h4.mono (by omega))
        intro t ht
        rw [List.eq_of_mem_replicate ht]
        exact ⟨rfl, Nat.le_add_right _ _, by show 0 < utf8Len s1 + utf8Len sep2 + utf8Len s2; omega⟩
  | @stringz pos sep1 s1 sep2 body tail es sps hp1 hp2 _ ih =>
    intro fuel acc hf
    cases fuel with
    | zero => omega
    | succ f =>
      have hs1 : 0 < s1.length := List.length_pos_iff.mpr hp1.ne
      have hl1 := utf8Len_pos_of_ne hp1.ne
      generalize hsp : (⟨pos + utf8Len sep1, utf8Len s1 + utf8Len sep2 + utf8Len ('"' :: (body ++ ['"']))⟩ : Span) = sp
        at ih ⊢
      have hstep := preprocessStep_stringz hp1 hp2 pos acc
      rw [hsp] at hstep
      obtain ⟨new, h1, h2, h3, h4⟩ := ih f
        (byteTok 0 sp :: (((Spec.unescape body).map (fun c => byteTok (charWord c) sp)).reverse ++ acc))
        (by simp only [List.length_append] at hf; omega)
      refine ⟨((Spec.unescape body).map (fun c => byteTok (charWord c) sp) ++ [byteTok 0 sp]) ++ new, ?_,
        forall₂_app ?_ h2, ?_, ?_⟩
      · simp only [preprocessLoop, hstep, h1, List.reverse_cons, List.reverse_append, List.reverse_reverse,
          List.append_assoc, List.singleton_append]
      · have := forall₂_bytes sp ((Spec.unescape body).map charWord ++ [0#16])
        simpa [strETok, charWord, Function.comp_def] using this
      · rw [List.map_append, h3]
        congr 1
        rw [List.eq_replicate_iff]
        refine ⟨by simp [strETok], ?_⟩
        intro b hb
        obtain ⟨t, ht, rfl⟩ := List.mem_map.mp hb
        rcases List.mem_append.mp ht with ht | ht
        · obtain ⟨c, _, rfl⟩ := List.mem_map.mp ht; rfl
        · rw [List.mem_singleton.mp ht]; rfl
      · apply PosOk.append_bytes (h4.mono (by omega))
        intro t ht
        have ht' : t.span = sp ∧ t.isByte = true := by
          rcases List.mem_append.mp ht with ht | ht
          · obtain ⟨c, _, rfl⟩ := List.mem_map.mp ht; exact ⟨rfl, rfl⟩
          · rw [List.mem_singleton.mp ht]; exact ⟨rfl, rfl⟩
        rw [ht'.1, ← hsp]
        exact ⟨ht'.2, Nat.le_add_right _ _, by show 0 < utf8Len s1 + utf8Len sep2 + _; omega⟩

/-- … hence `preprocess`: the tokens, their spans and their order. -/
theorem preprocess_textRel_spans (feat : Option Bool) (trail text : List Char) (es : List ETok) (sps : List Span)
    (htr : TrailEnds feat trail) (h : TextRel feat trail 0 text es sps) :
    ∃ toks, preprocess feat text = .ok toks ∧ List.Forall₂ ETok.Matches es toks ∧
      toks.map (·.span) = sps ∧ PosOk 0 toks := by
  obtain ⟨new, h1, h2⟩ := preprocessLoop_textRel feat trail htr 0 text es sps h (text.length + 1) [] (by omega)
  exact ⟨new, by simpa [preprocess] using h1, h2⟩

/-- … the tokens alone. -/
theorem preprocess_textRel (feat : Option Bool) (trail text : List Char) (es : List ETok) (sps : List Span)
    (htr : TrailEnds feat trail) (h : TextRel feat trail 0 text es sps) :
    ∃ toks, preprocess feat text = .ok toks ∧ List.Forall₂ ETok.Matches es toks := by
  obtain ⟨toks, h1, h2, _⟩ := preprocess_textRel_spans feat trail text es sps htr h
  exact ⟨toks, h1, h2⟩

end Lace.C01
