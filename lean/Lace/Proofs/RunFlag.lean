/-
  How the stack-feature flag enters the VM and the run loop (C18, VM side): `execute` reads the
  flag only under opcode 0xD, so a run that never fetches an opcode-0xD word is the same run
  under both settings; a flag-off run that does fetch one stops right there with exit status 1.
-/
import Lace.Props.C02
import Lace.Model.RunTrace
namespace Lace.Run
open Lace

theorem execute_flag_irrelevant (mi : Bool) (x : Word) (m : Machine) (w : World)
    (h : (x.extractLsb' 12 4).toNat ≠ 13) :
    VM.execute true mi x m w = VM.execute false mi x m w := by
  unfold VM.execute
  rw [opcode_eq]
  split <;> first | rfl | (rename_i heq; exact absurd heq h)

/-- no fetched word has opcode 0xD -/
def NoOpD (xs : List Word) : Prop := ∀ x ∈ xs, (x.extractLsb' 12 4).toNat ≠ 13

/-- A flag-off run that fetches no opcode-0xD word: result, fetch addresses and fetched words are
those of the flag-on run. -/
theorem loop_flag_irrelevant (mi : Bool) : ∀ (n : Nat) (m : Machine) (w : World),
    NoOpD (fetchedWords false mi n m w) →
    loop true mi n m w = loop false mi n m w ∧
    fetches true mi n m w = fetches false mi n m w ∧
    fetchedWords true mi n m w = fetchedWords false mi n m w := by
  intro n
  induction n with
  | zero => intro m w _; exact ⟨rfl, rfl, rfl⟩
  | succ n ih =>
    intro m w h
    cases hpc : (m.pc == 0xFFFF#16)
    rotate_left
    · simp only [loop, fetches, fetchedWords, hpc, if_true, and_self]
    · cases hb : checkPcBounds m with
      | lt => simp only [loop, fetches, fetchedWords, hpc, hb, and_self]
      | gt => simp only [loop, fetches, fetchedWords, hpc, hb, and_self]
      | eq =>
        by_cases hov : m.pc.toNat + 1 ≥ 65536
        · simp only [loop, fetches, fetchedWords, hpc, hb, hov, if_true, and_self]
        · simp only [fetchedWords, hpc, hb, hov, Bool.false_eq_true, if_false] at h
          simp only [loop, fetches, fetchedWords, hpc, hb, hov, Bool.false_eq_true, if_false]
          cases hr : VM.execute false mi (m.read m.pc) (m.setPC (m.pc + 1)) w with
          | ok m' w' =>
            rw [hr] at h
            rw [execute_flag_irrelevant mi _ _ _ (h _ List.mem_cons_self), hr]
            simp only []
            have ht : NoOpD (fetchedWords false mi n m' w') :=
              fun x hx' => h x (List.mem_cons_of_mem _ hx')
            obtain ⟨h1, h2, h3⟩ := ih m' w' ht
            exact ⟨h1, by rw [h2], by rw [h3]⟩
          | exit c w' =>
            rw [hr] at h
            rw [execute_flag_irrelevant mi _ _ _ (h _ List.mem_cons_self), hr]
            exact ⟨rfl, rfl, rfl⟩
          | panic s =>
            rw [hr] at h
            rw [execute_flag_irrelevant mi _ _ _ (h _ List.mem_cons_self), hr]
            exact ⟨rfl, rfl, rfl⟩

/-- A flag-off run that fetches an opcode-0xD word ends with exit status 1, nothing executed. -/
theorem loop_off_opD (mi : Bool) : ∀ (n : Nat) (m : Machine) (w : World) (x : Word),
    x ∈ fetchedWords false mi n m w → (x.extractLsb' 12 4).toNat = 13 →
    ∃ m' w', loop false mi n m w = .exit 1 m' w' := by
  intro n
  induction n with
  | zero => intro m w x hx; simp [fetchedWords] at hx
  | succ n ih =>
    intro m w x hx hd
    cases hpc : (m.pc == 0xFFFF#16)
    rotate_left
    · simp [fetchedWords, hpc] at hx
    · cases hb : checkPcBounds m with
      | lt => simp [fetchedWords, hpc, hb] at hx
      | gt => simp [fetchedWords, hpc, hb] at hx
      | eq =>
        by_cases hov : m.pc.toNat + 1 ≥ 65536
        · simp [fetchedWords, hpc, hb, hov] at hx
        · simp only [fetchedWords, hpc, hb, hov, Bool.false_eq_true, if_false] at hx
          simp only [loop, hpc, hb, hov, Bool.false_eq_true, if_false]
          by_cases hd0 : ((m.read m.pc).extractLsb' 12 4).toNat = 13
          · rw [C02.stack_off_stops mi _ _ _ hd0]
            exact ⟨_, _, rfl⟩
          · cases hr : VM.execute false mi (m.read m.pc) (m.setPC (m.pc + 1)) w with
            | ok m' w' =>
              rw [hr] at hx
              simp only [List.mem_cons] at hx
              rcases hx with hx | hx
              · rw [hx] at hd; exact absurd hd hd0
              · exact ih m' w' x hx hd
            | exit c w' =>
              rw [hr] at hx
              simp only [List.mem_singleton] at hx
              rw [hx] at hd; exact absurd hd hd0
            | panic s =>
              rw [hr] at hx
              simp only [List.mem_singleton] at hx
              rw [hx] at hd; exact absurd hd hd0

/-- `fetchedWords` lists one word per fetch address. -/
theorem fetchedWords_length (so mi : Bool) : ∀ (n : Nat) (m : Machine) (w : World),
    (fetchedWords so mi n m w).length = (fetches so mi n m w).length := by
  intro n
  induction n with
  | zero => intro m w; rfl
  | succ n ih =>
    intro m w
    cases hpc : (m.pc == 0xFFFF#16)
    rotate_left
    · simp only [fetches, fetchedWords, hpc, if_true]
    · cases hb : checkPcBounds m with
      | lt => simp only [fetches, fetchedWords, hpc, hb]
      | gt => simp only [fetches, fetchedWords, hpc, hb]
      | eq =>
        by_cases hov : m.pc.toNat + 1 ≥ 65536
        · simp only [fetches, fetchedWords, hpc, hb, hov, if_true]
        · simp only [fetches, fetchedWords, hpc, hb, hov, Bool.false_eq_true, if_false]
          cases VM.execute so mi (m.read m.pc) (m.setPC (m.pc + 1)) w with
          | ok m' w' => simp [ih m' w']
          | exit c w' => rfl
          | panic s => rfl

end Lace.Run
