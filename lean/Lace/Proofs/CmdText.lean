/-
  C14: byte-offset slicing of a `List Char` at offsets that are sums of character sizes.
-/
import Lace.Model.Cmd.Text
namespace Lace.C14
open Lace.Cmd

@[simp] theorem utf8Len_nil : utf8Len [] = 0 := rfl
@[simp] theorem utf8Len_cons (c : Char) (cs : List Char) :
    utf8Len (c :: cs) = c.utf8Size + utf8Len cs := rfl

theorem utf8Len_append (a b : List Char) : utf8Len (a ++ b) = utf8Len a + utf8Len b := by
  induction a with
  | nil => simp
  | cons c cs ih => simp [ih]; omega

theorem utf8Size_pos' (c : Char) : 1 ≤ c.utf8Size := Char.utf8Size_pos c

theorem utf8Len_eq_zero {s : List Char} (h : utf8Len s = 0) : s = [] := by
  cases s with
  | nil => rfl
  | cons c cs => have := utf8Size_pos' c; simp at h; omega

theorem dropBytes_zero (s : List Char) : dropBytes s 0 = some s := by
  cases s <;> rfl

theorem dropBytes_cons_add (c : Char) (cs : List Char) (n : Nat) :
    dropBytes (c :: cs) (c.utf8Size + n) = dropBytes cs n := by
  have := utf8Size_pos' c
  obtain ⟨k, hk⟩ : ∃ k, c.utf8Size + n = k + 1 := ⟨c.utf8Size + n - 1, by omega⟩
  rw [hk, dropBytes]
  have h1 : c.utf8Size ≤ k + 1 := by omega
  have h2 : k + 1 - c.utf8Size = n := by omega
  simp [h1, h2]

/-- `&(pre ++ rest)[len(pre)..] = rest` -/
theorem dropBytes_append (pre rest : List Char) :
    dropBytes (pre ++ rest) (utf8Len pre) = some rest := by
  induction pre with
  | nil => exact dropBytes_zero rest
  | cons c cs ih => simp only [List.cons_append, utf8Len_cons, dropBytes_cons_add, ih]

theorem takeBytes_zero (s : List Char) : takeBytes s 0 = some [] := by
  cases s <;> rfl

theorem takeBytes_cons_add (c : Char) (cs : List Char) (n : Nat) :
    takeBytes (c :: cs) (c.utf8Size + n) = (takeBytes cs n).map (c :: ·) := by
  have := utf8Size_pos' c
  obtain ⟨k, hk⟩ : ∃ k, c.utf8Size + n = k + 1 := ⟨c.utf8Size + n - 1, by omega⟩
  rw [hk, takeBytes]
  have h1 : c.utf8Size ≤ k + 1 := by omega
  have h2 : k + 1 - c.utf8Size = n := by omega
  simp [h1, h2]

/-- `&(mid ++ post)[..len(mid)] = mid` -/
theorem takeBytes_append (mid post : List Char) :
    takeBytes (mid ++ post) (utf8Len mid) = some mid := by
  induction mid with
  | nil => exact takeBytes_zero post
  | cons c cs ih => simp only [List.cons_append, utf8Len_cons, takeBytes_cons_add, ih, Option.map_some]

/-- `&(pre ++ mid ++ post)[len(pre) .. len(pre) + len(mid)] = mid` -/
theorem slice_append (pre mid post : List Char) :
    slice (pre ++ mid ++ post) (utf8Len pre) (utf8Len pre + utf8Len mid) = some mid := by
  unfold slice
  have h : utf8Len pre ≤ utf8Len pre + utf8Len mid := by omega
  simp only [h, if_true, List.append_assoc, dropBytes_append, Option.bind_some]
  have : utf8Len pre + utf8Len mid - utf8Len pre = utf8Len mid := by omega
  rw [this, takeBytes_append]

theorem splitAtBytes_append (a b : List Char) :
    splitAtBytes (a ++ b) (utf8Len a) = some (a, b) := by
  unfold splitAtBytes
  rw [takeBytes_append, dropBytes_append]

end Lace.C14
