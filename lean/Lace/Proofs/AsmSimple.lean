/-
  Lemmas for C15's `parseSimple_no_panic`: the debugger's statement parser (`preprocess_simple` +
  `parse_simple`, model `Asm.parseSimple`) never panics.

  * `advanceReal_kind` — the lexer never makes a `Byte` or `Breakpoint` token (those are made by
    the preprocessor of the whole-program path), so the two `unreachable!` arms of
    `preprocess_simple` are never reached;
  * `preprocessSimpleLoop_ok` — with fuel `> length rest` the loop never runs out of fuel (every
    token but the end of input consumes a character: `advanceReal_ok`), never panics, and the
    stream it returns holds no white space / comment / end-of-input / byte / breakpoint token
    (`TokSimple`); any directive token may occur;
  * `parseSimple_ok` — on such a stream `parse_instr` / `parse_trap` (`parseInstr_ok'`,
    `parseTrap_ok'` of `Proofs/AsmParse.lean`, which only need displayable tokens), the
    surplus-token check and the first-token dispatch of `parse_simple` never panic, and a
    diagnostic's label lies inside the text.
-/
import Lace.Proofs.AsmParse
namespace Lace.Asm

/-- Token kinds the lexer can produce: `Byte` and `Breakpoint` tokens are made by the preprocessor
of the whole-program path only. -/
def LexerKind : TokenKind → Prop
  | .byte _ => False
  | .breakpoint => False
  | _ => True

/-- The token of a lexer step (if any) has a kind the lexer can produce. -/
def LexKindOk : LexStep → Prop
  | .tok t _ _ => LexerKind t.kind
  | _ => True

theorem mkTok_kind {k : TokenKind} {pos : Nat} {consumed rest : List Char} (h : LexerKind k) :
    LexKindOk (mkTok k pos consumed rest) := h

theorem identKind_lexer (s : String) : LexerKind (identKind s) := by
  unfold identKind; split <;> (try split) <;> trivial

theorem identFrom_kind (feat : Option Bool) (pos : Nat) (consumed pre : List Char) (identStart : Nat)
    (rest : List Char) : LexKindOk (identFrom feat pos consumed pre identStart rest) := by
  unfold identFrom
  simp only []
  split
  · split
    · trivial
    · trivial
    · exact mkTok_kind (identKind_lexer _)
  · exact mkTok_kind (identKind_lexer _)

theorem ident_kind (feat : Option Bool) (pos : Nat) (consumed rest : List Char) :
    LexKindOk (ident feat pos consumed rest) := by
  unfold ident
  split
  · trivial
  · split
    · exact identFrom_kind _ _ _ _ _ _
    · trivial

theorem hex_kind (feat : Option Bool) (pos : Nat) (pre rest : List Char) :
    LexKindOk (hex feat pos pre rest) := by
  unfold hex
  simp only []
  split
  · exact mkTok_kind trivial
  · split
    · exact mkTok_kind trivial
    · trivial
    · exact identFrom_kind _ _ _ _ _ _

theorem dec_kind (pos : Nat) (pre rest : List Char) : LexKindOk (dec pos pre rest) := by
  unfold dec
  simp only []
  split
  · exact mkTok_kind trivial
  · split
    · exact mkTok_kind trivial
    · trivial

theorem dir_kind (pos : Nat) (rest : List Char) : LexKindOk (dir pos rest) := by
  unfold dir
  simp only []
  split
  · exact mkTok_kind trivial
  · trivial

theorem str_kind (pos : Nat) (rest : List Char) : LexKindOk (str pos rest) := by
  unfold str
  split
  · exact mkTok_kind trivial
  · trivial

theorem advanceToken_kind (feat : Option Bool) (pos : Nat) (rest : List Char) :
    LexKindOk (advanceToken feat pos rest) := by
  cases rest with
  | nil => simp only [advanceToken]; trivial
  | cons c rest =>
    simp only [advanceToken]
    repeat' split
    all_goals first
      | exact mkTok_kind trivial
      | exact hex_kind _ _ _ _
      | exact ident_kind _ _ _ _
      | exact dec_kind _ _ _
      | exact dir_kind _ _
      | exact str_kind _ _
      | trivial

theorem advanceRealLoop_kind (feat : Option Bool) : ∀ (fuel : List Char) (pos : Nat) (rest : List Char),
    LexKindOk (advanceRealLoop feat fuel pos rest) := by
  intro fuel
  induction fuel with
  | nil => intro pos rest; exact advanceToken_kind feat pos rest
  | cons _ fuel ih =>
    intro pos rest
    have h := advanceToken_kind feat pos rest
    unfold advanceRealLoop
    split
    · rename_i t pos' rest' heq
      rw [heq] at h
      split
      · exact ih pos' rest'
      · exact h
    · exact h

theorem advanceReal_kind (feat : Option Bool) (pos : Nat) (rest : List Char) :
    LexKindOk (advanceReal feat pos rest) :=
  advanceRealLoop_kind feat _ pos rest

end Lace.Asm

namespace Lace.Asm

/-- Token kinds of the stream `preprocess_simple` hands to `parse_simple`: whatever the lexer
produces (any directive included) except white space, comments and the end of input. -/
def SimpleKind (k : TokenKind) : Prop := ShowKind k ∧ LexerKind k

/-- A token of the `preprocess_simple` stream. -/
def TokSimple (total : Nat) (t : Token) : Prop :=
  t.span.offs + t.span.len ≤ total ∧ SimpleKind t.kind

theorem SimpleKind.shown {k : TokenKind} (h : SimpleKind k) : ShowKind k := h.1

theorem TokSimple.shown {total : Nat} {t : Token} (h : TokSimple total t) : TokShown total t :=
  ⟨h.1, h.2.shown⟩

/-- What C15 needs to know about a result of `preprocess_simple`. -/
def ResSimpleOk (total : Nat) : Res (List Token) → Prop
  | .panic _ => False
  | .diag _ none => False
  | .diag _ (some (o, l)) => o + l ≤ total
  | .ok toks => ∀ t ∈ toks, TokSimple total t

theorem preprocessSimpleLoop_succ (feat : Option Bool) (fuel pos : Nat) (rest : List Char) (acc : List Token) :
    preprocessSimpleLoop feat (fuel + 1) pos rest acc =
      match advanceReal feat pos rest with
      | .diag k o l => .diag k (some (o, l))
      | .panic s => .panic s
      | .tok t pos1 rest1 =>
        match t.kind with
        | .byte _ => .panic "unreachable: found byte in stream"
        | .breakpoint => .panic "unreachable: found breakpoint in stream"
        | .comment => preprocessSimpleLoop feat fuel pos1 rest1 acc
        | .whitespace => preprocessSimpleLoop feat fuel pos1 rest1 acc
        | .eof => .ok acc.reverse
        | _ => preprocessSimpleLoop feat fuel pos1 rest1 (t :: acc) := rfl


/-- The loop of `preprocess_simple` never panics — neither of its two `unreachable!` arms is
reached, because the lexer makes no `Byte` / `Breakpoint` token, and fuel `> length rest` is never
used up, because every token but the end of input consumes a character — and its result only
contains tokens `parse_simple` can meet. -/
theorem preprocessSimpleLoop_ok (f : Bool) : ∀ (fuel pos : Nat) (rest : List Char) (acc : List Token),
    rest.length < fuel → (∀ t ∈ acc, TokSimple (pos + utf8Len rest) t) →
    ResSimpleOk (pos + utf8Len rest) (preprocessSimpleLoop (some f) fuel pos rest acc) := by
  intro fuel
  induction fuel with
  | zero => intro pos rest acc h; exact absurd h (Nat.not_lt_zero _)
  | succ fuel ih =>
    intro pos rest acc hlen hacc
    have h1 := advanceReal_ok f pos rest
    have hk := advanceReal_kind (some f) pos rest
    rw [preprocessSimpleLoop_succ]
    generalize advanceReal (some f) pos rest = r1 at h1 hk ⊢
    cases r1 with
    | panic s => exact h1
    | diag k o l => exact h1
    | tok t pos1 rest1 =>
      obtain ⟨hd1, hd2, hd3, _⟩ := h1
      have hk' : LexerKind t.kind := hk
      have hrec : t.kind ≠ .eof → ∀ acc', (∀ x ∈ acc', TokSimple (pos + utf8Len rest) x) →
          ResSimpleOk (pos + utf8Len rest) (preprocessSimpleLoop (some f) fuel pos1 rest1 acc') := by
        intro hne acc' hacc'
        have hlt : rest1.length < rest.length := by
          rcases hd3 with h | h
          · exact absurd h hne
          · exact h
        have := ih pos1 rest1 acc' (by omega) (by rw [hd2]; exact hacc')
        rw [hd2] at this
        exact this
      have hpush : ShowKind t.kind → t.kind ≠ .eof →
          ResSimpleOk (pos + utf8Len rest) (preprocessSimpleLoop (some f) fuel pos1 rest1 (t :: acc)) := by
        intro hs hne
        refine hrec hne (t :: acc) (fun x hx => ?_)
        rcases List.mem_cons.mp hx with rfl | hx
        · exact ⟨hd1, hs, hk'⟩
        · exact hacc x hx
      -- (no `split` here: the splitter of this `match`, with its overlapping wild card, is too
      -- expensive to generate)
      show ResSimpleOk _ (match t.kind with
        | .byte _ => .panic "unreachable: found byte in stream"
        | .breakpoint => .panic "unreachable: found breakpoint in stream"
        | .comment => preprocessSimpleLoop (some f) fuel pos1 rest1 acc
        | .whitespace => preprocessSimpleLoop (some f) fuel pos1 rest1 acc
        | .eof => .ok acc.reverse
        | _ => preprocessSimpleLoop (some f) fuel pos1 rest1 (t :: acc))
      generalize hkk : t.kind = k at hk' hrec hpush
      cases k with
      | byte v => exact hk'.elim
      | breakpoint => exact hk'.elim
      | comment => exact hrec (by simp) acc hacc
      | whitespace => exact hrec (by simp) acc hacc
      | eof => exact fun x hx => hacc x (List.mem_reverse.mp hx)
      | label => exact hpush trivial (by simp)
      | instr i => exact hpush trivial (by simp)
      | trap i => exact hpush trivial (by simp)
      | lit l => exact hpush trivial (by simp)
      | dir d => exact hpush trivial (by simp)
      | reg r => exact hpush trivial (by simp)

theorem preprocessSimple_ok (f : Bool) (src : List Char) :
    ResSimpleOk (utf8Len src) (preprocessSimple (some f) src) := by
  have := preprocessSimpleLoop_ok f (src.length + 1) 0 src [] (by omega) (by simp)
  simpa [preprocessSimple] using this

/-- What C15 needs to know about the result of `parse_simple`: never a panic; a diagnostic's label
lies inside the text. -/
def ResStmtOk (total : Nat) : Res Stmt → Prop
  | .panic _ => False
  | .diag _ none => False
  | .diag _ (some (o, l)) => o + l ≤ total
  | .ok _ => True

theorem unexpectedDiag_stmt {total : Nat} {t : Token} (ht : TokShown total t) :
    ResStmtOk total (unexpectedDiag t) := by
  obtain ⟨s, hs⟩ := ShowKind.display_isSome ht.2
  simp only [unexpectedDiag, hs, ResStmtOk]
  exact ht.1

/-- the `fin` step of `parseSimple`: no surplus token may follow the statement -/
theorem parseSimple_fin_ok {total : Nat} {ts : List Token} (hts : ∀ t ∈ ts, TokShown total t) :
    ∀ r : StmtRes, ExpOk total ts false r →
    ResStmtOk total
      (match r with
       | .diag k s => .diag k s
       | .panic s => .panic s
       | .ok (stmt, [], _) => .ok stmt
       | .ok (_, surplus :: _, _) => unexpectedDiag surplus) := by
  intro r hr
  cases r with
  | panic s => exact hr.elim
  | diag k s =>
    cases s with
    | none => exact hr.elim
    | some p => exact hr
  | ok p =>
    obtain ⟨stmt, ts', te⟩ := p
    cases ts' with
    | nil => trivial
    | cons surplus rest =>
      exact unexpectedDiag_stmt (hts surplus (hr.2 surplus List.mem_cons_self))

theorem parseSimple_ok (f : Bool) (tbl : SymTab) (line : Nat) (src : List Char) :
    ResStmtOk (utf8Len src) (parseSimple (some f) tbl line src) := by
  have hp := preprocessSimple_ok f src
  unfold parseSimple
  generalize preprocessSimple (some f) src = r at hp ⊢
  cases r with
  | panic s => exact hp.elim
  | diag k s =>
    cases s with
    | none => exact hp.elim
    | some p => exact hp
  | ok toks =>
    simp only []
    cases toks with
    | nil => simp only [eofDiag, ResStmtOk]; omega
    | cons tok ts =>
      have htok := hp tok List.mem_cons_self
      have hts : ∀ t ∈ ts, TokShown (utf8Len src) t :=
        fun t ht => (hp t (List.mem_cons_of_mem _ ht)).shown
      simp only []
      split
      · exact parseSimple_fin_ok hts _ (parseInstr_ok' tbl line _ ts hts)
      · exact parseSimple_fin_ok hts _ (parseTrap_ok' _ ts hts)
      · exact unexpectedDiag_stmt htok.shown
      · exact unexpectedDiag_stmt htok.shown
      · exact unexpectedDiag_stmt htok.shown
      · exact unexpectedDiag_stmt htok.shown
      · rename_i h1 h2 h3 h4 h5 h6
        obtain ⟨hs, hl⟩ := htok.2
        cases hk : tok.kind with
        | instr k => exact (h1 k hk).elim
        | trap k => exact (h2 k hk).elim
        | dir d => exact (h3 d hk).elim
        | label => exact (h4 hk).elim
        | lit l => exact (h5 l hk).elim
        | reg r => exact (h6 r hk).elim
        | byte v => rw [hk] at hl; exact hl.elim
        | breakpoint => rw [hk] at hl; exact hl.elim
        | whitespace => rw [hk] at hs; exact hs.elim
        | comment => rw [hk] at hs; exact hs.elim
        | eof => rw [hk] at hs; exact hs.elim

end Lace.Asm
