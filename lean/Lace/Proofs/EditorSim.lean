/-
  C20: one-step simulation between the editor model and the reference editor, and the
  invariant that makes it work (history index inside the history, cursor inside the current
  line, history entries non-blank).
-/
import Lace.Proofs.EditorBytes
import Lace.Proofs.EditorWords
set_option linter.unusedSimpArgs false
namespace Lace.Editor
open Lace.RefEditor (State)

/-- Abstraction map: forget the byte cursor of `get_next_command`. -/
def abs (t : Term) : State :=
  { line := t.buffer, cursor := t.vcursor, history := t.hist, index := t.index }

/-- The line on display: the focused history entry, or the new line. -/
def current (t : Term) : List Char := (abs t).current

/-- I10: every history entry is a line the editor could have stored (not blank). -/
def HistOK (cls : Char → CharClass) (hist : List (List Char)) : Prop :=
  ∀ h ∈ hist, isBlank cls h = false

/-- The invariant of the editor state. -/
structure Inv (cls : Char → CharClass) (t : Term) : Prop where
  index_le : t.index ≤ t.hist.length
  cursor_le : t.vcursor ≤ (current t).length
  hist_ok : HistOK cls t.hist

theorem current_new (t : Term) (h : t.index = t.hist.length) : current t = t.buffer := by
  simp [current, abs, State.current, h]

theorem current_mk_new (b : List Char) (c v : Nat) (h : List (List Char)) :
    current { buffer := b, cursor := c, vcursor := v, hist := h, index := h.length } = b := by
  simp [current, abs, State.current]

theorem current_hist (t : Term) (h : t.index < t.hist.length) : current t = t.hist[t.index] := by
  simp [current, abs, State.current, List.getElem?_eq_getElem h]

theorem current_mem_or (t : Term) (hi : t.index ≤ t.hist.length) :
    (t.index = t.hist.length ∧ current t = t.buffer) ∨ (t.index < t.hist.length ∧ current t ∈ t.hist) := by
  by_cases h : t.index < t.hist.length
  · right; exact ⟨h, by rw [current_hist t h]; exact List.getElem_mem h⟩
  · left; have : t.index = t.hist.length := by omega
    exact ⟨this, current_new t this⟩

theorem isNext_eq (t : Term) (hi : t.index ≤ t.hist.length) :
    isNext t = .ok (decide (t.index ≥ t.hist.length)) := by
  simp [isNext, hi]

theorem getCurrent_eq (t : Term) (hi : t.index ≤ t.hist.length) : getCurrent t = .ok (current t) := by
  unfold getCurrent
  rw [isNext_eq t hi]
  by_cases h : t.index < t.hist.length
  · have : ¬ t.index ≥ t.hist.length := by omega
    simp [this, current_hist t h, List.getElem?_eq_getElem h]
  · have h' : t.index ≥ t.hist.length := by omega
    simp [h', current_new t (by omega)]

theorem updateNext_eq (t : Term) (hi : t.index ≤ t.hist.length) :
    updateNext t = .ok { t with buffer := current t, index := t.hist.length } := by
  unfold updateNext
  rw [isNext_eq t hi]
  by_cases h : t.index < t.hist.length
  · have : ¬ t.index ≥ t.hist.length := by omega
    simp [this, current_hist t h, List.getElem?_eq_getElem h]
  · have h' : t.index ≥ t.hist.length := by omega
    have he : t.index = t.hist.length := by omega
    simp only [h', decide_true]
    rw [current_new t he]
    cases t
    simp at he
    simp [he]

/-- The state after `update_next`. -/
def focusNew (t : Term) : Term := { t with buffer := current t, index := t.hist.length }

theorem ref_blank_eq (cls : Char → CharClass) (l : List Char) : RefEditor.blank cls l = isBlank cls l := rfl

/-- One key: the model does not panic, does what the reference editor does (through `abs`),
keeps the invariant, and a submitted line is non-blank and sits in the focused new line. -/
theorem handleKey_sim (cls : Char → CharClass) (t : Term) (k : Key) (h : Inv cls t) :
    ∃ t' done, handleKey cls t k = .ok (t', done) ∧ RefEditor.key cls (abs t) k = (abs t', done) ∧
      Inv cls t' ∧ (done = true → isBlank cls t'.buffer = false ∧ t'.index = t'.hist.length) := by
  obtain ⟨hi, hc, hh⟩ := h
  have hcur : (abs t).current = current t := rfl
  cases k with
  | enter =>
    unfold handleKey
    rw [isNext_eq t hi]
    by_cases hb : (decide (t.index ≥ t.hist.length) && isBlank cls t.buffer) = true
    · -- blank new line: cleared
      simp only [hb, if_true]
      have hb' : t.index ≥ t.hist.length ∧ isBlank cls t.buffer = true := by simpa using hb
      refine ⟨_, false, rfl, ?_, ⟨hi, ?_, hh⟩, by simp⟩
      · simp [RefEditor.key, abs, ref_blank_eq, hb'.1, hb'.2]
      · have he : t.index = t.hist.length := by omega
        rw [current_new _ (by simpa using he)]; simp
    · simp only [hb, Bool.false_eq_true, if_false]
      rw [updateNext_eq t hi]
      have hb' : ¬ (t.index ≥ t.hist.length ∧ isBlank cls t.buffer = true) := by simpa using hb
      refine ⟨_, true, rfl, ?_, ⟨by simp, ?_, hh⟩, ?_⟩
      · simp [RefEditor.key, abs, ref_blank_eq, hb', current]
      · rw [current_mk_new]; exact hc
      · intro _
        refine ⟨?_, rfl⟩
        show isBlank cls (current t) = false
        rcases current_mem_or t hi with ⟨he, hcb⟩ | ⟨_, hm⟩
        · rw [hcb]
          cases hbl : isBlank cls t.buffer
          · rfl
          · exact absurd ⟨by omega, hbl⟩ hb'
        · exact hh _ hm
  | char ch =>
    unfold handleKey
    by_cases hctl : isAsciiControl ch = true
    · simp only [hctl, if_true]
      exact ⟨t, false, rfl, by simp [RefEditor.key, hctl], ⟨hi, hc, hh⟩, by simp⟩
    · simp only [hctl, Bool.false_eq_true, if_false]
      rw [updateNext_eq t hi]
      simp only []
      rw [insertCharIndex_eq _ _ ch hc]
      refine ⟨_, false, rfl, ?_, ⟨by simp, ?_, hh⟩, by simp⟩
      · simp [RefEditor.key, hctl, abs, current]
      · rw [current_mk_new]
        simp [List.length_take]; omega
  | backspace =>
    unfold handleKey
    rw [getCurrent_eq t hi]
    by_cases h0 : t.vcursor = 0
    · have : ¬ (t.vcursor > 0) := by omega
      simp only [this, decide_false, Bool.false_and, Bool.false_eq_true, if_false]
      exact ⟨t, false, rfl, by simp [RefEditor.key, abs, h0], ⟨hi, hc, hh⟩, by simp⟩
    · have hpos : t.vcursor > 0 := by omega
      simp only [hpos, hc, decide_true, Bool.and_self, if_true]
      rw [updateNext_eq t hi]
      simp only []
      rw [removeCharIndex_eq _ _ (by omega)]
      refine ⟨_, false, rfl, ?_, ⟨by simp, ?_, hh⟩, by simp⟩
      · simp [RefEditor.key, abs, h0, current]
      · rw [current_mk_new]
        simp [List.length_eraseIdx]; split <;> omega
  | delete =>
    unfold handleKey
    rw [getCurrent_eq t hi]
    by_cases hlt : t.vcursor < (current t).length
    · simp only [hlt, decide_true, if_true]
      rw [updateNext_eq t hi]
      simp only []
      rw [removeCharIndex_eq _ _ hlt]
      refine ⟨_, false, rfl, ?_, ⟨by simp, ?_, hh⟩, by simp⟩
      · simp [RefEditor.key, abs, current] at hlt ⊢
        simp [hlt]
      · rw [current_mk_new]
        simp [List.length_eraseIdx, hlt]; omega
    · simp only [hlt, decide_false, Bool.false_eq_true, if_false]
      refine ⟨t, false, rfl, ?_, ⟨hi, hc, hh⟩, by simp⟩
      simp [RefEditor.key, abs, current] at hlt ⊢
      have : ¬ t.vcursor < (State.current { line := t.buffer, cursor := t.vcursor, history := t.hist, index := t.index }).length := by omega
      simp [this]
  | left =>
    unfold handleKey
    by_cases h0 : t.vcursor > 0
    · simp only [h0, decide_true, if_true]
      refine ⟨_, false, rfl, by simp [RefEditor.key, abs], ⟨hi, ?_, hh⟩, by simp⟩
      show t.vcursor - 1 ≤ (current t).length
      omega
    · simp only [h0, decide_false, Bool.false_eq_true, if_false]
      refine ⟨t, false, rfl, ?_, ⟨hi, hc, hh⟩, by simp⟩
      have : t.vcursor = 0 := by omega
      simp [RefEditor.key, abs, this]
  | right =>
    unfold handleKey
    rw [getCurrent_eq t hi]
    by_cases hlt : t.vcursor < (current t).length
    · simp only [hlt, decide_true, if_true]
      refine ⟨_, false, rfl, ?_, ⟨hi, ?_, hh⟩, by simp⟩
      · have : min (t.vcursor + 1) (abs t).current.length = t.vcursor + 1 := by
          rw [hcur]; omega
        simp only [abs] at this
        simp [RefEditor.key, this, abs]
      · show t.vcursor + 1 ≤ (current t).length
        omega
    · simp only [hlt, decide_false, Bool.false_eq_true, if_false]
      refine ⟨t, false, rfl, ?_, ⟨hi, hc, hh⟩, by simp⟩
      have : min (t.vcursor + 1) (abs t).current.length = t.vcursor := by
        rw [hcur]; omega
      simp only [abs] at this
      simp [RefEditor.key, this, abs]
  | ctrlLeft =>
    unfold handleKey
    rw [getCurrent_eq t hi]
    simp only []
    rw [findWordBack_eq cls _ _ hc]
    refine ⟨_, false, rfl, by simp [RefEditor.key, abs, current], ⟨hi, ?_, hh⟩, by simp⟩
    show RefEditor.wordLeft cls (current t) t.vcursor ≤ (current t).length
    have := wordLeft_le cls (current t) t.vcursor
    omega
  | ctrlRight =>
    unfold handleKey
    rw [getCurrent_eq t hi]
    simp only []
    rw [findWordNext_eq]
    refine ⟨_, false, rfl, by simp [RefEditor.key, abs, current], ⟨hi, ?_, hh⟩, by simp⟩
    show RefEditor.wordRight cls (current t) t.vcursor ≤ (current t).length
    exact wordRight_le cls (current t) t.vcursor
  | up =>
    unfold handleKey
    by_cases h0 : t.index > 0
    · simp only [h0, decide_true, if_true]
      rw [getCurrent_eq _ (by simp; omega)]
      have hne : ¬ t.index = 0 := by omega
      refine ⟨_, false, rfl, ?_, ⟨by simp; omega, ?_, hh⟩, by simp⟩
      · simp [RefEditor.key, abs, hne, current]
      · exact Nat.le_refl _
    · simp only [h0, decide_false, Bool.false_eq_true, if_false]
      have : t.index = 0 := by omega
      exact ⟨t, false, rfl, by simp [RefEditor.key, abs, this], ⟨hi, hc, hh⟩, by simp⟩
  | down =>
    unfold handleKey
    by_cases hlt : t.index < t.hist.length
    · simp only [hlt, decide_true, if_true]
      rw [getCurrent_eq _ (by simp; omega)]
      refine ⟨_, false, rfl, ?_, ⟨by simp; omega, ?_, hh⟩, by simp⟩
      · simp [RefEditor.key, abs, hlt, current]
      · exact Nat.le_refl _
    · simp only [hlt, decide_false, Bool.false_eq_true, if_false]
      exact ⟨t, false, rfl, by simp [RefEditor.key, abs, hlt], ⟨hi, hc, hh⟩, by simp⟩

/-- One key of a session (with the rest of `read_line` and the start of the next one when the key
submits a line): no panic, same as the reference editor, invariant kept — both by the state
shown right after the key and by the state in which the next key is awaited. -/
theorem feedKey_sim (cls : Char → CharClass) (t : Term) (k : Key) (h : Inv cls t) :
    ∃ t1 t' sub, feedKey cls t k = .ok (t1, t', sub) ∧
      RefEditor.feedKey cls (abs t) k = (abs t1, abs t', sub) ∧ Inv cls t1 ∧ Inv cls t' := by
  obtain ⟨t1, done, hk, hr, hinv, hdone⟩ := handleKey_sim cls t k h
  cases done with
  | false =>
    exact ⟨t1, t1, none, by simp [feedKey, hk], by simp [RefEditor.feedKey, hr], hinv, hinv⟩
  | true =>
    obtain ⟨hnb, hidx⟩ := hdone rfl
    have hfin : readLineFinish cls t1 = .ok
        { t1 with hist := (if t1.hist.getLast? = some t1.buffer then t1.hist else t1.hist ++ [t1.buffer]),
                  index := (if t1.hist.getLast? = some t1.buffer then t1.hist else t1.hist ++ [t1.buffer]).length } := by
      simp [readLineFinish, hnb]
    refine ⟨t1, readLineBegin { t1 with
        hist := (if t1.hist.getLast? = some t1.buffer then t1.hist else t1.hist ++ [t1.buffer]),
        index := (if t1.hist.getLast? = some t1.buffer then t1.hist else t1.hist ++ [t1.buffer]).length },
      some t1.buffer, by simp [feedKey, hk, hfin], ?_, hinv, ⟨by simp [readLineBegin], ?_, ?_⟩⟩
    · rw [RefEditor.feedKey, hr]
      simp [RefEditor.submit, abs, readLineBegin]
      constructor <;> first | rfl | congr
    · simp only [readLineBegin]
      rw [current_mk_new]
      exact Nat.zero_le _
    · simp only [readLineBegin]
      intro x hx
      split at hx
      · exact hinv.hist_ok x hx
      · rcases List.mem_append.mp hx with hx | hx
        · exact hinv.hist_ok x hx
        · simp at hx; rw [hx]; exact hnb

/-- Every key sequence: no panic, the reference editor's final state and submitted lines,
invariant kept. -/
theorem feed_sim (cls : Char → CharClass) : ∀ (keys : List Key) (t : Term), Inv cls t →
    ∃ tf subs, feed cls t keys = .ok (tf, subs) ∧ RefEditor.feed cls (abs t) keys = (abs tf, subs) ∧
      Inv cls tf
  | [], t, h => ⟨t, [], rfl, rfl, h⟩
  | k :: ks, t, h => by
    obtain ⟨t1, t', sub, hk, hr, _, hinv⟩ := feedKey_sim cls t k h
    obtain ⟨tf, subs, hf, hrf, hinvf⟩ := feed_sim cls ks t' hinv
    exact ⟨tf, sub.toList ++ subs, by simp [feed, hk, hf], by simp [RefEditor.feed, hr, hrf], hinvf⟩

/-- The state in which a session starts satisfies the invariant. -/
theorem inv_start (cls : Char → CharClass) (hist : List (List Char)) (h : HistOK cls hist) :
    Inv cls (readLineBegin (Term.new hist)) :=
  ⟨Nat.le_refl _, by simp only [readLineBegin, Term.new]; rw [current_mk_new]; exact Nat.zero_le _, h⟩

theorem abs_start (hist : List (List Char)) : abs (readLineBegin (Term.new hist)) = RefEditor.init hist := rfl

end Lace.Editor
