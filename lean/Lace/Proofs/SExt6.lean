/- `s_ext(instr, 6)` (mask / `!sign + 1` trick) is sign extension of the low 6 bits:
   exhaustive kernel evaluation over all 65,536 words. -/
import Lace.Proofs.AllRange
import Lace.Spec.ISA
import Lace.Model.VM
namespace Lace
theorem sExt_6 (w : Word) : VM.sExt w 6 = ISA.sext (w.extractLsb' 0 6) := by
  have := forall_word_of_allRange (fun w => VM.sExt w 6 == ISA.sext (w.extractLsb' 0 6))
    (by decide +kernel) w
  simpa using this
end Lace
