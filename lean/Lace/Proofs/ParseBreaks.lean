/-
  `.break` in the assembler model (`AsmParser::parse`, `Breakpoints::insert`): what the parser
  records for the debugger.  Holds for EVERY token stream (no layout assumption):

  * a `.break` token records the number of statements parsed so far — the index of the NEXT
    statement (statements are words: `.blkw`/`.stringz` are expanded into one `Byte` statement
    per word by the preprocessor) — by a sorted, duplicate-free insertion, and consumes nothing
    else (`parseLine_break`);
  * `breakSeen` lists these indices along the parser loop; `parse_breaks`: the final list is
    strictly increasing, its members are exactly the indices seen, each is ≤ the number of
    statements (a trailing `.break` gives exactly that number) and that number is ≤ 65,535;
  * `bpInsert_mem_id`: a doubled `.break` (same index twice) leaves one entry.
-/
import Lace.Model.Assemble
namespace Lace.C11
open Lace Lace.Asm

abbrev Incr (l : List Nat) : Prop := l.Pairwise (· < ·)

/-! ### `Breakpoints::insert` on the assembler side -/

theorem mem_bpInsert (l : List Nat) (a x : Nat) : x ∈ Asm.bpInsert l a ↔ x = a ∨ x ∈ l := by
  induction l with
  | nil => simp [Asm.bpInsert]
  | cons b rest ih =>
    simp only [Asm.bpInsert]
    split
    · rename_i h; subst h
      constructor
      · exact Or.inr
      · rintro (rfl | h)
        · exact List.mem_cons_self
        · exact h
    · split
      · simp
      · simp only [List.mem_cons, ih]
        constructor
        · rintro (h | h | h)
          · exact Or.inr (Or.inl h)
          · exact Or.inl h
          · exact Or.inr (Or.inr h)
        · rintro (h | h | h)
          · exact Or.inr (Or.inl h)
          · exact Or.inl h
          · exact Or.inr (Or.inr h)

theorem bpInsert_incr (l : List Nat) (a : Nat) (h : Incr l) : Incr (Asm.bpInsert l a) := by
  induction l with
  | nil => simp [Asm.bpInsert, Incr]
  | cons b rest ih =>
    simp only [Asm.bpInsert]
    have hb := List.pairwise_cons.mp h
    split
    · exact h
    · rename_i hne
      split
      · rename_i hge
        refine List.pairwise_cons.mpr ⟨?_, h⟩
        intro x hx
        rcases List.mem_cons.mp hx with rfl | hx
        · omega
        · have := hb.1 x hx; omega
      · rename_i hlt
        refine List.pairwise_cons.mpr ⟨?_, ih hb.2⟩
        intro x hx
        rcases (mem_bpInsert rest a x).mp hx with rfl | hx
        · omega
        · exact hb.1 x hx

/-- A doubled `.break`: inserting an index that is already there changes nothing. -/
theorem bpInsert_mem_id (l : List Nat) (a : Nat) (h : Incr l) (ha : a ∈ l) : Asm.bpInsert l a = l := by
  induction l with
  | nil => cases ha
  | cons b rest ih =>
    simp only [Asm.bpInsert]
    have hb := List.pairwise_cons.mp h
    split
    · rfl
    · rename_i hne
      rcases List.mem_cons.mp ha with rfl | ha
      · exact absurd rfl hne
      · have := hb.1 a ha
        rw [if_neg (by omega), ih hb.2 ha]

/-- A `.break` further down the program: an index above all recorded ones goes to the end. -/
theorem bpInsert_append (l : List Nat) (a : Nat) (h : ∀ x ∈ l, x < a) : Asm.bpInsert l a = l ++ [a] := by
  induction l with
  | nil => rfl
  | cons b rest ih =>
    simp only [Asm.bpInsert]
    have := h b List.mem_cons_self
    rw [if_neg (by omega), if_neg (by omega), ih fun x hx => h x (List.mem_cons_of_mem _ hx)]
    rfl

/-! ### One iteration of the parser loop -/

theorem finishStmt_more (st : PState) (tok : Token) (r : Res (Stmt × List Token × Option Nat))
    (ts' : List Token) (st' : PState) (h : finishStmt st tok r = .more ts' st') :
    st'.bps = st.bps ∧ st'.n = st.n + 1 ∧ st'.line = st.line + 1 ∧ st.line + 1 ≤ 65535 ∧
    st'.stmts.length = st.stmts.length + 1 := by
  unfold finishStmt at h
  split at h
  · cases h
  · cases h
  · simp only at h
    split at h
    · split at h <;> cases h
    · rename_i hl
      simp only [ParseStep.more.injEq] at h
      obtain ⟨_, rfl⟩ := h
      exact ⟨rfl, rfl, rfl, by omega, by simp [PState.addStmt]⟩

theorem finishStmt_done (st : PState) (tok : Token) (r : Res (Stmt × List Token × Option Nat))
    (air : Air) (h : finishStmt st tok r = .done (.ok air)) :
    air.bps = st.bps ∧ air.stmts.length = st.stmts.length + 1 := by
  unfold finishStmt at h
  split at h
  · cases h
  · cases h
  · simp only at h
    split at h
    · split at h
      · simp only [ParseStep.done.injEq, Res.ok.injEq] at h
        subst h
        exact ⟨rfl, by simp [PState.air, PState.addStmt]⟩
      · cases h
    · cases h

/-- The token `parseLine` dispatches on is a `.break`. -/
def headIsBreak : List Token → Bool
  | t :: _ => t.kind == .breakpoint
  | [] => false

/-- **`.break` records the index of the next statement** and nothing else happens in that
iteration: no token besides the directive is consumed, no statement is added. -/
theorem parseLine_break (srcLen : Nat) (labeled : Bool) (t : Token) (ts : List Token) (st : PState) (tbl : SymTab)
    (h : t.kind = .breakpoint) :
    parseLine srcLen labeled (t :: ts) st tbl =
      .more ts { st with bps := Asm.bpInsert st.bps (st.n % 65536) } := by
  simp only [parseLine, h]

/-- Any other iteration that goes on leaves the list alone and adds at most one statement. -/
theorem parseLine_more (srcLen : Nat) (labeled : Bool) (toks : List Token) (st : PState) (tbl : SymTab)
    (toks' : List Token) (st' : PState) (hb : headIsBreak toks = false)
    (h : parseLine srcLen labeled toks st tbl = .more toks' st') :
    st'.bps = st.bps ∧
    ((st'.n = st.n ∧ st'.line = st.line ∧ st'.stmts = st.stmts) ∨
     (st'.n = st.n + 1 ∧ st'.line = st.line + 1 ∧ st.line + 1 ≤ 65535 ∧
      st'.stmts.length = st.stmts.length + 1)) := by
  unfold parseLine at h
  split at h
  · split at h <;> cases h
  · rename_i tok ts
    split at h
    · cases h
    · cases h
    · cases h
    · split at h
      · cases h
      · split at h
        · cases h
        · cases h
        · split at h
          · cases h
          · simp only [ParseStep.more.injEq] at h
            obtain ⟨_, rfl⟩ := h
            exact ⟨rfl, Or.inl ⟨rfl, rfl, rfl⟩⟩
    · rename_i hk
      simp [headIsBreak, hk] at hb
    · obtain ⟨h1, h2⟩ := finishStmt_more _ _ _ _ _ h; exact ⟨h1, Or.inr h2⟩
    · obtain ⟨h1, h2⟩ := finishStmt_more _ _ _ _ _ h; exact ⟨h1, Or.inr h2⟩
    · obtain ⟨h1, h2⟩ := finishStmt_more _ _ _ _ _ h; exact ⟨h1, Or.inr h2⟩
    · cases h
    · cases h
    · cases h

theorem parseLine_done (srcLen : Nat) (labeled : Bool) (toks : List Token) (st : PState) (tbl : SymTab)
    (air : Air) (h : parseLine srcLen labeled toks st tbl = .done (.ok air)) :
    air.bps = st.bps ∧
    (air.stmts.length = st.stmts.length ∨ air.stmts.length = st.stmts.length + 1) := by
  unfold parseLine at h
  split at h
  · split at h
    · simp [eofDiag] at h
    · simp only [ParseStep.done.injEq, Res.ok.injEq] at h
      subst h
      exact ⟨rfl, Or.inl (by simp [PState.air])⟩
  · rename_i tok ts
    have hu : ∀ {α : Type} (t : Token) (a : α), (unexpectedDiag t : Res α) ≠ .ok a := by
      intro α t a
      unfold unexpectedDiag
      split <;> simp
    split at h
    · simp only [ParseStep.done.injEq] at h; exact absurd h (hu _ _)
    · simp only [ParseStep.done.injEq] at h; exact absurd h (hu _ _)
    · simp only [ParseStep.done.injEq] at h; exact absurd h (hu _ _)
    · split at h
      · simp at h
      · split at h
        · simp at h
        · simp at h
        · split at h
          · simp at h
          · cases h
    · cases h
    · obtain ⟨h1, h2⟩ := finishStmt_done _ _ _ _ h; exact ⟨h1, Or.inr h2⟩
    · obtain ⟨h1, h2⟩ := finishStmt_done _ _ _ _ h; exact ⟨h1, Or.inr h2⟩
    · obtain ⟨h1, h2⟩ := finishStmt_done _ _ _ _ h; exact ⟨h1, Or.inr h2⟩
    · simp at h
    · simp at h
    · simp at h

/-- The tokens `parseLine` sees in this iteration (after the optional prefix label). -/
def lineToks : List Token → List Token
  | t :: ts => if t.kind = .label then ts else t :: ts
  | [] => []

/-- This iteration of the parser loop meets a `.break`. -/
def atBreak (toks : List Token) : Bool := headIsBreak (lineToks toks)

theorem parseStep_line (srcLen : Nat) (toks : List Token) (st : PState) (tbl : SymTab) (r : ParseStep)
    (tbl' : SymTab) (h : parseStep srcLen toks st tbl = (r, tbl')) :
    (∃ k s, r = .done (.diag k s)) ∨ ∃ labeled tblL, r = parseLine srcLen labeled (lineToks toks) st tblL := by
  unfold parseStep at h
  split at h
  · rename_i t ts
    split at h
    · rename_i hl
      split at h
      · simp only [Prod.mk.injEq] at h; exact Or.inl ⟨_, _, h.1.symm⟩
      · simp only [Prod.mk.injEq] at h
        rename_i tblL _
        exact Or.inr ⟨true, tblL, by rw [← h.1]; simp [lineToks, hl]⟩
    · rename_i hl
      simp only [Prod.mk.injEq] at h
      exact Or.inr ⟨false, tbl, by rw [← h.1]; simp [lineToks, hl]⟩
  · simp only [Prod.mk.injEq] at h
    exact Or.inr ⟨false, _, by rw [← h.1]; rfl⟩

/-! ### The whole loop -/

/-- The statement counts at which the parser loop meets a `.break`, in order of occurrence. -/
def breakSeen (srcLen : Nat) : Nat → List Token → PState → SymTab → List Nat
  | 0, _, _, _ => []
  | fuel + 1, toks, st, tbl =>
    match parseStep srcLen toks st tbl with
    | (.done _, _) => []
    | (.more toks' st', tbl') =>
      if atBreak toks then st.n :: breakSeen srcLen fuel toks' st' tbl'
      else breakSeen srcLen fuel toks' st' tbl'

/-- Invariant of the parser state. -/
structure PInv (st : PState) : Prop where
  n_eq : st.n = st.stmts.length
  line_eq : st.line = st.n + 1
  n_le : st.n ≤ 65534
  incr : Incr st.bps
  le_n : ∀ x ∈ st.bps, x ≤ st.n

theorem parse_breaks_from (srcLen : Nat) : ∀ (fuel : Nat) (toks : List Token) (st : PState) (tbl : SymTab)
    (air : Air) (tbl' : SymTab), PInv st → parseLoop srcLen fuel toks st tbl = (.ok air, tbl') →
    Incr air.bps ∧ (∀ x, x ∈ air.bps ↔ x ∈ st.bps ∨ x ∈ breakSeen srcLen fuel toks st tbl) ∧
    (∀ x ∈ air.bps, x ≤ air.stmts.length) ∧ air.stmts.length ≤ 65535 ∧
    (∀ x ∈ breakSeen srcLen fuel toks st tbl, st.n ≤ x)
  | 0, toks, st, tbl, air, tbl' => by intro _ h; simp [parseLoop] at h
  | fuel + 1, toks, st, tbl, air, tbl' => by
    intro hinv h
    unfold parseLoop at h
    unfold breakSeen
    cases hps : parseStep srcLen toks st tbl with
    | mk r tblS =>
      rw [hps] at h
      cases r with
      | done res =>
        simp only [Prod.mk.injEq] at h
        obtain ⟨rfl, rfl⟩ := h
        rcases parseStep_line srcLen toks st tbl _ _ hps with ⟨k, s, hd⟩ | ⟨lab, tblL, hd⟩
        · cases hd
        · obtain ⟨h1, h2⟩ := parseLine_done srcLen lab _ st tblL air hd.symm
          have hn := hinv.n_eq
          have hle := hinv.n_le
          refine ⟨by rw [h1]; exact hinv.incr, by intro x; rw [h1]; simp, ?_, by omega, by simp⟩
          intro x hx
          rw [h1] at hx
          have := hinv.le_n x hx
          omega
      | more toks1 st1 =>
        simp only at h ⊢
        rcases parseStep_line srcLen toks st tbl _ _ hps with ⟨k, s, hd⟩ | ⟨lab, tblL, hd⟩
        · cases hd
        · cases hbk : atBreak toks with
          | true =>
            -- a `.break`
            simp only [if_true]
            have hlt : ∃ t ts, lineToks toks = t :: ts ∧ t.kind = .breakpoint := by
              unfold atBreak headIsBreak at hbk
              split at hbk
              · rename_i t ts heq; exact ⟨t, ts, heq, by simpa using hbk⟩
              · cases hbk
            obtain ⟨t, ts, hlt, hk⟩ := hlt
            rw [hlt, parseLine_break srcLen lab t ts st tblL hk] at hd
            simp only [ParseStep.more.injEq] at hd
            obtain ⟨_, rfl⟩ := hd
            have hmod : st.n % 65536 = st.n := Nat.mod_eq_of_lt (by have := hinv.n_le; omega)
            have hinv1 : PInv { st with bps := Asm.bpInsert st.bps (st.n % 65536) } :=
              ⟨hinv.n_eq, hinv.line_eq, hinv.n_le, bpInsert_incr _ _ hinv.incr, by
                intro x hx
                rcases (mem_bpInsert _ _ x).mp hx with rfl | hx
                · rw [hmod]; exact Nat.le_refl _
                · exact hinv.le_n x hx⟩
            obtain ⟨a1, a2, a3, a4, a5⟩ := parse_breaks_from srcLen fuel toks1 _ tblS air tbl' hinv1 h
            refine ⟨a1, ?_, a3, a4, ?_⟩
            · intro x
              rw [a2 x]
              simp only [mem_bpInsert, hmod, List.mem_cons]
              constructor
              · rintro ((h | h) | h)
                · exact Or.inr (Or.inl h)
                · exact Or.inl h
                · exact Or.inr (Or.inr h)
              · rintro (h | h | h)
                · exact Or.inl (Or.inr h)
                · exact Or.inl (Or.inl h)
                · exact Or.inr h
            · intro x hx
              rcases List.mem_cons.mp hx with rfl | hx
              · exact Nat.le_refl _
              · exact a5 x hx
          | false =>
            simp only [Bool.false_eq_true, if_false]
            obtain ⟨h1, h2⟩ := parseLine_more srcLen lab _ st tblL toks1 st1 hbk hd.symm
            have hinv1 : PInv st1 := by
              rcases h2 with ⟨e1, e2, e3⟩ | ⟨e1, e2, e3, e4⟩
              · exact ⟨by rw [e1, e3]; exact hinv.n_eq, by rw [e2, e1]; exact hinv.line_eq,
                  by rw [e1]; exact hinv.n_le, by rw [h1]; exact hinv.incr,
                  by rw [h1, e1]; exact hinv.le_n⟩
              · have := hinv.line_eq
                have := hinv.n_eq
                exact ⟨by omega, by omega, by omega, by rw [h1]; exact hinv.incr, by
                  intro x hx; rw [h1] at hx; have := hinv.le_n x hx; omega⟩
            obtain ⟨a1, a2, a3, a4, a5⟩ := parse_breaks_from srcLen fuel toks1 st1 tblS air tbl' hinv1 h
            refine ⟨a1, ?_, a3, a4, ?_⟩
            · intro x; rw [a2 x, h1]
            · intro x hx
              have := a5 x hx
              rcases h2 with ⟨e1, _⟩ | ⟨e1, _⟩ <;> omega

theorem pinv_init : PInv { orig := none, stmts := [], n := 0, bps := [], line := 1, tokEnd := 0 } :=
  ⟨rfl, rfl, by decide, List.Pairwise.nil, by intro x hx; cases hx⟩

/-- The indices at which `parse` meets `.break` directives in a source text. -/
def sourceBreaks (feat : Option Bool) (tbl : SymTab) (src : List Char) : List Nat :=
  match preprocess feat src with
  | .ok toks =>
    breakSeen (utf8Len src) (toks.length + 1) toks
      { orig := none, stmts := [], n := 0, bps := [], line := 1, tokEnd := 0 } tbl
  | _ => []

/-- **`.break` ↦ index of the next statement, whole program, every source text.** When `parse`
succeeds, the breakpoint list it hands to the debugger is strictly increasing (sorted, no
duplicates: a doubled `.break` gives one entry), its members are exactly the statement counts at
which a `.break` was met (the index of the next statement; for a trailing `.break` the number of
statements), every entry is ≤ the number of statements, and there are at most 65,535 statements. -/
theorem parse_breaks (feat : Option Bool) (tbl : SymTab) (src : List Char) (air : Air) (tbl' : SymTab)
    (h : parse feat tbl src = (.ok air, tbl')) :
    Incr air.bps ∧ (∀ x, x ∈ air.bps ↔ x ∈ sourceBreaks feat tbl src) ∧
    (∀ x ∈ air.bps, x ≤ air.stmts.length) ∧ air.stmts.length ≤ 65535 := by
  unfold parse at h
  unfold sourceBreaks
  cases hp : preprocess feat src with
  | diag k s => rw [hp] at h; simp at h
  | panic s => rw [hp] at h; simp at h
  | ok toks =>
    rw [hp] at h
    simp only at h ⊢
    obtain ⟨a1, a2, a3, a4, _⟩ := parse_breaks_from _ _ toks _ tbl air tbl' pinv_init h
    exact ⟨a1, fun x => by rw [a2 x]; simp, a3, a4⟩

theorem backpatchAll_length (tbl : SymTab) : ∀ (l l' : List AsmLine), backpatchAll tbl l = some l' →
    l'.length = l.length
  | [], l', h => by simp [backpatchAll] at h; subst h; rfl
  | a :: rest, l', h => by
    unfold backpatchAll at h
    split at h
    · cases h
    · split at h
      · cases h
      · rename_i rest' hr
        simp only [Option.some.injEq] at h
        subst h
        simp [backpatchAll_length tbl rest rest' hr]

theorem emitAll_length : ∀ (l : List AsmLine) (acc ws : List Word), emitAll l acc = .ok ws →
    ws.length = acc.length + l.length
  | [], acc, ws, h => by simp [emitAll] at h; subst h; simp
  | a :: rest, acc, ws, h => by
    unfold emitAll at h
    split at h
    · have := emitAll_length rest _ ws h
      simp only [List.length_cons] at this ⊢
      omega
    · cases h
    · cases h

/-- **`.break` ↦ index of the next statement, through `assemble`.** The image carries the parser's
list: strictly increasing, exactly the indices at which `.break` was met, each at most the number
of emitted words (one word per statement), at most 65,535 words. -/
theorem assemble_breaks (feat : Option Bool) (tbl : SymTab) (src : List Char) (img : Image) (tbl' : SymTab)
    (h : assembleWith feat tbl src = (.ok img, tbl')) :
    Incr img.bps ∧ (∀ x, x ∈ img.bps ↔ x ∈ sourceBreaks feat tbl src) ∧
    (∀ x ∈ img.bps, x ≤ img.words.length) ∧ img.words.length ≤ 65535 := by
  unfold assembleWith at h
  split at h
  · cases h
  · cases h
  · rename_i air tblP hp
    obtain ⟨a1, a2, a3, a4⟩ := parse_breaks feat tbl src air tblP hp
    split at h
    · cases h
    · rename_i stmts hb
      have hl1 := backpatchAll_length tblP _ _ hb
      split at h
      · cases h
      · cases h
      · rename_i words he
        have hl2 := emitAll_length _ _ _ he
        simp only [Prod.mk.injEq, Outcome.ok.injEq] at h
        obtain ⟨rfl, _⟩ := h
        simp only [List.length_nil, Nat.zero_add] at hl2
        simp only
        rw [hl2, hl1]
        exact ⟨a1, a2, a3, a4⟩

/-- breakpoint list and number of statements of a successful assembly -/
def Outcome.breaks? : Outcome → Option (List Nat × Nat)
  | .ok img => some (img.bps, img.words.length)
  | _ => none

/-- On real text: `.break` before the first statement ↦ 0; doubled `.break` ↦ one entry; `.break`
after a prefix label and after a two-word `.stringz` ↦ the word index 3; trailing `.break` ↦ the
number of statements (4). -/
example :
    Outcome.breaks? (assemble false [] ".break\n.break\nadd r0 r0 #1\n.stringz \"a\"\nl .break\nhalt\n.break".toList).1
      = some ([0, 3, 4], 4) ∧
    sourceBreaks (some false) [] ".break\n.break\nadd r0 r0 #1\n.stringz \"a\"\nl .break\nhalt\n.break".toList
      = [0, 0, 3, 4] := by decide +kernel

end Lace.C11
