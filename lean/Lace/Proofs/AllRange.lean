/-
  Exhaustive kernel evaluation over an initial segment of ℕ by divide and conquer
  (plain `decide` on `∀ n : Fin 65536, …` exhausts the kernel's recursion depth).
-/
namespace Lace

/-- `allRange p d lo` checks `p` on `[lo, lo + 2^d)`. -/
def allRange (p : Nat → Bool) : Nat → Nat → Bool
  | 0, lo => p lo
  | d + 1, lo => allRange p d lo && allRange p d (lo + 2 ^ d)

theorem allRange_sound (p : Nat → Bool) :
    ∀ d lo, allRange p d lo = true → ∀ n, lo ≤ n → n < lo + 2 ^ d → p n = true
  | 0, lo, h, n, h1, h2 => by
    have : n = lo := by omega
    subst this; exact h
  | d + 1, lo, h, n, h1, h2 => by
    simp only [allRange, Bool.and_eq_true] at h
    by_cases hn : n < lo + 2 ^ d
    · exact allRange_sound p d lo h.1 n h1 hn
    · exact allRange_sound p d (lo + 2 ^ d) h.2 n (by omega) (by rw [Nat.pow_succ] at h2; omega)

/-- A Boolean predicate on 16-bit words that evaluates to `true` on all 65,536 of them holds. -/
theorem forall_word_of_allRange (p : BitVec 16 → Bool)
    (h : allRange (fun n => p (BitVec.ofNat 16 n)) 16 0 = true) : ∀ w, p w = true := by
  intro w
  have := allRange_sound _ 16 0 h w.toNat (Nat.zero_le _) (by simpa using w.isLt)
  simpa using this

end Lace
