/-
  Positions of tokens in a preprocessed token stream (C17, text level).

  `PosOk e toks`: the tokens stand in reading order behind byte offset `e` — every token is
  non-empty and begins at or after the end of the last token before it that is not a data word (the
  data words of one `.fill` / `.blkw` / `.stringz` all carry the directive's span, so they repeat a
  position; the parser does not move `tok_end` over them).  This is what the parser's span
  computation (`PState.addStmt`, `tok_end`) relies on; the preprocessor establishes it on rendered
  text (`Proofs/PreRender.lean`) and the parser consumes it (`Proofs/ParseSpans.lean`).
-/
import Lace.Model.Parser
namespace Lace.Asm

/-- byte offset just behind the token -/
def endOf (t : Token) : Nat := t.span.offs + t.span.len

/-- a data word made by the preprocessor -/
def Token.isByte (t : Token) : Bool :=
  match t.kind with
  | .byte _ => true
  | _ => false

theorem byteTok_isByte (w : Word) (sp : Span) : (byteTok w sp).isByte = true := rfl

theorem isByte_of_kind {t : Token} {w : Word} (h : t.kind = .byte w) : t.isByte = true := by
  unfold Token.isByte; rw [h]

theorem not_isByte_of_kind {t : Token} (h : ∀ w, t.kind ≠ .byte w) : t.isByte = false := by
  unfold Token.isByte
  split
  · rename_i w hk; exact absurd hk (h w)
  · rfl

/-- the tokens stand in reading order behind offset `e` -/
def PosOk : Nat → List Token → Prop
  | _, [] => True
  | e, t :: ts => e ≤ t.span.offs ∧ 0 < t.span.len ∧ PosOk (if t.isByte then e else endOf t) ts

theorem PosOk.mono : ∀ {toks : List Token} {e e' : Nat}, PosOk e toks → e' ≤ e → PosOk e' toks := by
  intro toks
  induction toks with
  | nil => intro _ _ _ _; trivial
  | cons t ts ih =>
    intro e e' h hle
    obtain ⟨h1, h2, h3⟩ := h
    refine ⟨Nat.le_trans hle h1, h2, ?_⟩
    cases hb : t.isByte with
    | true => simp only [hb, if_true] at h3 ⊢; exact ih h3 hle
    | false => simp only [hb, Bool.false_eq_true, if_false] at h3 ⊢; exact h3

/-- behind a token that is not a data word -/
theorem PosOk.tail {t : Token} {ts : List Token} {e : Nat} (h : PosOk e (t :: ts)) (hb : t.isByte = false) :
    e ≤ t.span.offs ∧ 0 < t.span.len ∧ PosOk (endOf t) ts := by
  obtain ⟨h1, h2, h3⟩ := h
  simp only [hb, Bool.false_eq_true, if_false] at h3
  exact ⟨h1, h2, h3⟩

/-- … weakened to the old bound -/
theorem PosOk.tail' {t : Token} {ts : List Token} {e : Nat} (h : PosOk e (t :: ts)) : PosOk e ts := by
  obtain ⟨h1, _, h3⟩ := h
  cases hb : t.isByte with
  | true => simp only [hb, if_true] at h3; exact h3
  | false =>
    simp only [hb, Bool.false_eq_true, if_false] at h3
    exact h3.mono (by unfold endOf; omega)

/-- a run of data words: each begins behind `e`, and so does what follows -/
theorem PosOk.bytes : ∀ {bs rest : List Token} {e : Nat}, PosOk e (bs ++ rest) → (∀ t ∈ bs, t.isByte = true) →
    (∀ t ∈ bs, e ≤ t.span.offs) ∧ PosOk e rest := by
  intro bs
  induction bs with
  | nil => intro rest e h _; exact ⟨fun _ hm => (by cases hm), h⟩
  | cons b bs ih =>
    intro rest e h hb
    obtain ⟨h1, _, h3⟩ := h
    simp only [hb b List.mem_cons_self, if_true] at h3
    obtain ⟨i1, i2⟩ := ih h3 (fun t ht => hb t (List.mem_cons_of_mem _ ht))
    refine ⟨fun t ht => ?_, i2⟩
    rcases List.mem_cons.mp ht with rfl | ht
    · exact h1
    · exact i1 t ht

/-- a run of tokens none of which is a data word: the last one ends behind the start of the first,
and what follows stands behind its end -/
theorem PosOk.run : ∀ {c rest : List Token} {e : Nat}, PosOk e (c ++ rest) → (∀ t ∈ c, t.isByte = false) →
    match c.getLast? with
    | none => PosOk e rest
    | some l => e < endOf l ∧ PosOk (endOf l) rest := by
  intro c
  induction c with
  | nil => intro rest e h _; exact h
  | cons a as ih =>
    intro rest e h hb
    obtain ⟨h1, h2, h3⟩ := PosOk.tail h (hb a List.mem_cons_self)
    have := ih h3 (fun t ht => hb t (List.mem_cons_of_mem _ ht))
    cases as with
    | nil =>
      simp only [List.getLast?_singleton]
      exact ⟨by unfold endOf; omega, h3⟩
    | cons b bs =>
      rw [List.getLast?_cons_cons]
      cases hl : (b :: bs).getLast? with
      | none => simp at hl
      | some l =>
        rw [hl] at this
        simp only [] at this ⊢
        exact ⟨by have : e ≤ endOf a := by unfold endOf; omega
                  omega, this.2⟩

theorem PosOk.append_bytes {e : Nat} {rest : List Token} (h : PosOk e rest) :
    ∀ (bs : List Token), (∀ t ∈ bs, t.isByte = true ∧ e ≤ t.span.offs ∧ 0 < t.span.len) → PosOk e (bs ++ rest) := by
  intro bs
  induction bs with
  | nil => intro _; exact h
  | cons b bs ih =>
    intro hb
    obtain ⟨b1, b2, b3⟩ := hb b List.mem_cons_self
    refine ⟨b2, b3, ?_⟩
    simp only [b1, if_true]
    exact ih (fun t ht => hb t (List.mem_cons_of_mem _ ht))

end Lace.Asm
