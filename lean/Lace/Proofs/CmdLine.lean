/-
  C14: `Command::try_from` against the grammar of a command line.
-/
import Lace.Proofs.CmdArgs
import Lace.Proofs.CmdValues
import Lace.Model.Cmd.Command
namespace Lace.C14
open Lace.Cmd Lace.CmdGrammar

/-- The iterator stands before `rest` (no separators in it) and has handed out `k` arguments. -/
structure Inv (it : Arguments) (rest : List Char) (k : Nat) : Prop where
  view : ArgsView it rest
  count : it.argCount = k
  nosep : NoSep rest
  small : k < 10

theorem Inv.after {it it' : Arguments} {rest : List Char} {k k' : Nat} (h : Inv it rest k)
    (hv : ArgsView it' (afterWord rest)) (hc : it'.argCount = k') (hk : k' < 10) :
    Inv it' (afterWord rest) k' :=
  ⟨hv, hc, h.nosep.of_sublist (afterWord_sublist rest), hk⟩

theorem nextArgumentStr_inv {it : Arguments} {rest : List Char} {k : Nat} (h : Inv it rest k) :
    (firstWord rest = [] → it.nextArgumentStr = .none it) ∧
    (firstWord rest ≠ [] → ∃ it', it.nextArgumentStr = .some (firstWord rest) it' ∧
        ArgsView it' (afterWord rest) ∧ it'.argCount = k + 1) := by
  have ht := nextTokenStr_view h.view h.nosep
  constructor
  · intro hw
    simp [Arguments.nextArgumentStr, ht.1 hw]
  · intro hw
    obtain ⟨it', h1, h2, h3⟩ := ht.2 hw
    have hsm : ¬ (it'.argCount + 1 > 255) := by have := h.small; have := h.count; omega
    refine ⟨{ it' with argCount := it'.argCount + 1 }, ?_, ?_, ?_⟩
    · simp [Arguments.nextArgumentStr, h1, hsm]
    · exact h2
    · simp [h3, h.count]

theorem expectEnd_inv {it : Arguments} {rest : List Char} {k : Nat} (h : Inv it rest k) :
    (noMoreWords rest = true → ∃ it', it.expectEnd = .ok () it') ∧
    (noMoreWords rest = false → it.expectEnd = .err) := by
  have ha := nextArgumentStr_inv h
  unfold noMoreWords
  constructor
  · intro hw
    have hw' : firstWord rest = [] := by simpa using hw
    exact ⟨it, by simp [Arguments.expectEnd, ha.1 hw']⟩
  · intro hw
    have hw' : firstWord rest ≠ [] := by simpa using hw
    obtain ⟨it', h1, _, _⟩ := ha.2 hw'
    simp [Arguments.expectEnd, h1]

theorem finish_eq {it : Arguments} {rest : List Char} {k : Nat} (h : Inv it rest k)
    (c : Command) : finish c it = done c rest := by
  have hsm : ¬ (it.argCount + 1 > 255) := by have := h.small; have := h.count; omega
  have he := expectEnd_inv h
  unfold finish done
  simp only [hsm, if_false]
  cases hn : noMoreWords rest with
  | true => obtain ⟨it', h1⟩ := he.1 hn; simp [h1]
  | false => simp [he.2 hn]

theorem firstWord_nil : firstWord [] = [] := rfl

theorem restCommand_eq {it : Arguments} {rest : List Char} {k : Nat} (h : Inv it rest k)
    (mk : List Char → Command) :
    restCommand mk it = if trim rest = [] then .err else .ok (mk (trim rest)) := by
  obtain ⟨pre, hb, hc⟩ := h.view
  have hdrop : dropBytes it.buffer it.cursor = some rest := by rw [hb, hc, dropBytes_append]
  unfold restCommand Arguments.getRest
  simp only [hdrop]
  by_cases ht : trim rest = []
  · simp [ht]
  · have hinv : Inv { it with cursor := utf8Len it.buffer } [] k :=
      ⟨⟨it.buffer, by simp, rfl⟩, h.count, by intro c hc; simp at hc, h.small⟩
    obtain ⟨it', h1⟩ := (expectEnd_inv hinv).1 rfl
    simp [ht, h1]

/-! ### typed arguments -/

theorem nextIntegerOr_inv {it : Arguments} {rest : List Char} {k : Nat} (h : Inv it rest k)
    (d : Option Word) :
    (firstWord rest = [] → it.nextIntegerOr d =
        match d with | some w => .ok w it | none => .err) ∧
    (firstWord rest ≠ [] →
      (intArg (firstWord rest) = none → it.nextIntegerOr d = .err) ∧
      (∀ w, intArg (firstWord rest) = some w → ∃ it', it.nextIntegerOr d = .ok w it' ∧
          ArgsView it' (afterWord rest) ∧ it'.argCount = k + 1)) := by
  have ha := nextArgumentStr_inv h
  constructor
  · intro hw
    simp only [Arguments.nextIntegerOr, ha.1 hw]
    cases d <;> rfl
  · intro hw
    obtain ⟨it', h1, h2, h3⟩ := ha.2 hw
    generalize firstWord rest = t at *
    have hnp := integer_noPanic t
    unfold intArg
    simp only [Arguments.nextIntegerOr, h1, parseInteger_eq]
    cases hi : integer t with
    | ok v =>
      have hck := checkNaive_integer hi
      simp only [hck, not_true_eq_false, if_false, asU16Cast_eq]
      cases hv : CmdGrammar.asU16Cast v with
      | none => simp
      | some w => simp; exact ⟨h2, h3⟩
    | none => simp
    | err => simp
    | panic s => exact absurd hi (hnp s)

theorem nextMemoryLocationOr_inv {it : Arguments} {rest : List Char} {k : Nat}
    (h : Inv it rest k) (d : Option MemLoc) :
    (firstWord rest = [] → it.nextMemoryLocationOr d =
        match d with | some l => .ok l it | none => .err) ∧
    (firstWord rest ≠ [] →
      (memLocArg (firstWord rest) = none → it.nextMemoryLocationOr d = .err) ∧
      (∀ l, memLocArg (firstWord rest) = some l → ∃ it', it.nextMemoryLocationOr d = .ok l it' ∧
          ArgsView it' (afterWord rest) ∧ it'.argCount = k + 1)) := by
  have ha := nextArgumentStr_inv h
  constructor
  · intro hw
    simp only [Arguments.nextMemoryLocationOr, ha.1 hw]
    cases d <;> rfl
  · intro hw
    obtain ⟨it', h1, h2, h3⟩ := ha.2 hw
    generalize firstWord rest = t at *
    have hnp := memLoc_noPanic t
    unfold memLocArg
    simp only [Arguments.nextMemoryLocationOr, h1, checkNaive_memLoc, tryParseMemLoc_eq]
    cases hr : (registerLike t).isSome with
    | true => simp
    | false =>
      simp only [Bool.not_false, not_true_eq_false, if_false, Bool.false_eq_true]
      cases hm : memLoc t with
      | ok l => simp; exact ⟨h2, h3⟩
      | none => simp
      | err => simp
      | panic s => exact absurd hm (hnp s)

theorem nextLocationOr_inv {it : Arguments} {rest : List Char} {k : Nat} (h : Inv it rest k)
    (d : Option Loc) :
    (firstWord rest = [] → it.nextLocationOr d =
        match d with | some l => .ok l it | none => .err) ∧
    (firstWord rest ≠ [] →
      (locArg (firstWord rest) = none → it.nextLocationOr d = .err) ∧
      (∀ l, locArg (firstWord rest) = some l → ∃ it', it.nextLocationOr d = .ok l it' ∧
          ArgsView it' (afterWord rest) ∧ it'.argCount = k + 1)) := by
  have ha := nextArgumentStr_inv h
  constructor
  · intro hw
    simp only [Arguments.nextLocationOr, ha.1 hw]
    cases d <;> rfl
  · intro hw
    obtain ⟨it', h1, h2, h3⟩ := ha.2 hw
    generalize firstWord rest = t at *
    have hnp := tryParseLoc_noPanic t
    have hcl := tryParseLoc_collapse t
    simp only [Arguments.nextLocationOr, h1]
    cases hm : tryParseLoc t with
    | ok l =>
      rw [hm] at hcl
      simp only [collapse] at hcl
      simp [← hcl]; exact ⟨h2, h3⟩
    | none => rw [hm] at hcl; simp only [collapse] at hcl; simp [← hcl]
    | err => rw [hm] at hcl; simp only [collapse] at hcl; simp [← hcl]
    | panic s => exact absurd hm (hnp s)

/-! ### `parse_arguments` -/

theorem oneMemLoc_eq {it : Arguments} {rest : List Char} (h : Inv it rest 0)
    (mk : MemLoc → Command) :
    (match it.nextMemoryLocation with
      | .ok location it' => finish (mk location) it'
      | .err => .err
      | .panic s => .panic s) = oneMemLoc mk rest := by
  have hm := nextMemoryLocationOr_inv h none
  unfold oneMemLoc Arguments.nextMemoryLocation
  by_cases hw : firstWord rest = []
  · have : memLocArg (firstWord rest) = none := by rw [hw]; rfl
    simp [hm.1 hw, this]
  · obtain ⟨h1, h2⟩ := hm.2 hw
    cases hl : memLocArg (firstWord rest) with
    | none => simp [h1 hl]
    | some l =>
      obtain ⟨it', e, hv, hc⟩ := h2 l hl
      simp only [e]
      exact finish_eq (h.after hv hc (by omega)) _

theorem parseArguments_eq {it : Arguments} {rest : List Char} (h : Inv it rest 0)
    (name : CommandName) : parseArguments name it = arguments name rest := by
  cases name with
  | help => rfl
  | stepOver => exact finish_eq h _
  | stepOut => exact finish_eq h _
  | continue_ => exact finish_eq h _
  | registers => exact finish_eq h _
  | reset => exact finish_eq h _
  | quit => exact finish_eq h _
  | exit => exact finish_eq h _
  | breakList => exact finish_eq h _
  | goto => exact oneMemLoc_eq h _
  | breakAdd => exact oneMemLoc_eq h _
  | breakRemove => exact oneMemLoc_eq h _
  | eval => exact restCommand_eq h _
  | echo => exact restCommand_eq h _
  | assembly =>
    simp only [parseArguments, arguments]
    have hm := nextMemoryLocationOr_inv h (some (.pcOffset 0))
    by_cases hw : firstWord rest = []
    · have hn : noMoreWords rest = true := by simp [noMoreWords, hw]
      simp only [Arguments.nextMemoryLocationOrDefault, hm.1 hw, hn, if_true]
      have := finish_eq h (.assembly (.pcOffset 0))
      simp only [this, done, hn, if_true]
    · have hn : noMoreWords rest = false := by simp [noMoreWords, hw]
      simp only [hn, Bool.false_eq_true, if_false]
      obtain ⟨h1, h2⟩ := hm.2 hw
      unfold oneMemLoc Arguments.nextMemoryLocationOrDefault
      cases hl : memLocArg (firstWord rest) with
      | none => simp [h1 hl]
      | some l =>
        obtain ⟨it', e, hv, hc⟩ := h2 l hl
        simp only [e]
        exact finish_eq (h.after hv hc (by omega)) _
  | stepInto =>
    simp only [parseArguments, arguments, Arguments.nextPositiveIntegerOrDefault]
    have hm := nextIntegerOr_inv h (some 1#16)
    by_cases hw : firstWord rest = []
    · have hn : noMoreWords rest = true := by simp [noMoreWords, hw]
      simp only [hm.1 hw, hn, if_true]
      have := finish_eq h (.stepInto 1#16)
      simpa [done, hn] using this
    · have hn : noMoreWords rest = false := by simp [noMoreWords, hw]
      simp only [hn, Bool.false_eq_true, if_false]
      obtain ⟨h1, h2⟩ := hm.2 hw
      cases hl : intArg (firstWord rest) with
      | none => simp [h1 hl]
      | some w =>
        obtain ⟨it', e, hv, hc⟩ := h2 w hl
        simp only [e]
        have hmax : (if w.toNat < 1 then 1#16 else w) = (if w = 0#16 then 1#16 else w) := by
          by_cases hz : w = 0#16
          · subst hz; rfl
          · have : ¬ w.toNat < 1 := by
              intro hlt
              apply hz
              apply BitVec.eq_of_toNat_eq
              simp; omega
            simp [hz, this]
        rw [hmax]
        exact finish_eq (h.after hv hc (by omega)) _
  | print =>
    simp only [parseArguments, arguments]
    have hm := nextLocationOr_inv h (some (.mem (.pcOffset 0)))
    by_cases hw : firstWord rest = []
    · have hn : noMoreWords rest = true := by simp [noMoreWords, hw]
      simp only [Arguments.nextLocationOrDefault, hm.1 hw, hn, if_true]
      have := finish_eq h (.print (.mem (.pcOffset 0)))
      simp only [this, done, hn, if_true]
    · have hn : noMoreWords rest = false := by simp [noMoreWords, hw]
      simp only [hn, Bool.false_eq_true, if_false]
      obtain ⟨h1, h2⟩ := hm.2 hw
      unfold Arguments.nextLocationOrDefault
      cases hl : locArg (firstWord rest) with
      | none => simp [h1 hl]
      | some l =>
        obtain ⟨it', e, hv, hc⟩ := h2 l hl
        simp only [e]
        exact finish_eq (h.after hv hc (by omega)) _
  | move =>
    simp only [parseArguments, arguments, Arguments.nextLocation]
    have hm := nextLocationOr_inv h none
    by_cases hw : firstWord rest = []
    · have : locArg (firstWord rest) = none := by rw [hw]; rfl
      simp [hm.1 hw, this]
    · obtain ⟨h1, h2⟩ := hm.2 hw
      cases hl : locArg (firstWord rest) with
      | none => simp [h1 hl]
      | some l =>
        obtain ⟨it', e, hv, hc⟩ := h2 l hl
        simp only [e]
        have h' := h.after hv hc (by omega)
        have hi := nextIntegerOr_inv h' none
        unfold Arguments.nextInteger
        by_cases hw2 : firstWord (afterWord rest) = []
        · have : intArg (firstWord (afterWord rest)) = none := by rw [hw2]; rfl
          simp [hi.1 hw2, this]
        · obtain ⟨g1, g2⟩ := hi.2 hw2
          cases hv2 : intArg (firstWord (afterWord rest)) with
          | none => simp [g1 hv2]
          | some v =>
            obtain ⟨it'', e2, hv', hc'⟩ := g2 v hv2
            simp only [e2]
            exact finish_eq (h'.after hv' hc' (by omega)) _

/-! ### command names -/

theorem toAsciiLower_eq (c : Char) : toAsciiLower c = toLower c := by
  have e1 : 'A'.toNat = 65 := by decide
  have e2 : 'Z'.toNat = 90 := by decide
  simp [toAsciiLower, toLower, e1, e2]

theorem nameMatches_eq (w : List Char) (cands : List String) :
    nameMatches w cands = cands.any (sameName w) := by
  have : toAsciiLower = toLower := funext toAsciiLower_eq
  unfold nameMatches eqIgnoreAsciiCase
  rw [this]
  rfl

def okName : Except (Option CommandName) CommandName → Option CommandName
  | .ok n => some n
  | .error _ => none

theorem findNameMatch_ok (w : List Char) (entries : List NameEntry) :
    okName (findNameMatch w entries) =
      (entries.find? (fun e => e.candidates.any (sameName w))).map (·.name) := by
  unfold findNameMatch
  simp only [nameMatches_eq]
  cases h : entries.find? (fun e => e.candidates.any (sameName w)) with
  | some e => rfl
  | none =>
    simp only [Option.map_none]
    split <;> rfl

theorem step_table (w : List Char) :
    okName (findNameMatch w SUBCOMMANDS_STEP) = lookup w stepTable := by
  rw [findNameMatch_ok]
  simp only [SUBCOMMANDS_STEP, stepTable, lookup, List.find?, List.any_nil]
  repeat' split
  all_goals simp_all

theorem break_table (w : List Char) :
    okName (findNameMatch w SUBCOMMANDS_BREAK) = lookup w breakTable := by
  rw [findNameMatch_ok]
  simp only [SUBCOMMANDS_BREAK, breakTable, lookup, List.find?, List.any_nil]
  repeat' split
  all_goals simp_all

theorem command_table (w : List Char) :
    okName (findNameMatch w COMMANDS) = lookup w commandTable := by
  rw [findNameMatch_ok]
  simp only [COMMANDS, commandTable, lookup, List.find?, List.any_nil]
  repeat' split
  all_goals simp_all

/-- What `get_command_name` returns, against the grammar's `commandName`. -/
def NameRel (o : NameOutcome) (spec : Option (CommandName × List Char)) : Prop :=
  match o, spec with
  | .ok n it, some (n', rest) => n = n' ∧ Inv it rest 0
  | .err _, none => True
  | _, _ => False

theorem subcommand_rel {it : Arguments} {rest : List Char} (h : Inv it rest 0)
    (w : List Char) (names : List String) (subs : List NameEntry)
    (table : List (CommandName × List String)) (default : Option CommandName)
    (htable : ∀ s, okName (findNameMatch s subs) = lookup s table)
    (hm : names.any (sameName w) = true) :
    ∃ o, it.nameMatchesWithSubcommand w names subs default = some o ∧
      NameRel o (if firstWord rest = [] then default.map (·, rest)
                 else (lookup (firstWord rest) table).map (·, afterWord rest)) := by
  have ht := nextTokenStr_view h.view h.nosep
  unfold Arguments.nameMatchesWithSubcommand
  simp only [nameMatches_eq, hm, not_true_eq_false, if_false]
  by_cases hw : firstWord rest = []
  · simp only [ht.1 hw, hw, if_true]
    cases default with
    | none => exact ⟨_, rfl, trivial⟩
    | some c => exact ⟨_, rfl, rfl, h⟩
  · obtain ⟨it', h1, h2, h3⟩ := ht.2 hw
    simp only [h1, hw, if_false]
    have hk := htable (firstWord rest)
    cases hf : findNameMatch (firstWord rest) subs with
    | ok c =>
      rw [hf] at hk
      simp only [okName] at hk
      refine ⟨_, rfl, ?_⟩
      rw [← hk]
      exact ⟨rfl, h.after h2 (by rw [h3, h.count]) (by omega)⟩
    | error e =>
      rw [hf] at hk
      simp only [okName] at hk
      refine ⟨_, rfl, ?_⟩
      rw [← hk]
      trivial

theorem inv_from (line : List Char) (hs : NoSep line) : Inv (Arguments.from line) line 0 :=
  ⟨⟨[], rfl, rfl⟩, rfl, hs, by omega⟩

/-- `get_command_name` on a line without separators whose first word is not empty. -/
theorem getCommandName_rel (line : List Char) (hs : NoSep line) (hw : firstWord line ≠ []) :
    ((Arguments.from line).getCommandName = .exit 0 ∧ firstWord line = "sudo".toList) ∨
    (firstWord line ≠ "sudo".toList ∧
      NameRel (Arguments.from line).getCommandName (commandName line)) := by
  have h0 := inv_from line hs
  have ht := nextTokenStr_view h0.view h0.nosep
  obtain ⟨it1, h1, h2, h3⟩ := ht.2 hw
  have h1inv : Inv it1 (afterWord line) 0 := h0.after h2 (by rw [h3]; rfl) (by omega)
  unfold Arguments.getCommandName
  have hcur : (Arguments.from line).cursor = 0 := rfl
  simp only [hcur, ne_eq, not_true_eq_false, if_false, h1]
  unfold commandName
  simp only
  generalize firstWord line = w at *
  have hcs : COMMAND_STEP = stepNames := rfl
  have hcb : COMMAND_BREAK = breakNames := rfl
  rw [hcs, hcb]
  by_cases hstep : stepNames.any (sameName w) = true
  · right
    have hns : w ≠ "sudo".toList := by intro e; subst e; revert hstep; decide
    obtain ⟨o, ho, hrel⟩ := subcommand_rel h1inv w stepNames SUBCOMMANDS_STEP stepTable
      (some .stepOver) step_table hstep
    refine ⟨hns, ?_⟩
    simp only [ho, hstep, if_true]
    by_cases hsub : firstWord (afterWord line) = []
    · simpa [hsub] using hrel
    · simpa [hsub] using hrel
  · have hstep' : nameMatches w stepNames = false := by
      rw [nameMatches_eq]; simpa using hstep
    have e1 : it1.nameMatchesWithSubcommand w stepNames SUBCOMMANDS_STEP (some .stepOver) = none := by
      simp [Arguments.nameMatchesWithSubcommand, hstep']
    simp only [e1, hstep, Bool.false_eq_true, if_false]
    by_cases hbreak : breakNames.any (sameName w) = true
    · right
      have hns : w ≠ "sudo".toList := by intro e; subst e; revert hbreak; decide
      obtain ⟨o, ho, hrel⟩ := subcommand_rel h1inv w breakNames SUBCOMMANDS_BREAK breakTable
        none break_table hbreak
      refine ⟨hns, ?_⟩
      simp only [ho, hbreak, if_true]
      by_cases hsub : firstWord (afterWord line) = []
      · simpa [hsub] using hrel
      · simpa [hsub] using hrel
    · have hbreak' : nameMatches w breakNames = false := by
        rw [nameMatches_eq]; simpa using hbreak
      have e2 : it1.nameMatchesWithSubcommand w breakNames SUBCOMMANDS_BREAK none = none := by
        simp [Arguments.nameMatchesWithSubcommand, hbreak']
      simp only [e2, hbreak, Bool.false_eq_true, if_false]
      have hk := command_table w
      cases hf : findNameMatch w COMMANDS with
      | ok c =>
        right
        rw [hf] at hk
        simp only [okName] at hk
        have hns : w ≠ "sudo".toList := by
          intro e; subst e
          have : lookup "sudo".toList commandTable = none := by decide
          rw [this] at hk; cases hk
        refine ⟨hns, ?_⟩
        rw [← hk]
        exact ⟨rfl, h1inv⟩
      | error e =>
        rw [hf] at hk
        simp only [okName] at hk
        by_cases hsudo : w = "sudo".toList
        · left; simp [hsudo]
        · right
          refine ⟨hsudo, ?_⟩
          simp only [hsudo, if_false]
          rw [← hk]
          trivial

/-- **`Command::try_from` is the grammar of a command line**, except that the word `sudo`
exits the process (K1). -/
theorem parseLine_eq (line : List Char) (hs : NoSep line) (hw : firstWord line ≠ []) :
    Cmd.parseLine line =
      if firstWord line = "sudo".toList then .exit 0 else CmdGrammar.parseLine line := by
  rcases getCommandName_rel line hs hw with ⟨h1, h2⟩ | ⟨h1, h2⟩
  · simp [Cmd.parseLine, h1, h2]
  · simp only [h1, if_false]
    unfold Cmd.parseLine CmdGrammar.parseLine
    cases ho : (Arguments.from line).getCommandName with
    | ok n it =>
      rw [ho] at h2
      cases hc : commandName line with
      | none => rw [hc] at h2; exact h2.elim
      | some p =>
        obtain ⟨n', rest⟩ := p
        rw [hc] at h2
        obtain ⟨e, hinv⟩ := h2
        subst e
        exact parseArguments_eq hinv n
    | err sg =>
      rw [ho] at h2
      cases hc : commandName line with
      | none => rfl
      | some p => rw [hc] at h2; exact h2.elim
    | exit code => rw [ho] at h2; cases hc : commandName line <;> rw [hc] at h2 <;> exact h2.elim
    | panic s => rw [ho] at h2; cases hc : commandName line <;> rw [hc] at h2 <;> exact h2.elim

end Lace.C14
