/-
  C15: the PC clause and the session clause of `eval`, shown of the specification `execAbs`
  (case analysis over `Spec.Instr`); `Props/C15.lean` transfers them to the model.
-/
import Lace.Proofs.EvalLemmas
import Lace.Model.AsmSource
namespace Lace.C15Spec
open Lace Lace.Asm Lace.Spec Lace.ISA Lace.Dbg

theorem writeDR_pc (m : Machine) (d : BitVec 3) (v : Word) : (writeDR m d v).pc = m.pc := rfl

theorem trap_vec_cases (v : BitVec 8) (h : offLimits (.trap v) = none) :
    v.toNat = 0x20 ∨ v.toNat = 0x21 ∨ v.toNat = 0x22 ∨ v.toNat = 0x23 ∨ v.toNat = 0x24 ∨
    v.toNat = 0x26 ∨ v.toNat = 0x27 := by
  have ho : offLimits (.trap v) = (if v = 0x25#8 then some "DisallowedInstruction::Halt"
        else if v.toNat < 0x20 ∨ 0x27 < v.toNat then some "DisallowedInstruction::UnknownTrap"
        else none) := rfl
  rw [ho] at h
  by_cases h1 : v = 0x25#8
  · simp [h1] at h
  · by_cases h2 : v.toNat < 0x20 ∨ 0x27 < v.toNat
    · simp [h1, h2] at h
    · have h3 : v.toNat ≠ 0x25 := by
        intro h'; exact h1 (BitVec.eq_of_toNat_eq (by rw [h']; decide))
      omega

theorem execAbs_pc (so mi : Bool) (i : Spec.Instr) (m m' : Machine) (w w' : World)
    (hoff : offLimits i = none) (hj : isJump i = false) (h : execAbs so mi i m w = .ok m' w') :
    m'.pc = m.pc := by
  cases i with
  | jmp _ => cases hj
  | ret => cases hj
  | jsr _ => cases hj
  | jsrr _ => cases hj
  | call _ => cases hj
  | rets => cases hj
  | br _ _ => cases hoff
  | rti => cases hoff
  | fill _ => change StepResult.ok m w = _ at h; injection h with h1 h2; subst h1; rfl
  | addReg d a b => change StepResult.ok (writeDR m d _) w = _ at h; injection h with h1 h2; subst h1; rfl
  | addImm d a b => change StepResult.ok (writeDR m d _) w = _ at h; injection h with h1 h2; subst h1; rfl
  | andReg d a b => change StepResult.ok (writeDR m d _) w = _ at h; injection h with h1 h2; subst h1; rfl
  | andImm d a b => change StepResult.ok (writeDR m d _) w = _ at h; injection h with h1 h2; subst h1; rfl
  | not d a => change StepResult.ok (writeDR m d _) w = _ at h; injection h with h1 h2; subst h1; rfl
  | ldr d a b => change StepResult.ok (writeDR m d _) w = _ at h; injection h with h1 h2; subst h1; rfl
  | ld d t => change StepResult.ok (writeDR m d _) w = _ at h; injection h with h1 h2; subst h1; rfl
  | ldi d t => change StepResult.ok (writeDR m d _) w = _ at h; injection h with h1 h2; subst h1; rfl
  | lea d t => change StepResult.ok (writeDR m d _) w = _ at h; injection h with h1 h2; subst h1; rfl
  | str d a b => change StepResult.ok (m.write _ _) w = _ at h; injection h with h1 h2; subst h1; rfl
  | st d t => change StepResult.ok (m.write _ _) w = _ at h; injection h with h1 h2; subst h1; rfl
  | sti d t => change StepResult.ok (m.write _ _) w = _ at h; injection h with h1 h2; subst h1; rfl
  | push sr =>
    change (if so then StepResult.ok (pushWord m (m.getReg sr)) w else .exit 1 w) = _ at h
    split at h
    · injection h with h1 h2; subst h1; rfl
    · cases h
  | pop dr =>
    change (if so then StepResult.ok ((popWord m).2.setReg dr (popWord m).1) w else .exit 1 w) = _ at h
    split at h
    · injection h with h1 h2; subst h1; rfl
    · cases h
  | trap v =>
    change execTrap mi v m w = _ at h
    rcases trap_vec_cases v hoff with hv | hv | hv | hv | hv | hv | hv <;>
      simp only [execTrap, hv] at h
    · cases hg : getc w with
      | none => rw [hg] at h; cases h
      | some x => obtain ⟨a, b, c⟩ := x; rw [hg] at h; rw [← (StepResult.ok.inj h).1]; rfl
    · rw [← (StepResult.ok.inj h).1]
    · rw [← (StepResult.ok.inj h).1]
    · cases hg : getc w with
      | none => rw [hg] at h; cases h
      | some x => obtain ⟨a, b, c⟩ := x; rw [hg] at h; rw [← (StepResult.ok.inj h).1]; rfl
    · rw [← (StepResult.ok.inj h).1]
    · rw [← (StepResult.ok.inj h).1]
    · rw [← (StepResult.ok.inj h).1]

end Lace.C15Spec

namespace Lace.C15Spec
open Lace Lace.Asm Lace.Spec Lace.ISA Lace.Dbg

theorem getc_none (w : World) (h : getc w = none) : w.inp = [] := by
  unfold getc at h
  cases hi : w.inp with
  | nil => rfl
  | cons b rest => rw [hi] at h; simp only [] at h; split at h <;> cases h

theorem execAbs_ends (so mi : Bool) (i : Spec.Instr) (m : Machine) (w : World)
    (hoff : offLimits i = none) :
    (∀ site, execAbs so mi i m w ≠ .panic site) ∧
    (∀ c w', execAbs so mi i m w = .exit c w' → c = 1 ∧ (w.inp = [] ∨ so = false)) := by
  have okc : ∀ (a : Machine) (b : World), (∀ site, StepResult.ok a b ≠ .panic site) ∧
      (∀ c w', StepResult.ok a b = .exit c w' → c = 1 ∧ (w.inp = [] ∨ so = false)) :=
    fun a b => ⟨fun _ h => (by cases h), fun _ _ h => (by cases h)⟩
  have ite : ∀ (a : Machine) (b : World),
      (∀ site, (if so then StepResult.ok a b else .exit 1 w) ≠ .panic site) ∧
      (∀ c w', (if so then StepResult.ok a b else .exit 1 w) = .exit c w' → c = 1 ∧ (w.inp = [] ∨ so = false)) := by
    intro a b
    cases so with
    | true => exact okc a b
    | false =>
      refine ⟨fun _ h => (by cases h), fun c w' h => ?_⟩
      simp only [Bool.false_eq_true, if_false] at h
      exact ⟨((StepResult.exit.inj h).1).symm, Or.inr rfl⟩
  cases i with
  | br _ _ => cases hoff
  | rti => cases hoff
  | fill _ => exact okc m w
  | jmp b => exact okc _ w
  | ret => exact okc _ w
  | jsr t => exact okc _ w
  | jsrr b => exact okc _ w
  | addReg d a b => exact okc _ w
  | addImm d a b => exact okc _ w
  | andReg d a b => exact okc _ w
  | andImm d a b => exact okc _ w
  | not d a => exact okc _ w
  | ldr d a b => exact okc _ w
  | ld d t => exact okc _ w
  | ldi d t => exact okc _ w
  | lea d t => exact okc _ w
  | str d a b => exact okc _ w
  | st d t => exact okc _ w
  | sti d t => exact okc _ w
  | push sr => exact ite (pushWord m (m.getReg sr)) w
  | pop dr => exact ite ((popWord m).2.setReg dr (popWord m).1) w
  | rets => exact ite ((popWord m).2.setPC (popWord m).1) w
  | call t => exact ite ((pushWord m m.pc).setPC t) w
  | trap v =>
    change (∀ site, execTrap mi v m w ≠ .panic site) ∧
      (∀ c w', execTrap mi v m w = .exit c w' → c = 1 ∧ (w.inp = [] ∨ so = false))
    rcases trap_vec_cases v hoff with hv | hv | hv | hv | hv | hv | hv <;>
      simp only [execTrap, hv]
    · cases hg : getc w with
      | none => exact ⟨fun _ h => (by cases h), fun c w' h => ⟨((StepResult.exit.inj h).1).symm, Or.inl (getc_none w hg)⟩⟩
      | some x => obtain ⟨a, b, c⟩ := x; exact okc _ _
    · exact okc _ _
    · exact okc _ _
    · cases hg : getc w with
      | none => exact ⟨fun _ h => (by cases h), fun c w' h => ⟨((StepResult.exit.inj h).1).symm, Or.inl (getc_none w hg)⟩⟩
      | some x => obtain ⟨a, b, c⟩ := x; exact okc _ _
    · exact okc _ _
    · exact okc _ _
    · exact okc _ _

end Lace.C15Spec
