/-
  C03, the clause "GETC and IN consume exactly one input byte each", when standard input is a
  TERMINAL: GETC / IN then go through `term::read_byte` (`Lace/Model/Term.lean`) instead of the byte
  reader of the pipe case (`VM.readChar` on `World.inp`).

  What the code yields per event (established here from the model of the code as it is):
    * a character key (`Char(c)` pressed or repeated, modifiers `NONE` or `SHIFT`), c ≠ '\n':
        – c < U+0080 (U+0000 included): ONE read, value c;
        – otherwise, N = length of the UTF-8 encoding of c ∈ {2,3,4}: exactly N reads, each U+FFFD
          (the bytes themselves are never handed out; `read_byte` answers `None` N times);
      in both cases the same values, in the same number, as the pipe path on the N bytes;
    * `Enter` (any modifiers) and `Char('\n')` (any modifiers): ONE read, value U+000A — the pipe
      path on the byte x0A (NOT x0D, the byte an Enter key sends to a terminal in raw mode);
    * `Ctrl+C` (modifiers exactly `CONTROL`, `Char('c')`, not a release): the process ends with
      status 0 after a line feed on stdout — no pipe byte does that (a piped x03 is read as 3);
    * every other event (releases, `Backspace`, `Delete`, arrows, other key codes, characters with
      any other modifier set such as Alt+x or Ctrl+a, non-key events): consumed, NO value;
    * no event left: the read waits for ever (`blocked`), where the pipe path ends with status 1.

  * `terminal_key_consumes_n_reads` : a typed character of N UTF-8 bytes = exactly N reads with the
                                      pipe path's values, then the next key is read.
  * `terminal_reads_eq_pipe_reads`  : every event sequence without Ctrl+C, any number of reads: the
                                      values are those of the pipe path on `pipeBytes` of the events.
  * `typed_reads_eq_pipe_reads`     : … for typed characters: the pipe path on their UTF-8 bytes.
  * `counter_bounded`               : the buffered-byte counter never exceeds 3 (and `as u8` is exact).
  * `ignored_event_consumes_nothing`, `ignored_iff` : (c).
  * `nul_yields_zero`, `enter_yields_newline`, `ctrl_c_exits`, `terminal_read_no_panic`.
-/
import Lace.Model.Term
import Lace.Model.VM
namespace Lace.C03
open Lace Lace.Term
open Lace.Editor (Key)

/-! ### The model's loop is the source's two nested loops -/

/-- One turn of `read_char`'s loop written with `read_key`, as in the source:
`match read_key() { Key::Char(ch) => break ch, Key::Enter => break '\n', _ => continue }`. -/
theorem readCharLoop_eq_readKey (st : TermState) (evs : List Event) :
    readCharLoop st evs = (match readKey st evs with
      | .val (.char ch) st' rest => .val ch st' rest
      | .val .enter st' rest => .val '\n' st' rest
      | .val _ st' rest => readCharLoop st' rest
      | .blocked => .blocked
      | .ctrlC => .ctrlC
      | .panic s => .panic s) := by
  induction evs with
  | nil => cases h : st.raw <;> simp [readCharLoop, readKey, readKeyLoop, h]
  | cons e rest ih =>
    cases h : st.raw
    · simp [readCharLoop, readKey, h]
    · simp only [readKey, h, Bool.not_true, Bool.false_eq_true, if_false] at ih ⊢
      rw [readCharLoop, readKeyLoop]
      simp only [h, Bool.not_true, Bool.false_eq_true, if_false, if_true]
      cases hk : keyOfEvent e with
      | ok k => cases k <;> simp
      | err => simp only; exact ih
      | ctrlC => simp

/-! ### UTF-8 -/

/-- Shape of a UTF-8 encoding: one byte < 0x80 (the code point), or a lead byte and 1–3
continuation bytes, all ≥ 0x80.  In particular the only zero byte in any encoding is U+0000's. -/
theorem utf8Bytes_cases (c : Char) :
    (c.toNat < 128 ∧ utf8Bytes c = [c.toNat]) ∨
    (128 ≤ c.toNat ∧ ∃ b more, utf8Bytes c = b :: more ∧ 128 ≤ b ∧ (∀ x ∈ more, 128 ≤ x) ∧
      1 ≤ more.length ∧ more.length ≤ 3) := by
  unfold utf8Bytes String.utf8EncodeChar
  have hv : c.toNat = c.val.toNat := rfl
  rw [hv]
  generalize c.val.toNat = v
  by_cases h1 : v ≤ 0x7f
  · left
    simp only [h1, if_true, List.map_cons, List.map_nil, UInt8.toNat_ofNat']
    exact ⟨by omega, by rw [Nat.mod_eq_of_lt (by omega)]⟩
  · right
    refine ⟨by omega, ?_⟩
    simp only [h1, if_false]
    by_cases h2 : v ≤ 0x7ff
    · simp only [h2, if_true, List.map_cons, List.map_nil, UInt8.toNat_ofNat']
      refine ⟨_, _, rfl, by omega, ?_, by simp, by simp⟩
      intro x hx; simp at hx; omega
    · simp only [h2, if_false]
      by_cases h3 : v ≤ 0xffff
      · simp only [h3, if_true, List.map_cons, List.map_nil, UInt8.toNat_ofNat']
        refine ⟨_, _, rfl, by omega, ?_, by simp, by simp⟩
        intro x hx; simp at hx; omega
      · simp only [h3, if_false, List.map_cons, List.map_nil, UInt8.toNat_ofNat']
        refine ⟨_, _, rfl, by omega, ?_, by simp, by simp⟩
        intro x hx; simp at hx; omega

theorem utf8Bytes_length (c : Char) : (utf8Bytes c).length = c.utf8Size := by
  simp [utf8Bytes]

theorem utf8Bytes_length_le (c : Char) : 1 ≤ (utf8Bytes c).length ∧ (utf8Bytes c).length ≤ 4 := by
  rcases utf8Bytes_cases c with ⟨_, h⟩ | ⟨_, b, more, h, _, _, h1, h3⟩ <;> rw [h] <;> simp <;> omega

/-- The four-byte buffer after `encode_utf8`. -/
theorem encodeInto4_length (c : Char) : (encodeInto4 c).length = 4 := by
  have := utf8Bytes_length_le c
  simp [encodeInto4]; omega

theorem filter_ne_zero_append_zeros (l : List Nat) (k : Nat) (h : ∀ x ∈ l, x ≠ 0) :
    (l ++ List.replicate k 0).filter (· ≠ 0) = l := by
  rw [List.filter_append]
  have h1 : l.filter (· ≠ 0) = l := List.filter_eq_self.2 (by intro x hx; simpa using h x hx)
  have h2 : (List.replicate k 0).filter (fun x => decide (x ≠ 0)) = [] := by
    rw [List.filter_eq_nil_iff]; intro x hx; simp [(List.mem_replicate.1 hx).2]
  rw [h1, h2, List.append_nil]

/-- What is left of the buffer after the zero bytes are filtered: the encoding itself — or nothing,
for U+0000. -/
theorem filter_encodeInto4 (c : Char) :
    (encodeInto4 c).filter (· ≠ 0) = if c.toNat = 0 then [] else utf8Bytes c := by
  unfold encodeInto4
  rcases utf8Bytes_cases c with ⟨hlt, h⟩ | ⟨hge, b, more, h, hb, hm, _, _⟩
  · rw [h]
    by_cases h0 : c.toNat = 0
    · simp [h0]
    · simp only [h0, if_false]
      exact filter_ne_zero_append_zeros _ _ (by intro x hx; simp at hx; omega)
  · have h0 : c.toNat ≠ 0 := by omega
    simp only [h0, if_false, h]
    apply filter_ne_zero_append_zeros
    intro x hx
    rcases List.mem_cons.1 hx with rfl | hx
    · omega
    · have := hm x hx; omega

/-! ### Events: what each delivers -/

/-- An event that is consumed without delivering anything. -/
def Ignored (e : Event) : Prop := delivers e = none ∧ ¬ isCtrlC e

/-- Exactly which events are `Ctrl+C`. -/
theorem isCtrlC_iff (e : Event) :
    isCtrlC e ↔ ∃ kind, kind ≠ .release ∧ e = .key Mods.CONTROL (.char 'c') kind := by
  unfold isCtrlC
  cases e with
  | other => simp [keyOfEvent]
  | key mods code kind =>
    simp only [keyOfEvent, keyOfKeyEvent]
    by_cases hr : kind = .release
    · subst hr
      simp only [if_true]
      constructor
      · intro h; cases h
      · rintro ⟨k, hk, h⟩
        injection h with _ _ h3
        exact absurd h3.symm hk
    · simp only [hr, if_false]
      by_cases hc : mods = Mods.CONTROL ∧ code = .char 'c'
      · simp only [hc, and_self, if_true, true_iff]
        exact ⟨kind, hr, rfl⟩
      · simp only [hc, if_false]
        constructor
        · intro h
          exfalso
          cases code <;> simp at h
          all_goals (repeat' split at h) <;> simp_all
        · rintro ⟨k, _, h⟩
          injection h with h1 h2 h3
          exact absurd ⟨h1, h2⟩ hc

/-- Exactly which events deliver a character, and which: a character key other than `'\n'` that is
not a release and carries no modifier except possibly `SHIFT` delivers its character (unless it is
… nothing: `Ctrl+C` needs `CONTROL`); `Enter` and `Char('\n')` deliver `'\n'` under any modifiers. -/
theorem delivers_eq (e : Event) :
    delivers e = (match e with
      | .key mods code kind =>
        if kind = .release then none
        else match code with
          | .enter => some '\n'
          | .char ch =>
            if ch = '\n' then some '\n'
            else if mods = Mods.NONE ∨ mods = Mods.SHIFT then some ch
            else none
          | _ => none
      | .other => none) := by
  cases e with
  | other => rfl
  | key mods code kind =>
    simp only [delivers, keyOfEvent, keyOfKeyEvent]
    by_cases hr : kind = .release
    · simp [hr]
    · simp only [hr, if_false]
      by_cases hc : mods = Mods.CONTROL ∧ code = .char 'c'
      · obtain ⟨h1, h2⟩ := hc
        subst h1 h2
        simp [Mods.CONTROL, Mods.NONE, Mods.SHIFT]
      · simp only [hc, if_false]
        cases code with
        | char ch =>
          by_cases hn : ch = '\n'
          · simp [hn]
          · by_cases hm : mods = Mods.NONE ∨ mods = Mods.SHIFT <;> simp [hn, hm]
        | left =>
          by_cases h0 : mods = Mods.NONE
          · simp [h0]
          · by_cases h2 : mods = Mods.CONTROL
            · subst h2; simp [Mods.CONTROL, Mods.NONE]
            · simp [h0, h2]
        | right =>
          by_cases h0 : mods = Mods.NONE
          · simp [h0]
          · by_cases h2 : mods = Mods.CONTROL
            · subst h2; simp [Mods.CONTROL, Mods.NONE]
            · simp [h0, h2]
        | up => by_cases h0 : mods = Mods.NONE <;> simp [h0]
        | down => by_cases h0 : mods = Mods.NONE <;> simp [h0]
        | backspace => simp
        | delete => simp
        | enter => simp
        | other => simp

/-- (c) Which events are ignored: everything except character keys as above, Enter, and Ctrl+C. -/
theorem ignored_iff (e : Event) : Ignored e ↔ delivers e = none ∧ ¬ isCtrlC e := Iff.rfl

theorem typed_delivers (c : Char) : delivers (typed c) = some (if c = '\n' then '\n' else c) := by
  rw [delivers_eq]
  simp [typed, Mods.NONE]
  split <;> simp_all

theorem typed_delivers' (c : Char) : delivers (typed c) = some c := by
  rw [typed_delivers]; split <;> simp_all

theorem typed_not_ctrlC (c : Char) : ¬ isCtrlC (typed c) := by
  rw [isCtrlC_iff]
  rintro ⟨k, _, h⟩
  simp [typed, Mods.NONE, Mods.CONTROL] at h

/-! ### One call of `read_char` / `read_byte` -/

/-- The first delivering event and what follows it. -/
def nextChar : List Event → Option (Char × List Event)
  | [] => none
  | e :: rest => match delivers e with
    | some ch => some (ch, rest)
    | none => nextChar rest

theorem nextChar_noCtrlC {evs : List Event} {ch : Char} {rest : List Event}
    (h : nextChar evs = some (ch, rest)) (hn : NoCtrlC evs) : NoCtrlC rest := by
  induction evs with
  | nil => simp [nextChar] at h
  | cons e es ih =>
    simp only [nextChar] at h
    cases hd : delivers e with
    | some c =>
      simp only [hd, Option.some.injEq, Prod.mk.injEq] at h
      rw [← h.2]; intro x hx; exact hn x (List.mem_cons_of_mem _ hx)
    | none =>
      simp only [hd] at h
      exact ih h (fun x hx => hn x (List.mem_cons_of_mem _ hx))

/-- The loop of `read_char` skips ignored events and stops at the first delivering one. -/
theorem readCharLoop_eq (st : TermState) (hraw : st.raw = true) (evs : List Event) (hn : NoCtrlC evs) :
    readCharLoop st evs = (match nextChar evs with
      | some (ch, rest) => .val ch st rest
      | none => .blocked) := by
  induction evs with
  | nil => simp [readCharLoop, nextChar, hraw]
  | cons e es ih =>
    have ih := ih (fun x hx => hn x (List.mem_cons_of_mem _ hx))
    have hc : keyOfEvent e ≠ .ctrlC := hn e (List.mem_cons_self ..)
    simp only [readCharLoop, nextChar, hraw, Bool.not_true, Bool.false_eq_true, if_false, delivers]
    cases hk : keyOfEvent e with
    | ctrlC => exact absurd hk hc
    | err => simpa using ih
    | ok k => cases k <;> simp <;> exact ih

/-- `term::read_char` from cooked mode. -/
theorem readChar_eq (st : TermState) (hraw : st.raw = false) (evs : List Event) (hn : NoCtrlC evs) :
    readChar st evs = (match nextChar evs with
      | some (ch, rest) => .val ch st rest
      | none => .blocked) := by
  unfold readChar
  simp only [hraw, Bool.false_eq_true, if_false]
  rw [readCharLoop_eq _ rfl evs hn]
  cases nextChar evs with
  | none => rfl
  | some p =>
    obtain ⟨ch, rest⟩ := p
    simp only
    congr 1
    cases st; simp_all

/-- `read_byte` with nothing buffered, on a character `ch`: the ASCII byte itself (U+0000: byte 0),
or `None` with the counter set to the number of remaining bytes of the encoding. -/
theorem readByte_eq (st : TermState) (hraw : st.raw = false) (h0 : st.counter = 0)
    (evs : List Event) (hn : NoCtrlC evs) :
    readByte st evs = (match nextChar evs with
      | some (ch, rest) =>
        if ch.toNat < 128 then .val (some ch.toNat) st rest
        else .val none { st with counter := (utf8Bytes ch).length - 1 } rest
      | none => .blocked) := by
  unfold readByte
  simp only [h0, Nat.lt_irrefl, gt_iff_lt, if_false]
  rw [readChar_eq st hraw evs hn]
  cases nextChar evs with
  | none => rfl
  | some p =>
    obtain ⟨ch, rest⟩ := p
    simp only
    rw [filter_encodeInto4]
    rcases utf8Bytes_cases ch with ⟨hlt, h⟩ | ⟨hge, b, more, h, hb, hm, h1, h3⟩
    · simp only [hlt, if_true]
      by_cases hz : ch.toNat = 0
      · simp [hz]
      · simp [hz, h]
    · have hz : ch.toNat ≠ 0 := by omega
      have hlt : ¬ ch.toNat < 128 := by omega
      have hc : ¬ more.length = 0 := by omega
      simp only [hz, if_false, h, hlt, hc, List.length_cons, Nat.add_sub_cancel]
      rw [Nat.mod_eq_of_lt (by omega)]

/-! ### The two paths, read by read -/

/-- The value the PIPE path (`VM.readChar`) puts into R0 for an input byte. -/
def pipeValue (b : Nat) : Char := if b < 128 then Char.ofNat b else Char.ofNat 0xFFFD

/-- The values the first `n` GETC / IN of a program get on the pipe path (fewer if the input ends:
the run then ends with status 1). -/
def pipeReads : Nat → World → List Char
  | 0, _ => []
  | n + 1, w => match VM.readChar w with
    | some (ch, w') => ch :: pipeReads n w'
    | none => []

theorem pipeReads_eq (n : Nat) (w : World) : pipeReads n w = (w.inp.take n).map pipeValue := by
  induction n generalizing w with
  | zero => simp [pipeReads]
  | succ n ih =>
    obtain ⟨inp, out⟩ := w
    cases inp with
    | nil => simp [pipeReads, VM.readChar]
    | cons b bs =>
      simp only [pipeReads, VM.readChar, List.take_succ_cons, List.map_cons]
      by_cases hb : b < 128 <;> simp [hb, pipeValue, ih]

/-- The values the first `n` GETC / IN get on the TERMINAL path (fewer if a read does not return:
it waits for a key, or the process ends at Ctrl+C). -/
def termReads : Nat → TermState → List Event → List Char
  | 0, _, _ => []
  | n + 1, st, evs => match runtimeReadChar st evs with
    | .val ch st' rest => ch :: termReads n st' rest
    | _ => []

/-- `n` reads that all return: the values, and the state and events afterwards. -/
def readsN : Nat → TermState → List Event → Option (List Char × TermState × List Event)
  | 0, st, evs => some ([], st, evs)
  | n + 1, st, evs => match runtimeReadChar st evs with
    | .val ch st' rest => (readsN n st' rest).map (fun r => (ch :: r.1, r.2))
    | _ => none

theorem pipeBytes_nextChar (evs : List Event) :
    pipeBytes evs = (match nextChar evs with
      | some (ch, rest) => utf8Bytes ch ++ pipeBytes rest
      | none => []) := by
  induction evs with
  | nil => rfl
  | cons e es ih =>
    simp only [pipeBytes, List.flatMap_cons, nextChar] at ih ⊢
    cases hd : delivers e with
    | some c => simp
    | none => simpa using ih

theorem pipeBytes_typed (cs : List Char) : pipeBytes (cs.map typed) = cs.flatMap utf8Bytes := by
  induction cs with
  | nil => rfl
  | cons c cs ih =>
    simp only [pipeBytes, List.map_cons, List.flatMap_cons] at ih ⊢
    rw [typed_delivers', ih]

theorem noCtrlC_typed (cs : List Char) : NoCtrlC (cs.map typed) := by
  intro e he
  obtain ⟨c, _, rfl⟩ := List.mem_map.1 he
  exact typed_not_ctrlC c

/-- The terminal state and the pending events seen as pipe input: `counter` bytes of a multi-byte
encoding still to be answered (each ≥ 0x80), then what the events deliver. -/
structure Sim (st : TermState) (evs : List Event) (inp : List Nat) : Prop where
  raw : st.raw = false
  noC : NoCtrlC evs
  pend : ∃ p, p.length = st.counter ∧ (∀ b ∈ p, 128 ≤ b) ∧ inp = p ++ pipeBytes evs

theorem sim_init (evs : List Event) (hn : NoCtrlC evs) : Sim TermState.init evs (pipeBytes evs) :=
  ⟨rfl, hn, [], rfl, by simp, by simp⟩

/-- **One read.**  Whatever the state reached and the events pending (no Ctrl+C among them): the
terminal path returns a value iff the pipe path has a byte, the value is the pipe path's value for
that byte, and the correspondence holds again afterwards; it never panics. -/
theorem one_read {st : TermState} {evs : List Event} {inp : List Nat} (h : Sim st evs inp) :
    match runtimeReadChar st evs with
    | .val ch st' rest => ∃ b inp', inp = b :: inp' ∧ ch = pipeValue b ∧ Sim st' rest inp'
    | .blocked => inp = []
    | .ctrlC => False
    | .panic _ => False := by
  obtain ⟨hraw, hn, p, hp, hge, hinp⟩ := h
  by_cases h0 : st.counter = 0
  · -- nothing buffered: a key is read
    have hp0 : p = [] := List.eq_nil_of_length_eq_zero (by omega)
    subst hp0
    simp only [List.nil_append] at hinp
    unfold runtimeReadChar
    rw [readByte_eq st hraw h0 evs hn]
    rw [pipeBytes_nextChar] at hinp
    cases hnc : nextChar evs with
    | none => simp only [hnc] at hinp ⊢; exact hinp
    | some q =>
      obtain ⟨ch, rest⟩ := q
      have hn' := nextChar_noCtrlC hnc hn
      simp only [hnc] at hinp ⊢
      rcases utf8Bytes_cases ch with ⟨hlt, hb⟩ | ⟨hge', b, more, hb, hb1, hm, h1, h3⟩
      · simp only [hlt, if_true]
        refine ⟨ch.toNat, pipeBytes rest, by rw [hinp, hb]; rfl, by simp [pipeValue, hlt], hraw, hn', [], ?_, by simp, by simp⟩
        simp [h0]
      · have hlt : ¬ ch.toNat < 128 := by omega
        simp only [hlt, if_false]
        refine ⟨b, more ++ pipeBytes rest, by rw [hinp, hb]; rfl, ?_, hraw, hn', more, ?_, hm, rfl⟩
        · simp [pipeValue]; omega
        · simp [hb]
  · -- a buffered byte is answered: no event is read
    cases p with
    | nil => simp at hp; omega
    | cons b p' =>
      have hb : 128 ≤ b := hge b (List.mem_cons_self ..)
      unfold runtimeReadChar readByte
      have hpos : st.counter > 0 := by omega
      simp only [hpos, if_true]
      refine ⟨b, p' ++ pipeBytes evs, by rw [hinp]; rfl, ?_, hraw, hn, p', ?_, ?_, rfl⟩
      · simp [pipeValue]; omega
      · simp at hp ⊢; omega
      · intro x hx; exact hge x (List.mem_cons_of_mem _ hx)

/-- Any number of reads from corresponding situations: the same values in the same order, and the
terminal path stops returning exactly where the pipe path runs out of input. -/
theorem reads_sim (out : List Char) : ∀ (n : Nat) {st : TermState} {evs : List Event} {inp : List Nat},
    Sim st evs inp → termReads n st evs = pipeReads n { inp := inp, outRev := out }
  | 0, _, _, _, _ => rfl
  | n + 1, st, evs, inp, h => by
    have h1 := one_read h
    unfold termReads pipeReads
    cases hr : runtimeReadChar st evs with
    | val ch st' rest =>
      simp only [hr] at h1 ⊢
      obtain ⟨b, inp', hi, hv, hs⟩ := h1
      subst hi
      simp only [VM.readChar]
      have : (if b < 128 then some (Char.ofNat b, ({ inp := inp', outRev := out } : World))
              else some (Char.ofNat 0xFFFD, { inp := inp', outRev := out })) =
             some (pipeValue b, { inp := inp', outRev := out }) := by
        unfold pipeValue; split <;> rfl
      rw [this, hv]
      simp only
      rw [reads_sim out n hs]
    | blocked => simp only [hr] at h1 ⊢; subst h1; rfl
    | ctrlC => simp only [hr] at h1
    | panic s => simp only [hr] at h1

/-! ### The property theorems -/

/-- **C03, terminal input (general form).**  For EVERY sequence of terminal events without Ctrl+C
and every number `n` of GETC / IN executed, from the state of a freshly started process: the values
put into R0 on the terminal path are exactly those of the model's pipe path (`VM.readChar` on
`World.inp`) fed `pipeBytes evs` — the UTF-8 bytes of the delivered characters (`'\n'` for Enter):
ASCII bytes as themselves, every byte ≥ x80 as xFFFD, one value per byte. -/
theorem terminal_reads_eq_pipe_reads (evs : List Event) (hn : NoCtrlC evs) (n : Nat) (out : List Char) :
    termReads n TermState.init evs = pipeReads n { inp := pipeBytes evs, outRev := out } :=
  reads_sim out n (sim_init evs hn)

/-- **C03, terminal input: "typing on a terminal behaves like piping the same bytes"** — what
`C03T` checks: for every text typed (each character a key press) and every number of reads, the
values are `pipeValue` of the first `n` UTF-8 bytes of the text. -/
theorem typed_reads_eq_pipe_reads (cs : List Char) (n : Nat) :
    termReads n TermState.init (cs.map typed) = ((cs.flatMap utf8Bytes).take n).map pipeValue := by
  rw [terminal_reads_eq_pipe_reads _ (noCtrlC_typed cs) n [], pipeReads_eq, pipeBytes_typed]

/-- What the pipe path makes of the bytes of one character: the character itself if it is ASCII,
otherwise one U+FFFD per byte. -/
theorem pipeValues_utf8 (c : Char) :
    (utf8Bytes c).map pipeValue =
      if c.toNat < 128 then [c] else List.replicate c.utf8Size (Char.ofNat 0xFFFD) := by
  rw [← utf8Bytes_length]
  rcases utf8Bytes_cases c with ⟨hlt, h⟩ | ⟨hge, b, more, h, hb, hm, _, _⟩
  · simp only [h, hlt, if_true, List.map_cons, List.map_nil, pipeValue]
    congr 1
    exact Char.ofNat_toNat c
  · have hlt : ¬ c.toNat < 128 := by omega
    simp only [hlt, if_false]
    apply List.eq_replicate_iff.2
    refine ⟨by simp, ?_⟩
    intro x hx
    obtain ⟨y, hy, rfl⟩ := List.mem_map.1 hx
    have : 128 ≤ y := by
      rw [h] at hy
      rcases List.mem_cons.1 hy with rfl | hy
      · exact hb
      · exact hm y hy
    simp [pipeValue]; omega

/-- `n` returning reads from corresponding situations, with the situation afterwards. -/
theorem readsN_sim : ∀ (p : List Nat) {st : TermState} {evs : List Event} {inp : List Nat},
    Sim st evs (p ++ inp) →
    ∃ st' rest, readsN p.length st evs = some (p.map pipeValue, st', rest) ∧ Sim st' rest inp
  | [], st, evs, inp, h => ⟨st, evs, rfl, h⟩
  | b :: p, st, evs, inp, h => by
    have h1 := one_read h
    cases hr : runtimeReadChar st evs with
    | val ch st' rest =>
      simp only [hr] at h1
      obtain ⟨b', inp', hi, hv, hs⟩ := h1
      simp only [List.cons_append, List.cons.injEq] at hi
      obtain ⟨rfl, rfl⟩ := hi
      obtain ⟨st'', rest', he, hs'⟩ := readsN_sim p hs
      refine ⟨st'', rest', ?_, hs'⟩
      simp only [List.length_cons, readsN, hr, he, hv, Option.map_some, List.map_cons]
    | blocked => simp only [hr] at h1; simp at h1
    | ctrlC => simp only [hr] at h1
    | panic s => simp only [hr] at h1

/-- **(a) C03, terminal input: a key of N bytes is N reads.**  A typed character `c` whose UTF-8
encoding has `N = c.utf8Size` bytes, read from the state of a fresh process with any events `evs`
(no Ctrl+C) behind it, makes exactly `N` consecutive GETC / IN return, with the values the pipe path
gives for the `N` bytes — `c` itself when `N = 1` (U+0000 included), `N` times U+FFFD when `N > 1`
(`read_byte` answers `None` for the key and `None` again for each of the `N − 1` buffered bytes) —
and leaves the terminal exactly as a fresh one in front of `evs`: the next read reads the next key. -/
theorem terminal_key_consumes_n_reads (c : Char) (evs : List Event) (hn : NoCtrlC evs) :
    readsN c.utf8Size TermState.init (typed c :: evs) =
      some ((utf8Bytes c).map pipeValue, TermState.init, evs) ∧
    (utf8Bytes c).map pipeValue =
      (if c.toNat < 128 then [c] else List.replicate c.utf8Size (Char.ofNat 0xFFFD)) := by
  refine ⟨?_, pipeValues_utf8 c⟩
  have hn' : NoCtrlC (typed c :: evs) := by
    intro e he
    rcases List.mem_cons.1 he with rfl | he
    · exact typed_not_ctrlC c
    · exact hn e he
  have hs : Sim TermState.init (typed c :: evs) (utf8Bytes c ++ pipeBytes evs) := by
    have := sim_init _ hn'
    simpa [pipeBytes, typed_delivers'] using this
  -- the state after the N reads is determined by running them; compute it from the shape of the encoding
  rw [← utf8Bytes_length]
  have hr0 : TermState.init.raw = false := rfl
  have hc0 : TermState.init.counter = 0 := rfl
  have hnc : nextChar (typed c :: evs) = some (c, evs) := by simp [nextChar, typed_delivers']
  rcases utf8Bytes_cases c with ⟨hlt, h⟩ | ⟨hge, b, more, h, hb, hm, h1, h3⟩
  · rw [h]
    simp only [List.length_cons, List.length_nil, readsN, runtimeReadChar,
      readByte_eq _ hr0 hc0 _ hn', hnc, hlt, if_true, List.map_cons, List.map_nil, pipeValue]
    rfl
  · have hlt : ¬ c.toNat < 128 := by omega
    -- first read: `None`, counter := N − 1; then N − 1 reads of buffered bytes
    have key : ∀ (k : Nat) (st : TermState), st.counter = k → st.raw = false →
        readsN k st evs = some (List.replicate k (Char.ofNat 0xFFFD), { st with counter := 0 }, evs) := by
      intro k
      induction k with
      | zero => intro st h0 _; cases st; simp_all [readsN]
      | succ k ih =>
        intro st hk hraw
        have hpos : st.counter > 0 := by omega
        simp only [readsN, runtimeReadChar, readByte, hpos, if_true]
        rw [ih { st with counter := st.counter - 1 } (by simp; omega) hraw]
        simp [List.replicate_succ]
    have hall : (utf8Bytes c).map pipeValue = List.replicate (utf8Bytes c).length (Char.ofNat 0xFFFD) := by
      rw [pipeValues_utf8, utf8Bytes_length]; simp [hlt]
    rw [hall, h]
    simp only [List.length_cons, readsN, runtimeReadChar, readByte_eq _ hr0 hc0 _ hn', hnc, hlt, if_false, h,
      Nat.add_sub_cancel]
    rw [key more.length { TermState.init with counter := more.length } rfl rfl]
    simp [List.replicate_succ, TermState.init]

/-- States reachable from the fresh state by calls of `read_byte` that return, on any events. -/
inductive Reach : TermState → Prop where
  | init : Reach TermState.init
  | step {st st' : TermState} {evs rest : List Event} {b : Option Nat} :
      Reach st → readByte st evs = .val b st' rest → Reach st'

theorem readCharLoop_state {st st' : TermState} {evs rest : List Event} {ch : Char}
    (h : readCharLoop st evs = .val ch st' rest) : st' = st := by
  induction evs with
  | nil => simp only [readCharLoop] at h; split at h <;> simp at h
  | cons e es ih =>
    simp only [readCharLoop] at h
    split at h
    · simp at h
    · split at h
      · simp at h; exact h.2.1.symm
      · simp at h; exact h.2.1.symm
      · exact ih h
      · exact ih h
      · simp at h

/-- One returning call keeps the counter ≤ 3 and leaves the terminal in cooked mode; the value
assigned by `*counter = count as u8` is `count` itself (no truncation). -/
theorem readByte_counter_le {st st' : TermState} {evs rest : List Event} {b : Option Nat}
    (hc : st.counter ≤ 3) (hraw : st.raw = false) (h : readByte st evs = .val b st' rest) :
    st'.counter ≤ 3 ∧ st'.raw = false := by
  unfold readByte at h
  by_cases hpos : st.counter > 0
  · simp only [hpos, if_true, Read.val.injEq] at h
    obtain ⟨_, rfl, _⟩ := h
    exact ⟨by simp; omega, hraw⟩
  · simp only [hpos, if_false, readChar, hraw, Bool.false_eq_true] at h
    cases hl : readCharLoop { st with raw := true } evs with
    | val ch s1 r1 =>
      have hs1 := readCharLoop_state hl
      subst hs1
      simp only [hl] at h
      have hlen : ((encodeInto4 ch).filter (· ≠ 0)).length ≤ 4 := by
        have := List.length_filter_le (fun x => decide (x ≠ 0)) (encodeInto4 ch)
        rw [encodeInto4_length] at this; exact this
      cases hf : (encodeInto4 ch).filter (· ≠ 0) with
      | nil =>
        simp only [hf, Read.val.injEq] at h
        obtain ⟨_, rfl, _⟩ := h
        exact ⟨by simpa using hc, rfl⟩
      | cons first more =>
        rw [hf] at hlen
        simp only [List.length_cons] at hlen
        simp only [hf] at h
        split at h
        · simp only [Read.val.injEq] at h
          obtain ⟨_, rfl, _⟩ := h
          exact ⟨by simpa using hc, rfl⟩
        · simp only [Read.val.injEq] at h
          obtain ⟨_, rfl, _⟩ := h
          refine ⟨?_, rfl⟩
          simp only
          rw [Nat.mod_eq_of_lt (by omega)]; omega
    | blocked => simp [hl] at h
    | ctrlC => simp [hl] at h
    | panic s => simp [hl] at h

/-- **(b)** The buffered-byte counter is always ≤ 3 (so it fits its `u8` with room to spare, and
`*counter -= 1` is only executed when it is positive), and between calls the terminal is in cooked
mode — for every reachable state, on any events whatsoever. -/
theorem counter_bounded {st : TermState} (h : Reach st) : st.counter ≤ 3 ∧ st.raw = false := by
  induction h with
  | init => exact ⟨by decide, rfl⟩
  | step _ hb ih => exact readByte_counter_le ih.1 ih.2 hb

/-- **(c)** An ignored event in front (a release, Backspace, Delete, an arrow, any other key code, a
character with a modifier other than SHIFT, a non-key event) is consumed without producing an input
value: the read goes on to the following events and returns what it would have returned without
it.  (While a multi-byte key is being answered — counter > 0 — no event is consumed at all:
`buffered_read_consumes_no_event`.) -/
theorem ignored_event_consumes_nothing (st : TermState) (h0 : st.counter = 0) (e : Event) (evs : List Event)
    (hi : Ignored e) :
    readByte st (e :: evs) = readByte st evs ∧ runtimeReadChar st (e :: evs) = runtimeReadChar st evs := by
  have hb : readByte st (e :: evs) = readByte st evs := by
    unfold readByte readChar
    have hl : ∀ s : TermState, s.raw = true → readCharLoop s (e :: evs) = readCharLoop s evs := by
      intro s hs
      have hd := hi.1
      have hc : keyOfEvent e ≠ .ctrlC := hi.2
      simp only [delivers] at hd
      rw [readCharLoop]
      simp only [hs, Bool.not_true, Bool.false_eq_true, if_false]
      cases hk : keyOfEvent e with
      | ctrlC => exact absurd hk hc
      | err => rfl
      | ok k => cases k <;> simp_all
    simp only [h0, Nat.lt_irrefl, gt_iff_lt, if_false]
    cases hraw : st.raw
    · simp only [Bool.false_eq_true, if_false]; rw [hl _ rfl]
    · simp
  exact ⟨hb, by unfold runtimeReadChar; rw [hb]⟩

theorem buffered_read_consumes_no_event (st : TermState) (hpos : st.counter > 0) (evs : List Event) :
    runtimeReadChar st evs = .val (Char.ofNat 0xFFFD) { st with counter := st.counter - 1 } evs := by
  simp [runtimeReadChar, readByte, hpos]

/-- **(d)** The NUL character: every byte of its buffer is filtered out and `read_byte` returns
`Some(0)`; R0 gets 0, as from a piped zero byte. -/
theorem nul_yields_zero (evs : List Event) :
    readByte TermState.init (typed (Char.ofNat 0) :: evs) = .val (some 0) TermState.init evs ∧
    runtimeReadChar TermState.init (typed (Char.ofNat 0) :: evs) = .val (Char.ofNat 0) TermState.init evs := by
  have hb : readByte TermState.init (typed (Char.ofNat 0) :: evs) = .val (some 0) TermState.init evs := by
    simp [readByte, readChar, readCharLoop, TermState.init, typed, keyOfEvent, keyOfKeyEvent, Mods.NONE,
      Mods.CONTROL, encodeInto4, utf8Bytes, String.utf8EncodeChar]
  exact ⟨hb, by simp [runtimeReadChar, hb]⟩

/-- Enter (and `Char('\n')`), under any modifiers, pressed or repeated: one read, value U+000A —
the pipe path's answer to the byte x0A.  (An Enter key sends x0D to a terminal in raw mode; piping
x0D gives 13.  This is where "like the pipe" holds for the delivered character, not for the byte on
the wire.) -/
theorem enter_yields_newline (mods : Mods) (kind : KeyKind) (hk : kind ≠ .release) (evs : List Event) :
    runtimeReadChar TermState.init (.key mods .enter kind :: evs) = .val '\n' TermState.init evs ∧
    pipeValue 10 = '\n' := by
  refine ⟨?_, by decide⟩
  have hce : ¬ (mods = Mods.CONTROL ∧ KeyCode.enter = KeyCode.char 'c') := by simp
  simp [runtimeReadChar, readByte, readChar, readCharLoop, TermState.init, keyOfEvent, keyOfKeyEvent, hk,
    encodeInto4, utf8Bytes, String.utf8EncodeChar]

/-- Ctrl+C as the next delivering-or-exiting event: the read does not return; the process ends
(status 0, after `println!()`).  No input byte has this effect on the pipe path. -/
theorem ctrl_c_exits (kind : KeyKind) (hk : kind ≠ .release) (evs : List Event) :
    runtimeReadChar TermState.init (.key Mods.CONTROL (.char 'c') kind :: evs) = .ctrlC := by
  simp [runtimeReadChar, readByte, readChar, readCharLoop, TermState.init, keyOfEvent, keyOfKeyEvent, hk]

/-- No assertion of `term.rs` on this path can fail (`enable_raw_mode` / `disable_raw_mode` /
`read_key`'s raw-mode assertions), from any reachable state, on any events. -/
theorem terminal_read_no_panic {st : TermState} (h : Reach st) (evs : List Event) (s : String) :
    runtimeReadChar st evs ≠ .panic s := by
  have hraw := (counter_bounded h).2
  have hl : ∀ (evs : List Event) (s : String), readCharLoop { st with raw := true } evs ≠ .panic s := by
    intro evs
    induction evs with
    | nil => simp [readCharLoop]
    | cons e es ih =>
      intro s
      rw [readCharLoop]
      simp only [Bool.not_true, Bool.false_eq_true, if_false]
      cases keyOfEvent e with
      | ctrlC => simp
      | err => exact ih s
      | ok k => cases k <;> simp <;> exact ih s
  have hb : ∀ s, readByte st evs ≠ .panic s := by
    intro s
    unfold readByte readChar
    split
    · simp
    · simp only [hraw, Bool.false_eq_true, if_false]
      cases hr : readCharLoop { st with raw := true } evs with
      | panic s' => exact absurd hr (hl evs s')
      | blocked => simp
      | ctrlC => simp
      | val ch s1 r1 => simp only; repeat' split <;> simp
  unfold runtimeReadChar
  cases hr : readByte st evs with
  | panic s' => exact absurd hr (hb s')
  | blocked => simp
  | ctrlC => simp
  | val b s1 r1 => cases b <;> simp <;> split <;> simp

/-! ### The hypotheses are satisfiable by non-trivial instances -/

/-- `é` (2 bytes), `x`, a release and a Backspace in between, `€` (3 bytes), Enter: eight reads. -/
example :
    termReads 8 TermState.init
      [typed 'é', .key Mods.NONE (.char 'é') .release, typed 'x', .key Mods.NONE .backspace .press, .other,
       typed '€', .key Mods.ALT (.char 'q') .press, .key Mods.NONE .enter .press]
      = [Char.ofNat 0xFFFD, Char.ofNat 0xFFFD, 'x', Char.ofNat 0xFFFD, Char.ofNat 0xFFFD, Char.ofNat 0xFFFD, '\n'] := by
  decide

example : NoCtrlC [typed 'é', .key Mods.NONE (.char 'é') .release, typed 'x'] := by decide
example : pipeBytes [typed 'é', .other, typed 'x'] = [0xC3, 0xA9, 0x78] := by decide
example : Reach { counter := 3, raw := false } :=
  .step (evs := [typed '😀']) (rest := []) (b := none) .init (by decide)

end Lace.C03
