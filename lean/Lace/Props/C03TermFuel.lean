/-
  C03 (terminal path) — the step budget of `TermRun.loop` is only a budget: a run on a terminal
  that stopped for a reason of its own (PC = xFFFF, PC outside user space, exit, panic, or left
  waiting for a key) gives the same result under every larger budget.
-/
import Lace.Model.TermRun
namespace Lace.C03
open Lace TermRun

def TStopped : TRunResult → Prop
  | .fuel _ _ => False
  | _ => True

theorem term_loop_fuel_mono (so mi : Bool) (k : Nat) : ∀ (n : Nat) (m : Machine) (tw : TWorld),
    TStopped (TermRun.loop so mi n m tw) →
    TermRun.loop so mi (n + k) m tw = TermRun.loop so mi n m tw := by
  intro n
  induction n with
  | zero => intro m tw h; simp [TermRun.loop, TStopped] at h
  | succ n ih =>
    intro m tw h
    rw [show n + 1 + k = (n + k) + 1 by omega]
    simp only [TermRun.loop] at h ⊢
    by_cases hpc : (m.pc == 0xFFFF#16) = true
    · simp [hpc]
    · simp only [hpc] at h ⊢
      cases hb : Run.checkPcBounds m <;> simp only [hb] at h ⊢
      by_cases ho : m.pc.toNat + 1 ≥ 65536
      · simp [ho]
      · simp only [ho] at h ⊢
        cases he : execute so mi (m.read m.pc) (m.setPC (m.pc + 1)) tw <;>
          simp only [he] at h ⊢
        · simpa using ih _ _ (by simpa using h)

end Lace.C03
