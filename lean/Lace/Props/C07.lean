/-
  C07 — check, compile and run agree on which sources are valid.

  In the model of main.rs all three commands go through the same `assemble` (parse, backpatch
  and emission of every word): `check` succeeds iff `compile` would get past assembling iff
  `run` starts running — for every source, whatever the assembler does with it, and in
  particular when the only error is an emission error at any statement position.
  (`lace watch` re-checks by calling the same `assemble`; see C19 for its state reset.)
-/
import Lace.Model.CliFlows
import Lace.Props.C08
namespace Lace.C07
open Lace Cli

/-- A source for which `check` reports success always compiles (given a writable destination). -/
theorem check_ok_imp_compile_ok (p : Parsed) (c : Option (List Nat)) :
    checkStatus p = 0 → (compile p (.file c)).1 = 0 := by
  unfold checkStatus compile compileFs
  cases h : assembleOk p with
  | none => simp
  | some ow => simp [writeAllOrNothing, applyOps, applyOp, writeLimited]

/-- A source that `compile` rejects is reported as an error by `check` and by `run`. -/
theorem compile_err_imp_check_err_and_run_err (p : Parsed) (c : Option (List Nat)) :
    (compile p (.file c)).1 ≠ 0 → checkStatus p ≠ 0 ∧ runAssembles p = false := by
  unfold checkStatus compile compileFs runAssembles
  cases h : assembleOk p with
  | none => simp
  | some ow => simp [writeAllOrNothing, applyOps, applyOp, writeLimited]

/-- The three commands agree exactly. -/
theorem check_compile_run_agree (p : Parsed) (c : Option (List Nat)) :
    (checkStatus p = 0 ↔ (compile p (.file c)).1 = 0) ∧ (checkStatus p = 0 ↔ runAssembles p = true) := by
  unfold checkStatus compile compileFs runAssembles
  cases h : assembleOk p with
  | none => simp
  | some ow => simp [writeAllOrNothing, applyOps, applyOp, writeLimited]

/-- An emission-only error at statement `k` (label farther than its field allows) is reported
by `check`, not only by `compile`. -/
theorem emission_error_fails_check (orig : Option Word) (emits : List (Option Word)) (k : Nat)
    (hk : k < emits.length) (h : emits[k] = none) : checkStatus (some (orig, emits)) = 1 := by
  simp [checkStatus, assembleOk, C08.emitAll_fail_at emits k hk h]

end Lace.C07
