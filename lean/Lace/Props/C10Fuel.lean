/-
  C10 / C16 — the instruction budget of a debugger command is only a budget.

  In the reference debugger (Lace/Spec/RefDebug.lean) `fuel` bounds the number of instructions one
  resuming command may execute; the debugger of the code has no such bound.  A command that came
  back for a reason of its own (it paused, the process ended, an instruction panicked) comes back
  with the very same outcome — instruction count, machine, output — under every larger budget.

  * `runUntil_fuel_mono` : by induction over the budget, for every stop rule and breakpoint set.
  * `resume_fuel_mono`, `cmd_fuel_mono` : lifted to the resuming commands step / step into k /
    step out / continue.
  * `cmd_fuel_agree` : two budgets that both suffice agree.
  * `script_fuel_mono` : whole sessions — a script in which no command ran out of budget gives
    the same log, instruction count and ending under every larger per-command budget.
-/
import Lace.Spec.RefDebug
namespace Lace.C10
open Lace RefDebug

/-- The command came back for a reason of its own. -/
def Returned : Out → Prop
  | .fuel _ _ _ => False
  | _ => True

theorem runUntil_fuel_mono (so mi : Bool) (stop : Word → Nat → Machine → Bool) (bps : BpSet)
    (k : Nat) : ∀ (f n : Nat) (m : Machine) (w : World),
    Returned (runUntil so mi stop bps f n m w) →
    runUntil so mi stop bps (f + k) n m w = runUntil so mi stop bps f n m w := by
  intro f
  induction f with
  | zero => intro n m w h; simp [runUntil, Returned] at h
  | succ f ih =>
    intro n m w h
    rw [show f + 1 + k = (f + k) + 1 by omega]
    simp only [runUntil] at h ⊢
    cases hs : step so mi m w <;> simp only [hs] at h ⊢
    rename_i m' w'
    by_cases hp : (stop (m.read m.pc) (n + 1) m' || interrupt bps m') = true
    · simp [hp]
    · simp only [hp] at h ⊢
      simpa using ih _ _ _ (by simpa using h)

theorem resume_fuel_mono (so mi : Bool) (stop : Word → Nat → Machine → Bool) (bps : BpSet)
    (k f : Nat) (m : Machine) (w : World) (h : Returned (resume so mi stop bps f m w)) :
    resume so mi stop bps (f + k) m w = resume so mi stop bps f m w := by
  unfold resume at h ⊢
  split
  · rfl
  · rename_i hc
    simp only [hc] at h
    exact runUntil_fuel_mono so mi stop bps k f 0 m w (by simpa using h)

theorem cmd_fuel_mono (so mi : Bool) (bps : BpSet) (k f : Nat) (m : Machine) (w : World) (c : Cmd)
    (h : Returned (run so mi bps f m w c)) :
    run so mi bps (f + k) m w c = run so mi bps f m w c := by
  cases c <;> simp only [run] at h ⊢
  · split
    · rename_i hc; simp only [hc] at h; exact resume_fuel_mono _ _ _ _ _ _ _ _ (by simpa using h)
    · rename_i hc; simp only [hc] at h; exact resume_fuel_mono _ _ _ _ _ _ _ _ (by simpa using h)
  · exact resume_fuel_mono _ _ _ _ _ _ _ _ h
  · cases so
    · rfl
    · exact resume_fuel_mono _ _ _ _ _ _ _ _ (by simpa using h)
  · exact resume_fuel_mono _ _ _ _ _ _ _ _ h

theorem cmd_fuel_agree (so mi : Bool) (bps : BpSet) (f₁ f₂ : Nat) (m : Machine) (w : World) (c : Cmd)
    (h₁ : Returned (run so mi bps f₁ m w c)) (h₂ : Returned (run so mi bps f₂ m w c)) :
    run so mi bps f₁ m w c = run so mi bps f₂ m w c := by
  rcases Nat.le_total f₁ f₂ with h | h
  · obtain ⟨k, rfl⟩ := Nat.exists_eq_add_of_le h
    exact (cmd_fuel_mono so mi bps k f₁ m w c h₁).symm
  · obtain ⟨k, rfl⟩ := Nat.exists_eq_add_of_le h
    exact cmd_fuel_mono so mi bps k f₂ m w c h₂

/-- No command of the session ran out of budget. -/
def Finished (r : Result) : Prop :=
  match r.final with
  | .fuel _ _ => False
  | _ => True

@[simp] theorem finished_cons (e : Entry) (r : Result) : Finished (r.cons e) ↔ Finished r := Iff.rfl

theorem script_fuel_mono (so mi : Bool) (f j : Nat) : ∀ (cs : List Cmd) (k : Nat) (bps : BpSet)
    (m : Machine) (w : World), Finished (runScript so mi f k cs bps m w) →
    runScript so mi (f + j) k cs bps m w = runScript so mi f k cs bps m w := by
  intro cs
  induction cs with
  | nil => intro k bps m w _; simp [runScript]
  | cons c rest ih =>
    intro k bps m w h
    simp only [runScript, finished_cons] at h ⊢
    have hr : Returned (run so mi bps f m w c) := by
      cases hc : run so mi bps f m w c <;> simp only [hc] at h <;> simp [Returned]
      simp [Finished] at h
    rw [cmd_fuel_mono so mi bps j f m w c hr]
    cases hc : run so mi bps f m w c <;> simp only [hc] at h ⊢
    rw [ih _ _ _ _ h]

/-- Non-vacuity: a breakpoint command returns at once, with any budget. -/
example (so mi : Bool) (bps : BpSet) (f : Nat) (m : Machine) (w : World) (t : Target) :
    Returned (run so mi bps f m w (.breakAdd t)) := by simp [run, Returned]

end Lace.C10
