/-
  C09 — The debugger is transparent to the program.

  `debug_transparent`: for every program state, input, feature setting and EVERY script made
  only of non-mutating commands (step, step into k≥1, step out, continue, break add/remove/list,
  print, registers, assembly, echo, help; `quit` or end of input detaches), whenever the
  debugged run ends — normally, with an error exit, or in lace's RTI `todo!()` — an undebugged
  run of the same machine ends in exactly the same way: same registers, memory, PC, condition
  code, program output, remaining input and exit status.  No bound on script length, program
  length or step count.  Proof: one-iteration simulation (`iter_nonmut`: an iteration detaches,
  stutters with machine and world untouched, or executes exactly the plain loop's next
  instruction) + induction on the number of iterations; once detached the loop *is* the plain
  loop (`detached_eq_plain`).
  The converse (the debugged run does end when the plain run does) is C16's progress bound.
-/
import Lace.Props.C16
import Lace.Props.C03
namespace Lace.C09
open Lace Lace.Dbg Lace.Cmd Lace.DbgProofs

/-- every command still to be read is non-mutating -/
def NM (d : Dbg) : Prop := ∀ c ∈ d.cmds, NonMutating c = true

def need (d : Dbg) : Nat := 2 * d.cmds.length + (if d.status = .wait then 1 else 2)

/-- With only non-mutating commands left (and enough fuel, which `next_action` provides) the
status loop returns an action that is not `exit`, on the same machine and world, never exits
the process and never panics. -/
theorem actionLoop_nonmut (env : Env) (m : Machine) (w : World) (instr : Option Sig) :
    ∀ (n : Nat) (d : Dbg), NM d → need d ≤ n →
    ∃ a d', actionLoop env n d m w instr = .action a d' m w ∧ a ≠ .exitProgram ∧ NM d'
  | 0, d, _, hn => by simp [need] at hn; split at hn <;> omega
  | n + 1, d, hnm, hn => by
    unfold actionLoop
    split
    · rename_i hs
      simp only [need, hs, if_true] at hn
      split
      · exact ⟨_, _, rfl, by simp, by simpa [NM] using hnm⟩
      · rename_i c rest hc
        have hc' : NonMutating c = true := hnm c (by rw [hc]; simp)
        have hrest : ∀ x ∈ rest, NonMutating x = true := fun x hx => hnm x (by rw [hc]; simp [hx])
        rcases runCommand_nonmut env { d with cmds := rest } m w c hc' with ⟨d1, h1, hu⟩ | ⟨d1, h1, hu⟩
        · rw [h1]
          have hcm : d1.cmds = rest := by rw [hu.2.1]; rfl
          have hnm1 : NM d1 := by intro x hx; rw [hcm] at hx; exact hrest x hx
          have hn1 : need d1 ≤ n := by
            simp only [need, hcm]; rw [hc] at hn; simp at hn; split <;> omega
          exact actionLoop_nonmut env m w instr n d1 hnm1 hn1
        · rw [h1]
          have hcm : d1.cmds = rest := by rw [hu.2.1]; rfl
          exact ⟨_, _, rfl, by simp, by intro x hx; rw [hcm] at hx; exact hrest x hx⟩
    · rename_i ret hs
      have hne : d.status ≠ .wait := by rw [hs]; simp
      simp only [need, hne, if_false] at hn
      split
      · apply actionLoop_nonmut env m w instr n
        · intro x hx; apply hnm x; split at hx <;> exact hx
        · simp only [need, if_true]; split <;> (first | (simp only [say]; omega) | omega)
      · exact ⟨_, _, rfl, by simp, hnm⟩
    · split <;> exact ⟨_, _, rfl, by simp, hnm⟩
    · exact ⟨_, _, rfl, by simp, hnm⟩
    · split <;> exact ⟨_, _, rfl, by simp, hnm⟩

theorem preamble_nm (d : Dbg) (m : Machine) (h : NM d) : NM (preamble d m) := by
  intro c hc; rw [(preamble_facts d m).2.2.1] at hc; exact h c hc

theorem nextAction_nonmut (env : Env) (d : Dbg) (m : Machine) (w : World) (h : NM d) :
    ∃ a d', nextAction env d m w = .action a d' m w ∧ a ≠ .exitProgram ∧ NM d' := by
  rw [nextAction_eq]
  apply actionLoop_nonmut env m w _ _ _ (preamble_nm d m h)
  simp only [need]; split <;> omega

end Lace.C09

namespace Lace.C09
open Lace Lace.Dbg Lace.Cmd Lace.DbgProofs

/-- the undebugged run, with the settings of the session -/
abbrev plain (env : Env) := Run.loop env.stackOn env.minimal

theorem bounds_eq_facts (m : Machine) (hb : Run.checkPcBounds m = .eq) :
    (m.pc == 0xFFFF#16) = false ∧ ¬ (m.pc.toNat + 1 ≥ 65536) := by
  have hu := (C03.checkPcBounds_eq m).1 hb
  have := hu.2; simp [Ref.USER_END, BitVec.lt_def] at this
  constructor
  · simp; intro h; rw [h] at this; simp at this
  · omega

/-- One plain iteration at an executable PC. -/
theorem plain_step (env : Env) (n : Nat) (m : Machine) (w : World) (hb : Run.checkPcBounds m = .eq) :
    plain env (n + 1) m w =
      match VM.execute env.stackOn env.minimal (m.read m.pc) (m.setPC (m.pc + 1)) w with
      | .ok m' w' => plain env n m' w'
      | .exit c w' => .exit c (m.setPC (m.pc + 1)) w'
      | .panic s => .panic s := by
  obtain ⟨h1, h2⟩ := bounds_eq_facts m hb
  simp only [plain, Run.loop, h1, hb, h2, Bool.false_eq_true]
  rfl

/-- What a debugged run and a plain run have in common when they end. -/
def Agrees (env : Env) (m : Machine) (w : World) : DbgRun → Prop
  | .done _ _ m' w' _ => ∃ k, plain env k m w = .done m' w'
  | .exit c _ _ m' w' _ => ∃ k, plain env k m w = .exit c m' w'
  | .panic s => ∃ k, plain env k m w = .panic s
  | .fuel _ _ _ _ _ => True

/-- Once the debugger is detached the loop *is* the plain loop. -/
theorem detached_eq_plain (env : Env) : ∀ (n : Nat) (d : Dbg) (m : Machine) (w : World) (ex : List Word),
    match runLoop env n false d m w ex with
    | .done _ _ m' w' _ => plain env n m w = .done m' w'
    | .exit c _ _ m' w' _ => plain env n m w = .exit c m' w'
    | .panic s => plain env n m w = .panic s
    | .fuel _ _ m' w' _ => plain env n m w = .fuel m' w'
  | 0, d, m, w, ex => by simp [runLoop, plain, Run.loop]
  | n + 1, d, m, w, ex => by
    unfold runLoop iter
    simp only [Bool.false_eq_true, if_false]
    by_cases hpc : (m.pc == 0xFFFF#16) = true
    · simp [hpc, plain, Run.loop]
    · simp only [hpc, if_false]
      cases hb : Run.checkPcBounds m with
      | lt => simp [plain, Run.loop, hpc, hb]
      | gt => simp [plain, Run.loop, hpc, hb]
      | eq =>
        simp only [execOne]
        rw [plain_step env n m w hb]
        cases hx : VM.execute env.stackOn env.minimal (m.read m.pc) (m.setPC (m.pc + 1)) w with
        | ok m' w' => simp only; exact detached_eq_plain env n d m' w' _
        | exit c w' => simp
        | panic s => simp

theorem agrees_of_detached (env : Env) (n : Nat) (d : Dbg) (m : Machine) (w : World) (ex : List Word) :
    Agrees env m w (runLoop env n false d m w ex) := by
  have := detached_eq_plain env n d m w ex
  cases hr : runLoop env n false d m w ex <;> rw [hr] at this <;> simp only [Agrees] <;>
    first | exact ⟨n, this⟩ | trivial

/-- One iteration with only non-mutating commands left: it detaches, stutters (machine and
world untouched), or executes exactly the instruction the plain loop would execute next. -/
theorem iter_nonmut (env : Env) (d : Dbg) (m : Machine) (w : World) (hnm : NM d) :
    ∃ d1, NM d1 ∧
      (iter env true d m w = .cont false d1 m w none ∨
       iter env true d m w = .cont true d1 m w none ∨
       (Run.checkPcBounds m = .eq ∧ iter env true d m w = execOne env true d1 m w)) := by
  obtain ⟨a, d1, hna, hne, hnm1⟩ := nextAction_nonmut env d m w hnm
  unfold iter
  simp only [if_true, hna]
  cases a with
  | exitProgram => exact absurd rfl hne
  | stopDebugger => exact ⟨d1, hnm1, Or.inl rfl⟩
  | proceed =>
    simp only
    by_cases hh : (sigOf (m.read m.pc) == some Sig.halt) = true
    · exact ⟨d1, hnm1, Or.inr (Or.inl (by rw [if_pos hh]))⟩
    · rw [if_neg hh]
      by_cases hb : (Run.checkPcBounds m != Ordering.eq) = true
      · exact ⟨d1, hnm1, Or.inr (Or.inl (by rw [if_pos hb]))⟩
      · rw [if_neg hb]
        refine ⟨{ d1 with icount := if d1.icount < 4294967295 then d1.icount + 1 else d1.icount, nexec := d1.nexec + 1 }, hnm1, Or.inr (Or.inr ⟨by simpa using hb, rfl⟩)⟩

/-- **C09.** Running under the debugger with any script of non-mutating commands (ended by
`quit` or by end of input) ends exactly as some undebugged run of the same machine ends: same
final registers, memory, PC and condition code, same program output and remaining input, same
exit status. -/
theorem debug_transparent (env : Env) : ∀ (n : Nat) (d : Dbg) (m : Machine) (w : World) (ex : List Word),
    NM d → Agrees env m w (runLoop env n true d m w ex)
  | 0, d, m, w, ex, _ => by simp [runLoop, Agrees]
  | n + 1, d, m, w, ex, hnm => by
    obtain ⟨d1, hnm1, hi | hi | ⟨hb, hi⟩⟩ := iter_nonmut env d m w hnm
    · unfold runLoop; rw [hi]; exact agrees_of_detached env n d1 m w _
    · unfold runLoop; rw [hi]; exact debug_transparent env n d1 m w _ hnm1
    · unfold runLoop; rw [hi]
      simp only [execOne]
      have hps := plain_step env
      cases hx : VM.execute env.stackOn env.minimal (m.read m.pc) (m.setPC (m.pc + 1)) w with
      | ok m' w' =>
        simp only
        have ih := debug_transparent env n d1 m' w' (pushExec (some m.pc) ex) hnm1
        cases hr : runLoop env n true d1 m' w' (pushExec (some m.pc) ex) <;> rw [hr] at ih <;>
          simp only [Agrees] at ih ⊢
        · obtain ⟨k, hk⟩ := ih; exact ⟨k + 1, by rw [hps k m w hb, hx]; exact hk⟩
        · obtain ⟨k, hk⟩ := ih; exact ⟨k + 1, by rw [hps k m w hb, hx]; exact hk⟩
        · obtain ⟨k, hk⟩ := ih; exact ⟨k + 1, by rw [hps k m w hb, hx]; exact hk⟩
      | exit c w' => simp only [Agrees]; exact ⟨1, by rw [hps 0 m w hb, hx]⟩
      | panic s => simp only [Agrees]; exact ⟨1, by rw [hps 0 m w hb, hx]⟩

end Lace.C09
