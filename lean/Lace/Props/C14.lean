/-
  C14 — The command language is total, unambiguous and transport-independent.

  Model: `Lace/Model/Cmd/*.lean` (function-by-function mirror of
  `src/debugger/command/{mod.rs, parse/*, reader/{mod,argument,stdin}.rs}`, byte cursors and
  panic sites included).  Specification: `Lace/Spec/CmdGrammar.lean` (the documented grammar).
-/
import Lace.Proofs.CmdInteger
import Lace.Proofs.CmdTransport
import Lace.Proofs.CmdNoPanic
import Lace.Proofs.CmdScript
namespace Lace.C14
open Lace.Cmd Lace.CmdGrammar

/-- **Integers.** On *every* string, the model of `parse_integer` (peekable iterator, two sign
slots, `take_prefix`, checked `i32` accumulation) returns exactly what the integer grammar
prescribes: the value, "not an integer", or "malformed". -/
theorem parse_integer_eq_grammar : ∀ s : List Char, Cmd.parseInteger s = CmdGrammar.integer s :=
  parseInteger_eq

example : Cmd.parseInteger "-0x7fFF".toList = .ok (-32767) := by decide
example : CmdGrammar.integer "x+4".toList = .ok 4 := by decide
example : CmdGrammar.integer "xLabel".toList = .none := by decide
example : CmdGrammar.integer "00x4".toList = .err := by decide
example : CmdGrammar.integer "2147483648".toList = .err := by decide
example : CmdGrammar.integer "2147483647".toList = .ok 2147483647 := by decide

/-- D24 on the unchanged code: with `integer = 214748364` the guard
`integer > i32::MAX / 10` does not fire, `integer *= 10` fits, and `integer += 8` overflows. -/
example : ¬ ((214748364 : Int) > I32_MAX / 10) ∧ inI32 (214748364 * 10) ∧
    ¬ inI32 (214748364 * 10 + 8) := by decide
/-- After the fix (`checked_mul` / `checked_add`) the literal is rejected, not a panic. -/
example : Cmd.parseLine "move r1 2147483648".toList = .err := by decide

/-! ## Readers -/

/-- **The two readers split text identically.**  For every text `s` and every `n`: reading `n`
times from `Argument::from(s)` and reading `n` times from a standard input holding the UTF-8
bytes of `s` give the same lines and the same status — namely the first `n` of `textLines s`
(the maximal separator-free runs, nothing after a final separator), then end of input; neither
ever panics.  There is no difference at the end of the input: a final line without separator is
delivered by both, a final separator is followed by nothing in both. -/
theorem split_argument_eq_split_stdin (s : List Char) (n : Nat) :
    readN argStep n (Argument.from s) = readN stdinStep n (encode s) ∧
    readN stdinStep n (encode s) =
      ((textLines s).take n, if (textLines s).length < n then .eof else .more) := by
  rw [readN_arg (argView_from s), readN_stdin, readN_text]
  exact ⟨rfl, rfl⟩

example : textLines "a;;b\nc;".toList = ["a".toList, [], "b".toList, "c".toList] := by decide
example : textLines "é;x".toList = ["é".toList, "x".toList] := by decide
example : (readN argStep 5 (Argument.from "a;;b".toList)) =
    (["a".toList, [], "b".toList], .eof) := by decide

/-- One `CommandReader::read` never panics when standard input is valid UTF-8 (I9), whatever
the `--command` argument and however much of both has been consumed. -/
theorem read_no_panic {r : Reader} {ta tb : List Char} (hv : RView r ta tb) (site : String) :
    r.read ≠ .panic site := by
  have := read_view hv
  intro h
  split at this
  · obtain ⟨r', h'⟩ := this; rw [h] at h'; cases h'
  · obtain ⟨r', _, _, h', _⟩ := this; rw [h] at h'; cases h'

/-- **A session depends only on the sequence of pending lines** (`sessionL`: trim, skip blank
lines, parse, count error reports), for every argument and every valid-UTF-8 standard input. -/
theorem session_eq_lines (a : Option (List Char)) (b : List Char) :
    session (Reader.from a (encode b)) = sessionL (textLines (a.getD []) ++ textLines b) :=
  session_lines (rview_from a b)

/-- **Transport independence.**  The commands, error reports and ending of a session are the
same whether the script `a` arrives through `--command` and `b` through standard input, or
`a`, a newline and `b` all arrive through standard input.  (The line *sequences* differ by at
most one blank line at the junction — after an empty `a` or an `a` ending in a separator —
which `read_from` skips.) -/
theorem transport_independent (a b : List Char) :
    session (Reader.from (some a) (encode b)) =
      session (Reader.from none (encode (a ++ '\n' :: b))) := by
  rw [session_eq_lines, session_eq_lines]
  simp only [Option.getD_some, Option.getD_none]
  have h := sessionL_join a b [] '\n' (by decide)
  simp only [textLines, linesAux, if_true, List.nil_append] at h ⊢
  exact h.symm

/-- The same with `;` at the junction, and for a script given entirely as the argument. -/
theorem transport_independent_semicolon (a b : List Char) :
    session (Reader.from (some a) (encode b)) =
      session (Reader.from none (encode (a ++ ';' :: b))) := by
  rw [session_eq_lines, session_eq_lines]
  simp only [Option.getD_some, Option.getD_none]
  have h := sessionL_join a b [] ';' (by decide)
  simp only [textLines, linesAux, if_true, List.nil_append] at h ⊢
  exact h.symm

theorem transport_independent_argument_only (a b : List Char) :
    session (Reader.from (some a) (encode b)) =
      session (Reader.from (some (a ++ '\n' :: b)) []) := by
  have h1 := session_eq_lines (some a) b
  have h2 := session_eq_lines (some (a ++ '\n' :: b)) []
  simp only [encode_nil] at h2
  rw [h1, h2]
  simp only [Option.getD_some]
  have h := sessionL_join a b [] '\n' (by decide)
  simp only [textLines, linesAux, if_true, List.append_nil] at h ⊢
  exact h.symm

/-- **`;` ≡ newline.**  Replacing separators by separators (`f` maps `;` and newline to `;` or
newline and fixes every other character) anywhere in the argument and in standard input does
not change the session. -/
theorem separators_equivalent (f : Char → Char)
    (hf1 : ∀ c, isDelimiter (f c) = isDelimiter c) (hf2 : ∀ c, isDelimiter c = false → f c = c)
    (a : Option (List Char)) (b : List Char) :
    session (Reader.from (a.map (·.map f)) (encode (b.map f))) =
      session (Reader.from a (encode b)) := by
  rw [session_eq_lines, session_eq_lines]
  cases a with
  | none => simp only [Option.map_none, Option.getD_none, textLines, linesAux_map f hf1 hf2]
  | some a => simp only [Option.map_some, Option.getD_some, textLines, linesAux_map f hf1 hf2]

/-- The swap of `;` and newline satisfies the hypotheses of `separators_equivalent`. -/
def swapSeparators (c : Char) : Char := if c = ';' then '\n' else if c = '\n' then ';' else c

theorem swapSeparators_ok :
    (∀ c, isDelimiter (swapSeparators c) = isDelimiter c) ∧
    (∀ c, isDelimiter c = false → swapSeparators c = c) := by
  constructor
  · intro c
    unfold swapSeparators isDelimiter
    by_cases h1 : c = ';'
    · subst h1; decide
    · by_cases h2 : c = '\n'
      · subst h2; decide
      · simp [h1, h2]
  · intro c h
    unfold isDelimiter at h
    unfold swapSeparators
    simp at h
    simp [h.1, h.2]

example : session (Reader.from (some "help;bogus".toList) (encode "move r1 5\nquit".toList)) =
    { events := [some .help, none, some (.move (.reg 1#3) 5#16), some .quit], ending := .eof } := by
  rw [session_eq_lines]; decide

/-! ## Command lines -/

/-- **`Command::try_from` is the documented grammar.**  On every line in its domain (no `;`, no
newline, a first word — which is what the readers deliver, `reader_lines_valid`), the model of
`Command::try_from` (byte cursor, `NaiveType` pre-check, `TryParse` chain, name tables) yields
exactly what the grammar prescribes: the one command with the documented argument values, or a
rejection — except for the word `sudo`, which exits the process (known finding K1). -/
theorem parse_command_eq_grammar (line : List Char) (h : ValidLine line) :
    Cmd.parseLine line =
      if firstWord line = "sudo".toList then .exit 0 else CmdGrammar.parseLine line :=
  parseLine_eq line h.1 h.2

/-- **No line makes the parser panic**: none of `assert!(self.cursor == 0)`,
`expect("missing command name")`, `debug_assert!(!matches!(ch, ';' | '\n'))`, the `str` slices at
byte cursors, `split_at`, `arg_count += 1`, `arg_count() + 1`,
`debug_assert!(iter.expect_end(0, 0).is_ok())`, the `assert!` after the digit loop, or the
(now checked) `i32` arithmetic can fire on a valid line. -/
theorem parse_no_panic (line : List Char) (h : ValidLine line) (site : String) :
    Cmd.parseLine line ≠ .panic site :=
  parseLine_noPanic h site

/-- Every line either reader delivers is, once trimmed and unless blank, in the domain of
`Command::try_from`. -/
theorem reader_lines_valid (t l : List Char) (hl : l ∈ textLines t) (hne : trim l ≠ []) :
    ValidLine (trim l) :=
  valid_of_textLines hl hne

/-- **A whole session never panics**: for every `--command` argument and every standard input
that is valid UTF-8, looping `Command::read_from` to the end of the input ends with end of
input or with `sudo`'s exit, never with a panic. -/
theorem session_no_panic (a : Option (List Char)) (b : List Char) (site : String) :
    (session (Reader.from a (encode b))).ending ≠ .panic site := by
  rw [session_eq_lines]
  apply sessionL_noPanic
  intro l hl hne s
  have hv : ValidLine (trim l) := by
    rcases List.mem_append.1 hl with h | h
    · exact valid_of_textLines h hne
    · exact valid_of_textLines h hne
  exact parseLine_noPanic hv s

/-- **A script means what the grammar says, whatever the transport.**  For every `--command`
argument `a` (or none) and every valid-UTF-8 standard input `b`, provided no line of the script
names `sudo` (K1): the session — every command and every error report that looping
`Command::read_from` yields, in order — is exactly `CmdGrammar.script` of the combined text
`a ++ "\n" ++ b` (split at `;` and newline, trim, drop blank lines, read each line by the
grammar), and it ends with the end of the input. -/
theorem session_eq_script (a : Option (List Char)) (b : List Char)
    (hns : ∀ l ∈ splitLines (combined a b), firstWord (trim l) ≠ "sudo".toList) :
    session (Reader.from a (encode b)) =
      { events := script (combined a b), ending := .eof } := by
  have hcomb : session (Reader.from a (encode b)) = sessionL (textLines (combined a b)) := by
    cases a with
    | none =>
      rw [session_eq_lines]
      simp [combined, textLines, linesAux]
    | some a =>
      rw [session_eq_lines]
      simp only [Option.getD_some, combined]
      have h := sessionL_join a b [] '\n' (by decide)
      simp only [textLines] at h ⊢
      exact h.symm
  rw [hcomb, script_eq, nonBlank_textLines]
  apply sessionL_spec
  intro l hl hne
  exact ⟨valid_of_textLines hl hne, hns l (mem_splitLines_of_mem_textLines hl)⟩

example : script (combined (some "help;bogus".toList) "move r1 5\nquit".toList) =
    [some .help, none, some (.move (.reg 1#3) 5#16), some .quit] := by decide

/-- The grammar's name tables are unambiguous: no word (in any letter case) names two
commands, so `lookup` finding the first match finds the only one. -/
theorem commandTable_unambiguous :
    ((commandTable ++ [(CommandName.stepOver, stepNames), (CommandName.breakList, breakNames)]).flatMap
        (fun e => e.2.map (fun n => n.toList.map toLower))).Nodup ∧
    (stepTable.flatMap (fun e => e.2.map (fun n => n.toList.map toLower))).Nodup ∧
    (breakTable.flatMap (fun e => e.2.map (fun n => n.toList.map toLower))).Nodup := by
  decide

/-- Offsets delivered to the debugger are `i16` values. -/
def MemLoc.offsetInRange : MemLoc → Prop
  | .pcOffset o => -32768 ≤ o ∧ o ≤ 32767
  | .label _ o => -32768 ≤ o ∧ o ≤ 32767
  | .address _ => True

theorem parse_offsets_in_range (t : List Char) (l : MemLoc) (h : memLoc t = .ok l) :
    MemLoc.offsetInRange l := by
  have hoff : ∀ r o, offset r = .ok o → -32768 ≤ o ∧ o ≤ 32767 := by
    intro r o h
    unfold offset at h
    cases r with
    | ok v =>
      simp only [CmdGrammar.asI16] at h
      by_cases hv : -32768 ≤ v ∧ v ≤ 32767
      · simp only [hv, and_self, if_true, PR.ok.injEq] at h; subst h; exact hv
      · simp [hv] at h
    | none => simp at h
    | err => simp at h
    | panic s => simp at h
  cases t with
  | nil => simp [memLoc] at h
  | cons c rest =>
    unfold memLoc at h
    by_cases hc : c = '^'
    · simp only [hc, if_true] at h
      cases rest with
      | nil => simp at h; subst h; simp [MemLoc.offsetInRange]
      | cons d ds =>
        simp only [reduceCtorEq, if_false] at h
        rcases offset_cases (integer (d :: ds)) with ⟨o, ho⟩ | ho
        · rw [ho] at h; simp at h; subst h; exact hoff _ _ ho
        · rw [ho] at h; simp at h
    · simp only [hc, if_false] at h
      cases hi : integer (c :: rest) with
      | ok v =>
        rw [hi] at h
        simp only at h
        cases ha : CmdGrammar.asU16 v with
        | none => rw [ha] at h; simp at h
        | some a => rw [ha] at h; simp at h; subst h; trivial
      | err => rw [hi] at h; simp at h
      | panic s => rw [hi] at h; simp at h
      | none =>
        rw [hi] at h
        simp only at h
        by_cases hs : isLabelStart c = true
        · simp only [hs, not_true_eq_false, if_false] at h
          cases hd : rest.dropWhile isLabelChar with
          | nil => rw [hd] at h; simp at h; subst h; simp [MemLoc.offsetInRange]
          | cons d ds =>
            rw [hd] at h
            simp only [reduceCtorEq, if_false] at h
            rcases offset_cases (signedInteger (d :: ds)) with ⟨o, ho⟩ | ho
            · rw [ho] at h; simp at h; subst h; exact hoff _ _ ho
            · rw [ho] at h; simp at h
        · simp [hs] at h

example : ValidLine "move r1 #-07".toList := by
  constructor
  · intro c hc; revert c; decide
  · decide
example : Cmd.parseLine "move r1 #-07".toList = .ok (.move (.reg 1#3) 0xFFF9#16) := by decide
example : CmdGrammar.parseLine "goto Foo-x10".toList = .ok (.goto (.label "Foo".toList (-16))) := by
  decide
example : CmdGrammar.parseLine "break add ^3".toList = .ok (.breakAdd (.pcOffset 3)) := by decide
example : CmdGrammar.parseLine "s i 0".toList = .ok (.stepInto 1#16) := by decide
example : CmdGrammar.parseLine "a".toList = .ok (.assembly (.pcOffset 0)) := by decide
example : CmdGrammar.parseLine "print".toList = .ok (.print (.mem (.pcOffset 0))) := by decide
example : CmdGrammar.parseLine "mov r1 5".toList = .err := by decide      -- misspelling
example : CmdGrammar.parseLine "goto r1".toList = .err := by decide       -- register ≠ address
example : CmdGrammar.parseLine "eval  add r0, r0, #1".toList =
    .ok (.eval "add r0, r0, #1".toList) := by decide
/-- K1: the model exits on `sudo`, the grammar rejects the line. -/
example : Cmd.parseLine "sudo rm".toList = .exit 0 ∧ CmdGrammar.parseLine "sudo rm".toList = .err := by
  decide

end Lace.C14
