/-
  C14 — The command language is total, unambiguous and transport-independent.

  Model: `Lace/Model/Cmd/*.lean` (function-by-function mirror of
  `src/debugger/command/{mod.rs, parse/*, reader/{mod,argument,stdin}.rs}`, byte cursors and
  panic sites included).  Specification: `Lace/Spec/CmdGrammar.lean` (the documented grammar).
-/
import Lace.Proofs.CmdInteger
namespace Lace.C14
open Lace.Cmd Lace.CmdGrammar

/-- **Integers.** On *every* string, the model of `parse_integer` (peekable iterator, two sign
slots, `take_prefix`, checked `i32` accumulation) returns exactly what the integer grammar
prescribes: the value, "not an integer", or "malformed". -/
theorem parse_integer_eq_grammar : ∀ s : List Char, Cmd.parseInteger s = CmdGrammar.integer s :=
  parseInteger_eq

example : Cmd.parseInteger "-0x7fFF".toList = .ok (-32767) := by decide
example : CmdGrammar.integer "x+4".toList = .ok 4 := by decide
example : CmdGrammar.integer "xLabel".toList = .none := by decide
example : CmdGrammar.integer "00x4".toList = .err := by decide
example : CmdGrammar.integer "2147483648".toList = .err := by decide
example : CmdGrammar.integer "2147483647".toList = .ok 2147483647 := by decide

end Lace.C14
