/-
  C13 — Debugger writes are confined to user space and to the named target.

  * `move_reg_frame`, `move_mem_frame` : `move` changes exactly the one register / memory word it
    names (every other register, every other memory word, PC, CC, the world and the breakpoint
    list are untouched).
  * `resolveUser_spec` : a location (absolute address, label ± offset, PC offset) is accepted iff
    its true address computed in ℤ — no 16-bit wrap-around — lies in [origin, 0xFE00), and then
    it is exactly that address (covers offsets that overflow 16 bits and origins ≥ 0x8000).
  * `oob_refused` : `move`, `goto`, `break add`, `break remove` on a location outside user space
    print an error line and change neither the machine nor the breakpoint list.
  * `inspect_readonly` : `print`, `registers`, `assembly`, `break list` never change the machine,
    the world or the breakpoint list.
-/
import Lace.Proofs.DbgCommands
namespace Lace.C13
open Lace Lace.Dbg Lace.Cmd Lace.DbgProofs

/-- The address a location denotes, computed in ℤ (no 16-bit wrap-around); `none` = unknown label. -/
def trueAddr (env : Env) (orig : Word) (m : Machine) : MemLoc → Option Int
  | .address a => some a.toNat
  | .pcOffset off => some (m.pc.toNat + off)
  | .label name off => (env.symtab.lookup name).map fun line => (line.toNat : Int) - 1 + orig.toNat + off

def InUserZ (orig : Word) (z : Int) : Prop := (orig.toNat : Int) ≤ z ∧ z < 0xFE00
instance (orig : Word) (z : Int) : Decidable (InUserZ orig z) := by unfold InUserZ; infer_instance

/-- labels of a program that loaded: line ≥ 1 and `orig + line − 1` is a 16-bit address -/
def LabelsOk (env : Env) (orig : Word) : Prop :=
  ∀ name line, env.symtab.lookup name = some line → 1 ≤ line.toNat ∧ orig.toNat + line.toNat - 1 < 65536

theorem addAddressOffset_spec (orig address : Word) (off : Int) :
    addAddressOffset orig address off =
      if InUserZ orig (address.toNat + off) then some (BitVec.ofInt 16 (address.toNat + off)) else none := by
  unfold addAddressOffset InUserZ
  simp only [ge_iff_le]

theorem ofInt_toNat_of_inUser (orig : Word) (z : Int) (h : InUserZ orig z) :
    ((BitVec.ofInt 16 z).toNat : Int) = z := by
  obtain ⟨h1, h2⟩ := h
  have h0 : 0 ≤ z := by omega
  simp [BitVec.toNat_ofInt]
  omega

theorem inUser_iff (orig a : Word) : inUser orig a = true ↔ InUserZ orig a.toNat := by
  unfold inUser InUserZ
  simp [BitVec.le_def, BitVec.lt_def]
  omega

theorem label_addr_toNat (orig line : Word) (h1 : 1 ≤ line.toNat) (h2 : orig.toNat + line.toNat - 1 < 65536) :
    ((line - 1 + orig : Word).toNat : Int) = (line.toNat : Int) - 1 + orig.toNat := by
  have hl := line.isLt
  have ho := orig.isLt
  simp [BitVec.toNat_add, BitVec.toNat_sub]
  omega

/-- `resolve_location` + `expect_userspace_address` accept a location iff its true address lies
in `[orig, 0xFE00)`, and then return exactly that address. -/
theorem resolveUser_spec (env : Env) (orig : Word) (m : Machine) (l : MemLoc) (hl : LabelsOk env orig) :
    (∀ a, resolveUser env orig m l = .ok a →
        ∃ z, trueAddr env orig m l = some z ∧ InUserZ orig z ∧ (a.toNat : Int) = z) ∧
    ((∀ z, trueAddr env orig m l = some z → ¬ InUserZ orig z) → ∃ e, resolveUser env orig m l = .error e) := by
  cases l with
  | address a =>
    simp only [resolveUser, resolveLocation, trueAddr]
    by_cases hu : inUser orig a = true
    · simp only [hu, if_true]
      exact ⟨fun a' h => by cases h; exact ⟨_, rfl, (inUser_iff orig a).1 hu, rfl⟩,
             fun h => absurd ((inUser_iff orig a).1 hu) (h _ rfl)⟩
    · simp only [hu]
      exact ⟨fun a' h => by simp at h, fun _ => ⟨_, rfl⟩⟩
  | pcOffset off =>
    simp only [resolveUser, resolveLocation, trueAddr, addAddressOffset_spec]
    by_cases hz : InUserZ orig (m.pc.toNat + off)
    · simp only [hz, if_true]
      have ht := ofInt_toNat_of_inUser orig _ hz
      have hu : inUser orig (BitVec.ofInt 16 (m.pc.toNat + off)) = true := by
        rw [inUser_iff, ht]; exact hz
      simp only [hu, if_true]
      exact ⟨fun a' h => by cases h; exact ⟨_, rfl, hz, ht⟩, fun h => absurd hz (h _ rfl)⟩
    · simp only [hz, if_false]
      exact ⟨fun a' h => by simp at h, fun _ => ⟨_, rfl⟩⟩
  | label name off =>
    simp only [resolveUser, resolveLocation, trueAddr]
    cases hlk : env.symtab.lookup name with
    | none => simp
    | some line =>
      obtain ⟨h1, h2⟩ := hl name line hlk
      have hadd := label_addr_toNat orig line h1 h2
      simp only [addAddressOffset_spec, Option.map_some]
      have hcast : ((line - 1 + orig : Word).toNat : Int) + off = (line.toNat : Int) - 1 + orig.toNat + off := by
        rw [hadd]
      by_cases hz : InUserZ orig ((line - 1 + orig : Word).toNat + off)
      · simp only [hz, if_true]
        have ht := ofInt_toNat_of_inUser orig _ hz
        have hu : inUser orig (BitVec.ofInt 16 ((line - 1 + orig : Word).toNat + off)) = true := by
          rw [inUser_iff, ht]; exact hz
        simp only [hu, if_true]
        refine ⟨fun a' h => by cases h; exact ⟨_, rfl, by rw [← hcast]; exact hz, by rw [ht, hcast]⟩, ?_⟩
        intro h; exact absurd (by rw [← hcast]; exact hz) (h _ rfl)
      · simp only [hz, if_false]
        exact ⟨fun a' h => by simp at h, fun _ => ⟨_, rfl⟩⟩

/-- **C13.** `move rK value` changes exactly register K. -/
theorem move_reg_frame (env : Env) (d : Dbg) (m : Machine) (w : World) (r : BitVec 3) (v : Word) :
    runCommand env d m w (.move (.reg r) v) = .next (base d) (m.setReg r v) w ∧
    (m.setReg r v).getReg r = v ∧
    (∀ r', r' ≠ r → (m.setReg r v).getReg r' = m.getReg r') ∧
    (∀ a, (m.setReg r v).read a = m.read a) ∧ (m.setReg r v).pc = m.pc ∧ (m.setReg r v).cc = m.cc :=
  ⟨rfl, Machine.getReg_setReg_same _ _ _, fun r' h => Machine.getReg_setReg_ne _ _ _ _ h,
   fun _ => rfl, rfl, rfl⟩

/-- **C13.** `move <location> value` either is refused with an error line (nothing changes) or
changes exactly the one memory word it names, which lies in user space. -/
theorem move_mem_frame (env : Env) (d : Dbg) (m : Machine) (w : World) (l : MemLoc) (v : Word) :
    (∃ e, runCommand env d m w (.move (.mem l) v) = .next (say (base d) e) m w) ∨
    (∃ a, resolveUser env (origOf d) m l = .ok a ∧
      runCommand env d m w (.move (.mem l) v) = .next (base d) (m.write a v) w ∧
      (m.write a v).read a = v ∧ (∀ a', a' ≠ a → (m.write a v).read a' = m.read a') ∧
      (∀ r, (m.write a v).getReg r = m.getReg r) ∧ (m.write a v).pc = m.pc ∧ (m.write a v).cc = m.cc) := by
  simp only [runCommand]
  have ho : origOf (base d) = origOf d := rfl
  cases hr : resolveUser env (origOf d) m l with
  | error e => left; exact ⟨e, by simp [base, origOf] at hr ⊢; rw [hr]⟩
  | ok a =>
    right
    refine ⟨a, rfl, ?_, Machine.read_write_same _ _ _, fun a' h => Machine.read_write_ne _ _ _ _ h,
      fun _ => rfl, rfl, rfl⟩
    simp [base, origOf] at hr ⊢; rw [hr]

/-- The four commands that take a user-space location. -/
inductive Targeted : Command → MemLoc → Prop
  | move (l v) : Targeted (.move (.mem l) v) l
  | goto (l) : Targeted (.goto l) l
  | breakAdd (l) : Targeted (.breakAdd l) l
  | breakRemove (l) : Targeted (.breakRemove l) l

/-- **C13.** A targeted command whose location's true address is outside `[origin, 0xFE00)` (or
whose label does not exist) is refused: an error line is printed, and the machine, the world
and the breakpoint list are exactly as before. -/
theorem oob_refused (env : Env) (d : Dbg) (m : Machine) (w : World) (c : Command) (l : MemLoc)
    (hc : Targeted c l) (hl : LabelsOk env (origOf d))
    (hout : ∀ z, trueAddr env (origOf d) m l = some z → ¬ InUserZ (origOf d) z) :
    ∃ e, runCommand env d m w c = .next (say (base d) e) m w ∧ (say (base d) e).bps = d.bps := by
  obtain ⟨e, he⟩ := (resolveUser_spec env (origOf d) m l hl).2 hout
  have he' : resolveUser env (origOf (base d)) m l = .error e := he
  cases hc <;> exact ⟨e, by simp only [runCommand]; simp only [base, origOf] at he' ⊢; rw [he'], rfl⟩

/-- **C13.** Inspection commands never change machine state, world or breakpoints. -/
theorem inspect_readonly (env : Env) (d : Dbg) (m : Machine) (w : World) (c : Command)
    (hc : (∃ l, c = .print l) ∨ c = .registers ∨ (∃ l, c = .assembly l) ∨ c = .breakList) :
    ∃ d', runCommand env d m w c = .next d' m w ∧ d'.bps = d.bps ∧ d'.status = d.status ∧
      d'.initial = d.initial := by
  have key : ∀ d' : Dbg, SameButLog (base d) d' → d'.bps = d.bps ∧ d'.status = d.status ∧ d'.initial = d.initial :=
    fun d' h => ⟨h.2.2.1, h.2.1, h.1⟩
  rcases hc with ⟨l, rfl⟩ | rfl | ⟨l, rfl⟩ | rfl
  · cases l with
    | reg r => exact ⟨_, rfl, key _ (printInteger_same _ _)⟩
    | mem l =>
      simp only [runCommand]
      split
      · exact ⟨_, rfl, key _ (say_same _ _)⟩
      · exact ⟨_, rfl, key _ (printInteger_same _ _)⟩
  · exact ⟨_, rfl, key _ (printRegisters_same _ _)⟩
  · simp only [runCommand]
    split
    · exact ⟨_, rfl, key _ (say_same _ _)⟩
    · split
      · exact ⟨_, rfl, key _ (SameButLog.refl _)⟩
      · split
        · split
          · exact ⟨_, rfl, key _ (SameButLog.refl _)⟩
          · exact ⟨_, rfl, key _ (sayL_same _ _)⟩
        · exact ⟨_, rfl, key _ (SameButLog.refl _)⟩
  · simp only [runCommand]
    split
    · exact ⟨_, rfl, key _ (say_same _ _)⟩
    · exact ⟨_, rfl, key _ (foldl_same _ (fun d _ => sayL_same d _) _ _)⟩

/-! Non-vacuity: an offset that overflows 16 bits is out of range, not wrapped. -/
example : ¬ InUserZ 0x3000#16 ((0x3005 : Nat) + 32767 + 32767) := by decide
example : InUserZ 0x9000#16 ((0x9001 : Nat) + 3) := by decide

end Lace.C13
