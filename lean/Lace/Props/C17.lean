/-
  C17 — "The debugger's view of source and symbols matches the assembler's."

  Models: `Lace/Model/Parser.lean` (statement spans: `PState.addStmt`, `tok_end`, directive spans
  by `Span.join?`), `Lace/Model/AsmSource.lean` (`get_source_statement`, `show_single_line`),
  `Lace/Model/Debugger.lean` (`resolveLocation`, after the fix of D19).

  STATUS.  This file — statements about ARBITRARY sources and the label clause.  Proved: the span
  of every statement the parser adds starts at the first byte of its mnemonic/directive token and ends
  with the last consumed operand token (on the parser step, `PState.addStmt`:
  `span_starts_at_statement_token`, `span_covers_operands_holds`); the tokens one `.fill` / `.blkw` /
  `.stringz` directive expands to all carry one span (`multiword_share_span_holds`, on the
  preprocessor step); addresses that hold no statement show nothing; a label location resolves to
  `orig + line − 1 + offset` for EVERY origin (incl. ≥ 0x8000) whenever that lies in
  `[orig, 0xFE00)`, and is refused otherwise; every statement span of an assembled image starts and
  ends on a character boundary of the source, so it can be sliced and `assembly a` never panics
  (`span_inside_source_holds`, `show_single_line_no_panic`; whole program, lemmas in
  `Proofs/AsmSpan.lean`); `span_text_eq_statement_partial` (a schema over any renderer that reports
  what it wrote).

  The text-level round trip itself — "`assembly a` shows exactly the source text of the statement
  that produced the word: mnemonic or directive through its last operand, without label or comment"
  — is PROVED IN FULL in `Props/C17Text.lean` for the specification's renderer `Spec.render` and its
  whole layout space (`span_text_eq_statement_render`, `stmtText_render`,
  `assembly_shows_statement_text`; specification side `Spec.stmtTextOf`).  It is also checked on
  every run by the three-way correspondence (implementation vs. model spans vs. the generator's own
  statement texts).
-/
import Lace.Model.AsmSource
import Lace.Proofs.DbgBasics
import Lace.Proofs.AsmSpan
namespace Lace.C17
open Lace Lace.Asm Lace.Dbg Lace.Cmd

/-! ### Statement spans (parser step) -/

/-- **span_starts_at_statement_token.**  The statement `parseStep` adds for the token `tok`
(mnemonic, trap name or data-directive token) has a span that starts at the first byte of that
token — never at a label before it, never at white space. -/
theorem span_starts_at_statement_token (st : PState) (tok : Token) (stmt : Stmt) (te : Option Nat) :
    ∃ a rest, (st.addStmt tok stmt te).stmts = a :: rest ∧ rest = st.stmts ∧
      a.span.offs = tok.span.offs ∧ a.stmt = stmt ∧ a.line = (st.n + 1) % 65536 :=
  ⟨_, _, rfl, rfl, rfl, rfl, rfl⟩

/-- **span_covers_operands.**  If the statement consumed operands, the last of which ends at byte
`e` (`tok_end`) beyond the start of the statement token, its span ends exactly at `e`: mnemonic
through last operand, inner separators included, nothing after.  If it consumed none — `te =
none` and the stale `tok_end` of an earlier statement is at or before this token (after the fix
of D23 also when it is *equal*, e.g. 0 = 0 at the start of the file) — the span is the token. -/
def span_covers_operands : Prop :=
  ∀ (st : PState) (tok : Token) (stmt : Stmt) (te : Option Nat),
    let e := te.getD st.tokEnd
    ∃ a rest, (st.addStmt tok stmt te).stmts = a :: rest ∧
      (tok.span.offs < e → a.span.offs + a.span.len = e) ∧
      (e ≤ tok.span.offs → a.span = tok.span)

/-- `span_covers_operands`, proved: a direct unfolding of `PState.addStmt`. -/
theorem span_covers_operands_holds : span_covers_operands := by
  intro st tok stmt te
  cases te with
  | none =>
    refine ⟨_, _, rfl, ?_, ?_⟩
    · intro h
      have h' : ¬ st.tokEnd ≤ tok.span.offs := by simpa [Option.getD] using h
      show tok.span.offs + (if st.tokEnd ≤ tok.span.offs then tok.span.len else st.tokEnd - tok.span.offs) = _
      rw [if_neg h']
      simp only [Option.getD] at h ⊢
      omega
    · intro h
      have h' : st.tokEnd ≤ tok.span.offs := h
      show Span.mk tok.span.offs (if st.tokEnd ≤ tok.span.offs then tok.span.len else st.tokEnd - tok.span.offs) = _
      rw [if_pos h']
  | some e =>
    refine ⟨_, _, rfl, ?_, ?_⟩
    · intro h
      have h' : ¬ e ≤ tok.span.offs := by simpa [Option.getD] using h
      show tok.span.offs + (if e ≤ tok.span.offs then tok.span.len else e - tok.span.offs) = _
      rw [if_neg h']
      simp only [Option.getD] at h ⊢
      omega
    · intro h
      have h' : e ≤ tok.span.offs := h
      show Span.mk tok.span.offs (if e ≤ tok.span.offs then tok.span.len else e - tok.span.offs) = _
      rw [if_pos h']

/-- Every statement span of an assembled image lies inside the source on character boundaries, so
the debugger's slice `&src[span]` never panics.  Proved below: `span_inside_source_holds`. -/
def span_inside_source : Prop :=
  ∀ (so : Bool) (tbl : SymTab) (src : List Char) (img : Image) (tbl' : SymTab),
    assemble so tbl src = (.ok img, tbl') →
    ∀ p ∈ img.spans, ∃ t, sliceBytes src p.1 p.2 = some t

/-- `span_inside_source`, proved: both ends of every statement span are character boundaries of
the source (`Proofs/AsmSpan.lean`: the invariant `Bdy` carried from the lexer's cursor through
`preprocess`, `tok_end`, `add_stmt` and `backpatch`), and such a span can be sliced. -/
theorem span_inside_source_holds : span_inside_source := by
  intro so tbl src img tbl' h p hp
  obtain ⟨h1, h2⟩ := assemble_spans_bdy (some so) tbl src img tbl' h p hp
  exact sliceBytes_of_bdy h1 h2

/-- Consequence for the debugger: whatever the address, `assembly a` on an assembled program never
hits the slicing panic of `show_single_line` — it prints nothing or a piece of the source. -/
theorem show_single_line_no_panic (so : Bool) (tbl : SymTab) (src : List Char) (img : Image)
    (tbl' : SymTab) (h : assemble so tbl src = (.ok img, tbl')) (orig a : Word) :
    (AsmSource.mk orig img.spans src).showSingleLine a ≠ .panic := by
  unfold AsmSource.showSingleLine
  cases hs : (AsmSource.mk orig img.spans src).statementAt a with
  | none => simp
  | some p =>
    obtain ⟨o, l⟩ := p
    have hmem : (o, l) ∈ img.spans := by
      unfold AsmSource.statementAt at hs
      split at hs
      · cases hs
      · exact List.mem_of_getElem? hs
    obtain ⟨t, ht⟩ := span_inside_source_holds so tbl src img tbl' h (o, l) hmem
    simp only [] at ht ⊢
    rw [ht]
    simp

/-- The words of one `.stringz` / `.blkw` directive all carry the span of that directive (from
the `.` of the directive to the end of its literal), as does the single token of a `.fill`.
Proved below: `multiword_share_span_holds`. -/
def multiword_share_span : Prop :=
  ∀ (feat : Bool) (pos : Nat) (rest : List Char) (acc : List Token) (pos' : Nat) (rest' : List Char)
    (acc' : List Token),
    preprocessStep (some feat) pos rest acc = .more pos' rest' acc' →
    ∃ new, acc' = new ++ acc ∧ ∀ t₁ ∈ new, ∀ t₂ ∈ new, t₁.span = t₂.span

/-- `multiword_share_span`, proved: case analysis over one iteration of `preprocess`; the tokens
of a `.fill` / `.blkw` / `.stringz` are all built by `byteTok _ span` with the one joined span. -/
theorem multiword_share_span_holds : multiword_share_span := by
  intro feat pos rest acc pos' rest' acc' h
  unfold preprocessStep at h
  split at h
  · cases h
  · cases h
  · split at h
    · -- fill
      split at h
      · cases h
      · cases h
      · split at h
        · cases h
        · split at h
          · cases h; exact ⟨[_], rfl, by simp⟩
          · cases h; exact ⟨[_], rfl, by simp⟩
          · cases h
    · -- blkw
      split at h
      · cases h
      · cases h
      · split at h
        · cases h
        · split at h
          · cases h
            exact ⟨_, rfl, fun t₁ h₁ t₂ h₂ => by
              rw [List.eq_of_mem_replicate h₁, List.eq_of_mem_replicate h₂]⟩
          · cases h
            exact ⟨_, rfl, fun t₁ h₁ t₂ h₂ => by
              rw [List.eq_of_mem_replicate h₁, List.eq_of_mem_replicate h₂]⟩
          · cases h
    · -- stringz
      split at h
      · cases h
      · cases h
      · split at h
        · split at h
          · cases h
          · split at h
            · cases h
            · cases h
              rename_i span _ _ body _ _
              refine ⟨byteTok 0 span :: ((unescape body).map (fun c => byteTok (charWord c) span)).reverse, by simp, ?_⟩
              have key : ∀ t ∈ byteTok 0 span :: ((unescape body).map (fun c => byteTok (charWord c) span)).reverse, t.span = span := by
                intro t ht
                rcases List.mem_cons.mp ht with rfl | ht
                · rfl
                · rw [List.mem_reverse, List.mem_map] at ht
                  obtain ⟨c, _, rfl⟩ := ht
                  rfl
              intro t₁ h₁ t₂ h₂
              rw [key t₁ h₁, key t₂ h₂]
        · cases h
    · cases h; exact ⟨[_], rfl, by simp⟩
    · cases h; exact ⟨[], rfl, by simp⟩
    · cases h; exact ⟨[], rfl, by simp⟩
    · cases h
    · cases h
    · cases h; exact ⟨[_], rfl, by simp⟩

/-- Text-level statement as a schema over ANY renderer that reports what it wrote (which is what
the harness generator does on every run): the slice of the source at statement `i`'s span is what
the renderer wrote for statement `i`.  For the specification's renderer `Spec.render` the hypothesis
"reported spans = assembler's spans" is discharged and the statement proved outright in
`Props/C17Text.lean` (`span_text_eq_statement_render`). -/
def span_text_eq_statement : Prop :=
  ∀ (so : Bool) (src : List Char) (img : Image) (tbl : SymTab)
    (written : List (Nat × Nat × List Char)),      -- per image word: offset, length, text written
    assemble so [] src = (.ok img, tbl) →
    (∀ w ∈ written, sliceBytes src w.1 w.2.1 = some w.2.2) →
    written.map (fun w => (w.1, w.2.1)) = img.spans →
    ∀ i, (envOf so src img tbl).stmtText i = (written[i]?).map (·.2.2)

/-- Proved part: if the renderer's reported spans are the assembler's spans (what the
correspondence checks), the debugger shows exactly the text the renderer wrote. -/
theorem span_text_eq_statement_partial : span_text_eq_statement := by
  intro so src img tbl written _ hsl hsp i
  simp only [envOf, ← hsp, List.getElem?_map]
  cases hw : written[i]? with
  | none => rfl
  | some w =>
    have hm : w ∈ written := List.mem_of_getElem? hw
    simp only [Option.map_some, hsl w hm]

/-! ### Addresses that hold no statement -/

/-- **no_statement_no_text.**  `assembly a` prints nothing for every address below the origin and
for every address at or beyond `orig + n` (`n` statements): `get_source_statement` is `None`. -/
theorem no_statement_no_text (s : AsmSource) (a : Word)
    (h : a < s.orig ∨ s.spans.length ≤ (a - s.orig).toNat) :
    s.showSingleLine a = .nothing := by
  unfold AsmSource.showSingleLine AsmSource.statementAt
  have hc : a < s.orig ∨ (a - s.orig).toNat ≥ s.spans.length := h
  rw [if_pos hc]

/-- … and for an address that holds statement `i`, it is that statement's span that is sliced. -/
theorem statement_text (s : AsmSource) (a : Word) (h1 : ¬ a < s.orig)
    (h2 : (a - s.orig).toNat < s.spans.length) :
    s.statementAt a = some (s.spans[(a - s.orig).toNat]'h2) := by
  unfold AsmSource.statementAt
  have : ¬ (a < s.orig ∨ (a - s.orig).toNat ≥ s.spans.length) := by
    intro hc; rcases hc with hc | hc
    · exact h1 hc
    · omega
  rw [if_neg this]
  exact List.getElem?_eq_getElem h2

/-! ### Labels as locations -/

/-- **label_resolves.**  A label the assembler put on statement number `line` (1-based) of a
program loaded at `orig`, used as a location with offset `off`, resolves to
`orig + line − 1 + off` — the address the assembler gave the marked statement, plus the offset —
whenever that address lies in `[orig, 0xFE00)`; for EVERY origin, in particular `orig ≥ 0x8000`
(before the fix of D19 the comparison was made in `i16` and failed there). -/
theorem label_resolves (env : Env) (orig : Word) (m : Machine) (name : List Char) (off : Int)
    (line : Word) (hl : env.symtab.lookup name = some line) (h1 : 1 ≤ line.toNat)
    (hload : orig.toNat + line.toNat - 1 < 65536)
    (hlo : (orig.toNat : Int) ≤ (orig.toNat + line.toNat - 1 : Nat) + off)
    (hhi : ((orig.toNat + line.toNat - 1 : Nat) : Int) + off < 0xFE00) :
    resolveLocation env orig m (.label name off) =
      .ok (BitVec.ofInt 16 ((orig.toNat + line.toNat - 1 : Nat) + off)) := by
  have hn : ((line - 1) + orig).toNat = orig.toNat + line.toNat - 1 := by
    rw [BitVec.toNat_add, BitVec.toNat_sub]
    have := orig.isLt
    have := line.isLt
    have h16 : (1 : Word).toNat = 1 := rfl
    omega
  simp only [resolveLocation, hl, addAddressOffset, hn]
  rw [if_pos ⟨by omega, by omega⟩]

/-- … and is refused (`OutOfBounds::Address`, nothing else happens) when it does not. -/
theorem label_out_of_range (env : Env) (orig : Word) (m : Machine) (name : List Char) (off : Int)
    (line : Word) (hl : env.symtab.lookup name = some line) (h1 : 1 ≤ line.toNat)
    (hload : orig.toNat + line.toNat - 1 < 65536)
    (hout : ((orig.toNat + line.toNat - 1 : Nat) : Int) + off < orig.toNat ∨
      (0xFE00 : Int) ≤ (orig.toNat + line.toNat - 1 : Nat) + off) :
    resolveLocation env orig m (.label name off) = .error "OutOfBounds::Address" := by
  have hn : ((line - 1) + orig).toNat = orig.toNat + line.toNat - 1 := by
    rw [BitVec.toNat_add, BitVec.toNat_sub]
    have := orig.isLt
    have := line.isLt
    have h16 : (1 : Word).toNat = 1 := rfl
    omega
  simp only [resolveLocation, hl, addAddressOffset, hn]
  rw [if_neg (by omega)]

/-- A name that is not in the symbol table is refused (`Labels::NotFound`). -/
theorem unknown_label (env : Env) (orig : Word) (m : Machine) (name : List Char) (off : Int)
    (hl : env.symtab.lookup name = none) :
    resolveLocation env orig m (.label name off) = .error "Labels::NotFound" := by
  simp only [resolveLocation, hl]

/-! ### Non-vacuity -/

/-- D19 witness: `far` is statement 2 of a program at 0x8000; `print far` resolves to 0x8001. -/
example (m : Machine) (ev : Machine → World → List Char → EvalResult) :
    resolveLocation (Env.mk false true [("far".toList, 2#16)] (fun _ => none) 2 ev) 0x8000#16 m
        (.label "far".toList 0) =
      .ok 0x8001#16 := by
  rw [label_resolves _ _ _ _ _ 2#16 rfl (by decide) (by decide) (by decide) (by decide)]
  rfl

/-- a program with a multi-byte comment, a `.stringz` with a multi-byte character and an
instruction with operands: it assembles, and its spans are `halt`, the `.stringz` directive with
its literal (twice: one character and the terminator) and `add r0 r0 #1` -/
example : (match (assemble false [] "halt ; é\n.stringz \"é\" add r0 r0 #1".toList).1 with
    | .ok img => decide (img.spans = [(0, 4), (10, 13), (10, 13), (24, 12)]) | _ => false) = true := by
  decide +kernel
example : sliceBytes "halt ; é\n.stringz \"é\" add r0 r0 #1".toList 10 13 = some ".stringz \"é\"".toList := by
  decide
/-- one iteration of `preprocess` on `.stringz "ab"`: three tokens, one span -/
example : (match preprocessStep (some false) 0 ".stringz \"ab\"".toList [] with
    | .more _ _ acc => decide (acc.map (·.span) = [⟨0, 13⟩, ⟨0, 13⟩, ⟨0, 13⟩]) | _ => false) = true := by
  decide +kernel
example : sliceBytes "halt\nadd r0 r0 #1\n".toList 0 4 = some "halt".toList := by decide
example : sliceBytes "é".toList 1 1 = none := by decide
example : (AsmSource.mk 0x3000#16 [(0, 4), (5, 12)] "halt\nadd r0 r0 #1\n".toList).showSingleLine 0x3001#16 =
    .text "add r0 r0 #1".toList := by decide
example : (AsmSource.mk 0x3000#16 [(0, 4), (5, 12)] "halt\nadd r0 r0 #1\n".toList).showSingleLine 0x3002#16 =
    .nothing := by decide

end Lace.C17
