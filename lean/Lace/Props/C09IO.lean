/-
  C09 / C14 — standard input is ONE byte stream, shared by the debugger's command reader and
  the program's GETC / IN.

  Model: `Lace/Model/DebuggerIO.lean` (`runLoopIO`): the debugged run loop in which commands
  are read on demand from (`--command` argument, standard input = `World.inp`) exactly as
  `CommandReader::read` does — argument first, then standard input byte by byte up to and
  including the one `;` / newline that ends the command, end of input ↦ `quit`.  An instruction
  executed between two command reads takes its input from what the reader left.

  Theorems:
  * `reader_consumes_exactly`, `fetch_consumes_exactly`, `fetch_rest_suffix` — a command read
    consumes the command's bytes and its one separator, nothing more, whatever follows;
  * `quit_hands_over_stdin` — a script that executes nothing, then `quit` and a separator, in
    front of the bytes `inp` on standard input: the program runs exactly as the undebugged run
    on `inp` (what the process-mode pairs `C09P` test);
  * `preparsed_agrees`, `preparsed_agrees_argument` — `runLoopIO` agrees with the pre-parsed
    `runLoop` of `Model/Debugger.lean`, so C09–C16's theorems about `runLoop` speak about
    sessions whose script arrives as text; `debug_transparent_io` is C09's theorem transferred;
  * `transport_independent_io` — argument `a` + standard input `b ++ inp` ≡ standard input
    `a ++ "\n" ++ b ++ inp`, for the whole session including the program's input.
-/
import Lace.Proofs.DbgIOScript
import Lace.Proofs.ReaderSuffix
import Lace.Proofs.CmdTransport
import Lace.Props.C09
namespace Lace.C09IO
open Lace Lace.Dbg Lace.Cmd Lace.DbgIO Lace.DbgProofs Lace.C14 Lace.C09

/-! ## (a) a command read consumes exactly the command and its separator -/

theorem readAux_nodelim (cmd cur : List Char) (h : ∀ c ∈ cmd, isDelimiter c = false) :
    readAux cmd cur = if cmd = [] ∧ cur = [] then none else some (cur ++ cmd, []) := by
  induction cmd generalizing cur with
  | nil => simp only [readAux, true_and, List.append_nil]
  | cons c cs ih =>
    have hc : isDelimiter c = false := h c (by simp)
    simp only [readAux, hc, Bool.false_eq_true, if_false, reduceCtorEq, false_and]
    rw [ih _ (fun x hx => h x (by simp [hx]))]
    simp

/-- **The reader consumes exactly the command and its one separator.**  Standard input holds
the UTF-8 bytes of `cmd` (no `;`, no newline in it), then a separator `d`, then ANY bytes
`rest` (valid UTF-8 or not): one `Stdin::read` — and one `CommandReader::read` without a
`--command` argument — yields the text `cmd` and leaves exactly `rest`.  At the end of input
without separator it yields the (non-empty) text and leaves nothing. -/
theorem reader_consumes_exactly (cmd : List Char) (hcmd : ∀ c ∈ cmd, isDelimiter c = false) :
    (∀ (d : Char) (rest : List UInt8), isDelimiter d = true →
      stdinRead (encode cmd ++ encode [d] ++ rest) = .line cmd rest ∧
      (Reader.from none (encode cmd ++ encode [d] ++ rest)).read =
        .line cmd { argument := none, stdin := rest }) ∧
    (cmd ≠ [] →
      stdinRead (encode cmd) = .line cmd [] ∧
      (Reader.from none (encode cmd)).read = .line cmd { argument := none, stdin := [] }) := by
  constructor
  · intro d rest hd
    have h1 : stdinRead (encode cmd ++ encode [d] ++ rest) = .line cmd rest := by
      have := stdinLoop_line cmd d rest [] hcmd hd
      simpa [stdinRead, List.append_assoc] using this
    refine ⟨h1, ?_⟩
    simp only [Reader.from, Option.map_none, Reader.read, Reader.readStream, h1]
  · intro hne
    have h1 : stdinRead (encode cmd) = .line cmd [] := by
      rw [stdinRead_encode]
      simp [nextLine, readAux_nodelim cmd [] hcmd, hne]
    refine ⟨h1, ?_⟩
    simp only [Reader.from, Option.map_none, Reader.read, Reader.readStream, h1]

example : stdinRead (encode "print r1".toList ++ encode [';'] ++ [0x41, 0xff, 0x0a]) =
    .line "print r1".toList [0x41, 0xff, 0x0a] :=
  ((reader_consumes_exactly "print r1".toList (by decide)).1 ';' _ (by decide)).1

/-- The same at the level of `Command::read_from` on the shared input: a command line, its
separator, then the program's input `inp` (any list of bytes) — the command is returned, no error
is reported, and the world's input is exactly `inp`. -/
theorem fetch_consumes_exactly (l : List Char) (d : Char) (c : Command) (inp : List Nat)
    (out : List Char) (s : Src) (hs : SView s [])
    (hl : ∀ x ∈ l, isDelimiter x = false) (hd : isDelimiter d = true)
    (hne : (trim l).isEmpty = false) (hp : parseLine (trim l) = .ok c) :
    ∃ s', fetch s { inp := natsOf (encode (l ++ [d])) ++ inp, outRev := out } =
        .command c s' { inp := inp, outRev := out } ∧ s'.nerr = s.nerr := by
  have hL : pendingLines [] (l ++ [d]) = [l] := by
    simp only [pendingLines, textLines_last l d hl hd]; rfl
  have hf := fetch_view (s := s) (w := { inp := natsOf (encode (l ++ [d])) ++ inp, outRev := out })
    (ta := []) (tb := l ++ [d]) (Rn := inp) hs rfl (.inl (.inr ⟨l, d, rfl, hd⟩))
  rw [hL] at hf
  simp only [loopL, hne, Bool.false_eq_true, if_false, hp] at hf
  obtain ⟨s', ta', tb', h1, h2, _, _, h5, _, _⟩ := hf
  simp only [pendingLines, List.append_eq_nil_iff, textLines_eq_nil] at h5
  rw [h5.2] at h1
  exact ⟨s', by simpa [natsOf] using h1, by simpa using h2⟩

example : ∃ s', fetch (Src.from none)
      { inp := natsOf (encode "quit\n".toList) ++ [104, 105], outRev := [] } =
    .command .quit s' { inp := [104, 105], outRev := [] } ∧ s'.nerr = 0 :=
  fetch_consumes_exactly "quit".toList '\n' .quit [104, 105] [] _ rfl (by decide) (by decide)
    (by decide) (by decide)

/-! ## (b) `quit` hands standard input over to the program -/

/-- **`quit` hands over standard input.**  Standard input holds a script of lines that execute
nothing (inspection and breakpoint commands, lines the parser rejects, blank lines; each ended
by `;` or newline), then a line that reads `quit` and its separator, then the bytes `inp`.  The
debugger (no `--command` argument left, any breakpoints, waiting for a command) reads the script
and detaches in the iteration in which it was entered, and from there the run IS the undebugged
run of the same machine on input `inp`, iteration for iteration: same final machine, same
output, same remaining input, same exit status — for every program, script, `inp`, and budget. -/
theorem quit_hands_over_stdin (env : Env) (ls : List (List Char × Char)) (q : List Char) (dq : Char)
    (hwf : WellFormed ls) (hne : ∀ p ∈ ls, NonExecLine p.1)
    (hq : QuitLine q) (hqd : ∀ c ∈ q, isDelimiter c = false) (hdq : isDelimiter dq = true)
    (s : Src) (hs : SView s []) (d : Dbg) (hst : d.status = .wait) (hd0 : d.cmds = [])
    (m : Machine) (inp : List Nat) (out : List Char) (ex : List Word) (n : Nat) :
    match (runLoopIO env (n + 1) true s d m
        { inp := natsOf (encode (scriptText ls ++ (q ++ [dq]))) ++ inp, outRev := out } ex).2 with
    | .done _ _ m' w' _ => plain env n m { inp := inp, outRev := out } = .done m' w'
    | .exit c _ _ m' w' _ => plain env n m { inp := inp, outRev := out } = .exit c m' w'
    | .panic e => plain env n m { inp := inp, outRev := out } = .panic e
    | .fuel _ _ m' w' _ => plain env n m { inp := inp, outRev := out } = .fuel m' w' := by
  have hL : pendingLines [] (scriptText ls ++ (q ++ [dq])) = ls.map (·.1) ++ [q] := by
    simp only [pendingLines, textLines_script ls _ hwf, textLines_last q dq hqd hdq]; rfl
  have hne' : ∀ l ∈ ls.map (·.1), NonExecLine l := by
    intro l hl
    obtain ⟨p, hp, rfl⟩ := List.mem_map.1 hl
    exact hne p hp
  have hgood := good_nonexec False (ls.map (·.1)) q hne' hq
  obtain ⟨cs, hcs, hins⟩ := cmdsL_nonexec (ls.map (·.1)) q hne' hq
  have hsync : Sync False false s d
      { inp := natsOf (encode (scriptText ls ++ (q ++ [dq]))) ++ inp, outRev := out }
      (setCmds (cmdsL (ls.map (·.1) ++ [q])) d) { inp := inp, outRev := out } :=
    ⟨[], scriptText ls ++ (q ++ [dq]),
      { arg := hs, inp := rfl, delim := .inl (endsDelim_script ls q dq hdq), out := rfl
        dbg := by rw [setCmds_setCmds]; exact (setCmds_eq_self hd0).symm
        cmds := by rw [hL]; rfl
        good := by rw [hL]; exact hgood
        pinp := False.elim
        free := fun h => by cases h }⟩
  have hnext := nextAction_sync env False false s d _ _ _ m hsync
  obtain ⟨d2, hpre⟩ := nextAction_inspect env m { inp := inp, outRev := out }
    (setCmds (cmdsL (ls.map (·.1) ++ [q])) d) cs [] hins hst (by simpa using hcs)
  rw [hpre] at hnext
  unfold runLoopIO
  simp only [iterIO, if_true]
  generalize nextActionIO env s d m
    { inp := natsOf (encode (scriptText ls ++ (q ++ [dq]))) ++ inp, outRev := out } = rio at hnext
  obtain ⟨s1, r1⟩ := rio
  cases r1 with
  | panic e => simp [RelNext] at hnext
  | exit c d1 m1 w1 => simp [RelNext] at hnext
  | action a d1 m1 w1 =>
    cases a <;> simp only [RelNext] at hnext <;> try exact hnext.elim
    obtain ⟨h1, h2, h3⟩ := hnext
    subst h1 h2 h3
    simp only [afterAction, pushExec]
    rw [runLoopIO_detached]
    exact detached_eq_plain env n d1 m1 _ ex

instance (ls : List (List Char × Char)) : Decidable (WellFormed ls) := by
  unfold WellFormed; infer_instance

instance (q : List Char) : Decidable (QuitLine q) := by unfold QuitLine; infer_instance

instance goodDec (P : Prop) [Decidable P] : (L : List (List Char)) → Decidable (Good P L)
  | [] => by unfold Good; infer_instance
  | l :: L => by
    have ih := goodDec P L
    unfold Good
    split
    · exact ih
    · split
      · split <;> infer_instance
      · exact ih
      · infer_instance
      · infer_instance

/-- The hypotheses are satisfiable: `registers`, a rejected line, a blank line, `break add x3005`,
then `q`. -/
example : WellFormed [("registers".toList, ';'), ("frobnicate".toList, '\n'), ("  ".toList, '\n'),
      ("b a x3005".toList, ';')] ∧
    (∀ p ∈ [("registers".toList, ';'), ("frobnicate".toList, '\n'), ("  ".toList, '\n'),
      ("b a x3005".toList, ';')], NonExecLine p.1) ∧ QuitLine " q ".toList := by
  refine ⟨by decide, ?_, by decide⟩
  intro p hp
  simp only [List.mem_cons, List.mem_nil_iff, or_false] at hp
  rcases hp with rfl | rfl | rfl | rfl
  · exact .inr (.inr ⟨.registers, by decide, rfl⟩)
  · exact .inr (.inl (by decide))
  · exact .inl (by decide)
  · exact .inr (.inr ⟨.breakAdd (.address 0x3005#16), by decide, rfl⟩)

/-! ## (c) the on-demand reader agrees with the pre-parsed command list -/

/-- **`runLoopIO` agrees with the pre-parsed `runLoop`.**  The `--command` argument is `a` (or
absent), standard input holds the command text `b` followed by the program's input `inp`.
Side conditions:
* `Good (inp = []) …` — the script (lines of `a`, then of `b`) ends the session itself: its last
  line is `quit` or `exit`, no earlier line is, no line is `eval` or `sudo` (every other command,
  rejected lines and blank lines are allowed anywhere) — or it has no such last line and nothing
  follows it (`inp = []`: end of input is `quit`);
* `EndsDelim b ∨ inp = []` — the command text on standard input ends with a separator (or
  nothing follows it);
* no instruction executed while the debugger is attached is GETC / IN (`attachedWords`: it
  would read the script).
Then, for every budget, the session `runLoopIO` on the world whose input is `b ++ inp` and the
session `runLoop` that is handed `cmdsL …` (the commands of the same text, as the command-language
model parses them: `Cmd.session`) on the world whose input is `inp` are in relation `RelRun`:
same ending, final machine, executed addresses, breakpoints/status/log/counters, program output —
and the same remaining input from the moment the debugger is gone. -/
theorem preparsed_agrees (env : Env) (a : Option (List Char)) (b : List Char) (inp : List Nat)
    (out : List Char) (initial : Machine) (bps : List Word) (m : Machine) (ex : List Word) (n : Nat)
    (hgood : Good (inp = []) (textLines (a.getD []) ++ textLines b))
    (hdelim : EndsDelim b ∨ inp = [])
    (hreads : ∀ x ∈ attachedWords env n true (Src.from a) (newDbg initial bps []) m
        { inp := natsOf (encode b) ++ inp, outRev := out }, readsInput x = false) :
    RelRun
      (runLoopIO env n true (Src.from a) (newDbg initial bps []) m
        { inp := natsOf (encode b) ++ inp, outRev := out } ex)
      (runLoop env n true (newDbg initial bps (cmdsL (textLines (a.getD []) ++ textLines b))) m
        { inp := inp, outRev := out } ex) := by
  apply runLoop_sync env (inp = []) false n _ _ _ _ _ m ex _ (.inr hreads)
  exact ⟨a.getD [], b,
    { arg := sview_from a, inp := rfl, delim := hdelim, out := rfl, dbg := rfl, cmds := rfl
      good := hgood, pinp := id, free := fun h => by cases h }⟩

/-- **All commands in `--command`.**  When the argument's script ends the session itself
(`quit` / `exit` on its last line) standard input belongs to the program alone: no condition on
what the program reads, and the two worlds are the same world throughout. -/
theorem preparsed_agrees_argument (env : Env) (a : List Char) (inp : List Nat) (out : List Char)
    (initial : Machine) (bps : List Word) (m : Machine) (ex : List Word) (n : Nat)
    (hgood : Good False (textLines a)) :
    RelRun
      (runLoopIO env n true (Src.from (some a)) (newDbg initial bps []) m
        { inp := inp, outRev := out } ex)
      (runLoop env n true (newDbg initial bps (cmdsL (textLines a))) m
        { inp := inp, outRev := out } ex) := by
  apply runLoop_sync env False true n _ _ _ _ _ m ex _ (.inl rfl)
  refine ⟨a, [], ?_⟩
  exact { arg := sview_from (some a), inp := by simp [natsOf], delim := .inl (.inl rfl), out := rfl
          dbg := rfl
          cmds := by simp only [pendingLines, textLines, linesAux, if_true, List.append_nil]; rfl
          good := by simpa [pendingLines, textLines, linesAux] using hgood
          pinp := False.elim, free := fun _ => ⟨rfl, id⟩ }

/-- The hypotheses are satisfiable by a script that steps, breaks and continues. -/
example : Good False (textLines "step; break add x3002\ncontinue;bogus;quit".toList) := by
  decide

/-- **C09 for sessions delivered as text** (transfer of `Lace.C09.debug_transparent` through
`preparsed_agrees`): under the side conditions of `preparsed_agrees`, when every command of the
script is non-mutating, the session on the shared input ends as some undebugged run on `inp`
ends — same final machine, same exit status, same program output (and the same remaining input
once the debugger is detached or the run returned). -/
theorem debug_transparent_io (env : Env) (a : Option (List Char)) (b : List Char) (inp : List Nat)
    (out : List Char) (initial : Machine) (bps : List Word) (m : Machine) (ex : List Word) (n : Nat)
    (hgood : Good (inp = []) (textLines (a.getD []) ++ textLines b))
    (hdelim : EndsDelim b ∨ inp = [])
    (hreads : ∀ x ∈ attachedWords env n true (Src.from a) (newDbg initial bps []) m
        { inp := natsOf (encode b) ++ inp, outRev := out }, readsInput x = false)
    (hnm : ∀ c ∈ cmdsL (textLines (a.getD []) ++ textLines b), NonMutating c = true) :
    match (runLoopIO env n true (Src.from a) (newDbg initial bps []) m
        { inp := natsOf (encode b) ++ inp, outRev := out } ex).2 with
    | .done _ _ m' w' _ => ∃ k, plain env k m { inp := inp, outRev := out } = .done m' w'
    | .exit c att _ m' w' _ => ∃ k w'', plain env k m { inp := inp, outRev := out } = .exit c m' w'' ∧
        w''.outRev = w'.outRev ∧ (att = false → w'' = w')
    | .panic e => ∃ k, plain env k m { inp := inp, outRev := out } = .panic e
    | .fuel _ _ _ _ _ => True := by
  have hrel := preparsed_agrees env a b inp out initial bps m ex n hgood hdelim hreads
  have htr := debug_transparent env n
    (newDbg initial bps (cmdsL (textLines (a.getD []) ++ textLines b))) m
    { inp := inp, outRev := out } ex hnm
  generalize runLoopIO env n true (Src.from a) (newDbg initial bps []) m
    { inp := natsOf (encode b) ++ inp, outRev := out } ex = rio at hrel
  generalize runLoop env n true (newDbg initial bps (cmdsL (textLines (a.getD []) ++ textLines b))) m
    { inp := inp, outRev := out } ex = rpre at hrel htr
  obtain ⟨s1, r1⟩ := rio
  cases r1 <;> cases rpre <;> simp only [RelRun] at hrel <;> try exact hrel.elim
  · obtain ⟨_, _, h3, h4, _⟩ := hrel
    subst h3 h4
    exact htr
  · obtain ⟨h1, _, _, h4, _, h6, h7⟩ := hrel
    subst h1 h4
    obtain ⟨k, hk⟩ := htr
    exact ⟨k, _, hk, h6.symm, fun h => (h7 h).symm⟩
  · subst hrel; exact htr
  · trivial

/-! ## (d) transport independence for the whole session -/

/-- Two on-demand sessions gave the same: same ending, final machine, executed addresses,
debugger record (up to `cmds`), program output; same remaining input once the debugger is gone. -/
def IOSame : Src × DbgRun → Src × DbgRun → Prop
  | (_, .done att d m w ex), (_, .done att' d' m' w' ex') =>
    att = att' ∧ setCmds [] d = setCmds [] d' ∧ m = m' ∧ w = w' ∧ ex = ex'
  | (_, .exit c att d m w ex), (_, .exit c' att' d' m' w' ex') =>
    c = c' ∧ att = att' ∧ setCmds [] d = setCmds [] d' ∧ m = m' ∧ ex = ex' ∧
      w.outRev = w'.outRev ∧ (att = false → w = w')
  | (_, .fuel att d m w ex), (_, .fuel att' d' m' w' ex') =>
    att = att' ∧ setCmds [] d = setCmds [] d' ∧ m = m' ∧ ex = ex' ∧
      w.outRev = w'.outRev ∧ (att = false → w = w')
  | (_, .panic e), (_, .panic e') => e = e'
  | _, _ => False

theorem ioSame_of_relRun {r1 r2 : Src × DbgRun} {r : DbgRun} (h1 : RelRun r1 r) (h2 : RelRun r2 r) :
    IOSame r1 r2 := by
  obtain ⟨s1, r1⟩ := r1
  obtain ⟨s2, r2⟩ := r2
  cases r1 <;> cases r <;> simp only [RelRun] at h1 <;> (try exact h1.elim) <;>
    cases r2 <;> simp only [RelRun] at h2 <;> (try exact h2.elim) <;> simp only [IOSame]
  · obtain ⟨a1, a2, a3, a4, a5⟩ := h1
    obtain ⟨b1, b2, b3, b4, b5⟩ := h2
    exact ⟨a1.trans b1.symm, a2.trans b2.symm, a3.trans b3.symm, a4.trans b4.symm, a5.trans b5.symm⟩
  · obtain ⟨a1, a2, a3, a4, a5, a6, a7⟩ := h1
    obtain ⟨b1, b2, b3, b4, b5, b6, b7⟩ := h2
    exact ⟨a1.trans b1.symm, a2.trans b2.symm, a3.trans b3.symm, a4.trans b4.symm, a5.trans b5.symm,
      a6.trans b6.symm, fun h => (a7 h).trans (b7 (by rw [b2, ← a2]; exact h)).symm⟩
  · exact h1.trans h2.symm
  · obtain ⟨a2, a3, a4, a5, a6, a7⟩ := h1
    obtain ⟨b2, b3, b4, b5, b6, b7⟩ := h2
    exact ⟨a2.trans b2.symm, a3.trans b3.symm, a4.trans b4.symm, a5.trans b5.symm,
      a6.trans b6.symm, fun h => (a7 h).trans (b7 (by rw [b2, ← a2]; exact h)).symm⟩

theorem cmdsL_join (a b : List Char) :
    cmdsL (textLines (a ++ '\n' :: b)) = cmdsL (textLines a ++ textLines b) := by
  unfold cmdsL
  have h := sessionL_join a b [] '\n' (by decide)
  simp only [textLines] at h ⊢
  rw [h]

/-- **Transport independence, program input included.**  `--command a` with standard input
`b ++ inp`, and no argument with standard input `a ++ "\n" ++ b ++ inp`, give the same session
(`IOSame`: ending, machine, executed addresses, breakpoints/log/counters, output, and the
program's remaining input once the debugger is gone) — under the side conditions of
`preparsed_agrees` for both deliveries: the script ends the session itself in both line
sequences (they differ by at most one blank line at the junction; only a `quit` that is the last
line of `a` with a separator behind it makes a difference — there the joined text has one more
newline in front of the program's input), `b` ends with a separator or `inp` is empty, and no
instruction executed while the debugger is attached reads input.  (Without the last condition the
two deliveries genuinely differ: an instruction executed between two commands of `a` reads from
`b ++ inp` in one and from the rest of `a` in the other.) -/
theorem transport_independent_io (env : Env) (a b : List Char) (inp : List Nat) (out : List Char)
    (initial : Machine) (bps : List Word) (m : Machine) (ex : List Word) (n : Nat)
    (hg1 : Good (inp = []) (textLines a ++ textLines b))
    (hg2 : Good (inp = []) (textLines (a ++ '\n' :: b)))
    (hdelim : EndsDelim b ∨ inp = [])
    (hr1 : ∀ x ∈ attachedWords env n true (Src.from (some a)) (newDbg initial bps []) m
        { inp := natsOf (encode b) ++ inp, outRev := out }, readsInput x = false)
    (hr2 : ∀ x ∈ attachedWords env n true (Src.from none) (newDbg initial bps []) m
        { inp := natsOf (encode (a ++ '\n' :: b)) ++ inp, outRev := out }, readsInput x = false) :
    IOSame
      (runLoopIO env n true (Src.from (some a)) (newDbg initial bps []) m
        { inp := natsOf (encode b) ++ inp, outRev := out } ex)
      (runLoopIO env n true (Src.from none) (newDbg initial bps []) m
        { inp := natsOf (encode (a ++ '\n' :: b)) ++ inp, outRev := out } ex) := by
  have h1 := preparsed_agrees env (some a) b inp out initial bps m ex n hg1 hdelim hr1
  have hd2 : EndsDelim (a ++ '\n' :: b) ∨ inp = [] := by
    rcases hdelim with h | h
    · left
      rcases h with h | ⟨t0, d, h, hd⟩
      · subst h; exact .inr ⟨a, '\n', rfl, by decide⟩
      · exact .inr ⟨a ++ '\n' :: t0, d, by simp [h], hd⟩
    · exact .inr h
  have h2 := preparsed_agrees env none (a ++ '\n' :: b) inp out initial bps m ex n
    (by simpa [textLines, linesAux] using hg2) hd2 hr2
  simp only [Option.getD_some] at h1
  have e : cmdsL (textLines ((none : Option (List Char)).getD []) ++ textLines (a ++ '\n' :: b)) =
      cmdsL (textLines a ++ textLines b) := by
    have h0 : textLines ((none : Option (List Char)).getD []) = [] := rfl
    rw [h0, List.nil_append, cmdsL_join]
  rw [e] at h2
  exact ioSame_of_relRun h1 h2

/-- When `a` is not empty and does not end with a separator the joined text has exactly the
lines of `a` followed by the lines of `b`, so one `Good` hypothesis is enough. -/
theorem textLines_join_exact (a b : List Char) (ha : a ≠ [])
    (hlast : ∀ a0 d, a = a0 ++ [d] → isDelimiter d = false) :
    textLines (a ++ '\n' :: b) = textLines a ++ textLines b := by
  have key : ∀ (a cur : List Char), (a = [] → cur ≠ []) →
      (∀ a0 d, a = a0 ++ [d] → isDelimiter d = false) →
      linesAux (a ++ '\n' :: b) cur = linesAux a cur ++ textLines b := by
    intro a
    induction a with
    | nil =>
      intro cur h _
      have hc := h rfl
      simp [linesAux, isDelimiter, hc, textLines]
    | cons c cs ih =>
      intro cur _ hl
      simp only [List.cons_append, linesAux]
      by_cases hc : isDelimiter c = true
      · simp only [hc, if_true, List.cons_append, List.cons.injEq, true_and]
        have hcs : cs ≠ [] := by
          intro h0; subst h0
          have := hl [] c rfl
          rw [this] at hc; cases hc
        apply ih [] (fun h => absurd h hcs)
        intro a0 d h
        exact hl (c :: a0) d (by simp [h])
      · simp only [hc, if_false, Bool.false_eq_true]
        apply ih (cur ++ [c]) (fun _ => by simp)
        intro a0 d h
        exact hl (c :: a0) d (by simp [h])
  exact key a [] (fun h => absurd h ha) hlast

end Lace.C09IO
