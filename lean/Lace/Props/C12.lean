/-
  C12 — reset restores the initial machine exactly.

  * `initial_never_mutated` : the saved initial state is the same record after every iteration of
                              the run loop, whatever the script (move, goto, eval, reset, …) and
                              whatever the program does (self-modifying stores included):
                              invariant over every command and every executed instruction.
  * `reset_restores`        : `reset` replaces the whole machine (all 65,536 words, registers, PC,
                              CC) by that saved state, i.e. by the machine as loaded.
  * `reset_then_run_eq_fresh_run` : carrying on after `reset` (with non-mutating commands) ends
                              exactly as a fresh plain run of the loaded machine does.
-/
import Lace.Props.C09
namespace Lace.C12
open Lace Lace.Dbg Lace.Cmd Lace.DbgProofs

def Iter.dbg? : Iter → Option Dbg
  | .cont _ d _ _ _ => some d
  | .done _ d _ _ => some d
  | .exit _ _ d _ _ _ => some d
  | .panic _ => none

/-- One iteration never touches the saved initial state. -/
theorem iter_initial (env : Env) (att : Bool) (d : Dbg) (m : Machine) (w : World) (d' : Dbg)
    (h : Iter.dbg? (iter env att d m w) = some d') : d'.initial = d.initial := by
  unfold iter at h
  cases att with
  | false =>
    simp only [Bool.false_eq_true, if_false] at h
    split at h
    · simp [Iter.dbg?] at h; rw [← h]
    · split at h
      · simp [Iter.dbg?] at h; rw [← h]
      · simp [Iter.dbg?] at h; rw [← h]
      · rcases C16.execOne_cases env false d m w with ⟨_, _, he⟩ | ⟨_, _, _, he⟩ | ⟨_, he⟩ <;>
          (rw [he] at h; simp [Iter.dbg?] at h)
        · rw [← h]
        · rw [← h]
  | true =>
    simp only [if_true] at h
    cases hn : nextAction env d m w with
    | panic s => rw [hn] at h; simp [Iter.dbg?] at h
    | exit c d1 m1 w1 =>
      rw [hn] at h; simp [Iter.dbg?] at h; rw [← h]
      exact (C16.nextAction_mono env d m w d1 (by rw [hn]; rfl)).2
    | action a d1 m1 w1 =>
      rw [hn] at h
      have h1 := (C16.nextAction_mono env d m w d1 (by rw [hn]; rfl)).2
      cases a with
      | stopDebugger => simp [Iter.dbg?] at h; rw [← h]; exact h1
      | exitProgram => simp [Iter.dbg?] at h; rw [← h]; exact h1
      | proceed =>
        simp only at h
        split at h
        · simp [Iter.dbg?] at h; rw [← h]; exact h1
        · split at h
          · simp [Iter.dbg?] at h; rw [← h]; exact h1
          · rcases C16.execOne_cases env true
              { d1 with icount := if d1.icount < 4294967295 then d1.icount + 1 else d1.icount,
                        nexec := d1.nexec + 1 } m1 w1 with ⟨_, _, he⟩ | ⟨_, _, _, he⟩ | ⟨_, he⟩ <;>
              (rw [he] at h; simp [Iter.dbg?] at h)
            · rw [← h]; exact h1
            · rw [← h]; exact h1

def DbgRun.dbg? : DbgRun → Option Dbg
  | .done _ d _ _ _ => some d
  | .exit _ _ d _ _ _ => some d
  | .fuel _ d _ _ _ => some d
  | .panic _ => none

/-- **C12 (a).** Nothing the user or the program does can alter the saved initial state: after
any number of iterations, under any script, it is the state the debugger was created with. -/
theorem initial_never_mutated (env : Env) : ∀ (n : Nat) (att : Bool) (d : Dbg) (m : Machine) (w : World)
    (ex : List Word) (d' : Dbg), DbgRun.dbg? (runLoop env n att d m w ex) = some d' → d'.initial = d.initial
  | 0, att, d, m, w, ex, d' => by simp [runLoop, DbgRun.dbg?]; intro h; rw [← h]
  | n + 1, att, d, m, w, ex, d' => by
    intro h
    unfold runLoop at h
    cases hit : iter env att d m w with
    | cont a1 d1 m1 w1 e =>
      have hi := iter_initial env att d m w d1 (by rw [hit]; rfl)
      rw [hit] at h
      exact (initial_never_mutated env n a1 d1 m1 w1 _ d' h).trans hi
    | done a1 d1 m1 w1 =>
      have hi := iter_initial env att d m w d1 (by rw [hit]; rfl)
      rw [hit] at h; simp [DbgRun.dbg?] at h; rw [← h]; exact hi
    | exit c a1 d1 m1 w1 e =>
      have hi := iter_initial env att d m w d1 (by rw [hit]; rfl)
      rw [hit] at h; simp [DbgRun.dbg?] at h; rw [← h]; exact hi
    | panic s => rw [hit] at h; simp [DbgRun.dbg?] at h

/-- **C12 (b).** `reset` puts back every register, the PC, the condition code and all 65,536
memory words of the saved initial state, leaves the world (program input/output) alone, and
keeps the debugger paused. -/
theorem reset_restores (env : Env) (d : Dbg) (m : Machine) (w : World) :
    runCommand env d m w .reset = .next (base d) d.initial w := rfl

/-- The saved state of a fresh debugger is the machine as loaded. -/
theorem newDbg_initial (loaded : Machine) (bps : List Word) (cmds : List Command) :
    (newDbg loaded bps cmds).initial = loaded := rfl

/-- **C12 (c).** Running on after `reset` behaves like a fresh run: with only non-mutating
commands left, the session ends exactly as a plain run of the initial machine ends. -/
theorem reset_then_run_eq_fresh_run (env : Env) (d : Dbg) (m : Machine) (w : World) (n : Nat) (ex : List Word)
    (hnm : C09.NM (base d)) :
    ∃ d1 m1, runCommand env d m w .reset = .next d1 m1 w ∧ m1 = d.initial ∧
      C09.Agrees env d.initial w (runLoop env n true d1 m1 w ex) :=
  ⟨base d, d.initial, rfl, rfl, C09.debug_transparent env n (base d) d.initial w ex hnm⟩

end Lace.C12
