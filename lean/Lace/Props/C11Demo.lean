/-
  C11, non-vacuity of the session-level theorems of `Props/C11Trace.lean`: a one-instruction loop
  under a `.break`, evaluated in the kernel (`decide +kernel`, no axioms beyond the usual three).
  Kept in its own module because each evaluation walks a 65,536-word memory (≈ 20 s each).
-/
import Lace.Props.C11Trace
namespace Lace.C11
open Lace Lace.Dbg Lace.Cmd Lace.DbgProofs

/-! ### Non-vacuity: a one-instruction loop under a `.break` -/

namespace Demo

/-- `.orig x3000` / `.break` / `a: BRz a`, condition code Z. -/
def m0 : Machine :=
  { mem := (Vector.replicate 65536 0#16).set 0x3000 0x05FF#16
    reg := Vector.replicate 8 0#16
    pc := 0x3000#16
    cc := .z
    orig := 0x3000#16 }

def env0 : Env :=
  { stackOn := false, minimal := true, symtab := [], stmtText := fun _ => none, stmtCount := 1,
    eval := fun _ _ _ => .refused [] }

def w0 : World := { inp := [], outRev := [] }

def tr (n : Nat) : List IterRec :=
  runTrace env0 n true (newDbg m0 [0#16] [.continue_, .continue_, .continue_]) m0 w0

end Demo

/-- The session: three pauses at the breakpoint, each resumed by `continue`, each followed by ONE
execution of the marked instruction, which comes straight back to the breakpoint (self-loop) and
pauses again; then end of input detaches the debugger and the loop runs free (unguarded). -/
example : sessionEvents (Demo.tr 6) =
    [.read .continue_ 0x3000#16, .exec 0x3000#16 true,
     .read .continue_ 0x3000#16, .exec 0x3000#16 true,
     .read .continue_ 0x3000#16, .exec 0x3000#16 true,
     .read .quit 0x3000#16, .exec 0x3000#16 false, .exec 0x3000#16 false] := by decide +kernel

/-- The hypotheses of `bp_pause_before_exec_trace` are met by iterations of this session (an
attached iteration that executes x3000 while x3000 carries a breakpoint), and its conclusion shows
as `reads = [continue @ x3000]`; so are those of `bp_fires_every_arrival` (take `pre = [read]`,
`mid = [read continue x3000]`). -/
example : (∃ r ∈ Demo.tr 6, r.attached = true ∧ r.exec = some 0x3000#16 ∧
      (bpGet r.bpsAfter 0x3000#16).isSome = true ∧ r.reads = [⟨.continue_, 0x3000#16⟩] ∧
      bpLine ∈ r.preSaid) ∧
    sessionEvents (Demo.tr 2) =
      [.read .continue_ 0x3000#16] ++ Ev.exec 0x3000#16 true :: [.read .continue_ 0x3000#16] ++
        Ev.exec 0x3000#16 true :: [] := by decide +kernel

/-- The same program with the breakpoint removed at the first pause: `continue; break remove
x3000; continue` pauses once more (the instruction executed, control came back), the removal takes
effect, and from then on the loop runs without any pause while the debugger stays attached
(`no_bp_runs_on_trace` / `bp_removed_never_pauses_trace` are not vacuous). -/
def Demo.tr2 (n : Nat) : List IterRec :=
  runTrace Demo.env0 n true
    (newDbg Demo.m0 [0#16] [.continue_, .breakRemove (.address 0x3000#16), .continue_]) Demo.m0 Demo.w0

example : sessionEvents (Demo.tr2 4) =
      [.read .continue_ 0x3000#16, .exec 0x3000#16 true,
       .read (.breakRemove (.address 0x3000#16)) 0x3000#16, .read .continue_ 0x3000#16,
       .exec 0x3000#16 false, .exec 0x3000#16 false, .exec 0x3000#16 false] ∧
    (∃ r ∈ Demo.tr2 4, r.attached = true ∧ bpGet r.bpsBefore r.pc = none ∧ r.executable = true ∧
      r.status = .cont ∧ r.preSaid = [] ∧ r.reads = [] ∧ r.exec = some 0x3000#16) := by decide +kernel

/-- The environment of the demonstration satisfies the hypothesis of
`bp_line_only_at_breakpoint_trace`. -/
example : EnvClean Demo.env0 :=
  ⟨fun _ _ _ lines h => by
      simp only [Demo.env0, EvalResult.refused.injEq] at h
      subst h; simp,
   fun _ _ h => by simp [Demo.env0] at h⟩

end Lace.C11
