/-
  Property C20 — "The interactive line editor keeps its cursor inside the line".

  For every sequence of key presses of any length, every character classification and every
  initial history of non-blank lines (DESIGN.md I10; control characters in history entries are
  harmless and not excluded), the model of `Terminal` (`Lace/Model/Editor.lean`)

  * never reaches a panic outcome                                   (`editor_no_panic`),
  * keeps `0 ≤ visible_cursor ≤ number of characters of the current line`
                                                                    (`cursor_in_bounds`),
  * shows after every key, and submits on Enter, exactly what the reference editor
    (`Lace/Spec/RefEditor.lean`) holds after the same keys          (`submit_eq_reference`),
  * and hands the submitted line to the debugger split at its `;`s   (`commands_eq_split`).

  Proof: one-step simulation `handleKey_sim` (`Lace/Proofs/EditorSim.lean`) + induction on the
  key list.  The model is tied to the Rust code by the correspondence check (`harness/src/edit.rs`).
-/
import Lace.Proofs.EditorSim
import Lace.Proofs.EditorCommands
namespace Lace.C20
open Lace.Editor

/-! ### The full statements -/

/-- No explicit panic outcome is reachable, whatever the keys. -/
def EditorNoPanic : Prop :=
  ∀ (cls : Char → CharClass) (hist : List (List Char)) (keys : List Key),
    HistOK cls hist → (session cls hist keys).isOk = true

/-- The cursor lies inside the current line in the state in which the next key is awaited after
any key sequence, and in the state shown right after any further key (which, for Enter, is the
submitted line before the editor is reset for the next line). -/
def CursorInBounds : Prop :=
  ∀ (cls : Char → CharClass) (hist : List (List Char)) (keys : List Key), HistOK cls hist →
    ∀ t subs, session cls hist keys = .ok (t, subs) →
      (0 ≤ t.vcursor ∧ t.vcursor ≤ (current t).length ∧ t.index ≤ t.hist.length) ∧
      ∀ k t1 done, handleKey cls t k = .ok (t1, done) →
        0 ≤ t1.vcursor ∧ t1.vcursor ≤ (current t1).length ∧ t1.index ≤ t1.hist.length

/-- After any key sequence the editor holds what the reference editor holds and has submitted
the same lines; the same is true of the state shown right after any further key and of whether
that key submits. -/
def SubmitEqReference : Prop :=
  ∀ (cls : Char → CharClass) (hist : List (List Char)) (keys : List Key), HistOK cls hist →
    ∃ t subs, session cls hist keys = .ok (t, subs) ∧
      RefEditor.session cls hist keys = (abs t, subs) ∧
      ∀ k, ∃ t1 done, handleKey cls t k = .ok (t1, done) ∧
        RefEditor.key cls (RefEditor.session cls hist keys).1 k = (abs t1, done)

/-! ### Theorems -/

/-- The invariant is preserved by every key (the induction step of `cursor_in_bounds`), the key
does not panic, and it does what the reference editor does. -/
theorem key_step (cls : Char → CharClass) (t : Term) (k : Key) (h : Inv cls t) :
    ∃ t' done, handleKey cls t k = .ok (t', done) ∧ Inv cls t' ∧
      RefEditor.key cls (abs t) k = (abs t', done) := by
  obtain ⟨t', done, h1, h2, h3, _⟩ := handleKey_sim cls t k h
  exact ⟨t', done, h1, h3, h2⟩

/-- Every state in which a session awaits a key satisfies the invariant. -/
theorem session_inv (cls : Char → CharClass) (hist : List (List Char)) (keys : List Key)
    (h : HistOK cls hist) :
    ∃ t subs, session cls hist keys = .ok (t, subs) ∧
      RefEditor.session cls hist keys = (abs t, subs) ∧ Inv cls t := by
  obtain ⟨t, subs, h1, h2, h3⟩ := feed_sim cls keys _ (inv_start cls hist h)
  exact ⟨t, subs, h1, by rw [abs_start] at h2; exact h2, h3⟩

theorem editor_no_panic : EditorNoPanic := by
  intro cls hist keys h
  obtain ⟨t, subs, h1, _, _⟩ := session_inv cls hist keys h
  rw [h1]; rfl

theorem cursor_in_bounds : CursorInBounds := by
  intro cls hist keys h t subs hs
  obtain ⟨t', subs', h1, _, hinv⟩ := session_inv cls hist keys h
  rw [hs] at h1
  cases h1
  refine ⟨⟨Nat.zero_le _, hinv.cursor_le, hinv.index_le⟩, ?_⟩
  intro k t1 done hk
  obtain ⟨t1', done', hk', hinv', _⟩ := key_step cls t k hinv
  rw [hk] at hk'
  cases hk'
  exact ⟨Nat.zero_le _, hinv'.cursor_le, hinv'.index_le⟩

theorem submit_eq_reference : SubmitEqReference := by
  intro cls hist keys h
  obtain ⟨t, subs, h1, h2, hinv⟩ := session_inv cls hist keys h
  refine ⟨t, subs, h1, h2, ?_⟩
  intro k
  obtain ⟨t1, done, hk, _, hr⟩ := key_step cls t k hinv
  exact ⟨t1, done, hk, by rw [h2]; exact hr⟩

/-- A submitted line reaches the debugger as the pieces between its `;`s (`Read::read` called
until the byte cursor is back at 0); the byte-indexed slicing never panics. -/
theorem commands_eq_split (line : List Char) :
    commands line = .ok (RefEditor.splitCommands line) :=
  commands_eq line

/-- The lines a session submits are never blank (the `debug_assert!` of `read_line`). -/
theorem submitted_not_blank (cls : Char → CharClass) (t : Term) (k : Key) (h : Inv cls t)
    (t1 t' : Term) (line : List Char) (hk : feedKey cls t k = .ok (t1, t', some line)) :
    isBlank cls line = false := by
  obtain ⟨t1', done, h1, _, _, h4⟩ := handleKey_sim cls t k h
  cases done with
  | false => simp [feedKey, h1] at hk
  | true =>
    have hb := (h4 rfl).1
    simp only [feedKey, h1, readLineFinish, hb] at hk
    simp at hk
    rw [← hk.2.2]; exact hb

/-! ### Non-vacuity: concrete sessions -/

/-- A classifier for the examples: space and U+00A0 are blanks, ASCII letters/digits and `é`
are alphanumeric. -/
def exCls (c : Char) : CharClass :=
  { ws := c = ' ' || c = ' ', alnum := c.isAlphanum || c = 'é' }

/-- `é` (2 bytes), `😀` (4 bytes), word motions, deletion, submit: the hypotheses are satisfiable
and the conclusion is not trivially about an empty line.  The submitted line is `éx 😀b`. -/
example :
    session exCls [] [.char 'é', .char 'a', .char ' ', .char '😀', .char 'b', .ctrlLeft, .ctrlLeft,
      .ctrlLeft, .ctrlRight, .ctrlRight, .left, .left, .backspace, .char 'x', .enter] =
    .ok ({ buffer := [], cursor := 0, vcursor := 0, hist := ["éx 😀b".toList], index := 1 },
         ["éx 😀b".toList]) := by decide

example : HistOK exCls ["é x".toList, "q".toList] := by
  intro h hm
  simp at hm
  rcases hm with rfl | rfl <;> decide

/-- From a non-empty history: Up, Up, edit the 2-byte entry, submit; the draft is replaced. -/
example :
    (session exCls ["é x".toList, "q".toList] [.char 'z', .up, .up, .ctrlLeft, .delete, .enter]) =
    .ok ({ buffer := [], cursor := 0, vcursor := 0,
           hist := ["é x".toList, "q".toList, "é ".toList], index := 3 }, ["é ".toList]) := by decide

example : commands "é;😀 b;;x".toList = .ok ["é".toList, "😀 b".toList, [], "x".toList] := by decide

/-- The reference word motions on the examples of the doc comment of `find_word_next`:
`abc+def` has word boundaries directly before and after the `+`, `abc  def` around the blanks. -/
example : (RefEditor.wordRight exCls "abc+def".toList 0, RefEditor.wordRight exCls "abc+def".toList 3,
           RefEditor.wordRight exCls "abc+def".toList 4, RefEditor.wordRight exCls "abc+def".toList 5) = (3, 4, 7, 7) ∧
          (RefEditor.wordLeft exCls "abc+def".toList 7, RefEditor.wordLeft exCls "abc+def".toList 4,
           RefEditor.wordLeft exCls "abc+def".toList 3, RefEditor.wordLeft exCls "abc+def".toList 2) = (4, 3, 0, 0) ∧
          (RefEditor.wordRight exCls "abc  def".toList 1, RefEditor.wordRight exCls "abc  def".toList 3,
           RefEditor.wordLeft exCls "abc  def".toList 8, RefEditor.wordLeft exCls "abc  def".toList 5,
           RefEditor.wordLeft exCls "abc  def".toList 4) = (5, 5, 5, 0, 0) := by decide

/-- Why I10 is needed: a *blank* history entry (which the editor never stores itself, but a
hand-edited history file could contain) can be focused and submitted with Enter, and then the
`debug_assert!` of `read_line` fails.  Outside the property's domain; recorded as a remark. -/
example : session exCls [[' ']] [.up, .enter] =
    .panic "read_line: should have read characters until non-empty" := by decide

/-! ### D22 and the two other defects, as they were before the fixes -/

/-- `find_word_next` before the fix: `string.char_indices().skip(cursor)` yields *byte*
offsets, the end of the line was `string.len()` (bytes), and a run of spaces reaching the end of
the line fell through to the alphanumeric test. `i` is the byte offset of the head of the list. -/
def firstNonWsBytes (cls : Char → CharClass) : List Char → Nat → Option Nat
  | [], _ => none
  | ch :: rest, i => if !(cls ch).ws then some i else firstNonWsBytes cls rest (i + ch.utf8Size)

def wordNextLoopOrig (cls : Char → CharClass) (alnum : Bool) (total : Nat) : List Char → Nat → Nat
  | [], _ => total
  | ch :: rest, i =>
    if (cls ch).ws then
      match firstNonWsBytes cls rest (i + ch.utf8Size) with
      | some j => j
      | none => if (cls ch).alnum != alnum then i else total   -- iterator exhausted afterwards
    else if (cls ch).alnum != alnum then i
    else wordNextLoopOrig cls alnum total rest (i + ch.utf8Size)

def findWordNextOrig (cls : Char → CharClass) (s : List Char) (cursor : Nat) : Nat :=
  match s.drop cursor with
  | [] => utf8Len s
  | first :: rest =>
    let i := utf8Len (s.take cursor) + first.utf8Size
    if (cls first).ws then
      match firstNonWsBytes cls rest i with
      | some j => j
      | none => utf8Len s
    else wordNextLoopOrig cls (cls first).alnum (utf8Len s) rest i

/-- D22: on `é` with the cursor at 0 the old Ctrl+Right put the cursor at 2, past the
one-character line … -/
example : findWordNextOrig exCls ['é'] 0 = 2 ∧ ['é'].length = 1 := by decide

/-- … and the next typed character hit the `assert!` of `insert_char_index`. -/
example : insertCharIndex ['é'] 2 'a' = .panic "insert_char_index: out-of-bounds char index" := by
  decide

/-- The fixed function stays inside the line. -/
example : findWordNext exCls ['é'] 0 false = 1 := by decide

/-- Second defect: from `ab␣␣` the old Ctrl+Right stopped on the first space (2), the reference
`w` motion and the fixed code go to the end of the line (4). -/
example : findWordNextOrig exCls "ab  ".toList 0 = 2 ∧ findWordNext exCls "ab  ".toList 0 false = 4 ∧
    RefEditor.wordRight exCls "ab  ".toList 0 = 4 := by decide

end Lace.C20
