/-
  C16 (continued) — the session terminates whenever the program does.

  * `reads_bounded`      : a session reads at most |script| + 1 commands (the extra one is the
                           end-of-input read, which detaches the debugger).
  * `session_work_bound` : still running after n iterations ⇒ at least n − |script| − 1
                           instructions were executed.
  * `session_terminates` : if the plain run ends within k instructions, a session over any
                           finite script of execution-control / breakpoint / inspection commands
                           followed by end of input is over after at most k + |script| + 1
                           iterations. Together with C09 `debug_transparent` this is the converse
                           half of transparency: the debugged run does end, and ends the same way.
-/
import Lace.Props.C10
namespace Lace.C16
open Lace Lace.Dbg Lace.Cmd Lace.DbgProofs

/-- commands read so far + commands still in the script -/
def budget (d : Dbg) : Nat := d.ncmds + d.cmds.length

theorem budget_of_cmd {d d1 : Dbg} {c : Command} {rest : List Command} (hc : d.cmds = c :: rest)
    (hu : Upd (base { d with cmds := rest }) d1) : budget d1 = budget d := by
  obtain ⟨_, h2, h3, _, _, _, _⟩ := hu
  simp only [budget, h2, h3, hc, base, List.length_cons]; omega

def BudgetOK (d : Dbg) : NextResult → Prop
  | .action a d' _ _ => (a = .stopDebugger → budget d' ≤ budget d + 1) ∧ (a ≠ .stopDebugger → budget d' = budget d)
  | .exit _ d' _ _ => budget d' = budget d
  | .panic _ => True

theorem BudgetOK.of_eq {d d0 : Dbg} (h : budget d0 = budget d) {r : NextResult} (hr : BudgetOK d0 r) : BudgetOK d r := by
  cases r <;> simp only [BudgetOK] at hr ⊢
  · rw [← h]; exact hr
  · rw [← h]; exact hr

/-- Reading never creates commands: the budget grows by at most one (the end-of-input read,
which detaches the debugger), and not at all when the loop says `proceed` or `exit`. -/
theorem actionLoop_budget (env : Env) : ∀ (n : Nat) (d : Dbg) (m : Machine) (w : World) (instr : Option Sig),
    BudgetOK d (actionLoop env n d m w instr)
  | 0, d, m, w, instr => by simp [actionLoop, BudgetOK]
  | n + 1, d, m, w, instr => by
    unfold actionLoop
    split
    · split
      · rename_i hc
        simp [BudgetOK, budget, hc]
      · rename_i c rest hc
        cases hr : runCommand env { d with cmds := rest } m w c with
        | next d1 m1 w1 =>
          simp only
          have hu := runCommand_upd env _ m w c d1 (by rw [hr]; rfl)
          exact BudgetOK.of_eq (budget_of_cmd hc hu) (actionLoop_budget env n d1 m1 w1 instr)
        | action a d1 m1 w1 =>
          simp only
          have hu := runCommand_upd env _ m w c d1 (by rw [hr]; rfl)
          have hb := budget_of_cmd hc hu
          exact ⟨fun _ => by omega, fun _ => hb⟩
        | exit cd d1 m1 w1 =>
          simp only
          have hu := runCommand_upd env _ m w c d1 (by rw [hr]; rfl)
          exact budget_of_cmd hc hu
        | panic s => trivial
    · split
      · refine BudgetOK.of_eq ?_ (actionLoop_budget env n _ m w instr)
        split <;> rfl
      · exact ⟨fun h => by simp at h, fun _ => rfl⟩
    · split <;> exact ⟨fun h => by simp at h, fun _ => rfl⟩
    · exact ⟨fun h => by simp at h, fun _ => rfl⟩
    · split <;> exact ⟨fun h => by simp at h, fun _ => rfl⟩

theorem nextAction_budget (env : Env) (d : Dbg) (m : Machine) (w : World) : BudgetOK d (nextAction env d m w) := by
  rw [nextAction_eq]
  refine BudgetOK.of_eq ?_ (actionLoop_budget env _ _ m w _)
  have := preamble_facts d m
  simp only [budget, this.1, this.2.2.1]

def IterBudget (att : Bool) (d : Dbg) : Iter → Prop
  | .cont att' d' _ _ _ => if att then (if att' then budget d' = budget d else budget d' ≤ budget d + 1)
                           else (att' = false ∧ d'.ncmds = d.ncmds)
  | .done _ d' _ _ => if att then budget d' = budget d else d'.ncmds = d.ncmds
  | .exit _ _ d' _ _ _ => if att then budget d' = budget d else d'.ncmds = d.ncmds
  | .panic _ => True

theorem iter_budget (env : Env) (att : Bool) (d : Dbg) (m : Machine) (w : World) :
    IterBudget att d (iter env att d m w) := by
  unfold iter
  cases att with
  | false =>
    simp only [Bool.false_eq_true, if_false]
    split
    · simp [IterBudget]
    · split
      · simp [IterBudget]
      · simp [IterBudget]
      · rcases execOne_cases env false d m w with ⟨_, _, he⟩ | ⟨_, _, _, he⟩ | ⟨_, he⟩ <;>
          (rw [he]; simp [IterBudget])
  | true =>
    simp only [if_true]
    have hb := nextAction_budget env d m w
    cases hn : nextAction env d m w with
    | panic s => trivial
    | exit c d1 m1 w1 => rw [hn] at hb; simpa [IterBudget, BudgetOK] using hb
    | action a d1 m1 w1 =>
      rw [hn] at hb
      simp only [BudgetOK] at hb
      cases a with
      | stopDebugger => simpa [IterBudget] using hb.1 rfl
      | exitProgram => simpa [IterBudget] using hb.2 (by simp)
      | proceed =>
        have he : budget d1 = budget d := hb.2 (by simp)
        simp only
        split
        · simpa [IterBudget] using he
        · split
          · simpa [IterBudget] using he
          · rcases execOne_cases env true
              { d1 with icount := if d1.icount < 4294967295 then d1.icount + 1 else d1.icount,
                        nexec := d1.nexec + 1 } m1 w1 with ⟨_, _, hx⟩ | ⟨_, _, _, hx⟩ | ⟨_, hx⟩ <;>
              (rw [hx]; simp only [IterBudget, if_true]; try exact he)

def ReadsOK (att : Bool) (d : Dbg) : DbgRun → Prop
  | .done _ d' _ _ _ => d'.ncmds ≤ (if att then budget d + 1 else d.ncmds)
  | .exit _ _ d' _ _ _ => d'.ncmds ≤ (if att then budget d + 1 else d.ncmds)
  | .fuel _ d' _ _ _ => d'.ncmds ≤ (if att then budget d + 1 else d.ncmds)
  | .panic _ => True

/-- **C16 (reads are bounded by the script).** A session never reads more commands than the
script holds plus one (the end-of-input read, which detaches the debugger for good). -/
theorem reads_bounded (env : Env) : ∀ (n : Nat) (att : Bool) (d : Dbg) (m : Machine) (w : World) (ex : List Word),
    ReadsOK att d (runLoop env n att d m w ex)
  | 0, att, d, m, w, ex => by
    simp only [runLoop, ReadsOK]; split <;> simp [budget]; omega
  | n + 1, att, d, m, w, ex => by
    unfold runLoop
    have hi := iter_budget env att d m w
    cases hit : iter env att d m w with
    | cont a1 d1 m1 w1 e =>
      rw [hit] at hi
      simp only
      have ih := reads_bounded env n a1 d1 m1 w1 (pushExec e ex)
      cases att with
      | false =>
        simp only [IterBudget, Bool.false_eq_true, if_false] at hi
        obtain ⟨ha, hn⟩ := hi; subst ha
        cases hr : runLoop env n false d1 m1 w1 (pushExec e ex) <;> rw [hr] at ih <;>
          simp only [ReadsOK, Bool.false_eq_true, if_false] at ih ⊢ <;> first | omega | trivial
      | true =>
        simp only [IterBudget, if_true] at hi
        cases a1 with
        | true =>
          simp only [if_true] at hi
          cases hr : runLoop env n true d1 m1 w1 (pushExec e ex) <;> rw [hr] at ih <;>
            simp only [ReadsOK, if_true] at ih ⊢ <;> first | omega | trivial
        | false =>
          simp only [Bool.false_eq_true, if_false] at hi
          have : d1.ncmds ≤ budget d1 := by simp [budget]
          cases hr : runLoop env n false d1 m1 w1 (pushExec e ex) <;> rw [hr] at ih <;>
            simp only [ReadsOK, Bool.false_eq_true, if_false, if_true] at ih ⊢ <;> first | omega | trivial
    | done a1 d1 m1 w1 =>
      rw [hit] at hi
      simp only [ReadsOK]
      cases att <;> simp only [IterBudget, Bool.false_eq_true, if_false, if_true] at hi ⊢
      · omega
      · have : d1.ncmds ≤ budget d1 := by simp [budget]
        omega
    | exit c a1 d1 m1 w1 e =>
      rw [hit] at hi
      simp only [ReadsOK]
      cases att <;> simp only [IterBudget, Bool.false_eq_true, if_false, if_true] at hi ⊢
      · omega
      · have : d1.ncmds ≤ budget d1 := by simp [budget]
        omega
    | panic s => trivial

/-- **C16 (bounded work).** A session that is still running after `n` iterations has executed at
least `n − |script| − 1` instructions: the debugger's own work is bounded by the instructions the
session executes plus the length of the script plus one. -/
theorem session_work_bound (env : Env) (n : Nat) (d : Dbg) (m : Machine) (w : World) (ex : List Word)
    (att' : Bool) (d' : Dbg) (m' : Machine) (w' : World) (ex' : List Word)
    (h : runLoop env n true d m w ex = .fuel att' d' m' w' ex') :
    n + ex.length ≤ ex'.length + d.cmds.length + 1 := by
  have h1 := work_bound env n true d m w ex att' d' m' w' ex' h
  have h2 := reads_bounded env n true d m w ex
  rw [h] at h2
  simp only [ReadsOK, if_true, budget] at h2
  omega

def Ended : Run.RunResult → Prop
  | .fuel _ _ => False
  | _ => True

/-- Once the plain run has ended, more fuel changes nothing. -/
theorem plain_stable (env : Env) : ∀ (k : Nat) (m : Machine) (w : World),
    Ended (C09.plain env k m w) → ∀ j, C09.plain env (k + j) m w = C09.plain env k m w
  | 0, m, w, h => by simp [C09.plain, Run.loop, Ended] at h
  | k + 1, m, w, h => by
    intro j
    have hk : k + 1 + j = (k + j) + 1 := by omega
    rw [hk]
    by_cases hpc : (m.pc == 0xFFFF#16) = true
    · simp [C09.plain, Run.loop, hpc]
    · cases hb : Run.checkPcBounds m with
      | lt => simp [C09.plain, Run.loop, hpc, hb]
      | gt => simp [C09.plain, Run.loop, hpc, hb]
      | eq =>
        rw [C09.plain_step env (k + j) m w hb, C09.plain_step env k m w hb]
        rw [C09.plain_step env k m w hb] at h
        cases hx : VM.execute env.stackOn env.minimal (m.read m.pc) (m.setPC (m.pc + 1)) w with
        | ok m' w' => rw [hx] at h; exact plain_stable env k m' w' h j
        | exit c w' => rfl
        | panic s => rfl

/-- **C16 / C09 (termination).** A debugger session over a finite script of execution-control,
breakpoint and inspection commands (optionally `exit`/`quit`), followed by end of input,
terminates whenever the program itself does: if the plain run ends within `k` instructions,
the session is over after at most `k + |script| + 1` iterations of the run loop. -/
theorem session_terminates (env : Env) (d : Dbg) (m : Machine) (w : World) (hq : C10.QuietAll d)
    (k : Nat) (hend : Ended (C09.plain env k m w)) (n : Nat) (hn : k + d.cmds.length + 1 < n) :
    ∀ att' d' m' w' ex', runLoop env n true d m w [] ≠ .fuel att' d' m' w' ex' := by
  intro att' d' m' w' ex' h
  have ht := C10.paused_machine_on_trajectory env n d m w [] hq
  rw [h] at ht
  obtain ⟨j, hl, hj⟩ := ht
  have hb := session_work_bound env n d m w [] att' d' m' w' ex' h
  simp at hl hb
  have hjk : k < j := by omega
  have := plain_stable env k m w hend (j - k)
  have e : k + (j - k) = j := by omega
  rw [e, hj] at this
  rw [← this] at hend
  exact hend

end Lace.C16
