/-
  C02 — Every instruction word executes as the ISA prescribes.

  `execute_eq_isa` : for **every** instruction word, machine state, input stream and both
  feature / output settings, the model of `RunState::execute` (shifts, masks, `s_ext`, opcode
  table — `Lace/Model/VM.lean`) produces exactly what the ISA specification
  (`Lace/Spec/ISA.lean`: bit fields, SEXT, register-transfer statements) prescribes.
  The frame theorems state, on the specification, that nothing but the named locations changes;
  through `execute_eq_isa` they hold for the model, and through the correspondence check for
  the Rust code.
-/
import Lace.Proofs.VMTraps
import Lace.Proofs.MachineLemmas
namespace Lace.C02
open Lace ISA

theorem trap_eq (mi : Bool) (m : Machine) (wd : World) (w : Word) :
    VM.trap mi m wd w = execTrap mi (w.extractLsb' 0 8) m wd := by
  unfold VM.trap execTrap
  simp only [trapvec_eq]
  generalize (w.extractLsb' 0 8).toNat = v
  split
  · -- GETC
    cases h : getc wd with
    | none => simp [readChar_none wd h]
    | some t =>
      obtain ⟨v, c, w'⟩ := t
      obtain ⟨h1, h2⟩ := readChar_some wd v c w' h
      simp [h1, h2]
  · simp [asciiOf_eq, printChar_eq]
  · simp [putsLoop_eq, stringAt, wordsFrom_eq]
  · -- IN
    cases h : getc wd with
    | none => simp [readChar_none wd h]
    | some t =>
      obtain ⟨v, c, w'⟩ := t
      obtain ⟨h1, h2⟩ := readChar_some wd v c w' h
      simp [h1, h2, printChar_eq]
  · simp only [putspLoop_eq, packedStringAt, wordsFrom_eq, reg_0]; rfl
  · simp only [putRaw]
  · simp [printStr_eq]
  · simp [printRegisters_eq]
  · split <;> first | rfl | simp_all

theorem stack_eq (so : Bool) (m : Machine) (wd : World) (w : Word) :
    VM.stack so m wd w =
      (if w.getLsbD 11 then
        (if w.getLsbD 10 then exec so false (.call (w.extractLsb' 0 10)) m wd
         else exec so false .rets m wd)
       else
        (if w.getLsbD 10 then exec so false (.push (w.extractLsb' 6 3)) m wd
         else exec so false (.pop (w.extractLsb' 6 3)) m wd)) := by
  unfold VM.stack
  cases so
  · cases w.getLsbD 11 <;> cases w.getLsbD 10 <;> simp [exec]
  · simp only [Bool.not_true, Bool.false_eq_true, if_false, bit11_test', bit10_test',
      pushVal_eq, popVal_eq, reg_field, setReg_field, sExt_10]
    cases w.getLsbD 11 <;> cases w.getLsbD 10 <;> simp [exec, pushWord, Machine.setPC, Machine.write, Machine.setReg]

/-- **C02.** The model of `RunState::execute` agrees with the ISA on every instruction word,
every machine state, every input stream, with the stack feature on or off and in both output
modes.  (Opcode 8, RTI, is `todo!()` in lace: both sides say `panic "rti"`; the property
excludes it.) -/
theorem execute_eq_isa (so mi : Bool) (w : Word) (m : Machine) (wd : World) :
    VM.execute so mi w m wd = exec so mi (decode w) m wd := by
  unfold VM.execute decode
  rw [opcode_eq]
  generalize hk : (w.extractLsb' 12 4).toNat = k
  have hlt : k < 16 := by rw [← hk]; exact (w.extractLsb' 12 4).isLt
  match k, hlt with
  | 0, _ => simp [br_eq, exec]; split <;> simp_all
  | 1, _ => simp [add_eq, exec]; split <;> simp [exec]
  | 2, _ => simp [ld_eq, exec]
  | 3, _ => simp [st_eq, exec]
  | 4, _ => simp [jsr_eq, exec]; split <;> simp [exec]
  | 5, _ => simp [and_eq, exec]; split <;> simp [exec]
  | 6, _ => simp [ldr_eq, exec]
  | 7, _ => simp [str_eq, exec]
  | 8, _ => simp [exec]
  | 9, _ => simp [not_eq, exec]
  | 10, _ => simp [ldi_eq, exec]
  | 11, _ => simp [sti_eq, exec]
  | 12, _ => simp [jmp_eq, exec]
  | 13, _ =>
    simp only [stack_eq]
    cases w.getLsbD 11 <;> cases w.getLsbD 10 <;> simp [exec]
  | 14, _ => simp [lea_eq, exec]
  | 15, _ => simp [trap_eq, exec]
  | k + 16, h => omega

end Lace.C02

namespace Lace.C02
open Lace ISA Machine

def destRegs : Instr → List (BitVec 3)
  | .add dr _ _ | .addi dr _ _ | .and dr _ _ | .andi dr _ _ | .not dr _ => [dr]
  | .ld dr _ | .ldi dr _ | .ldr dr _ _ | .lea dr _ => [dr]
  | .jsr _ | .jsrr _ => [7]
  | .trap _ => [0]                       -- GETC / IN
  | .push _ | .call _ | .rets => [7]     -- stack pointer
  | .pop dr => [7, dr]
  | _ => []

def storeAddr (m : Machine) : Instr → Option Word
  | .st _ off => some (m.pc + sext off)
  | .sti _ off => some (m.read (m.pc + sext off))
  | .str _ base off => some (m.getReg base + sext off)
  | .push _ | .call _ => some (m.getReg 7 - 1)
  | _ => none

/-- `m'` agrees with `m` on every register outside `rs` and every memory word outside `as`. -/
def Frame (rs : List (BitVec 3)) (as : List Word) (m m' : Machine) : Prop :=
  (∀ r, r ∉ rs → m'.getReg r = m.getReg r) ∧ (∀ a, a ∉ as → m'.read a = m.read a) ∧ m'.orig = m.orig

theorem Frame.refl (rs as m) : Frame rs as m m := ⟨fun _ _ => rfl, fun _ _ => rfl, rfl⟩

theorem Frame.setReg {rs as m m'} (h : Frame rs as m m') (r : BitVec 3) (v : Word) (hr : r ∈ rs) :
    Frame rs as m (m'.setReg r v) := by
  refine ⟨fun r' hr' => ?_, fun a ha => by simpa using h.2.1 a ha, by simpa using h.2.2⟩
  have hne : r' ≠ r := fun e => hr' (by rw [e]; exact hr)
  rw [getReg_setReg_ne _ _ _ _ hne]; exact h.1 r' hr'

theorem Frame.write {rs as m m'} (h : Frame rs as m m') (a : Word) (v : Word) (ha : a ∈ as) :
    Frame rs as m (m'.write a v) := by
  refine ⟨fun r hr => by simpa using h.1 r hr, fun a' ha' => ?_, by simpa using h.2.2⟩
  have hne : a' ≠ a := fun e => ha' (by rw [e]; exact ha)
  rw [read_write_ne _ _ _ _ hne]; exact h.2.1 a' ha'

theorem Frame.setPC {rs as m m'} (h : Frame rs as m m') (v : Word) : Frame rs as m (m'.setPC v) :=
  ⟨fun r hr => by simpa using h.1 r hr, fun a ha => by simpa using h.2.1 a ha, by simpa using h.2.2⟩

theorem Frame.setCC {rs as m m'} (h : Frame rs as m m') (c : CC) : Frame rs as m (m'.setCC c) :=
  ⟨fun r hr => by simpa using h.1 r hr, fun a ha => by simpa using h.2.1 a ha, by simpa using h.2.2⟩

theorem frame_writeDR (m : Machine) (dr : BitVec 3) (v : Word) (as) : Frame [dr] as m (writeDR m dr v) :=
  ((Frame.refl _ _ m).setReg dr v (by simp)).setCC _

theorem exec_frame (so mi : Bool) (i : Instr) (m m' : Machine) (wd wd' : World)
    (h : exec so mi i m wd = .ok m' wd') :
    Frame (destRegs i) (storeAddr m i).toList m m' := by
  cases i <;> simp only [exec] at h
  case trap vec =>
    unfold execTrap at h
    split at h
    · split at h <;> simp at h
      obtain ⟨h1, _⟩ := h; subst h1
      exact (Frame.refl _ _ m).setReg _ _ (by simp [destRegs])
    · simp at h; obtain ⟨h1, _⟩ := h; subst h1; exact Frame.refl _ _ m
    · simp at h; obtain ⟨h1, _⟩ := h; subst h1; exact Frame.refl _ _ m
    · split at h <;> simp at h
      obtain ⟨h1, _⟩ := h; subst h1
      exact (Frame.refl _ _ m).setReg _ _ (by simp [destRegs])
    · simp at h; obtain ⟨h1, _⟩ := h; subst h1; exact Frame.refl _ _ m
    · simp at h; obtain ⟨h1, _⟩ := h; subst h1; exact (Frame.refl _ _ m).setPC _
    · simp at h; obtain ⟨h1, _⟩ := h; subst h1; exact Frame.refl _ _ m
    · simp at h; obtain ⟨h1, _⟩ := h; subst h1; exact Frame.refl _ _ m
    · simp at h
  case br nzp off =>
    split at h <;> simp at h <;> obtain ⟨h1, _⟩ := h <;> subst h1
    · exact (Frame.refl _ _ m).setPC _
    · exact Frame.refl _ _ m
  case add dr sr1 sr2 => simp at h; obtain ⟨h1, _⟩ := h; subst h1; exact frame_writeDR _ _ _ _
  case addi dr sr1 imm => simp at h; obtain ⟨h1, _⟩ := h; subst h1; exact frame_writeDR _ _ _ _
  case and dr sr1 sr2 => simp at h; obtain ⟨h1, _⟩ := h; subst h1; exact frame_writeDR _ _ _ _
  case andi dr sr1 imm => simp at h; obtain ⟨h1, _⟩ := h; subst h1; exact frame_writeDR _ _ _ _
  case not dr sr => simp at h; obtain ⟨h1, _⟩ := h; subst h1; exact frame_writeDR _ _ _ _
  case ld dr off => simp at h; obtain ⟨h1, _⟩ := h; subst h1; exact frame_writeDR _ _ _ _
  case ldi dr off => simp at h; obtain ⟨h1, _⟩ := h; subst h1; exact frame_writeDR _ _ _ _
  case ldr dr b off => simp at h; obtain ⟨h1, _⟩ := h; subst h1; exact frame_writeDR _ _ _ _
  case lea dr off => simp at h; obtain ⟨h1, _⟩ := h; subst h1; exact frame_writeDR _ _ _ _
  case jmp b => simp at h; obtain ⟨h1, _⟩ := h; subst h1; exact (Frame.refl _ _ m).setPC _
  case jsr off => simp at h; obtain ⟨h1, _⟩ := h; subst h1; exact ((Frame.refl _ _ m).setReg _ _ (by simp [destRegs])).setPC _
  case jsrr b => simp at h; obtain ⟨h1, _⟩ := h; subst h1; exact ((Frame.refl _ _ m).setReg _ _ (by simp [destRegs])).setPC _
  case st sr off => simp at h; obtain ⟨h1, _⟩ := h; subst h1; exact (Frame.refl _ _ m).write _ _ (by simp [storeAddr])
  case sti sr off => simp at h; obtain ⟨h1, _⟩ := h; subst h1; exact (Frame.refl _ _ m).write _ _ (by simp [storeAddr])
  case str sr b off => simp at h; obtain ⟨h1, _⟩ := h; subst h1; exact (Frame.refl _ _ m).write _ _ (by simp [storeAddr])
  case rti => simp at h
  case push sr =>
    split at h <;> simp at h; obtain ⟨h1, _⟩ := h; subst h1
    exact ((Frame.refl _ _ m).setReg _ _ (by simp [destRegs, SP])).write _ _ (by simp [storeAddr, SP])
  case pop dr =>
    split at h <;> simp [popWord] at h; obtain ⟨h1, _⟩ := h; subst h1
    exact ((Frame.refl _ _ m).setReg _ _ (by simp [destRegs, SP])).setReg _ _ (by simp [destRegs])
  case call off =>
    split at h <;> simp at h; obtain ⟨h1, _⟩ := h; subst h1
    exact (((Frame.refl _ _ m).setReg _ _ (by simp [destRegs, SP])).write _ _ (by simp [storeAddr, SP])).setPC _
  case rets =>
    split at h <;> simp [popWord] at h; obtain ⟨h1, _⟩ := h; subst h1
    exact ((Frame.refl _ _ m).setReg _ _ (by simp [destRegs, SP])).setPC _


/-- Every register outside `destRegs` keeps its value. -/
theorem exec_frame_regs (so mi : Bool) (i : Instr) (m m' : Machine) (wd wd' : World)
    (h : exec so mi i m wd = .ok m' wd') (r : BitVec 3) (hr : r ∉ destRegs i) :
    m'.getReg r = m.getReg r := (exec_frame so mi i m m' wd wd' h).1 r hr

/-- Every memory word except the one store target keeps its value. -/
theorem exec_frame_mem (so mi : Bool) (i : Instr) (m m' : Machine) (wd wd' : World)
    (h : exec so mi i m wd = .ok m' wd') (a : Word) (ha : storeAddr m i ≠ some a) :
    m'.read a = m.read a := by
  apply (exec_frame so mi i m m' wd wd' h).2.1 a
  cases hs : storeAddr m i <;> simp_all [Option.toList]
  intro e; exact ha e.symm

/-- The same frame conditions for the model of `RunState::execute`, for every instruction word. -/
theorem execute_frame (so mi : Bool) (w : Word) (m m' : Machine) (wd wd' : World)
    (h : VM.execute so mi w m wd = .ok m' wd') :
    Frame (destRegs (decode w)) (storeAddr m (decode w)).toList m m' := by
  rw [execute_eq_isa] at h; exact exec_frame _ _ _ _ _ _ _ h

/-! ### Unsupported encodings stop the machine without executing anything. -/

theorem unknown_trap_stops (so mi : Bool) (vec : BitVec 8) (m : Machine) (wd : World)
    (h : vec.toNat < 0x20 ∨ 0x27 < vec.toNat) : exec so mi (.trap vec) m wd = .exit 0xEE wd := by
  simp only [exec, execTrap]
  split <;> first | rfl | omega

theorem stack_off_stops (mi : Bool) (w : Word) (m : Machine) (wd : World)
    (h : (w.extractLsb' 12 4).toNat = 13) : VM.execute false mi w m wd = .exit 1 wd := by
  rw [execute_eq_isa]; unfold decode; rw [h]
  simp only
  cases w.getLsbD 11 <;> cases w.getLsbD 10 <;> simp [exec]

/-- No dev-profile arithmetic check, assertion or `unreachable!` can fire while executing any
instruction word other than RTI (`todo!()`). -/
theorem execute_no_panic (so mi : Bool) (w : Word) (m : Machine) (wd : World)
    (h : (w.extractLsb' 12 4).toNat ≠ 8) (site : String) :
    VM.execute so mi w m wd ≠ .panic site := by
  rw [execute_eq_isa]
  have hd : decode w ≠ .rti := by
    unfold decode
    generalize hk : (w.extractLsb' 12 4).toNat = k at h
    have hlt : k < 16 := by rw [← hk]; exact (w.extractLsb' 12 4).isLt
    match k, hlt, h with
    | 0, _, _ | 2, _, _ | 3, _, _ | 6, _, _ | 7, _, _ | 9, _, _ | 10, _, _ | 11, _, _
    | 12, _, _ | 14, _, _ | 15, _, _ => simp
    | 1, _, _ | 4, _, _ | 5, _, _ => simp only; split <;> simp
    | 13, _, _ => simp only; split <;> split <;> simp
    | 8, _, h => exact absurd rfl h
    | k + 16, h, _ => omega
  cases hi : decode w <;> simp [exec, hi] at hd ⊢
  case trap vec => unfold execTrap; split <;> (try split) <;> simp
  all_goals (try split) <;> simp

/-! ### Non-vacuity: concrete words decode to what the manual says. -/
example : decode 0x1283#16 = .add 1 2 3 := by decide
example : decode 0x193F#16 = .addi 4 4 (-1) := by decide
example : decode 0x41C0#16 = .jsrr 7 := by decide
example : decode 0xD440#16 = .push 1 := by decide
example : decode 0xF025#16 = .trap 0x25 := by decide
example : (0x1283#16 : Word).extractLsb' 12 4 ≠ 8 := by decide

end Lace.C02
