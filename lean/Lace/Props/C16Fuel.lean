/-
  C16 / C09 — the iteration budget of the debugger model is only a budget.

  `Dbg.runLoop` takes one unit of fuel per iteration of the `loop { … }` in `RunEnvironment::run`
  with a debugger attached; the code has no bound.  A session that ended for a reason of its own
  (`run` returned, the process exited, something panicked) ends in the very same way — debugger
  state, machine, output, executed addresses — under every larger budget; so "terminates within n
  iterations" (C16 `session_terminates`) fixes the outcome of the one unbounded session.

  * `runLoop_fuel_mono`  : by induction over the budget.
  * `runLoop_fuel_agree` : two budgets that both suffice agree.
  * `session_outcome_unique` : with `session_terminates` — when the program itself ends within k
    steps, all budgets above k + |script| + 1 give one and the same ended session.
-/
import Lace.Props.C16Term
namespace Lace.C16
open Lace Lace.Dbg

/-- The session ended for a reason of its own. -/
def SessionEnded : DbgRun → Prop
  | .fuel _ _ _ _ _ => False
  | _ => True

theorem runLoop_fuel_mono (env : Env) (k : Nat) : ∀ (n : Nat) (att : Bool) (d : Dbg) (m : Machine)
    (w : World) (ex : List Word), SessionEnded (runLoop env n att d m w ex) →
    runLoop env (n + k) att d m w ex = runLoop env n att d m w ex := by
  intro n
  induction n with
  | zero => intro att d m w ex h; simp [runLoop, SessionEnded] at h
  | succ n ih =>
    intro att d m w ex h
    rw [show n + 1 + k = (n + k) + 1 by omega]
    simp only [runLoop] at h ⊢
    cases hi : iter env att d m w <;> simp only [hi] at h ⊢
    exact ih _ _ _ _ _ h

theorem runLoop_fuel_agree (env : Env) (n₁ n₂ : Nat) (att : Bool) (d : Dbg) (m : Machine)
    (w : World) (ex : List Word) (h₁ : SessionEnded (runLoop env n₁ att d m w ex))
    (h₂ : SessionEnded (runLoop env n₂ att d m w ex)) :
    runLoop env n₁ att d m w ex = runLoop env n₂ att d m w ex := by
  rcases Nat.le_total n₁ n₂ with h | h
  · obtain ⟨k, rfl⟩ := Nat.exists_eq_add_of_le h
    exact (runLoop_fuel_mono env k n₁ att d m w ex h₁).symm
  · obtain ⟨k, rfl⟩ := Nat.exists_eq_add_of_le h
    exact runLoop_fuel_mono env k n₂ att d m w ex h₂

theorem session_outcome_unique (env : Env) (d : Dbg) (m : Machine) (w : World) (hq : C10.QuietAll d)
    (k : Nat) (hend : Ended (C09.plain env k m w)) (n₁ n₂ : Nat)
    (h₁ : k + d.cmds.length + 1 < n₁) (h₂ : k + d.cmds.length + 1 < n₂) :
    SessionEnded (runLoop env n₁ true d m w []) ∧
    runLoop env n₁ true d m w [] = runLoop env n₂ true d m w [] := by
  have e : ∀ n, k + d.cmds.length + 1 < n → SessionEnded (runLoop env n true d m w []) := by
    intro n hn
    have := session_terminates env d m w hq k hend n hn
    cases hr : runLoop env n true d m w [] <;> simp [SessionEnded]
    exact this _ _ _ _ _ hr
  exact ⟨e n₁ h₁, runLoop_fuel_agree env n₁ n₂ true d m w [] (e n₁ h₁) (e n₂ h₂)⟩

end Lace.C16
