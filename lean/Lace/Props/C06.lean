/-
  C06 — Object files round-trip and the loader rejects what it cannot load.

  * `obj_length`          : `lace compile` writes exactly 2(n+1) bytes.
  * `words_of_obj`        : reading the file back (big-endian pairs) gives origin :: words.
  * `run_obj_eq_run_src`  : running the object file = running the assembled source.
  * `loader_accepts_iff`  : a byte string is loaded iff it has even length, is non-empty and
                            origin + words + HALT sentinel fit below x10000; otherwise the
                            process exits with an error status (1: unaligned, xEE: empty/too long).
  * `loader_never_panics` : the loader itself never panics (only RTI's `todo!()` can, at run time).
  The statement that compile's *words* are the ISA encoding of the source is C01.
-/
import Lace.Model.Cli
import Lace.Props.C03
namespace Lace.C06
open Lace Cli

theorem be16_length (w : Word) : (be16 w).length = 2 := rfl

theorem flatMap_be16_length (ws : List Word) : (ws.flatMap be16).length = 2 * ws.length := by
  induction ws with
  | nil => rfl
  | cons x xs ih => simp [List.flatMap_cons, be16_length, ih]; omega

/-- `lace compile` writes exactly 2(n+1) bytes. -/
theorem obj_length (orig : Option Word) (ws : List Word) :
    (objBytes orig ws).length = 2 * (ws.length + 1) := by
  rw [objBytes, List.length_append, flatMap_be16_length, be16_length]; omega

theorem word_of_be16 (w : Word) (rest : List Nat) :
    wordsOfBytes (be16 w ++ rest) = w :: wordsOfBytes rest := by
  simp only [be16, List.cons_append, List.nil_append, wordsOfBytes]
  congr 1
  apply BitVec.eq_of_toNat_eq
  have := w.isLt
  simp [BitVec.toNat_ofNat]; omega

theorem words_of_flatMap (ws : List Word) : wordsOfBytes (ws.flatMap be16) = ws := by
  induction ws with
  | nil => rfl
  | cons x xs ih => rw [List.flatMap_cons, word_of_be16, ih]

/-- Reading an object file back gives the origin (x3000 when the source had none) followed by
the words, each big-endian. -/
theorem words_of_obj (orig : Option Word) (ws : List Word) :
    wordsOfBytes (objBytes orig ws) = orig.getD 0x3000#16 :: ws := by
  rw [objBytes, word_of_be16, words_of_flatMap]

/-- Running the file written by `compile` behaves exactly like running the source it came from. -/
theorem run_obj_eq_run_src (so mi : Bool) (fuel : Nat) (name : List Char) (orig : Option Word)
    (ws : List Word) (inp : List Nat) :
    runObjFile so mi fuel name (objBytes orig ws) inp = runAssembled so mi fuel name orig ws inp := by
  unfold runObjFile runAssembled
  have : (objBytes orig ws).length % 2 = 0 := by rw [obj_length]; omega
  simp [this, words_of_obj]

/-- The bytes of an accepted file: even length, non-empty, image + sentinel fit. -/
def Loadable (bytes : List Nat) : Prop :=
  bytes.length % 2 = 0 ∧ ∃ o ws, wordsOfBytes bytes = o :: ws ∧ Ref.fits o ws.length

/-- The loader accepts exactly the loadable files: when loadable the program is run from the
specified initial machine; otherwise the process ends with an error status before running. -/
theorem loader_accepts_iff (so mi : Bool) (fuel : Nat) (name : List Char) (bytes : List Nat) (inp : List Nat) :
    (Loadable bytes →
      ∃ m w, Ref.load (wordsOfBytes bytes) = some m ∧
        runObjFile so mi fuel name bytes inp = runLoaded so mi fuel name m w) ∧
    (¬ Loadable bytes →
      ∃ out, runObjFile so mi fuel name bytes inp = .finished { status := 1, out := out } ∨
             runObjFile so mi fuel name bytes inp = .finished { status := 0xEE, out := out }) := by
  constructor
  · rintro ⟨heven, o, ws, hw, hfit⟩
    have hl : ∃ m, Ref.load (wordsOfBytes bytes) = some m := by
      rw [hw]; simp only [Ref.load]; rw [if_pos hfit]; exact ⟨_, rfl⟩
    obtain ⟨m, hl⟩ := hl
    refine ⟨m, withOut { inp := inp, outRev := [] } (message "Assembling".toList ("target ".toList ++ name)), hl, ?_⟩
    unfold runObjFile
    have hne : ¬ (bytes.length % 2 != 0) = true := by simp [heven]
    rw [if_neg hne, C03.load_spec, hl]
  · intro hnot
    unfold runObjFile
    by_cases hodd : (bytes.length % 2 != 0) = true
    · exact ⟨_, Or.inl (by rw [if_pos hodd])⟩
    · rw [if_neg hodd, C03.load_spec]
      cases hl : Ref.load (wordsOfBytes bytes) with
      | none => exact ⟨_, Or.inr rfl⟩
      | some m =>
        exfalso; apply hnot
        refine ⟨by simpa using hodd, ?_⟩
        cases hw : wordsOfBytes bytes with
        | nil => rw [hw] at hl; simp [Ref.load] at hl
        | cons o ws =>
          refine ⟨o, ws, rfl, ?_⟩
          rw [hw] at hl; simp only [Ref.load] at hl
          by_cases hf : Ref.fits o ws.length
          · exact hf
          · rw [if_neg hf] at hl; cases hl

/-- No byte string makes the loader panic; a run can only panic on RTI's `todo!()`. -/
theorem loader_never_panics (so mi : Bool) (fuel : Nat) (name : List Char) (bytes : List Nat)
    (inp : List Nat) (s : String) :
    runObjFile so mi fuel name bytes inp = .panic s → s = "rti" := by
  unfold runObjFile
  split
  · simp
  · rw [C03.load_spec]
    cases Ref.load (wordsOfBytes bytes) with
    | none => simp
    | some m =>
      simp only [runLoaded]
      intro h
      split at h <;> try (simp at h)
      rename_i s' hs
      cases h
      exact C03.run_panic_only_rti _ _ _ _ _ _ hs

example : objBytes none [0xF025#16] = [0x30, 0x00, 0xF0, 0x25] := by decide
example : Loadable [0x30, 0x00, 0xF0, 0x25] := ⟨rfl, 0x3000#16, [0xF025#16], by decide, by decide⟩
example : ¬ Loadable [0xFF, 0xFF, 0xF0, 0x25] := by
  rintro ⟨_, o, ws, h, hf⟩
  have : wordsOfBytes [0xFF, 0xFF, 0xF0, 0x25] = [0xFFFF#16, 0xF025#16] := by decide
  rw [this] at h; cases h; revert hf; decide

end Lace.C06
