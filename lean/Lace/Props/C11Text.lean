/-
  C11, the clause on `.break`, at the text level — tied to the abstract program:

    "… a breakpoint declared with `.break` in the source (it marks the next statement and occupies
     no memory) …"

  Specification side (`Spec/Prog.lean`): `Prog.breaks P` — for every `Item.brk` of `P` the number of
  image words the items in front of it produce (`breakIdx`), increasing, each once.

  For **every** abstract program `P` in the domain (`syntaxOk`), **every** well-formed layout `L`
  (`Layout.ok`, the layout space of C01's `assemble_image_render` and C17's `spans_render`) and both
  flag values, whenever `assemble so [] (render L P) = (.ok img, tbl)`:

    * `breaks_render`                — `img.bps = P.breaks`;
    * `debugger_breakpoints_render`  — the debugger created on the loaded image has exactly the
                                       predefined breakpoints `origin + k`, `k ∈ P.breaks` (addition
                                       without wrap), sorted, nothing else
                                       (with `break_directive_addresses_src`, `Props/C11Trace.lean`).

  What `Prog.breaks` means, on the specification alone:

    * `mem_breaks_iff`, `breaks_incr` — `k ∈ P.breaks` iff some `.break` item has `k` words in front
                                       of it; the list is strictly increasing;
    * `break_marks_next_statement`   — the `.break` in `pre ++ .brk :: mid ++ stmt :: post` (`mid`
                                       producing no word: further `.break`s, `.orig`, `.blkw 0`)
                                       marks the index at which the words of `stmt` stand in the
                                       image: `origin + k` is the address of that statement;
    * `break_trailing`               — a `.break` behind the last word marks the number of words;
    * `break_occupies_no_memory`     — removing every `.break` item leaves `Prog.image` (origin and
                                       words) unchanged, and leaves no breakpoint;
      `break_occupies_no_memory_render` — … so the two texts assemble to the same origin and words.

  Labels: `Item.brk` carries no label (a label belongs to a statement item), so `lbl .break` is not
  in the range of `render`; for such texts `assemble_breaks` (`Proofs/ParseBreaks.lean`, every source
  text) and `C17.two_labels_one_line` (the label gets the number of the next statement) apply.

  Route: `preprocess_render` (C01) gives the token stream; `parse_tokens_breaks`
  (`Proofs/ParseBreaksRender.lean`) is the induction over the items.
-/
import Lace.Props.C11Trace
import Lace.Props.C17Text
import Lace.Proofs.ParseBreaksRender
namespace Lace.C11
open Lace Lace.Asm Lace.Dbg Lace.Cmd Lace.DbgProofs Lace.Spec Lace.C01 Lace.C04

/-! ### the assembler's breakpoint list on a rendered program -/

/-- **C11, `.break`, text level.**  Whenever a layout of `P` is accepted, the breakpoint list the
assembler hands to the debugger is `P.breaks`: one entry per group of `.break` items standing in
front of the same statement — the number of words in front of it. -/
theorem breaks_render (so : Bool) (L : Layout) (P : Prog) (hsyn : P.syntaxOk = true) (hok : L.ok P = true)
    (img : Image) (tbl : SymTab) (h : assemble so [] (render L P) = (.ok img, tbl)) :
    img.bps = P.breaks := by
  have himg := accept_render_image so L P hsyn hok img (by rw [h])
  have hst := image_stack (flag := so) (P := P) (by rw [himg]; rfl)
  obtain ⟨toks, hpre, hm⟩ := preprocess_render so L P hok hst
  have hok' := hok
  simp only [Layout.ok, Bool.and_eq_true] at hok'
  obtain ⟨⟨⟨hren, _⟩, _⟩, _⟩ := hok'
  unfold assemble assembleWith parse at h
  rw [hpre] at h
  simp only [] at h
  generalize hpl : parseLoop (utf8Len (render L P)) (toks.length + 1) toks
    { orig := none, stmts := [], n := 0, bps := [], line := 1, tokEnd := 0 } [] = r at h
  obtain ⟨r, tbl'⟩ := r
  cases r with
  | diag k s => cases h
  | panic s => cases h
  | ok air =>
    simp only [] at h
    cases hb : backpatchAll tbl' air.stmts with
    | none => rw [hb] at h; cases h
    | some stmts =>
      rw [hb] at h
      simp only [] at h
      cases he : emitAll stmts [] with
      | diag k s => rw [he] at h; cases h
      | panic s => rw [he] at h; cases h
      | ok words =>
        rw [he] at h
        simp only [Prod.mk.injEq, Outcome.ok.injEq] at h
        obtain ⟨rfl, _⟩ := h
        exact parse_tokens_breaks L.names P _ toks hm hren hsyn air tbl' hpl

/-! ### what `Prog.breaks` means -/

/-- number of image words a list of items produces -/
def itemsSize : List Item → Nat
  | [] => 0
  | it :: rest => it.size + itemsSize rest

theorem itemsSize_append : ∀ (a b : List Item), itemsSize (a ++ b) = itemsSize a + itemsSize b
  | [], b => by simp [itemsSize]
  | it :: a, b => by simp only [List.cons_append, itemsSize, itemsSize_append a b]; omega

theorem itemsSize_zero : ∀ (l : List Item), (∀ it ∈ l, it.size = 0) → itemsSize l = 0
  | [], _ => rfl
  | it :: l, h => by
    simp only [itemsSize, h it List.mem_cons_self, itemsSize_zero l fun x hx => h x (List.mem_cons_of_mem _ hx)]

theorem totalSize_itemsStmts : ∀ (its : List Item), totalSize (itemsStmts its) = itemsSize its
  | [] => rfl
  | .brk :: rest => by simp only [itemsStmts, itemsSize, Item.size, totalSize_itemsStmts rest]; omega
  | .orig _ :: rest => by simp only [itemsStmts, itemsSize, Item.size, totalSize_itemsStmts rest]; omega
  | .stmt _ s :: rest => by simp only [itemsStmts, totalSize, itemsSize, Item.size, totalSize_itemsStmts rest]

theorem mem_breakIdx : ∀ (its : List Item) (k x : Nat),
    x ∈ breakIdx its k ↔ ∃ pre post, its = pre ++ .brk :: post ∧ x = k + itemsSize pre := by
  intro its
  induction its with
  | nil =>
    intro k x
    simp only [breakIdx, List.not_mem_nil, false_iff]
    rintro ⟨pre, post, h, _⟩
    cases pre <;> cases h
  | cons it rest ih =>
    intro k x
    -- an occurrence behind the first item
    have tail : ∀ k', (∃ pre post, rest = pre ++ .brk :: post ∧ x = k' + itemsSize pre) →
        k' = k + it.size → ∃ pre post, it :: rest = pre ++ .brk :: post ∧ x = k + itemsSize pre := by
      rintro k' ⟨pre, post, rfl, rfl⟩ rfl
      exact ⟨it :: pre, post, rfl, by simp only [itemsSize]; omega⟩
    have untail : ∀ pre post, it :: rest = pre ++ .brk :: post → x = k + itemsSize pre → pre ≠ [] →
        ∃ pre' post, rest = pre' ++ .brk :: post ∧ x = k + it.size + itemsSize pre' := by
      intro pre post h hx hne
      cases pre with
      | nil => exact absurd rfl hne
      | cons a pre' =>
        simp only [List.cons_append, List.cons.injEq] at h
        obtain ⟨rfl, rfl⟩ := h
        exact ⟨pre', post, rfl, by rw [hx]; simp only [itemsSize]; omega⟩
    cases it with
    | brk =>
      simp only [breakIdx, List.mem_cons, ih]
      constructor
      · rintro (rfl | h)
        · exact ⟨[], rest, rfl, rfl⟩
        · exact tail k h rfl
      · rintro ⟨pre, post, h, hx⟩
        by_cases hne : pre = []
        · subst hne; left; simpa [itemsSize] using hx
        · right; simpa [Item.size] using untail pre post h hx hne
    | orig w =>
      simp only [breakIdx, ih]
      constructor
      · intro h; exact tail k h rfl
      · rintro ⟨pre, post, h, hx⟩
        by_cases hne : pre = []
        · subst hne; cases h
        · simpa [Item.size] using untail pre post h hx hne
    | stmt l s =>
      simp only [breakIdx, ih]
      constructor
      · intro h; exact tail (k + s.size) h rfl
      · rintro ⟨pre, post, h, hx⟩
        by_cases hne : pre = []
        · subst hne; cases h
        · simpa [Item.size] using untail pre post h hx hne

/-- **`k` is a declared breakpoint iff some `.break` item has `k` image words in front of it.** -/
theorem mem_breaks_iff (P : Prog) (k : Nat) :
    k ∈ P.breaks ↔ ∃ pre post, P.items = pre ++ .brk :: post ∧ k = itemsSize pre := by
  unfold Prog.breaks
  rw [mem_eraseDups, mem_breakIdx]
  simp only [Nat.zero_add]

/-- the declared breakpoints are strictly increasing: sorted, no index twice -/
theorem breaks_incr (P : Prog) : Incr P.breaks :=
  eraseDups_incr_aux _ _ (Nat.le_refl _) (breakIdx_sorted P.items 0)

/-- the address of a label in the image of `P` -/
def labelAddr (P : Prog) : Nat → Option Word :=
  fun id => ((labelDefs P.stmts 0).lookup id).map fun k => P.origs.head?.getD 0x3000#16 + BitVec.ofNat 16 k

theorem image_unfold {flag : Bool} {P : Prog} {o : Option Word} {ws : List Word}
    (h : P.image flag = some (o, ws)) :
    o = P.origs.head? ∧ wordsFrom (labelAddr P) (P.origs.head?.getD 0x3000#16) P.stmts 0 = some ws := by
  unfold Prog.image at h
  simp only [] at h
  split at h
  · cases hw : wordsFrom (labelAddr P) (P.origs.head?.getD 0x3000#16) P.stmts 0 with
    | none =>
      have : wordsFrom (fun id => ((labelDefs P.stmts 0).lookup id).map fun k =>
        P.origs.head?.getD 0x3000#16 + BitVec.ofNat 16 k) (P.origs.head?.getD 0x3000#16) P.stmts 0 = none := hw
      rw [this] at h; cases h
    | some ws0 =>
      have : wordsFrom (fun id => ((labelDefs P.stmts 0).lookup id).map fun k =>
        P.origs.head?.getD 0x3000#16 + BitVec.ofNat 16 k) (P.origs.head?.getD 0x3000#16) P.stmts 0 = some ws0 := hw
      rw [this] at h
      simp only [Option.map_some, Option.some.injEq, Prod.mk.injEq] at h
      exact ⟨h.1.symm, by rw [h.2]⟩
  · cases h

/-- the words of the statement behind `ss1` stand at index `totalSize ss1` -/
theorem wordsFrom_at (lab : Nat → Option Word) (o : Word) (l : Option Nat) (s : SrcStmt) (ss2 : List LStmt) :
    ∀ (ss1 : List LStmt) (k : Nat) (ws : List Word), wordsFrom lab o (ss1 ++ (l, s) :: ss2) k = some ws →
      s.words lab (o + BitVec.ofNat 16 (k + totalSize ss1)) = some ((ws.drop (totalSize ss1)).take s.size) := by
  intro ss1
  induction ss1 with
  | nil =>
    intro k ws h
    simp only [List.nil_append, wordsFrom] at h
    split at h
    · rename_i w ws' h1 h2
      cases h
      simp only [totalSize, Nat.add_zero, List.drop_zero]
      rw [h1, List.take_left' (C17.words_length h1)]
    · cases h
  | cons ls rest ih =>
    intro k ws h
    obtain ⟨l1, s1⟩ := ls
    simp only [List.cons_append, wordsFrom] at h
    split at h
    · rename_i w ws' h1 h2
      cases h
      have := ih (k + s1.size) ws' h2
      simp only [totalSize]
      rw [← Nat.add_assoc, this, ← C17.words_length h1, ← List.drop_drop, List.drop_left]
    · cases h

/-- **`.break` marks the next statement.**  Take a `.break` item of `P` and the next statement item
behind it (in between only items that produce no word: further `.break`s, `.orig`, `.blkw 0`).  The
index `k` this `.break` contributes to `P.breaks` — the number of words in front of it — is where
the words of that statement stand in the image: `origin + k` is the address of the statement. -/
theorem break_marks_next_statement (flag : Bool) (P : Prog) (pre mid post : List Item) (l : Option Nat)
    (s : SrcStmt) (hP : P.items = pre ++ .brk :: (mid ++ .stmt l s :: post))
    (hmid : ∀ it ∈ mid, it.size = 0)
    (o : Option Word) (ws : List Word) (himg : P.image flag = some (o, ws)) :
    itemsSize pre ∈ P.breaks ∧
    s.words (labelAddr P) (o.getD 0x3000#16 + BitVec.ofNat 16 (itemsSize pre)) =
      some ((ws.drop (itemsSize pre)).take s.size) := by
  refine ⟨(mem_breaks_iff P _).mpr ⟨pre, _, hP, rfl⟩, ?_⟩
  obtain ⟨ho, hw⟩ := image_unfold himg
  have hs : P.stmts = (itemsStmts pre ++ itemsStmts mid) ++ (l, s) :: itemsStmts post := by
    rw [stmts_eq, hP]
    have happ : ∀ a b : List Item, itemsStmts (a ++ b) = itemsStmts a ++ itemsStmts b := by
      intro a b
      induction a with
      | nil => rfl
      | cons it a ih => cases it <;> simp only [List.cons_append, itemsStmts, ih]
    rw [happ, itemsStmts, happ, itemsStmts, List.append_assoc]
  rw [hs] at hw
  have := wordsFrom_at (labelAddr P) _ l s _ _ 0 ws hw
  have hsz : totalSize (itemsStmts pre ++ itemsStmts mid) = itemsSize pre := by
    have happ : ∀ a b : List LStmt, totalSize (a ++ b) = totalSize a + totalSize b := by
      intro a b
      induction a with
      | nil => simp [totalSize]
      | cons x a ih => obtain ⟨_, _⟩ := x; simp only [List.cons_append, totalSize, ih]; omega
    rw [happ, totalSize_itemsStmts, totalSize_itemsStmts, itemsSize_zero mid hmid, Nat.add_zero]
  rw [hsz, Nat.zero_add] at this
  rw [ho]
  exact this

/-- **A trailing `.break`** — no word is produced behind it — marks the index just behind the last
word: the number of words of the image. -/
theorem break_trailing (flag : Bool) (P : Prog) (pre post : List Item) (hP : P.items = pre ++ .brk :: post)
    (hpost : ∀ it ∈ post, it.size = 0)
    (o : Option Word) (ws : List Word) (himg : P.image flag = some (o, ws)) :
    itemsSize pre ∈ P.breaks ∧ itemsSize pre = ws.length := by
  refine ⟨(mem_breaks_iff P _).mpr ⟨pre, _, hP, rfl⟩, ?_⟩
  obtain ⟨_, hw⟩ := image_unfold himg
  rw [C17.wordsFrom_length _ _ _ _ _ hw, stmts_eq, totalSize_itemsStmts, hP, itemsSize_append]
  simp only [itemsSize, Item.size, itemsSize_zero post hpost, Nat.add_zero]

/-! ### `.break` occupies no memory -/

/-- the program without its `.break` items -/
def dropBreaks (P : Prog) : Prog := { items := P.items.filter (· ≠ .brk) }

theorem dropBreaks_stmts (P : Prog) : (dropBreaks P).stmts = P.stmts := by
  unfold dropBreaks Prog.stmts
  induction P.items with
  | nil => rfl
  | cons it rest ih =>
    cases it with
    | brk => simpa [List.filter_cons] using ih
    | orig w => simpa [List.filter_cons] using ih
    | stmt l s => simpa [List.filter_cons] using ih

theorem dropBreaks_origs (P : Prog) : (dropBreaks P).origs = P.origs := by
  unfold dropBreaks Prog.origs
  induction P.items with
  | nil => rfl
  | cons it rest ih =>
    cases it with
    | brk => simpa [List.filter_cons] using ih
    | orig w => simpa [List.filter_cons] using ih
    | stmt l s => simpa [List.filter_cons] using ih

/-- **`.break` occupies no memory.**  The program with every `.break` item removed has the same
image — the same origin, the same words at the same addresses, well formed under the same
conditions — and declares no breakpoint. -/
theorem break_occupies_no_memory (flag : Bool) (P : Prog) :
    (dropBreaks P).image flag = P.image flag ∧ (dropBreaks P).breaks = [] ∧
    (dropBreaks P).syntaxOk = P.syntaxOk := by
  refine ⟨?_, ?_, ?_⟩
  · unfold Prog.image
    rw [dropBreaks_stmts, dropBreaks_origs]
  · cases hb : (dropBreaks P).breaks with
    | nil => rfl
    | cons k rest =>
      obtain ⟨pre, post, h, _⟩ := (mem_breaks_iff (dropBreaks P) k).mp (by rw [hb]; exact List.mem_cons_self)
      have hm : Item.brk ∈ (dropBreaks P).items := by rw [h]; simp
      unfold dropBreaks at hm
      simp at hm
  · unfold Prog.syntaxOk
    rw [dropBreaks_stmts]

/-- … at the text level: a layout of `P` and a layout of `P` without its `.break` items, both
accepted, assemble to the same origin and the same words; only the breakpoint lists differ
(`P.breaks` and nothing). -/
theorem break_occupies_no_memory_render (so : Bool) (P : Prog) (hsyn : P.syntaxOk = true)
    (L : Layout) (hok : L.ok P = true) (L' : Layout) (hok' : L'.ok (dropBreaks P) = true)
    (img img' : Image) (tbl tbl' : SymTab)
    (h : assemble so [] (render L P) = (.ok img, tbl))
    (h' : assemble so [] (render L' (dropBreaks P)) = (.ok img', tbl')) :
    img'.orig = img.orig ∧ img'.words = img.words ∧ img.bps = P.breaks ∧ img'.bps = [] := by
  obtain ⟨e1, e2, e3⟩ := break_occupies_no_memory so P
  have hsyn' : (dropBreaks P).syntaxOk = true := by rw [e3]; exact hsyn
  have h1 := accept_render_image so L P hsyn hok img (by rw [h])
  have h2 := accept_render_image so L' (dropBreaks P) hsyn' hok' img' (by rw [h'])
  rw [e1, h1] at h2
  simp only [Option.some.injEq, Prod.mk.injEq] at h2
  refine ⟨h2.1.symm, h2.2.symm, breaks_render so L P hsyn hok img tbl h, ?_⟩
  rw [breaks_render so L' (dropBreaks P) hsyn' hok' img' tbl' h', e2]

/-! ### from the abstract program to the debugger's list -/

/-- **C11, `.break`, end to end from the abstract program.**  Assemble any layout of `P`, load the
image, create the debugger with the assembler's breakpoint list.  The debugger then starts with
exactly the breakpoints `origin + k`, `k ∈ P.breaks` — `origin` the operand of the program's `.orig`
(default x3000), the sum taken without wrap — in this order, all marked predefined, sorted; a
breakpoint is found at `a` iff `a` is `origin + k` for a declared `k`. -/
theorem debugger_breakpoints_render (so : Bool) (L : Layout) (P : Prog) (hsyn : P.syntaxOk = true)
    (hok : L.ok P = true) (img : Image) (tbl : SymTab) (h : assemble so [] (render L P) = (.ok img, tbl))
    (loaded : Machine) (hload : Run.fromRaw (img.orig.getD 0x3000#16 :: img.words) = .ok loaded)
    (cmds : List Command) :
    let d := newDbg loaded (img.bps.map (BitVec.ofNat 16)) cmds
    loaded.pc = P.origs.head?.getD 0x3000#16 ∧
    d.bps.map (fun b => b.address.toNat) = P.breaks.map (fun k => loaded.pc.toNat + k) ∧
    (∀ b ∈ d.bps, b.predefined = true) ∧ Sorted d.bps ∧
    (∀ a : Word, (bpGet d.bps a).isSome ↔ ∃ k ∈ P.breaks, a.toNat = loaded.pc.toNat + k) := by
  have hb := breaks_render so L P hsyn hok img tbl h
  have himg := accept_render_image so L P hsyn hok img (by rw [h])
  obtain ⟨ho, _⟩ := image_unfold himg
  obtain ⟨a1, a2, a3, a4, a5⟩ := break_directive_addresses_src (some so) [] (render L P) img tbl h loaded hload cmds
  obtain ⟨_, m2, _, _⟩ := assemble_breaks (some so) [] (render L P) img tbl h
  refine ⟨by rw [a1, ho], by rw [a2, hb], a3, a4, ?_⟩
  intro a
  rw [a5 a]
  constructor
  · rintro ⟨i, hi, ha⟩
    exact ⟨i, by rw [← hb]; exact (m2 i).mpr hi, ha⟩
  · rintro ⟨i, hi, ha⟩
    exact ⟨i, (m2 i).mp (by rw [hb]; exact hi), ha⟩

/-! ### the hypotheses are satisfiable: a program with `.break` in every position -/

/-- `.break / .break / .orig x3000 / loop add r1 r1 #-1 / brp loop / .break / x_msg .stringz "a\n" /
.break / .fill xBEEF / halt / .break`: C01's example program with `.break` in front of the first
statement (doubled, and in front of `.orig`), in front of a labelled three-word `.stringz`, behind it,
and at the very end. -/
def exProg : Prog :=
  { items := [.brk, .brk, .orig 0x3000#16, .stmt (some 0) (.addImm 1#3 1#3 0xFFFF#16),
      .stmt none (.br 1#3 (.label 0)), .brk, .stmt (some 1) (.stringz ['a', '\\', 'n']), .brk,
      .stmt none (.fill 0xBEEF#16), .stmt none (.namedTrap 5#3), .brk] }

/-- mixed case `.BREAK`, two `.break`s on one line, a comment behind one, an open comment at the end -/
def exLayout : Layout :=
  { names := fun i => if i = 0 then ['l','o','o','p'] else ['x','_','m','s','g']
    toks := [
      { sep := [], caps := [false, true, true] },                         -- .BReak
      { sep := [' '] },                                                   -- .break
      { sep := ['\n'], caps := [false, true] },                           -- .Orig
      { sep := ['\t'], lit := ['0','X','3','0','0','0'] },
      { sep := ['\n','\n'] },                                             -- loop
      { sep := [':',' ',' '], caps := [true, true, true] },               -- ADD
      { sep := [' '], caps := [true] },                                   -- R1
      { sep := [',',' '] },                                               -- r1
      { sep := [','], lit := ['#','-','0','1'] },
      { sep := [' ',';',' ','d','e','c','\n',' '], caps := [false, true] }, -- bRp
      { sep := [' '] },                                                   -- loop
      { sep := ['\r','\n'] },                                             -- .break
      { sep := [' ',';','b','\n'] },                                      -- x_msg
      { sep := [' '], caps := [false, true, true] },                      -- .STringz
      { sep := [' '] },                                                   -- "a\n"
      { sep := ['\n'], caps := [false, true, true, true, true, true] },   -- .BREAK
      { sep := ['\n'] },                                                  -- .fill
      { sep := [' '], lit := ['x','-','4','1','1','1'] },
      { sep := ['\n'], caps := [true] },                                  -- Halt
      { sep := ['\n'] } ],                                                -- .break
    trail := [' ',';',' ','e','n','d'] }

example : exLayout.ok exProg = true ∧ exProg.syntaxOk = true ∧ (exProg.image false).isSome = true := by
  decide

example : String.ofList (render exLayout exProg) =
    ".BReak .break\n.Orig\t0X3000\n\nloop:  ADD R1, r1,#-01 ; dec\n bRp loop\r\n.break ;b\nx_msg .STringz \"a\\n\"\n.BREAK\n.fill x-4111\nHalt\n.break ; end" := by
  decide +kernel

/-- the numbers: `.break` ×2 in front of everything ↦ 0 (one entry); in front of `x_msg` ↦ 2; behind
the three words of `"a\n"` ↦ 5; behind the last of the 7 words ↦ 7 -/
example : exProg.breaks = [0, 2, 5, 7] ∧ breakIdx exProg.items 0 = [0, 0, 2, 5, 7] ∧
    (dropBreaks exProg).items = (dropBreaks C01.exProg).items := by decide

/-- `breaks_render` applied -/
example (img : Image) (tbl : SymTab) (h : assemble false [] (render exLayout exProg) = (.ok img, tbl)) :
    img.bps = [0, 2, 5, 7] := by
  rw [breaks_render false exLayout exProg (by decide) (by decide) img tbl h]; decide

/-- the hypothesis of `breaks_render` holds for this text, and the model's list is the specification's -/
example : (match assemble false [] (render exLayout exProg) with
    | (.ok img, _) => some (img.bps, img.words.length, img.orig)
    | _ => none) = some ([0, 2, 5, 7], 7, some 0x3000#16) := by decide +kernel

end Lace.C11
