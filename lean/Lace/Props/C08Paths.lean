/-
  C08 on PATHS — `lace compile` is all-or-nothing for the destination PATH it is given.

  `Props/C08.lean` proves the property over a file system that consists of "the destination" and
  "its temporary sibling".  Here the file system has directories, symbolic links, hard links and
  special files (`Model/PathFs.lean`), `write_all_or_nothing` is modelled statement by statement
  with every path resolved again by every operation, and the property is stated the way a user
  would check it: by READING THROUGH THE DESTINATION PATH before and after.

  For every fault (`Cli.Faults`: any size limit, a failing rename), every assembler outcome, every
  file system `fs` whose working directory is a directory (`FsOk` — nothing else is assumed: in
  particular an entry named `.lace-tmp<pid>` MAY exist) and every destination path in `Shape`:

  * `compileP_all_or_nothing`   exit 0 ⇒ reading through `dest` yields exactly the object bytes;
                                exit ≠ 0 ⇒ reading through `dest` yields what it yielded before
                                (absent included).
  * `no_stray_entries`          no location other than the destination's own (`destLoc`: where the
                                path leads with all links followed; for a path that leads nowhere,
                                the location of its own last component) has a different entry
                                afterwards — nothing created, removed or replaced anywhere else, in
                                particular nothing in the working directory when the destination is
                                elsewhere; the destination's location holds what it held or a regular file.
  * `hard_link_other_name_unchanged`  every other name of the destination's old inode (and every
                                other file) still names the same inode with the same contents.
  * `live_link_preserved`       when the path leads somewhere, every symbolic link is still a
                                symbolic link with the same target text.
  * `dangling_link_replaced`    when the path is a link that leads nowhere and compile succeeds,
                                the link's own name is now a regular file with the object bytes.
  * `tmp_name_exists_refused`   if the name the temporary file would get exists (as anything: a
                                file, a directory, a link — live, dangling, pointing at the
                                destination), compile exits non-zero and NOTHING changes.
  * `unresolvable_refused`      a destination that cannot be resolved for a reason other than
                                "does not exist" (too many levels of symbolic links, a file used as
                                a directory): exit non-zero, NOTHING changes.
  * `compileP_refines_compileFs`  when the temporary name is free, the flattened model of
                                `Model/CliFlows.lean` is exactly the abstraction of `compileP`, so
                                the theorems of `Props/C08.lean` / `C07.lean` speak about `compileP`.

  `Shape` is ONE condition: if the destination is a symbolic link that leads nowhere (NotFound),
  then its directory part is a chain of plain directories.  Everything else is covered
  (`Shape.ofResolves`, `.ofUnresolvable`, `.ofNotLink`, `.ofPlainDir`): paths that lead to an
  existing entry through ANY number of links in ANY position (a regular file with any number of
  names, a device, a directory); paths that fail with a link-depth or not-a-directory error; new
  names and missing directories behind ANY directory part, symbolic links to directories
  included.  NOT covered: a dangling link reached THROUGH links (`linkdir/dangling.lc3`): the
  proof would need that re-binding the link's own location cannot disturb the resolution of the
  directory part, which passes through arbitrary links (not attempted; no counterexample known).

  Two defects the model exposed in the implementation before lace cb35643 / 2214b6f, kept as
  theorems about the OLD definitions (`compilePBeforeFix`), both replayed on the binary then and
  now exercised by the harness (`stale:`, `deep:` destinations):
  `stale_tmp_link_truncates_before_fix`, `symlink_depth_counterexample_before_fix`; the same
  inputs on the fixed model: `stale_tmp_link_refused`, `symlink_depth_refused`.

  Not expressible in this model: permissions; `.`/`..`; mount points; a crash (SIGKILL, power
  loss) between two operations — the rename makes every intermediate state safe for the
  destination (it holds the old entry or the new one), but a stray `.lace-tmp<pid>` would survive
  (and make the next compile with the same process id refuse); concurrent writers.
-/
import Lace.Proofs.PathFsWan
import Lace.Props.C08
namespace Lace.C08
open Lace Cli PathFs

/-- The one assumption about the file system `compile` runs in. -/
structure FsOk (fs : PathFs.Fs) : Prop where
  /-- the working directory is a directory, named by its link-free location -/
  cwd : CanonDir fs.ents fs.cwd

def _root_.Lace.PathFs.Res.isFound : Res → Bool
  | .found _ _ => true
  | _ => false

/-- The destination paths covered by the theorems: a destination that is a symbolic link leading
nowhere sits in a directory reached without links. (Every other destination is covered.) -/
def Shape (fs : PathFs.Fs) (fuel : Nat) (dest : Path) : Prop :=
  ∀ (init : List Name) (n : Name) (D : Loc) (t : Path),
    dest.comps = init ++ [n] → canonicalize fs fuel dest = .notFound →
    walk fs.ents true fuel (startOf fs dest) init = .found D .dir →
    entryAt fs.ents (D ++ [n]) = some (.link t) →
    dirsFrom fs.ents (startOf fs dest) init

theorem Shape.ofResolves {fs : PathFs.Fs} {fuel : Nat} {dest : Path} {loc : Loc} {e : Entry}
    (h : resolve fs true fuel dest = .found loc e) : Shape fs fuel dest := by
  intro _ _ _ _ _ hc; simp [canonicalize, h] at hc

theorem Shape.ofUnresolvable {fs : PathFs.Fs} {fuel : Nat} {dest : Path}
    (h : canonicalize fs fuel dest = .otherError) : Shape fs fuel dest := by
  intro _ _ _ _ _ hc; rw [h] at hc; cases hc

/-- The last component is anything but a symbolic link (absent, for one): covered, whatever the
directory part goes through. -/
theorem Shape.ofNotLink {fs : PathFs.Fs} {fuel : Nat} {dest : Path}
    (h : ∀ init n D t, dest.comps = init ++ [n] →
      walk fs.ents true fuel (startOf fs dest) init = .found D .dir → entryAt fs.ents (D ++ [n]) ≠ some (.link t)) :
    Shape fs fuel dest := by
  intro init n D t hc _ hw hl; exact absurd hl (h init n D t hc hw)

/-- A destination whose directory part is a chain of plain directories — whatever its last
component is: absent, a file with any number of names, a device, a directory, a link of any
kind — is covered. In particular every name in the working directory. -/
theorem Shape.ofPlainDir (fs : PathFs.Fs) (fuel : Nat) (dest : Path) (init : List Name) (n : Name)
    (hc : dest.comps = init ++ [n]) (hd : dirsFrom fs.ents (startOf fs dest) init) :
    Shape fs fuel dest := by
  intro init' n' _ _ hc' _ _ _
  rw [hc] at hc'
  have := (List.append_inj' hc' rfl).1
  subst this; exact hd

theorem Shape.ofName (fs : PathFs.Fs) (fuel : Nat) (n : Name) : Shape fs fuel ⟨false, [n]⟩ :=
  Shape.ofPlainDir fs fuel _ [] n rfl (by simp [dirsFrom])

/-- The destination can be replaced by a regular file: the path leads to a regular file, or it
leads nowhere (NotFound) but its last component can be (re)bound. It cannot: a device, a
directory, a missing directory, a path that cannot be resolved. -/
def replaceable (fs : PathFs.Fs) (fuel : Nat) (dest : Path) : Bool :=
  match resolve fs true fuel dest with
  | .found _ (.file _) => true
  | .found _ _ => false
  | .missing _ _ => (renameTarget fs fuel dest).isSome
  | .error .noent => (renameTarget fs fuel dest).isSome
  | .error _ => false

theorem replaceable_notFound {fs : PathFs.Fs} {fuel : Nat} {dest : Path} (h : canonicalize fs fuel dest = .notFound) :
    replaceable fs fuel dest = (renameTarget fs fuel dest).isSome := by
  unfold canonicalize at h; unfold replaceable
  rcases hr : resolve fs true fuel dest with ⟨l, e⟩ | ⟨d, n⟩ | e
  · rw [hr] at h; cases h
  · rfl
  · rw [hr] at h; cases e <;> first | rfl | cases h

theorem replaceable_otherError {fs : PathFs.Fs} {fuel : Nat} {dest : Path} (h : canonicalize fs fuel dest = .otherError) :
    replaceable fs fuel dest = false := by
  unfold canonicalize at h; unfold replaceable
  rcases hr : resolve fs true fuel dest with ⟨l, e⟩ | ⟨d, n⟩ | e
  · rw [hr] at h; cases h
  · rw [hr] at h; cases h
  · rw [hr] at h; cases e <;> first | rfl | cases h

/-- The name the temporary file would get is taken (by anything). -/
def tmpClash (fs : PathFs.Fs) (fuel pid : Nat) (dest : Path) : Bool :=
  match destLoc fs fuel dest with
  | some L => (entryAt fs.ents (L.dropLast ++ [tmpName pid])).isSome
  | none => false

/-- What `write_all_or_nothing` achieves, in terms of look-ups. -/
structure WanSpec (f : Faults) (fs : PathFs.Fs) (fuel pid : Nat) (dest : Path) (bytes : List Nat) (r : PathFs.Fs × Bool) : Prop where
  /-- it succeeds exactly when the destination is replaceable, the temporary name is free,
  everything fits under the size limit, and the rename does not fail -/
  status : r.2 = true ↔ replaceable fs fuel dest = true ∧ tmpClash fs fuel pid dest = false ∧
    (writeLimited f [] bytes).2 = true ∧ f.renameFails = false
  /-- not replaceable, or the temporary name is taken: not a single operation changes anything -/
  refused : replaceable fs fuel dest = false ∨ tmpClash fs fuel pid dest = true → r = (fs, false)
  cwd : r.1.cwd = fs.cwd
  data : ∀ i, i ≠ freshIno fs → contents r.1 i = contents fs i
  ok : r.2 = true → ∃ L, destLoc fs fuel dest = some L ∧
    (∀ l, entryAt r.1.ents l = if l = L then some (.file (freshIno fs)) else entryAt fs.ents l) ∧
    contents r.1 (freshIno fs) = bytes ∧ resolve r.1 true fuel dest = .found L (.file (freshIno fs))
  fail : r.2 = false → ∀ l, entryAt r.1.ents l = entryAt fs.ents l

theorem wanSpec_unchanged (f : Faults) (fs : PathFs.Fs) (fuel pid : Nat) (dest : Path) (bytes : List Nat)
    (h : replaceable fs fuel dest = false ∨ tmpClash fs fuel pid dest = true) :
    WanSpec f fs fuel pid dest bytes (fs, false) :=
  { status := by rcases h with h | h <;> simp [h], refused := fun _ => rfl, cwd := rfl,
    data := fun _ _ => rfl, ok := by simp, fail := fun _ _ => rfl }

theorem startOf_canon {fs : PathFs.Fs} (hfs : FsOk fs) (p : Path) :
    CanonDir fs.ents (startOf fs p) := by
  unfold startOf; split
  · exact CanonDir_nil _
  · exact hfs.cwd

/-- A resolution that starts in the working directory or at the root ends where the entry table
says. -/
theorem resolve_ok {fs : PathFs.Fs} (hfs : FsOk fs) (fl : Bool) (fuel : Nat) (p : Path) :
    ResOk fs.ents (resolve fs fl fuel p) :=
  walk_canon fs.ents fl fuel _ _ (startOf_canon hfs p)

theorem entryAt_of_found {fs : PathFs.Fs} (hfs : FsOk fs) {fl : Bool} {fuel : Nat} {p : Path}
    {loc : Loc} {e : Entry} (h : resolve fs fl fuel p = .found loc e) : entryAt fs.ents loc = some e := by
  have := resolve_ok hfs fl fuel p
  rw [h] at this
  rcases this with ⟨he, hc⟩ | ⟨D, n, _, _, he, _⟩
  · subst he; exact entryAt_of_CanonDir hc
  · exact he

theorem canonicalize_notFound {fs : PathFs.Fs} {fuel : Nat} {p : Path} (h : canonicalize fs fuel p = .notFound) :
    (∃ d n, resolve fs true fuel p = .missing d n) ∨ resolve fs true fuel p = .error .noent := by
  unfold canonicalize at h
  rcases hr : resolve fs true fuel p with ⟨l, e⟩ | ⟨d, n⟩ | e
  · rw [hr] at h; cases h
  · exact Or.inl ⟨d, n, rfl⟩
  · cases e <;> simp_all

theorem dropLast_snoc {α} (D : List α) (n : α) : (D ++ [n]).dropLast = D := by simp

theorem ne_snoc_of_short {α} (D : List α) (x : α) (l : List α) (hl : l.length ≤ D.length) : l ≠ D ++ [x] := by
  intro h; subst h; simp at hl; omega

/-- **`write_all_or_nothing` on paths.** -/
theorem writeAllOrNothingP_spec (f : Faults) (fuel pid : Nat) (fs : PathFs.Fs) (dest : Path) (bytes : List Nat)
    (hne : bytes ≠ []) (hfs : FsOk fs) (hs : Shape fs fuel dest) :
    WanSpec f fs fuel pid dest bytes (writeAllOrNothingP f fuel pid fs dest bytes) := by
  have hemp : bytes.isEmpty = false := by cases bytes <;> simp_all
  rcases hcan : canonicalize fs fuel dest with dp | _ | _
  · -- the path leads somewhere
    obtain ⟨loc, e, h, hdp⟩ : ∃ loc e, resolve fs true fuel dest = .found loc e ∧ dp = ⟨true, loc⟩ := by
      unfold canonicalize at hcan
      rcases hr : resolve fs true fuel dest with ⟨l, e⟩ | ⟨d, n⟩ | e
      · rw [hr] at hcan; cases hcan; exact ⟨l, e, rfl, rfl⟩
      · rw [hr] at hcan; cases hcan
      · rw [hr] at hcan; cases e <;> cases hcan
    subst hdp
    have hro := resolve_ok hfs true fuel dest
    have hnl : ∀ t, e ≠ .link t := by
      intro t ht; subst ht
      exact walk_follow_not_link _ _ _ _ _ _ h
    rw [h] at hro
    unfold writeAllOrNothingP
    rw [hcan]; simp only
    rcases hro with ⟨he, hc⟩ | ⟨D, n, hloc, hD, hent, hnd⟩
    · -- a directory: `File::create` fails
      subst he
      have hres : resolve fs true fuel ⟨true, loc⟩ = .found loc .dir := by
        have := walk_plain fs.ents true fuel [] loc [] hc
        simpa [resolve, startOf, walkWith] using this
      simp only [metadataIsFile, hres, if_true, writeFile, create]
      exact wanSpec_unchanged _ _ _ _ _ _ (Or.inl (by simp [replaceable, h]))
    · subst hloc
      have hres : ∀ fl, resolve fs fl fuel ⟨true, D ++ [n]⟩ = .found (D ++ [n]) e := by
        intro fl
        rw [resolve_plain fs fl fuel ⟨true, D ++ [n]⟩ D n rfl (by exact hD)]
        simp only [startOf, if_true, List.nil_append]
        exact lastStep_other hent hnl
      cases e with
      | dir => exact absurd rfl hnd
      | link t => exact absurd rfl (hnl t)
      | dev =>
        simp only [metadataIsFile, hres, if_true, writeFile, create, write, hemp]
        exact wanSpec_unchanged _ _ _ _ _ _ (Or.inl (by simp [replaceable, h]))
      | file i =>
        have hmeta : metadataIsFile fs fuel ⟨true, D ++ [n]⟩ = some true := by simp [metadataIsFile, hres]
        rw [hmeta]; simp only [Option.some.injEq, Bool.true_eq_false, if_false]
        have hS : startOf fs (⟨true, D ++ [n]⟩ : Path) = [] := rfl
        have hplain : ∀ m' : Ents, (∀ l, l ≠ D ++ [tmpName pid] → l ≠ D ++ [n] → entryAt m' l = entryAt fs.ents l) →
            LastIn m' fuel [] D D := by
          intro m' hm'
          have := lastIn_plain fs.ents m' fuel [] D hD (fun l hl => hm' l
            (ne_snoc_of_short _ _ _ (by simpa using hl)) (ne_snoc_of_short _ _ _ (by simpa using hl)))
          simpa using this
        obtain ⟨hclash, hfree⟩ := replaceVia_core f fuel fs ⟨true, D ++ [n]⟩ (tmpName pid) bytes D n D rfl
          (by rw [hS]; exact hplain _ (fun _ _ _ => rfl)) (by rw [hS]; exact fun _ => hplain)
          (Or.inr (Or.inl ⟨i, hent⟩))
        have hrep : replaceable fs fuel dest = true := by simp [replaceable, h]
        have hdl : destLoc fs fuel dest = some (D ++ [n]) := by simp [destLoc, h]
        have hcl : tmpClash fs fuel pid dest = (entryAt fs.ents (D ++ [tmpName pid])).isSome := by
          simp [tmpClash, hdl]
        rcases hT : entryAt fs.ents (D ++ [tmpName pid]) with _ | eT
        · obtain ⟨ho, hst⟩ := hfree hT
          generalize replaceVia f fuel fs _ _ bytes = r at ho hst ⊢
          refine { status := by rw [hst]; simp [hrep, hcl, hT], refused := ?_, cwd := ho.cwd, data := ho.data,
                   ok := ?_, fail := ho.fail }
          · intro hx; simp [hrep, hcl, hT] at hx
          intro hok
          obtain ⟨hents, hdata⟩ := ho.ok hok
          refine ⟨D ++ [n], hdl, hents, hdata, ?_⟩
          have hrl := walk_relabel (m1 := fs.ents) (m2 := r.1.ents) (D ++ [n]) i (freshIno fs)
            (fun l hl => by rw [hents, if_neg hl]) hent (by rw [hents, if_pos rfl]) true fuel
            (startOf fs dest) dest.comps
          have hst' : startOf r.1 dest = startOf fs dest := by simp [startOf, ho.cwd]
          unfold resolve at h ⊢
          rw [hst', hrl, h]; simp [relabel]
        · rw [hclash (by rw [hT]; simp)]
          exact wanSpec_unchanged _ _ _ _ _ _ (Or.inr (by rw [hcl, hT]; rfl))
  · -- NotFound: the path as given
    have hnf := canonicalize_notFound hcan
    have hnf' : ∀ loc e, resolve fs true fuel dest ≠ .found loc e := by
      intro loc e h; rcases hnf with ⟨d, n, h'⟩ | h' <;> rw [h] at h' <;> cases h'
    have hmeta : metadataIsFile fs fuel dest = none := by
      rcases hnf with ⟨d, n, h'⟩ | h' <;> simp [metadataIsFile, h']
    unfold writeAllOrNothingP
    rw [hcan]; simp only [hmeta, reduceCtorEq, if_false]
    have hrepl := replaceable_notFound hcan
    -- split off the last component
    rcases List.eq_nil_or_concat dest.comps with hnil | ⟨init, n, hc⟩
    · exfalso
      refine hnf' (startOf fs dest) .dir ?_
      unfold resolve; rw [hnil, walk_eq]; rfl
    rw [List.concat_eq_append] at hc
    have hsnT := walk_snoc fs.ents true fuel (startOf fs dest) init
    have hsnF := walk_snoc fs.ents false fuel (startOf fs dest) init
    -- when the directory part does not lead to a directory, nothing can be created
    have hnodir : (∀ x, walk fs.ents false fuel (startOf fs dest) (init ++ [x]) = .error .noent) →
        WanSpec f fs fuel pid dest bytes
          (replaceVia f fuel fs (withFileName dest (tmpName pid)) dest bytes) := by
      intro herr
      have h1 : resolve fs false fuel (withFileName dest (tmpName pid)) = .error .noent := by
        unfold resolve
        rw [show (withFileName dest (tmpName pid)).comps = init ++ [tmpName pid] by simp [withFileName, hc]]
        exact herr _
      have h2 : renameTarget fs fuel dest = none := by
        unfold renameTarget resolve; rw [hc, herr]
      simp only [replaceVia, createNew, h1]
      exact wanSpec_unchanged _ _ _ _ _ _ (Or.inl (by rw [hrepl, h2]; rfl))
    have hdestT : resolve fs true fuel dest = walk fs.ents true fuel (startOf fs dest) (init ++ [n]) := by
      unfold resolve; rw [hc]
    rcases hr0 : walk fs.ents true fuel (startOf fs dest) init with ⟨D, e0⟩ | ⟨d0, n0⟩ | e0
    · rw [hr0] at hsnT hsnF
      cases e0 with
      | link t => exact absurd hr0 (walk_follow_not_link _ _ _ _ _ _)
      | file i =>
        exfalso
        have : resolve fs true fuel dest = .error .notdir := by rw [hdestT]; exact hsnT n
        rcases hnf with ⟨d, n', h'⟩ | h' <;> rw [this] at h' <;> cases h'
      | dev =>
        exfalso
        have : resolve fs true fuel dest = .error .notdir := by rw [hdestT]; exact hsnT n
        rcases hnf with ⟨d, n', h'⟩ | h' <;> rw [this] at h' <;> cases h'
      | dir =>
        obtain ⟨kT, hkT⟩ := hsnT
        obtain ⟨kF, hkF⟩ := hsnF
        have hkT : ∀ x, walk fs.ents true fuel (startOf fs dest) (init ++ [x]) = lastStep kT fs.ents true D x := hkT
        have hkF : ∀ x, walk fs.ents false fuel (startOf fs dest) (init ++ [x]) = lastStep kF fs.ents false D x := hkF
        -- the name itself: absent, or a link that leads nowhere
        have hLcases : entryAt fs.ents (D ++ [n]) = none ∨
            (∃ t, entryAt fs.ents (D ++ [n]) = some (.link t)) := by
          rcases hent : entryAt fs.ents (D ++ [n]) with _ | e
          · exact Or.inl rfl
          · by_cases hl : ∃ t, e = .link t
            · obtain ⟨t, rfl⟩ := hl; exact Or.inr ⟨t, rfl⟩
            · exfalso
              exact hnf' (D ++ [n]) e (by
                rw [hdestT, hkT n]; exact lastStep_other hent (fun t ht => hl ⟨t, ht⟩))
        -- stability of the directory part
        have hstab : entryAt fs.ents (D ++ [tmpName pid]) = none → ∀ m' : Ents,
            (∀ l, l ≠ D ++ [tmpName pid] → l ≠ D ++ [n] → entryAt m' l = entryAt fs.ents l) →
            LastIn m' fuel (startOf fs dest) init D := by
          intro hT m' hm'
          rcases hLcases with hnone | ⟨t, hlink⟩
          · exact lastIn_extend fs.ents m' fuel _ init D hr0 (fun l hl => hm' l
              (by intro h; subst h; exact hl hT) (by intro h; subst h; exact hl hnone))
          · have hd := hs init n D t hc hcan hr0 hlink
            have hD : D = startOf fs dest ++ init := by
              have := walk_dirs fs.ents true fuel _ _ hd
              rw [hr0] at this; cases this; rfl
            subst hD
            exact lastIn_plain fs.ents m' fuel _ init hd (fun l hl => hm' l
              (ne_snoc_of_short _ _ _ hl) (ne_snoc_of_short _ _ _ hl))
        have hst0 : LastIn fs.ents fuel (startOf fs dest) init D :=
          lastIn_extend fs.ents fs.ents fuel _ init D hr0 (fun _ _ => rfl)
        obtain ⟨hclash, hfree⟩ := replaceVia_core f fuel fs dest (tmpName pid) bytes init n D hc hst0 hstab
          (hLcases.elim Or.inl (fun h => Or.inr (Or.inr h)))
        have htgt : renameTarget fs fuel dest = some (D ++ [n]) := by
          unfold renameTarget resolve
          rw [hc, hkF n]
          rcases hLcases with h | ⟨t, h⟩
          · rw [lastStep_none h]
          · rw [lastStep_link h]; simp
        have hdl : destLoc fs fuel dest = some (D ++ [n]) := by
          unfold destLoc
          split
          · rename_i h; exact absurd h (hnf' _ _)
          · exact htgt
        have hrep : replaceable fs fuel dest = true := by rw [hrepl, htgt]; rfl
        have hcl : tmpClash fs fuel pid dest = (entryAt fs.ents (D ++ [tmpName pid])).isSome := by
          simp [tmpClash, hdl]
        rcases hT : entryAt fs.ents (D ++ [tmpName pid]) with _ | eT
        · obtain ⟨ho, hst⟩ := hfree hT
          generalize replaceVia f fuel fs _ _ bytes = r at ho hst ⊢
          refine { status := by rw [hst]; simp [hrep, hcl, hT], refused := ?_, cwd := ho.cwd, data := ho.data,
                   ok := ?_, fail := ho.fail }
          · intro hx; simp [hrep, hcl, hT] at hx
          intro hok
          obtain ⟨hents, hdata⟩ := ho.ok hok
          refine ⟨D ++ [n], hdl, hents, hdata, ?_⟩
          have hst' : startOf r.1 dest = startOf fs dest := by simp [startOf, ho.cwd]
          have hl := hstab hT r.1.ents (fun l h1 h2 => by rw [hents, if_neg h2])
          obtain ⟨k, hk⟩ := hl true n
          unfold resolve
          rw [hst', hc, hk]
          exact lastStep_other (by rw [hents, if_pos rfl]) (by simp)
        · rw [hclash (by rw [hT]; simp)]
          exact wanSpec_unchanged _ _ _ _ _ _ (Or.inr (by rw [hcl, hT]; rfl))
    · rw [hr0] at hsnF
      exact hnodir hsnF
    · rw [hr0] at hsnT hsnF
      have : resolve fs true fuel dest = .error e0 := by rw [hdestT]; exact hsnT n
      have he : e0 = .noent := by
        rcases hnf with ⟨d, n', h'⟩ | h' <;> rw [this] at h' <;> cases h'
        rfl
      subst he
      exact hnodir hsnF
  · -- any other error: returned at once
    unfold writeAllOrNothingP
    rw [hcan]
    exact wanSpec_unchanged _ _ _ _ _ _ (Or.inl (replaceable_otherError hcan))

/-! ### The `Compile` arm -/

/-- `compileP` = assemble, then `write_all_or_nothing` on the object bytes. -/
theorem compileP_spec (f : Faults) (fuel pid : Nat) (p : Parsed) (fs : PathFs.Fs) (dest : Path)
    (hfs : FsOk fs) (hs : Shape fs fuel dest) :
    (assembleOk p = none ∧ compileP f fuel pid p fs dest = (1, fs)) ∨
    (∃ orig words r, assembleOk p = some (orig, words) ∧
      compileP f fuel pid p fs dest = ((if r.2 then 0 else 1), r.1) ∧
      WanSpec f fs fuel pid dest (objBytes orig words) r) := by
  cases hp : assembleOk p with
  | none => exact Or.inl ⟨rfl, by simp [compileP, hp]⟩
  | some ow =>
    obtain ⟨orig, words⟩ := ow
    have hne : objBytes orig words ≠ [] := by simp [objBytes, be16]
    refine Or.inr ⟨orig, words, _, rfl, ?_, writeAllOrNothingP_spec f fuel pid fs dest _ hne hfs hs⟩
    simp only [compileP, hp]
    cases (writeAllOrNothingP f fuel pid fs dest (objBytes orig words)).2 <;> rfl

/-- After a failed `write_all_or_nothing` EVERY path resolves as before. -/
theorem resolve_of_fail {f : Faults} {fs : PathFs.Fs} {fuel pid : Nat} {dest : Path} {bytes : List Nat}
    {r : PathFs.Fs × Bool} (h : WanSpec f fs fuel pid dest bytes r) (hf : r.2 = false) (fl : Bool) (q : Path) :
    resolve r.1 fl fuel q = resolve fs fl fuel q := by
  unfold resolve
  rw [show startOf r.1 q = startOf fs q by simp [startOf, h.cwd]]
  exact walk_ext (h.fail hf) fl fuel _ _

/-- After a failed `write_all_or_nothing` EVERY path reads what it read before. -/
theorem readPath_of_fail {f : Faults} {fs : PathFs.Fs} {fuel pid : Nat} {dest : Path} {bytes : List Nat}
    {r : PathFs.Fs × Bool} (hfs : FsOk fs) (h : WanSpec f fs fuel pid dest bytes r) (hf : r.2 = false) (q : Path) :
    readPath r.1 fuel q = readPath fs fuel q := by
  have hres := resolve_of_fail h hf true q
  unfold readPath
  rw [hres]
  rcases hq : resolve fs true fuel q with ⟨loc, e⟩ | _ | _
  · cases e with
    | file i =>
      have := lt_freshIno fs loc i (entryAt_of_found hfs hq)
      simp [h.data i (by omega)]
    | _ => rfl
  · rfl
  · rfl

/-- **C08 on paths (a).** Under every fault, for every covered destination path: exit 0 ⇒
reading through the destination path yields exactly the object bytes; exit ≠ 0 ⇒ reading through
the destination path yields what it yielded before (absent included). -/
theorem compileP_all_or_nothing (f : Faults) (fuel pid : Nat) (p : Parsed) (fs : PathFs.Fs) (dest : Path)
    (hfs : FsOk fs) (hs : Shape fs fuel dest) :
    let r := compileP f fuel pid p fs dest
    (r.1 = 0 → ∃ orig words, assembleOk p = some (orig, words) ∧
                 readPath r.2 fuel dest = .bytes (objBytes orig words)) ∧
    (r.1 ≠ 0 → readPath r.2 fuel dest = readPath fs fuel dest) := by
  rcases compileP_spec f fuel pid p fs dest hfs hs with ⟨_, hc⟩ | ⟨orig, words, r, hp, hc, hw⟩
  · simp [hc]
  · simp only [hc]
    cases hok : r.2 with
    | true =>
      obtain ⟨L, _, _, hdata, hres⟩ := hw.ok hok
      exact ⟨fun _ => ⟨orig, words, hp, by simp [readPath, hres, hdata]⟩, by simp⟩
    | false => exact ⟨by simp, fun _ => readPath_of_fail hfs hw hok dest⟩

/-- **(b)** No location other than the destination's own has a different entry afterwards:
nothing is created (no temporary file left behind), removed or replaced anywhere else — in
particular nothing appears in the working directory when the destination is elsewhere, and for a
destination that is a live link nothing changes in the link's directory unless the target is
there too. The destination's own location holds what it held, or a regular file. -/
theorem no_stray_entries (f : Faults) (fuel pid : Nat) (p : Parsed) (fs : PathFs.Fs) (dest : Path)
    (hfs : FsOk fs) (hs : Shape fs fuel dest) :
    let r := compileP f fuel pid p fs dest
    (∀ l, destLoc fs fuel dest ≠ some l → entryAt r.2.ents l = entryAt fs.ents l) ∧
    (∀ l, destLoc fs fuel dest = some l →
      entryAt r.2.ents l = entryAt fs.ents l ∨ ∃ i, entryAt r.2.ents l = some (.file i)) ∧
    r.2.cwd = fs.cwd := by
  rcases compileP_spec f fuel pid p fs dest hfs hs with ⟨_, hc⟩ | ⟨orig, words, r, hp, hc, hw⟩
  · simp [hc]
  · simp only [hc]
    cases hok : r.2 with
    | true =>
      obtain ⟨L, hL, hents, _, _⟩ := hw.ok hok
      refine ⟨fun l hl => ?_, fun l hl => Or.inr ⟨freshIno fs, ?_⟩, hw.cwd⟩
      · rw [hents, if_neg]; intro h; subst h; exact hl hL
      · rw [hL] at hl; cases hl; rw [hents, if_pos rfl]
    | false => exact ⟨fun l _ => hw.fail hok l, fun l _ => Or.inl (hw.fail hok l), hw.cwd⟩

theorem splitLast_eq : ∀ (k d : Loc) (n : Name), splitLast k = some (d, n) → k = d ++ [n]
  | [], d, n, h => by simp [splitLast] at h
  | [a], d, n, h => by simp [splitLast] at h; simp [h]
  | a :: b :: l, d, n, h => by
    simp only [splitLast, Option.map_eq_some_iff] at h
    obtain ⟨⟨d', n'⟩, h1, h2⟩ := h
    have := splitLast_eq (b :: l) d' n' h1
    simp only [Prod.mk.injEq] at h2
    obtain ⟨hd, hn⟩ := h2
    subst hd; subst hn
    simp [this]

theorem mget_ne_none_of_mem {m : Ents} {k : Loc} {e : Entry} (h : (k, e) ∈ m) : mget k m ≠ none := by
  induction m with
  | nil => cases h
  | cons a m ih =>
    obtain ⟨a1, a2⟩ := a
    by_cases ha : a1 = k
    · simp [mget, ha]
    · simp only [mget, ha, if_false]
      rcases List.mem_cons.mp h with h | h
      · cases h; exact absurd rfl ha
      · exact ih h

/-- The names a directory lists are bound locations below it. -/
theorem mem_listDir (fs : PathFs.Fs) (d : Loc) (n : Name) :
    n ∈ listDir fs d → entryAt fs.ents (d ++ [n]) ≠ none := by
  unfold listDir entryAt
  simp only [List.mem_filterMap, ne_eq, List.append_eq_nil_iff, List.cons_ne_self, and_false, if_false]
  rintro ⟨⟨k, e⟩, hmem, hk⟩
  dsimp only at hk
  split at hk
  · rename_i d' n' hsp
    split at hk
    · rename_i hd
      cases hk; subst hd
      have := splitLast_eq _ _ _ hsp
      subst this
      exact mget_ne_none_of_mem hmem
    · cases hk
  · cases hk

/-- **(b), as directory listings.** No directory lists a name it did not list before, other than
the destination's own name. -/
theorem no_new_names (f : Faults) (fuel pid : Nat) (p : Parsed) (fs : PathFs.Fs) (dest : Path)
    (hfs : FsOk fs) (hs : Shape fs fuel dest) (d : Loc) (n : Name)
    (hn : n ∈ listDir (compileP f fuel pid p fs dest).2 d) :
    entryAt fs.ents (d ++ [n]) ≠ none ∨ destLoc fs fuel dest = some (d ++ [n]) := by
  have h := mem_listDir _ _ _ hn
  by_cases hd : destLoc fs fuel dest = some (d ++ [n])
  · exact Or.inr hd
  · rw [(no_stray_entries f fuel pid p fs dest hfs hs).1 _ hd] at h
    exact Or.inl h

/-- **(c)** Every other name of the destination's old inode — and every name of every other
file — still names the same inode, with the same contents: the object file went to a new inode. -/
theorem hard_link_other_name_unchanged (f : Faults) (fuel pid : Nat) (p : Parsed) (fs : PathFs.Fs) (dest : Path)
    (hfs : FsOk fs) (hs : Shape fs fuel dest) (l : Loc) (i : Nat)
    (hl : entryAt fs.ents l = some (.file i)) (hne : destLoc fs fuel dest ≠ some l) :
    let r := compileP f fuel pid p fs dest
    entryAt r.2.ents l = some (.file i) ∧ contents r.2 i = contents fs i := by
  have hi : i ≠ freshIno fs := by have := lt_freshIno fs l i hl; omega
  refine ⟨by rw [(no_stray_entries f fuel pid p fs dest hfs hs).1 l hne]; exact hl, ?_⟩
  rcases compileP_spec f fuel pid p fs dest hfs hs with ⟨_, hc⟩ | ⟨orig, words, r, hp, hc, hw⟩
  · simp [hc]
  · simp only [hc]; exact hw.data i hi

/-- The contents of an inode that had a name never change, not even the destination's old one
(which may have lost its last name). -/
theorem old_inodes_unchanged (f : Faults) (fuel pid : Nat) (p : Parsed) (fs : PathFs.Fs) (dest : Path)
    (hfs : FsOk fs) (hs : Shape fs fuel dest) (l : Loc) (i : Nat)
    (hl : entryAt fs.ents l = some (.file i)) :
    contents (compileP f fuel pid p fs dest).2 i = contents fs i := by
  have hi : i ≠ freshIno fs := by have := lt_freshIno fs l i hl; omega
  rcases compileP_spec f fuel pid p fs dest hfs hs with ⟨_, hc⟩ | ⟨orig, words, r, hp, hc, hw⟩
  · simp [hc]
  · simp only [hc]; exact hw.data i hi

/-- **(d)** A destination path that leads somewhere — a live symbolic link, possibly a chain of
them — is written THROUGH: every symbolic link of the file system is still a symbolic link with
the same target text. -/
theorem live_link_preserved (f : Faults) (fuel pid : Nat) (p : Parsed) (fs : PathFs.Fs) (dest : Path)
    (hfs : FsOk fs) (loc : Loc) (e : Entry) (h : resolve fs true fuel dest = .found loc e)
    (l : Loc) (t : Path) (hl : entryAt fs.ents l = some (.link t)) :
    entryAt (compileP f fuel pid p fs dest).2.ents l = some (.link t) := by
  have hs : Shape fs fuel dest := Shape.ofResolves h
  rw [(no_stray_entries f fuel pid p fs dest hfs hs).1 l]
  · exact hl
  · simp only [destLoc, h]
    intro hc; cases hc
    have := entryAt_of_found hfs h
    rw [hl] at this; cases this
    exact walk_follow_not_link _ _ _ _ _ _ h

/-- On success the destination's own location holds a regular file with the object bytes. -/
theorem dest_location_regular_file (f : Faults) (fuel pid : Nat) (p : Parsed) (fs : PathFs.Fs) (dest : Path)
    (hfs : FsOk fs) (hs : Shape fs fuel dest)
    (h0 : (compileP f fuel pid p fs dest).1 = 0) :
    ∃ L i orig words, destLoc fs fuel dest = some L ∧ assembleOk p = some (orig, words) ∧
      entryAt (compileP f fuel pid p fs dest).2.ents L = some (.file i) ∧
      contents (compileP f fuel pid p fs dest).2 i = objBytes orig words := by
  rcases compileP_spec f fuel pid p fs dest hfs hs with ⟨_, hc⟩ | ⟨orig, words, r, hp, hc, hw⟩
  · simp [hc] at h0
  · rw [hc] at h0 ⊢
    cases hok : r.2 with
    | false => simp [hok] at h0
    | true =>
      obtain ⟨L, hL, hents, hdata, _⟩ := hw.ok hok
      exact ⟨L, _, orig, words, hL, hp, by rw [hents, if_pos rfl], hdata⟩

/-- **A dangling link is replaced.** The destination is a symbolic link (in a chain of plain
directories) that leads nowhere — relative or absolute target, missing target or a loop: when
compile succeeds, the LINK'S OWN NAME is a regular file with the object bytes (nothing is created
at the place the link pointed to: `no_stray_entries`). -/
theorem dangling_link_replaced (f : Faults) (fuel pid : Nat) (p : Parsed) (fs : PathFs.Fs) (dest : Path)
    (hfs : FsOk fs) (init : List Name) (n : Name) (t : Path)
    (hc : dest.comps = init ++ [n]) (hd : dirsFrom fs.ents (startOf fs dest) init)
    (hlink : entryAt fs.ents (startOf fs dest ++ init ++ [n]) = some (.link t))
    (hnf : (resolve fs true fuel dest).isFound = false)
    (h0 : (compileP f fuel pid p fs dest).1 = 0) :
    ∃ i orig words, assembleOk p = some (orig, words) ∧
      entryAt (compileP f fuel pid p fs dest).2.ents (startOf fs dest ++ init ++ [n]) = some (.file i) ∧
      contents (compileP f fuel pid p fs dest).2 i = objBytes orig words := by
  have hs : Shape fs fuel dest := Shape.ofPlainDir fs fuel dest init n hc hd
  obtain ⟨L, i, orig, words, hL, hp, he, hcont⟩ := dest_location_regular_file f fuel pid p fs dest hfs hs h0
  have : L = startOf fs dest ++ init ++ [n] := by
    have hnf' : ∀ loc e, resolve fs true fuel dest ≠ .found loc e := by
      intro loc e h; rw [h] at hnf; cases hnf
    rcases hres : resolve fs true fuel dest with _ | _ | _
    · exact absurd hres (hnf' _ _)
    all_goals
      simp only [destLoc, hres, renameTarget] at hL
      rw [resolve_plain fs false fuel dest init n hc hd, lastStep_link hlink] at hL
      simpa using hL.symm
  subst this
  exact ⟨i, orig, words, hp, he, hcont⟩

/-- **The temporary name is taken.** If the directory the object file goes to already has an
entry named `.lace-tmp<pid>` — a file, a directory, a symbolic link, live, dangling or pointing at
the destination itself — compile exits non-zero and not a single operation changes anything: the
file system afterwards IS the file system before. (Before lace cb35643 the name was opened with
`File::create`: `stale_tmp_link_truncates_before_fix`.) -/
theorem tmp_name_exists_refused (f : Faults) (fuel pid : Nat) (p : Parsed) (fs : PathFs.Fs) (dest : Path)
    (hfs : FsOk fs) (hs : Shape fs fuel dest) (h : tmpClash fs fuel pid dest = true) :
    compileP f fuel pid p fs dest = (1, fs) := by
  rcases compileP_spec f fuel pid p fs dest hfs hs with ⟨_, hc⟩ | ⟨orig, words, r, hp, hc, hw⟩
  · exact hc
  · rw [hc, hw.refused (Or.inr h)]; rfl

/-- **A destination that cannot be resolved** for a reason other than "does not exist" (too many
levels of symbolic links, a regular file used as a directory): compile exits non-zero and the
file system afterwards IS the file system before. (Before lace 2214b6f the path as given was
used: `symlink_depth_counterexample_before_fix`.) No hypothesis on the file system or the path. -/
theorem unresolvable_refused (f : Faults) (fuel pid : Nat) (p : Parsed) (fs : PathFs.Fs) (dest : Path)
    (h : canonicalize fs fuel dest = .otherError) :
    compileP f fuel pid p fs dest = (1, fs) := by
  unfold compileP
  cases assembleOk p with
  | none => rfl
  | some ow => simp [writeAllOrNothingP, h]

/-- Not replaceable (a device, a directory, a missing directory, unresolvable): non-zero exit and
the file system afterwards IS the file system before. -/
theorem not_replaceable_refused (f : Faults) (fuel pid : Nat) (p : Parsed) (fs : PathFs.Fs) (dest : Path)
    (hfs : FsOk fs) (hs : Shape fs fuel dest) (h : replaceable fs fuel dest = false) :
    compileP f fuel pid p fs dest = (1, fs) := by
  rcases compileP_spec f fuel pid p fs dest hfs hs with ⟨_, hc⟩ | ⟨orig, words, r, hp, hc, hw⟩
  · exact hc
  · rw [hc, hw.refused (Or.inl h)]; rfl

/-- Exactly when compile succeeds. -/
theorem compileP_status (f : Faults) (fuel pid : Nat) (p : Parsed) (fs : PathFs.Fs) (dest : Path)
    (hfs : FsOk fs) (hs : Shape fs fuel dest) :
    (compileP f fuel pid p fs dest).1 = 0 ↔ ∃ orig words, assembleOk p = some (orig, words) ∧
      replaceable fs fuel dest = true ∧ tmpClash fs fuel pid dest = false ∧
      (writeLimited f [] (objBytes orig words)).2 = true ∧ f.renameFails = false := by
  rcases compileP_spec f fuel pid p fs dest hfs hs with ⟨hp, hc⟩ | ⟨orig, words, r, hp, hc, hw⟩
  · simp [hc, hp]
  · rw [hc, hp]
    cases hok : r.2 with
    | true => simpa using ⟨orig, words, ⟨rfl, rfl⟩, hw.status.mp hok⟩
    | false =>
      simp only [Bool.false_eq_true, if_false, Nat.succ_ne_zero, false_iff, not_exists]
      intro o w ⟨ho, hrest⟩
      cases ho
      rw [← hw.status, hok] at hrest; cases hrest

/-! ### (e) The flattened model is the abstraction of the path-level one -/

/-- What `Model/CliFlows.lean` calls the destination, read off the path-level file system. -/
def absDest (fs : PathFs.Fs) (fuel : Nat) (p : Path) : Dest :=
  match readPath fs fuel p with
  | .bytes b => .file (some b)
  | .dev => .devFull
  | .dir => .uncreatable
  | .absent =>
    if canonicalize fs fuel p = .notFound ∧ (renameTarget fs fuel p).isSome = true then .file none
    else .uncreatable

/-- a path in a writable directory (absent or a regular file) -/
def isFileDest : Dest → Bool
  | .file _ => true
  | _ => false

theorem absDest_file_iff (fs : PathFs.Fs) (fuel : Nat) (p : Path) :
    isFileDest (absDest fs fuel p) = replaceable fs fuel p := by
  unfold absDest replaceable readPath canonicalize
  rcases hres : resolve fs true fuel p with ⟨loc, e⟩ | _ | e
  · cases e with
    | link t => exact absurd hres (walk_follow_not_link _ _ _ _ _ _)
    | _ => simp [isFileDest]
  · cases h : (renameTarget fs fuel p).isSome <;> simp [isFileDest]
  · cases e <;> cases h : (renameTarget fs fuel p).isSome <;> simp [isFileDest]

/-- The flattened `compile`, computed. -/
theorem compileFs_eq (f : Faults) (p : Parsed) (d : Dest) :
    compileFs f p { dest := d } =
      match assembleOk p with
      | none => (1, { dest := d })
      | some (o, w) =>
        if isFileDest d = true ∧ (writeLimited f [] (objBytes o w)).2 = true ∧ f.renameFails = false
        then (0, { dest := .file (some (objBytes o w)) }) else (1, { dest := d }) := by
  unfold compileFs
  cases hp : assembleOk p with
  | none => rfl
  | some ow =>
    obtain ⟨o, w⟩ := ow
    have hemp : (objBytes o w).isEmpty = false := by simp [objBytes, be16]
    have hfit := writeLimited_ok f [] (objBytes o w)
    cases d with
    | devFull => simp [writeAllOrNothing, applyOps, applyOp, hemp, isFileDest]
    | uncreatable => simp [writeAllOrNothing, applyOps, applyOp, isFileDest]
    | file c =>
      rcases hwl : writeLimited f [] (objBytes o w) with ⟨b, ok⟩
      rw [hwl] at hfit
      cases ok with
      | false => simp [writeAllOrNothing, applyOps, applyOp, hwl, isFileDest]
      | true =>
        have hb : b = objBytes o w := by simpa using hfit
        subst hb
        cases hr : f.renameFails <;> simp [writeAllOrNothing, applyOps, applyOp, hwl, hr, isFileDest]

/-- **(e)** For every covered destination path, when the name of the temporary file is free: the
flattened model `compileFs` of `Model/CliFlows.lean`, started on the abstraction of the path-level
file system (what reading through the path gives: these bytes / absent / a device / cannot be
created), ends with the exit status of `compileP` and on the abstraction of the file system
`compileP` ends on — and with no temporary file. So the theorems of `Props/C08.lean` and
`Props/C07.lean` about `compileFs` / `compile` are theorems about `compileP`. (With the temporary
name taken, `compileP` refuses — `tmp_name_exists_refused` — which the flattened model, whose
`createTmp` truncates, does not describe.) -/
theorem compileP_refines_compileFs (f : Faults) (fuel pid : Nat) (p : Parsed) (fs : PathFs.Fs) (dest : Path)
    (hfs : FsOk fs) (hs : Shape fs fuel dest) (hfree : tmpClash fs fuel pid dest = false) :
    compileFs f p { dest := absDest fs fuel dest } =
      ((compileP f fuel pid p fs dest).1,
       { dest := absDest (compileP f fuel pid p fs dest).2 fuel dest, tmp := none }) := by
  rw [compileFs_eq]
  rcases compileP_spec f fuel pid p fs dest hfs hs with ⟨hp, hc⟩ | ⟨orig, words, r, hp, hc, hw⟩
  · rw [hp, hc]
  · rw [hp, hc]
    simp only
    cases hok : r.2 with
    | true =>
      obtain ⟨hrep, _, hfit, hrf⟩ := hw.status.mp hok
      obtain ⟨L, _, _, hdata, hres⟩ := hw.ok hok
      have : absDest r.1 fuel dest = .file (some (objBytes orig words)) := by
        simp [absDest, readPath, hres, hdata]
      rw [if_pos ⟨by rw [absDest_file_iff]; exact hrep, hfit, hrf⟩, this]; rfl
    | false =>
      have hno : ¬ (isFileDest (absDest fs fuel dest) = true ∧
          (writeLimited f [] (objBytes orig words)).2 = true ∧ f.renameFails = false) := by
        intro ⟨h1, h2, h3⟩
        rw [absDest_file_iff] at h1
        have := hw.status.mpr ⟨h1, hfree, h2, h3⟩
        rw [hok] at this; cases this
      have hsame : absDest r.1 fuel dest = absDest fs fuel dest := by
        unfold absDest canonicalize renameTarget
        rw [readPath_of_fail hfs hw hok dest, resolve_of_fail hw hok true, resolve_of_fail hw hok false]
      rw [if_neg hno, hsame]; rfl

/-- (e) for the destinations `CliFlows` was written for: a name in the working directory. -/
theorem compileP_name_refines_compileFs (f : Faults) (fuel pid : Nat) (p : Parsed) (fs : PathFs.Fs) (n : Name)
    (hfs : FsOk fs) (hfree : tmpClash fs fuel pid ⟨false, [n]⟩ = false) :
    compileFs f p { dest := absDest fs fuel ⟨false, [n]⟩ } =
      ((compileP f fuel pid p fs ⟨false, [n]⟩).1,
       { dest := absDest (compileP f fuel pid p fs ⟨false, [n]⟩).2 fuel ⟨false, [n]⟩, tmp := none }) :=
  compileP_refines_compileFs f fuel pid p fs _ hfs (Shape.ofName fs fuel n) hfree

/-! ### The hypotheses are decidable on concrete file systems -/

instance decDirsFrom (m : Ents) : ∀ (cur : Loc) (ds : List Name), Decidable (dirsFrom m cur ds)
  | _, [] => isTrue trivial
  | cur, n :: ds =>
    match decEq (entryAt m (cur ++ [n])) (some .dir), decDirsFrom m (cur ++ [n]) ds with
    | isTrue h1, isTrue h2 => isTrue ⟨h1, h2⟩
    | isFalse h1, _ => isFalse fun h => h1 h.1
    | _, isFalse h2 => isFalse fun h => h2 h.2

instance (m : Ents) (d : Loc) : Decidable (CanonDir m d) := decDirsFrom m [] d

/-! ### Examples: the destinations of the harness (`harness/src/cli.rs`, `obs_c08`), each with a fault

The harness runs every case in `work/` (the working directory), which holds `s.asm` and the
sub-directory `sub/`. The root of the model stands for the directory that holds `work/`. -/

section examples

private def halt : Parsed := some (none, [some 0xF025#16])
private def failing : Parsed := some (none, [some 0x1021#16, none, some 0xF025#16])
private def obj : List Nat := [0x30, 0x00, 0xF0, 0x25]
private def old : List Nat := [1, 2, 3, 4, 5, 6, 7]

/-- `work/` with `s.asm` (inode 1) and `sub/`, plus `more`; inode 2 holds `old`. -/
private def work (more : Ents) : PathFs.Fs :=
  { ents := [(["work"], .dir), (["work", "s.asm"], .file 1), (["work", "sub"], .dir)] ++ more,
    data := [(1, [104, 97, 108, 116]), (2, old)], cwd := ["work"] }

private def out : Path := ⟨false, ["out.lc3"]⟩
private def subOut : Path := ⟨false, ["sub", "out.lc3"]⟩
private def link : Path := ⟨false, ["sub", "link.lc3"]⟩
private def relTarget : Entry := .link ⟨false, ["real.lc3"]⟩
private def absTarget : Entry := .link ⟨true, ["work", "sub", "real.lc3"]⟩

/-- what the harness looks at: exit status, reading through the path, the two listings -/
private def observe (r : Nat × PathFs.Fs) (dest : Path) : Nat × Read × List Name × List Name :=
  (r.1, readPath r.2 40 dest, listDir r.2 ["work"], listDir r.2 ["work", "sub"])

-- the hypotheses hold for the harness's file systems
example : FsOk (work [(["work", "sub", "link.lc3"], relTarget)]) := ⟨by decide⟩
example : Shape (work [(["work", "sub", "link.lc3"], relTarget)]) 40 link :=
  Shape.ofPlainDir _ _ _ ["sub"] "link.lc3" rfl (by decide)

-- a plain name in the working directory: absent
example : observe (compileP {} 40 7 halt (work []) out) out =
    (0, .bytes obj, ["out.lc3", "s.asm", "sub"], []) := by decide
example : observe (compileP { limit := some 3 } 40 7 halt (work []) out) out =
    (1, .absent, ["s.asm", "sub"], []) := by decide
example : observe (compileP { renameFails := true } 40 7 halt (work []) out) out =
    (1, .absent, ["s.asm", "sub"], []) := by decide
-- … and existing; assembly failing at the second statement
example : observe (compileP {} 40 7 halt (work [(["work", "out.lc3"], .file 2)]) out) out =
    (0, .bytes obj, ["out.lc3", "s.asm", "sub"], []) := by decide
example : observe (compileP {} 40 7 failing (work [(["work", "out.lc3"], .file 2)]) out) out =
    (1, .bytes old, ["s.asm", "sub", "out.lc3"], []) := by decide
example : observe (compileP { limit := some 0 } 40 7 halt (work [(["work", "out.lc3"], .file 2)]) out) out =
    (1, .bytes old, ["s.asm", "sub", "out.lc3"], []) := by decide
-- a name in a sub-directory: the temporary file lives there, never in the working directory
example : observe (compileP {} 40 7 halt (work []) subOut) subOut =
    (0, .bytes obj, ["s.asm", "sub"], ["out.lc3"]) := by decide
example : (createNew (work []) 40 (withFileName subOut (tmpName 7))).1.ents.head? =
    some (["work", "sub", ".lace-tmp7"], .file 2) := by decide
-- a live link, relative target: written through, link kept
example : observe (compileP {} 40 7 halt
      (work [(["work", "sub", "link.lc3"], relTarget), (["work", "sub", "real.lc3"], .file 2)]) link) link =
    (0, .bytes obj, ["s.asm", "sub"], ["real.lc3", "link.lc3"]) := by decide
example : entryAt (compileP {} 40 7 halt
      (work [(["work", "sub", "link.lc3"], relTarget), (["work", "sub", "real.lc3"], .file 2)]) link).2.ents
    ["work", "sub", "link.lc3"] = some relTarget := by decide
example : observe (compileP { limit := some 2 } 40 7 halt
      (work [(["work", "sub", "link.lc3"], absTarget), (["work", "sub", "real.lc3"], .file 2)]) link) link =
    (1, .bytes old, ["s.asm", "sub"], ["link.lc3", "real.lc3"]) := by decide
-- a dangling link, relative target (resolved in the LINK's directory, not the working directory):
-- the link itself becomes the object file; nothing appears in `work/`, nor at `sub/real.lc3`
example : observe (compileP {} 40 7 halt (work [(["work", "sub", "link.lc3"], relTarget)]) link) link =
    (0, .bytes obj, ["s.asm", "sub"], ["link.lc3"]) := by decide
example : observe (compileP { limit := some 3 } 40 7 halt (work [(["work", "sub", "link.lc3"], relTarget)]) link) link =
    (1, .absent, ["s.asm", "sub"], ["link.lc3"]) := by decide
example : entryAt (compileP { limit := some 3 } 40 7 halt (work [(["work", "sub", "link.lc3"], relTarget)]) link).2.ents
    ["work", "sub", "link.lc3"] = some relTarget := by decide
-- a dangling link, absolute target
example : observe (compileP {} 40 7 halt (work [(["work", "sub", "link.lc3"], absTarget)]) link) link =
    (0, .bytes obj, ["s.asm", "sub"], ["link.lc3"]) := by decide
example : observe (compileP { renameFails := true } 40 7 halt (work [(["work", "sub", "link.lc3"], absTarget)]) link) link =
    (1, .absent, ["s.asm", "sub"], ["link.lc3"]) := by decide
-- a hard-linked destination: the other name keeps the old contents, also when compile succeeds
private def hard : PathFs.Fs := work [(["work", "out.lc3"], .file 2), (["work", "sub", "other-name.lc3"], .file 2)]
private def other : Path := ⟨false, ["sub", "other-name.lc3"]⟩
example : observe (compileP {} 40 7 halt hard out) out =
    (0, .bytes obj, ["out.lc3", "s.asm", "sub"], ["other-name.lc3"]) := by decide
example : readPath (compileP {} 40 7 halt hard out).2 40 other = .bytes old := by decide
example : observe (compileP { limit := some 1 } 40 7 halt hard out) out =
    (1, .bytes old, ["s.asm", "sub", "out.lc3"], ["other-name.lc3"]) := by decide
example : readPath (compileP { limit := some 1 } 40 7 halt hard out).2 40 other = .bytes old := by decide
-- a device: written in place, nothing accepted, still a device
example : observe (compileP {} 40 7 halt (work [(["work", "devfull"], .dev)]) ⟨false, ["devfull"]⟩) ⟨false, ["devfull"]⟩ =
    (1, .dev, ["s.asm", "sub", "devfull"], []) := by decide
-- a missing directory
example : observe (compileP {} 40 7 halt (work []) ⟨false, ["no-such-dir", "out.lc3"]⟩) ⟨false, ["no-such-dir", "out.lc3"]⟩ =
    (1, .absent, ["s.asm", "sub"], []) := by decide
-- a new name behind a symbolic link to a directory (covered: `Shape.ofNotLink`)
example : observe (compileP {} 40 7 halt (work [(["work", "d"], .link ⟨false, ["sub"]⟩)]) ⟨false, ["d", "out.lc3"]⟩)
      ⟨false, ["d", "out.lc3"]⟩ = (0, .bytes obj, ["s.asm", "sub", "d"], ["out.lc3"]) := by decide
-- the flattened model on the abstraction (theorem (e)), under a fault
example : compileFs { limit := some 3 } halt { dest := absDest (work [(["work", "out.lc3"], .file 2)]) 40 out } =
    (1, { dest := .file (some old), tmp := none }) := by decide
-- NOT covered by `Shape` (a dangling link behind a symbolic link to a directory), evaluated: fine
example : observe (compileP {} 40 7 halt
      (work [(["work", "d"], .link ⟨false, ["sub"]⟩), (["work", "sub", "link.lc3"], relTarget)]) ⟨false, ["d", "link.lc3"]⟩)
      ⟨false, ["d", "link.lc3"]⟩ = (0, .bytes obj, ["s.asm", "sub", "d"], ["link.lc3"]) := by decide

/-! #### The two destinations added with the fixes (harness variants `stale:` and `deep:`) -/

/-- `work/out.lc3` (inode 2) and `work/.lace-tmp7`, a symbolic link to it -/
private def stale : PathFs.Fs := work [(["work", "out.lc3"], .file 2), (["work", ".lace-tmp7"], .link ⟨false, ["out.lc3"]⟩)]
/-- `work/n`, a link to the directory that holds it (`ln -s . n`) -/
private def deepFs : PathFs.Fs := work [(["work", "n"], .link ⟨false, []⟩)]
private def deep (k : Nat) : Path := ⟨false, List.replicate k "n"⟩

-- the temporary name is taken: refused, with or without a fault; the link is still there
example : compileP { limit := some 3 } 40 7 halt stale out = (1, stale) := by decide
example : compileP {} 40 7 halt stale out = (1, stale) := by decide
example : tmpClash stale 40 7 out = true := by decide
-- 40 components lead (through 40 links) to the directory `work/`: not replaceable;
-- 41 and 42 cannot be resolved: refused. Nothing changes in any case.
example : compileP {} 40 7 halt deepFs (deep 39) = (1, deepFs) := by decide
example : compileP {} 40 7 halt deepFs (deep 40) = (1, deepFs) := by decide
example : compileP {} 40 7 halt deepFs (deep 41) = (1, deepFs) := by decide
example : compileP {} 40 7 halt deepFs (deep 42) = (1, deepFs) := by decide
example : canonicalize deepFs 40 (deep 40) = .ok ⟨true, ["work"]⟩ := by decide
example : canonicalize deepFs 40 (deep 41) = .otherError := by decide

end examples

/-! ### The two defects of the implementation before lace cb35643 / 2214b6f -/

/-- **Before cb35643.** `File::create(tmp)` followed links and truncated: with `.lace-tmp<pid>`
already existing as a symbolic link to the destination, a write failing half-way left the
destination truncated — exit 1, and the destination (7 bytes) held 3 bytes of the new object
file. (Replayed on the binary at 5a35dc3 with 3,000 such links for the next process ids and
RLIMIT_FSIZE = 3: exit 1, `01…07` became `30 00 f0`.) -/
theorem stale_tmp_link_truncates_before_fix :
    let fs : PathFs.Fs :=
      { ents := [(["out.lc3"], .file 2), ([".lace-tmp7"], .link ⟨false, ["out.lc3"]⟩)], data := [(2, [1, 2, 3, 4, 5, 6, 7])] }
    let r := compilePBeforeFix { limit := some 3 } 40 7 (some (none, [some 0xF025#16])) fs ⟨false, ["out.lc3"]⟩
    r.1 = 1 ∧ readPath fs 40 ⟨false, ["out.lc3"]⟩ = .bytes [1, 2, 3, 4, 5, 6, 7] ∧
      readPath r.2 40 ⟨false, ["out.lc3"]⟩ = .bytes [0x30, 0x00, 0xF0] := by decide

/-- The same input on the fixed code: refused, nothing changes (`tmp_name_exists_refused`). -/
theorem stale_tmp_link_refused :
    let fs : PathFs.Fs :=
      { ents := [(["out.lc3"], .file 2), ([".lace-tmp7"], .link ⟨false, ["out.lc3"]⟩)], data := [(2, [1, 2, 3, 4, 5, 6, 7])] }
    compileP { limit := some 3 } 40 7 (some (none, [some 0xF025#16])) fs ⟨false, ["out.lc3"]⟩ = (1, fs) := by decide

/-- **Before 2214b6f.** Any failure of `canonicalize` made the path as given the destination. `n`
is a link to the directory that holds it; with `fuel` links allowed, the path `n/n/…/n` (`fuel + 1`
components) needs `fuel + 1` links when its last component is followed (`canonicalize`,
`metadata`: ELOOP) but only `fuel` when it is not (`rename`): compile replaced the LINK `n` by
the object file and exited 0, after which the destination path could not be read (`n` no longer a
directory). Here with `fuel = 1`; Linux allows 40. (Replayed on the binary at 5a35dc3: `ln -s . n`,
destination `n/n/…/n` with 41 components: exit 0, `n` a 4-byte regular file, opening the
destination failed with ENOTDIR; with 40 or 42 components: exit 1, nothing changed.) -/
theorem symlink_depth_counterexample_before_fix :
    let fs : PathFs.Fs := { ents := [(["n"], .link ⟨true, []⟩)] }
    let r := compilePBeforeFix {} 1 7 (some (none, [some 0xF025#16])) fs ⟨false, ["n", "n"]⟩
    r.1 = 0 ∧ readPath r.2 1 ⟨false, ["n", "n"]⟩ = .absent ∧
      entryAt r.2.ents ["n"] = some (.file 1) := by decide

/-- The same input on the fixed code: refused, nothing changes (`unresolvable_refused`). -/
theorem symlink_depth_refused :
    let fs : PathFs.Fs := { ents := [(["n"], .link ⟨true, []⟩)] }
    compileP {} 1 7 (some (none, [some 0xF025#16])) fs ⟨false, ["n", "n"]⟩ = (1, fs) := by decide

end Lace.C08
