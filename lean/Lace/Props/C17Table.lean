/-
  C17, the breakpoint table — "… `assembly <address>` (AND THE BREAKPOINT TABLE) shows exactly the
  source text of the statement that produced that word … and addresses holding no statement show
  nothing."

  Model: `Lace/Model/BreakTable.lean` (`break list` in the normal output mode: `bpRowOf`,
  `breakListNormal`, `getSingleLine`, `resolveSymbolName`, `printCell`), `Lace/Basic/Tables.lean`
  (`bpTable`, `bpRow`, `bpCell`).

  PROVED
  (a) `bp_table_line_eq_assembly` — the table is `bpTable` of one row per breakpoint whose line
      column is exactly the text `assembly <address>` prints in minimal mode (`showSingleLine`),
      and `[]` where that prints nothing (`bp_table_line_blank`: the cell is 27 blanks);
      `break_list_normal_no_panic` — on an assembled program the command never panics.
  (b) `bp_table_label` — a label `l` that resolves to address `a` (`label_resolves`) is what the
      label column shows for a breakpoint at `a`, provided no other label marks the same line;
      `bp_table_label_sound` — whatever name the column shows resolves, as a location, to that
      address; `bp_table_label_none` — the column is empty iff no label marks the line;
      `bp_table_label_mem` / `resolveSymbolName_perm` — the hash map's iteration order (a list
      order here) is irrelevant when at most one label marks the line, and in every case the name
      shown is one of the labels marking the line.
      The real assembler does NOT guarantee one label per line: a label followed by `.break` or
      `.orig` leaves its line number to the next label too (`two_labels_one_line` below, checked
      on the real binary, /tmp/ag-bpt/FINDINGS.md).  The correspondence generates one label per
      statement, as every other generator of the framework does.
  (c) `printCell_eq_bpCell` — the loop of `print_cell` is `bpCell`; `bpCell_length` (always
      `width − 1` characters), `bpCell_fits` (whole text + blanks iff at most `width − 2`
      characters: 12 for labels, 26 for statements), `bpCell_truncates` (otherwise the first
      `width − 2` characters and `…`).  Characters, not bytes.
  (d) `bp_table_rows`, `bp_table_sorted`, `bpRows_eq` — exactly one row per breakpoint, in list
      order, which is strictly ascending by address (C11's invariant).
-/
import Lace.Model.BreakTable
import Lace.Props.C17
import Lace.Proofs.DbgBasics
namespace Lace.C17
open Lace Lace.Asm Lace.Dbg Lace.Cmd Lace.Tables Lace.DbgProofs

/-! ### (c) `print_cell` -/

/-- The loop of `print_cell`, started with `i = len` (as it is) at most at `width − 2`. -/
theorem printCellLoop_spec (w : Nat) (hw : 3 ≤ w) : ∀ (t : List Char) (i : Nat), i ≤ w - 2 →
    printCellLoop w t i i =
      if t.length + i ≤ w - 2 then (t, i + t.length) else (t.take (w - 2 - i) ++ ['…'], w - 1)
  | [], i, hi => by simp [printCellLoop]; omega
  | ch :: rest, i, hi => by
    unfold printCellLoop
    by_cases h : i > w - 3
    · rw [if_pos h]
      have e : w - 2 - i = 0 := by omega
      have hn : ¬ ((ch :: rest).length + i ≤ w - 2) := by simp only [List.length_cons]; omega
      rw [if_neg hn, e]
      simp only [List.take_zero, List.nil_append, Prod.mk.injEq, true_and]
      omega
    · rw [if_neg h, printCellLoop_spec w hw rest (i + 1) (by omega)]
      by_cases h2 : rest.length + (i + 1) ≤ w - 2
      · have hp : (ch :: rest).length + i ≤ w - 2 := by simp only [List.length_cons]; omega
        rw [if_pos h2, if_pos hp]
        simp only [List.length_cons, Prod.mk.injEq, true_and]
        omega
      · have hn : ¬ ((ch :: rest).length + i ≤ w - 2) := by simp only [List.length_cons]; omega
        have e : w - 2 - i = (w - 2 - (i + 1)) + 1 := by omega
        rw [if_neg h2, if_neg hn, e, List.take_succ_cons]
        rfl

/-- **print_cell is bpCell.**  For every width the code uses (`usize` arithmetic needs
`width ≥ 3`; the call sites pass 14 and 28) the loop prints exactly `bpCell text width`. -/
theorem printCell_eq_bpCell (t : List Char) (w : Nat) (hw : 3 ≤ w) : printCell t w = bpCell t w := by
  unfold printCell bpCell
  rw [printCellLoop_spec w hw t 0 (by omega)]
  by_cases h : t.length ≤ w - 2
  · have h' : t.length + 0 ≤ w - 2 := h
    rw [if_pos h', if_pos h]
    simp
  · have h' : ¬ (t.length + 0 ≤ w - 2) := h
    rw [if_neg h', if_neg h]
    simp

/-- **Fixed width.**  A cell always occupies `width − 1` characters. -/
theorem bpCell_length (t : List Char) (w : Nat) (hw : 2 ≤ w) : (bpCell t w).length = w - 1 := by
  unfold bpCell
  by_cases h : t.length ≤ w - 2
  · rw [if_pos h]; simp only [List.length_append, List.length_replicate]; omega
  · rw [if_neg h]
    simp only [List.length_append, List.length_take, List.length_cons, List.length_nil]
    omega

/-- **The text fits** iff it has at most `width − 2` characters; then the cell is the whole text
followed by blanks. -/
theorem bpCell_fits (t : List Char) (w : Nat) (h : t.length ≤ w - 2) :
    bpCell t w = t ++ List.replicate (w - 1 - t.length) ' ' := by
  unfold bpCell; rw [if_pos h]

/-- **Otherwise** the cell is the first `width − 2` characters followed by `…`. -/
theorem bpCell_truncates (t : List Char) (w : Nat) (h : w - 2 < t.length) :
    bpCell t w = t.take (w - 2) ++ ['…'] := by
  unfold bpCell; rw [if_neg (by omega)]

/-- The label column (width 14): whole name up to 12 characters, else 12 characters and `…`. -/
theorem label_cell_rule (t : List Char) :
    (bpCell t 14).length = 13 ∧
    (t.length ≤ 12 → bpCell t 14 = t ++ List.replicate (13 - t.length) ' ') ∧
    (12 < t.length → bpCell t 14 = t.take 12 ++ ['…']) :=
  ⟨bpCell_length t 14 (by omega), fun h => bpCell_fits t 14 h, fun h => bpCell_truncates t 14 h⟩

/-- The statement column (width 28): whole text up to 26 characters, else 26 characters and `…`. -/
theorem line_cell_rule (t : List Char) :
    (bpCell t 28).length = 27 ∧
    (t.length ≤ 26 → bpCell t 28 = t ++ List.replicate (27 - t.length) ' ') ∧
    (26 < t.length → bpCell t 28 = t.take 26 ++ ['…']) :=
  ⟨bpCell_length t 28 (by omega), fun h => bpCell_fits t 28 h, fun h => bpCell_truncates t 28 h⟩

/-- A text that fits can be read back from its cell. -/
theorem bpCell_shows_text (t : List Char) (w : Nat) (h : t.length ≤ w - 2) :
    (bpCell t w).take t.length = t := by
  rw [bpCell_fits t w h]; simp

/-! ### (a) the statement column -/

/-- `get_single_line` and `show_single_line` look at the same statement and cut the same slice. -/
theorem getSingleLine_eq_showSingleLine (s : AsmSource) (a : Word) :
    s.getSingleLine a = s.showSingleLine a := rfl

/-- What `assembly a` prints in minimal mode, as a text (`[]` when it prints nothing). -/
def assemblyText (s : AsmSource) (a : Word) : List Char :=
  match s.showSingleLine a with
  | .text t => t
  | _ => []

/-- What the label column is given for address `a`. -/
def labelText (v : BpView) (a : Word) : List Char :=
  (resolveSymbolName v.symtab (a - v.orig)).getD []

/-- The row the table is given for breakpoint `b`. -/
def rowFor (v : BpView) (b : Breakpoint) : Word × List Char × List Char :=
  (b.address, labelText v b.address, assemblyText v.source b.address)

theorem bpRowOf_ok (v : BpView) (b : Breakpoint) (row : Word × List Char × List Char)
    (h : bpRowOf v b = .ok row) : row = rowFor v b := by
  unfold bpRowOf at h
  split at h
  · cases h
  · split at h
    · cases h
    · simp only [getSingleLine_eq_showSingleLine] at h
      unfold rowFor assemblyText labelText
      split at h
      · cases h
      · rename_i hs; cases h; rw [hs]
      · rename_i t hs; cases h; rw [hs]

theorem bpRowsOf_ok (v : BpView) : ∀ (bps : Breakpoints) (rows : List (Word × List Char × List Char)),
    bpRowsOf v bps = .ok rows → rows = bps.map (rowFor v)
  | [], rows, h => by cases h; rfl
  | b :: rest, rows, h => by
    unfold bpRowsOf at h
    split at h
    · cases h
    · rename_i r hr
      split at h
      · cases h
      · rename_i rs hrs
        cases h
        rw [bpRowOf_ok v b r hr, bpRowsOf_ok v rest rs hrs]
        rfl

/-- **bp_table_line_eq_assembly.**  With a non-empty breakpoint list, whatever `break list` prints
in the normal mode is the `Breakpoints:` line followed by `bpTable` of one row per breakpoint
`b`: its address, the label column text, and — statement column — EXACTLY the text
`assembly <b.address>` shows in minimal mode (`showSingleLine`), `[]` where that shows nothing.
(`bpRow_cells` below: the row prints `bpCell` of that text at width 28.) -/
theorem bp_table_line_eq_assembly (v : BpView) (bps : Breakpoints) (out : List Char)
    (hne : bps ≠ []) (h : breakListNormal v bps = .ok out) :
    out = infoMark ++ "Breakpoints:\n".toList ++
      bpTable (bps.map fun b => (b.address, labelText v b.address, assemblyText v.source b.address)) := by
  unfold breakListNormal at h
  have he : bps.isEmpty = false := by cases bps with | nil => exact absurd rfl hne | cons _ _ => rfl
  rw [he] at h
  simp only [Bool.false_eq_true, if_false] at h
  split at h
  · cases h
  · rename_i rows hr
    cases h
    rw [bpRowsOf_ok v bps rows hr]
    rfl

/-- … and with an empty list it is the one line saying so. -/
theorem bp_table_empty (v : BpView) :
    breakListNormal v [] = .ok (infoMark ++ "No breakpoints exist.".toList) := rfl

/-- The shape of one row: address in hex, the label cell (width 14), the statement cell
(width 28), between the box characters and style codes of `print_breakpoint_table`. -/
theorem bpRow_cells (a : Word) (label line : List Char) :
    bpRow a label line =
      "│ \x1b[0;1m".toList ++ "0x".toList ++ hex4 a ++ "\x1b[0;2m │ \x1b[0m".toList ++ bpCell label 14 ++
        "\x1b[2m│ \x1b[0m".toList ++ bpCell line 28 ++ "\x1b[2m│".toList ++ ['\n'] := rfl

/-- For an address that holds statement `i` whose span can be sliced, the text is that slice … -/
theorem bp_table_line_statement (s : AsmSource) (a : Word) (h1 : ¬ a < s.orig)
    (h2 : (a - s.orig).toNat < s.spans.length) (t : List Char)
    (hs : sliceBytes s.src (s.spans[(a - s.orig).toNat]'h2).1 (s.spans[(a - s.orig).toNat]'h2).2 = some t) :
    assemblyText s a = t := by
  unfold assemblyText AsmSource.showSingleLine
  rw [statement_text s a h1 h2]
  simp only [hs]

/-- … and for an address that holds no statement the text is empty: the cell is 27 blanks. -/
theorem bp_table_line_blank (s : AsmSource) (a : Word)
    (h : a < s.orig ∨ s.spans.length ≤ (a - s.orig).toNat) :
    assemblyText s a = [] ∧ bpCell (assemblyText s a) 28 = List.replicate 27 ' ' := by
  have e : assemblyText s a = [] := by
    unfold assemblyText; rw [no_statement_no_text s a h]
  rw [e]; exact ⟨rfl, rfl⟩

theorem bpRowsOf_total (v : BpView) : ∀ (bps : Breakpoints),
    (∀ b ∈ bps, ∃ r, bpRowOf v b = .ok r) → ∃ rows, bpRowsOf v bps = .ok rows
  | [], _ => ⟨[], rfl⟩
  | b :: rest, h => by
    obtain ⟨r, hr⟩ := h b (by simp)
    obtain ⟨rs, hrs⟩ := bpRowsOf_total v rest (fun x hx => h x (by simp [hx]))
    exact ⟨r :: rs, by unfold bpRowsOf; rw [hr]; simp only []; rw [hrs]⟩

/-- **No panic.**  On a program the assembler accepted, `break list` (normal mode) completes for
every breakpoint list whose addresses are at or above the origin and not `orig + 0xFFFF` — in
particular for everything `break add` admits (`[orig, 0xFE00)`) and every `.break` of a program
that loaded. -/
theorem break_list_normal_no_panic (so : Bool) (tbl : SymTab) (src : List Char) (img : Image)
    (tbl' : SymTab) (h : assemble so tbl src = (.ok img, tbl')) (bps : Breakpoints)
    (hb : ∀ b ∈ bps, ¬ b.address < (viewOf src img tbl').orig ∧
      b.address - (viewOf src img tbl').orig ≠ 0xFFFF#16) :
    ∃ out, breakListNormal (viewOf src img tbl') bps = .ok out := by
  unfold breakListNormal
  by_cases he : bps.isEmpty
  · rw [if_pos he]; exact ⟨_, rfl⟩
  · rw [if_neg he]
    have : ∃ rows, bpRowsOf (viewOf src img tbl') bps = .ok rows := by
      apply bpRowsOf_total
      intro b hbm
      obtain ⟨h1, h2⟩ := hb b hbm
      unfold bpRowOf
      rw [if_neg h1, if_neg h2]
      have hp := show_single_line_no_panic so tbl src img tbl' h (viewOf src img tbl').orig b.address
      simp only [getSingleLine_eq_showSingleLine]
      have hv : (viewOf src img tbl').source = AsmSource.mk (viewOf src img tbl').orig img.spans src := rfl
      rw [hv]
      cases hs : (AsmSource.mk (viewOf src img tbl').orig img.spans src).showSingleLine b.address with
      | nothing => exact ⟨_, rfl⟩
      | text t => exact ⟨_, rfl⟩
      | panic => exact absurd hs hp
    obtain ⟨rows, hr⟩ := this
    rw [hr]; exact ⟨_, rfl⟩

/-! ### (b) the label column -/

/-- Whatever name is found is a label whose line is `address + 1`. -/
theorem bp_table_label_mem (tbl : List (List Char × Word)) (a : Word) (name : List Char)
    (h : resolveSymbolName tbl a = some name) : (name, a + 1) ∈ tbl := by
  unfold resolveSymbolName at h
  cases hf : tbl.find? (fun p => p.2 == a + 1) with
  | none => rw [hf] at h; cases h
  | some p =>
    rw [hf] at h
    simp only [Option.map_some, Option.some.injEq] at h
    have hm := List.mem_of_find?_eq_some hf
    have hp := List.find?_some hf
    have : p.2 = a + 1 := by simpa using hp
    obtain ⟨n, k⟩ := p
    simp only at h this
    rw [← h, ← this]; exact hm

/-- **bp_table_label_none.**  The label column is empty exactly when no label marks the line. -/
theorem bp_table_label_none (tbl : List (List Char × Word)) (a : Word) :
    resolveSymbolName tbl a = none ↔ ∀ p ∈ tbl, p.2 ≠ a + 1 := by
  unfold resolveSymbolName
  rw [Option.map_eq_none_iff, List.find?_eq_none]
  constructor
  · intro h p hp he; exact h p hp (by simp [he])
  · intro h p hp; simpa using h p hp

/-- If exactly one label marks the line, that label is found, wherever it stands in the table. -/
theorem resolveSymbolName_unique (tbl : List (List Char × Word)) (a : Word) (name : List Char)
    (hmem : (name, a + 1) ∈ tbl) (huniq : ∀ p ∈ tbl, p.2 = a + 1 → p.1 = name) :
    resolveSymbolName tbl a = some name := by
  cases hr : resolveSymbolName tbl a with
  | none =>
    have := (bp_table_label_none tbl a).mp hr (name, a + 1) hmem
    exact absurd rfl this
  | some n =>
    have hm := bp_table_label_mem tbl a n hr
    exact congrArg some (huniq (n, a + 1) hm rfl)

/-- **Iteration order is irrelevant** (this is what justifies listing the `FxHashMap` in any
order): two orders of the same table give the same answer for every line that at most one label
marks. -/
theorem resolveSymbolName_perm (tbl tbl' : List (List Char × Word)) (a : Word)
    (hp : tbl.Perm tbl')
    (huniq : ∀ p ∈ tbl, ∀ q ∈ tbl, p.2 = a + 1 → q.2 = a + 1 → p.1 = q.1) :
    resolveSymbolName tbl a = resolveSymbolName tbl' a := by
  cases hr : resolveSymbolName tbl a with
  | none =>
    symm
    rw [bp_table_label_none] at hr ⊢
    intro p hp'; exact hr p (hp.mem_iff.mpr hp')
  | some n =>
    symm
    have hm := bp_table_label_mem tbl a n hr
    apply resolveSymbolName_unique tbl' a n (hp.mem_iff.mp hm)
    intro p hp' he
    exact huniq p (hp.mem_iff.mpr hp') (n, a + 1) hm he rfl

theorem mem_of_lookup {l : List (List Char × Word)} {k : List Char} {v : Word}
    (h : l.lookup k = some v) : (k, v) ∈ l := by
  induction l with
  | nil => cases h
  | cons p rest ih =>
    obtain ⟨k', v'⟩ := p
    simp only [List.lookup] at h
    split at h
    · rename_i hk
      cases h
      have : k = k' := by simpa using hk
      rw [this]; simp
    · exact List.mem_cons_of_mem _ (ih h)

theorem lookup_of_mem {l : List (List Char × Word)} {k : List Char} {v : Word}
    (hn : (l.map (·.1)).Nodup) (h : (k, v) ∈ l) : l.lookup k = some v := by
  induction l with
  | nil => cases h
  | cons p rest ih =>
    obtain ⟨k', v'⟩ := p
    simp only [List.map_cons, List.nodup_cons] at hn
    simp only [List.lookup]
    rcases List.mem_cons.mp h with he | hr
    · cases he; simp
    · have hne : k ≠ k' := by
        intro e; apply hn.1; rw [← e]; exact List.mem_map.mpr ⟨(k, v), hr, rfl⟩
      have : (k == k') = false := by simpa using hne
      rw [this]; exact ih hn.2 hr

/-- **bp_table_label.**  A label `name` that the assembler put on line `line` resolves, as a
location, to `a = orig + line − 1` (`label_resolves`, offset 0) — and a breakpoint at that very
`a` carries `name` in the label column, provided no other label marks the same line. -/
theorem bp_table_label (env : Env) (orig : Word) (m : Machine) (name : List Char) (line : Word)
    (hl : env.symtab.lookup name = some line) (h1 : 1 ≤ line.toNat)
    (huser : orig.toNat + line.toNat - 1 < 0xFE00)
    (huniq : ∀ p ∈ env.symtab, p.2 = line → p.1 = name) :
    ∃ a : Word, a.toNat = orig.toNat + line.toNat - 1 ∧
      resolveLocation env orig m (.label name 0) = .ok a ∧
      resolveSymbolName env.symtab (a - orig) = some name := by
  refine ⟨BitVec.ofInt 16 ((orig.toNat + line.toNat - 1 : Nat) + 0), ?_, ?_, ?_⟩
  · simp only [Int.add_zero, BitVec.ofInt_natCast, BitVec.toNat_ofNat]; omega
  · exact label_resolves env orig m name 0 line hl h1 (by omega) (by omega) (by omega)
  · have hline : BitVec.ofInt 16 ((orig.toNat + line.toNat - 1 : Nat) + 0) - orig + 1 = line := by
      apply BitVec.eq_of_toNat_eq
      simp only [Int.add_zero, BitVec.ofInt_natCast, BitVec.toNat_add, BitVec.toNat_sub,
        BitVec.toNat_ofNat]
      have := orig.isLt
      have := line.isLt
      have h16 : (1 : Word).toNat = 1 := rfl
      omega
    apply resolveSymbolName_unique
    · rw [hline]; exact mem_of_lookup hl
    · intro p hp he; rw [hline] at he; exact huniq p hp he

/-- **bp_table_label_sound.**  Conversely: whatever name the label column shows for a breakpoint
at `a` (in user space) is a label that, used as a location, resolves to `a`.  (Keys of the symbol
table are distinct: it is a hash map.) -/
theorem bp_table_label_sound (env : Env) (orig : Word) (m : Machine) (a : Word) (name : List Char)
    (hkeys : (env.symtab.map (·.1)).Nodup) (h1 : orig ≤ a) (h2 : a < 0xFE00#16)
    (h : resolveSymbolName env.symtab (a - orig) = some name) :
    resolveLocation env orig m (.label name 0) = .ok a := by
  have hm := bp_table_label_mem _ _ _ h
  have hl := lookup_of_mem hkeys hm
  have ho : orig.toNat ≤ a.toNat := BitVec.le_def.mp h1
  have ha : a.toNat < 0xFE00 := BitVec.lt_def.mp h2
  have hline : (a - orig + 1).toNat = a.toNat - orig.toNat + 1 := by
    simp only [BitVec.toNat_add, BitVec.toNat_sub]
    have := orig.isLt
    have h16 : (1 : Word).toNat = 1 := rfl
    omega
  rw [label_resolves env orig m name 0 (a - orig + 1) hl (by omega) (by omega) (by omega) (by omega)]
  congr 1
  apply BitVec.eq_of_toNat_eq
  simp only [Int.add_zero, BitVec.ofInt_natCast, BitVec.toNat_ofNat, hline]
  omega

/-! ### (d) one row per breakpoint, in list order -/

/-- **bp_table_rows.**  The table has exactly one row per breakpoint, in the order of the list;
the address column is the list of breakpoint addresses. -/
theorem bp_table_rows (v : BpView) (bps : Breakpoints) (rows : List (Word × List Char × List Char))
    (h : bpRowsOf v bps = .ok rows) :
    rows.length = bps.length ∧ rows.map (·.1) = bps.map (·.address) := by
  rw [bpRowsOf_ok v bps rows h]
  refine ⟨by simp, ?_⟩
  simp only [List.map_map]
  rfl

theorem sorted_pairwise : ∀ (l : Breakpoints), Sorted l →
    l.Pairwise (fun x y => x.address < y.address)
  | [], _ => List.Pairwise.nil
  | [_], _ => List.pairwise_singleton _ _
  | a :: b :: rest, h => by
    have ih := sorted_pairwise (b :: rest) h.2
    refine List.Pairwise.cons ?_ ih
    intro x hx
    rcases List.mem_cons.mp hx with rfl | hx
    · exact h.1
    · exact BitVec.lt_trans h.1 ((List.pairwise_cons.mp ih).1 x hx)

/-- **bp_table_sorted.**  The breakpoint list of a debugger session is strictly ascending by
address at all times (`C11.bp_sorted_nodup`), so the address column of the table is strictly
ascending: no address twice, lowest first. -/
theorem bp_table_sorted (v : BpView) (bps : Breakpoints) (rows : List (Word × List Char × List Char))
    (hs : Sorted bps) (h : bpRowsOf v bps = .ok rows) :
    (rows.map (·.1)).Pairwise (· < ·) := by
  rw [(bp_table_rows v bps rows h).2, List.pairwise_map]
  exact sorted_pairwise bps hs

/-- The body of the table is the rows in order, a rule before every row but the first. -/
theorem bpRows_eq (r : Word × List Char × List Char) (rs : List (Word × List Char × List Char)) :
    bpRows (r :: rs) true =
      bpRow r.1 r.2.1 r.2.2 ++
        (rs.map fun r => bpRule '├' '┼' '┤' ++ bpRow r.1 r.2.1 r.2.2).flatten := by
  obtain ⟨a, lab, line⟩ := r
  have aux : ∀ rs : List (Word × List Char × List Char),
      bpRows rs false = (rs.map fun r => bpRule '├' '┼' '┤' ++ bpRow r.1 r.2.1 r.2.2).flatten := by
    intro rs
    induction rs with
    | nil => rfl
    | cons x xs ih =>
      obtain ⟨a, lab, line⟩ := x
      simp only [bpRows, Bool.false_eq_true, if_false, List.map_cons, List.flatten_cons, ih,
        List.append_assoc]
  simp only [bpRows, if_true, List.nil_append, aux]

/-! ### Non-vacuity -/

/-- A small program: label `start` on `halt`, the 13-character label `thirteenchars` on a statement
of 27 characters. -/
def demoSrc : List Char := "start halt\nthirteenchars add r0 , r0 , #000000000001\n".toList

def demoView : BpView :=
  { orig := 0x3000#16,
    symtab := [("start".toList, 1#16), ("thirteenchars".toList, 2#16)],
    source := { orig := 0x3000#16, spans := [(6, 4), (25, 27)], src := demoSrc } }

/-- the assembler model produces exactly this view -/
example : (match assemble false [] demoSrc with
    | (.ok img, tbl) => decide (viewOf demoSrc img tbl = demoView)
    | _ => false) = true := by decide +kernel

example : demoView.source.showSingleLine 0x3000#16 = .text "halt".toList := by decide
example : demoView.source.showSingleLine 0x3001#16 = .text "add r0 , r0 , #000000000001".toList := by
  decide
example : assemblyText demoView.source 0x3002#16 = [] := by decide

/-- the rows for breakpoints at the two statements and at the first address after the program -/
example : (match bpRowsOf demoView [⟨0x3000#16, false⟩, ⟨0x3001#16, true⟩, ⟨0x3002#16, false⟩] with
    | .ok rows => decide (rows =
        [(0x3000#16, "start".toList, "halt".toList),
         (0x3001#16, "thirteenchars".toList, "add r0 , r0 , #000000000001".toList),
         (0x3002#16, [], [])])
    | .error _ => false) = true := by decide

/-- 12 characters fit the label column, 13 do not; 26 fit the statement column, 27 do not -/
example : bpCell "twelve_chars".toList 14 = "twelve_chars ".toList := by decide
example : bpCell "thirteenchars".toList 14 = "thirteenchar…".toList := by decide
example : bpCell "add r0 , r0 , #x000000001".toList 28 = "add r0 , r0 , #x000000001  ".toList := by decide
example : bpCell "add r0 , r0 , #x0000000001".toList 28 = "add r0 , r0 , #x0000000001 ".toList := by decide
example : bpCell "add r0 , r0 , #x00000000001".toList 28 = "add r0 , r0 , #x0000000000…".toList := by decide
/-- characters, not bytes: a 2-byte and a 4-byte character each take one place -/
example : bpCell ".stringz \"é😀\"".toList 28 = ".stringz \"é😀\"              ".toList := by decide
example : printCell "thirteenchars".toList 14 = "thirteenchar…".toList := by decide

/-- the whole output for one breakpoint, escape sequences removed (as the correspondence compares it) -/
example : (match breakListNormal demoView [⟨0x3001#16, false⟩] with
    | .ok out => decide (breakListSeen out =
        ("  · Breakpoints:\n" ++
         "┌────────┬──────────────┬────────────────────────────┐\n" ++
         "│ 0x3001 │ thirteenchar…│ add r0 , r0 , #00000000000…│\n" ++
         "└────────┴──────────────┴────────────────────────────┘\n").toList)
    | _ => false) = true := by decide +kernel

example : breakListSeen (infoMark ++ "No breakpoints exist.".toList) =
    "  · No breakpoints exist.\n".toList := by decide +kernel

/-- `bp_table_label` applies: `thirteenchars` resolves to 0x3001 and is what the table shows there -/
example (m : Machine) (ev : Machine → World → List Char → EvalResult) :
    ∃ a : Word, a.toNat = 0x3001 ∧
      resolveLocation (Env.mk false false demoView.symtab (fun _ => none) 2 ev) 0x3000#16 m
        (.label "thirteenchars".toList 0) = .ok a ∧
      resolveSymbolName demoView.symtab (a - 0x3000#16) = some "thirteenchars".toList :=
  bp_table_label (Env.mk false false demoView.symtab (fun _ => none) 2 ev) 0x3000#16 m
    "thirteenchars".toList 2#16
    (show List.lookup "thirteenchars".toList demoView.symtab = some 2#16 by decide) (by decide) (by decide)
    (show ∀ p ∈ demoView.symtab, p.2 = 2#16 → p.1 = "thirteenchars".toList by decide)

/-- **Two labels, one line.**  The assembler gives BOTH `a` and `b` line 1 here (the `.break`
between them does not advance the line counter), so the hypothesis "at most one label per line" of
`bp_table_label` is a genuine restriction: lace then shows whichever the hash map yields first. -/
theorem two_labels_one_line :
    (assemble false [] "a .break\nb halt\n".toList).2 = [("a".toList, 1), ("b".toList, 1)] := by
  decide +kernel

/-- a label before a `.break` at the end of the file marks a line that holds no statement: the
table shows the label and an empty statement column there -/
example : (match assemble false [] "halt\nlbl .break\n".toList with
    | (.ok img, tbl) =>
      (match bpRowsOf (viewOf "halt\nlbl .break\n".toList img tbl) [⟨0x3001#16, true⟩] with
       | .ok rows => decide (rows = [(0x3001#16, "lbl".toList, [])])
       | .error _ => false)
    | _ => false) = true := by decide +kernel

/-- **A cell is cut only when its text does not fit, and every cut text is longer than every text
shown whole.**  In one column (one width `w ≥ 2`): a text is shown cut (its first `w − 2` characters,
then `…`) exactly when it has more than `w − 2` characters; a text `t` that is shown whole has fewer
characters than any text `s` that is shown cut, and fewer than the cut cell itself shows.  This is the
width-independent reading the correspondence check applies to the implementation's own tables
(`_cut_consistent` in checklib/props.py). -/
theorem cut_only_what_does_not_fit (s t : List Char) (w : Nat) (hw : 2 ≤ w)
    (hs : w - 2 < s.length) (ht : t.length ≤ w - 2) :
    bpCell s w = s.take (w - 2) ++ ['…'] ∧
    bpCell t w = t ++ List.replicate (w - 1 - t.length) ' ' ∧
    t.length < s.length ∧ t.length < (s.take (w - 2) ++ ['…']).length := by
  refine ⟨bpCell_truncates s w hs, bpCell_fits t w ht, by omega, ?_⟩
  simp only [List.length_append, List.length_take, List.length_cons, List.length_nil]
  omega

example : bpCell "abcdefghijklmnopqrstuvwxyz!".toList 28 = "abcdefghijklmnopqrstuvwxyz".toList ++ ['…'] ∧
    bpCell "äöü".toList 28 = "äöü".toList ++ List.replicate 24 ' ' := by decide

end Lace.C17
