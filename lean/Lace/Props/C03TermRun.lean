/-
  C03, terminal input, at the level of whole runs: `lace run` with a terminal on standard input
  (`Lace/Model/TermRun.lean`) is `lace run` with a pipe carrying `pipeBytes` of the terminal's events
  (`Run.loop`, the loop that `C03.run_eq_ref` proves equal to the reference machine) — same
  instructions executed, same machine, same standard output, same exit status — for every program,
  every step budget and every event sequence without Ctrl+C.  The one difference: where the pipe
  path meets the end of its input (exit status 1) the terminal path waits for a key for ever.

  * `execute_inp_frame`           : no instruction but GETC / IN looks at or changes the input.
  * `terminal_run_eq_pipe_run`    : the run loops.
  * `terminal_process_eq_pipe_process` : the processes (`Cli.runAssembled`), which is what the
                                     driver prints for `C03T` as model line and specification line.
-/
import Lace.Props.C03Term
import Lace.Model.TermRun
namespace Lace.C03
open Lace Lace.Term

/-! ### Nothing but GETC / IN touches the input -/

def setInp (w : World) (i : List Nat) : World := { w with inp := i }

def mapW (f : World → World) : StepResult → StepResult
  | .ok m w => .ok m (f w)
  | .exit c w => .exit c (f w)
  | .panic s => .panic s

theorem printChar_setInp (mi : Bool) (w : World) (i : List Nat) (c : Char) :
    VM.printChar mi (setInp w i) c = setInp (VM.printChar mi w c) i := by
  unfold VM.printChar setInp
  split
  · split <;> rfl
  · rfl

theorem foldl_setInp {α : Type} (f : World → α → World) (i : List Nat)
    (hf : ∀ w a, f (setInp w i) a = setInp (f w a) i) (l : List α) (w : World) :
    l.foldl f (setInp w i) = setInp (l.foldl f w) i := by
  induction l generalizing w with
  | nil => rfl
  | cons a l ih => simp only [List.foldl_cons]; rw [hf, ih]

theorem printStr_setInp (mi : Bool) (w : World) (i : List Nat) (cs : List Char) :
    VM.printStr mi (setInp w i) cs = setInp (VM.printStr mi w cs) i :=
  foldl_setInp _ i (fun w c => printChar_setInp mi w i c) cs w

theorem putsLoop_setInp (mi : Bool) (m : Machine) (i : List Nat) : ∀ (n : Nat) (a : Word) (w : World),
    VM.putsLoop mi m n a (setInp w i) = setInp (VM.putsLoop mi m n a w) i
  | 0, _, _ => rfl
  | n + 1, a, w => by
    simp only [VM.putsLoop]
    split
    · rfl
    · rw [printChar_setInp, putsLoop_setInp mi m i n]

theorem putspLoop_setInp (mi : Bool) (m : Machine) (i : List Nat) : ∀ (n : Nat) (a : Word) (w : World),
    VM.putspLoop mi m n a (setInp w i) = setInp (VM.putspLoop mi m n a w) i
  | 0, _, _ => rfl
  | n + 1, a, w => by
    simp only [VM.putspLoop]
    split
    · rfl
    · split
      · rw [printChar_setInp]
      · rw [printChar_setInp, printChar_setInp, putspLoop_setInp mi m i n]

theorem printIntegerInner_setInp (mi : Bool) (w : World) (i : List Nat) (v : Word) :
    VM.printIntegerInner mi (setInp w i) v = setInp (VM.printIntegerInner mi w v) i := by
  simp only [VM.printIntegerInner, printStr_setInp]

theorem printRegisters_setInp (mi : Bool) (m : Machine) (w : World) (i : List Nat) :
    VM.printRegisters mi m (setInp w i) = setInp (VM.printRegisters mi m w) i := by
  unfold VM.printRegisters
  split
  · dsimp only
    rw [foldl_setInp _ i (fun w a => by simp only [printStr_setInp])]
    simp only [printStr_setInp]
  · simp only [printStr_setInp]
    rw [foldl_setInp _ i (fun w a => by simp only [printStr_setInp, printIntegerInner_setInp])]
    simp only [printStr_setInp]

/-- The traps other than GETC (x20) and IN (x23). -/
theorem trap_inp_frame (mi : Bool) (m : Machine) (w : World) (i : List Nat) (instr : Word)
    (h20 : (instr &&& 0xFF#16).toNat ≠ 0x20) (h23 : (instr &&& 0xFF#16).toNat ≠ 0x23) :
    VM.trap mi m (setInp w i) instr = mapW (setInp · i) (VM.trap mi m w instr) := by
  unfold VM.trap
  simp only
  split
  · rename_i h; exact absurd h h20
  · simp only [printChar_setInp, mapW]
  · simp only [putsLoop_setInp, mapW]
  · rename_i h; exact absurd h h23
  · simp only [putspLoop_setInp, mapW]
  · rfl
  · simp only [printStr_setInp, mapW]
  · simp only [printRegisters_setInp, mapW]
  · rfl

theorem stack_inp_frame (so : Bool) (m : Machine) (w : World) (i : List Nat) (instr : Word) :
    VM.stack so m (setInp w i) instr = mapW (setInp · i) (VM.stack so m w instr) := by
  unfold VM.stack
  repeat' split
  all_goals rfl

/-- Every instruction whose opcode is not TRAP: the input is neither looked at nor changed. -/
theorem execute_inp_frame (so mi : Bool) (instr : Word) (m : Machine) (w : World) (i : List Nat)
    (h : (instr >>> 12).toNat < 0xF) :
    VM.execute so mi instr m (setInp w i) = mapW (setInp · i) (VM.execute so mi instr m w) := by
  unfold VM.execute
  split
  any_goals rfl
  · exact stack_inp_frame so m w i instr
  · exfalso
    simp only [imp_false] at *
    omega

/-- Opcode TRAP: `execute` is `trap`. -/
theorem execute_eq_trap (so mi : Bool) (instr : Word) (m : Machine) (w : World)
    (h : ¬ (instr >>> 12).toNat < 0xF) : VM.execute so mi instr m w = VM.trap mi m w instr := by
  unfold VM.execute
  split
  any_goals (exfalso; rename_i hh; omega)
  rfl

/-! ### One instruction on the two paths -/

/-- The two outsides correspond: same standard output, and the terminal (state + pending events)
stands for the pipe's remaining input (`Sim`). -/
def WRel (tw : TermRun.TWorld) (w : World) : Prop :=
  tw.w.outRev = w.outRev ∧ Sim tw.st tw.evs w.inp

inductive StepRel : TermRun.TStep → StepResult → Prop where
  | ok {m tw w} : WRel tw w → StepRel (.ok m tw) (.ok m w)
  | exit {c tw w} : tw.w.outRev = w.outRev → StepRel (.exit c tw) (.exit c w)
  | panic {s} : StepRel (.panic s) (.panic s)
  /-- the terminal path waits where the pipe path has met the end of its input (status 1) -/
  | blocked {tw w} : tw.w.outRev = w.outRev → w.inp = [] → StepRel (.blocked tw) (.exit 1 w)

theorem world_eq_setInp {tw : TermRun.TWorld} {w : World} (h : tw.w.outRev = w.outRev) :
    w = setInp tw.w w.inp := by
  cases w; cases tw; simp_all [setInp]

theorem lift_rel {tw : TermRun.TWorld} {w : World} (h : WRel tw w) (r : StepResult) :
    StepRel (TermRun.lift tw r) (mapW (setInp · w.inp) r) := by
  cases r with
  | ok m w0 => exact .ok ⟨rfl, h.2⟩
  | exit c w0 => exact .exit rfl
  | panic s => exact .panic

theorem trapT_getc (mi : Bool) (m : Machine) (tw : TermRun.TWorld) (instr : Word)
    (h : (instr &&& 0xFF#16).toNat = 0x20) :
    TermRun.trap mi m tw instr = (match runtimeReadChar tw.st tw.evs with
      | .val ch st rest => .ok (VM.setReg m 0#16 (VM.charAsU16 ch)) { tw with st := st, evs := rest }
      | .blocked => .blocked tw
      | .ctrlC => .exit 0 { tw with w := { tw.w with outRev := '\n' :: tw.w.outRev } }
      | .panic s => .panic s) := by
  unfold TermRun.trap; simp only [h]; rfl

theorem trapT_in (mi : Bool) (m : Machine) (tw : TermRun.TWorld) (instr : Word)
    (h : (instr &&& 0xFF#16).toNat = 0x23) :
    TermRun.trap mi m tw instr = (match runtimeReadChar tw.st tw.evs with
      | .val ch st rest =>
        .ok (VM.setReg m 0#16 (VM.charAsU16 ch)) { w := VM.printChar mi tw.w ch, st := st, evs := rest }
      | .blocked => .blocked tw
      | .ctrlC => .exit 0 { tw with w := { tw.w with outRev := '\n' :: tw.w.outRev } }
      | .panic s => .panic s) := by
  unfold TermRun.trap; simp only [h]; rfl

theorem trapT_other (mi : Bool) (m : Machine) (tw : TermRun.TWorld) (instr : Word)
    (h20 : (instr &&& 0xFF#16).toNat ≠ 0x20) (h23 : (instr &&& 0xFF#16).toNat ≠ 0x23) :
    TermRun.trap mi m tw instr = TermRun.lift tw (VM.trap mi m tw.w instr) := by
  unfold TermRun.trap
  simp only

theorem trap_getc (mi : Bool) (m : Machine) (w : World) (instr : Word)
    (h : (instr &&& 0xFF#16).toNat = 0x20) :
    VM.trap mi m w instr = (match VM.readChar w with
      | none => .exit 1 w
      | some (ch, w) => .ok (VM.setReg m 0#16 (VM.charAsU16 ch)) w) := by
  unfold VM.trap; simp only [h]; rfl

theorem trap_in (mi : Bool) (m : Machine) (w : World) (instr : Word)
    (h : (instr &&& 0xFF#16).toNat = 0x23) :
    VM.trap mi m w instr = (match VM.readChar w with
      | none => .exit 1 w
      | some (ch, w) => .ok (VM.setReg m 0#16 (VM.charAsU16 ch)) (VM.printChar mi w ch)) := by
  unfold VM.trap; simp only [h]; rfl

theorem readChar_cons (b : Nat) (inp : List Nat) (out : List Char) :
    VM.readChar { inp := b :: inp, outRev := out } = some (pipeValue b, { inp := inp, outRev := out }) := by
  unfold VM.readChar pipeValue; simp only; split <;> rfl

theorem printChar_outRev (mi : Bool) (w1 w2 : World) (c : Char) (h : w1.outRev = w2.outRev) :
    (VM.printChar mi w1 c).outRev = (VM.printChar mi w2 c).outRev := by
  unfold VM.printChar
  repeat' split
  all_goals simp [h]

theorem printChar_inp (mi : Bool) (w : World) (c : Char) : (VM.printChar mi w c).inp = w.inp := by
  unfold VM.printChar
  repeat' split
  all_goals rfl

theorem execute_rel (so mi : Bool) (instr : Word) (m : Machine) {tw : TermRun.TWorld} {w : World}
    (h : WRel tw w) : StepRel (TermRun.execute so mi instr m tw) (VM.execute so mi instr m w) := by
  have hw := world_eq_setInp h.1
  unfold TermRun.execute
  by_cases hop : (instr >>> 12).toNat < 0xF
  · simp only [hop, if_true]
    rw [hw, execute_inp_frame so mi instr m tw.w w.inp hop]
    exact lift_rel h _
  · simp only [hop, if_false]
    rw [execute_eq_trap so mi instr m w hop]
    have h1 := one_read h.2
    by_cases h20 : (instr &&& 0xFF#16).toNat = 0x20
    · -- GETC
      rw [trapT_getc mi m tw instr h20, trap_getc mi m w instr h20]
      obtain ⟨inp, out⟩ := w
      cases hr : runtimeReadChar tw.st tw.evs with
      | val ch st' rest =>
        simp only [hr] at h1 ⊢
        obtain ⟨b, inp', hi, hv, hs⟩ := h1
        subst hi
        rw [readChar_cons, hv]
        exact .ok ⟨h.1, hs⟩
      | blocked =>
        simp only [hr] at h1 ⊢
        subst h1
        exact .blocked h.1 rfl
      | ctrlC => simp only [hr] at h1
      | panic s => simp only [hr] at h1
    · by_cases h23 : (instr &&& 0xFF#16).toNat = 0x23
      · -- IN
        rw [trapT_in mi m tw instr h23, trap_in mi m w instr h23]
        obtain ⟨inp, out⟩ := w
        cases hr : runtimeReadChar tw.st tw.evs with
        | val ch st' rest =>
          simp only [hr] at h1 ⊢
          obtain ⟨b, inp', hi, hv, hs⟩ := h1
          subst hi
          rw [readChar_cons, hv]
          refine .ok ⟨printChar_outRev mi _ _ _ h.1, ?_⟩
          show Sim st' rest (VM.printChar mi { inp := inp', outRev := out } (pipeValue b)).inp
          rw [printChar_inp]; exact hs
        | blocked =>
          simp only [hr] at h1 ⊢
          subst h1
          exact .blocked h.1 rfl
        | ctrlC => simp only [hr] at h1
        | panic s => simp only [hr] at h1
      · -- the other traps
        rw [trapT_other mi m tw instr h20 h23]
        have := lift_rel h (VM.trap mi m tw.w instr)
        rw [← trap_inp_frame mi m tw.w w.inp instr h20 h23, ← hw] at this
        exact this

/-! ### Whole runs -/

inductive RunRel : TermRun.TRunResult → Run.RunResult → Prop where
  | done {m tw w} : WRel tw w → RunRel (.done m tw) (.done m w)
  | exit {c m tw w} : tw.w.outRev = w.outRev → RunRel (.exit c m tw) (.exit c m w)
  | panic {s} : RunRel (.panic s) (.panic s)
  | fuel {m tw w} : WRel tw w → RunRel (.fuel m tw) (.fuel m w)
  /-- waiting for a key where the pipe path ended with "unexpected end of input" (status 1) -/
  | blocked {m tw w} : tw.w.outRev = w.outRev → w.inp = [] → RunRel (.blocked m tw) (.exit 1 m w)

/-- **C03, terminal input, whole runs.**  From corresponding outsides the terminal-path loop and
the pipe-path loop (`Run.loop` = the reference machine by `run_eq_ref`) perform the same run: for
every step budget, machine, setting. -/
theorem terminal_run_eq_pipe_run (so mi : Bool) : ∀ (n : Nat) (m : Machine) (tw : TermRun.TWorld) (w : World),
    WRel tw w → RunRel (TermRun.loop so mi n m tw) (Run.loop so mi n m w)
  | 0, m, tw, w, h => .fuel h
  | n + 1, m, tw, w, h => by
    unfold TermRun.loop Run.loop
    by_cases hh : (m.pc == 0xFFFF#16) = true
    · simp only [hh, if_true]; exact .done h
    · simp only [hh]
      cases hc : Run.checkPcBounds m with
      | lt => exact .exit h.1
      | gt => exact .exit h.1
      | eq =>
        simp only [Bool.false_eq_true, if_false]
        by_cases hpc : m.pc.toNat + 1 ≥ 65536
        · simp only [hpc, if_true]; exact .panic
        · simp only [hpc, if_false]
          have hx := execute_rel so mi (m.read m.pc) (m.setPC (m.pc + 1)) h
          revert hx
          generalize TermRun.execute so mi (m.read m.pc) (m.setPC (m.pc + 1)) tw = a
          generalize VM.execute so mi (m.read m.pc) (m.setPC (m.pc + 1)) w = b
          intro hx
          cases hx with
          | ok h' => exact terminal_run_eq_pipe_run so mi n _ _ _ h'
          | exit ho => exact .exit ho
          | panic => exact .panic
          | blocked ho hi => exact .blocked ho hi

/-! ### Whole processes (what the `C03T` driver lines are) -/

/-- The terminal process and the pipe process agree; the terminal process waits exactly where the
pipe process ends with status 1 for lack of input. -/
def ProcRel : TermRun.TProc → Cli.Proc → Prop
  | .finished r, p => p = .finished r
  | .panic s, p => p = .panic s
  | .fuel, p => p = .fuel
  | .blocked, p => ∃ out, p = .finished { status := 1, out := out }

theorem withOut_rel {tw : TermRun.TWorld} {w : World} (h : WRel tw w) (extra : List Char) :
    WRel { tw with w := Cli.withOut tw.w extra } (Cli.withOut w extra) := by
  refine ⟨?_, h.2⟩
  show extra.reverse ++ tw.w.outRev = extra.reverse ++ w.outRev
  rw [h.1]

theorem runLoaded_rel (so mi : Bool) (fuel : Nat) (name : List Char) (m : Machine)
    {tw : TermRun.TWorld} {w : World} (h : WRel tw w) :
    ProcRel (TermRun.runLoaded so mi fuel name m tw) (Cli.runLoaded so mi fuel name m w) := by
  unfold TermRun.runLoaded Cli.runLoaded
  have hr := terminal_run_eq_pipe_run so mi fuel m _ _
    (withOut_rel h (Cli.message "Running".toList "emitted binary".toList))
  simp only
  revert hr
  generalize TermRun.loop so mi fuel m _ = a
  generalize Run.loop so mi fuel m _ = b
  intro hr
  cases hr with
  | done h' =>
    simp only [ProcRel]
    have := (withOut_rel h' (Cli.message "Completed".toList ("target ".toList ++ name))).1
    simp only [World.output] at this ⊢
    rw [this]
  | exit ho => simp only [ProcRel, World.output]; rw [ho]
  | panic => simp only [ProcRel]
  | fuel h' => simp only [ProcRel]
  | blocked ho hi => exact ⟨_, rfl⟩

/-- **C03, terminal input, whole processes.**  `lace run` of any program with any events (no
Ctrl+C) arriving on the terminal that is its standard input = `lace run` of the same program with
`pipeBytes evs` piped in: same exit status and same standard output (or same panic, or both still
running after the step budget), except that the terminal process waits where the piped one stops
with status 1 at the end of its input. -/
theorem terminal_process_eq_pipe_process (so mi : Bool) (fuel : Nat) (name : List Char) (orig : Option Word)
    (words : List Word) (evs : List Event) (hn : NoCtrlC evs) :
    ProcRel (TermRun.runAssembled so mi fuel name orig words evs)
            (Cli.runAssembled so mi fuel name orig words (pipeBytes evs)) := by
  unfold TermRun.runAssembled Cli.runAssembled
  simp only
  cases Run.fromRaw (orig.getD 0x3000#16 :: words) with
  | exit c => simp only [ProcRel]; rfl
  | panic s => simp only [ProcRel]
  | ok m =>
    apply runLoaded_rel
    exact ⟨rfl, sim_init evs hn⟩

/-- … for typed text: the pipe carries the UTF-8 bytes of the text ("typing on a terminal behaves
like piping the same bytes", the statement `C03T` checks on the implementation). -/
theorem typed_process_eq_pipe_process (so mi : Bool) (fuel : Nat) (name : List Char) (orig : Option Word)
    (words : List Word) (cs : List Char) :
    ProcRel (TermRun.runAssembled so mi fuel name orig words (cs.map typed))
            (Cli.runAssembled so mi fuel name orig words (cs.flatMap utf8Bytes)) := by
  have := terminal_process_eq_pipe_process so mi fuel name orig words _ (noCtrlC_typed cs)
  rwa [pipeBytes_typed] at this

end Lace.C03
