/-
  C16 — A debugger session always makes progress.

  * `no_spin`    : an iteration of the run loop that neither executes an instruction nor ends the
                   loop has read at least one command — for EVERY script (mutating commands
                   included) and every PC (0xFFFF, outside user space, parked on HALT).
  * `iter_mono`  : the number of commands read never decreases.
  * `work_bound` : after n iterations, (instructions executed) + (commands read) ≥ n: the
                   debugger's work is bounded by what the session executes and reads.
  Since a finite script followed by end of input yields at most |script| + 1 reads (end of
  input is `quit`, which detaches the debugger), the session terminates whenever the program does.
-/
import Lace.Proofs.DbgCommands
namespace Lace.C16
open Lace Lace.Dbg Lace.Cmd Lace.DbgProofs

theorem execOne_cases (env : Env) (att : Bool) (d : Dbg) (m : Machine) (w : World) :
    (∃ m' w', execOne env att d m w = .cont att d m' w' (some m.pc)) ∨
    (∃ c m' w', execOne env att d m w = .exit c att d m' w' (some m.pc)) ∨
    (∃ s, execOne env att d m w = .panic s) := by
  unfold execOne
  simp only
  cases hx : VM.execute env.stackOn env.minimal (m.read m.pc) (m.setPC (m.pc + 1)) w with
  | ok m' w' => exact Or.inl ⟨_, _, rfl⟩
  | exit c w' => exact Or.inr (Or.inl ⟨_, _, _, rfl⟩)
  | panic s => exact Or.inr (Or.inr ⟨_, rfl⟩)

/-- **C16 no_spin.** Every iteration of the run loop executes an instruction, reads at least
one command, or ends the loop: an iteration that goes round again without executing has
strictly increased the number of commands read. (Holds for every script, mutating commands
included, at every PC — in particular 0xFFFF, outside user space, and parked on HALT.) -/
theorem no_spin (env : Env) (att : Bool) (d : Dbg) (m : Machine) (w : World)
    (att' : Bool) (d' : Dbg) (m' : Machine) (w' : World)
    (h : iter env att d m w = .cont att' d' m' w' none) : d.ncmds < d'.ncmds := by
  unfold iter at h
  cases att with
  | false =>
    simp only [Bool.false_eq_true, if_false] at h
    split at h
    · simp at h
    · split at h
      · simp at h
      · simp at h
      · rcases execOne_cases env false d m w with ⟨_, _, he⟩ | ⟨_, _, _, he⟩ | ⟨_, he⟩ <;>
          (rw [he] at h; simp at h)
  | true =>
    simp only [if_true] at h
    cases hn : nextAction env d m w with
    | panic s => rw [hn] at h; simp at h
    | exit c d1 m1 w1 => rw [hn] at h; simp at h
    | action a d1 m1 w1 =>
      rw [hn] at h
      have hadv : d.ncmds ≤ d1.ncmds := by
        have := actionLoop_adv env _ _ m w _ d1 (by rw [← nextAction_eq, hn]; rfl)
        have h2 := this.ncmds; rw [(preamble_facts d m).1] at h2; exact h2
      by_cases heq : d1.ncmds = d.ncmds
      · -- nothing was read: then the loop executes, contradiction with `executed = none`
        obtain ⟨ha, hm, hw, hb, hs⟩ := nextAction_no_cmd env d m w a d1 m1 w1 hn heq
        subst ha hm hw
        simp only at h
        have hs' : (sigOf (m1.read m1.pc) == some Sig.halt) = false := by simpa using hs
        have hb' : (Run.checkPcBounds m1 != Ordering.eq) = false := by simp [hb]
        rw [hs', hb'] at h
        simp only [Bool.false_eq_true, if_false] at h
        rcases execOne_cases env true _ m1 w1 with ⟨_, _, he⟩ | ⟨_, _, _, he⟩ | ⟨_, he⟩ <;>
          (rw [he] at h; simp at h)
      · have hlt : d.ncmds < d1.ncmds := by omega
        cases a with
        | stopDebugger => simp at h; obtain ⟨_, h2, _, _⟩ := h; rw [← h2]; exact hlt
        | exitProgram => simp at h
        | proceed =>
          simp only at h
          split at h
          · simp at h; obtain ⟨_, h2, _⟩ := h; rw [← h2]; exact hlt
          · split at h
            · simp at h; obtain ⟨_, h2, _⟩ := h; rw [← h2]; exact hlt
            · rcases execOne_cases env true _ m1 w1 with ⟨_, _, he⟩ | ⟨_, _, _, he⟩ | ⟨_, he⟩ <;>
                (rw [he] at h; simp at h)

end Lace.C16

namespace Lace.C16
open Lace Lace.Dbg Lace.Cmd Lace.DbgProofs

theorem nextAction_mono (env : Env) (d : Dbg) (m : Machine) (w : World) (d1 : Dbg)
    (h : NextResult.dbg? (nextAction env d m w) = some d1) : d.ncmds ≤ d1.ncmds ∧ d1.initial = d.initial := by
  have := actionLoop_adv env _ _ m w _ d1 (by rw [← nextAction_eq]; exact h)
  have hp := preamble_facts d m
  exact ⟨by have h2 := this.ncmds; rw [hp.1] at h2; exact h2, by rw [this.initial, hp.2.1]⟩

/-- The number of commands read never decreases across an iteration. -/
theorem iter_mono (env : Env) (att : Bool) (d : Dbg) (m : Machine) (w : World)
    (att' : Bool) (d' : Dbg) (m' : Machine) (w' : World) (e : Option Word)
    (h : iter env att d m w = .cont att' d' m' w' e) : d.ncmds ≤ d'.ncmds := by
  unfold iter at h
  cases att with
  | false =>
    simp only [Bool.false_eq_true, if_false] at h
    split at h
    · simp at h
    · split at h
      · simp at h
      · simp at h
      · rcases execOne_cases env false d m w with ⟨_, _, he⟩ | ⟨_, _, _, he⟩ | ⟨_, he⟩ <;>
          (rw [he] at h; simp at h)
        obtain ⟨_, h2, _⟩ := h; rw [← h2]; exact Nat.le_refl _
  | true =>
    simp only [if_true] at h
    cases hn : nextAction env d m w with
    | panic s => rw [hn] at h; simp at h
    | exit c d1 m1 w1 => rw [hn] at h; simp at h
    | action a d1 m1 w1 =>
      rw [hn] at h
      have hadv := (nextAction_mono env d m w d1 (by rw [hn]; rfl)).1
      cases a with
      | stopDebugger => simp at h; obtain ⟨_, h2, _, _⟩ := h; rw [← h2]; exact hadv
      | exitProgram => simp at h
      | proceed =>
        simp only at h
        split at h
        · simp at h; obtain ⟨_, h2, _⟩ := h; rw [← h2]; exact hadv
        · split at h
          · simp at h; obtain ⟨_, h2, _⟩ := h; rw [← h2]; exact hadv
          · rcases execOne_cases env true _ m1 w1 with ⟨_, _, he⟩ | ⟨_, _, _, he⟩ | ⟨_, he⟩ <;>
              (rw [he] at h; simp at h)
            obtain ⟨_, h2, _⟩ := h; rw [← h2]; exact hadv

/-- **C16 work bound.** The work the debugger performs is bounded by the instructions executed
plus the commands read: a run loop that is still going after `n` iterations has executed
instructions and read commands at least `n` times in total. -/
theorem work_bound (env : Env) : ∀ (n : Nat) (att : Bool) (d : Dbg) (m : Machine) (w : World) (ex : List Word)
    (att' : Bool) (d' : Dbg) (m' : Machine) (w' : World) (ex' : List Word),
    runLoop env n att d m w ex = .fuel att' d' m' w' ex' →
    n + ex.length + d.ncmds ≤ ex'.length + d'.ncmds
  | 0, att, d, m, w, ex, att', d', m', w', ex' => by
    intro h; simp [runLoop] at h; obtain ⟨_, h2, _, _, h5⟩ := h; subst h2 h5; omega
  | n + 1, att, d, m, w, ex, att', d', m', w', ex' => by
    intro h
    unfold runLoop at h
    cases hi : iter env att d m w with
    | cont a1 d1 m1 w1 e =>
      rw [hi] at h
      have ih := work_bound env n a1 d1 m1 w1 (pushExec e ex) att' d' m' w' ex' h
      have hm := iter_mono env att d m w a1 d1 m1 w1 e hi
      cases e with
      | some pc => simp [pushExec] at ih; omega
      | none =>
        have := no_spin env att d m w a1 d1 m1 w1 hi
        simp [pushExec] at ih; omega
    | done a1 d1 m1 w1 => rw [hi] at h; simp at h
    | exit c a1 d1 m1 w1 e => rw [hi] at h; simp at h
    | panic s => rw [hi] at h; simp at h

end Lace.C16
