/-
  C15 — "`eval` executes the instruction it is given, here and now."

  Specification: `Lace/Spec/EvalAbs.lean` (`execAbs`, `offLimits`, `isJump`, `fitsAt`) and
  `Lace/Spec/EvalStmt.lean` (`absOf`, `evalSpec`, `resolveIn`).
  Model: `Lace/Model/Eval.lean` (`evalInner`, `evalStmt`) = `src/debugger/eval.rs` after the fixes
  of D17 (label operands were resolved as if PC = origin) and D18 (surplus tokens hit a
  `debug_assert!`).

  The theorems are stated on parsed statements (`Asm.Stmt`, what `parse_simple` returns): "every
  register / immediate / base+offset form and every label-operand form" = every constructor of
  `Stmt`; the step from text to statement is `Asm.parseSimple` (the assembler's own statement
  parser, compared with the implementation on every run by C05 and by C15's sessions); that this
  step never panics, whatever the text, is `parseSimple_no_panic_holds` (lemmas in
  `Lace/Proofs/AsmSimple.lean`).
-/
import Lace.Proofs.EvalLemmas
import Lace.Proofs.EvalSpec
import Lace.Model.AsmSource
import Lace.Proofs.AsmSimple
namespace Lace.C15
open Lace Lace.Asm Lace.Spec Lace.ISA Lace.Dbg

/-! ### `eval` = the specification, at every PC -/

/-- **C15, main theorem.**  For every statement `parse_simple` can return (every form, every
operand value), every machine state — in particular EVERY current PC, not only PC = origin —
every world, every symbol table and every origin: what `eval` does (refusal patterns,
`AsmLine::new(pc − orig, …)`, `backpatch`, `emit`, `execute`) is what the specification demands:
off-limits instructions (BR*, RTI, HALT, unknown trap vectors) are refused with their identifier;
an operand that names no label, or whose distance from the current PC does not fit the
instruction's field, is refused with a diagnostic; everything else is executed by `execAbs`, the
ISA semantics in which a label operand denotes the label's ABSOLUTE address
(`orig + line − 1`, the address the assembler gave the statement the label marks). -/
theorem eval_eq_isa_abs (so mi : Bool) (tbl : SymTab) (orig : Word) (m : Machine) (w : World)
    (s : Stmt) (hraw : ∀ v, s ≠ .rawWord v) :
    evalStmt so mi tbl (evalLine orig m) m w s = evalSpec so mi (resolveIn tbl orig) m w s := by
  rw [evalStmt_eq]
  cases s with
  | rawWord v => exact absurd rfl (hraw v)
  | branch f l =>
    have ho : ∀ t, offLimits (.br (f.bits.setWidth 3) t) = some "DisallowedInstruction::Branch" := fun _ => rfl
    simp only [refusalOf, evalSpec, absOf, ho]
  | interrupt =>
    have ho : offLimits .rti = some "DisallowedInstruction::Interrupt" := rfl
    simp only [refusalOf, evalSpec, absOf, ho]
  | trap v =>
    have ho : offLimits (.trap v) = (if v = 0x25#8 then some "DisallowedInstruction::Halt"
        else if v.toNat < 0x20 ∨ 0x27 < v.toNat then some "DisallowedInstruction::UnknownTrap"
        else none) := rfl
    simp only [refusalOf, evalSpec, absOf, ho]
    by_cases h1 : v = 0x25#8
    · simp only [h1, if_true]
    · by_cases h2 : v.toNat < 0x20 ∨ 0x27 < v.toNat
      · simp only [h1, h2, if_true, if_false]
      · simp only [h1, h2, if_false, isRawWord, Bool.false_eq_true, backpatch_nolabel tbl _ (.trap v) rfl,
          AsmLine.emit, runWord_ok, dec_trap, fitsAt, encode, Option.isSome_some, if_true, execAbs]
  | add d a x =>
    cases x with
    | reg r =>
      have ho : offLimits (.addReg d a r) = none := rfl
      simp only [refusalOf, isRawWord, Bool.false_eq_true, if_false, backpatch_nolabel tbl _ (.add d a (.reg r)) rfl,
        AsmLine.emit, ImmOrReg.bits, runWord_ok, dec_add_reg, evalSpec, absOf, ho, fitsAt, encode,
        Option.isSome_some, if_true, execAbs]
    | imm5 v =>
      have ho : offLimits (.addImm d a (v.setWidth 5)) = none := rfl
      simp only [refusalOf, isRawWord, Bool.false_eq_true, if_false, backpatch_nolabel tbl _ (.add d a (.imm5 v)) rfl,
        AsmLine.emit, ImmOrReg.bits, imm5_low, runWord_ok, dec_add_imm, evalSpec, absOf, ho, fitsAt, encode,
        Option.isSome_some, if_true, execAbs]
  | and d a x =>
    cases x with
    | reg r =>
      have ho : offLimits (.andReg d a r) = none := rfl
      simp only [refusalOf, isRawWord, Bool.false_eq_true, if_false, backpatch_nolabel tbl _ (.and d a (.reg r)) rfl,
        AsmLine.emit, ImmOrReg.bits, runWord_ok, dec_and_reg, evalSpec, absOf, ho, fitsAt, encode,
        Option.isSome_some, if_true, execAbs]
    | imm5 v =>
      have ho : offLimits (.andImm d a (v.setWidth 5)) = none := rfl
      simp only [refusalOf, isRawWord, Bool.false_eq_true, if_false, backpatch_nolabel tbl _ (.and d a (.imm5 v)) rfl,
        AsmLine.emit, ImmOrReg.bits, imm5_low, runWord_ok, dec_and_imm, evalSpec, absOf, ho, fitsAt, encode,
        Option.isSome_some, if_true, execAbs]
  | not d a =>
    have ho : offLimits (.not d a) = none := rfl
    simp only [refusalOf, isRawWord, Bool.false_eq_true, if_false, backpatch_nolabel tbl _ (.not d a) rfl,
      AsmLine.emit, runWord_ok, dec_not, evalSpec, absOf, ho, fitsAt, encode, Option.isSome_some,
      if_true, execAbs]
  | loadOffs d a o =>
    have ho : offLimits (.ldr d a (o.setWidth 6)) = none := rfl
    simp only [refusalOf, isRawWord, Bool.false_eq_true, if_false, backpatch_nolabel tbl _ (.loadOffs d a o) rfl,
      AsmLine.emit, off6_low, runWord_ok, dec_ldr, evalSpec, absOf, ho, fitsAt, encode, Option.isSome_some,
      if_true, execAbs]
  | storeOffs d a o =>
    have ho : offLimits (.str d a (o.setWidth 6)) = none := rfl
    simp only [refusalOf, isRawWord, Bool.false_eq_true, if_false, backpatch_nolabel tbl _ (.storeOffs d a o) rfl,
      AsmLine.emit, off6_low, runWord_ok, dec_str, evalSpec, absOf, ho, fitsAt, encode, Option.isSome_some,
      if_true, execAbs]
  | jump a =>
    have ho : offLimits (.jmp a) = none := rfl
    simp only [refusalOf, isRawWord, Bool.false_eq_true, if_false, backpatch_nolabel tbl _ (.jump a) rfl,
      AsmLine.emit, runWord_ok, dec_jmp, evalSpec, absOf, ho, fitsAt, encode, Option.isSome_some,
      if_true, execAbs]
  | ret =>
    have ho : offLimits (.ret) = none := rfl
    simp only [refusalOf, isRawWord, Bool.false_eq_true, if_false, backpatch_nolabel tbl _ (.ret) rfl,
      AsmLine.emit, runWord_ok, dec_ret, evalSpec, absOf, ho, fitsAt, encode, Option.isSome_some,
      if_true, execAbs]
  | jumpSubReg a =>
    have ho : offLimits (.jsrr a) = none := rfl
    simp only [refusalOf, isRawWord, Bool.false_eq_true, if_false, backpatch_nolabel tbl _ (.jumpSubReg a) rfl,
      AsmLine.emit, runWord_ok, dec_jsrr, evalSpec, absOf, ho, fitsAt, encode, Option.isSome_some,
      if_true, execAbs]
  | push a =>
    have ho : offLimits (.push a) = none := rfl
    simp only [refusalOf, isRawWord, Bool.false_eq_true, if_false, backpatch_nolabel tbl _ (.push a) rfl,
      AsmLine.emit, runWord_ok, dec_push, evalSpec, absOf, ho, fitsAt, encode, Option.isSome_some,
      if_true, execAbs]
  | pop a =>
    have ho : offLimits (.pop a) = none := rfl
    simp only [refusalOf, isRawWord, Bool.false_eq_true, if_false, backpatch_nolabel tbl _ (.pop a) rfl,
      AsmLine.emit, runWord_ok, dec_pop, evalSpec, absOf, ho, fitsAt, encode, Option.isSome_some,
      if_true, execAbs]
  | rets =>
    have ho : offLimits (.rets) = none := rfl
    simp only [refusalOf, isRawWord, Bool.false_eq_true, if_false, backpatch_nolabel tbl _ (.rets) rfl,
      AsmLine.emit, runWord_ok, dec_rets, evalSpec, absOf, ho, fitsAt, encode, Option.isSome_some,
      if_true, execAbs]
  | load d l =>
    simp only [refusalOf, isRawWord, Bool.false_eq_true, if_false, evalSpec, absOf, resolveIn_eq,
      backpatch_label tbl _ (.load d l) l rfl]
    cases resolveLine tbl l with
    | none => rfl
    | some t =>
      have ho : offLimits (.ld d (addrOfLine orig t)) = none := rfl
      simp only [Option.map_some, ho, AsmLine.emit, Stmt.setLabel,
        label_form so mi orig m w 9 fieldAgrees_9 _ (.ld d) (dec_ld d) t, fitsAt, encode, Option.isSome_map]
      cases h : pcField 9 (m.pc - 1) (addrOfLine orig t) with
      | none => rfl
      | some x =>
        simp only [Option.isSome_some, if_true, execAbs, exec,
          field_target fieldAgrees_9 _ _ _ h, toEval]
  | loadInd d l =>
    simp only [refusalOf, isRawWord, Bool.false_eq_true, if_false, evalSpec, absOf, resolveIn_eq,
      backpatch_label tbl _ (.loadInd d l) l rfl]
    cases resolveLine tbl l with
    | none => rfl
    | some t =>
      have ho : offLimits (.ldi d (addrOfLine orig t)) = none := rfl
      simp only [Option.map_some, ho, AsmLine.emit, Stmt.setLabel,
        label_form so mi orig m w 9 fieldAgrees_9 _ (.ldi d) (dec_ldi d) t, fitsAt, encode, Option.isSome_map]
      cases h : pcField 9 (m.pc - 1) (addrOfLine orig t) with
      | none => rfl
      | some x =>
        simp only [Option.isSome_some, if_true, execAbs, exec,
          field_target fieldAgrees_9 _ _ _ h, toEval]
  | loadEAddr d l =>
    simp only [refusalOf, isRawWord, Bool.false_eq_true, if_false, evalSpec, absOf, resolveIn_eq,
      backpatch_label tbl _ (.loadEAddr d l) l rfl]
    cases resolveLine tbl l with
    | none => rfl
    | some t =>
      have ho : offLimits (.lea d (addrOfLine orig t)) = none := rfl
      simp only [Option.map_some, ho, AsmLine.emit, Stmt.setLabel,
        label_form so mi orig m w 9 fieldAgrees_9 _ (.lea d) (dec_lea d) t, fitsAt, encode, Option.isSome_map]
      cases h : pcField 9 (m.pc - 1) (addrOfLine orig t) with
      | none => rfl
      | some x =>
        simp only [Option.isSome_some, if_true, execAbs, exec,
          field_target fieldAgrees_9 _ _ _ h, toEval]
  | store d l =>
    simp only [refusalOf, isRawWord, Bool.false_eq_true, if_false, evalSpec, absOf, resolveIn_eq,
      backpatch_label tbl _ (.store d l) l rfl]
    cases resolveLine tbl l with
    | none => rfl
    | some t =>
      have ho : offLimits (.st d (addrOfLine orig t)) = none := rfl
      simp only [Option.map_some, ho, AsmLine.emit, Stmt.setLabel,
        label_form so mi orig m w 9 fieldAgrees_9 _ (.st d) (dec_st d) t, fitsAt, encode, Option.isSome_map]
      cases h : pcField 9 (m.pc - 1) (addrOfLine orig t) with
      | none => rfl
      | some x =>
        simp only [Option.isSome_some, if_true, execAbs, exec,
          field_target fieldAgrees_9 _ _ _ h, toEval]
  | storeInd d l =>
    simp only [refusalOf, isRawWord, Bool.false_eq_true, if_false, evalSpec, absOf, resolveIn_eq,
      backpatch_label tbl _ (.storeInd d l) l rfl]
    cases resolveLine tbl l with
    | none => rfl
    | some t =>
      have ho : offLimits (.sti d (addrOfLine orig t)) = none := rfl
      simp only [Option.map_some, ho, AsmLine.emit, Stmt.setLabel,
        label_form so mi orig m w 9 fieldAgrees_9 _ (.sti d) (dec_sti d) t, fitsAt, encode, Option.isSome_map]
      cases h : pcField 9 (m.pc - 1) (addrOfLine orig t) with
      | none => rfl
      | some x =>
        simp only [Option.isSome_some, if_true, execAbs, exec,
          field_target fieldAgrees_9 _ _ _ h, toEval]
  | jumpSub l =>
    simp only [refusalOf, isRawWord, Bool.false_eq_true, if_false, evalSpec, absOf, resolveIn_eq,
      backpatch_label tbl _ (.jumpSub l) l rfl]
    cases resolveLine tbl l with
    | none => rfl
    | some t =>
      have ho : offLimits (.jsr (addrOfLine orig t)) = none := rfl
      simp only [Option.map_some, ho, AsmLine.emit, Stmt.setLabel,
        label_form so mi orig m w 11 fieldAgrees_11 _ (.jsr) (dec_jsr) t, fitsAt, encode, Option.isSome_map]
      cases h : pcField 11 (m.pc - 1) (addrOfLine orig t) with
      | none => rfl
      | some x =>
        simp only [Option.isSome_some, if_true, execAbs, exec,
          field_target fieldAgrees_11 _ _ _ h, toEval]
  | call l =>
    simp only [refusalOf, isRawWord, Bool.false_eq_true, if_false, evalSpec, absOf, resolveIn_eq,
      backpatch_label tbl _ (.call l) l rfl]
    cases resolveLine tbl l with
    | none => rfl
    | some t =>
      have ho : offLimits (.call (addrOfLine orig t)) = none := rfl
      simp only [Option.map_some, ho, AsmLine.emit, Stmt.setLabel,
        label_form so mi orig m w 10 fieldAgrees_10 _ (.call) (dec_call) t, fitsAt, encode, Option.isSome_map]
      cases h : pcField 10 (m.pc - 1) (addrOfLine orig t) with
      | none => rfl
      | some x =>
        simp only [Option.isSome_some, if_true, execAbs, exec,
          field_target fieldAgrees_10 _ _ _ h, toEval]

/-- `eval <text>`: the text is parsed by the assembler's statement parser (line counter
`pc − orig + 1`, so that literal offsets keep their meaning); a text that is not exactly one
well-formed instruction is refused with a diagnostic; a well-formed one is `evalSpec`. -/
theorem eval_text_eq_spec (so mi : Bool) (tbl : SymTab) (orig : Word) (m : Machine) (w : World)
    (text : List Char) :
    evalInner so mi tbl orig m w text =
      match parseSimple (some so) tbl ((evalLine orig m + 1) % 65536) text with
      | .diag _ _ => .refused evalMsg
      | .panic s => .panic s
      | .ok stmt =>
        if isRawWord stmt then .panic "unreachable: tried to simulate raw word"
        else evalSpec so mi (resolveIn tbl orig) m w stmt := by
  unfold evalInner
  simp only []
  cases hp : parseSimple (some so) tbl ((evalLine orig m + 1) % 65536) text with
  | diag k sp => rfl
  | panic s => rfl
  | ok stmt =>
    simp only []
    by_cases hr : isRawWord stmt = true
    · rw [if_pos hr]
      cases stmt <;> first
        | (rw [evalStmt_eq]; rfl)
        | (exact absurd hr (by simp [isRawWord]))
    · rw [if_neg hr]
      exact eval_eq_isa_abs so mi tbl orig m w stmt (by intro v hv; subst hv; simp [isRawWord] at hr)

/-! ### "an operand that names a label denotes that label's address wherever the PC is" -/

/-- `eval ld dr, label` at ANY PC from which the label is encodable loads `mem[address of label]`
— not `mem[address + (pc − origin)]` as before the fix of D17. -/
theorem eval_ld_label (so mi : Bool) (tbl : SymTab) (orig : Word) (m : Machine) (w : World)
    (dr : BitVec 3) (name : List Char) (line : Nat) (hl : tbl.get? name = some line)
    (hfit : fitsAt m.pc (.ld dr (addrOfLine orig line)) = true) :
    evalStmt so mi tbl (evalLine orig m) m w (.load dr (.unfilled name)) =
      .ok (writeDR m dr (m.read (addrOfLine orig line))) w := by
  rw [eval_eq_isa_abs _ _ _ _ _ _ _ (by intro v h; cases h)]
  have ho : offLimits (.ld dr (addrOfLine orig line)) = none := rfl
  simp only [evalSpec, absOf, resolveIn, hl, Option.map_some, ho, hfit, if_true, execAbs, toEval]

/-- `eval st sr, label` stores to the label's address at any PC. -/
theorem eval_st_label (so mi : Bool) (tbl : SymTab) (orig : Word) (m : Machine) (w : World)
    (sr : BitVec 3) (name : List Char) (line : Nat) (hl : tbl.get? name = some line)
    (hfit : fitsAt m.pc (.st sr (addrOfLine orig line)) = true) :
    evalStmt so mi tbl (evalLine orig m) m w (.store sr (.unfilled name)) =
      .ok (m.write (addrOfLine orig line) (m.getReg sr)) w := by
  rw [eval_eq_isa_abs _ _ _ _ _ _ _ (by intro v h; cases h)]
  have ho : offLimits (.st sr (addrOfLine orig line)) = none := rfl
  simp only [evalSpec, absOf, resolveIn, hl, Option.map_some, ho, hfit, if_true, execAbs, toEval]

/-! ### "the PC changes only if the instruction is itself a jump" -/

/-- **C15, PC clause** (proved below: `eval_pc_only_jumps_holds`).  If `eval` of a statement executes,
and the statement is not JMP/RET/JSR/JSRR/CALL/RETS, the PC is unchanged.  By `eval_eq_isa_abs`
this reduces to the same statement about `execAbs`, a case analysis over `Spec.Instr` in which
every non-jump case is `writeDR` / `write` / a trap routine other than HALT. -/
def eval_pc_only_jumps : Prop :=
  ∀ (so mi : Bool) (tbl : SymTab) (orig : Word) (m m' : Machine) (w w' : World) (s : Stmt)
    (i : Spec.Instr), (∀ v, s ≠ .rawWord v) → absOf (resolveIn tbl orig) s = some i →
    isJump i = false → evalStmt so mi tbl (evalLine orig m) m w s = .ok m' w' → m'.pc = m.pc

/-- Proved part of the PC clause: it suffices to show it of the specification. -/
theorem eval_pc_only_jumps_partial
    (hspec : ∀ (so mi : Bool) (i : Spec.Instr) (m m' : Machine) (w w' : World),
      offLimits i = none → isJump i = false → execAbs so mi i m w = .ok m' w' → m'.pc = m.pc) :
    eval_pc_only_jumps := by
  intro so mi tbl orig m m' w w' s i hraw hi hj h
  rw [eval_eq_isa_abs _ _ _ _ _ _ _ hraw] at h
  simp only [evalSpec, hi] at h
  split at h
  · cases h
  · rename_i hoff
    split at h
    · cases he : execAbs so mi i m w with
      | ok m2 w2 =>
        rw [he] at h
        simp only [toEval] at h
        injection h with h1 h2
        subst h1
        exact hspec so mi i m _ w w2 hoff hj he
      | exit c w2 => rw [he] at h; cases h
      | panic s => rw [he] at h; cases h
    · cases h

/-- **C15, PC clause, proved in full**: `eval` of an instruction that is not JMP/RET/JSR/JSRR/
CALL/RETS leaves the PC where it was. -/
theorem eval_pc_only_jumps_holds : eval_pc_only_jumps :=
  eval_pc_only_jumps_partial C15Spec.execAbs_pc

/-! ### Refusals have no effect; `eval` never ends the session -/

/-- What the debugger does with a refusal: it prints the lines and nothing else changes — machine,
world, breakpoints, status, pending commands. -/
theorem refused_noop (env : Env) (d : Dbg) (m : Machine) (w : World) (text : List Char)
    (lines : List (List Char)) (h : env.eval m w text = .refused lines) :
    ∃ d', runCommand env d m w (.eval text) = .next d' m w ∧ d'.bps = d.bps ∧ d'.status = d.status ∧
      d'.cmds = d.cmds ∧ d'.initial = d.initial ∧ d'.curBp = d.curBp := by
  have key : ∀ (ls : List (List Char)) (d0 : Dbg),
      (ls.foldl sayL d0).bps = d0.bps ∧ (ls.foldl sayL d0).status = d0.status ∧
      (ls.foldl sayL d0).cmds = d0.cmds ∧ (ls.foldl sayL d0).initial = d0.initial ∧
      (ls.foldl sayL d0).curBp = d0.curBp := by
    intro ls
    induction ls with
    | nil => intro d0; exact ⟨rfl, rfl, rfl, rfl, rfl⟩
    | cons l ls ih => intro d0; simpa [List.foldl, sayL] using ih (sayL d0 l)
  refine ⟨lines.foldl sayL { d with icount := 0, ncmds := d.ncmds + 1, cmdAt := d.nexec :: d.cmdAt },
    ?_, key lines _⟩
  simp only [runCommand, h]

/-- **C15, refusal clause.**  BR*, RTI, HALT, unknown trap vectors, operands naming no label or
out of reach, and every text that is not exactly one well-formed instruction: `eval` returns a
refusal (which `refused_noop` shows to be without effect); the statement parser itself never
panics on the text (`parseSimple_no_panic_holds`, below). -/
theorem eval_refusals_noop (so mi : Bool) (tbl : SymTab) (orig : Word) (m : Machine) (w : World)
    (text : List Char) :
    -- not exactly one well-formed instruction
    ((∃ k sp, parseSimple (some so) tbl ((evalLine orig m + 1) % 65536) text = .diag k sp) →
      evalInner so mi tbl orig m w text = .refused evalMsg) ∧
    -- off-limits
    (∀ stmt i ident, parseSimple (some so) tbl ((evalLine orig m + 1) % 65536) text = .ok stmt →
      isRawWord stmt = false → absOf (resolveIn tbl orig) stmt = some i → offLimits i = some ident →
      evalInner so mi tbl orig m w text = .refused [ident.toList]) := by
  constructor
  · rintro ⟨k, sp, hp⟩
    rw [eval_text_eq_spec, hp]
  · intro stmt i ident hp hr hi ho
    rw [eval_text_eq_spec, hp]
    simp only [hr, Bool.false_eq_true, if_false, evalSpec, hi, ho]

/-- **C15, session clause** (proved below: `eval_never_ends_session_holds`).
`eval` of any parsed statement never panics; it ends the process only with exit status 1, and
only when the instruction is GETC/IN and the input is exhausted (which is how the VM executes that
trap — the property demands "exactly as the VM would", and DESIGN.md I3 makes end of input an
emulator error) or a stack instruction with the feature off (unreachable from text: the lexer
rejects the mnemonic, `Lace.C18.flag_off_rejects`).  A refusal is never an exit. -/
def eval_never_ends_session : Prop :=
  ∀ (so mi : Bool) (tbl : SymTab) (orig : Word) (m : Machine) (w : World) (s : Stmt),
    (∀ v, s ≠ .rawWord v) →
    (∀ site, evalStmt so mi tbl (evalLine orig m) m w s ≠ .panic site) ∧
    (∀ c w', evalStmt so mi tbl (evalLine orig m) m w s = .exit c w' →
      c = 1 ∧ (w.inp = [] ∨ so = false))

/-- Proved part: a refusal is neither a panic nor an exit, and for executed instructions the
clause is the same clause about `execAbs`. -/
theorem eval_never_ends_session_partial
    (hspec : ∀ (so mi : Bool) (i : Spec.Instr) (m : Machine) (w : World), offLimits i = none →
      (∀ site, execAbs so mi i m w ≠ .panic site) ∧
      (∀ c w', execAbs so mi i m w = .exit c w' → c = 1 ∧ (w.inp = [] ∨ so = false))) :
    eval_never_ends_session := by
  intro so mi tbl orig m w s hraw
  rw [eval_eq_isa_abs _ _ _ _ _ _ _ hraw]
  unfold evalSpec
  cases hi : absOf (resolveIn tbl orig) s with
  | none => exact ⟨fun _ h => (by cases h), fun _ _ h => (by cases h)⟩
  | some i =>
    simp only []
    cases ho : offLimits i with
    | some ident => exact ⟨fun _ h => (by cases h), fun _ _ h => (by cases h)⟩
    | none =>
      simp only []
      split
      · obtain ⟨hp, he⟩ := hspec so mi i m w ho
        constructor
        · intro site h
          cases hx : execAbs so mi i m w <;> rw [hx] at h <;> simp only [toEval] at h <;> cases h
          exact hp _ hx
        · intro c w' h
          cases hx : execAbs so mi i m w <;> rw [hx] at h <;> simp only [toEval] at h <;> cases h
          exact he _ _ hx
      · exact ⟨fun _ h => (by cases h), fun _ _ h => (by cases h)⟩

/-- **C15, session clause, proved in full.** -/
theorem eval_never_ends_session_holds : eval_never_ends_session :=
  eval_never_ends_session_partial C15Spec.execAbs_ends

/-- **The statement parser never panics** (proved below: `parseSimple_no_panic_holds`): for every
text, feature setting, symbol table and line counter, `parse_simple` returns a statement or a
diagnostic — no `unreachable!`, no slicing panic, no exhausted fuel (`length text + 1` lexer rounds
suffice).  C05 proves the same of the whole-program parser (`assemble_no_panic`); the statement
parser shares the lexer and `parse_instr`, but lets every directive token through, so the
invariant here is weaker than C05's `TokIn` (`Proofs/AsmSimple.lean`: `TokSimple`, and the primed
lemmas of `Proofs/AsmParse.lean`). -/
def parseSimple_no_panic : Prop :=
  ∀ (so : Bool) (tbl : SymTab) (line : Nat) (text : List Char) (site : String),
    parseSimple (some so) tbl line text ≠ .panic site

/-- `parseSimple_no_panic`, proved. -/
theorem parseSimple_no_panic_holds : parseSimple_no_panic := by
  intro so tbl line text site h
  have := parseSimple_ok so tbl line text
  rw [h] at this
  exact this

/-- … and a diagnostic of the statement parser always carries a label, which lies inside the text. -/
theorem parseSimple_diag_inside (so : Bool) (tbl : SymTab) (line : Nat) (text : List Char)
    (k : DiagKind) (sp : Option (Nat × Nat))
    (h : parseSimple (some so) tbl line text = .diag k sp) :
    ∃ o l, sp = some (o, l) ∧ o + l ≤ utf8Len text := by
  have := parseSimple_ok so tbl line text
  rw [h] at this
  cases sp with
  | none => exact this.elim
  | some p => exact ⟨p.1, p.2, rfl, this⟩

/-- With `parseSimple_no_panic_holds`, `eval` of ANY text never panics in the parser: it is a
refusal or the specification's verdict on a parsed statement. -/
theorem eval_text_total (so mi : Bool) (tbl : SymTab) (orig : Word) (m : Machine) (w : World)
    (text : List Char) :
    evalInner so mi tbl orig m w text = .refused evalMsg ∨
    ∃ stmt, parseSimple (some so) tbl ((evalLine orig m + 1) % 65536) text = .ok stmt ∧
      evalInner so mi tbl orig m w text =
        (if isRawWord stmt then .panic "unreachable: tried to simulate raw word"
         else evalSpec so mi (resolveIn tbl orig) m w stmt) := by
  rw [eval_text_eq_spec]
  cases hp : parseSimple (some so) tbl ((evalLine orig m + 1) % 65536) text with
  | diag k sp => exact Or.inl rfl
  | panic s => exact absurd hp (parseSimple_no_panic_holds so tbl _ text s)
  | ok stmt => exact Or.inr ⟨stmt, rfl, rfl⟩

/-! ### Non-vacuity -/

/-- the symbol table of the witness program of D17 (`val` is statement 5) -/
def tblEx : SymTab := [("val".toList, 5)]

example : (match parseSimple (some false) tblEx 3 "ld r3 val".toList with
    | .ok s => decide (s = .load 3#3 (.ref 5)) | _ => false) = true := by decide +kernel
example : (match parseSimple (some false) tblEx 1 "add r0 r0 r0 r0".toList with
    | .diag .unexpected (some (13, 2)) => true | _ => false) = true := by decide +kernel
example : offLimits (.trap 0x25#8) = some "DisallowedInstruction::Halt" := rfl
example : fitsAt 0x3002#16 (.ld 3#3 (addrOfLine 0x3000#16 5)) = true := by decide
example : fitsAt 0x3002#16 (.ld 3#3 (addrOfLine 0x3000#16 400)) = false := by decide
example : addrOfLine 0x3000#16 5 = 0x3004#16 := by decide
example : isJump (.jsr 0x3004#16) = true := rfl
example : isJump (.ld 1#3 0x3004#16) = false := rfl

end Lace.C15
