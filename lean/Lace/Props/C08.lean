/-
  C08 — compile is all-or-nothing; C07 — check, compile and run agree (in `Props/C07.lean`).

  `compile_all_or_nothing`: for every parse result, every pattern of per-statement emission
  failures (in particular a failure at any statement position k of n) and every kind of
  destination, `lace compile` either exits 0 with the destination holding exactly the complete
  object file, or exits non-zero with the destination as it was.

  PARTIAL BY NATURE (DESIGN.md §4 C08): a write that fails half-way on a *regular* file (disk
  full) is OS behaviour that this file-system model does not exhibit; the theorem covers
  assembly failure at every position, creation failure, and write failure on a destination
  whose contents a failed write does not alter (`/dev/full`).
-/
import Lace.Model.CliFlows
namespace Lace.C08
open Lace Cli

theorem emitAll_some_iff (emits : List (Option Word)) :
    (emitAll emits).isSome ↔ ∀ e ∈ emits, e.isSome := by
  induction emits with
  | nil => simp [emitAll]
  | cons e es ih =>
    cases e with
    | none => simp [emitAll]
    | some w => simp [emitAll, ih]

/-- A failure at statement `k` (any `k`) makes the whole emission fail. -/
theorem emitAll_fail_at (emits : List (Option Word)) (k : Nat) (hk : k < emits.length)
    (h : emits[k] = none) : emitAll emits = none := by
  have : ¬ (emitAll emits).isSome := by
    rw [emitAll_some_iff]; intro hall
    have := hall _ (List.getElem_mem hk); rw [h] at this; simp at this
  simpa using this

/-- **C08.** All-or-nothing, for every assembler outcome and every destination kind. -/
theorem compile_all_or_nothing (p : Parsed) (d : Dest) :
    let r := compile p d
    (r.1 = 0 → ∃ orig words, assembleOk p = some (orig, words) ∧
                 r.2 = .file (some (objBytes orig words))) ∧
    (r.1 ≠ 0 → r.2 = d) := by
  simp only [compile]
  cases hp : assembleOk p with
  | none => simp
  | some ow =>
    obtain ⟨orig, words⟩ := ow
    cases d with
    | file c =>
      simp [applyOp]
      exact ⟨orig, words, ⟨rfl, rfl⟩, rfl⟩
    | devFull =>
      have : (objBytes orig words).isEmpty = false := by
        simp [objBytes, be16]
      simp [applyOp, this]
    | uncreatable => simp [applyOp]

/-- Assembly failing at statement `k` leaves every destination untouched and exits non-zero. -/
theorem compile_fail_at (orig : Option Word) (emits : List (Option Word)) (k : Nat)
    (hk : k < emits.length) (h : emits[k] = none) (d : Dest) :
    compile (some (orig, emits)) d = (1, d) := by
  simp [compile, assembleOk, emitAll_fail_at emits k hk h]

/-- `/dev/full` and uncreatable destinations: non-zero exit, destination as it was. -/
theorem compile_unwritable (p : Parsed) (d : Dest) (hd : d = .devFull ∨ d = .uncreatable) :
    (compile p d).1 ≠ 0 ∧ (compile p d).2 = d := by
  have h := compile_all_or_nothing p d
  simp only at h
  by_cases h0 : (compile p d).1 = 0
  · obtain ⟨_, _, _, hf⟩ := h.1 h0
    have hne := h.2
    rcases hd with hd | hd <;> subst hd
    · simp only [compile] at hf h0
      cases hp : assembleOk p with
      | none => simp [hp] at h0
      | some ow =>
        have : (objBytes ow.1 ow.2).isEmpty = false := by simp [objBytes, be16]
        simp [hp, applyOp, this] at h0
    · simp only [compile] at h0
      cases hp : assembleOk p with
      | none => simp [hp] at h0
      | some ow => simp [hp, applyOp] at h0
  · exact ⟨h0, h.2 h0⟩

example : compile (some (none, [some 0xF025#16])) (.file (some [1, 2, 3])) =
    (0, .file (some [0x30, 0x00, 0xF0, 0x25])) := by decide
example : compile (some (none, [some 0x1021#16, none, some 0xF025#16])) (.file (some [1, 2, 3])) =
    (1, .file (some [1, 2, 3])) := by decide
example : compile (some (none, [some 0xF025#16])) .devFull = (1, .devFull) := by decide

end Lace.C08
