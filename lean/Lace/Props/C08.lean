/-
  C08 — compile is all-or-nothing; C07 — check, compile and run agree (in `Props/C07.lean`).

  `compile_all_or_nothing`: for every parse result, every pattern of per-statement emission
  failures (in particular a failure at any statement position k of n) and every kind of
  destination, `lace compile` either exits 0 with the destination holding exactly the complete
  object file, or exits non-zero with the destination as it was.

  The file-system model (`Model/CliFlows.lean`) has the destination, its temporary sibling and
  a fault parameter: a size limit at ANY byte count (a write that fails half-way on a regular
  file: RLIMIT_FSIZE, disk full) and a failing rename. `compile_all_or_nothing_faults` covers
  assembly failure at every position, creation failure, write failure at every byte position,
  rename failure, and `/dev/full`; it also shows that no temporary file is left behind.
  `in_place_truncates` states the defect the model exposed in the previous implementation
  (fixed in lace 18fb606): writing the destination in place leaves it truncated.
  What remains outside the model: a crash (power loss, SIGKILL) between two operations.
-/
import Lace.Model.CliFlows
namespace Lace.C08
open Lace Cli

theorem emitAll_some_iff (emits : List (Option Word)) :
    (emitAll emits).isSome ↔ ∀ e ∈ emits, e.isSome := by
  induction emits with
  | nil => simp [emitAll]
  | cons e es ih =>
    cases e with
    | none => simp [emitAll]
    | some w => simp [emitAll, ih]

/-- A failure at statement `k` (any `k`) makes the whole emission fail. -/
theorem emitAll_fail_at (emits : List (Option Word)) (k : Nat) (hk : k < emits.length)
    (h : emits[k] = none) : emitAll emits = none := by
  have : ¬ (emitAll emits).isSome := by
    rw [emitAll_some_iff]; intro hall
    have := hall _ (List.getElem_mem hk); rw [h] at this; simp at this
  simpa using this

theorem writeLimited_ok (f : Faults) (old bytes : List Nat) :
    (writeLimited f old bytes).2 = true → (writeLimited f old bytes).1 = old ++ bytes := by
  unfold writeLimited
  cases f.limit with
  | none => simp
  | some l => by_cases h : old.length + bytes.length ≤ l <;> simp [h]

/-- `write_all_or_nothing`: success means the destination holds exactly the bytes, failure means
it is as it was — under every fault; and the temporary sibling is gone either way. -/
theorem writeAllOrNothing_spec (f : Faults) (s : Fs) (bytes : List Nat) (hne : bytes ≠ []) :
    let r := writeAllOrNothing f s bytes
    (r.2 = true → r.1.dest = .file (some bytes)) ∧ (r.2 = false → r.1.dest = s.dest) ∧
    (s.tmp = none → r.1.tmp = none) := by
  have hemp : bytes.isEmpty = false := by cases bytes <;> simp_all
  obtain ⟨d, t⟩ := s
  cases d with
  | devFull => simp [writeAllOrNothing, applyOps, applyOp, hemp]
  | uncreatable => simp [writeAllOrNothing, applyOps, applyOp]
  | file c =>
    have hw := writeLimited_ok f [] bytes
    rcases hwl : writeLimited f [] bytes with ⟨b, ok⟩
    rw [hwl] at hw
    cases ok with
    | false => simp [writeAllOrNothing, applyOps, applyOp, hwl]
    | true =>
      have hb : b = bytes := by simpa using hw
      subst hb
      cases hr : f.renameFails <;> simp [writeAllOrNothing, applyOps, applyOp, hwl, hr]

/-- **C08**, with faults. For every assembler outcome, every destination kind, every size limit
(a write failing after any number of bytes) and a failing rename: exit 0 with the destination
holding exactly the complete object file, or exit non-zero with the destination as it was; no
temporary file is left behind. -/
theorem compile_all_or_nothing_faults (f : Faults) (p : Parsed) (s : Fs) :
    let r := compileFs f p s
    (r.1 = 0 → ∃ orig words, assembleOk p = some (orig, words) ∧
                 r.2.dest = .file (some (objBytes orig words))) ∧
    (r.1 ≠ 0 → r.2.dest = s.dest) ∧
    (s.tmp = none → r.2.tmp = none) := by
  simp only [compileFs]
  cases hp : assembleOk p with
  | none => simp
  | some ow =>
    obtain ⟨orig, words⟩ := ow
    have hne : objBytes orig words ≠ [] := by simp [objBytes, be16]
    have h := writeAllOrNothing_spec f s (objBytes orig words) hne
    simp only at h
    dsimp only
    generalize writeAllOrNothing f s (objBytes orig words) = r at h ⊢
    obtain ⟨s1, ok⟩ := r
    cases ok with
    | true => exact ⟨fun _ => ⟨orig, words, rfl, h.1 rfl⟩, fun hc => absurd rfl hc, h.2.2⟩
    | false => exact ⟨fun hc => by simp at hc, fun _ => h.2.1 rfl, h.2.2⟩

/-- **C08.** All-or-nothing, for every assembler outcome and every destination kind. -/
theorem compile_all_or_nothing (p : Parsed) (d : Dest) :
    let r := compile p d
    (r.1 = 0 → ∃ orig words, assembleOk p = some (orig, words) ∧
                 r.2 = .file (some (objBytes orig words))) ∧
    (r.1 ≠ 0 → r.2 = d) := by
  have h := compile_all_or_nothing_faults {} p { dest := d }
  simp only [compile]
  exact ⟨h.1, h.2.1⟩

/-- The destination cannot hold the complete object file (size limit `l` smaller than it, at ANY
byte position): non-zero exit, destination as it was, nothing left behind. -/
theorem compile_write_fails_at (f : Faults) (orig : Option Word) (words : List Word) (p : Parsed)
    (c : Option (List Nat)) (l : Nat) (hp : assembleOk p = some (orig, words)) (hl : f.limit = some l)
    (hlt : l < (objBytes orig words).length) :
    compileFs f p { dest := .file c } = (1, { dest := .file c }) := by
  simp [compileFs, hp, writeAllOrNothing, applyOps, applyOp, writeLimited, hl, Nat.not_le.mpr hlt]

/-- The defect of the previous implementation, as the model shows it: writing the destination in
place under a size limit exits non-zero with the destination truncated (here: emptied). -/
theorem in_place_truncates :
    compileInPlace { limit := some 0 } (some (none, [some 0xF025#16])) { dest := .file (some [1, 2, 3]) }
      = (1, { dest := .file (some []) }) := by decide

/-- Assembly failing at statement `k` (any `k`) leaves every destination untouched and exits non-zero. -/
theorem compile_fail_at (orig : Option Word) (emits : List (Option Word)) (k : Nat)
    (hk : k < emits.length) (h : emits[k] = none) (d : Dest) :
    compile (some (orig, emits)) d = (1, d) := by
  simp [compile, compileFs, assembleOk, emitAll_fail_at emits k hk h]

/-- `/dev/full` and uncreatable destinations: non-zero exit, destination as it was. -/
theorem compile_unwritable (p : Parsed) (d : Dest) (hd : d = .devFull ∨ d = .uncreatable) :
    (compile p d).1 ≠ 0 ∧ (compile p d).2 = d := by
  have h := compile_all_or_nothing p d
  simp only at h
  by_cases h0 : (compile p d).1 = 0
  · obtain ⟨_, _, _, hf⟩ := h.1 h0
    rcases hd with hd | hd <;> subst hd
    · simp only [compile, compileFs] at hf h0
      cases hp : assembleOk p with
      | none => simp [hp] at h0
      | some ow =>
        have : (objBytes ow.1 ow.2).isEmpty = false := by simp [objBytes, be16]
        simp [hp, writeAllOrNothing, applyOps, applyOp, this] at h0
    · simp only [compile, compileFs] at h0
      cases hp : assembleOk p with
      | none => simp [hp] at h0
      | some ow => simp [hp, writeAllOrNothing, applyOps, applyOp] at h0
  · exact ⟨h0, h.2 h0⟩

example : compile (some (none, [some 0xF025#16])) (.file (some [1, 2, 3])) =
    (0, .file (some [0x30, 0x00, 0xF0, 0x25])) := by decide
example : compile (some (none, [some 0x1021#16, none, some 0xF025#16])) (.file (some [1, 2, 3])) =
    (1, .file (some [1, 2, 3])) := by decide
example : compile (some (none, [some 0xF025#16])) .devFull = (1, .devFull) := by decide
-- a write failing after 3 of 4 bytes: destination untouched, no temporary file left
example : compileFs { limit := some 3 } (some (none, [some 0xF025#16])) { dest := .file (some [1, 2, 3]) } =
    (1, { dest := .file (some [1, 2, 3]), tmp := none }) := by decide
example : compileFs { renameFails := true } (some (none, [some 0xF025#16])) { dest := .file none } =
    (1, { dest := .file none, tmp := none }) := by decide

end Lace.C08
