/-
  C03 — the step budget of the run model is only a budget.

  `Run.loop` takes one unit of fuel per iteration of `RunEnvironment::run`'s `loop { … }`, which in
  the Rust code has no bound.  The theorems below show that the budget never influences what a run
  does: once a run of `n` steps has stopped for a reason of its own (PC = xFFFF, a PC outside
  [origin, xFE00), an exit or a panic inside an instruction), every larger budget gives the very
  same result, and two budgets that both suffice agree.  So every C03 theorem stated "for every
  fuel" speaks about the one unbounded run of the implementation.

  * `loop_fuel_mono`   : `loop n` stopped by itself  →  `loop (n + k) = loop n`.
  * `loop_fuel_agree`  : two budgets that both suffice give the same result.
  * `fetches_fuel_mono`: the fetch trace of a run that stopped by itself is final too.
  * `ref_run_fuel_mono`: the same for the reference machine's run (through `run_eq_ref`).
  * `loop_fuel_split`  : a run still going after `a` steps, continued for `b` steps from where it
                         is, is the run of `a + b` steps — the budget cuts the one run, nothing else.
-/
import Lace.Props.C03
namespace Lace.C03
open Lace Run

/-- The run stopped for a reason of its own, not because the budget ran out. -/
def Stopped : RunResult → Prop
  | .fuel _ _ => False
  | _ => True

theorem loop_fuel_mono (so mi : Bool) (k : Nat) : ∀ (n : Nat) (m : Machine) (w : World),
    Stopped (loop so mi n m w) → loop so mi (n + k) m w = loop so mi n m w := by
  intro n
  induction n with
  | zero => intro m w h; simp [loop, Stopped] at h
  | succ n ih =>
    intro m w h
    rw [show n + 1 + k = (n + k) + 1 by omega]
    simp only [loop] at h ⊢
    by_cases hpc : (m.pc == 0xFFFF#16) = true
    · simp [hpc]
    · simp only [hpc] at h ⊢
      cases hb : checkPcBounds m <;> simp only [hb] at h ⊢
      by_cases ho : m.pc.toNat + 1 ≥ 65536
      · simp [ho]
      · simp only [ho] at h ⊢
        cases he : VM.execute so mi (m.read m.pc) (m.setPC (m.pc + 1)) w <;>
          simp only [he] at h ⊢
        · simpa using ih _ _ (by simpa using h)

theorem loop_fuel_agree (so mi : Bool) (n₁ n₂ : Nat) (m : Machine) (w : World)
    (h₁ : Stopped (loop so mi n₁ m w)) (h₂ : Stopped (loop so mi n₂ m w)) :
    loop so mi n₁ m w = loop so mi n₂ m w := by
  rcases Nat.le_total n₁ n₂ with h | h
  · obtain ⟨k, rfl⟩ := Nat.exists_eq_add_of_le h
    exact (loop_fuel_mono so mi k n₁ m w h₁).symm
  · obtain ⟨k, rfl⟩ := Nat.exists_eq_add_of_le h
    exact loop_fuel_mono so mi k n₂ m w h₂

theorem fetches_fuel_mono (so mi : Bool) (k : Nat) : ∀ (n : Nat) (m : Machine) (w : World),
    Stopped (loop so mi n m w) → fetches so mi (n + k) m w = fetches so mi n m w := by
  intro n
  induction n with
  | zero => intro m w h; simp [loop, Stopped] at h
  | succ n ih =>
    intro m w h
    rw [show n + 1 + k = (n + k) + 1 by omega]
    simp only [loop] at h
    simp only [fetches]
    by_cases hpc : (m.pc == 0xFFFF#16) = true
    · simp [hpc]
    · simp only [hpc] at h ⊢
      cases hb : checkPcBounds m <;> simp only [hb] at h ⊢
      by_cases ho : m.pc.toNat + 1 ≥ 65536
      · simp [ho]
      · simp only [ho] at h ⊢
        cases he : VM.execute so mi (m.read m.pc) (m.setPC (m.pc + 1)) w <;>
          simp only [he] at h ⊢
        · simpa using ih _ _ (by simpa using h)

/-- The reference machine's run stopped for a reason of its own. -/
def RefStopped : Ref.RunResult → Prop
  | .fuel _ _ => False
  | _ => True

theorem stopped_toRef (r : RunResult) : RefStopped (toRef r) ↔ Stopped r := by
  cases r <;> simp [toRef, RefStopped, Stopped]

/-- The reference run (Lace/Spec/RefRun.lean) does not depend on its step bound either. -/
theorem ref_run_fuel_mono (so mi : Bool) (k n : Nat) (m : Machine) (w : World)
    (h : RefStopped (Ref.run so mi n m w)) :
    Ref.run so mi (n + k) m w = Ref.run so mi n m w := by
  rw [← run_eq_ref, ← run_eq_ref] at *
  rw [loop_fuel_mono so mi k n m w ((stopped_toRef _).1 h)]

theorem loop_fuel_split (so mi : Bool) (b : Nat) : ∀ (a : Nat) (m : Machine) (w : World)
    (m' : Machine) (w' : World), loop so mi a m w = .fuel m' w' →
    loop so mi (a + b) m w = loop so mi b m' w' := by
  intro a
  induction a with
  | zero => intro m w m' w' h; simp only [loop, RunResult.fuel.injEq] at h; simp [h.1, h.2]
  | succ a ih =>
    intro m w m' w' h
    rw [show a + 1 + b = (a + b) + 1 by omega]
    simp only [loop] at h ⊢
    by_cases hpc : (m.pc == 0xFFFF#16) = true
    · simp [hpc] at h
    · simp only [hpc] at h ⊢
      cases hb : checkPcBounds m with
      | lt => simp [hb] at h
      | gt => simp [hb] at h
      | eq =>
        simp only [hb] at h ⊢
        by_cases ho : m.pc.toNat + 1 ≥ 65536
        · simp [ho] at h
        · simp only [ho] at h ⊢
          cases he : VM.execute so mi (m.read m.pc) (m.setPC (m.pc + 1)) w with
          | ok m1 w1 =>
            simp only [he] at h ⊢
            simpa using ih _ _ _ _ (by simpa using h)
          | exit c w1 => simp only [he] at h; exact absurd h (by simp)
          | panic s => simp only [he] at h; exact absurd h (by simp)

theorem toRef_fuel {r : RunResult} {m : Machine} {w : World} (h : toRef r = .fuel m w) :
    r = .fuel m w := by
  cases r <;> simp_all [toRef]

/-- The reference run is the iteration of its instruction cycle: cutting it after `a` cycles and
continuing for `b` is running `a + b` cycles. -/
theorem ref_run_fuel_split (so mi : Bool) (a b : Nat) (m : Machine) (w : World) (m' : Machine)
    (w' : World) (h : Ref.run so mi a m w = .fuel m' w') :
    Ref.run so mi (a + b) m w = Ref.run so mi b m' w' := by
  rw [← run_eq_ref] at h
  rw [← run_eq_ref, ← run_eq_ref, loop_fuel_split so mi b a m w m' w' (toRef_fuel h)]

/-- Non-vacuity: a machine whose PC is xFFFF stops at once, with any budget. -/
example (so mi : Bool) (m : Machine) (w : World) (h : m.pc = 0xFFFF#16) (n : Nat) :
    Stopped (loop so mi (n + 1) m w) := by
  unfold loop; simp [h, Stopped]

end Lace.C03
