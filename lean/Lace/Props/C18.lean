/-
  C18 — The stack extension is gated by its feature flag, and only it.

  Assembler side (the first five are in `Props/C18Asm.lean`, same namespace):
  * `flag_dichotomy`, `flag_off_rejects`, `flag_off_diag_inside`, `flag_irrelevant_asm`
  * `flag_irrelevant_text`   — the statement `flag_irrelevant_of_no_stack_token`, now PROVED: a text
                               in whose (flag-on) token stream none of push / pop / call / rets occurs —
                               in any letter case, in instruction or label position; comments and
                               strings are not identifier tokens — assembles to the same image /
                               diagnostic, spans, breakpoints and symbol table under both settings.
  * `flag_off_rejects_iff`   — for a text the flag-on lexer accepts, the flag-off assembler answers
                               with the stack diagnostic exactly when the token stream contains one
                               of the four mnemonics.
  VM side:
  * `flag_irrelevant_vm`     — `execute` ignores the flag for every word whose opcode is not 0xD.
  * `flag_off_opD_exit1`     — flag off: an opcode-0xD word stops the machine with exit status 1,
                               nothing executed (machine and world as they were).
  * `flag_on_executes`       — flag on: an opcode-0xD word performs CALL / RETS / PUSH / POP as the
                               ISA specification prescribes and the machine goes on.
  * `flag_irrelevant_run`    — whole runs: if the flag-off run never fetches an opcode-0xD word (as
                               memory is at fetch time), the flag-on run is the same run: same result,
                               same fetch addresses, same fetched words.
  * `flag_off_run_opD_exit1` — if it does fetch one, it ends there with exit status 1.
  * `flag_on_run_eq_ref`     — and with the flag on the run is the reference machine's (C03).
  Command line:
  * `features_from_str_spec` — `Features::from_str` (the `-f` value parser) accepts exactly the
                               comma-separated lists of words from {"", "stack"} with at most one
                               "stack", and the flag it returns is "stack occurs".
  * `features_from_str_err`  — what the two error results mean.
  * `split_comma_spec`       — `split(',')`: no piece contains a comma, joining them gives the text back.
  * `flag_irrelevant_cli`    — the last sentence of the property at the command line: for a source
                               without the four mnemonics whose (flag-off) run never fetches an
                               opcode-0xD word, `lace check|compile|run` with `-f stack` is the same
                               process as without the option: exit status, stdout, image written.
  * `flag_position_irrelevant` — `-f v` before the subcommand = `-f v` after it (after the fix).
  * `flag_off_cli_rejects`   — and a source with one of them is refused by all three commands
                               without the option: status 1, nothing written, stderr names the feature.
-/
import Lace.Props.C18Asm
import Lace.Props.C02
import Lace.Props.C03
import Lace.Proofs.AsmFlagTok
import Lace.Proofs.RunFlag
import Lace.Proofs.FeaturesSpec
import Lace.Proofs.CliFlagLemmas
namespace Lace.C18
open Lace Lace.Asm

/-! ### Assembler -/

/-- **`flag_irrelevant_of_no_stack_token`, proved.**  A text whose token stream (as lace's lexer
produces it with the flag on) contains none of the four mnemonics assembles identically under both
settings of the flag. -/
theorem flag_irrelevant_text : flag_irrelevant_of_no_stack_token := by
  intro tbl src toks hon hns
  rcases preprocess_rel2 src with h | ⟨_, h⟩
  · unfold assemble assembleWith parse
    rw [h]
  · obtain ⟨t, ht, hst⟩ := h toks hon
    rw [hns t ht] at hst
    exact Bool.noConfusion hst

/-- For a text the flag-on lexer accepts: the flag-off lexer raises the stack diagnostic exactly
when one of the four mnemonics occurs in the token stream.  (Then the assembler's answer is that
diagnostic: `flag_off_rejects`; otherwise it is the flag-on answer: `flag_irrelevant_text`.) -/
theorem flag_off_rejects_iff (src : List Char) (toks : List Token)
    (hon : preprocess (some true) src = .ok toks) :
    (∃ sp, preprocess (some false) src = .diag .lexStack sp) ↔ ∃ t ∈ toks, t.kind.isStack = true := by
  constructor
  · rintro ⟨sp, h⟩
    rcases preprocess_rel2 src with he | ⟨_, hs⟩
    · rw [he, hon] at h; cases h
    · exact hs toks hon
  · rintro ⟨t, ht, hst⟩
    rcases preprocessLoop_rel (src.length + 1) 0 src [] with he | h
    · have hoff : preprocess (some false) src = .ok toks := by
        unfold preprocess at hon ⊢; rw [he]; exact hon
      rw [preprocess_off_no_stack hoff t ht] at hst
      exact Bool.noConfusion hst
    · exact h

/-! Non-vacuity (kernel-evaluated): mnemonics inside a comment or a string are not tokens; in
label position and in any letter case they are. -/
example : assemble true [] "add r0 r0 #1 ; push pop call rets".toList =
    assemble false [] "add r0 r0 #1 ; push pop call rets".toList := by decide
example : (assemble true [] ".stringz \"push\"".toList).1 = (assemble false [] ".stringz \"push\"".toList).1 := by
  decide +kernel
example : (assemble true [] "pushy halt\nbr pushy".toList).1 = (assemble false [] "pushy halt\nbr pushy".toList).1 := by
  decide
example : ∃ t ∈ (match preprocess (some true) "lea r0 PoP".toList with | .ok toks => toks | _ => []),
    t.kind.isStack = true := by decide
example : (assemble false [] "lea r0 PoP".toList).1 = .diag .lexStack (some (7, 3)) := by decide
example : (assemble false [] "rets .fill x1".toList).1 = .diag .lexStack (some (0, 4)) := by decide

/-! ### Virtual machine -/

/-- `RunState::execute` reads the flag only under opcode 0xD: for every other instruction word,
every machine state and every input the two settings execute identically. -/
theorem flag_irrelevant_vm (mi : Bool) (w : Word) (m : Machine) (wd : World)
    (h : (w.extractLsb' 12 4).toNat ≠ 13) :
    VM.execute true mi w m wd = VM.execute false mi w m wd :=
  Run.execute_flag_irrelevant mi w m wd h

/-- Flag off: an opcode-0xD word is not executed; the VM stops with exit status 1 and neither
the machine nor the console has changed. -/
theorem flag_off_opD_exit1 (mi : Bool) (w : Word) (m : Machine) (wd : World)
    (h : (w.extractLsb' 12 4).toNat = 13) : VM.execute false mi w m wd = .exit 1 wd :=
  C02.stack_off_stops mi w m wd h

/-- What an opcode-0xD word does according to the ISA specification (bit 11: CALL / RETS versus
PUSH / POP; bit 10: CALL, PUSH versus RETS, POP). -/
def stackStep (w : Word) (m : Machine) : Machine :=
  if w.getLsbD 11 then
    if w.getLsbD 10 then (ISA.pushWord m m.pc).setPC (m.pc + ISA.sext (w.extractLsb' 0 10))
    else (ISA.popWord m).2.setPC (ISA.popWord m).1
  else
    if w.getLsbD 10 then ISA.pushWord m (m.getReg (w.extractLsb' 6 3))
    else (ISA.popWord m).2.setReg (w.extractLsb' 6 3) (ISA.popWord m).1

/-- Flag on: an opcode-0xD word executes as the ISA prescribes, and the machine goes on. -/
theorem flag_on_executes (mi : Bool) (w : Word) (m : Machine) (wd : World)
    (h : (w.extractLsb' 12 4).toNat = 13) :
    VM.execute true mi w m wd = .ok (stackStep w m) wd := by
  rw [C02.execute_eq_isa]; unfold ISA.decode stackStep; rw [h]
  simp only
  cases w.getLsbD 11 <;> cases w.getLsbD 10 <;> simp [ISA.exec]

/-- … so the two settings differ on *every* opcode-0xD word. -/
theorem flag_matters_on_opD (mi : Bool) (w : Word) (m : Machine) (wd : World)
    (h : (w.extractLsb' 12 4).toNat = 13) :
    VM.execute true mi w m wd ≠ VM.execute false mi w m wd := by
  rw [flag_on_executes mi w m wd h, flag_off_opD_exit1 mi w m wd h]
  intro hc; cases hc

/-- **Whole runs.**  If the run with the flag OFF never fetches an opcode-0xD word (the words are
taken from memory as it is at fetch time, so self-modifying programs are covered), the run with
the flag ON is the same run: same result (final machine, console, exit status or step budget),
same fetch addresses, same fetched words — for every step budget, machine and input. -/
theorem flag_irrelevant_run (mi : Bool) (n : Nat) (m : Machine) (w : World)
    (h : ∀ x ∈ Run.fetchedWords false mi n m w, (x.extractLsb' 12 4).toNat ≠ 13) :
    Run.loop true mi n m w = Run.loop false mi n m w ∧
    Run.fetches true mi n m w = Run.fetches false mi n m w ∧
    Run.fetchedWords true mi n m w = Run.fetchedWords false mi n m w :=
  Run.loop_flag_irrelevant mi n m w h

/-- If the flag-off run does fetch an opcode-0xD word, it ends with exit status 1. -/
theorem flag_off_run_opD_exit1 (mi : Bool) (n : Nat) (m : Machine) (w : World) (x : Word)
    (hx : x ∈ Run.fetchedWords false mi n m w) (hd : (x.extractLsb' 12 4).toNat = 13) :
    ∃ m' w', Run.loop false mi n m w = .exit 1 m' w' :=
  Run.loop_off_opD mi n m w x hx hd

/-- With the flag on, a run is the reference machine's run, stack instructions included (C03). -/
theorem flag_on_run_eq_ref (mi : Bool) (n : Nat) (m : Machine) (w : World) :
    C03.toRef (Run.loop true mi n m w) = Ref.run true mi n m w :=
  C03.run_eq_ref true mi n m w

/-- `fetchedWords` is the list of words behind `Run.fetches` (one per fetch). -/
theorem fetched_words_per_fetch (so mi : Bool) (n : Nat) (m : Machine) (w : World) :
    (Run.fetchedWords so mi n m w).length = (Run.fetches so mi n m w).length :=
  Run.fetchedWords_length so mi n m w

/-! Non-vacuity. -/
example : ((0x1021#16 : Word).extractLsb' 12 4).toNat ≠ 13 := by decide
example : ((0xD440#16 : Word).extractLsb' 12 4).toNat = 13 := by decide
example : ISA.decode 0xD440#16 = .push 1 ∧ ISA.decode 0xD040#16 = .pop 1 ∧
    ISA.decode 0xDC05#16 = .call 5 ∧ ISA.decode 0xD800#16 = .rets := by decide

/-! ### `-f` / `--features` value parser -/
open Lace.Features in
/-- **`Features::from_str`.**  With `ws` the comma-separated words of the value: the result is
`Ok` exactly when every word is `""` or `"stack"` and `"stack"` occurs at most once; the flag it
then carries is "`stack` occurs among the words". -/
theorem features_from_str_spec (s : List Char) (b : Bool) :
    fromStr s = .ok b ↔
      ((∀ w ∈ splitComma s, w = [] ∨ w = stackWord) ∧ (splitComma s).count stackWord ≤ 1 ∧
        b = decide (stackWord ∈ splitComma s)) := by
  unfold fromStr
  rw [loop_ok_iff]
  simp [AllKnown]

open Lace.Features in
/-- The error results: `Unknown feature 'x'` names a word of the value that is neither empty nor
`stack`; `Cannot specify feature 'x' twice` is only ever said of `stack`, and only when it occurs
at least twice. -/
theorem features_from_str_err (s : List Char) (x : List Char) :
    (fromStr s = .error (.unknown x) → x ∈ splitComma s ∧ x ≠ [] ∧ x ≠ stackWord) ∧
    (fromStr s = .error (.twice x) → x = stackWord ∧ 2 ≤ (splitComma s).count stackWord) := by
  unfold fromStr
  exact ⟨loop_unknown _ _ _, fun h => by simpa using loop_twice _ _ _ h⟩

open Lace.Features in
/-- `split(',')`: the pieces contain no comma and, joined by commas, give the value back. -/
theorem split_comma_spec (s : List Char) :
    (∀ w ∈ splitComma s, ',' ∉ w) ∧ [','].intercalate (splitComma s) = s :=
  ⟨splitComma_no_comma s, splitComma_join s⟩

/-! Non-vacuity: the five command-line spellings the correspondence check uses. -/
open Lace.Features in
example : fromStr "stack".toList = .ok true ∧ fromStr [] = .ok false ∧
    fromStr ",stack,".toList = .ok true ∧ fromStr ",,".toList = .ok false ∧
    fromStr "stack,stack".toList = .error (.twice stackWord) ∧
    fromStr "foo".toList = .error (.unknown "foo".toList) ∧
    fromStr "Stack".toList = .error (.unknown "Stack".toList) ∧
    fromStr "stack, stack".toList = .error (.unknown " stack".toList) :=
  ⟨rfl, rfl, rfl, rfl, rfl, rfl, rfl, rfl⟩

/-! ### The three commands -/
open Lace.Cli in
/-- **The flag changes neither the image nor the behaviour** of a program that uses none of the
four mnemonics and never executes opcode 0xD — for the `lace` process as a whole: `check`,
`compile` and `run --minimal` with `-f stack` give the same exit status, the same stdout and the
same destination bytes as without the option. -/
theorem flag_irrelevant_cli (cmd : FlagCmd) (fuel : Nat) (name dest src : List Char) (inp : List Nat)
    (toks : List Token) (hon : preprocess (some true) src = .ok toks)
    (hns : ∀ t ∈ toks, t.kind.isStack = false)
    (hrun : ∀ img m, (assemble false [] src).1 = .ok img →
      Run.fromRaw (img.orig.getD 0x3000#16 :: img.words) = .ok m →
      ∀ x ∈ Run.fetchedWords false true fuel m (runWorld name inp), (x.extractLsb' 12 4).toNat ≠ 13) :
    laceFlag cmd .absent (.given Features.stackWord) fuel name dest src inp =
      laceFlag cmd .absent .absent fuel name dest src inp := by
  unfold laceFlag
  rw [featuresOf_stack, featuresOf_absent]
  simp only []
  rw [flag_irrelevant_text [] src toks hon hns]
  cases cmd with
  | check => rfl
  | compile => rfl
  | run =>
    simp only []
    cases hA : (assemble false [] src).1 with
    | panic s => rfl
    | diag k sp => rfl
    | ok img =>
      simp only []
      cases hL : Run.fromRaw (img.orig.getD 0x3000#16 :: img.words) with
      | exit c => unfold runAssembled; simp only [hL]
      | panic s => unfold runAssembled; simp only [hL]
      | ok m =>
        have hno := hrun img m hA hL
        obtain ⟨h1, _, _⟩ := flag_irrelevant_run true fuel m (runWorld name inp) hno
        rw [runAssembled_eq true true fuel name img.orig img.words inp m hL,
          runAssembled_eq false true fuel name img.orig img.words inp m hL, h1]
        simp only [Bool.not_true, Bool.false_and, Bool.and_false, Bool.not_false, lastIsOpD_false hno]

open Lace.Cli in
/-- Without the option, a source in which the lexer finds one of the four mnemonics is refused
by `check`, `compile` and `run` alike: exit status 1, only the first status line on stdout, no
image written, and the text on stderr names the feature. -/
theorem flag_off_cli_rejects (cmd : FlagCmd) (fuel : Nat) (name dest src : List Char) (inp : List Nat)
    (toks : List Token) (hon : preprocess (some true) src = .ok toks)
    (hst : ∃ t ∈ toks, t.kind.isStack = true) :
    ∃ out, laceFlag cmd .absent .absent fuel name dest src inp =
      .finished { status := 1, out := out, image := none, named := true } := by
  obtain ⟨sp, h⟩ := flag_off_rejects [] src toks hon hst
  unfold laceFlag
  rw [featuresOf_absent]
  simp only [h]
  cases cmd <;> exact ⟨_, rfl⟩

open Lace.Cli in
/-- `-f v` means the same before the subcommand (`lace -f stack run x.asm`) as after it
(`lace run x.asm -f stack`).  (False for the unchanged code: the top-level option was parsed and
then dropped whenever a subcommand followed — KNOWN_FINDINGS, fixed.) -/
theorem flag_position_irrelevant (cmd : FlagCmd) (v : List Char) (fuel : Nat) (name dest src : List Char)
    (inp : List Nat) :
    laceFlag cmd (.given v) .absent fuel name dest src inp =
      laceFlag cmd .absent (.given v) fuel name dest src inp := by
  unfold laceFlag
  rw [featuresOf2_comm]

/-! Non-vacuity: the hypotheses of `flag_irrelevant_cli` hold for `ret ; pushy` (which does not
assemble: the run hypothesis is void) — and token streams without the mnemonics exist. -/
open Lace.Cli in
example : laceFlag .check .absent (.given Features.stackWord) 100 "f.asm".toList "o".toList "br pushy".toList [] =
    laceFlag .check .absent .absent 100 "f.asm".toList "o".toList "br pushy".toList [] := by
  have hd : (assemble false [] "br pushy".toList).1 = .diag .labelNotFound none := by decide
  refine flag_irrelevant_cli _ _ _ _ _ _
    (match preprocess (some true) "br pushy".toList with | .ok t => t | _ => []) rfl (by decide) ?_
  intro img m hA
  rw [hd] at hA
  cases hA
example : ∃ toks, preprocess (some true) "halt".toList = .ok toks ∧ ∀ t ∈ toks, t.kind.isStack = false :=
  ⟨_, rfl, by decide⟩

end Lace.C18
