/-
  C10, non-vacuity of the refinement theorems of `Props/C10Ref.lean`: a program with a subroutine
  calling a subroutine, a breakpoint inside each, script `step; continue; step out; exit`,
  evaluated in the kernel on the model AND on the reference (`decide +kernel`; each evaluation walks
  a 65,536-word memory).
-/
import Lace.Props.C10Ref
namespace Lace.C10
open Lace Lace.Dbg Lace.Cmd Lace.DbgProofs Lace.RefDebug Lace.RefDebugProofs

namespace RefDemo

/-- ```
    x3000  JSR f        x3003 f: ADD R1,R1,#1      x3007 g: ADD R2,R2,#1
    x3001  ADD R0,R0,#1 x3004    ADD R1,R1,#1 (bp) x3008    ADD R2,R2,#1 (bp)
    x3002  HALT         x3005    JSR g             x3009    RET
                        x3006    RET
    ``` -/
def m0 : Machine :=
  { mem := ((((((((((Vector.replicate 65536 0#16).set 0x3000 0x4802#16).set 0x3001 0x1021#16).set
      0x3002 0xF025#16).set 0x3003 0x1261#16).set 0x3004 0x1261#16).set 0x3005 0x4801#16).set
      0x3006 0xC1C0#16).set 0x3007 0x14A1#16).set 0x3008 0x14A1#16).set 0x3009 0xC1C0#16
    reg := Vector.replicate 8 0#16
    pc := 0x3000#16
    cc := .none
    orig := 0x3000#16 }

def env0 : Env :=
  { stackOn := true, minimal := true, symtab := [], stmtText := fun _ => none, stmtCount := 10,
    eval := fun _ _ _ => .refused [] }

def w0 : World := { inp := [], outRev := [] }

def script : List Command := [.stepOver, .continue_, .stepOut]

/-- what is compared below: (instructions executed, PC shown) at every command read -/
def view (l : List Entry) : List (Nat × Word) := l.map fun e => (e.executed, e.m.pc)

end RefDemo

open RefDemo in
/-- The script is in C10's alphabet. -/
example : ∀ x ∈ script, InAlphabet x = true := by decide

open RefDemo in
/-- The model session: `step` on the JSR runs into the breakpoint inside `f` after 2 instructions
(earlier than the return address); `continue` executes the breakpointed instruction (I6) and runs
into the breakpoint inside `g` (5); `step out` executes up to and including `g`'s RET (7) and
pauses at x3006; `exit`. -/
example : view (runObs env0 12 (session m0 [4#16, 8#16] script m0 w0)).2.reverse =
      [(0, 0x3000#16), (2, 0x3004#16), (5, 0x3008#16), (7, 0x3006#16)] ∧
    isFuel (runObs env0 12 (session m0 [4#16, 8#16] script m0 w0)).1 = false := by decide +kernel

open RefDemo in
/-- The reference on the same session: the same log, ended by `exit` after 7 instructions. -/
example : view (refSession env0 12 m0 [4#16, 8#16] script m0 w0).log =
      [(0, 0x3000#16), (2, 0x3004#16), (5, 0x3008#16), (7, 0x3006#16)] ∧
    (refSession env0 12 m0 [4#16, 8#16] script m0 w0).executed = 7 ∧
    (match (refSession env0 12 m0 [4#16, 8#16] script m0 w0).final with
     | .exited m _ => m.pc == 0x3006#16
     | _ => false) = true := by decide +kernel

open RefDemo in
/-- With too little fuel the reference reports the command that is still running
(`reference_fuel_refines_stepping` is not vacuous): `continue` needs 3 instructions. -/
example : (match (refSession env0 2 m0 [4#16, 8#16] script m0 w0).final with
     | .fuel m _ => m.pc == 0x3007#16
     | _ => false) = true ∧
    (refSession env0 2 m0 [4#16, 8#16] script m0 w0).executed = 4 := by decide +kernel

end Lace.C10
