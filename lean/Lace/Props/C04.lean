/-
  C04 — The assembler accepts exactly the programs whose operands fit.

  PROVED (model level, every text / flag / symbol table):

  * `lit_range_iff`, `expectLit_lit` (`Proofs/AsmRange.lean`): the parser's range check accepts a
    literal iff its 16-bit word fits the field — signed two's-complement range for imm5, offset6
    and the literal PC offsets (9 / 10 / 11 bits), `[0, 2^n)` for the trap vector (8) and `.orig`
    (16) — and an accepted literal is passed on unchanged;
  * `emit_ok_iff_fits_holds` (stage 1): a resolved statement is emitted iff `Spec.encode` is
    defined, i.e. iff its PC-relative distance fits its 9- / 10- / 11-bit field;
  * `accept_iff_fits`: once the text has parsed and every label is defined, `assemble` returns an
    image iff **every** statement fits, and the "offset too large" diagnostic otherwise;
  * `no_truncation`: an image, when returned, consists of the ISA encodings of the statements —
    an out-of-range value is never truncated, wrapped or spilled into a neighbouring field;
  * `reject_is_diag`: whatever is not accepted is answered with a diagnostic, never a panic;
  * `dup_label_rejected`, `undefined_label_rejected`, `second_orig_rejected`.

  PROVED (text level, `Spec.render`, every flag / program in the domain / layout in `Layout.ok`):

  * `accept_render_image`: if the assembler returns an image for a layout of an abstract program `P`
    (operands arbitrary 16-bit words, labels possibly undefined / defined twice, any number of
    `.orig`, stack statements, any size), then `P.image flag` is defined and is that image — i.e.
    a program with an operand that does not fit, an undefined or duplicate label, a second `.orig`,
    a label distance out of range, a stack mnemonic with the flag off, or more than 65,535 words is
    **rejected**.  Proof: `Proofs/ParseReject.lean` (`parse_items_inv`, the inversion twin of
    `parse_tokens_image`: whatever `parseLoop` accepts over the token stream of `P` is well formed,
    and `finishAll` of the parsed lines equals `Spec.wordsFrom` as an *option*), `preprocess_render`
    for the token stream, `Proofs/AsmFlag.lean` for the flag;
  * `accept_iff_wf_render`: **`accept_iff_wf` for the renderer** — accepted iff `P.image flag` is
    defined (`⇐` is `C01.assemble_image_render`);
  * `reject_render`: an ill-formed program is answered with a diagnostic.

  `Layout.ok L P` presupposes of `P` only `Prog.renderable` (every `br` has a mnemonic, string
  bodies fit between quotes, after word 65,535 only `.blkw 0` follows) and that distinct label ids
  have distinct valid names; none of the C04 clauses is presupposed.
-/
import Lace.Props.C01
import Lace.Props.C05
import Lace.Proofs.AsmRange
import Lace.Proofs.ParseReject
namespace Lace.C04
open Lace.Asm Lace.Spec Lace.C01

/-- **Accepted iff every statement fits.**  For a text that parses (`air`) and whose labels are all
defined (`stmts`), the assembler returns an image iff the specification can encode every
statement, and the image is then the list of these encodings; otherwise the answer is the
"offset too large" diagnostic. -/
theorem accept_iff_fits (flag : Bool) (tbl : SymTab) (src : List Char) (air : Air)
    (stmts : List AsmLine) (hp : (parse (some flag) tbl src).1 = .ok air)
    (hb : backpatchAll (parse (some flag) tbl src).2 air.stmts = some stmts) (orig : Word) :
    ((∃ img, (assemble flag tbl src).1 = .ok img) ↔ ∀ a ∈ stmts, (specWord orig a).isSome = true) ∧
    ((assemble flag tbl src).1 = .diag .offsetTooLarge none ↔ ∃ a ∈ stmts, specWord orig a = none) := by
  have hres := backpatchAll_resolved hb
  have he := emitAll_eq_specWords orig stmts hres
  unfold assemble assembleWith
  generalize parse (some flag) tbl src = r at hp hb
  obtain ⟨r, tbl'⟩ := r
  simp only at hp hb
  subst hp
  simp only [hb, he]
  cases hs : specWords orig stmts with
  | none =>
    have hex := specWords_none_iff.mp hs
    simp only [reduceCtorEq, exists_false, false_iff, true_iff]
    refine ⟨?_, hex⟩
    intro hall
    obtain ⟨a, ha, hn⟩ := hex
    have := hall a ha
    rw [hn] at this; cases this
  | some ws =>
    simp only [Outcome.ok.injEq, exists_eq', true_iff, reduceCtorEq, false_iff]
    have hno : ¬ ∃ a ∈ stmts, specWord orig a = none := by
      intro hc; rw [specWords_none_iff.mpr hc] at hs; cases hs
    refine ⟨?_, hno⟩
    intro a ha
    cases hw : specWord orig a with
    | none => exact absurd ⟨a, ha, hw⟩ hno
    | some w => rfl

/-- **No truncation, wrapping or spilling**: every word of a returned image is `Spec.encode` of
the statement at its address; no other word is possible. -/
theorem no_truncation (flag : Bool) (tbl : SymTab) (src : List Char) (img : Image)
    (h : (assemble flag tbl src).1 = .ok img) :
    ∃ stmts : List AsmLine, stmts.length = img.words.length ∧
      ∀ (orig : Word) (i : Nat) (h1 : i < stmts.length) (h2 : i < img.words.length),
        ∃ instr, toSpec orig stmts[i].stmt = some instr ∧
          encode instr (orig + BitVec.ofNat 16 i) = some img.words[i] :=
  image_word flag tbl src img h

/-- **Everything else is rejected with a diagnostic** (never a panic, never a partial image). -/
theorem reject_is_diag (flag : Bool) (tbl : SymTab) (src : List Char) :
    (∃ img, (assemble flag tbl src).1 = .ok img) ∨ (∃ k s, (assemble flag tbl src).1 = .diag k s) := by
  have := C05.assemble_no_panic flag tbl src
  cases h : (assemble flag tbl src).1 with
  | ok img => exact Or.inl ⟨img, rfl⟩
  | diag k s => exact Or.inr ⟨k, s, rfl⟩
  | panic s => exact absurd h (this s)

/-- **A label defined twice is rejected.** -/
theorem dup_label_rejected (srcLen : Nat) (t : Token) (ts : List Token) (st : PState) (tbl : SymTab)
    (hk : t.kind = .label) (line : Nat) (hdef : tbl.get? t.text = some line) :
    (parseStep srcLen (t :: ts) st tbl).1 = .done (.diag .dupLabel (some (t.span.offs, t.span.len))) :=
  parseStep_dup_label srcLen t ts st tbl hk line hdef

/-- **A referenced label that is not defined is rejected**: if the text parses and some statement
still refers to a name the symbol table does not contain, the answer is `labelNotFound`. -/
theorem undefined_label_rejected (flag : Bool) (tbl : SymTab) (src : List Char) (air : Air)
    (hp : (parse (some flag) tbl src).1 = .ok air) (a : AsmLine) (ha : a ∈ air.stmts)
    (name : List Char) (hl : a.stmt.label? = some (.unfilled name))
    (hu : (parse (some flag) tbl src).2.get? name = none) :
    (assemble flag tbl src).1 = .diag .labelNotFound none := by
  have hb : backpatchAll (parse (some flag) tbl src).2 air.stmts = none :=
    backpatchAll_none_iff.mpr ⟨a, ha, name, hl, hu⟩
  unfold assemble assembleWith
  generalize parse (some flag) tbl src = r at hp hb
  obtain ⟨r, tbl'⟩ := r
  simp only at hp hb
  subst hp
  simp only [hb]

/-- **A second `.orig` is rejected**, whatever its operand. -/
theorem second_orig_rejected (srcLen : Nat) (labeled : Bool) (tok lit : Token) (ts : List Token)
    (st : PState) (tbl : SymTab) (hk : tok.kind = .dir .orig) (v w : Word)
    (hlit : litWord lit.kind = some v) (hset : st.orig = some w) :
    parseLine srcLen labeled (tok :: lit :: ts) st tbl = .done (.diag .origTwice none) :=
  parseLine_second_orig srcLen labeled tok lit ts st tbl hk v w hlit hset

set_option maxRecDepth 20000 in
/-- hypotheses satisfiable, on real text: each rule on a witness (D1, D2, D6 of DESIGN.md §5
included: `ldr r0 r1 #-1` keeps its base register, `.orig x8000` and `trap x80` are accepted, a
label distance of 256 is a diagnostic) -/
example :
    (assemble false [] "ldr r0 r1 #-1".toList).1 =
      .ok { orig := none, words := [0x607F#16], spans := [(0, 13)], bps := [] } ∧
    (∃ img, (assemble false [] ".orig x8000\ntrap x80".toList).1 = .ok img ∧
      img.orig = some 0x8000#16 ∧ img.words = [0xF080#16]) ∧
    (assemble false [] "add r0 r0 #16".toList).1 = .diag .litRange (some (10, 3)) ∧
    (assemble false [] "trap x100".toList).1 = .diag .litRange (some (5, 4)) ∧
    (assemble false [] "a halt\na halt".toList).1 = .diag .dupLabel (some (7, 1)) ∧
    (assemble false [] "br nowhere".toList).1 = .diag .labelNotFound none ∧
    (assemble false [] ".orig x3000\n.orig x3000".toList).1 = .diag .origTwice none ∧
    (assemble false [] "br x\n.blkw #256\nx halt".toList).1 = .diag .offsetTooLarge none := by
  refine ⟨by rfl, ⟨_, by rfl, by rfl, by rfl⟩, by rfl, by rfl, by rfl, by rfl, by rfl, by rfl⟩

/-! ### text level -/

/-- Full statement of C04 relative to a rendering relation (see `C01.assemble_image`): a layout of
an abstract program — operands arbitrary — is accepted iff the program is well formed. -/
def accept_iff_wf (Layout : Prog → List Char → Prop) : Prop :=
  ∀ (flag : Bool) (P : Prog) (t : List Char), P.syntaxOk = true → Layout P t →
    ((∃ img, (assemble flag [] t).1 = .ok img) ↔ (P.image flag).isSome = true)

/-- **Whatever is accepted is well formed, and encoded without truncation** (the reject direction of
C04 at the text level, in contrapositive form).  `P` is *any* abstract program in the domain
(`syntaxOk`): its literal operands are arbitrary 16-bit words, its label references may be undefined
or defined twice, it may contain several `.orig`, stack statements, more than 65,535 words.  If the
assembler returns an image for a layout of `P`, then `Prog.image` is defined — every operand fits its
field, every referenced label is defined exactly once, there is at most one `.orig`, every
PC-relative label distance fits, stack mnemonics occur only with the flag, at most 65,535 words — and
the returned origin and words are exactly that image. -/
theorem accept_render_image (flag : Bool) (L : Layout) (P : Prog) (hsyn : P.syntaxOk = true)
    (hok : L.ok P = true) (img : Image) (h : (assemble flag [] (render L P)).1 = .ok img) :
    P.image flag = some (img.orig, img.words) := by
  -- the preprocessor has succeeded
  have hpre : ∃ toks, preprocess (some flag) (render L P) = .ok toks := by
    cases hp : preprocess (some flag) (render L P) with
    | ok toks => exact ⟨toks, rfl⟩
    | diag k s => unfold assemble assembleWith parse at h; rw [hp] at h; cases h
    | panic s => unfold assemble assembleWith parse at h; rw [hp] at h; cases h
  obtain ⟨toks, hpre⟩ := hpre
  -- hence no stack mnemonic with the flag off
  have hst : flag = true ∨ P.stmts.all (fun ls => !ls.2.isStack) = true := by
    cases flag with
    | true => exact Or.inl rfl
    | false =>
      right
      cases hall : P.stmts.all (fun ls => !ls.2.isStack) with
      | true => rfl
      | false =>
        exfalso
        have hns := preprocess_off_no_stack hpre
        have hon : preprocess (some true) (render L P) = .ok toks := by
          rcases preprocessLoop_rel ((render L P).length + 1) 0 (render L P) [] with he | ⟨sp, he⟩
          · unfold preprocess at hpre ⊢; rw [← he]; exact hpre
          · unfold preprocess at hpre; rw [he] at hpre; cases hpre
        obtain ⟨toks', hpre', hm⟩ := preprocess_render true L P hok (Or.inl rfl)
        rw [hon] at hpre'
        simp only [Res.ok.injEq] at hpre'
        subst hpre'
        obtain ⟨t, ht, hs⟩ := stack_token L.names P toks hm hall
        rw [hns t ht] at hs
        cases hs
  obtain ⟨toks', hpre', hm⟩ := preprocess_render flag L P hok hst
  rw [hpre] at hpre'
  simp only [Res.ok.injEq] at hpre'
  subst hpre'
  have hok' := hok
  simp only [Layout.ok, Bool.and_eq_true] at hok'
  obtain ⟨⟨⟨hren, _⟩, _⟩, hinj⟩ := hok'
  unfold assemble assembleWith parse at h
  rw [hpre] at h
  simp only [] at h
  generalize hpl : parseLoop (utf8Len (render L P)) (toks.length + 1) toks
    { orig := none, stmts := [], n := 0, bps := [], line := 1, tokEnd := 0 } [] = r at h
  obtain ⟨r, tbl'⟩ := r
  cases r with
  | diag k s => cases h
  | panic s => cases h
  | ok air =>
    simp only [] at h
    cases hb : backpatchAll tbl' air.stmts with
    | none => rw [hb] at h; cases h
    | some stmts =>
      rw [hb] at h
      simp only [] at h
      cases he : emitAll stmts [] with
      | diag k s => rw [he] at h; cases h
      | panic s => rw [he] at h; cases h
      | ok words =>
        rw [he] at h
        simp only [Outcome.ok.injEq] at h
        subst h
        exact parse_tokens_ok_image flag L.names P _ toks hm hinj hren hsyn hst air tbl' stmts words hpl hb he

/-- **C04, text level.**  For every layout (`Layout.ok`, the layout space of `Spec/Render.lean`, see
`Props/C01.lean`) of every abstract program in the domain, the assembler returns an image iff the
program is well formed (`Prog.image` is defined).  `⇐` is `C01.assemble_image_render`, `⇒` is
`accept_render_image`.

What `Layout.ok L P` presupposes about `P` (`Prog.renderable`): every `br` has a mnemonic
(`nzp ≠ 0`), string bodies can stand between quotes, and after the 65,535th word nothing but
`.blkw 0` follows (there lace answers `too many` where `Prog.image` accepts; `Props/C01.lean`).  It
does **not** presuppose that operands fit (every 16-bit word has a spelling), that labels are
defined or defined once (only that distinct label ids have distinct valid names), that `.orig` is
unique, that the flag allows the stack mnemonics, or that the program has at most 65,535 words
(the last non-empty statement may cross that limit) — all these rejections are covered. -/
theorem accept_iff_wf_render : accept_iff_wf (fun P t => ∃ L : Layout, L.ok P ∧ t = render L P) := by
  intro flag P t hsyn ⟨L, hok, ht⟩
  subst ht
  constructor
  · rintro ⟨img, h⟩
    rw [accept_render_image flag L P hsyn hok img h]
    rfl
  · intro himg
    obtain ⟨img, h, _⟩ := assemble_image_render flag P _ hsyn himg ⟨L, hok, rfl⟩
    exact ⟨img, h⟩

/-- **An ill-formed program is answered with a diagnostic**, whatever its layout. -/
theorem reject_render (flag : Bool) (L : Layout) (P : Prog) (hsyn : P.syntaxOk = true)
    (hok : L.ok P = true) (hill : P.image flag = none) :
    ∃ k s, (assemble flag [] (render L P)).1 = .diag k s := by
  rcases reject_is_diag flag [] (render L P) with ⟨img, h⟩ | h
  · rw [accept_render_image flag L P hsyn hok img h] at hill
    cases hill
  · exact h

/-! ### the hypotheses are satisfiable: one ill-formed program per clause -/

/-- `add r0 r0 #16` · `ld r0 #256` · `trap x100` · `br L0` (undefined) · `L0 halt / L0 halt` ·
`.orig x3000 / .orig x3000` · `br L0 / .blkw 256 / L0 halt` · `push r0` (flag off) ·
`.fill 0 / .blkw xFFFF` (65,536 words) -/
def illFormed : List Prog :=
  [ ⟨[.stmt none (.addImm 0#3 0#3 16#16)]⟩,
    ⟨[.stmt none (.ld 0#3 (.lit 0x100#16))]⟩,
    ⟨[.stmt none (.trap 0x100#16)]⟩,
    ⟨[.stmt none (.br 7#3 (.label 0))]⟩,
    ⟨[.stmt (some 0) (.namedTrap 5#3), .stmt (some 0) (.namedTrap 5#3)]⟩,
    ⟨[.orig 0x3000#16, .orig 0x3000#16]⟩,
    ⟨[.stmt none (.br 7#3 (.label 0)), .stmt none (.blkw 256#16), .stmt (some 0) (.namedTrap 5#3)]⟩,
    ⟨[.stmt none (.push 0#3)]⟩,
    ⟨[.stmt none (.fill 0#16), .stmt none (.blkw 0xFFFF#16)]⟩ ]

set_option maxRecDepth 20000 in
/-- each of them has a well-formed (here: the canonical) layout and no image … -/
theorem illFormed_spec : ∀ P ∈ illFormed,
    (Layout.canon P).ok P = true ∧ P.syntaxOk = true ∧ P.image false = none := by
  decide

/-- … hence every one is answered with a diagnostic (real lace: `unexpected_token` ×3, `Label not
found`, `duplicate_label`, `Origin set twice`, `… too large`, `stack_extension_not_enabled`,
`too_many_statements`) -/
example : ∀ P ∈ illFormed, ∃ k s, (assemble false [] (render (Layout.canon P) P)).1 = .diag k s := by
  intro P hP
  obtain ⟨h1, h2, h3⟩ := illFormed_spec P hP
  exact reject_render false _ P h2 h1 h3

/-- and the accept direction on the far-from-canonical layout of `Props/C01.lean` -/
example : ∃ img, (assemble false [] (render exLayout exProg)).1 = .ok img :=
  (accept_iff_wf_render false exProg _ (by decide) ⟨exLayout, by decide, rfl⟩).mpr (by decide)

end Lace.C04
