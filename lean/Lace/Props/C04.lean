/-
  C04 — The assembler accepts exactly the programs whose operands fit.

  PROVED (model level, every text / flag / symbol table):

  * `lit_range_iff`, `expectLit_lit` (`Proofs/AsmRange.lean`): the parser's range check accepts a
    literal iff its 16-bit word fits the field — signed two's-complement range for imm5, offset6
    and the literal PC offsets (9 / 10 / 11 bits), `[0, 2^n)` for the trap vector (8) and `.orig`
    (16) — and an accepted literal is passed on unchanged;
  * `emit_ok_iff_fits_holds` (stage 1): a resolved statement is emitted iff `Spec.encode` is
    defined, i.e. iff its PC-relative distance fits its 9- / 10- / 11-bit field;
  * `accept_iff_fits`: once the text has parsed and every label is defined, `assemble` returns an
    image iff **every** statement fits, and the "offset too large" diagnostic otherwise;
  * `no_truncation`: an image, when returned, consists of the ISA encodings of the statements —
    an out-of-range value is never truncated, wrapped or spilled into a neighbouring field;
  * `reject_is_diag`: whatever is not accepted is answered with a diagnostic, never a panic;
  * `dup_label_rejected`, `undefined_label_rejected`, `second_orig_rejected`.

  STATED, not proved (checked by the three-way correspondence `./check C04`):

  * `accept_iff_wf`: for every layout `t` of an abstract program `P` (operands arbitrary 16-bit
    words, arbitrary label distances), `assemble flag [] t` is an image iff `P.image flag` is
    defined.  Missing: the token-level induction connecting `Spec.Prog` to the AIR (see C01).
-/
import Lace.Props.C01
import Lace.Props.C05
import Lace.Proofs.AsmRange
namespace Lace.C04
open Lace.Asm Lace.Spec Lace.C01

/-- **Accepted iff every statement fits.**  For a text that parses (`air`) and whose labels are all
defined (`stmts`), the assembler returns an image iff the specification can encode every
statement, and the image is then the list of these encodings; otherwise the answer is the
"offset too large" diagnostic. -/
theorem accept_iff_fits (flag : Bool) (tbl : SymTab) (src : List Char) (air : Air)
    (stmts : List AsmLine) (hp : (parse (some flag) tbl src).1 = .ok air)
    (hb : backpatchAll (parse (some flag) tbl src).2 air.stmts = some stmts) (orig : Word) :
    ((∃ img, (assemble flag tbl src).1 = .ok img) ↔ ∀ a ∈ stmts, (specWord orig a).isSome = true) ∧
    ((assemble flag tbl src).1 = .diag .offsetTooLarge none ↔ ∃ a ∈ stmts, specWord orig a = none) := by
  have hres := backpatchAll_resolved hb
  have he := emitAll_eq_specWords orig stmts hres
  unfold assemble assembleWith
  generalize parse (some flag) tbl src = r at hp hb
  obtain ⟨r, tbl'⟩ := r
  simp only at hp hb
  subst hp
  simp only [hb, he]
  cases hs : specWords orig stmts with
  | none =>
    have hex := specWords_none_iff.mp hs
    simp only [reduceCtorEq, exists_false, false_iff, true_iff]
    refine ⟨?_, hex⟩
    intro hall
    obtain ⟨a, ha, hn⟩ := hex
    have := hall a ha
    rw [hn] at this; cases this
  | some ws =>
    simp only [Outcome.ok.injEq, exists_eq', true_iff, reduceCtorEq, false_iff]
    have hno : ¬ ∃ a ∈ stmts, specWord orig a = none := by
      intro hc; rw [specWords_none_iff.mpr hc] at hs; cases hs
    refine ⟨?_, hno⟩
    intro a ha
    cases hw : specWord orig a with
    | none => exact absurd ⟨a, ha, hw⟩ hno
    | some w => rfl

/-- **No truncation, wrapping or spilling**: every word of a returned image is `Spec.encode` of
the statement at its address; no other word is possible. -/
theorem no_truncation (flag : Bool) (tbl : SymTab) (src : List Char) (img : Image)
    (h : (assemble flag tbl src).1 = .ok img) :
    ∃ stmts : List AsmLine, stmts.length = img.words.length ∧
      ∀ (orig : Word) (i : Nat) (h1 : i < stmts.length) (h2 : i < img.words.length),
        ∃ instr, toSpec orig stmts[i].stmt = some instr ∧
          encode instr (orig + BitVec.ofNat 16 i) = some img.words[i] :=
  image_word flag tbl src img h

/-- **Everything else is rejected with a diagnostic** (never a panic, never a partial image). -/
theorem reject_is_diag (flag : Bool) (tbl : SymTab) (src : List Char) :
    (∃ img, (assemble flag tbl src).1 = .ok img) ∨ (∃ k s, (assemble flag tbl src).1 = .diag k s) := by
  have := C05.assemble_no_panic flag tbl src
  cases h : (assemble flag tbl src).1 with
  | ok img => exact Or.inl ⟨img, rfl⟩
  | diag k s => exact Or.inr ⟨k, s, rfl⟩
  | panic s => exact absurd h (this s)

/-- **A label defined twice is rejected.** -/
theorem dup_label_rejected (srcLen : Nat) (t : Token) (ts : List Token) (st : PState) (tbl : SymTab)
    (hk : t.kind = .label) (line : Nat) (hdef : tbl.get? t.text = some line) :
    (parseStep srcLen (t :: ts) st tbl).1 = .done (.diag .dupLabel (some (t.span.offs, t.span.len))) :=
  parseStep_dup_label srcLen t ts st tbl hk line hdef

/-- **A referenced label that is not defined is rejected**: if the text parses and some statement
still refers to a name the symbol table does not contain, the answer is `labelNotFound`. -/
theorem undefined_label_rejected (flag : Bool) (tbl : SymTab) (src : List Char) (air : Air)
    (hp : (parse (some flag) tbl src).1 = .ok air) (a : AsmLine) (ha : a ∈ air.stmts)
    (name : List Char) (hl : a.stmt.label? = some (.unfilled name))
    (hu : (parse (some flag) tbl src).2.get? name = none) :
    (assemble flag tbl src).1 = .diag .labelNotFound none := by
  have hb : backpatchAll (parse (some flag) tbl src).2 air.stmts = none :=
    backpatchAll_none_iff.mpr ⟨a, ha, name, hl, hu⟩
  unfold assemble assembleWith
  generalize parse (some flag) tbl src = r at hp hb
  obtain ⟨r, tbl'⟩ := r
  simp only at hp hb
  subst hp
  simp only [hb]

/-- **A second `.orig` is rejected**, whatever its operand. -/
theorem second_orig_rejected (srcLen : Nat) (labeled : Bool) (tok lit : Token) (ts : List Token)
    (st : PState) (tbl : SymTab) (hk : tok.kind = .dir .orig) (v w : Word)
    (hlit : litWord lit.kind = some v) (hset : st.orig = some w) :
    parseLine srcLen labeled (tok :: lit :: ts) st tbl = .done (.diag .origTwice none) :=
  parseLine_second_orig srcLen labeled tok lit ts st tbl hk v w hlit hset

set_option maxRecDepth 20000 in
/-- hypotheses satisfiable, on real text: each rule on a witness (D1, D2, D6 of DESIGN.md §5
included: `ldr r0 r1 #-1` keeps its base register, `.orig x8000` and `trap x80` are accepted, a
label distance of 256 is a diagnostic) -/
example :
    (assemble false [] "ldr r0 r1 #-1".toList).1 =
      .ok { orig := none, words := [0x607F#16], spans := [(0, 13)], bps := [] } ∧
    (∃ img, (assemble false [] ".orig x8000\ntrap x80".toList).1 = .ok img ∧
      img.orig = some 0x8000#16 ∧ img.words = [0xF080#16]) ∧
    (assemble false [] "add r0 r0 #16".toList).1 = .diag .litRange (some (10, 3)) ∧
    (assemble false [] "trap x100".toList).1 = .diag .litRange (some (5, 4)) ∧
    (assemble false [] "a halt\na halt".toList).1 = .diag .dupLabel (some (7, 1)) ∧
    (assemble false [] "br nowhere".toList).1 = .diag .labelNotFound none ∧
    (assemble false [] ".orig x3000\n.orig x3000".toList).1 = .diag .origTwice none ∧
    (assemble false [] "br x\n.blkw #256\nx halt".toList).1 = .diag .offsetTooLarge none := by
  refine ⟨by rfl, ⟨_, by rfl, by rfl, by rfl⟩, by rfl, by rfl, by rfl, by rfl, by rfl, by rfl⟩

/-! ### text level (stated; see the header) -/

/-- Full statement of C04 relative to a rendering relation (see `C01.assemble_image`): a layout of
an abstract program — operands arbitrary — is accepted iff the program is well formed. -/
def accept_iff_wf (Layout : Prog → List Char → Prop) : Prop :=
  ∀ (flag : Bool) (P : Prog) (t : List Char), P.syntaxOk = true → Layout P t →
    ((∃ img, (assemble flag [] t).1 = .ok img) ↔ (P.image flag).isSome = true)

end Lace.C04
