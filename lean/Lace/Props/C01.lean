/-
  C01 — Assembled image is the ISA encoding of the source.

  Statement / AIR level (`Props/C01Core.lean`, `Props/C01Stage1.lean`): `emit_eq_encode_holds`,
  `image_eq_spec`, `image_word`, `image_depends_on_labels_only`, `stmt_tokens_to_spec`.

  This file: the text level — **proved** for the concrete rendering `Spec.render`
  (`Spec/Render.lean`), through the lexer lemmas (`Proofs/LexTok.lean`, `Proofs/LexGap.lean`), the
  preprocessor lemma (`Proofs/PreRender.lean`, `Proofs/RenderRel.lean`) and the induction over whole
  programs with the symbol-table invariant (`Proofs/ParseProg.lean`: `parse_tokens_image`).

  Layout space covered (`Layout.ok`): per token an arbitrary separator — any non-empty mix of
  SPACE / TAB / LF / FF / CR / `,` / `:` and `;…` comments closed by a line feed, beginning with a
  white-space character (DESIGN.md I12; in front of the first token also nothing, or a comment
  straight away; after the last token also nothing, or an unclosed comment) — so blank lines, a colon
  after a label, commas between operands, a line break between a directive and its operand are all
  covered; every mixture of letter cases in mnemonics, directives and register names; `br` or `brnzp`;
  every literal spelling the specification reads (`#d #+d #-d xH XH 0xH 0XH x-H x+H`, leading zeros,
  hex digits of either case, value in −32768 … 65535); a final `.end` (any letter case) followed by
  arbitrary ignored text; every valid label name (DESIGN.md I13,
  including names that begin like a hex literal or a register), distinct labels having distinct names;
  string bodies that can stand between quotes.

  * `lexKind_label`   — a valid label name lexes to a label token (lexer lemma of I13, ⇐ direction);
  * `preprocess_render` — `preprocess (render L P)` = the program's token stream (data directives
    expanded, `.break` as breakpoint token, `.orig` kept);
  * `assemble_image_render` — `assemble_image` for the relation "`t = render L P` for a well-formed `L`":
    every layout of a well-formed program assembles to `Spec.Prog.image`;
  * `layout_irrelevant_render` — two layouts of one program give the same image;
  * `label_order_irrelevant_render` is subsumed: `Prog.image` does not depend on where a label is
    defined relative to its uses, and the theorem holds for every `P`.

  Side conditions that sit in `Layout.ok` although they concern the program (`Prog.renderable`):
  every `br` has a mnemonic (`nzp ≠ 0`), string bodies contain no raw line feed / quote and do not end
  in a lone backslash, and **after the 65,535th word only `.blkw 0` follows** (`fullOk`; true of every
  program with fewer than 65,535 words, `fullOk_of_lt`).  That last condition marks a real difference
  between lace and `Prog.image`: with a full image lace answers `too many` to a `.break` / `.orig` /
  label that follows the last word, `Prog.image` accepts it.

  * `lexKind_label_iff` (`Proofs/LexLabelIff.lean`) — over `[A-Za-z0-9_]` the lexer reads a name as a
    label **iff** it is a `validLabel` (outside that alphabet lace reads e.g. `x-zz` as a label).
-/
import Lace.Props.C01Core
import Lace.Proofs.RenderRel
import Lace.Proofs.LexLabelIff
namespace Lace.C01
open Lace.Asm Lace.Spec Lace.C04

/-- "`t` is a layout of `P`": the text `render L P` of some well-formed layout `L`. -/
def IsLayout (P : Prog) (t : List Char) : Prop := ∃ L : Layout, L.ok P = true ∧ t = render L P

/-- **Lexer lemma for labels (DESIGN.md I13, ⇐).**  A valid label name, followed by the end of the
text or a separator, is read as one label token whose text is the name. -/
theorem lexKind_label (feat : Option Bool) (name : List Char) (h : validLabel name = true) (pos : Nat)
    (rest : List Char) (hd : Delim rest) :
    advanceToken feat pos (name ++ rest) = mkTok .label pos name rest :=
  lexes_label feat name h pos rest hd

/-- hypotheses satisfiable -/
example : validLabel "x1g".toList = true ∧ validLabel "R23".toList = true ∧ validLabel "loop".toList = true ∧
    validLabel "x12".toList = false ∧ validLabel "r7".toList = false ∧ validLabel "Halt".toList = false := by
  decide

/-- **The preprocessor on a rendered program**: the tokens the parser receives are the program's
token stream — mnemonics, operands (labels with their names), `.orig` with its operand, one data
token per word of `.fill` / `.blkw` / `.stringz`, a breakpoint token per `.break`; white space and
comments are gone. -/
theorem preprocess_render (flag : Bool) (L : Layout) (P : Prog) (hok : L.ok P = true)
    (hst : flag = true ∨ P.stmts.all (fun ls => !ls.2.isStack) = true) :
    ∃ toks, preprocess (some flag) (render L P) = .ok toks ∧
      List.Forall₂ ETok.Matches (progETok L.names P) toks := by
  have htr : TrailEnds (some flag) L.trail := by
    simp only [Layout.ok, Bool.and_eq_true] at hok
    exact trailOk_ends (some flag) hok.1.2
  exact preprocess_textRel (some flag) L.trail (render L P) _ _ htr (textRel_render flag L P hok hst)

theorem image_stack {flag : Bool} {P : Prog} (h : (P.image flag).isSome = true) :
    flag = true ∨ P.stmts.all (fun ls => !ls.2.isStack) = true := by
  unfold Prog.image at h
  simp only [] at h
  split at h
  · rename_i hc; exact hc.2.1
  · cases h

/-- **C01, text level.**  Every layout of a well-formed program assembles (from a fresh symbol
table) to the image the specification assigns to the program. -/
theorem assemble_image_render : assemble_image IsLayout := by
  intro flag P t hsyn himg ⟨L, hok, ht⟩
  subst ht
  have hst := image_stack himg
  obtain ⟨toks, hpre, hm⟩ := preprocess_render flag L P hok hst
  cases hi : P.image flag with
  | none => rw [hi] at himg; cases himg
  | some ow =>
    obtain ⟨o, ws⟩ := ow
    have hok' := hok
    simp only [Layout.ok, Bool.and_eq_true] at hok'
    obtain ⟨⟨⟨hren, _⟩, _⟩, hinj⟩ := hok'
    obtain ⟨air, tbl', hparse, horig, stmts, hback, hemit⟩ :=
      parse_tokens_image flag L.names P (utf8Len (render L P)) toks hm hinj hren hsyn o ws hi
    have hp : parse (some flag) [] (render L P) = (.ok air, tbl') := by
      unfold parse
      rw [hpre]
      exact hparse
    refine ⟨{ orig := air.orig, words := ws, spans := stmts.map (fun a => (a.span.offs, a.span.len)),
              bps := air.bps }, ?_, by rw [horig]; exact hi⟩
    unfold assemble assembleWith
    rw [hp]
    simp only [hback, hemit]

/-- **Re-laying out the text never changes the image.** -/
theorem layout_irrelevant_render : layout_irrelevant IsLayout :=
  layout_irrelevant_of_assemble_image IsLayout assemble_image_render

/-! ### the hypotheses are satisfiable: a program under a far-from-canonical layout -/

/-- `.orig x3000 / loop add r1 r1 #-1 / brp loop / .break / x_msg .stringz "a\n" / .fill xBEEF / halt` -/
def exProg : Prog :=
  { items := [.orig 0x3000#16, .stmt (some 0) (.addImm 1#3 1#3 0xFFFF#16), .stmt none (.br 1#3 (.label 0)), .brk,
      .stmt (some 1) (.stringz ['a', '\\', 'n']), .stmt none (.fill 0xBEEF#16), .stmt none (.namedTrap 5#3)] }

/-- comment first, mixed case, colon after the label, commas, a comment between a directive and its
operand, CR LF, five literal spellings, a label that begins like a hex literal, an open comment at
the end -/
def exLayout : Layout :=
  { names := fun i => if i = 0 then ['l','o','o','p'] else ['x','_','m','s','g']
    toks := [
      { sep := [';',' ','h','e','a','d','\n'], caps := [false, true] },   -- .Orig
      { sep := ['\t'], lit := ['0','X','3','0','0','0'] },
      { sep := ['\n','\n'] },                                             -- loop
      { sep := [':',' ',' '], caps := [true, true, true] },               -- ADD
      { sep := [' '], caps := [true] },                                   -- R1
      { sep := [',',' '] },                                               -- r1
      { sep := [','], lit := ['#','-','0','1'] },
      { sep := [' ',';',' ','d','e','c','\n',' '], caps := [false, true] }, -- bRp
      { sep := [' '] },                                                   -- loop
      { sep := ['\r','\n'] },                                             -- .break
      { sep := ['\n'] },                                                  -- x_msg
      { sep := [' '], caps := [false, true, true] },                      -- .STringz
      { sep := [' ',';','c','\n','\t'] },                                 -- "a\n"
      { sep := ['\n'] },                                                  -- .fill
      { sep := [' '], lit := ['x','-','4','1','1','1'] },
      { sep := ['\x0c','\n'], caps := [true] } ],                         -- Halt
    trail := [' ',';',' ','e','n','d'] }

example : exLayout.ok exProg = true ∧ exProg.syntaxOk = true ∧ (exProg.image false).isSome = true := by
  decide

example : String.ofList (render exLayout exProg) =
    "; head\n.Orig\t0X3000\n\nloop:  ADD R1, r1,#-01 ; dec\n bRp loop\r\n.break\nx_msg .STringz ;c\n\t\"a\\n\"\n.fill x-4111\x0c\nHalt ; end" := by
  decide

example : AssemblesTo false (render exLayout exProg) exProg :=
  assemble_image_render false exProg _ (by decide) (by decide) ⟨exLayout, by decide, rfl⟩

/-- the same program, ended by `.END` and text the assembler never looks at -/
example : ({ exLayout with trail := "\n.END add r0 \" é #99999 .orig".toList } : Layout).ok exProg = true := by
  decide

end Lace.C01
