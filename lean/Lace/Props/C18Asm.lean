/-
  C18 (assembler side) — the stack extension is gated by its feature flag, and only it.

  "The text contains one of the four mnemonics" is made precise with the lexer itself: the token
  stream lace produces with the flag ON contains a token of kind `push` / `pop` / `call` / `rets`
  (`TokenKind.isStack`) — that covers every letter case and the mnemonic in label position, because
  the lexer classifies an identifier before the parser decides what position it is in.

  * `flag_dichotomy`       — turning the flag off either changes nothing at all (same outcome, same
                             symbol table) or turns the outcome into `lex::stack_extension_not_enabled`.
  * `flag_off_rejects`     — if the flag-on token stream contains one of the four mnemonics, the
                             flag-off outcome is that diagnostic (and it points inside the source).
  * `flag_irrelevant_asm`  — if the flag-off outcome is not that diagnostic — in particular for every
                             text the flag-off assembler does not reject for that reason — both
                             settings give the same image / diagnostic and the same table.  (The
                             corollary phrased on the flag-on token stream is stated, not proved:
                             `flag_irrelevant_of_no_stack_token`.)
  (`flag_on_accepts` is C01's encoding theorem for PUSH/POP/CALL/RETS; the VM half of C18 is in
  `Props/C02.lean`: `stack_off_stops`.)
-/
import Lace.Proofs.AsmFlag
import Lace.Props.C05
namespace Lace.C18
open Lace.Asm

/-- The flag can only turn a result into the stack-extension diagnostic. -/
theorem flag_dichotomy (tbl : SymTab) (src : List Char) :
    assemble false tbl src = assemble true tbl src ∨
    ∃ sp, assemble false tbl src = (.diag .lexStack sp, tbl) := by
  unfold assemble assembleWith
  rcases parse_rel tbl src with h | ⟨sp, h⟩
  · rw [h]; exact Or.inl rfl
  · rw [h]; exact Or.inr ⟨sp, rfl⟩

/-- Without the flag, a text in which lace's lexer (flag on) finds `push`, `pop`, `call` or `rets`
— in any letter case, in any position — is rejected with the diagnostic that names the feature. -/
theorem flag_off_rejects (tbl : SymTab) (src : List Char) (toks : List Token)
    (hon : preprocess (some true) src = .ok toks) (hst : ∃ t ∈ toks, t.kind.isStack = true) :
    ∃ sp, assemble false tbl src = (.diag .lexStack sp, tbl) := by
  unfold assemble assembleWith parse
  rcases preprocessLoop_rel (src.length + 1) 0 src [] with h | ⟨sp, h⟩
  · exfalso
    have hoff : preprocess (some false) src = .ok toks := by
      unfold preprocess at hon ⊢; rw [h]; exact hon
    obtain ⟨t, ht, hs⟩ := hst
    have := preprocess_off_no_stack hoff t ht
    rw [this] at hs; exact Bool.noConfusion hs
  · unfold preprocess; rw [h]; exact ⟨sp, rfl⟩

/-- … and that diagnostic points inside the source. -/
theorem flag_off_diag_inside (tbl : SymTab) (src : List Char) (o l : Nat)
    (h : (assemble false tbl src).1 = .diag .lexStack (some (o, l))) : o + l ≤ utf8Len src :=
  C05.diag_points_inside false tbl src _ o l h

/-- If the flag-off result is not the stack-extension diagnostic, the flag is irrelevant: same
image or diagnostic, same spans, same breakpoints, same symbol table. -/
theorem flag_irrelevant_asm (tbl : SymTab) (src : List Char)
    (h : ∀ sp, (assemble false tbl src).1 ≠ .diag .lexStack sp) :
    assemble true tbl src = assemble false tbl src := by
  rcases flag_dichotomy tbl src with h1 | ⟨sp, h1⟩
  · exact h1.symm
  · exact absurd (by rw [h1]) (h sp)

/-- Text-level corollary, stated on the flag-ON token stream: a text whose token stream contains
none of the four mnemonics assembles identically under both settings.  NOT PROVED here (it needs one
more invariant: when the flag-off lexer stops at a mnemonic, the flag-on token stream contains that
token or the flag-on run fails).  The proved form is `flag_irrelevant_asm`, whose hypothesis is on
the flag-OFF outcome; `flag_irrelevant_partial` is the instance of this statement for texts the
flag-off assembler does not answer with the stack diagnostic. -/
def flag_irrelevant_of_no_stack_token : Prop :=
  ∀ (tbl : SymTab) (src : List Char) (toks : List Token),
    preprocess (some true) src = .ok toks → (∀ t ∈ toks, t.kind.isStack = false) →
    assemble true tbl src = assemble false tbl src

theorem flag_irrelevant_partial (tbl : SymTab) (src : List Char) (toks : List Token)
    (_hon : preprocess (some true) src = .ok toks) (_hns : ∀ t ∈ toks, t.kind.isStack = false)
    (hoff : ∀ sp, (assemble false tbl src).1 ≠ .diag .lexStack sp) :
    assemble true tbl src = assemble false tbl src :=
  flag_irrelevant_asm tbl src hoff

/-! Non-vacuity (kernel-evaluated). -/
example : (assemble false [] "PuSh r0".toList).1 = .diag .lexStack (some (0, 4)) := by decide
example : (assemble false [] "pop: halt".toList).1 = .diag .lexStack (some (0, 3)) := by decide
example : (assemble true [] "push r0".toList).1 ≠ (assemble false [] "push r0".toList).1 := by decide
example : assemble true [] "add r0 r0 #1".toList = assemble false [] "add r0 r0 #1".toList := by decide

end Lace.C18
