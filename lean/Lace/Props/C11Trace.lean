/-
  C11 at the level of WHOLE SESSIONS.

  `Props/C11.lean` proves the pause / re-arm clauses per call of `next_action` under an explicit
  `Armed` hypothesis.  Here they are stated and proved for complete runs of `runLoop` from
  `newDbg` — every fuel, every script, every program, every initial breakpoint list — without
  `Armed`: that a breakpoint is armed whenever it matters is established, not assumed.

  Instrumentation.  `actionReads` mirrors the recursion of `actionLoop` and returns the commands
  read together with the PC of the machine at the moment each was read; `iterRec` is the record
  of one iteration of `RunEnvironment::run` (PC and breakpoint list before, what the preamble of
  `next_action` printed, the commands read, the breakpoint list in force when `next_action`
  returns, the instruction executed); `runTrace` is the list of these records along `runLoop`.
  The instrumentation is tied to the model by `actionReads_length` (as many records as the
  model's own command counter advanced), `iterRec_bpsAfter` and `runLoop_execs_eq_trace`
  (the `execs` of `runLoop` are exactly the exec events of the trace).

  * `bp_pause_before_exec_trace`   (T1) an attached iteration that executes the instruction at a
        breakpointed address `a` has read at least one command, and the LAST command read in that
        iteration was a resuming command (continue / step / step into / step out) read with the
        machine at PC = `a`.  The invariant that replaces `Armed` is `Fresh` (`iter_fresh`).
  * `bp_removed_never_pauses_trace` (T2) `Reached::Breakpoint` is printed by the interrupt check
        of an iteration only if the list holds a breakpoint at the PC at that moment;
        `bp_line_only_at_breakpoint_trace`: the same for EVERY line the iteration prints, provided
        the assembler environment does not itself supply that text (`EnvClean`);
        `no_bp_runs_on_trace`: with no breakpoint at an executable PC a running status reads
        nothing and prints nothing.
  * `bp_exec_preceded_by_resume`, `bp_fires_every_arrival` (T3) on the event log of the session.
  * `break_directive_addresses` (T4) `newDbg` places the predefined breakpoints at
        origin + relative position, in the same order; `break_directive_addresses_src`: from the
        source text (assembler model, `Proofs/ParseBreaks.lean`) through `from_raw` to the list.
  Non-vacuity on a concrete one-instruction loop: `Props/C11Demo.lean`.
-/
import Lace.Props.C11
import Lace.Proofs.ParseBreaks
namespace Lace.C11
open Lace Lace.Dbg Lace.Cmd Lace.DbgProofs

/-! ### Instrumentation -/

/-- The commands that resume execution. -/
def Resumes : Command → Bool
  | .continue_ | .stepOver | .stepInto _ | .stepOut => true
  | _ => false

/-- One command read by the debugger: the command and the PC of the machine at that moment.
End of input is read as `quit` (as `next_action` does). -/
structure Read where
  cmd : Command
  pc : Word
  deriving DecidableEq, Repr

/-- The commands read by the status loop, in order: same recursion as `actionLoop`. -/
def actionReads (env : Env) : Nat → Dbg → Machine → World → Option Sig → List Read
  | 0, _, _, _, _ => []
  | n + 1, d, m, w, instr =>
    match d.status with
    | .wait =>
      match d.cmds with
      | [] => [⟨.quit, m.pc⟩]
      | c :: rest =>
        ⟨c, m.pc⟩ ::
          (match runCommand env { d with cmds := rest } m w c with
           | .next d m w => actionReads env n d m w instr
           | _ => [])
    | .stepOver ret =>
      if m.pc == ret then
        let d := if d.icount > 1 then say d "Reached::SubroutineEnd" else d
        actionReads env n { d with status := .wait } m w instr
      else []
    | _ => []

/-- What `new` has in front of `old` (both newest first). -/
def newLines (old new : List (List Char)) : List (List Char) := new.take (new.length - old.length)

theorem newLines_append (pre old : List (List Char)) : newLines old (pre ++ old) = pre := by
  unfold newLines
  rw [List.length_append, Nat.add_sub_cancel]
  exact List.take_left' rfl

/-- The record of one iteration of the loop in `RunEnvironment::run`. -/
structure IterRec where
  /-- debugger attached when the iteration starts -/
  attached : Bool
  /-- PC when the iteration starts -/
  pc : Word
  /-- status when the iteration starts -/
  status : Status
  /-- PC in user space and not on HALT when the iteration starts -/
  executable : Bool
  /-- breakpoint list when the iteration starts -/
  bpsBefore : Breakpoints
  /-- lines printed by the bounds check and `check_interrupts`, newest first -/
  preSaid : List (List Char)
  /-- every line the debugger printed in this iteration (interrupt check, then commands), newest
  first -/
  said : List (List Char)
  /-- commands read in this iteration, in order, each with the PC at which it was read -/
  reads : List Read
  /-- breakpoint list in force when `next_action` returns -/
  bpsAfter : Breakpoints
  /-- the instruction this iteration executed -/
  exec : Option Word

def iterExec : Iter → Option Word
  | .cont _ _ _ _ e => e
  | .exit _ _ _ _ _ e => e
  | _ => none

def nextReads (env : Env) (d : Dbg) (m : Machine) (w : World) : List Read :=
  actionReads env (2 * (preamble d m).cmds.length + 3) (preamble d m) m w (sigOf (m.read m.pc))

def iterRec (env : Env) (att : Bool) (d : Dbg) (m : Machine) (w : World) : IterRec :=
  { attached := att
    pc := m.pc
    status := d.status
    executable := Run.checkPcBounds m == .eq && sigOf (m.read m.pc) != some .halt
    bpsBefore := d.bps
    preSaid := if att then newLines d.errRev (preamble d m).errRev else []
    said := match C12.Iter.dbg? (iter env att d m w) with
      | some d' => newLines d.errRev d'.errRev
      | none => []
    reads := if att then nextReads env d m w else []
    bpsAfter := if att then
        match nextAction env d m w with
        | .action _ d' _ _ => d'.bps
        | .exit _ d' _ _ => d'.bps
        | .panic _ => d.bps
      else d.bps
    exec := iterExec (iter env att d m w) }

/-- The records of the iterations of `runLoop`, oldest first. -/
def runTrace (env : Env) : Nat → Bool → Dbg → Machine → World → List IterRec
  | 0, _, _, _, _ => []
  | n + 1, att, d, m, w =>
    iterRec env att d m w ::
      (match iter env att d m w with
       | .cont att' d' m' w' _ => runTrace env n att' d' m' w'
       | _ => [])

/-! ### The instrumentation agrees with the model -/

def DbgRun.execs? : DbgRun → Option (List Word)
  | .done _ _ _ _ ex => some ex
  | .exit _ _ _ _ _ ex => some ex
  | .fuel _ _ _ _ ex => some ex
  | .panic _ => none

theorem filterMap_exec_cons (r : IterRec) (l : List IterRec) (ex : List Word) :
    ((r :: l).filterMap (·.exec)).reverse ++ ex = (l.filterMap (·.exec)).reverse ++ pushExec r.exec ex := by
  cases h : r.exec with
  | none => simp [h, pushExec]
  | some a => simp [h, pushExec]

/-- The `execs` of `runLoop` (newest first) are exactly the exec events of the trace. -/
theorem runLoop_execs_eq_trace (env : Env) : ∀ (n : Nat) (att : Bool) (d : Dbg) (m : Machine) (w : World)
    (ex exs : List Word), DbgRun.execs? (runLoop env n att d m w ex) = some exs →
    exs = ((runTrace env n att d m w).filterMap (·.exec)).reverse ++ ex
  | 0, att, d, m, w, ex, exs => by
    intro h; simp [runLoop, DbgRun.execs?] at h; simp [runTrace, h]
  | n + 1, att, d, m, w, ex, exs => by
    intro h
    unfold runLoop at h
    unfold runTrace
    rw [filterMap_exec_cons]
    cases hit : iter env att d m w with
    | cont a1 d1 m1 w1 e =>
      rw [hit] at h
      have := runLoop_execs_eq_trace env n a1 d1 m1 w1 _ exs h
      simpa [iterRec, hit, iterExec] using this
    | done a1 d1 m1 w1 =>
      rw [hit] at h; simp [DbgRun.execs?] at h
      simp [iterRec, hit, iterExec, pushExec, h]
    | exit c a1 d1 m1 w1 e =>
      rw [hit] at h; simp [DbgRun.execs?] at h
      simp [iterRec, hit, iterExec, h]
    | panic s => rw [hit] at h; simp [DbgRun.execs?] at h

theorem runTrace_length_le (env : Env) : ∀ (n : Nat) (att : Bool) (d : Dbg) (m : Machine) (w : World),
    (runTrace env n att d m w).length ≤ n
  | 0, _, _, _, _ => by simp [runTrace]
  | n + 1, att, d, m, w => by
    unfold runTrace
    cases hit : iter env att d m w with
    | cont a1 d1 m1 w1 e => simpa using runTrace_length_le env n a1 d1 m1 w1
    | done a1 d1 m1 w1 => simp
    | exit c a1 d1 m1 w1 e => simp
    | panic s => simp

/-! ### What one command can do to the status -/

/-- A command that is not a resuming command leaves the status alone; a resuming command leaves
the machine alone; and no command raises `proceed`. -/
theorem runCommand_class (env : Env) (d : Dbg) (m : Machine) (w : World) (c : Command) :
    (∀ d1 m1 w1, runCommand env d m w c = .next d1 m1 w1 →
      d1.status = d.status ∨ (Resumes c = true ∧ m1 = m)) ∧
    (∀ a d1 m1 w1, runCommand env d m w c = .action a d1 m1 w1 → a ≠ .proceed) := by
  have hb : (base d).status = d.status := rfl
  have S : ∀ {x : Dbg}, SameButLog (base d) x → x.status = d.status := fun h => h.2.1.trans hb
  refine ⟨?_, ?_⟩
  · intro d1 m1 w1 h
    cases c <;> simp only [runCommand] at h
    case help => simp at h; obtain ⟨rfl, rfl, rfl⟩ := h; exact Or.inl rfl
    case quit => simp at h
    case exit => simp at h
    case reset => simp at h; obtain ⟨rfl, rfl, rfl⟩ := h; exact Or.inl rfl
    case echo s => simp at h; obtain ⟨rfl, rfl, rfl⟩ := h; exact Or.inl rfl
    case stepOver =>
      split at h
      · simp at h; obtain ⟨rfl, rfl, rfl⟩ := h; exact Or.inl rfl
      · split at h <;> (simp at h; obtain ⟨rfl, rfl, rfl⟩ := h; exact Or.inr ⟨rfl, rfl⟩)
    case stepInto cnt =>
      split at h
      · simp at h; obtain ⟨rfl, rfl, rfl⟩ := h; exact Or.inl rfl
      · split at h
        · simp at h
        · simp at h; obtain ⟨rfl, rfl, rfl⟩ := h; exact Or.inr ⟨rfl, rfl⟩
    case stepOut =>
      split at h
      · simp at h; obtain ⟨rfl, rfl, rfl⟩ := h; exact Or.inl rfl
      · split at h <;> (simp at h; obtain ⟨rfl, rfl, rfl⟩ := h)
        · exact Or.inl rfl
        · exact Or.inr ⟨rfl, rfl⟩
    case continue_ =>
      split at h <;> (simp at h; obtain ⟨rfl, rfl, rfl⟩ := h)
      · exact Or.inl rfl
      · exact Or.inr ⟨rfl, rfl⟩
    case goto l =>
      split at h <;> (simp at h; obtain ⟨rfl, rfl, rfl⟩ := h; exact Or.inl rfl)
    case breakAdd l =>
      split at h
      · simp at h; obtain ⟨rfl, rfl, rfl⟩ := h; exact Or.inl rfl
      · split at h <;> (simp at h; obtain ⟨rfl, rfl, rfl⟩ := h; exact Or.inl rfl)
    case breakRemove l =>
      split at h
      · simp at h; obtain ⟨rfl, rfl, rfl⟩ := h; exact Or.inl rfl
      · split at h <;> (simp at h; obtain ⟨rfl, rfl, rfl⟩ := h; exact Or.inl rfl)
    case registers =>
      simp at h; obtain ⟨rfl, rfl, rfl⟩ := h
      exact Or.inl (S (printRegisters_same (base d) m))
    case breakList =>
      split at h <;> (simp at h; obtain ⟨rfl, rfl, rfl⟩ := h)
      · exact Or.inl rfl
      · exact Or.inl (S (foldl_same (fun d b => sayL d ('x' :: hex4 b.address)) (fun d _ => sayL_same d _) (base d).bps (base d)))
    case eval t =>
      split at h <;> simp at h
      · obtain ⟨rfl, rfl, rfl⟩ := h; exact Or.inl rfl
      · rename_i lines _
        obtain ⟨rfl, rfl, rfl⟩ := h
        exact Or.inl (S (foldl_same sayL (fun d _ => sayL_same d _) lines (base d)))
    case print l =>
      cases l with
      | reg r => simp at h; obtain ⟨rfl, rfl, rfl⟩ := h; exact Or.inl rfl
      | mem l => simp only at h; split at h <;> (simp at h; obtain ⟨rfl, rfl, rfl⟩ := h; exact Or.inl rfl)
    case move l v =>
      cases l with
      | reg r => simp at h; obtain ⟨rfl, rfl, rfl⟩ := h; exact Or.inl rfl
      | mem l => simp only at h; split at h <;> (simp at h; obtain ⟨rfl, rfl, rfl⟩ := h; exact Or.inl rfl)
    case assembly l =>
      split at h
      · simp at h; obtain ⟨rfl, rfl, rfl⟩ := h; exact Or.inl rfl
      · split at h
        · simp at h; obtain ⟨rfl, rfl, rfl⟩ := h; exact Or.inl rfl
        · split at h
          · split at h <;> (simp at h; obtain ⟨rfl, rfl, rfl⟩ := h; exact Or.inl rfl)
          · simp at h; obtain ⟨rfl, rfl, rfl⟩ := h; exact Or.inl rfl
  · intro a d1 m1 w1 h
    cases c <;> simp only [runCommand] at h
    case quit => simp at h; rw [← h.1]; simp
    case exit => simp at h; rw [← h.1]; simp
    case print l => cases l <;> simp only at h <;> (try split at h) <;> simp at h
    case move l v => cases l <;> simp only at h <;> (try split at h) <;> simp at h
    all_goals ((try split at h) <;> (try split at h) <;> (try split at h) <;> (try split at h) <;> simp at h)

/-! ### The status loop: who read what, where -/

theorem getLast?_cons_of_ne_nil {α : Type} (x : α) {l : List α} (h : l ≠ []) :
    (x :: l).getLast? = l.getLast? := by
  cases l with
  | nil => exact absurd rfl h
  | cons y ys => simp [List.getLast?_cons_cons]

theorem actionReads_wait_nil (env : Env) (n : Nat) (d : Dbg) (m : Machine) (w : World) (instr : Option Sig)
    (hs : d.status = .wait) (hc : d.cmds = []) :
    actionReads env (n + 1) d m w instr = [⟨.quit, m.pc⟩] := by
  unfold actionReads
  split
  · split
    · rfl
    · rename_i h; rw [hc] at h; cases h
  · rename_i h; rw [hs] at h; cases h
  · rename_i h1 h2; exact absurd hs h1

theorem actionReads_wait_cons (env : Env) (n : Nat) (d : Dbg) (m : Machine) (w : World) (instr : Option Sig)
    (c : Command) (rest : List Command) (hs : d.status = .wait) (hc : d.cmds = c :: rest) :
    actionReads env (n + 1) d m w instr = ⟨c, m.pc⟩ ::
      (match runCommand env { d with cmds := rest } m w c with
       | .next d m w => actionReads env n d m w instr
       | _ => []) := by
  conv => lhs; unfold actionReads
  split
  · split
    · rename_i h; rw [hc] at h; cases h
    · rename_i c' rest' h
      rw [hc] at h
      simp only [List.cons.injEq] at h
      obtain ⟨rfl, rfl⟩ := h
      rfl
  · rename_i h; rw [hs] at h; cases h
  · rename_i h1 h2; exact absurd hs h1

theorem actionReads_stepOver (env : Env) (n : Nat) (d : Dbg) (m : Machine) (w : World) (instr : Option Sig)
    (ret : Word) (hs : d.status = .stepOver ret) :
    actionReads env (n + 1) d m w instr =
      if m.pc == ret then
        actionReads env n { (if d.icount > 1 then say d "Reached::SubroutineEnd" else d) with status := .wait } m w instr
      else [] := by
  conv => lhs; unfold actionReads
  split
  · rename_i h; rw [hs] at h; cases h
  · rename_i ret' h
    rw [hs] at h
    simp only [Status.stepOver.injEq] at h
    subst h
    rfl
  · rename_i h1 h2; exact absurd hs (h2 ret)

theorem actionReads_running (env : Env) (n : Nat) (d : Dbg) (m : Machine) (w : World) (instr : Option Sig)
    (h1 : d.status ≠ .wait) (h2 : ∀ ret, d.status ≠ .stepOver ret) :
    actionReads env (n + 1) d m w instr = [] := by
  unfold actionReads
  split
  · rename_i h; exact absurd h h1
  · rename_i ret h; exact absurd h (h2 ret)
  · rfl

/-- If the status loop says `proceed`, then either it read nothing (machine and breakpoint list
untouched; it was not waiting), or the last command it read was a resuming command, read with the
machine exactly as it is returned. -/
theorem actionLoop_reads (env : Env) : ∀ (n : Nat) (d : Dbg) (m : Machine) (w : World) (instr : Option Sig)
    (d' : Dbg) (m' : Machine) (w' : World),
    actionLoop env n d m w instr = .action .proceed d' m' w' →
    (actionReads env n d m w instr = [] ∧ m' = m ∧ d'.bps = d.bps ∧ d.status ≠ .wait) ∨
    (∃ c, (actionReads env n d m w instr).getLast? = some ⟨c, m'.pc⟩ ∧ Resumes c = true)
  | 0, d, m, w, instr, d', m', w' => by simp [actionLoop]
  | n + 1, d, m, w, instr, d', m', w' => by
    intro h
    unfold actionLoop at h
    split at h
    · rename_i hs
      split at h
      · simp at h
      · rename_i c rest hc
        rw [actionReads_wait_cons env n d m w instr c rest hs hc]
        have hcl := runCommand_class env { d with cmds := rest } m w c
        split at h
        · rename_i d1 m1 w1 hr
          simp only [hr]
          right
          rcases actionLoop_reads env n d1 m1 w1 instr d' m' w' h with ⟨h1, h2, _, h4⟩ | ⟨c', h1, h2⟩
          · rcases hcl.1 d1 m1 w1 hr with h5 | ⟨h5, h6⟩
            · exact absurd (h5.trans hs) h4
            · refine ⟨c, ?_, h5⟩
              rw [h1, h2, h6]; rfl
          · refine ⟨c', ?_, h2⟩
            rw [getLast?_cons_of_ne_nil _ (by intro h0; rw [h0] at h1; simp at h1)]
            exact h1
        · rename_i a d1 m1 w1 hr
          simp at h
          exact absurd h.1 (hcl.2 a d1 m1 w1 hr)
        · simp at h
        · simp at h
    · rename_i ret hs
      rw [actionReads_stepOver env n d m w instr ret hs]
      split at h
      · rename_i hpc
        rw [if_pos hpc]
        rcases actionLoop_reads env n _ m w instr d' m' w' h with ⟨_, _, _, h4⟩ | h1
        · exact absurd rfl h4
        · exact Or.inr h1
      · rename_i hpc
        rw [if_neg hpc]
        simp at h; obtain ⟨rfl, rfl, rfl⟩ := h
        exact Or.inl ⟨rfl, rfl, rfl, by rw [hs]; simp⟩
    · rename_i cnt hs
      rw [actionReads_running env n d m w instr (by rw [hs]; simp) (by rw [hs]; simp)]
      split at h <;> (simp at h; obtain ⟨rfl, rfl, rfl⟩ := h; exact Or.inl ⟨rfl, rfl, rfl, by rw [hs]; simp⟩)
    · rename_i hs
      rw [actionReads_running env n d m w instr (by rw [hs]; simp) (by rw [hs]; simp)]
      simp at h; obtain ⟨rfl, rfl, rfl⟩ := h; exact Or.inl ⟨rfl, rfl, rfl, by rw [hs]; simp⟩
    · rename_i hs
      rw [actionReads_running env n d m w instr (by rw [hs]; simp) (by rw [hs]; simp)]
      split at h <;> (simp at h; obtain ⟨rfl, rfl, rfl⟩ := h; exact Or.inl ⟨rfl, rfl, rfl, by rw [hs]; simp⟩)

/-- The instrumentation counts what the model counts: one record per command read. -/
theorem actionReads_length (env : Env) : ∀ (n : Nat) (d : Dbg) (m : Machine) (w : World) (instr : Option Sig)
    (d' : Dbg), NextResult.dbg? (actionLoop env n d m w instr) = some d' →
    d.ncmds + (actionReads env n d m w instr).length = d'.ncmds
  | 0, d, m, w, instr, d' => by simp [actionLoop, NextResult.dbg?]
  | n + 1, d, m, w, instr, d' => by
    intro h
    unfold actionLoop at h
    split at h
    · rename_i hs
      split at h
      · rename_i hc
        rw [actionReads_wait_nil env n d m w instr hs hc]
        simp [NextResult.dbg?] at h; subst h; simp
      · rename_i c rest hc
        rw [actionReads_wait_cons env n d m w instr c rest hs hc]
        have hu : ∀ d1, (runCommand env { d with cmds := rest } m w c).dbg? = some d1 → d1.ncmds = d.ncmds + 1 :=
          fun d1 h1 => (runCommand_upd env _ m w c d1 h1).2.2.1
        split at h
        · rename_i d1 m1 w1 hr
          simp only [hr]
          have := actionReads_length env n d1 m1 w1 instr d' h
          have h1 := hu d1 (by rw [hr]; rfl)
          simp only [List.length_cons]; omega
        · rename_i a d1 m1 w1 hr
          simp only [hr]
          simp [NextResult.dbg?] at h; subst h
          have h1 := hu _ (by rw [hr]; rfl)
          simp only [List.length_cons, List.length_nil]; omega
        · rename_i cd d1 m1 w1 hr
          simp only [hr]
          simp [NextResult.dbg?] at h; subst h
          have h1 := hu _ (by rw [hr]; rfl)
          simp only [List.length_cons, List.length_nil]; omega
        · simp [NextResult.dbg?] at h
    · rename_i ret hs
      rw [actionReads_stepOver env n d m w instr ret hs]
      split at h
      · rename_i hpc
        rw [if_pos hpc]
        have := actionReads_length env n _ m w instr d' h
        rw [← this]
        congr 1
        split <;> rfl
      · rename_i hpc
        rw [if_neg hpc]
        simp [NextResult.dbg?] at h; subst h; simp
    · rename_i cnt hs
      rw [actionReads_running env n d m w instr (by rw [hs]; simp) (by rw [hs]; simp)]
      split at h <;> (simp [NextResult.dbg?] at h; subst h; simp)
    · rename_i hs
      rw [actionReads_running env n d m w instr (by rw [hs]; simp) (by rw [hs]; simp)]
      simp [NextResult.dbg?] at h; subst h; simp
    · rename_i hs
      rw [actionReads_running env n d m w instr (by rw [hs]; simp) (by rw [hs]; simp)]
      split at h <;> (simp [NextResult.dbg?] at h; subst h; simp [say])

/-- **Agreement (commands).** The number of `reads` recorded for a call of `next_action` is the
advance of the model's own counter of commands read. -/
theorem nextReads_length (env : Env) (d : Dbg) (m : Machine) (w : World) (d' : Dbg)
    (h : NextResult.dbg? (nextAction env d m w) = some d') :
    d.ncmds + (nextReads env d m w).length = d'.ncmds := by
  rw [nextAction_eq] at h
  have := actionReads_length env _ _ m w _ d' h
  rw [(preamble_facts d m).1] at this
  exact this

/-! ### The session invariant that replaces `Armed` -/

/-- Invariant of attached iterations: if no instruction has been executed since the last command
was read (`instruction_count = 0`), then the debugger is waiting for a command, or the machine is
parked on HALT or outside user space (where the preamble of `next_action` makes it wait). -/
def Fresh (d : Dbg) (m : Machine) : Prop :=
  d.icount = 0 → d.status = .wait ∨ sigOf (m.read m.pc) = some .halt ∨ Run.checkPcBounds m ≠ .eq

theorem fresh_newDbg (initial : Machine) (bpsRel : List Word) (cmds : List Command) (m : Machine) :
    Fresh (newDbg initial bpsRel cmds) m := fun _ => Or.inl rfl

/-- Every iteration that leaves the debugger attached re-establishes the invariant — whatever the
state before: an executing iteration leaves `instruction_count ≥ 1`, a stuttering one stays on HALT
or outside user space. -/
theorem iter_fresh (env : Env) (att : Bool) (d : Dbg) (m : Machine) (w : World) (d' : Dbg) (m' : Machine)
    (w' : World) (e : Option Word) (h : iter env att d m w = .cont true d' m' w' e) : Fresh d' m' := by
  unfold iter at h
  cases att with
  | false =>
    simp only [Bool.false_eq_true, if_false] at h
    split at h
    · simp at h
    · split at h
      · simp at h
      · simp at h
      · rcases C16.execOne_cases env false d m w with ⟨_, _, he⟩ | ⟨_, _, _, he⟩ | ⟨_, he⟩ <;>
          (rw [he] at h; simp at h)
  | true =>
    simp only [if_true] at h
    cases hn : nextAction env d m w with
    | panic s => rw [hn] at h; simp at h
    | exit c d1 m1 w1 => rw [hn] at h; simp at h
    | action a d1 m1 w1 =>
      rw [hn] at h
      cases a with
      | stopDebugger => simp at h
      | exitProgram => simp at h
      | proceed =>
        simp only at h
        split at h
        · rename_i hh
          simp at h; obtain ⟨rfl, rfl, rfl, rfl⟩ := h
          exact fun _ => Or.inr (Or.inl (by simpa using hh))
        · split at h
          · rename_i hb
            simp at h; obtain ⟨rfl, rfl, rfl, rfl⟩ := h
            exact fun _ => Or.inr (Or.inr (by simpa using hb))
          · rcases C16.execOne_cases env true
              { d1 with icount := if d1.icount < 4294967295 then d1.icount + 1 else d1.icount,
                        nexec := d1.nexec + 1 } m1 w1 with ⟨_, _, he⟩ | ⟨_, _, _, he⟩ | ⟨_, he⟩ <;>
              (rw [he] at h; simp at h)
            obtain ⟨h2, _⟩ := h
            intro h0
            rw [← h2] at h0
            simp only at h0
            split at h0 <;> omega

/-- Under the invariant, the preamble of `next_action` at a breakpointed PC always ends waiting:
either the breakpoint fires, or it has just fired and nothing was executed since — and then the
debugger is (still) waiting, or is made to wait by HALT / the bounds check. -/
theorem preamble_waits (d : Dbg) (m : Machine) (hf : Fresh d m) (hb : (bpGet d.bps m.pc).isSome) :
    (preamble d m).status = .wait := by
  by_cases harm : d.curBp = some m.pc ∧ d.icount = 0
  · rcases hf harm.2 with h | h | h
    · unfold preamble
      cases Run.checkPcBounds m <;> exact checkInterrupts_wait _ _ _ (by first | rfl | exact h)
    · unfold preamble
      rw [h]; exact checkInterrupts_halt _ _
    · unfold preamble
      cases hc : Run.checkPcBounds m with
      | eq => exact absurd hc h
      | lt => exact checkInterrupts_wait _ _ _ rfl
      | gt => exact checkInterrupts_wait _ _ _ rfl
  · exact (preamble_fires d m ⟨hb, harm⟩).1

/-- What an executing attached iteration looks like. -/
theorem iter_exec_inv (env : Env) (d : Dbg) (m : Machine) (w : World) (a : Word)
    (h : iterExec (iter env true d m w) = some a) :
    ∃ d1 m1 w1, nextAction env d m w = .action .proceed d1 m1 w1 ∧ m1.pc = a := by
  unfold iter at h
  simp only [if_true] at h
  cases hn : nextAction env d m w with
  | panic s => rw [hn] at h; simp [iterExec] at h
  | exit c d1 m1 w1 => rw [hn] at h; simp [iterExec] at h
  | action act d1 m1 w1 =>
    rw [hn] at h
    cases act with
    | stopDebugger => simp [iterExec] at h
    | exitProgram => simp [iterExec] at h
    | proceed =>
      refine ⟨d1, m1, w1, rfl, ?_⟩
      simp only at h
      split at h
      · simp [iterExec] at h
      · split at h
        · simp [iterExec] at h
        · rcases C16.execOne_cases env true
            { d1 with icount := if d1.icount < 4294967295 then d1.icount + 1 else d1.icount,
                      nexec := d1.nexec + 1 } m1 w1 with ⟨_, _, he⟩ | ⟨_, _, _, he⟩ | ⟨_, he⟩ <;>
            (rw [he] at h; simp [iterExec] at h)
          · exact h
          · exact h

/-- **C11 pause before execution, one iteration, no `Armed`.** Under the session invariant, an
attached iteration that executes the instruction at `a` while the breakpoint list in force when
`next_action` returns holds a breakpoint at `a` has read at least one command, and the last
command it read was a resuming command read with the machine at PC = `a`. -/
theorem iter_bp_exec_reads (env : Env) (d : Dbg) (m : Machine) (w : World) (hf : Fresh d m) (a : Word)
    (hx : (iterRec env true d m w).exec = some a)
    (hb : (bpGet (iterRec env true d m w).bpsAfter a).isSome) :
    ∃ c, (iterRec env true d m w).reads.getLast? = some ⟨c, a⟩ ∧ Resumes c = true := by
  obtain ⟨d1, m1, w1, hn, hpc⟩ := iter_exec_inv env d m w a hx
  simp only [iterRec, if_true, hn] at hb ⊢
  have hn' := hn
  rw [nextAction_eq] at hn'
  rcases actionLoop_reads env _ _ m w _ d1 m1 w1 hn' with ⟨_, h2, h3, h4⟩ | ⟨c, h1, h2⟩
  · exfalso
    apply h4
    apply preamble_waits d m hf
    rw [← preamble_bps d m, ← h3, ← h2, hpc]
    exact hb
  · exact ⟨c, by rw [← hpc]; exact h1, h2⟩

/-! ### T1: whole sessions -/

/-- T1 for any start state that satisfies the invariant. -/
theorem bp_pause_before_exec_from (env : Env) : ∀ (n : Nat) (att : Bool) (d : Dbg) (m : Machine) (w : World),
    (att = true → Fresh d m) →
    ∀ r ∈ runTrace env n att d m w, r.attached = true → ∀ a, r.exec = some a →
      (bpGet r.bpsAfter a).isSome → ∃ c, r.reads.getLast? = some ⟨c, a⟩ ∧ Resumes c = true
  | 0, _, _, _, _ => by intro _ r hr; simp [runTrace] at hr
  | n + 1, att, d, m, w => by
    intro hf r hr hatt a hx hb
    unfold runTrace at hr
    rcases List.mem_cons.mp hr with rfl | hr
    · have : att = true := hatt
      subst this
      exact iter_bp_exec_reads env d m w (hf rfl) a hx hb
    · cases hit : iter env att d m w with
      | cont a1 d1 m1 w1 e =>
        rw [hit] at hr
        refine bp_pause_before_exec_from env n a1 d1 m1 w1 ?_ r hr hatt a hx hb
        intro ha1; subst ha1
        exact iter_fresh env att d m w d1 m1 w1 e hit
      | done a1 d1 m1 w1 => rw [hit] at hr; simp at hr
      | exit c a1 d1 m1 w1 e => rw [hit] at hr; simp at hr
      | panic s => rw [hit] at hr; simp at hr

/-- **C11 (T1) — pause before execution, whole sessions.** Take any session: any program and
machine `m`, any world, any assembler environment, any `.break` list `bpsRel`, any script `cmds`,
any number `n` of iterations of `RunEnvironment::run` with the debugger attached.  For every
iteration `r` of that session that the debugger is still attached to and that executes the
instruction at `a` (`r.exec = some a`): if the breakpoint list in force when that iteration's
`next_action` returned holds a breakpoint at `a`, then the iteration read at least one command,
and the last command it read — immediately before the instruction executed — was a resuming
command (`continue`, `step`, `step into`, `step out`) read while the machine stood at PC = `a`.
The debugger was paused at `a` and the user resumed.  (No `Armed` hypothesis.) -/
theorem bp_pause_before_exec_trace (env : Env) (n : Nat) (initial m : Machine) (w : World)
    (bpsRel : List Word) (cmds : List Command) :
    ∀ r ∈ runTrace env n true (newDbg initial bpsRel cmds) m w, r.attached = true →
    ∀ a, r.exec = some a → (bpGet r.bpsAfter a).isSome →
      ∃ c, r.reads.getLast? = some ⟨c, a⟩ ∧ Resumes c = true :=
  bp_pause_before_exec_from env n true _ m w (fun _ => fresh_newDbg initial bpsRel cmds m)

/-! ### T2: a removed (or never added) breakpoint never pauses -/

/-- The line the debugger prints (minimal mode) when a breakpoint pauses execution. -/
def bpLine : List Char := "Reached::Breakpoint".toList

theorem bpLine_ne_halt : bpLine ≠ "Reached::Halt".toList := by unfold bpLine; decide
theorem bpLine_ne_oob : bpLine ≠ "OutOfBounds::ProgramCounter".toList := by unfold bpLine; decide
theorem bpLine_notin_oob : bpLine ∉ ["OutOfBounds::ProgramCounter".toList] := by
  intro h; rcases List.mem_cons.mp h with h | h
  · exact bpLine_ne_oob h
  · cases h

/-- What the preamble of `next_action` prints: it only adds lines in front, and
`Reached::Breakpoint` is among them only if the list holds a breakpoint at the PC. -/
theorem preamble_said (d : Dbg) (m : Machine) :
    ∃ pre, (preamble d m).errRev = pre ++ d.errRev ∧ (bpLine ∈ pre → (bpGet d.bps m.pc).isSome) := by
  have key : ∀ (d0 : Dbg) (pre0 : List (List Char)), d0.errRev = pre0 ++ d.errRev → d0.bps = d.bps →
      bpLine ∉ pre0 →
      ∃ pre, (checkInterrupts d0 m.pc (sigOf (m.read m.pc))).errRev = pre ++ d.errRev ∧
        (bpLine ∈ pre → (bpGet d.bps m.pc).isSome) := by
    intro d0 pre0 he hbps hn
    unfold checkInterrupts
    rw [hbps]
    cases hg : bpGet d.bps m.pc with
    | some b =>
      simp only
      split
      · exact ⟨"Reached::Breakpoint".toList :: pre0, by simp [say, he], fun _ => rfl⟩
      · split
        · exact ⟨"Reached::Halt".toList :: pre0, by simp [say, he], fun _ => rfl⟩
        · exact ⟨pre0, he, fun _ => rfl⟩
    | none =>
      simp only
      split
      · refine ⟨"Reached::Halt".toList :: pre0, by simp [say, he], fun h => ?_⟩
        rcases List.mem_cons.mp h with h | h
        · exact absurd h bpLine_ne_halt
        · exact absurd h hn
      · exact ⟨pre0, he, fun h => absurd h hn⟩
  unfold preamble
  cases Run.checkPcBounds m <;> simp only
  · exact key _ ["OutOfBounds::ProgramCounter".toList] rfl rfl bpLine_notin_oob
  · exact key _ [] rfl rfl (by simp)
  · exact key _ ["OutOfBounds::ProgramCounter".toList] rfl rfl bpLine_notin_oob

/-- `preSaid` is exactly what the preamble put in front of the log. -/
theorem preSaid_spec (env : Env) (d : Dbg) (m : Machine) (w : World) :
    (preamble d m).errRev = (iterRec env true d m w).preSaid ++ d.errRev := by
  obtain ⟨pre, h, _⟩ := preamble_said d m
  simp only [iterRec, if_true]
  rw [h, newLines_append]

/-- One iteration: `Reached::Breakpoint` is printed by the bounds check / `check_interrupts` of an
iteration only if the breakpoint list holds a breakpoint at the PC at that moment. -/
theorem iter_bp_line (env : Env) (att : Bool) (d : Dbg) (m : Machine) (w : World)
    (h : bpLine ∈ (iterRec env att d m w).preSaid) : (bpGet d.bps m.pc).isSome := by
  cases att with
  | false => simp [iterRec] at h
  | true =>
    obtain ⟨pre, he, hp⟩ := preamble_said d m
    simp only [iterRec, if_true] at h
    rw [he, newLines_append] at h
    exact hp h

/-- A property of every record of a trace, from a property of every iteration. -/
theorem runTrace_forall (env : Env) (P : IterRec → Prop)
    (hP : ∀ att d m w, P (iterRec env att d m w)) :
    ∀ (n : Nat) (att : Bool) (d : Dbg) (m : Machine) (w : World), ∀ r ∈ runTrace env n att d m w, P r
  | 0, _, _, _, _ => by intro r hr; simp [runTrace] at hr
  | n + 1, att, d, m, w => by
    intro r hr
    unfold runTrace at hr
    rcases List.mem_cons.mp hr with rfl | hr
    · exact hP att d m w
    · cases hit : iter env att d m w with
      | cont a1 d1 m1 w1 e => rw [hit] at hr; exact runTrace_forall env P hP n a1 d1 m1 w1 r hr
      | done a1 d1 m1 w1 => rw [hit] at hr; simp at hr
      | exit c a1 d1 m1 w1 e => rw [hit] at hr; simp at hr
      | panic s => rw [hit] at hr; simp at hr

/-- **C11 (T2) — a removed breakpoint never pauses, whole sessions.** In any session, for every
iteration: if at the start of the iteration the list holds no breakpoint at the PC (never added,
or removed by `break remove`), the iteration's interrupt check does not print
`Reached::Breakpoint`.  Equivalently: the line is printed only where `bpGet bps pc` is `some` at
that moment. -/
theorem bp_removed_never_pauses_trace (env : Env) (n : Nat) (initial m : Machine) (w : World)
    (bpsRel : List Word) (cmds : List Command) :
    ∀ r ∈ runTrace env n true (newDbg initial bpsRel cmds) m w,
      bpGet r.bpsBefore r.pc = none → bpLine ∉ r.preSaid := by
  intro r hr hnone hin
  have := runTrace_forall env (fun r => bpLine ∈ r.preSaid → (bpGet r.bpsBefore r.pc).isSome)
    (fun att d m w h => iter_bp_line env att d m w h) n true _ m w r hr hin
  rw [hnone] at this
  cases this

/-- One iteration with no breakpoint at an executable PC and a running status (`continue`,
`step into`, `step out`, or `step` that has not come back to its return address): the debugger
prints nothing before the status loop, reads no command, and the breakpoint list is unchanged. -/
theorem iter_no_bp_runs_on (env : Env) (d : Dbg) (m : Machine) (w : World)
    (hb : bpGet d.bps m.pc = none) (hx : (iterRec env true d m w).executable = true)
    (hs : d.status ≠ .wait) (hso : d.status ≠ .stepOver m.pc) :
    (iterRec env true d m w).preSaid = [] ∧ (iterRec env true d m w).reads = [] ∧
    (iterRec env true d m w).bpsAfter = d.bps := by
  simp only [iterRec, Bool.and_eq_true, beq_iff_eq, bne_iff_ne, ne_eq] at hx
  obtain ⟨hbounds, hh⟩ := hx
  have hp : preamble d m = { d with curBp := none } := by
    unfold preamble
    rw [hbounds]
    simp only [checkInterrupts, hb]
    have : (sigOf (m.read m.pc) == some Sig.halt) = false := by simpa using hh
    rw [if_neg (by simp [this])]
  have hpre : (iterRec env true d m w).preSaid = [] := by
    simp only [iterRec, if_true, hp]
    exact newLines_append [] d.errRev
  refine ⟨hpre, ?_, ?_⟩
  · simp only [iterRec, if_true, nextReads, hp]
    cases hst : d.status with
    | wait => exact absurd hst hs
    | stepOver ret =>
      rw [show 2 * d.cmds.length + 3 = (2 * d.cmds.length + 2) + 1 from rfl,
        actionReads_stepOver env _ _ m w _ ret rfl]
      have : ¬ (m.pc == ret) = true := by
        intro h; apply hso; rw [hst, eq_of_beq h]
      rw [if_neg this]
    | stepInto c => exact actionReads_running env (2 * d.cmds.length + 2) _ m w _ (by simp) (by simp)
    | cont => exact actionReads_running env (2 * d.cmds.length + 2) _ m w _ (by simp) (by simp)
    | finish => exact actionReads_running env (2 * d.cmds.length + 2) _ m w _ (by simp) (by simp)
  · simp only [iterRec, if_true]
    rw [nextAction_eq, hp]
    unfold actionLoop
    cases hst : d.status with
    | wait => exact absurd hst hs
    | stepOver ret =>
      have : ¬ (m.pc == ret) = true := by
        intro h; apply hso; rw [hst, eq_of_beq h]
      simp only [if_neg this]
    | stepInto c => by_cases hc : c.toNat > 0 <;> simp only [hc, if_true, if_false]
    | cont => rfl
    | finish =>
      by_cases hc : (sigOf (m.read m.pc) == some Sig.ret) = true
      · simp only [hc, if_true]; rfl
      · simp only [hc]; rfl

/-- **C11 (T2, positive form) — with no breakpoint the run goes on, whole sessions.** In any
session, an attached iteration that starts at an executable PC (in user space, not HALT) carrying
no breakpoint, in a running status, prints no interrupt line and reads no command: it does not
pause. -/
theorem no_bp_runs_on_trace (env : Env) (n : Nat) (initial m : Machine) (w : World)
    (bpsRel : List Word) (cmds : List Command) :
    ∀ r ∈ runTrace env n true (newDbg initial bpsRel cmds) m w, r.attached = true →
      bpGet r.bpsBefore r.pc = none → r.executable = true → r.status ≠ .wait →
      r.status ≠ .stepOver r.pc → r.preSaid = [] ∧ r.reads = [] ∧ r.bpsAfter = r.bpsBefore := by
  refine runTrace_forall env _ ?_ n true _ m w
  intro att d m w hatt
  have : att = true := hatt
  subst this
  exact fun hb hx hs hso => iter_no_bp_runs_on env d m w hb hx hs hso

/-! ### T2 for everything an iteration prints -/

/-- The assembler environment never hands the debugger the text `Reached::Breakpoint` to print
(as a refusal line of `eval`, or as the source text of a statement for `assembly`). -/
def EnvClean (env : Env) : Prop :=
  (∀ m w t lines, env.eval m w t = .refused lines → bpLine ∉ lines) ∧
  (∀ i t, env.stmtText i = some t → t ≠ bpLine)

/-- `d'` has printed some more lines than `d`, none of them `Reached::Breakpoint`. -/
def Ext (d d' : Dbg) : Prop := ∃ new, d'.errRev = new ++ d.errRev ∧ bpLine ∉ new

theorem Ext.refl (d : Dbg) : Ext d d := ⟨[], rfl, by simp⟩
theorem Ext.of_eq {d d' : Dbg} (h : d'.errRev = d.errRev) : Ext d d' := ⟨[], by simp [h], by simp⟩
theorem Ext.trans {a b c : Dbg} (h1 : Ext a b) (h2 : Ext b c) : Ext a c := by
  obtain ⟨n1, e1, c1⟩ := h1
  obtain ⟨n2, e2, c2⟩ := h2
  refine ⟨n2 ++ n1, by rw [e2, e1, List.append_assoc], ?_⟩
  intro h
  rcases List.mem_append.mp h with h | h
  · exact c2 h
  · exact c1 h
theorem Ext.sayL (d : Dbg) (l : List Char) (h : l ≠ bpLine) : Ext d (sayL d l) :=
  ⟨[l], rfl, by intro hm; rcases List.mem_cons.mp hm with hm | hm; exact h hm.symm; cases hm⟩
theorem Ext.say (d : Dbg) (s : String) (h : s.toList ≠ bpLine) : Ext d (say d s) := Ext.sayL d _ h

theorem bpLine_no_space : ' ' ∉ bpLine := by unfold bpLine; decide
theorem ne_bpLine_of_space {l : List Char} (h : ' ' ∈ l) : l ≠ bpLine := fun e => bpLine_no_space (e ▸ h)
theorem ne_bpLine_of_head {c : Char} {l : List Char} (h : c ≠ 'R') : c :: l ≠ bpLine := by
  intro e
  unfold bpLine at e
  have : (c :: l).head? = some 'R' := by rw [e]; decide
  simp at this
  exact h this

theorem Ext.foldl_sayL (lines : List (List Char)) (h : bpLine ∉ lines) : ∀ d, Ext d (lines.foldl Dbg.sayL d) := by
  induction lines with
  | nil => exact fun d => Ext.refl d
  | cons l ls ih =>
    intro d
    rw [List.foldl_cons]
    exact (Ext.sayL d l (fun e => h (by rw [e]; exact List.mem_cons_self))).trans
      (ih (fun hm => h (List.mem_cons_of_mem _ hm)) _)

theorem Ext.foldl_bps (bs : Breakpoints) : ∀ d, Ext d (bs.foldl (fun d b => Dbg.sayL d ('x' :: hex4 b.address)) d) := by
  induction bs with
  | nil => exact fun d => Ext.refl d
  | cons b rest ih =>
    intro d
    rw [List.foldl_cons]
    exact (Ext.sayL d _ (ne_bpLine_of_head (by decide))).trans (ih _)

theorem Ext.printRegisters (d : Dbg) (m : Machine) : Ext d (printRegisters d m) := by
  unfold Dbg.printRegisters
  have hf : ∀ (l : List Nat) (d : Dbg), Ext d (l.foldl (fun d i =>
      Dbg.sayL d (['R'] ++ decNat i ++ [' ', 'x'] ++ hex4 (m.reg.toArray.getD i 0))) d) := by
    intro l
    induction l with
    | nil => exact fun d => Ext.refl d
    | cons i rest ih =>
      intro d
      rw [List.foldl_cons]
      exact (Ext.sayL d _ (ne_bpLine_of_space (by simp))).trans (ih _)
  exact ((hf _ d).trans (Ext.sayL _ _ (ne_bpLine_of_space (by simp)))).trans
    (Ext.sayL _ _ (ne_bpLine_of_space (by simp)))

theorem resolveLocation_err (env : Env) (orig : Word) (m : Machine) (l : MemLoc) (e : String)
    (h : resolveLocation env orig m l = .error e) : e.toList ≠ bpLine := by
  unfold resolveLocation at h
  split at h
  · cases h
  · split at h
    · cases h
    · simp only [Except.error.injEq] at h; subst h; unfold bpLine; decide
  · split at h
    · simp only [Except.error.injEq] at h; subst h; unfold bpLine; decide
    · split at h
      · cases h
      · simp only [Except.error.injEq] at h; subst h; unfold bpLine; decide

theorem resolveUser_err (env : Env) (orig : Word) (m : Machine) (l : MemLoc) (e : String)
    (h : resolveUser env orig m l = .error e) : e.toList ≠ bpLine := by
  unfold resolveUser at h
  split at h
  · rename_i e' he
    simp only [Except.error.injEq] at h; subst h
    exact resolveLocation_err env orig m l _ he
  · split at h
    · cases h
    · simp only [Except.error.injEq] at h; subst h; unfold bpLine; decide

/-- No command prints `Reached::Breakpoint`. -/
theorem runCommand_ext (env : Env) (henv : EnvClean env) (d : Dbg) (m : Machine) (w : World) (c : Command) :
    ∀ d', (runCommand env d m w c).dbg? = some d' → Ext d d' := by
  intro d' hd
  have hb : Ext d (base d) := Ext.of_eq rfl
  have L : ∀ s : String, s.toList ≠ bpLine → Ext d (say (base d) s) := fun s h => hb.trans (Ext.say _ s h)
  cases c <;> simp only [runCommand] at hd
  case help => simp [CmdResult.dbg?] at hd; subst hd; exact L _ (by unfold bpLine; decide)
  case quit => simp [CmdResult.dbg?] at hd; subst hd; exact hb
  case exit => simp [CmdResult.dbg?] at hd; subst hd; exact hb
  case reset => simp [CmdResult.dbg?] at hd; subst hd; exact hb
  case echo s =>
    simp [CmdResult.dbg?] at hd; subst hd
    exact hb.trans (Ext.sayL _ _ (ne_bpLine_of_head (by decide)))
  case stepOver =>
    split at hd
    · simp [CmdResult.dbg?] at hd; subst hd; exact L _ (by unfold bpLine; decide)
    · split at hd <;> (simp [CmdResult.dbg?] at hd; subst hd; exact Ext.of_eq rfl)
  case stepInto cnt =>
    split at hd
    · simp [CmdResult.dbg?] at hd; subst hd; exact L _ (by unfold bpLine; decide)
    · split at hd
      · simp [CmdResult.dbg?] at hd
      · simp [CmdResult.dbg?] at hd; subst hd; exact Ext.of_eq rfl
  case stepOut =>
    split at hd
    · simp [CmdResult.dbg?] at hd; subst hd; exact L _ (by unfold bpLine; decide)
    · split at hd <;> (simp [CmdResult.dbg?] at hd; subst hd)
      · exact L _ (by unfold bpLine; decide)
      · exact Ext.of_eq rfl
  case continue_ =>
    split at hd <;> (simp [CmdResult.dbg?] at hd; subst hd)
    · exact L _ (by unfold bpLine; decide)
    · exact Ext.of_eq rfl
  case goto l =>
    split at hd <;> (simp [CmdResult.dbg?] at hd; subst hd)
    · rename_i e he; exact L _ (resolveUser_err _ _ _ _ e he)
    · exact hb
  case breakAdd l =>
    split at hd
    · rename_i e he
      simp [CmdResult.dbg?] at hd; subst hd; exact L _ (resolveUser_err _ _ _ _ e he)
    · split at hd <;> (simp [CmdResult.dbg?] at hd; subst hd)
      · exact L _ (by unfold bpLine; decide)
      · exact Ext.of_eq rfl
  case breakRemove l =>
    split at hd
    · rename_i e he
      simp [CmdResult.dbg?] at hd; subst hd; exact L _ (resolveUser_err _ _ _ _ e he)
    · split at hd <;> (simp [CmdResult.dbg?] at hd; subst hd)
      · exact Ext.of_eq rfl
      · exact L _ (by unfold bpLine; decide)
  case registers =>
    simp [CmdResult.dbg?] at hd; subst hd
    exact hb.trans (Ext.printRegisters _ m)
  case breakList =>
    split at hd <;> (simp [CmdResult.dbg?] at hd; subst hd)
    · exact L _ (by unfold bpLine; decide)
    · exact hb.trans (Ext.foldl_bps _ _)
  case eval t =>
    split at hd <;> simp [CmdResult.dbg?] at hd
    · subst hd; exact hb
    · rename_i lines hl
      subst hd
      exact hb.trans (Ext.foldl_sayL lines (henv.1 _ _ _ _ hl) _)
    · subst hd; exact hb
  case print l =>
    cases l with
    | reg r =>
      simp [CmdResult.dbg?] at hd; subst hd
      exact hb.trans (Ext.sayL _ _ (ne_bpLine_of_head (by decide)))
    | mem l =>
      simp only at hd
      split at hd <;> (simp [CmdResult.dbg?] at hd; subst hd)
      · rename_i e he; exact L _ (resolveLocation_err _ _ _ _ e he)
      · exact hb.trans (Ext.sayL _ _ (ne_bpLine_of_head (by decide)))
  case move l v =>
    cases l with
    | reg r => simp [CmdResult.dbg?] at hd; subst hd; exact hb
    | mem l =>
      simp only at hd
      split at hd <;> (simp [CmdResult.dbg?] at hd; subst hd)
      · rename_i e he; exact L _ (resolveUser_err _ _ _ _ e he)
      · exact hb
  case assembly l =>
    split at hd
    · rename_i e he
      simp [CmdResult.dbg?] at hd; subst hd; exact L _ (resolveLocation_err _ _ _ _ e he)
    · split at hd
      · simp [CmdResult.dbg?] at hd; subst hd; exact hb
      · split at hd
        · rename_i t ht
          split at hd <;> (simp [CmdResult.dbg?] at hd; subst hd)
          · exact hb
          · exact hb.trans (Ext.sayL _ _ (henv.2 _ _ ht))
        · simp [CmdResult.dbg?] at hd; subst hd; exact hb

/-- The status loop never prints `Reached::Breakpoint`. -/
theorem actionLoop_ext (env : Env) (henv : EnvClean env) : ∀ (n : Nat) (d : Dbg) (m : Machine) (w : World)
    (instr : Option Sig), ∀ d', NextResult.dbg? (actionLoop env n d m w instr) = some d' → Ext d d'
  | 0, d, m, w, instr => by simp [actionLoop, NextResult.dbg?]
  | n + 1, d, m, w, instr => by
    intro d' hd
    unfold actionLoop at hd
    split at hd
    · split at hd
      · simp [NextResult.dbg?] at hd; subst hd; exact Ext.of_eq rfl
      · rename_i c rest hc
        have hstep : ∀ d1, (runCommand env { d with cmds := rest } m w c).dbg? = some d1 → Ext d d1 :=
          fun d1 h1 => (Ext.of_eq (d := d) (d' := { d with cmds := rest }) rfl).trans
            (runCommand_ext env henv _ m w c d1 h1)
        split at hd
        · rename_i d1 m1 w1 hr
          exact (hstep d1 (by rw [hr]; rfl)).trans (actionLoop_ext env henv n d1 m1 w1 instr d' hd)
        · rename_i a d1 m1 w1 hr
          simp [NextResult.dbg?] at hd; subst hd; exact hstep _ (by rw [hr]; rfl)
        · rename_i cd d1 m1 w1 hr
          simp [NextResult.dbg?] at hd; subst hd; exact hstep _ (by rw [hr]; rfl)
        · simp [NextResult.dbg?] at hd
    · split at hd
      · refine Ext.trans ?_ (actionLoop_ext env henv n _ m w instr d' hd)
        split
        · exact (Ext.say d _ (by unfold bpLine; decide)).trans (Ext.of_eq rfl)
        · exact Ext.of_eq rfl
      · simp [NextResult.dbg?] at hd; subst hd; exact Ext.refl d
    · split at hd <;> (simp [NextResult.dbg?] at hd; subst hd; exact Ext.of_eq rfl)
    · simp [NextResult.dbg?] at hd; subst hd; exact Ext.refl d
    · split at hd <;> (simp [NextResult.dbg?] at hd; subst hd)
      · exact (Ext.say d _ (by unfold bpLine; decide)).trans (Ext.of_eq rfl)
      · exact Ext.refl d

/-- One iteration: everything printed is the interrupt check's lines followed (in time) by lines
that are not `Reached::Breakpoint` (an iteration that panics has no record of printed lines). -/
theorem iter_said (env : Env) (henv : EnvClean env) (att : Bool) (d : Dbg) (m : Machine) (w : World) :
    (iterRec env att d m w).said = [] ∨
    ∃ post, (iterRec env att d m w).said = post ++ (iterRec env att d m w).preSaid ∧ bpLine ∉ post := by
  cases hi : C12.Iter.dbg? (iter env att d m w) with
  | none => exact Or.inl (by simp [iterRec, hi])
  | some d' =>
    right
    cases att with
    | false =>
      refine ⟨[], ?_, by simp⟩
      simp only [iterRec, hi, Bool.false_eq_true, if_false, List.append_nil]
      have : d'.errRev = d.errRev := by
        unfold iter at hi
        simp only [Bool.false_eq_true, if_false] at hi
        split at hi
        · simp [C12.Iter.dbg?] at hi; rw [← hi]
        · split at hi
          · simp [C12.Iter.dbg?] at hi; rw [← hi]
          · simp [C12.Iter.dbg?] at hi; rw [← hi]
          · rcases C16.execOne_cases env false d m w with ⟨_, _, he⟩ | ⟨_, _, _, he⟩ | ⟨_, he⟩ <;>
              (rw [he] at hi; simp [C12.Iter.dbg?] at hi)
            · rw [← hi]
            · rw [← hi]
      rw [this]
      exact newLines_append [] d.errRev
    | true =>
      -- the record after `next_action`, then possibly the execution bookkeeping (no printing)
      have key : ∃ d1, NextResult.dbg? (nextAction env d m w) = some d1 ∧ d'.errRev = d1.errRev := by
        unfold iter at hi
        simp only [if_true] at hi
        cases hn : nextAction env d m w with
        | panic s => rw [hn] at hi; simp [C12.Iter.dbg?] at hi
        | exit c d1 m1 w1 => rw [hn] at hi; simp [C12.Iter.dbg?] at hi; exact ⟨d1, rfl, by rw [hi]⟩
        | action a d1 m1 w1 =>
          rw [hn] at hi
          refine ⟨d1, rfl, ?_⟩
          cases a with
          | stopDebugger => simp [C12.Iter.dbg?] at hi; rw [hi]
          | exitProgram => simp [C12.Iter.dbg?] at hi; rw [hi]
          | proceed =>
            simp only at hi
            split at hi
            · simp [C12.Iter.dbg?] at hi; rw [hi]
            · split at hi
              · simp [C12.Iter.dbg?] at hi; rw [hi]
              · rcases C16.execOne_cases env true
                  { d1 with icount := if d1.icount < 4294967295 then d1.icount + 1 else d1.icount,
                            nexec := d1.nexec + 1 } m1 w1 with ⟨_, _, he⟩ | ⟨_, _, _, he⟩ | ⟨_, he⟩ <;>
                  (rw [he] at hi; simp [C12.Iter.dbg?] at hi)
                · rw [← hi]
                · rw [← hi]
      obtain ⟨d1, hn, he⟩ := key
      rw [nextAction_eq] at hn
      obtain ⟨post, hp, hc⟩ := actionLoop_ext env henv _ _ m w _ d1 hn
      refine ⟨post, ?_, hc⟩
      obtain ⟨pre, hpre, _⟩ := preamble_said d m
      simp only [iterRec, hi, if_true]
      rw [he, hp, hpre, newLines_append, ← List.append_assoc, newLines_append]

/-- **C11 (T2, every line) — whole sessions.** Provided the assembler environment itself does not
supply the text (`EnvClean`: no `eval` refusal line and no statement source text is literally
`Reached::Breakpoint`), NOTHING an iteration prints — interrupt check, commands, status loop — is
`Reached::Breakpoint` unless the list holds a breakpoint at the PC when the iteration starts. -/
theorem bp_line_only_at_breakpoint_trace (env : Env) (henv : EnvClean env) (n : Nat) (initial m : Machine)
    (w : World) (bpsRel : List Word) (cmds : List Command) :
    ∀ r ∈ runTrace env n true (newDbg initial bpsRel cmds) m w,
      bpGet r.bpsBefore r.pc = none → bpLine ∉ r.said := by
  intro r hr hnone hin
  have := runTrace_forall env (fun r => bpLine ∈ r.said → (bpGet r.bpsBefore r.pc).isSome)
    (fun att d m w h => by
      rcases iter_said env henv att d m w with h0 | ⟨post, hp, hc⟩
      · rw [h0] at h; cases h
      rw [hp] at h
      rcases List.mem_append.mp h with h | h
      · exact absurd h hc
      · exact iter_bp_line env att d m w h) n true _ m w r hr hin
  rw [hnone] at this
  cases this

/-! ### T3: the event log of a session -/

/-- Events of a session, in order of occurrence. -/
inductive Ev where
  /-- a command was read while the machine stood at `pc` -/
  | read (c : Command) (pc : Word)
  /-- the instruction at `a` was executed; `guarded` = the debugger was attached and the breakpoint
  list in force held a breakpoint at `a` -/
  | exec (a : Word) (guarded : Bool)
  deriving DecidableEq, Repr

/-- The events of one iteration: the commands read, then the instruction executed (if any). -/
def IterRec.events (r : IterRec) : List Ev :=
  r.reads.map (fun x => Ev.read x.cmd x.pc) ++
    match r.exec with
    | some a => [Ev.exec a (r.attached && (bpGet r.bpsAfter a).isSome)]
    | none => []

def sessionEvents (tr : List IterRec) : List Ev := tr.flatMap IterRec.events

/-- Every guarded execution is immediately preceded by a resuming command read at that address. -/
def Guarded (evs : List Ev) : Prop :=
  ∀ pre a post, evs = pre ++ Ev.exec a true :: post →
    ∃ pre' c, pre = pre' ++ [Ev.read c a] ∧ Resumes c = true

theorem Guarded.nil : Guarded [] := by
  intro pre a post h
  have := congrArg List.length h
  simp at this

theorem Guarded.append {xs ys : List Ev} (hx : Guarded xs) (hy : Guarded ys) : Guarded (xs ++ ys) := by
  intro pre a post h
  rcases List.append_eq_append_iff.mp h with ⟨p', h1, h2⟩ | ⟨q, h1, h2⟩
  · -- pre = xs ++ p', ys = p' ++ exec :: post
    obtain ⟨pre', c, h3, h4⟩ := hy p' a post h2
    exact ⟨xs ++ pre', c, by rw [h1, h3, List.append_assoc], h4⟩
  · -- xs = pre ++ q, exec :: post = q ++ ys
    cases q with
    | nil =>
      simp only [List.nil_append] at h2
      obtain ⟨pre', c, h3, _⟩ := hy [] a post h2.symm
      have := congrArg List.length h3
      simp at this
    | cons e q' =>
      simp only [List.cons_append, List.cons.injEq] at h2
      obtain ⟨rfl, _⟩ := h2
      exact hx pre a q' h1

theorem guarded_flatMap (tr : List IterRec) (h : ∀ r ∈ tr, Guarded r.events) : Guarded (sessionEvents tr) := by
  induction tr with
  | nil => exact Guarded.nil
  | cons r rs ih =>
    unfold sessionEvents
    rw [List.flatMap_cons]
    exact (h r List.mem_cons_self).append (ih fun r' hr' => h r' (List.mem_cons_of_mem _ hr'))

/-- The events of one iteration are guarded as soon as the iteration satisfies T1. -/
theorem events_guarded (r : IterRec)
    (h : r.attached = true → ∀ a, r.exec = some a → (bpGet r.bpsAfter a).isSome →
      ∃ c, r.reads.getLast? = some ⟨c, a⟩ ∧ Resumes c = true) : Guarded r.events := by
  intro pre a post he
  unfold IterRec.events at he
  cases hx : r.exec with
  | none =>
    rw [hx] at he
    simp only [List.append_nil] at he
    have : Ev.exec a true ∈ r.reads.map (fun x => Ev.read x.cmd x.pc) := by rw [he]; simp
    simp at this
  | some b =>
    rw [hx] at he
    simp only at he
    -- the only `exec` event is the last one
    rcases List.append_eq_append_iff.mp he with ⟨p', h1, h2⟩ | ⟨q, h1, h2⟩
    · -- pre = reads ++ p', [exec b g] = p' ++ exec a true :: post
      cases p' with
      | nil =>
        simp only [List.nil_append, List.cons.injEq, Ev.exec.injEq] at h2
        obtain ⟨⟨rfl, hg⟩, _⟩ := h2
        simp only [Bool.and_eq_true] at hg
        obtain ⟨c, hl, hr⟩ := h hg.1 b hx hg.2
        obtain ⟨ini, hini⟩ : ∃ ini, r.reads = ini ++ [⟨c, b⟩] := by
          have := List.getLast?_eq_some_iff.mp hl
          obtain ⟨ys, hys⟩ := this
          exact ⟨ys, hys⟩
        refine ⟨ini.map (fun x => Ev.read x.cmd x.pc), c, ?_, hr⟩
        rw [h1, hini]; simp
      | cons e p'' =>
        have := congrArg List.length h2
        simp at this
    · -- reads = pre ++ q, exec a true :: post = q ++ [exec b g]
      cases q with
      | nil =>
        -- same as above with p' = []
        simp only [List.nil_append, List.cons.injEq, Ev.exec.injEq] at h2
        obtain ⟨⟨rfl, hg⟩, _⟩ := h2
        have hg := hg.symm
        simp only [Bool.and_eq_true] at hg
        obtain ⟨c, hl, hr⟩ := h hg.1 a hx hg.2
        obtain ⟨ini, hini⟩ : ∃ ini, r.reads = ini ++ [⟨c, a⟩] := by
          have := List.getLast?_eq_some_iff.mp hl
          obtain ⟨ys, hys⟩ := this
          exact ⟨ys, hys⟩
        refine ⟨ini.map (fun x => Ev.read x.cmd x.pc), c, ?_, hr⟩
        simp only [List.append_nil] at h1
        rw [← h1, hini]; simp
      | cons e q' =>
        simp only [List.cons_append, List.cons.injEq] at h2
        obtain ⟨rfl, _⟩ := h2
        have : Ev.exec a true ∈ r.reads.map (fun x => Ev.read x.cmd x.pc) := by rw [h1]; simp
        simp at this

/-- **C11 (T3a) — every guarded execution is immediately preceded by a resuming command issued
while paused at that address.** In the event log of any session, an execution of the instruction
at `a` that happened with the debugger attached and a breakpoint at `a` in force is immediately
preceded by the reading of a resuming command at PC = `a`. -/
theorem bp_exec_preceded_by_resume (env : Env) (n : Nat) (initial m : Machine) (w : World)
    (bpsRel : List Word) (cmds : List Command) :
    Guarded (sessionEvents (runTrace env n true (newDbg initial bpsRel cmds) m w)) :=
  guarded_flatMap _ fun r hr =>
    events_guarded r (bp_pause_before_exec_trace env n initial m w bpsRel cmds r hr)

/-- **C11 (T3) — the breakpoint fires at every arrival.** In the event log of any session, two
consecutive executions of the instruction at `a` — the second one with the debugger attached and
a breakpoint at `a` in force — are separated by at least one command read while the machine was
paused at `a`; the last event between them is the resuming command.  This includes the one-
instruction loop `a: BR a`, where nothing else lies between two arrivals. -/
theorem bp_fires_every_arrival (env : Env) (n : Nat) (initial m : Machine) (w : World)
    (bpsRel : List Word) (cmds : List Command) (pre mid post : List Ev) (a : Word) (g : Bool)
    (h : sessionEvents (runTrace env n true (newDbg initial bpsRel cmds) m w) =
      pre ++ Ev.exec a g :: mid ++ Ev.exec a true :: post) :
    ∃ mid' c, mid = mid' ++ [Ev.read c a] ∧ Resumes c = true := by
  have hG := bp_exec_preceded_by_resume env n initial m w bpsRel cmds
  obtain ⟨pre', c, h1, h2⟩ := hG (pre ++ Ev.exec a g :: mid) a post (by rw [h])
  -- the last element of `pre ++ exec a g :: mid` is `read c a`, so `mid` is not empty
  rcases List.eq_nil_or_concat mid with rfl | ⟨mid', e, rfl⟩
  · exfalso
    have := congrArg List.getLast? h1
    simp at this
  · refine ⟨mid', c, ?_, h2⟩
    have := congrArg List.getLast? h1
    rw [List.concat_eq_append,
      show pre ++ Ev.exec a g :: (mid' ++ [e]) = (pre ++ Ev.exec a g :: mid') ++ [e] by simp] at this
    simp only [List.getLast?_append, List.getLast?_singleton, Option.some_or] at this
    simp only [Option.some.injEq] at this
    rw [List.concat_eq_append, this]

/-! ### T4: `.break` directives become breakpoints at origin + index -/

/-- **C11 (T4, debugger side) — `Debugger::new` / `Breakpoints::with_orig`.** The debugger starts
with exactly one predefined breakpoint per relative position handed over by the assembler, in the
same order, at address origin + position; a breakpoint is found at `a` iff `a` is origin + one of
the positions; nothing is marked as "just paused on". -/
theorem break_directive_addresses (initial : Machine) (bpsRel : List Word) (cmds : List Command) :
    (newDbg initial bpsRel cmds).bps =
      bpsRel.map (fun i => { address := initial.pc + i, predefined := true }) ∧
    (∀ a, (bpGet (newDbg initial bpsRel cmds).bps a).isSome ↔ ∃ i ∈ bpsRel, a = initial.pc + i) ∧
    (newDbg initial bpsRel cmds).curBp = none ∧ (newDbg initial bpsRel cmds).status = .wait := by
  have h1 : (newDbg initial bpsRel cmds).bps =
      bpsRel.map (fun i => { address := initial.pc + i, predefined := true }) := by
    simp only [newDbg]
    apply List.map_congr_left
    intro i _
    rw [BitVec.add_comm]
  refine ⟨h1, ?_, rfl, rfl⟩
  intro a
  rw [h1]
  simp only [bpGet, List.find?_isSome, List.mem_map]
  constructor
  · rintro ⟨b, ⟨i, hi, rfl⟩, hb⟩
    exact ⟨i, hi, (eq_of_beq hb).symm⟩
  · rintro ⟨i, hi, rfl⟩
    exact ⟨_, ⟨i, hi, rfl⟩, by simp⟩

theorem sorted_of_incr : ∀ (l : Breakpoints), (l.map (fun b => b.address.toNat)).Pairwise (· < ·) → Sorted l
  | [], _ => trivial
  | [_], _ => trivial
  | a :: b :: rest, h => by
    simp only [List.map_cons] at h
    have h1 := List.pairwise_cons.mp h
    exact ⟨BitVec.lt_def.mpr (h1.1 _ List.mem_cons_self), sorted_of_incr (b :: rest) h1.2⟩

/-- **C11 (T4, end to end) — from the source text to the debugger's list.** Assemble any source
text; load the image (`from_raw` accepts it: origin + number of words ≤ 65,535); create the
debugger with the assembler's `.break` list.  Then the addresses are origin + index WITHOUT wrap
(the checked `+=` of `with_orig` cannot overflow), index ranging exactly over the statement counts
at which the parser met a `.break` (index of the next statement; number of statements for a
trailing `.break`; one entry for a doubled `.break`), all marked predefined, and the list is
sorted and free of duplicates from the start. -/
theorem break_directive_addresses_src (feat : Option Bool) (tbl : Asm.SymTab) (src : List Char)
    (img : Asm.Image) (tbl' : Asm.SymTab) (h : Asm.assembleWith feat tbl src = (.ok img, tbl'))
    (loaded : Machine) (hload : Run.fromRaw (img.orig.getD 0x3000#16 :: img.words) = .ok loaded)
    (cmds : List Command) :
    let d := newDbg loaded (img.bps.map (BitVec.ofNat 16)) cmds
    loaded.pc = img.orig.getD 0x3000#16 ∧
    d.bps.map (fun b => b.address.toNat) = img.bps.map (fun i => loaded.pc.toNat + i) ∧
    (∀ b ∈ d.bps, b.predefined = true) ∧ Sorted d.bps ∧
    (∀ a : Word, (bpGet d.bps a).isSome ↔
      ∃ i ∈ sourceBreaks feat tbl src, a.toNat = loaded.pc.toNat + i) := by
  obtain ⟨a1, a2, a3, a4⟩ := assemble_breaks feat tbl src img tbl' h
  -- what `from_raw` checked
  have hfit : loaded.pc = img.orig.getD 0x3000#16 ∧ loaded.pc.toNat + img.words.length ≤ 65535 := by
    unfold Run.fromRaw at hload
    simp only [List.length_cons] at hload
    split at hload
    · cases hload
    · rename_i hgt
      split at hload
      · simp only [Run.LoadResult.ok.injEq] at hload
        subst hload
        simp only [BitVec.ofNat_toNat, BitVec.setWidth_eq]
        refine ⟨trivial, ?_⟩
        omega
      · cases hload
  obtain ⟨hpc, hfit⟩ := hfit
  have haddr : ∀ i ∈ img.bps, (BitVec.ofNat 16 i + loaded.pc).toNat = loaded.pc.toNat + i := by
    intro i hi
    have := a3 i hi
    rw [BitVec.toNat_add, BitVec.toNat_ofNat]
    rw [Nat.mod_eq_of_lt (show i < 2 ^ 16 by omega), Nat.mod_eq_of_lt (by omega), Nat.add_comm]
  have hmap : (newDbg loaded (img.bps.map (BitVec.ofNat 16)) cmds).bps.map (fun b => b.address.toNat) =
      img.bps.map (fun i => loaded.pc.toNat + i) := by
    simp only [newDbg, List.map_map]
    apply List.map_congr_left
    intro i hi
    exact haddr i hi
  refine ⟨hpc, hmap, ?_, ?_, ?_⟩
  · intro b hb
    simp only [newDbg, List.map_map, List.mem_map] at hb
    obtain ⟨i, _, rfl⟩ := hb
    rfl
  · apply sorted_of_incr
    rw [hmap]
    rw [List.pairwise_map]
    exact a1.imp (fun h => by omega)
  · intro a
    simp only [bpGet, List.find?_isSome, newDbg, List.map_map, List.mem_map]
    constructor
    · rintro ⟨b, ⟨i, hi, rfl⟩, hb⟩
      refine ⟨i, (a2 i).mp hi, ?_⟩
      rw [← eq_of_beq hb]
      exact haddr i hi
    · rintro ⟨i, hi, ha⟩
      have hi' := (a2 i).mpr hi
      refine ⟨_, ⟨i, hi', rfl⟩, ?_⟩
      simp only [Function.comp, beq_iff_eq]
      apply BitVec.eq_of_toNat_eq
      rw [haddr i hi', ha]

end Lace.C11
