/-
  C01 — Assembled image is the ISA encoding of the source.

  Layers: `Spec/Encode.lean` (one word per instruction, as bit-field concatenation over addresses),
  `Spec/Prog.lean` (abstract programs and their image), the assembler model
  (`Model/{Lexer,Parser,Air,Assemble}.lean`).

  PROVED here (for every text, every flag, every symbol table left behind):

  * `emit_eq_encode_holds` (stage 1, `Props/C01Stage1.lean`): `AsmLine::emit` of a resolved
    statement = `Spec.encode` at `orig + line − 1`, for every form and every operand value;
  * `image_eq_spec`: whenever `assemble` returns an image, there is the list of resolved
    statements the parser produced — numbered 1, 2, 3, …, at most 65,535 — and the image's words
    are exactly `[encode (toSpec stmtᵢ) (orig + i)]`, for *every* origin `orig` (the encoding is
    position independent); `image_word` spells this out word by word;
  * `image_depends_on_labels_only`: the resolved statements, hence the image, depend on the symbol
    table only through the map label ↦ statement number — the order in which labels are defined
    and used, and whatever else the table contains, is irrelevant.

  * `parse_stmt_tokens` + `airOf_words` (`Proofs/AsmStmtTokens.lean`, statement level of the
    token stage): for every abstract instruction statement and every token list that spells its
    operands (any spans / literal base / register case), `parse_instr` / `parse_trap` returns
    exactly `airOf` (or `litRange` when a literal does not fit), and the specification's word of the
    resolved `airOf` statement is `Spec.SrcStmt.words` at `orig + line − 1` with label addresses
    read off the final symbol table (incl. the literal-offset arithmetic and the `u8` casts);
    combined in `stmt_tokens_to_spec` below.

  The text level — `assemble_image` / `layout_irrelevant` below are stated relative to a rendering
  relation `Layout P t`; they are PROVED for the concrete rendering `Spec.render` in
  `Props/C01.lean` (`assemble_image_render`, `layout_irrelevant_render`), which imports this file.
-/
import Lace.Props.C01Stage1
import Lace.Proofs.AsmImage
import Lace.Proofs.AsmStmtTokens
import Lace.Spec.Prog
import Lace.Model.Assemble
namespace Lace.C01
open Lace.Asm Lace.Spec

/-- **The image is the ISA encoding of the parsed statements.**  If `assemble` returns an image
then the parser produced statements numbered 1, 2, 3, … (at most 65,535), all their labels were
resolved through the symbol table, and the emitted words are exactly the specification's words of
these statements — at whatever origin the program is placed. -/
theorem image_eq_spec (flag : Bool) (tbl : SymTab) (src : List Char) (img : Image)
    (h : (assemble flag tbl src).1 = .ok img) :
    ∃ (air : Air) (stmts : List AsmLine),
      (parse (some flag) tbl src).1 = .ok air ∧ img.orig = air.orig ∧
      backpatchAll (parse (some flag) tbl src).2 air.stmts = some stmts ∧
      Numbered 1 stmts ∧ stmts.length ≤ 65535 ∧ (∀ a ∈ stmts, a.Resolved) ∧
      ∀ orig : Word, specWords orig stmts = some img.words := by
  unfold assemble assembleWith at h
  generalize hp : parse (some flag) tbl src = r at h
  obtain ⟨r, tbl'⟩ := r
  cases r with
  | diag k s => simp at h
  | panic s => simp at h
  | ok air =>
    simp only [] at h
    have hnum := parse_numbered (some flag) tbl src air (by rw [hp])
    split at h
    · simp at h
    · rename_i stmts hb
      have hres := backpatchAll_resolved hb
      obtain ⟨hn, hl⟩ := backpatchAll_numbered hb hnum.1
      refine ⟨air, stmts, rfl, ?_, hb, hn, by rw [hl]; exact hnum.2, hres, ?_⟩
      · split at h <;> simp at h
        rw [← h]
      · intro orig
        have he := emitAll_eq_specWords orig stmts hres
        rw [he] at h
        cases hs : specWords orig stmts with
        | none => rw [hs] at h; simp at h
        | some ws =>
          rw [hs] at h
          simp only [Outcome.ok.injEq] at h
          rw [← h]

/-- … word by word: word `i` of the image is `encode` of statement `i` at address `orig + i`. -/
theorem image_word (flag : Bool) (tbl : SymTab) (src : List Char) (img : Image)
    (h : (assemble flag tbl src).1 = .ok img) :
    ∃ stmts : List AsmLine, stmts.length = img.words.length ∧
      ∀ (orig : Word) (i : Nat) (h1 : i < stmts.length) (h2 : i < img.words.length),
        ∃ instr, toSpec orig stmts[i].stmt = some instr ∧
          encode instr (orig + BitVec.ofNat 16 i) = some img.words[i] := by
  obtain ⟨air, stmts, _, _, _, hn, _, _, hw⟩ := image_eq_spec flag tbl src img h
  refine ⟨stmts, ((specWords_getElem (hw 0#16)).1).symm, ?_⟩
  intro orig i h1 h2
  have hi := (specWords_getElem (hw orig)).2 i h1 h2
  have hline := hn.getElem i h1
  unfold specWord at hi
  cases hs : toSpec orig stmts[i].stmt with
  | none => rw [hs] at hi; cases hi
  | some instr =>
    rw [hs] at hi
    refine ⟨instr, rfl, ?_⟩
    rw [hline, Nat.add_comm, addrOf_succ] at hi
    exact hi

/-- **The image depends on the symbol table only through label ↦ statement number.**  Two tables
that map every name to the same number (whatever the order of their entries — the order in which
the labels were defined — and whatever unused entries they hold) resolve and emit any list of
parsed statements identically. -/
theorem image_depends_on_labels_only (t1 t2 : SymTab) (h : ∀ name, t1.get? name = t2.get? name)
    (l : List AsmLine) :
    (backpatchAll t1 l).map (fun s => emitAll s []) = (backpatchAll t2 l).map (fun s => emitAll s []) := by
  rw [backpatchAll_congr h l]

/-- hypotheses satisfiable: two tables with the same content in a different order -/
example : ∀ name, SymTab.get? [("a".toList, 1), ("b".toList, 2)] name =
    SymTab.get? [("b".toList, 2), ("a".toList, 1)] name := by
  intro name
  simp only [SymTab.get?]
  by_cases ha : "a".toList = name
  · subst ha; rfl
  · by_cases hb : "b".toList = name
    · subst hb; rfl
    · have ha' : ¬ ['a'] = name := ha
      have hb' : ¬ ['b'] = name := hb
      simp [ha', hb']

/-- hypotheses satisfiable: `loop add r1 r1 #-1 / brp loop / halt` assembles to an image -/
example : ∃ img, (assemble false [] "loop add r1 r1 #-1\nbrp loop\nhalt".toList).1 = .ok img ∧
    img.words = [0x127F#16, 0x03FE#16, 0xF025#16] := ⟨_, by rfl, by rfl⟩

/-- **Tokens → specification, one statement.**  Take any abstract instruction statement `s`, any
tokens spelling its operands, the symbol table `tbl` at the moment it is parsed as statement number
`line`, and a final table `tbl'` extending it.  Then the parser's answer is a statement (or the
`litRange` diagnostic) such that resolving it against `tbl'` and taking the specification's word
gives exactly `Spec.SrcStmt.words s` at address `orig + line − 1`, labels read off `tbl'`. -/
theorem stmt_tokens_to_spec (names : Nat → List Char) (srcLen : Nat) (tbl tbl' : SymTab) (line : Nat)
    (orig : Word) (sp : Span) (s : SrcStmt) (hd : Head) (ops : List Opnd)
    (hs : stmtSyntax names s = some (hd, ops)) (toks rest : List Token) (hm : MatchAll ops toks)
    (hmono : ∀ n v, tbl.get? n = some v → tbl'.get? n = some v)
    (lab : Nat → Option Word) (hlab : ∀ id, lab id = (tbl'.get? (names id)).map (addrOf orig)) :
    (∃ stmt te, parseHead srcLen tbl line hd (toks ++ rest) = .ok (stmt, rest, te) ∧
        s.words lab (addrOf orig line) = finish tbl' orig line sp stmt) ∨
    (∃ spn, parseHead srcLen tbl line hd (toks ++ rest) = .diag .litRange spn ∧
        s.words lab (addrOf orig line) = none) := by
  have h1 := parse_stmt_tokens names srcLen tbl line s hd ops hs toks rest hm
  have h2 := airOf_words names tbl tbl' line orig sp hmono lab hlab s (by rw [hs]; rfl)
  cases ha : airOf names tbl line s with
  | some stmt =>
    rw [ha] at h1 h2
    obtain ⟨te, h1⟩ := h1
    exact Or.inl ⟨stmt, te, h1, h2⟩
  | none =>
    rw [ha] at h1 h2
    obtain ⟨spn, h1⟩ := h1
    exact Or.inr ⟨spn, h1, h2⟩

/-- hypotheses satisfiable: `ld r3 #-2` spelled with a decimal literal token -/
example : stmtSyntax (fun _ => []) (.ld 3#3 (.lit 0xFFFE#16)) = some (.instr .ld, [.reg 3#3, .lit 0xFFFE#16]) ∧
    MatchAll [.reg 3#3, .lit 0xFFFE#16]
      [⟨.reg 3#3, ⟨3, 2⟩, "r3".toList⟩, ⟨.lit (.dec 0xFFFE#16), ⟨6, 3⟩, "#-2".toList⟩] :=
  ⟨rfl, rfl, rfl, trivial⟩

/-! ### text level (statements; proved for `Spec.render` in `Props/C01.lean`) -/

/-- `t` is accepted and yields the image the specification assigns to `P`. -/
def AssemblesTo (flag : Bool) (t : List Char) (P : Prog) : Prop :=
  ∃ img, (assemble flag [] t).1 = .ok img ∧ P.image flag = some (img.orig, img.words)

/-- Full text-level statement of C01 relative to a rendering relation `Layout P t` ("`t` is a
layout of `P`": keyword case, separators, comments, blank lines, literal spellings, label names —
DESIGN.md I12, I13; the relation realised by the harness generator `enc.rs::render`): every
layout of a well-formed program assembles to the specification's image. -/
def assemble_image (Layout : Prog → List Char → Prop) : Prop :=
  ∀ (flag : Bool) (P : Prog) (t : List Char), P.syntaxOk = true → (P.image flag).isSome = true →
    Layout P t → AssemblesTo flag t P

/-- corollary shape: two layouts of one program give the same image -/
def layout_irrelevant (Layout : Prog → List Char → Prop) : Prop :=
  ∀ (flag : Bool) (P : Prog) (t1 t2 : List Char), P.syntaxOk = true → (P.image flag).isSome = true →
    Layout P t1 → Layout P t2 →
    ∃ i1 i2, (assemble flag [] t1).1 = .ok i1 ∧ (assemble flag [] t2).1 = .ok i2 ∧
      i1.orig = i2.orig ∧ i1.words = i2.words

theorem layout_irrelevant_of_assemble_image (Layout : Prog → List Char → Prop)
    (h : assemble_image Layout) : layout_irrelevant Layout := by
  intro flag P t1 t2 hs hi h1 h2
  obtain ⟨i1, a1, b1⟩ := h flag P t1 hs hi h1
  obtain ⟨i2, a2, b2⟩ := h flag P t2 hs hi h2
  rw [b1] at b2
  simp only [Option.some.injEq, Prod.mk.injEq] at b2
  exact ⟨i1, i2, a1, a2, b2.1, b2.2⟩

end Lace.C01
