/-
  C03 — Running an image follows the machine model from load to stop.

  * `load_spec`          : `from_raw` = the specification's loader (placement, implicit HALT,
                           initial registers, acceptance test) for every image.
  * `run_eq_ref`         : the model of `RunEnvironment::run` = the reference run loop, for every
                           fuel, machine, input (uses C02 `execute_eq_isa`).
  * `fetch_in_bounds`    : no fetch outside [origin, xFE00), for runs of any length.
  * `run_panic_only_rti` : the loop (incl. the checked `pc += 1`) never panics; only RTI's `todo!()`.
  The trap-routine clauses (what OUT/PUTS/PUTSP/PUTN/REG/GETC/IN print and consume) are the
  C02 theorems `trap_eq` + the definitions in `Lace/Spec/ISA.lean`.
-/
import Lace.Props.C02
import Lace.Spec.RefRun
import Lace.Model.Run
namespace Lace.C03
open Lace ISA

/-- Pointwise description of `clone_from_slice`. -/
theorem copyWords_get (ws : List Word) : ∀ (k : Nat) (mem : Vector Word 65536) (i : Nat) (hi : i < 65536),
    k + ws.length ≤ 65536 →
    (Run.copyWords ws k mem)[i] = if h : k ≤ i ∧ i - k < ws.length then ws[i - k]'h.2 else mem[i] := by
  induction ws with
  | nil => intro k mem i hi _; simp [Run.copyWords]
  | cons x xs ih =>
    intro k mem i hi hk
    simp only [List.length_cons] at hk
    have hk' : k < 65536 := by omega
    simp only [Run.copyWords, hk', dite_true]
    rw [ih (k + 1) _ i hi (by omega)]
    by_cases h1 : k + 1 ≤ i ∧ i - (k + 1) < xs.length
    · have h2 : k ≤ i ∧ i - k < (x :: xs).length := by simp; omega
      simp only [h1, h2, and_self, dite_true]
      have : i - k = (i - (k + 1)) + 1 := by omega
      simp [this]
    · simp only [h1, dite_false]
      by_cases h3 : i = k
      · subst h3; simp
      · have h2 : ¬ (k ≤ i ∧ i - k < (x :: xs).length) := by simp; omega
        simp only [h2, dite_false]
        rw [Vector.getElem_set_ne]; omega

end Lace.C03

namespace Lace.C03
open Lace ISA

theorem machine_ext {a b : Machine} (h1 : a.mem = b.mem) (h2 : a.reg = b.reg) (h3 : a.pc = b.pc)
    (h4 : a.cc = b.cc) (h5 : a.orig = b.orig) : a = b := by
  cases a; cases b; simp_all

/-- `RunEnvironment::from_raw` loads exactly what the specification says and refuses exactly
the images the specification refuses (empty file, image + sentinel beyond the top of memory). -/
theorem load_spec (raw : List Word) :
    Run.fromRaw raw = (match Ref.load raw with
      | some m => Run.LoadResult.ok m
      | none => Run.LoadResult.exit 0xEE) := by
  cases raw with
  | nil => rfl
  | cons o rest =>
    simp only [Run.fromRaw, Ref.load, List.length_cons]
    by_cases hfit' : Ref.fits o rest.length
    · have hfit : o.toNat + rest.length + 1 ≤ 65536 := hfit'
      have h1 : ¬ (o.toNat + (rest.length + 1) > 65536) := by omega
      have h2 : o.toNat + rest.length < 65536 := by omega
      rw [if_neg h1, dif_pos h2, if_pos hfit']
      have ho : BitVec.ofNat 16 o.toNat = o := by simp
      rw [ho]
      apply congrArg
      apply machine_ext
      · -- memory
        show Vector.set _ _ _ h2 = Ref.loadedMem o rest
        apply Vector.ext
        intro i hi
        simp only [Ref.loadedMem, Vector.getElem_ofFn]
        by_cases hlt : i < o.toNat
        · simp only [hlt, if_true]
          rw [Vector.getElem_set_ne _ _ (by omega)]
          rw [copyWords_get rest o.toNat _ i hi (by omega)]
          have : ¬ (o.toNat ≤ i ∧ i - o.toNat < rest.length) := by omega
          simp [this]
        · simp only [hlt, if_false]
          by_cases hin : i - o.toNat < rest.length
          · simp only [hin, dite_true]
            rw [Vector.getElem_set_ne _ _ (by omega)]
            rw [copyWords_get rest o.toNat _ i hi (by omega)]
            have : (o.toNat ≤ i ∧ i - o.toNat < rest.length) := by omega
            simp [this]
          · simp only [hin, dite_false]
            by_cases heq : i - o.toNat = rest.length
            · have : i = o.toNat + rest.length := by omega
              subst this
              simp [Ref.HALT_WORD]
            · simp only [heq, if_false]
              rw [Vector.getElem_set_ne _ _ (by omega)]
              rw [copyWords_get rest o.toNat _ i hi (by omega)]
              have : ¬ (o.toNat ≤ i ∧ i - o.toNat < rest.length) := by omega
              simp [this]
      · show #v[0, 0, 0, 0, 0, 0, 0, 0xFE00#16 - 1] = Ref.initRegs
        decide
      · rfl
      · rfl
      · rfl
    · have hfit : ¬ (o.toNat + rest.length + 1 ≤ 65536) := hfit'
      have h1 : (o.toNat + (rest.length + 1) > 65536) := by omega
      rw [if_pos h1, if_neg hfit']

end Lace.C03

namespace Lace.C03
open Lace ISA

def toRef : Run.RunResult → Ref.RunResult
  | .done m w => .done m w
  | .exit c m w => .exit c m w
  | .panic s => .panic s
  | .fuel m w => .fuel m w

theorem checkPcBounds_eq (m : Machine) :
    Run.checkPcBounds m = .eq ↔ Ref.inUserSpace m := by
  unfold Run.checkPcBounds Ref.inUserSpace Ref.USER_END
  by_cases h1 : m.pc < m.orig
  · simp [h1]; intro h; exact absurd h1 (by simp [BitVec.not_lt]; exact h)
  · by_cases h2 : m.pc ≥ 0xFE00#16
    · simp [h1, h2]
    · simp [h1, h2]
      constructor
      · simpa [BitVec.not_lt] using h1
      · simpa [BitVec.not_lt] using h2

/-- **C03 (run).** The model of `RunEnvironment::run` performs exactly the reference machine's
sequence of instruction cycles, for every step budget, image, input and setting. -/
theorem run_eq_ref (so mi : Bool) : ∀ (n : Nat) (m : Machine) (w : World),
    toRef (Run.loop so mi n m w) = Ref.run so mi n m w
  | 0, m, w => rfl
  | n + 1, m, w => by
    unfold Run.loop Ref.run
    by_cases hh : m.pc = 0xFFFF#16
    · simp [hh, Ref.HALT_ADDR, toRef]
    · have hh' : (m.pc == 0xFFFF#16) = false := by simp [hh]
      simp only [hh', Ref.HALT_ADDR, hh, if_false]
      by_cases hu : Ref.inUserSpace m
      · have hb := (checkPcBounds_eq m).2 hu
        have hpc : ¬ (m.pc.toNat + 1 ≥ 65536) := by
          have := hu.2; simp [Ref.USER_END, BitVec.lt_def] at this; omega
        simp only [hb, hu, not_true_eq_false, if_false, hpc]
        rw [C02.execute_eq_isa]
        cases hx : exec so mi (decode (m.read m.pc)) (m.setPC (m.pc + 1)) w with
        | ok m' w' => simp only; exact run_eq_ref so mi n m' w'
        | exit c w' => simp [toRef]
        | panic s => simp [toRef]
      · have hb : Run.checkPcBounds m ≠ .eq := fun h => hu ((checkPcBounds_eq m).1 h)
        simp only [hu, not_false_eq_true, if_true]
        cases hc : Run.checkPcBounds m <;> simp_all [toRef]

end Lace.C03

namespace Lace.C03
open Lace ISA

/-- Executing an instruction never changes the origin. -/
theorem execute_orig (so mi : Bool) (i : Word) (m m' : Machine) (w w' : World)
    (h : VM.execute so mi i m w = .ok m' w') : m'.orig = m.orig :=
  (C02.execute_frame so mi i m m' w w' h).2.2

/-- **C03 (fetch bound).** No instruction is ever fetched from outside `[origin, xFE00)`:
every address in the fetch trace of a run of any length lies in user space. -/
theorem fetch_in_bounds (so mi : Bool) : ∀ (n : Nat) (m : Machine) (w : World) (a : Word),
    a ∈ Run.fetches so mi n m w → m.orig ≤ a ∧ a < 0xFE00#16
  | 0, m, w, a => by simp [Run.fetches]
  | n + 1, m, w, a => by
    unfold Run.fetches
    by_cases hh : (m.pc == 0xFFFF#16) = true
    · simp [hh]
    · simp only [hh]
      cases hc : Run.checkPcBounds m with
      | lt => simp
      | gt => simp
      | eq =>
        have hu := (checkPcBounds_eq m).1 hc
        simp only [Bool.false_eq_true, if_false]
        by_cases hpc : m.pc.toNat + 1 ≥ 65536
        · simp [hpc]
        · simp only [hpc, if_false]
          cases hx : VM.execute so mi (m.read m.pc) (m.setPC (m.pc + 1)) w with
          | ok m' w' =>
            simp only [List.mem_cons]
            intro h
            rcases h with h | h
            · subst h; exact hu
            · have := fetch_in_bounds so mi n m' w' a h
              rw [execute_orig so mi _ _ m' w w' hx] at this
              exact this
          | exit c w' => simp; intro h; subst h; exact hu
          | panic s => simp; intro h; subst h; exact hu

/-- The run loop itself never panics: the only panic a run can end in is lace's `todo!()` for RTI. -/
theorem run_panic_only_rti (so mi : Bool) : ∀ (n : Nat) (m : Machine) (w : World) (s : String),
    Run.loop so mi n m w = .panic s → s = "rti"
  | 0, m, w, s => by simp [Run.loop]
  | n + 1, m, w, s => by
    unfold Run.loop
    by_cases hh : (m.pc == 0xFFFF#16) = true
    · simp [hh]
    · simp only [hh]
      cases hc : Run.checkPcBounds m with
      | lt => simp
      | gt => simp
      | eq =>
        have hu := (checkPcBounds_eq m).1 hc
        have hpc : ¬ (m.pc.toNat + 1 ≥ 65536) := by
          have := hu.2; simp [Ref.USER_END, BitVec.lt_def] at this; omega
        simp only [Bool.false_eq_true, if_false, hpc]
        cases hx : VM.execute so mi (m.read m.pc) (m.setPC (m.pc + 1)) w with
        | ok m' w' => simp only; exact run_panic_only_rti so mi n m' w' s
        | exit c w' => simp
        | panic s' =>
          simp only [Run.RunResult.panic.injEq]
          intro h; subst h
          by_cases h8 : ((m.read m.pc).extractLsb' 12 4).toNat = 8
          · rw [C02.execute_eq_isa] at hx
            unfold decode at hx; rw [h8] at hx
            simpa [exec] using hx.symm
          · exact absurd hx (C02.execute_no_panic so mi _ _ _ h8 s')

end Lace.C03
