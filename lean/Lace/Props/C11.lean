/-
  C11 — Breakpoints always stop execution before the marked instruction.

  * `bp_sorted_nodup`      : the breakpoint list is strictly increasing (sorted, no duplicates)
                             after any number of iterations under any script (`BpStep`: only
                             `break add` / `break remove` change it, by a sorted insertion of a
                             run-time breakpoint or the removal of one address).
  * `bp_pause_before_exec` : reaching an address with an armed breakpoint in ANY status makes
                             `next_action` print `Reached::Breakpoint`, switch to waiting and
                             read at least one command before the loop may proceed.
  * `exec_rearms`          : executing any instruction re-arms every breakpoint (also on a
                             one-instruction loop: the defect fixed in f6d3620).
  * `no_bp_no_pause`       : with no breakpoint at the PC `continue` proceeds at once.
  `.break` directives become predefined breakpoints at origin + statement index
  (`newDbg`; the relative addresses come from the assembler model).

  The statements over WHOLE SESSIONS (no `Armed` hypothesis; event log; `.break` from the source
  text to the debugger's list) are in `Props/C11Trace.lean`; the lemmas here are per call of
  `next_action` / per loop iteration.
-/
import Lace.Props.C16
import Lace.Props.C12
namespace Lace.C11
open Lace Lace.Dbg Lace.Cmd Lace.DbgProofs

/-- How a command can change the breakpoint list. -/
def BpStep (bs bs' : Breakpoints) : Prop :=
  bs' = bs ∨ (∃ b, bs' = (bpInsert bs b).1 ∧ b.predefined = false) ∨ (∃ a, bs' = (bpRemove bs a).1)

theorem BpStep.sorted {bs bs' : Breakpoints} (h : BpStep bs bs') (hs : Sorted bs) : Sorted bs' := by
  rcases h with rfl | ⟨b, rfl, _⟩ | ⟨a, rfl⟩
  · exact hs
  · exact bpInsert_sorted _ _ hs
  · exact bpRemove_sorted _ _ hs

theorem same_bps {d d' : Dbg} (h : SameButLog d d') : d'.bps = d.bps := h.2.2.1

/-- Only `break add` / `break remove` change the breakpoint list, by one sorted insertion of a
run-time breakpoint or by removing one address. -/
theorem runCommand_bps (env : Env) (d : Dbg) (m : Machine) (w : World) (c : Command) :
    ∀ d', (runCommand env d m w c).dbg? = some d' → BpStep d.bps d'.bps := by
  intro d' hd
  have L : ∀ {x : Dbg}, x.bps = d.bps → BpStep d.bps x.bps := fun h => Or.inl h
  have hb : (base d).bps = d.bps := rfl
  cases c <;> simp only [runCommand] at hd
  case help => simp [CmdResult.dbg?] at hd; subst hd; exact L rfl
  case quit => simp [CmdResult.dbg?] at hd; subst hd; exact L rfl
  case exit => simp [CmdResult.dbg?] at hd; subst hd; exact L rfl
  case reset => simp [CmdResult.dbg?] at hd; subst hd; exact L rfl
  case echo s => simp [CmdResult.dbg?] at hd; subst hd; exact L rfl
  case stepOver =>
    split at hd
    · simp [CmdResult.dbg?] at hd; subst hd; exact L rfl
    · split at hd <;> (simp [CmdResult.dbg?] at hd; subst hd; exact L rfl)
  case stepInto cnt =>
    split at hd
    · simp [CmdResult.dbg?] at hd; subst hd; exact L rfl
    · split at hd
      · simp [CmdResult.dbg?] at hd
      · simp [CmdResult.dbg?] at hd; subst hd; exact L rfl
  case stepOut =>
    split at hd
    · simp [CmdResult.dbg?] at hd; subst hd; exact L rfl
    · split at hd <;> (simp [CmdResult.dbg?] at hd; subst hd; exact L rfl)
  case continue_ =>
    split at hd <;> (simp [CmdResult.dbg?] at hd; subst hd; exact L rfl)
  case goto l =>
    split at hd <;> (simp [CmdResult.dbg?] at hd; subst hd; exact L rfl)
  case breakAdd l =>
    split at hd
    · simp [CmdResult.dbg?] at hd; subst hd; exact L rfl
    · split at hd <;> (simp [CmdResult.dbg?] at hd; subst hd)
      · exact L rfl
      · exact Or.inr (Or.inl ⟨_, rfl, rfl⟩)
  case breakRemove l =>
    split at hd
    · simp [CmdResult.dbg?] at hd; subst hd; exact L rfl
    · split at hd <;> (simp [CmdResult.dbg?] at hd; subst hd)
      · exact Or.inr (Or.inr ⟨_, rfl⟩)
      · exact L rfl
  case registers =>
    simp [CmdResult.dbg?] at hd; subst hd
    have := same_bps (printRegisters_same (base d) m)
    exact L (this.trans hb)
  case breakList =>
    split at hd <;> (simp [CmdResult.dbg?] at hd; subst hd)
    · exact L rfl
    · have := same_bps (foldl_same (fun d b => sayL d ('x' :: hex4 b.address)) (fun d _ => sayL_same d _) (base d).bps (base d))
      exact L (this.trans hb)
  case eval t =>
    split at hd <;> simp [CmdResult.dbg?] at hd
    · subst hd; exact L rfl
    · rename_i lines _
      subst hd
      have := same_bps (foldl_same sayL (fun d _ => sayL_same d _) lines (base d))
      exact L (this.trans hb)
    · subst hd; exact L rfl
  case print l =>
    cases l with
    | reg r => simp [CmdResult.dbg?] at hd; subst hd; exact L rfl
    | mem l => simp only at hd; split at hd <;> (simp [CmdResult.dbg?] at hd; subst hd; exact L rfl)
  case move l v =>
    cases l with
    | reg r => simp [CmdResult.dbg?] at hd; subst hd; exact L rfl
    | mem l => simp only at hd; split at hd <;> (simp [CmdResult.dbg?] at hd; subst hd; exact L rfl)
  case assembly l =>
    split at hd
    · simp [CmdResult.dbg?] at hd; subst hd; exact L rfl
    · split at hd
      · simp [CmdResult.dbg?] at hd; subst hd; exact L rfl
      · split at hd
        · split at hd <;> (simp [CmdResult.dbg?] at hd; subst hd; exact L rfl)
        · simp [CmdResult.dbg?] at hd; subst hd; exact L rfl

end Lace.C11

namespace Lace.C11
open Lace Lace.Dbg Lace.Cmd Lace.DbgProofs

theorem checkInterrupts_bps (d : Dbg) (pc : Word) (i : Option Sig) : (checkInterrupts d pc i).bps = d.bps := by
  unfold checkInterrupts
  split <;> (try split) <;> (try split) <;> simp [say]

theorem preamble_bps (d : Dbg) (m : Machine) : (preamble d m).bps = d.bps := by
  unfold preamble
  cases Run.checkPcBounds m <;> simp only [checkInterrupts_bps, say]

theorem actionLoop_sorted (env : Env) : ∀ (n : Nat) (d : Dbg) (m : Machine) (w : World) (instr : Option Sig),
    Sorted d.bps → ∀ d', NextResult.dbg? (actionLoop env n d m w instr) = some d' → Sorted d'.bps
  | 0, d, m, w, instr => by simp [actionLoop, NextResult.dbg?]
  | n + 1, d, m, w, instr => by
    intro hs d' hd
    unfold actionLoop at hd
    split at hd
    · split at hd
      · simp [NextResult.dbg?] at hd; subst hd; exact hs
      · rename_i c rest hc
        have hstep : ∀ d1, (runCommand env { d with cmds := rest } m w c).dbg? = some d1 → Sorted d1.bps :=
          fun d1 h1 => (runCommand_bps env _ m w c d1 h1).sorted hs
        split at hd
        · rename_i d1 m1 w1 hr
          exact actionLoop_sorted env n d1 m1 w1 instr (hstep d1 (by rw [hr]; rfl)) d' hd
        · rename_i a d1 m1 w1 hr
          simp [NextResult.dbg?] at hd; subst hd; exact hstep _ (by rw [hr]; rfl)
        · rename_i cd d1 m1 w1 hr
          simp [NextResult.dbg?] at hd; subst hd; exact hstep _ (by rw [hr]; rfl)
        · simp [NextResult.dbg?] at hd
    · split at hd
      · refine actionLoop_sorted env n _ m w instr ?_ d' hd
        split <;> exact hs
      · simp [NextResult.dbg?] at hd; subst hd; exact hs
    · split at hd <;> (simp [NextResult.dbg?] at hd; subst hd; exact hs)
    · simp [NextResult.dbg?] at hd; subst hd; exact hs
    · split at hd <;> (simp [NextResult.dbg?] at hd; subst hd; exact hs)

theorem nextAction_sorted (env : Env) (d : Dbg) (m : Machine) (w : World) (hs : Sorted d.bps) :
    ∀ d', NextResult.dbg? (nextAction env d m w) = some d' → Sorted d'.bps := by
  intro d' hd
  rw [nextAction_eq] at hd
  exact actionLoop_sorted env _ _ m w _ (by rw [preamble_bps]; exact hs) d' hd

theorem iter_sorted (env : Env) (att : Bool) (d : Dbg) (m : Machine) (w : World) (hs : Sorted d.bps) (d' : Dbg)
    (h : C12.Iter.dbg? (iter env att d m w) = some d') : Sorted d'.bps := by
  unfold iter at h
  cases att with
  | false =>
    simp only [Bool.false_eq_true, if_false] at h
    split at h
    · simp [C12.Iter.dbg?] at h; rw [← h]; exact hs
    · split at h
      · simp [C12.Iter.dbg?] at h; rw [← h]; exact hs
      · simp [C12.Iter.dbg?] at h; rw [← h]; exact hs
      · rcases C16.execOne_cases env false d m w with ⟨_, _, he⟩ | ⟨_, _, _, he⟩ | ⟨_, he⟩ <;>
          (rw [he] at h; simp [C12.Iter.dbg?] at h)
        · rw [← h]; exact hs
        · rw [← h]; exact hs
  | true =>
    simp only [if_true] at h
    cases hn : nextAction env d m w with
    | panic s => rw [hn] at h; simp [C12.Iter.dbg?] at h
    | exit c d1 m1 w1 =>
      rw [hn] at h; simp [C12.Iter.dbg?] at h; rw [← h]
      exact nextAction_sorted env d m w hs d1 (by rw [hn]; rfl)
    | action a d1 m1 w1 =>
      rw [hn] at h
      have h1 := nextAction_sorted env d m w hs d1 (by rw [hn]; rfl)
      cases a with
      | stopDebugger => simp [C12.Iter.dbg?] at h; rw [← h]; exact h1
      | exitProgram => simp [C12.Iter.dbg?] at h; rw [← h]; exact h1
      | proceed =>
        simp only at h
        split at h
        · simp [C12.Iter.dbg?] at h; rw [← h]; exact h1
        · split at h
          · simp [C12.Iter.dbg?] at h; rw [← h]; exact h1
          · rcases C16.execOne_cases env true
              { d1 with icount := if d1.icount < 4294967295 then d1.icount + 1 else d1.icount,
                        nexec := d1.nexec + 1 } m1 w1 with ⟨_, _, he⟩ | ⟨_, _, _, he⟩ | ⟨_, he⟩ <;>
              (rw [he] at h; simp [C12.Iter.dbg?] at h)
            · rw [← h]; exact h1
            · rw [← h]; exact h1

/-- **C11 (list invariant).** After any number of iterations under any script the breakpoint
list is strictly increasing by address — sorted and free of duplicates. -/
theorem bp_sorted_nodup (env : Env) : ∀ (n : Nat) (att : Bool) (d : Dbg) (m : Machine) (w : World)
    (ex : List Word), Sorted d.bps → ∀ d', C12.DbgRun.dbg? (runLoop env n att d m w ex) = some d' → Sorted d'.bps
  | 0, att, d, m, w, ex, hs, d' => by simp [runLoop, C12.DbgRun.dbg?]; intro h; rw [← h]; exact hs
  | n + 1, att, d, m, w, ex, hs, d' => by
    intro h
    unfold runLoop at h
    cases hit : iter env att d m w with
    | cont a1 d1 m1 w1 e =>
      have hi := iter_sorted env att d m w hs d1 (by rw [hit]; rfl)
      rw [hit] at h
      exact bp_sorted_nodup env n a1 d1 m1 w1 _ hi d' h
    | done a1 d1 m1 w1 =>
      have hi := iter_sorted env att d m w hs d1 (by rw [hit]; rfl)
      rw [hit] at h; simp [C12.DbgRun.dbg?] at h; rw [← h]; exact hi
    | exit c a1 d1 m1 w1 e =>
      have hi := iter_sorted env att d m w hs d1 (by rw [hit]; rfl)
      rw [hit] at h; simp [C12.DbgRun.dbg?] at h; rw [← h]; exact hi
    | panic s => rw [hit] at h; simp [C12.DbgRun.dbg?] at h

end Lace.C11

namespace Lace.C11
open Lace Lace.Dbg Lace.Cmd Lace.DbgProofs

/-- A breakpoint is *armed* at `pc` unless the debugger has just paused on it and nothing has
been executed since. -/
def Armed (d : Dbg) (pc : Word) : Prop :=
  (bpGet d.bps pc).isSome ∧ ¬ (d.curBp = some pc ∧ d.icount = 0)

theorem checkInterrupts_fires (d : Dbg) (pc : Word) (i : Option Sig) (h : Armed d pc) :
    (checkInterrupts d pc i).status = .wait ∧ (checkInterrupts d pc i).curBp = some pc ∧
    (checkInterrupts d pc i).errRev = "Reached::Breakpoint".toList :: d.errRev := by
  obtain ⟨hb, hn⟩ := h
  unfold checkInterrupts
  cases hg : bpGet d.bps pc with
  | none => rw [hg] at hb; simp at hb
  | some b =>
    simp only
    have hc : (d.curBp != some pc || decide (d.icount > 0)) = true := by
      by_cases h1 : d.curBp = some pc
      · have : d.icount ≠ 0 := fun h0 => hn ⟨h1, h0⟩
        simp [h1]; omega
      · simp [h1]
    rw [if_pos hc]
    simp [say]

theorem preamble_fires (d : Dbg) (m : Machine) (h : Armed d m.pc) :
    (preamble d m).status = .wait ∧ "Reached::Breakpoint".toList ∈ (preamble d m).errRev := by
  unfold preamble
  have key : ∀ d0 : Dbg, d0.bps = d.bps → d0.curBp = d.curBp → d0.icount = d.icount →
      (checkInterrupts d0 m.pc (sigOf (m.read m.pc))).status = .wait ∧
      "Reached::Breakpoint".toList ∈ (checkInterrupts d0 m.pc (sigOf (m.read m.pc))).errRev := by
    intro d0 h1 h2 h3
    have ha : Armed d0 m.pc := by unfold Armed; rw [h1, h2, h3]; exact h
    obtain ⟨s, _, e⟩ := checkInterrupts_fires d0 m.pc _ ha
    exact ⟨s, by rw [e]; simp⟩
  cases Run.checkPcBounds m <;> simp only
  · exact key _ rfl rfl rfl
  · exact key _ rfl rfl rfl
  · exact key _ rfl rfl rfl

/-- **C11 (pause before execution).** Whenever control reaches an address that carries an armed
breakpoint — in whatever status: continue, step, step into, step out — `next_action` reports
`Reached::Breakpoint` and does not let the run loop proceed before at least one further command
has been read: the marked instruction is not executed until the user resumes. -/
theorem bp_pause_before_exec (env : Env) (d : Dbg) (m : Machine) (w : World) (h : Armed d m.pc)
    (a : Action) (d' : Dbg) (m' : Machine) (w' : World)
    (hr : nextAction env d m w = .action a d' m' w') : d.ncmds < d'.ncmds := by
  have hmono := (C16.nextAction_mono env d m w d' (by rw [hr]; rfl)).1
  by_cases heq : d'.ncmds = d.ncmds
  · exfalso
    rw [nextAction_eq] at hr
    have := actionLoop_no_cmd env _ _ m w _ a d' m' w' hr (by rw [heq, (preamble_facts d m).1])
    exact this.2.2.2 (preamble_fires d m h).1
  · omega

/-- **C11 (re-arming).** Executing an instruction re-arms every breakpoint: the iteration that
executes leaves `instruction_count ≥ 1`, so the next arrival at any breakpointed address —
including the address just executed (a self-loop) — pauses again. -/
theorem exec_rearms (env : Env) (d : Dbg) (m : Machine) (w : World) (att' : Bool) (d' : Dbg)
    (m' : Machine) (w' : World) (pc : Word)
    (h : iter env true d m w = .cont att' d' m' w' (some pc)) :
    0 < d'.icount ∧ ∀ a, (bpGet d'.bps a).isSome → Armed d' a := by
  have hic : 0 < d'.icount := by
    unfold iter at h
    simp only [if_true] at h
    cases hn : nextAction env d m w with
    | panic s => rw [hn] at h; simp at h
    | exit c d1 m1 w1 => rw [hn] at h; simp at h
    | action a d1 m1 w1 =>
      rw [hn] at h
      cases a with
      | stopDebugger => simp at h
      | exitProgram => simp at h
      | proceed =>
        simp only at h
        split at h
        · simp at h
        · split at h
          · simp at h
          · rcases C16.execOne_cases env true
              { d1 with icount := if d1.icount < 4294967295 then d1.icount + 1 else d1.icount,
                        nexec := d1.nexec + 1 } m1 w1 with ⟨_, _, he⟩ | ⟨_, _, _, he⟩ | ⟨_, he⟩ <;>
              (rw [he] at h; simp at h)
            obtain ⟨_, h2, _⟩ := h
            rw [← h2]; simp only; split <;> omega
  exact ⟨hic, fun a ha => ⟨ha, fun hh => by omega⟩⟩

/-- **C11 (removed never pauses).** With no breakpoint at the PC (never added, or removed), an
executable PC and status `continue`, `next_action` proceeds at once: no pause, no command read. -/
theorem no_bp_no_pause (env : Env) (d : Dbg) (m : Machine) (w : World)
    (hs : d.status = .cont) (hb : bpGet d.bps m.pc = none)
    (hbounds : Run.checkPcBounds m = .eq) (hh : sigOf (m.read m.pc) ≠ some .halt) :
    ∃ d', nextAction env d m w = .action .proceed d' m w ∧ d'.ncmds = d.ncmds ∧ d'.status = .cont := by
  have hp : preamble d m = { d with curBp := none } := by
    unfold preamble
    rw [hbounds]
    simp only [checkInterrupts, hb]
    have : (sigOf (m.read m.pc) == some Sig.halt) = false := by simpa using hh
    rw [if_neg (by simp [this])]
  rw [nextAction_eq, hp]
  unfold actionLoop
  simp only [hs]
  exact ⟨_, rfl, rfl, rfl⟩

end Lace.C11

namespace Lace.C11
open Lace Lace.Dbg Lace.Cmd Lace.DbgProofs

/-- The status loop can end in a process exit only from inside a command (`eval`): at least one
command was read. -/
theorem actionLoop_exit_reads (env : Env) : ∀ (n : Nat) (d : Dbg) (m : Machine) (w : World) (instr : Option Sig)
    (c : Nat) (d' : Dbg) (m' : Machine) (w' : World),
    actionLoop env n d m w instr = .exit c d' m' w' → d.ncmds < d'.ncmds
  | 0, d, m, w, instr, c, d', m', w' => by simp [actionLoop]
  | n + 1, d, m, w, instr, c, d', m', w' => by
    intro h
    unfold actionLoop at h
    split at h
    · split at h
      · simp at h
      · rename_i cmd rest hc
        split at h
        · rename_i d1 m1 w1 hr
          have hu := runCommand_upd env _ m w cmd d1 (by rw [hr]; rfl)
          have h1 := (Adv.of_cmd hc hu).2
          have h2 := actionLoop_exit_reads env n d1 m1 w1 instr c d' m' w' h
          omega
        · simp at h
        · rename_i cd d1 m1 w1 hr
          have hu := runCommand_upd env _ m w cmd d1 (by rw [hr]; rfl)
          have h1 := (Adv.of_cmd hc hu).2
          simp at h; obtain ⟨_, h2, _, _⟩ := h; rw [← h2]; exact h1
        · simp at h
    · split at h
      · have := actionLoop_exit_reads env n _ m w instr c d' m' w' h
        refine Nat.lt_of_le_of_lt ?_ this
        split <;> exact Nat.le_refl _
      · simp at h
    · split at h <;> simp at h
    · simp at h
    · split at h <;> simp at h

/-- **C11 (at the level of one loop iteration).** If control is at an address with an armed
breakpoint, the iteration cannot execute anything before at least one command has been read:
whatever this iteration does (execute, stutter, detach, end), the count of commands read has
grown. -/
theorem armed_iteration_reads (env : Env) (d : Dbg) (m : Machine) (w : World) (h : Armed d m.pc) :
    match iter env true d m w with
    | .cont _ d' _ _ _ => d.ncmds < d'.ncmds
    | .done _ d' _ _ => d.ncmds < d'.ncmds
    | .exit _ _ d' _ _ _ => d.ncmds < d'.ncmds
    | .panic _ => True := by
  have key : ∀ d' : Dbg, C12.Iter.dbg? (iter env true d m w) = some d' → d.ncmds < d'.ncmds := by
    intro d' hd
    unfold iter at hd
    simp only [if_true] at hd
    cases hn : nextAction env d m w with
    | panic s => rw [hn] at hd; simp [C12.Iter.dbg?] at hd
    | exit c d1 m1 w1 =>
      -- `exit` comes out of a command (eval): a command was read
      rw [hn] at hd; simp [C12.Iter.dbg?] at hd; rw [← hd]
      rw [nextAction_eq] at hn
      have := actionLoop_exit_reads env _ _ m w _ c d1 m1 w1 hn
      rw [(preamble_facts d m).1] at this
      exact this
    | action a d1 m1 w1 =>
      have hlt := bp_pause_before_exec env d m w h a d1 m1 w1 hn
      rw [hn] at hd
      cases a with
      | stopDebugger => simp [C12.Iter.dbg?] at hd; rw [← hd]; exact hlt
      | exitProgram => simp [C12.Iter.dbg?] at hd; rw [← hd]; exact hlt
      | proceed =>
        simp only at hd
        split at hd
        · simp [C12.Iter.dbg?] at hd; rw [← hd]; exact hlt
        · split at hd
          · simp [C12.Iter.dbg?] at hd; rw [← hd]; exact hlt
          · rcases C16.execOne_cases env true
              { d1 with icount := if d1.icount < 4294967295 then d1.icount + 1 else d1.icount,
                        nexec := d1.nexec + 1 } m1 w1 with ⟨_, _, he⟩ | ⟨_, _, _, he⟩ | ⟨_, he⟩ <;>
              (rw [he] at hd; simp [C12.Iter.dbg?] at hd)
            · rw [← hd]; exact hlt
            · rw [← hd]; exact hlt
  cases hi : iter env true d m w with
  | cont a d' m' w' e => exact key d' (by rw [hi]; rfl)
  | done a d' m' w' => exact key d' (by rw [hi]; rfl)
  | exit c a d' m' w' e => exact key d' (by rw [hi]; rfl)
  | panic s => trivial

end Lace.C11
