/-
  C01 / C04, stage 1 (statement level): `AsmLine::emit` of a resolved statement against the ISA
  encoding of `Lace/Spec/Encode.lean`.

  `toSpec orig` reads a resolved AIR statement as an ISA instruction: a label reference to
  statement number `t` is the address `orig + t − 1`, the `u8` immediates are the 5- / 6-bit fields
  the parser's range check let through.  The statement with number `line` sits at `orig + line − 1`.

  * `emit_eq_encode` (full statement, a `Prop`): `emit` returns exactly `encode` when every operand
    fits and the "offset too large" diagnostic otherwise (`emit_ok_iff_fits` is its corollary).
  * STATUS: the two statements are *stated, not proved* (no `_partial` theorem yet).  What is proved
    are the bit-level bridging lemmas in `Proofs/EncodeBits.lean` — one per instruction form
    (`enc_add_reg` … `enc_call`: shifts/masks/ORs of `emit` = the bit-field concatenation of the
    specification, by exhaustive kernel evaluation over the operand fields) and `field9/10/11`
    (masking a fitting offset = truncating it) — and the corollary
    `emit_ok_iff_fits_of_emit_eq_encode`.  Missing: assembling them per statement, and the
    arithmetic bridge "`(t − line) as i16 − 1` fits n bits ⇔ `target − (addr + 1)` fits n bits, and
    then they are equal".
-/
import Lace.Proofs.EncodeBits
namespace Lace.C01
open Lace.Asm Lace.Spec

/-- address of the statement with 1-based number `line` in a program loaded at `orig` -/
def addrOf (orig : Word) (line : Nat) : Word := orig + BitVec.ofNat 16 line - 1

/-- A resolved AIR statement read as an ISA instruction (`none`: a label is still unfilled). -/
def toSpec (orig : Word) : Stmt → Option Instr
  | .add d s (.reg r) => some (.addReg d s r)
  | .add d s (.imm5 v) => some (.addImm d s (v.setWidth 5))
  | .and d s (.reg r) => some (.andReg d s r)
  | .and d s (.imm5 v) => some (.andImm d s (v.setWidth 5))
  | .branch f (.ref t) => some (.br (f.bits.setWidth 3) (addrOf orig t))
  | .jump s => some (.jmp s)
  | .jumpSub (.ref t) => some (.jsr (addrOf orig t))
  | .jumpSubReg s => some (.jsrr s)
  | .load d (.ref t) => some (.ld d (addrOf orig t))
  | .loadInd d (.ref t) => some (.ldi d (addrOf orig t))
  | .loadOffs d s off => some (.ldr d s (off.setWidth 6))
  | .loadEAddr d (.ref t) => some (.lea d (addrOf orig t))
  | .not d s => some (.not d s)
  | .ret => some .ret
  | .interrupt => some .rti
  | .store s (.ref t) => some (.st s (addrOf orig t))
  | .storeInd s (.ref t) => some (.sti s (addrOf orig t))
  | .storeOffs s d off => some (.str s d (off.setWidth 6))
  | .push s => some (.push s)
  | .pop d => some (.pop d)
  | .call (.ref t) => some (.call (addrOf orig t))
  | .rets => some .rets
  | .rawWord v => some (.fill v)
  | .trap v => some (.trap v)
  | _ => none

/-- what `emit` must return for an instruction the specification encodes / cannot encode -/
def expected (i : Instr) (addr : Word) : Res Word :=
  match encode i addr with
  | some w => .ok w
  | none => .diag .offsetTooLarge none

/-- Full statement of stage 1. -/
def emit_eq_encode : Prop :=
  ∀ (orig : Word) (a : AsmLine) (i : Instr), toSpec orig a.stmt = some i →
    a.emit = expected i (addrOf orig a.line)

/-- Corollary shape for C04: `emit` succeeds exactly when every operand fits. -/
def emit_ok_iff_fits : Prop :=
  ∀ (orig : Word) (a : AsmLine) (i : Instr), toSpec orig a.stmt = some i →
    ((∃ w, a.emit = .ok w) ↔ (encode i (addrOf orig a.line)).isSome = true)

theorem emit_ok_iff_fits_of_emit_eq_encode (h : emit_eq_encode) : emit_ok_iff_fits := by
  intro orig a i hi
  rw [h orig a i hi]
  unfold expected
  cases encode i (addrOf orig a.line) <;> simp

end Lace.C01
