/-
  C01 / C04, stage 1 (statement level): `AsmLine::emit` of a resolved statement against the ISA
  encoding of `Lace/Spec/Encode.lean`.

  `toSpec orig` reads a resolved AIR statement as an ISA instruction: a label reference to
  statement number `t` is the address `orig + t − 1`, the `u8` immediates are the 5- / 6-bit fields
  the parser's range check let through.  The statement with number `line` sits at `orig + line − 1`.

  * `emit_eq_encode` (full statement, a `Prop`): `emit` returns exactly `encode` when every operand
    fits and the "offset too large" diagnostic otherwise (`emit_ok_iff_fits` is its corollary).
  * STATUS: both are **proved** (`emit_eq_encode_holds`, `emit_ok_iff_fits_holds`), for every
    statement form and every operand value: case split on the statement constructor, the per-form
    bit-level lemma of `Proofs/EncodeBits.lean` (`enc_add_reg` … `enc_call`, exhaustive kernel
    evaluation over the operand fields), and for the eight PC-relative forms the arithmetic bridge
    of `Proofs/EncodeOffs.lean` (`bitOffs_eq_pcField`: "`(t − line) as i16 − 1` fits n bits ⇔
    `target − (addr + 1)` fits n bits, and then the masked offset is the truncated distance").
-/
import Lace.Proofs.EncodeOffs
namespace Lace.C01
open Lace.Asm Lace.Spec

/-- A resolved AIR statement read as an ISA instruction (`none`: a label is still unfilled). -/
def toSpec (orig : Word) : Stmt → Option Instr
  | .add d s (.reg r) => some (.addReg d s r)
  | .add d s (.imm5 v) => some (.addImm d s (v.setWidth 5))
  | .and d s (.reg r) => some (.andReg d s r)
  | .and d s (.imm5 v) => some (.andImm d s (v.setWidth 5))
  | .branch f (.ref t) => some (.br (f.bits.setWidth 3) (addrOf orig t))
  | .jump s => some (.jmp s)
  | .jumpSub (.ref t) => some (.jsr (addrOf orig t))
  | .jumpSubReg s => some (.jsrr s)
  | .load d (.ref t) => some (.ld d (addrOf orig t))
  | .loadInd d (.ref t) => some (.ldi d (addrOf orig t))
  | .loadOffs d s off => some (.ldr d s (off.setWidth 6))
  | .loadEAddr d (.ref t) => some (.lea d (addrOf orig t))
  | .not d s => some (.not d s)
  | .ret => some .ret
  | .interrupt => some .rti
  | .store s (.ref t) => some (.st s (addrOf orig t))
  | .storeInd s (.ref t) => some (.sti s (addrOf orig t))
  | .storeOffs s d off => some (.str s d (off.setWidth 6))
  | .push s => some (.push s)
  | .pop d => some (.pop d)
  | .call (.ref t) => some (.call (addrOf orig t))
  | .rets => some .rets
  | .rawWord v => some (.fill v)
  | .trap v => some (.trap v)
  | _ => none

/-- what `emit` must return for an instruction the specification encodes / cannot encode -/
def expected (i : Instr) (addr : Word) : Res Word :=
  match encode i addr with
  | some w => .ok w
  | none => .diag .offsetTooLarge none

/-- Full statement of stage 1. -/
def emit_eq_encode : Prop :=
  ∀ (orig : Word) (a : AsmLine) (i : Instr), toSpec orig a.stmt = some i →
    a.emit = expected i (addrOf orig a.line)

/-- Corollary shape for C04: `emit` succeeds exactly when every operand fits. -/
def emit_ok_iff_fits : Prop :=
  ∀ (orig : Word) (a : AsmLine) (i : Instr), toSpec orig a.stmt = some i →
    ((∃ w, a.emit = .ok w) ↔ (encode i (addrOf orig a.line)).isSome = true)

theorem emit_ok_iff_fits_of_emit_eq_encode (h : emit_eq_encode) : emit_ok_iff_fits := by
  intro orig a i hi
  rw [h orig a i hi]
  unfold expected
  cases encode i (addrOf orig a.line) <;> simp

theorem emit_eq_encode_holds : emit_eq_encode := by
  intro orig a i h
  obtain ⟨line, stmt, span⟩ := a
  cases stmt with
  | add d s x =>
    cases x with
    | reg r => cases h; exact congrArg Res.ok (enc_add_reg d s r)
    | imm5 v => cases h; show Res.ok _ = Res.ok _; rw [ImmOrReg.bits, imm5_low, enc_add_imm]
  | and d s x =>
    cases x with
    | reg r => cases h; exact congrArg Res.ok (enc_and_reg d s r)
    | imm5 v => cases h; show Res.ok _ = Res.ok _; rw [ImmOrReg.bits, imm5_low, enc_and_imm]
  | branch f l =>
    cases l with
    | unfilled nm => cases h
    | ref t => cases h; exact emit_pc orig _ line t 9 (by decide) _ (enc_br f)
  | jump s => cases h; exact congrArg Res.ok (enc_jmp s)
  | jumpSub l =>
    cases l with
    | unfilled nm => cases h
    | ref t => cases h; exact emit_pc orig _ line t 11 (by decide) _ enc_jsr
  | jumpSubReg s => cases h; exact congrArg Res.ok (enc_jsrr s)
  | load d l =>
    cases l with
    | unfilled nm => cases h
    | ref t => cases h; exact emit_pc orig _ line t 9 (by decide) _ (enc_ld d)
  | loadInd d l =>
    cases l with
    | unfilled nm => cases h
    | ref t => cases h; exact emit_pc orig _ line t 9 (by decide) _ (enc_ldi d)
  | loadOffs d s off => cases h; show Res.ok _ = Res.ok _; rw [off6_low, enc_ldr]
  | loadEAddr d l =>
    cases l with
    | unfilled nm => cases h
    | ref t => cases h; exact emit_pc orig _ line t 9 (by decide) _ (enc_lea d)
  | not d s => cases h; exact congrArg Res.ok (enc_not d s)
  | ret => cases h; exact congrArg Res.ok ret_word
  | interrupt => cases h; exact congrArg Res.ok rti_word
  | store r l =>
    cases l with
    | unfilled nm => cases h
    | ref t => cases h; exact emit_pc orig _ line t 9 (by decide) _ (enc_st r)
  | storeInd r l =>
    cases l with
    | unfilled nm => cases h
    | ref t => cases h; exact emit_pc orig _ line t 9 (by decide) _ (enc_sti r)
  | storeOffs r d off => cases h; show Res.ok _ = Res.ok _; rw [off6_low, enc_str]
  | push r => cases h; exact congrArg Res.ok (enc_push r)
  | pop r => cases h; exact congrArg Res.ok (enc_pop r)
  | call l =>
    cases l with
    | unfilled nm => cases h
    | ref t => cases h; exact emit_pc orig _ line t 10 (by decide) _ enc_call
  | rets => cases h; exact congrArg Res.ok rets_word
  | rawWord v => cases h; rfl
  | trap v => cases h; exact congrArg Res.ok (enc_trap v)

theorem emit_ok_iff_fits_holds : emit_ok_iff_fits :=
  emit_ok_iff_fits_of_emit_eq_encode emit_eq_encode_holds

/-- the hypotheses are satisfiable: `br` three statements back from statement 5 at x3000 -/
example : (AsmLine.mk 5 (.branch .nzp (.ref 2)) Span.dummy).emit = .ok 0x0FFC#16 ∧
    toSpec 0x3000#16 (.branch .nzp (.ref 2)) = some (.br 7#3 0x3001#16) ∧
    encode (.br 7#3 0x3001#16) (addrOf 0x3000#16 5) = some 0x0FFC#16 :=
  ⟨by rfl, by rfl, by decide⟩

end Lace.C01
