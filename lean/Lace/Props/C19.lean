/-
  C19 — Assembling is a pure function of the source text.

  In the model the only state that survives an assembly is the symbol table, which `assemble`
  takes as an argument and returns (also when assembling fails: the table "left behind").
  `SymTab.reset` is `lace::reset_state()`.  `runSeq` is a process that assembles a list of sources
  one after the other on one thread, optionally calling `reset_state()` before each.

  The theorems are modest — purity is by construction in a functional model; that lace has no
  *other* state is what the correspondence check (sequences on one thread against the model's
  `runSeq`, and against fresh threads) establishes.  What the model does show is that the reset is
  *needed*: `stale_table_matters` exhibits two sources whose second assembly differs without it.
-/
import Lace.Model.Assemble
namespace Lace.C19
open Lace.Asm

/-- `reset_state()` empties the table, whatever it held. -/
theorem reset_eq_empty (t : SymTab) : SymTab.reset t = [] := rfl

/-- After a reset the result does not depend on what was assembled before — in particular not on
the table left behind by an assembly that failed half-way. -/
theorem assemble_after_reset (flag : Bool) (t : SymTab) (src : List Char) :
    (assemble flag (SymTab.reset t) src).1 = (assemble flag [] src).1 := rfl

/-- Repeating an assembly gives the same result (the model is a function). -/
theorem assemble_deterministic (flag : Bool) (t : SymTab) (src : List Char) :
    assemble flag t src = assemble flag t src := rfl

/-- A sequence of assemblies with a reset between consecutive ones gives, element by element, what
assembling each source in a fresh process gives — for every history, including failed ones. -/
theorem runSeq_reset_eq_map (flag : Bool) (t : SymTab) (srcs : List (List Char)) :
    runSeq flag true t srcs = srcs.map (fun s => (assemble flag [] s).1) := by
  induction srcs generalizing t with
  | nil => rfl
  | cons s rest ih => simp only [runSeq, List.map_cons, if_true, ih, reset_eq_empty]

/-- Every re-check of `lace watch` (assemble, reset, assemble, …) equals a fresh `lace check`. -/
theorem watch_recheck_eq_check (flag : Bool) (history : List (List Char)) (src : List Char) :
    (runSeq flag true [] (history ++ [src])).getLast? = some (assemble flag [] src).1 := by
  rw [runSeq_reset_eq_map]; simp

/-- Without the reset the history matters: a label defined by the first source is a duplicate in
the second. -/
theorem stale_table_matters :
    runSeq true false [] ["a halt".toList, "a halt".toList] ≠
    runSeq true true [] ["a halt".toList, "a halt".toList] := by decide

/-- **Whole watch sessions.** As long as every version so far could be read, each re-check says
what a fresh `lace check` of that version says (whatever was assembled before, failures
included); the first version that is not text ends the watcher (`check` reports an error for it),
and no later version is re-checked. -/
theorem watch_session_eq_checks (flag : Bool) (vs : List (Option (List Char))) :
    watchSession flag [] vs =
      (vs.takeWhile Option.isSome).map (checkVerdict flag) ++
      (match vs.dropWhile Option.isSome with
       | [] => []
       | _ :: later => .exited :: later.map fun _ => .none) := by
  induction vs with
  | nil => simp [watchSession]
  | cons v rest ih =>
    cases v with
    | none => simp [watchSession]
    | some src =>
      simp only [watchSession, List.takeWhile_cons, Option.isSome_some, if_true, List.map_cons,
        List.dropWhile_cons, List.cons_append, checkVerdict, reset_eq_empty]
      rw [ih]

example : watchSession true [] [some "a halt".toList, some "a halt\nb add r0".toList, some "a halt".toList, none, some "halt".toList] =
    [.ok, .diag, .ok, .exited, .none] := by decide

end Lace.C19
