/-
  C18 — the feature flag and OBJECT files (`lace run x.lc3 [-f stack]`).

  The model `laceFlagObj` (Model/CliFlag.lean): the option is parsed and the features initialised
  exactly as for a source, then the loader and the run loop.

  * `obj_flag_irrelevant`     : an object file whose run without the option never fetches an
                                 opcode-0xD word runs the same with `-f stack` (status, stdout).
  * `obj_flag_off_opD_exit1`  : without the option, fetching an opcode-0xD word ends the process with
                                 exit status 1 and a text that names the feature — never a panic.
  * `obj_flag_position_irrelevant` : the option means the same before and after the subcommand.
  * `obj_bad_option_exit2`    : a value the option parser refuses ends the process with status 2
                                 before anything is loaded.
-/
import Lace.Props.C18
namespace Lace.C18
open Lace Lace.Cli

theorem runObjFile_eq (so mi : Bool) (fuel : Nat) (name : List Char) (bytes inp : List Nat) (m : Machine)
    (hE : (bytes.length % 2 != 0) = false) (hL : Run.fromRaw (wordsOfBytes bytes) = .ok m) :
    runObjFile so mi fuel name bytes inp =
      (match Run.loop so mi fuel m (runWorld name inp) with
       | .done _ w => .finished { status := 0, out := (withOut w (message "Completed".toList ("target ".toList ++ name))).output }
       | .exit c _ w => .finished { status := c, out := w.output }
       | .panic s => .panic s
       | .fuel _ _ => .fuel) := by
  unfold runObjFile
  simp only [hE, hL, Bool.false_eq_true, if_false]
  rfl

/-- **Object files: the flag changes nothing** unless opcode 0xD is fetched. -/
theorem obj_flag_irrelevant (fuel : Nat) (name : List Char) (bytes inp : List Nat)
    (hrun : ∀ m, Run.fromRaw (wordsOfBytes bytes) = .ok m →
      ∀ x ∈ Run.fetchedWords false true fuel m (runWorld name inp), (x.extractLsb' 12 4).toNat ≠ 13) :
    laceFlagObj .absent (.given Features.stackWord) fuel name bytes inp =
      laceFlagObj .absent .absent fuel name bytes inp := by
  unfold laceFlagObj
  rw [featuresOf_stack, featuresOf_absent]
  simp only []
  cases hE : (bytes.length % 2 != 0) with
  | true =>
    have hE' : (bytes.length % 2 == 0) = false := by
      revert hE; cases h : bytes.length % 2 with
      | zero => simp
      | succ k => simp
    unfold runObjFile; simp only [hE, hE', if_true, Bool.false_and, Bool.and_false]
  | false =>
    cases hL : Run.fromRaw (wordsOfBytes bytes) with
    | exit c => unfold runObjFile; simp only [hE, hL, Bool.false_eq_true, if_false]
    | panic s => unfold runObjFile; simp only [hE, hL, Bool.false_eq_true, if_false]
    | ok m =>
      have hno := hrun m hL
      obtain ⟨h1, _, _⟩ := flag_irrelevant_run true fuel m (runWorld name inp) hno
      rw [runObjFile_eq true true fuel name bytes inp m hE hL,
        runObjFile_eq false true fuel name bytes inp m hE hL, h1]
      simp only [Bool.not_true, Bool.false_and, Bool.and_false, Bool.not_false, lastIsOpD_false hno]

/-- **Object files: without the option opcode 0xD stops the process with status 1**, whatever the
file — never a panic, never an execution of the word. -/
theorem obj_flag_off_opD_exit1 (fuel : Nat) (name : List Char) (bytes inp : List Nat) (m : Machine) (x : Word)
    (hE : (bytes.length % 2 != 0) = false) (hL : Run.fromRaw (wordsOfBytes bytes) = .ok m)
    (hx : x ∈ Run.fetchedWords false true fuel m (runWorld name inp)) (hd : (x.extractLsb' 12 4).toNat = 13) :
    ∃ out named, laceFlagObj .absent .absent fuel name bytes inp =
      .finished { status := 1, out := out, image := none, named := named } := by
  obtain ⟨m', w', h⟩ := flag_off_run_opD_exit1 true fuel m (runWorld name inp) x hx hd
  unfold laceFlagObj
  rw [featuresOf_absent]
  simp only []
  rw [runObjFile_eq false true fuel name bytes inp m hE hL, h]
  exact ⟨_, _, rfl⟩

/-- The option means the same before the subcommand as after it, for object files too. -/
theorem obj_flag_position_irrelevant (v : List Char) (fuel : Nat) (name : List Char) (bytes inp : List Nat) :
    laceFlagObj (.given v) .absent fuel name bytes inp = laceFlagObj .absent (.given v) fuel name bytes inp := by
  unfold laceFlagObj
  rw [featuresOf2_comm]

/-- A refused option value ends the process with status 2, nothing printed, nothing loaded. -/
theorem obj_bad_option_exit2 (g l : FlagArg) (e : Features.Err) (fuel : Nat) (name : List Char) (bytes inp : List Nat)
    (h : featuresOf2 g l = .error e) :
    laceFlagObj g l fuel name bytes inp = .finished { status := 2, out := [], image := none, named := false } := by
  unfold laceFlagObj
  rw [h]

/-! Non-vacuity.  The hypotheses speak about whatever machine the loader produces; they are met, for
instance, by every file under a step budget of 0, and — evaluated by the compiled driver on every
`P18 runobj` request of the correspondence check, not by the kernel, because the loaded machine
holds 65,536 words — by the object files of programs that halt without a stack instruction
(`obj_flag_irrelevant`) and of programs that reach `.fill xD440` (`obj_flag_off_opD_exit1`). -/
example (name : List Char) (bytes inp : List Nat) : ∀ m, Run.fromRaw (wordsOfBytes bytes) = .ok m →
    ∀ x ∈ Run.fetchedWords false true 0 m (runWorld name inp), (x.extractLsb' 12 4).toNat ≠ 13 := by
  intro m _ x hx
  simp [Run.fetchedWords] at hx

end Lace.C18
