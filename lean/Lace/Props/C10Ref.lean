/-
  C10 — the debugger model REFINES the big-step reference debugger `Spec/RefDebug.lean`.

  For every program / machine, every initial breakpoint list, every script over
  {step, step into k, step out, continue, break add l, break remove l} followed by `exit`, the
  session `runLoop … (newDbg …)` and `RefDebug.runScript` agree on
    (a) the event log: how many instructions had been executed when each command was read
        (the model's own `cmdAt`, and `runObs`'s entries), and the total;
    (b) the machine in front of the user at every command read and at the end
  — for ALL fuel on both sides:
    * `stepping_refines_reference`  : a model session that ends within `n` iterations agrees with
                                      the reference run with any per-command fuel `f ≥ n`;
    * `reference_refines_stepping`  : a reference run that ends agrees with every model session of
                                      enough iterations (and that number exists);
    * `reference_fuel_refines_stepping` : a reference run whose command runs out of fuel after `f`
                                      instructions corresponds to a model session still running
                                      after the same commands and instructions;
    * `stepping_fuel_prefix`        : a model session cut off after `n` iterations has shown a
                                      prefix of the reference's log.
  Corollaries (any debugger record waiting for a command, ANY breakpoint list):
  `step_into_exact_with_breakpoints`, `step_over_call_pauses_at_return`,
  `step_out_stops_after_ret`, `continue_stops_only_at_interrupt`.
-/
import Lace.Proofs.RefDebugSim
import Lace.Model.DebuggerRef
namespace Lace.C10
open Lace Lace.Dbg Lace.Cmd Lace.DbgProofs Lace.RefDebug Lace.RefDebugProofs

/-- What reading one command does to the debugger's bookkeeping. -/
structure Read1 (d d1 : Dbg) : Prop where
  initial : d1.initial = d.initial
  cmds : d1.cmds = d.cmds
  ncmds : d1.ncmds = d.ncmds + 1
  nexec : d1.nexec = d.nexec
  cmdAt : d1.cmdAt = d.nexec :: d.cmdAt

theorem read1_of_upd {d d1 : Dbg} (h : Upd (base d) d1) : Read1 d d1 :=
  ⟨h.1, h.2.1, h.2.2.1, h.2.2.2.1, h.2.2.2.2.1⟩

theorem pc_ne_succ (pc : Word) : (pc == pc + 1) = false := by
  simp only [beq_eq_false_iff_ne, ne_eq]
  intro h
  have := congrArg BitVec.toNat h
  simp [BitVec.toNat_add] at this
  have := pc.isLt
  omega

theorem resume_not_halt (so mi : Bool) (stop : Word → Nat → Machine → Bool) (bps : BpSet) (f : Nat)
    (m : Machine) (w : World) (hh : atHalt m = false) :
    resume so mi stop bps f m w =
      if RefDebug.inUser m then runUntil so mi stop bps f 0 m w else .paused 0 m w := by
  unfold resume
  rw [← atHalt_eq, hh]
  cases RefDebug.inUser m <;> simp

theorem resume_halt (so mi : Bool) (stop : Word → Nat → Machine → Bool) (bps : BpSet) (f : Nat)
    (m : Machine) (w : World) (hh : atHalt m = true) :
    resume so mi stop bps f m w = .paused 0 m w := by
  unfold resume
  rw [← atHalt_eq, hh]
  simp

/-- **One command.** Either it leaves the debugger waiting (breakpoint commands; resuming commands
refused at HALT; `step out` without the stack feature) and the reference executes nothing and
updates its set alike — or it is a resuming command that is accepted: the status it sets up
performs, through `runStatus`, exactly the reference's loop for that command. -/
theorem cmd_sim (env : Env) (bps : BpSet) (d : Dbg) (m : Machine) (w : World) (x : Command)
    (hx : InAlphabet x = true) (hr : BpRel bps d.bps) :
    (∃ d1, runCommand env d m w x = .next d1 m w ∧ d1.status = d.status ∧ Read1 d d1 ∧
      BpRel (updateBps bps m (toRef env (origOf d) x)) d1.bps ∧
      ∀ f, run env.stackOn env.minimal bps f m w (toRef env (origOf d) x) = .paused 0 m w) ∨
    (∃ d1, runCommand env d m w x = .next d1 m w ∧ pausedAt d1.status m = false ∧ Read1 d d1 ∧
      d1.bps = d.bps ∧ atHalt m = false ∧ updateBps bps m (toRef env (origOf d) x) = bps ∧
      ∀ f, run env.stackOn env.minimal bps f m w (toRef env (origOf d) x) =
        if RefDebug.inUser m then runStatus env.stackOn env.minimal bps f 0 d1.status m w
        else .paused 0 m w) := by
  have hupd : ∀ d1, (runCommand env d m w x).dbg? = some d1 → Read1 d d1 :=
    fun d1 h => read1_of_upd (runCommand_upd env d m w x d1 h)
  cases x <;> simp [InAlphabet] at hx
  case stepOver =>
    by_cases hh : atHalt m = true
    · left
      have hc := cmd_refused_at_halt env d m w .stepOver (Or.inl rfl) hh
      refine ⟨_, hc, rfl, hupd _ (by rw [hc]; rfl), hr, fun f => ?_⟩
      simp only [toRef, run]
      split <;> exact resume_halt _ _ _ _ _ _ _ hh
    · have hh' : atHalt m = false := by simpa using hh
      right
      have hc := cmd_step env d m w hh'
      refine ⟨_, hc, ?_, hupd _ (by rw [hc]; rfl), rfl, hh', rfl, fun f => ?_⟩
      · simp only
        split
        · simp [pausedAt, pc_ne_succ]
        · simp [pausedAt]
      · simp only [toRef, run, isCall_eq]
        by_cases hcall : Dbg.isCall (m.read m.pc) = true
        · rw [if_pos hcall, if_pos hcall, resume_not_halt _ _ _ _ _ _ _ hh', runStatus_stepOver]
        · rw [if_neg hcall, if_neg hcall, resume_not_halt _ _ _ _ _ _ _ hh',
            runStatus_stepInto env.stackOn env.minimal bps 1 f 0 0 m w (by simp)]
          rfl
  case stepInto k =>
    have hk : k ≠ 0#16 := hx
    by_cases hh : atHalt m = true
    · left
      have hc := cmd_refused_at_halt env d m w (.stepInto k) (Or.inr (Or.inr (Or.inl ⟨k, rfl⟩))) hh
      refine ⟨_, hc, rfl, hupd _ (by rw [hc]; rfl), hr, fun f => ?_⟩
      simp only [toRef, run]
      exact resume_halt _ _ _ _ _ _ _ hh
    · have hh' : atHalt m = false := by simpa using hh
      right
      have hc := cmd_stepInto env d m w k hh' hk
      refine ⟨_, hc, by simp [pausedAt], hupd _ (by rw [hc]; rfl), rfl, hh', rfl, fun f => ?_⟩
      simp only [toRef, run]
      have hk1 : k.toNat ≠ 0 := fun h0 => hk (BitVec.eq_of_toNat_eq (by simpa using h0))
      have hk2 : (k - 1).toNat = k.toNat - 1 := by
        have := k.isLt
        simp [BitVec.toNat_sub]; omega
      rw [resume_not_halt _ _ _ _ _ _ _ hh',
        runStatus_stepInto env.stackOn env.minimal bps (max k.toNat 1) f 0 (k - 1) m w (by omega)]
      rfl
  case stepOut =>
    by_cases hso : env.stackOn = true
    · by_cases hh : atHalt m = true
      · left
        have hc := cmd_refused_at_halt env d m w .stepOut (Or.inr (Or.inr (Or.inr ⟨rfl, hso⟩))) hh
        refine ⟨_, hc, rfl, hupd _ (by rw [hc]; rfl), hr, fun f => ?_⟩
        simp only [toRef, run, hso, if_true]
        exact resume_halt _ _ _ _ _ _ _ hh
      · have hh' : atHalt m = false := by simpa using hh
        right
        have hc := cmd_stepOut env d m w hh' hso
        refine ⟨_, hc, by simp [pausedAt], hupd _ (by rw [hc]; rfl), rfl, hh', rfl, fun f => ?_⟩
        simp only [toRef, run, hso, if_true]
        rw [resume_not_halt _ _ _ _ _ _ _ hh', runStatus_finish]
    · have hso' : env.stackOn = false := by simpa using hso
      left
      have hc : runCommand env d m w .stepOut = .next (say (base d) "MissingFeature::Stack") m w := by
        simp [runCommand, hso', base]
      refine ⟨_, hc, rfl, hupd _ (by rw [hc]; rfl), hr, fun f => ?_⟩
      simp [toRef, run, hso']
  case continue_ =>
    by_cases hh : atHalt m = true
    · left
      have hc := cmd_refused_at_halt env d m w .continue_ (Or.inr (Or.inl rfl)) hh
      refine ⟨_, hc, rfl, hupd _ (by rw [hc]; rfl), hr, fun f => ?_⟩
      simp only [toRef, run]
      exact resume_halt _ _ _ _ _ _ _ hh
    · have hh' : atHalt m = false := by simpa using hh
      right
      have hc := cmd_continue env d m w hh'
      refine ⟨_, hc, by simp [pausedAt], hupd _ (by rw [hc]; rfl), rfl, hh', rfl, fun f => ?_⟩
      simp only [toRef, run]
      rw [resume_not_halt _ _ _ _ _ _ _ hh', runStatus_cont]
  case breakAdd l =>
    left
    cases hres : resolveUser env (origOf d) m l with
    | error e =>
      have hc : runCommand env d m w (.breakAdd l) = .next (say (base d) e) m w := by
        simp only [runCommand]
        simp only [base, origOf] at hres ⊢
        rw [hres]
      exact ⟨_, hc, rfl, hupd _ (by rw [hc]; rfl), by simp only [toRef, updateBps, hres, Except.toOption]; exact hr, fun _ => rfl⟩
    | ok a =>
      have hrel := bpRel_add bps d.bps a hr
      by_cases he : (bpInsert d.bps ⟨a, false⟩).2 = true
      · have hc : runCommand env d m w (.breakAdd l) = .next (say (base d) "Breakpoints::AlreadyExists") m w := by
          simp only [runCommand]
          simp only [base, origOf] at hres ⊢
          rw [hres]
          simp [he]
        rw [if_pos he] at hrel
        exact ⟨_, hc, rfl, hupd _ (by rw [hc]; rfl), by simp only [toRef, updateBps, hres, Except.toOption]; exact hrel, fun _ => rfl⟩
      · have hc : runCommand env d m w (.breakAdd l) =
            .next { base d with bps := (bpInsert d.bps ⟨a, false⟩).1 } m w := by
          simp only [runCommand]
          simp only [base, origOf] at hres ⊢
          rw [hres]
          simp [he]
        rw [if_neg he] at hrel
        exact ⟨_, hc, rfl, hupd _ (by rw [hc]; rfl), by simp only [toRef, updateBps, hres, Except.toOption]; exact hrel, fun _ => rfl⟩
  case breakRemove l =>
    left
    cases hres : resolveUser env (origOf d) m l with
    | error e =>
      have hc : runCommand env d m w (.breakRemove l) = .next (say (base d) e) m w := by
        simp only [runCommand]
        simp only [base, origOf] at hres ⊢
        rw [hres]
      exact ⟨_, hc, rfl, hupd _ (by rw [hc]; rfl), by simp only [toRef, updateBps, hres, Except.toOption]; exact hr, fun _ => rfl⟩
    | ok a =>
      have hrel := bpRel_remove bps d.bps a hr
      by_cases he : (bpRemove d.bps a).2 = true
      · have hc : runCommand env d m w (.breakRemove l) =
            .next { base d with bps := (bpRemove d.bps a).1 } m w := by
          simp only [runCommand]
          simp only [base, origOf] at hres ⊢
          rw [hres]
          simp [he]
        rw [if_pos he] at hrel
        exact ⟨_, hc, rfl, hupd _ (by rw [hc]; rfl), by simp only [toRef, updateBps, hres, Except.toOption]; exact hrel, fun _ => rfl⟩
      · have hc : runCommand env d m w (.breakRemove l) = .next (say (base d) "Breakpoints::NotFound") m w := by
          simp only [runCommand]
          simp only [base, origOf] at hres ⊢
          rw [hres]
          simp [he]
        rw [if_neg he] at hrel
        exact ⟨_, hc, rfl, hupd _ (by rw [hc]; rfl), by simp only [toRef, updateBps, hres, Except.toOption]; exact hrel, fun _ => rfl⟩

/-! ### Sessions -/

theorem runStatus_fuel (so mi : Bool) (bps : BpSet) : ∀ (f j : Nat) (s : Status) (m : Machine) (w : World)
    (j' : Nat) (m' : Machine) (w' : World), runStatus so mi bps f j s m w = .fuel j' m' w' → j' = j + f
  | 0, j, s, m, w, j', m', w', h => by
    simp only [runStatus, Out.fuel.injEq] at h; omega
  | f + 1, j, s, m, w, j', m', w', h => by
    unfold runStatus at h
    cases hx : RefDebug.step so mi m w with
    | ok m1 w1 =>
      rw [hx] at h
      simp only at h
      split at h
      · cases h
      · have := runStatus_fuel so mi bps f (j + 1) _ m1 w1 j' m' w' h
        omega
    | exit c w1 => rw [hx] at h; cases h
    | panic s1 => rw [hx] at h; cases h

theorem arrive_fuel (so mi : Bool) (bps : BpSet) (f j : Nat) (s : Status) (m : Machine) (w : World)
    (j' : Nat) (m' : Machine) (w' : World) (h : arrive so mi bps f j s m w = .fuel j' m' w') : j' = j + f := by
  unfold arrive at h
  split at h
  · cases h
  · exact runStatus_fuel so mi bps f j s m w j' m' w' h

/-- What follows a command's run in `runScript`. -/
def contRef (so mi : Bool) (f k : Nat) (rest : List RefDebug.Cmd) (bps : BpSet) : Out → Result
  | .paused n m' w' => runScript so mi f (k + n) rest bps m' w'
  | .ended n code m' w' => ⟨[], k + n, .ended code m' w'⟩
  | .panic n s => ⟨[], k + n, .panic s⟩
  | .fuel n m' w' => ⟨[], k + n, .fuel m' w'⟩

theorem runScript_cons (so mi : Bool) (f k : Nat) (c : RefDebug.Cmd) (rest : List RefDebug.Cmd) (bps : BpSet)
    (m : Machine) (w : World) :
    runScript so mi f k (c :: rest) bps m w =
      Result.cons ⟨k, m, w⟩ (contRef so mi f k rest (updateBps bps m c) (run so mi bps f m w c)) := by
  simp only [runScript]
  cases run so mi bps f m w c <;> rfl

/-- Entries of the commands already read in the current iteration (all shown the same machine). -/
def pend (c : Cfg) (d' : Dbg) : List Entry :=
  List.replicate (d'.ncmds - c.d.ncmds) ⟨c.d.nexec, c.m, c.w⟩ ++ c.sh

/-- Bookkeeping of a finished (or cut off) session against the reference's log. -/
structure Book (c : Cfg) (d' dF : Dbg) (exF : List Word) (log : List Entry) (executed : Nat) : Prop where
  cmdAt : dF.cmdAt = (log.map (·.executed)).reverse ++ d'.cmdAt
  ncmds : dF.ncmds = d'.ncmds + log.length
  ex : exF.length + c.d.nexec = c.ex.length + executed

/-- The model, from configuration `c` in whose current iteration the status loop stands at the
record `d'`, does what the reference result says. -/
def SimFin (env : Env) (f : Nat) (c : Cfg) (d' : Dbg) (log : List Entry) (executed : Nat) : Final → Prop
  | .exited m' w' => ∃ k dF exF,
      Ends env k c (.done true dF m' w' exF, log.reverse ++ pend c d') ∧ Book c d' dF exF log executed
  | .ended code m' w' => ∃ k dF exF,
      Ends env k c (.exit code true dF m' w' exF, log.reverse ++ pend c d') ∧ Book c d' dF exF log executed
  | .panic s => ∃ k sh', Ends env k c (.panic s, sh')
  | .fuel m' w' => ∃ k dF exF,
      Reaches env k c ⟨true, dF, m', w', exF, log.reverse ++ pend c d'⟩ ∧ Book c d' dF exF log executed ∧
      f ≤ executed

def SimRes (env : Env) (f : Nat) (c : Cfg) (d' : Dbg) (R : Result) : Prop :=
  SimFin env f c d' R.log R.executed R.final

theorem SimRes.pre {env : Env} {f : Nat} {c c1 : Cfg} {d1 d2 : Dbg} {R : Result} {k δ : Nat}
    (hreach : Reaches env k c c1) (hpend : pend c1 d2 = pend c d1) (hat : d2.cmdAt = d1.cmdAt)
    (hn : d2.ncmds = d1.ncmds) (hex : c1.ex.length = c.ex.length + δ) (hne : c1.d.nexec = c.d.nexec + δ)
    (h : SimRes env f c1 d2 R) : SimRes env f c d1 R := by
  unfold SimRes at *
  cases hfin : R.final <;> rw [hfin] at h <;> simp only [SimFin] at h ⊢
  · obtain ⟨k1, dF, exF, h1, hb⟩ := h
    refine ⟨k1 + k, dF, exF, ?_, ⟨by rw [← hat]; exact hb.cmdAt, by rw [← hn]; exact hb.ncmds, ?_⟩⟩
    · rw [← hpend]; exact hreach.ends h1
    · have := hb.ex; omega
  · obtain ⟨k1, dF, exF, h1, hb⟩ := h
    refine ⟨k1 + k, dF, exF, ?_, ⟨by rw [← hat]; exact hb.cmdAt, by rw [← hn]; exact hb.ncmds, ?_⟩⟩
    · rw [← hpend]; exact hreach.ends h1
    · have := hb.ex; omega
  · obtain ⟨k1, sh', h1⟩ := h
    exact ⟨k1 + k, sh', hreach.ends h1⟩
  · obtain ⟨k1, dF, exF, h1, hb, hfu⟩ := h
    refine ⟨k1 + k, dF, exF, ?_, ⟨by rw [← hat]; exact hb.cmdAt, by rw [← hn]; exact hb.ncmds, ?_⟩, hfu⟩
    · rw [← hpend]; exact hreach.trans h1
    · have := hb.ex; omega

theorem pend_succ (c : Cfg) (d' d1 : Dbg) (hn : d1.ncmds = d'.ncmds + 1) (hle : c.d.ncmds ≤ d'.ncmds) :
    pend c d1 = ⟨c.d.nexec, c.m, c.w⟩ :: pend c d' := by
  unfold pend
  have : d1.ncmds - c.d.ncmds = (d'.ncmds - c.d.ncmds) + 1 := by omega
  rw [this, List.replicate_succ]
  rfl

theorem SimRes.cons {env : Env} {f : Nat} {c : Cfg} {d' d1 : Dbg} {R : Result}
    (hn : d1.ncmds = d'.ncmds + 1) (hle : c.d.ncmds ≤ d'.ncmds) (hat : d1.cmdAt = c.d.nexec :: d'.cmdAt)
    (h : SimRes env f c d1 R) : SimRes env f c d' (R.cons ⟨c.d.nexec, c.m, c.w⟩) := by
  have hp := pend_succ c d' d1 hn hle
  have hlog : ∀ l : List Entry, (⟨c.d.nexec, c.m, c.w⟩ :: l).reverse ++ pend c d' = l.reverse ++ pend c d1 := by
    intro l; rw [hp]; simp
  have hbook : ∀ dF exF, Book c d1 dF exF R.log R.executed →
      Book c d' dF exF (⟨c.d.nexec, c.m, c.w⟩ :: R.log) R.executed := by
    intro dF exF hb
    refine ⟨?_, ?_, hb.ex⟩
    · rw [hb.cmdAt, hat]; simp
    · rw [hb.ncmds, hn]; simp; omega
  unfold SimRes at *
  simp only [Result.cons]
  cases hfin : R.final <;> rw [hfin] at h <;> simp only [SimFin] at h ⊢
  · obtain ⟨k1, dF, exF, h1, hb⟩ := h
    exact ⟨k1, dF, exF, by rw [hlog]; exact h1, hbook dF exF hb⟩
  · obtain ⟨k1, dF, exF, h1, hb⟩ := h
    exact ⟨k1, dF, exF, by rw [hlog]; exact h1, hbook dF exF hb⟩
  · exact h
  · obtain ⟨k1, dF, exF, h1, hb, hfu⟩ := h
    exact ⟨k1, dF, exF, by rw [hlog]; exact h1, hbook dF exF hb, hfu⟩

theorem actionLoop_wait_cons (env : Env) (n : Nat) (d : Dbg) (m : Machine) (w : World) (instr : Option Sig)
    (x : Command) (rest : List Command) (hs : d.status = .wait) (hc : d.cmds = x :: rest) :
    actionLoop env (n + 1) d m w instr =
      match runCommand env { d with cmds := rest } m w x with
      | .next d m w => actionLoop env n d m w instr
      | .action a d m w => .action a d m w
      | .exit c d m w => .exit c d m w
      | .panic s => .panic s := by
  conv => lhs; unfold actionLoop
  simp only [hs, hc]
  rfl

theorem preamble_oob (d : Dbg) (m : Machine) (h : Run.checkPcBounds m ≠ .eq) : (preamble d m).status = .wait := by
  unfold preamble
  cases hc : Run.checkPcBounds m with
  | eq => exact absurd hc h
  | lt => exact checkInterrupts_wait _ _ _ rfl
  | gt => exact checkInterrupts_wait _ _ _ rfl

/-- The statement proved by induction over the script: from any configuration in which the
debugger asks for a command with the script `cs; exit` left. -/
def SessionSim (env : Env) (f : Nat) (orig : Word) (cs : List Command) : Prop :=
  ∀ (bps : BpSet) (c : Cfg) (d' : Dbg) (N : Nat),
    c.att = true → Asks env c.d c.m c.w d' N → d'.cmds = cs ++ [.exit] → BpRel bps d'.bps →
    d'.nexec = c.d.nexec → c.d.ncmds ≤ d'.ncmds → origOf d' = orig →
    SimRes env f c d' (runScript env.stackOn env.minimal f c.d.nexec (cs.map (toRef env orig)) bps c.m c.w)

/-- After the command's first instruction: the running phase, then the rest of the script. -/
theorem out_sim (env : Env) (f : Nat) (orig : Word) (xs : List Command) (IH : SessionSim env f orig xs)
    (bps : BpSet) (c1 : Cfg) (j k0 : Nat) (o : Out) (hatt : c1.att = true)
    (hcm : c1.d.cmds = xs ++ [.exit]) (hr : BpRel bps c1.d.bps) (ho : origOf c1.d = orig)
    (hk : c1.d.nexec = k0 + j) (hfu : ∀ j' m' w', o = .fuel j' m' w' → f ≤ j')
    (h : SimOut env c1 j o) :
    SimRes env f c1 c1.d (contRef env.stackOn env.minimal f k0 (xs.map (toRef env orig)) bps o) := by
  cases o with
  | paused j' m' w' =>
    obtain ⟨hj, k, dP, exP, d'', N, h1, h2, h3, h4, h5, h6, h7⟩ := h
    have ih := IH bps ⟨true, dP, m', w', exP, c1.sh⟩ d'' N rfl h2 (by rw [h4.cmds, h3.cmds, hcm])
      (by rw [h4.bps, h3.bps]; exact hr) h6 (by show dP.ncmds ≤ d''.ncmds; rw [h4.ncmds]; exact Nat.le_refl _)
      (by show d''.initial.pc = orig; rw [h4.initial, h3.initial]; exact ho)
    have hkk : dP.nexec = k0 + j' := by omega
    simp only [hkk] at ih
    simp only [contRef]
    refine SimRes.pre (δ := j' - j) h1 ?_ (by rw [h4.cmdAt, h3.cmdAt]) (by rw [h4.ncmds, h3.ncmds]) h7 h5 ih
    simp [pend, h4.ncmds]
  | ended j' code m' w' =>
    obtain ⟨hj, k, dF, exF, h1, h2, h3, h4⟩ := h
    show SimFin env f c1 c1.d [] (k0 + j') (.ended code m' w')
    refine ⟨k, dF, exF, by simpa [pend] using h1, ⟨by simp [h2.cmdAt], by simp [h2.ncmds], by omega⟩⟩
  | panic j' s =>
    obtain ⟨k, h1⟩ := h
    exact ⟨k, _, h1⟩
  | fuel j' m' w' =>
    obtain ⟨hj, k, dF, exF, h1, h2, h3, h4⟩ := h
    have := hfu j' m' w' rfl
    show SimFin env f c1 c1.d [] (k0 + j') (.fuel m' w')
    refine ⟨k, dF, exF, by simpa [pend] using h1, ⟨by simp [h2.cmdAt], by simp [h2.ncmds], by omega⟩, by omega⟩

theorem note_pend (c : Cfg) (d1 d2 : Dbg) (h : d2.ncmds = d1.ncmds) :
    note true c.d d2 c.m c.w c.sh = pend c d1 := by
  unfold note pend; rw [h]; rfl

/-- **The session simulation**, by induction over the script. -/
theorem session_sim (env : Env) (f : Nat) (hf : 0 < f) (orig : Word) : ∀ cs : List Command,
    (∀ x ∈ cs, InAlphabet x = true) → SessionSim env f orig cs
  | [], _ => by
    intro bps c d' N hatt hasks hcm hr hne hle ho
    obtain ⟨att, d, m, w, ex, sh⟩ := c
    simp only at hatt hasks hne hle ⊢
    subst hatt
    obtain ⟨hna, hst, hN⟩ := hasks
    have hcm' : d'.cmds = [.exit] := by simpa using hcm
    obtain ⟨N', rfl⟩ : ∃ N', N = N' + 1 := ⟨N - 1, by omega⟩
    have hloop := actionLoop_wait_cons env N' d' m w (sigOf (m.read m.pc)) .exit [] hst hcm'
    have hit : iter env true d m w = .done true (base { d' with cmds := [] }) m w := by
      unfold iter
      simp only [if_true, hna, hloop, runCommand]
      rfl
    have he := ends_of_done env ⟨true, d, m, w, ex, sh⟩ true _ m w hit
    simp only at he
    rw [note_pend ⟨true, d, m, w, ex, sh⟩ (base { d' with cmds := [] }) (base { d' with cmds := [] }) rfl] at he
    rw [pend_succ ⟨true, d, m, w, ex, sh⟩ d' (base { d' with cmds := [] }) rfl hle] at he
    show SimFin env f _ d' [⟨d.nexec, m, w⟩] d.nexec (.exited m w)
    exact ⟨1, _, ex, by simpa using he, ⟨by simp [base, hne], by simp [base], by simp⟩⟩
  | x :: xs, hal => by
    have hx : InAlphabet x = true := hal x (by simp)
    have hxs : ∀ y ∈ xs, InAlphabet y = true := fun y hy => hal y (by simp [hy])
    have IH := session_sim env f hf orig xs hxs
    intro bps c d' N hatt hasks hcm hr hne hle ho
    obtain ⟨att, d, m, w, ex, sh⟩ := c
    simp only at hatt hasks hne hle ⊢
    subst hatt
    obtain ⟨hna, hst, hN⟩ := hasks
    have hcm' : d'.cmds = x :: (xs ++ [.exit]) := by simpa using hcm
    have hlen : d'.cmds.length = xs.length + 2 := by rw [hcm']; simp
    obtain ⟨N', rfl⟩ : ∃ N', N = N' + 1 := ⟨N - 1, by omega⟩
    have hloop := actionLoop_wait_cons env N' d' m w (sigOf (m.read m.pc)) x (xs ++ [.exit]) hst hcm'
    rw [List.map_cons, runScript_cons]
    -- the configuration and the record the command is run on
    let c0 : Cfg := ⟨true, d, m, w, ex, sh⟩
    let dq : Dbg := { d' with cmds := xs ++ [.exit] }
    have hoq : origOf dq = orig := ho
    rcases cmd_sim env bps dq m w x hx hr with
      ⟨d1, hrc, hs1, hrd, hrel, hrun⟩ | ⟨d1, hrc, hp1, hrd, hb1, hh, hub, hrun⟩
    · -- the debugger keeps waiting
      rw [hoq] at hrel hrun
      rw [hrun f]
      simp only [contRef, Nat.add_zero]
      have hna1 : nextAction env d m w = actionLoop env N' d1 m w (sigOf (m.read m.pc)) := by
        rw [hna, hloop, hrc]
      have hlen1 : d1.cmds.length = xs.length + 1 := by rw [hrd.cmds]; simp [dq]
      have ih := IH (updateBps bps m (toRef env orig x)) c0 d1 N' rfl
        ⟨hna1, hs1.trans hst, by omega⟩ hrd.cmds hrel (hrd.nexec.trans hne)
        (by show d.ncmds ≤ d1.ncmds; rw [hrd.ncmds]; show d.ncmds ≤ d'.ncmds + 1; omega)
        (by show d1.initial.pc = orig; rw [hrd.initial]; exact ho)
      exact SimRes.cons (c := c0) hrd.ncmds hle (by rw [hrd.cmdAt]; show d'.nexec :: d'.cmdAt = _; rw [hne]) ih
    · -- a resuming command is accepted
      rw [hoq] at hub hrun
      rw [hrun f, hub]
      obtain ⟨N'', rfl⟩ : ∃ N'', N' = N'' + 1 := ⟨N' - 1, by omega⟩
      obtain ⟨d2, hal2, hs2, hk2, hn2, hi2⟩ := actionLoop_proceeds env N'' d1 m w hp1
      have hna2 : nextAction env d m w = .action .proceed d2 m w := by rw [hna, hloop, hrc]; exact hal2
      have hnh : sigOf (m.read m.pc) ≠ some .halt := by
        intro h; simp [atHalt, h] at hh
      -- bookkeeping of the record after the command
      have hcm2 : d2.cmds = xs ++ [.exit] := by rw [hk2.cmds, hrd.cmds]
      have hnc2 : d2.ncmds = d'.ncmds + 1 := by rw [hk2.ncmds, hrd.ncmds]
      have hat2 : d2.cmdAt = d.nexec :: d'.cmdAt := by
        rw [hk2.cmdAt, hrd.cmdAt]; show d'.nexec :: d'.cmdAt = _; rw [hne]
      have hne2 : d2.nexec = d.nexec := by rw [hn2, hrd.nexec]; exact hne
      have hbp2 : BpRel bps d2.bps := by rw [hk2.bps, hb1]; exact hr
      have ho2 : origOf d2 = orig := by show d2.initial.pc = orig; rw [hk2.initial, hrd.initial]; exact ho
      by_cases hu : RefDebug.inUser m = true
      · -- in user space: the first instruction is executed whatever the breakpoints say
        rw [if_pos hu]
        have hit := iter_of_proceed' env d d2 m w (inUser_true m hu) hnh hna2
        rw [execOne_step] at hit
        obtain ⟨f', rfl⟩ : ∃ f', f = f' + 1 := ⟨f - 1, by omega⟩
        rw [runStatus_succ]
        cases hstep : RefDebug.step env.stackOn env.minimal m w with
        | ok m' w' =>
          rw [hstep] at hit
          simp only at hit ⊢
          have hreach := reaches_of_iter env c0 true (C10.ran d2) m' w' (some m.pc) hit
          rw [note_pend c0 d2 (C10.ran d2) rfl] at hreach
          let c1 : Cfg := ⟨true, C10.ran d2, m', w', pushExec (some m.pc) ex, pend c0 d2⟩
          have hsim := run_sim env bps f' 1 c1 rfl (ran_icount d2) hbp2
          have hst1 : c1.d.status = after d1.status (m.read m.pc) := hs2
          rw [hst1] at hsim
          have hos := out_sim env (f' + 1) orig xs IH bps c1 1 d.nexec _ rfl hcm2 hbp2 ho2
            (by show d2.nexec + 1 = d.nexec + 1; rw [hne2])
            (fun j' m'' w'' he => by have := arrive_fuel _ _ _ _ _ _ _ _ _ _ _ he; omega) hsim
          have hpre : SimRes env (f' + 1) c0 d2 _ :=
            SimRes.pre (d2 := C10.ran d2) (d1 := d2) (δ := 1) hreach (by simp [pend, c1]) rfl rfl (by simp [c1, c0, pushExec])
              (by simp [c1, c0, C10.ran, hne2]) hos
          exact SimRes.cons (c := c0) hnc2 hle hat2 hpre
        | exit code w' =>
          rw [hstep] at hit
          simp only at hit ⊢
          have he := ends_of_exit env c0 code true (C10.ran d2) _ w' (some m.pc) hit
          rw [note_pend c0 d2 (C10.ran d2) rfl] at he
          have hpre : SimRes env (f' + 1) c0 d2 ⟨[], d.nexec + (0 + 1), .ended code (m.setPC (m.pc + 1)) w'⟩ :=
            ⟨1, C10.ran d2, _, by simpa using he, ⟨by simp [C10.ran], by simp [C10.ran], by simp [pushExec, c0]; omega⟩⟩
          exact SimRes.cons (c := c0) hnc2 hle hat2 hpre
        | panic s =>
          rw [hstep] at hit
          simp only at hit ⊢
          have he := ends_of_panic env c0 s hit
          have hpre : SimRes env (f' + 1) c0 d2 ⟨[], d.nexec + (0 + 1), .panic s⟩ := ⟨1, _, he⟩
          exact SimRes.cons (c := c0) hnc2 hle hat2 hpre
      · -- outside user space: nothing is executed; the next iteration asks again
        have hu' : RefDebug.inUser m = false := by simpa using hu
        rw [if_neg hu]
        simp only [contRef, Nat.add_zero]
        have hbn := inUser_false m hu'
        have hit : iter env true d m w = .cont true d2 m w none := by
          unfold iter
          simp only [if_true, hna2]
          have h1 : ¬ (sigOf (m.read m.pc) == some Sig.halt) = true := by simpa using hnh
          have h2 : (Run.checkPcBounds m != Ordering.eq) = true := by simpa using hbn
          rw [if_neg h1, if_pos h2]
        have hreach := reaches_of_iter env c0 true d2 m w none hit
        rw [note_pend c0 d2 d2 rfl] at hreach
        let c1 : Cfg := ⟨true, d2, m, w, pushExec none ex, pend c0 d2⟩
        have hk := preamble_keep d2 m
        have ih := IH bps c1 (preamble d2 m) _ rfl (asks_of_wait env d2 m w (preamble_oob d2 m hbn))
          (by rw [hk.1.cmds, hcm2]) (by rw [hk.1.bps]; exact hbp2) hk.2.1
          (by show d2.ncmds ≤ (preamble d2 m).ncmds; rw [hk.1.ncmds]; exact Nat.le_refl _)
          (by show (preamble d2 m).initial.pc = orig; rw [hk.1.initial]; exact ho2)
        have hpre : SimRes env f c0 d2 _ :=
          SimRes.pre (d2 := preamble d2 m) (d1 := d2) (δ := 0) hreach (by simp [pend, c1, hk.1.ncmds]) hk.1.cmdAt hk.1.ncmds
            (by simp [c1, c0, pushExec]) (by simp [c1, c0, hne2]) ih
        have hnx : c1.d.nexec = d.nexec := hne2
        rw [hnx] at hpre
        exact SimRes.cons (c := c0) hnc2 hle hat2 hpre

/-! ### From the simulation to statements about sessions of any length -/

/-- A session that has ended within `n` iterations ended as the reference says (the reference
given enough fuel per command); it cannot be that the reference is still running. -/
theorem sim_final {env : Env} {f : Nat} {c : Cfg} {d' : Dbg} {R : Result} (h : SimRes env f c d' R)
    (n : Nat) (hn : n + c.d.nexec ≤ f) (hfin : isFuel (runObs env n c).1 = false) :
    match R.final with
    | .exited m' w' => ∃ dF exF,
        runObs env n c = (.done true dF m' w' exF, R.log.reverse ++ pend c d') ∧ Book c d' dF exF R.log R.executed
    | .ended code m' w' => ∃ dF exF,
        runObs env n c = (.exit code true dF m' w' exF, R.log.reverse ++ pend c d') ∧ Book c d' dF exF R.log R.executed
    | .panic s => (runObs env n c).1 = .panic s
    | .fuel _ _ => False := by
  unfold SimRes at h
  cases hR : R.final <;> rw [hR] at h <;> simp only [SimFin] at h ⊢
  · obtain ⟨k, dF, exF, h1, hb⟩ := h
    exact ⟨dF, exF, by rw [← runObs_stable env n c hfin k, h1 n], hb⟩
  · obtain ⟨k, dF, exF, h1, hb⟩ := h
    exact ⟨dF, exF, by rw [← runObs_stable env n c hfin k, h1 n], hb⟩
  · obtain ⟨k, sh', h1⟩ := h
    rw [← runObs_stable env n c hfin k, h1 n]
  · obtain ⟨k, dF, exF, h1, hb, hfu⟩ := h
    have e1 := h1 0
    rw [Nat.zero_add] at e1
    have hl := runObs_fuel_len env k c true dF _ _ exF _ e1
    have hex := hb.ex
    have hk : n ≤ k := by omega
    have e2 := runObs_stable env n c hfin (k - n)
    rw [show n + (k - n) = k by omega, e1] at e2
    rw [← e2] at hfin
    simp [runObs, isFuel] at hfin

/-- The session of C10: the debugger as `Debugger::new` creates it, on the script followed by
`exit`, attached to the machine `m`. -/
def session (initial : Machine) (bpsRel : List Word) (cs : List Command) (m : Machine) (w : World) : Cfg :=
  ⟨true, newDbg initial bpsRel (cs ++ [.exit]), m, w, [], []⟩

/-- Counts of a model session against a reference result. -/
structure Tally (d : Dbg) (ex : List Word) (R : Result) : Prop where
  /-- instructions executed -/
  executed : ex.length = R.executed
  /-- the model's own event log: instructions executed before each command read -/
  cmdAt : d.cmdAt.reverse = R.log.map (·.executed)
  ncmds : d.ncmds = R.log.length

/-- **Agreement** of a model session (`runObs`: the result of `runLoop` and the machine shown at
every command read, newest first) with a reference result: same way of ending, same final
machine and world, same number of instructions, same event log, same machine at every pause. -/
def Agree (r : DbgRun × List Entry) (R : Result) : Prop :=
  match R.final with
  | .exited m w => ∃ d ex, r = (.done true d m w ex, R.log.reverse) ∧ Tally d ex R
  | .ended code m w => ∃ d ex, r = (.exit code true d m w ex, R.log.reverse) ∧ Tally d ex R
  | .panic s => r.1 = .panic s
  | .fuel m w => ∃ d ex, r = (.fuel true d m w ex, R.log.reverse) ∧ Tally d ex R

theorem session_simres (env : Env) (f : Nat) (hf : 0 < f) (initial : Machine) (bpsRel : List Word)
    (cs : List Command) (hcs : ∀ x ∈ cs, InAlphabet x = true) (m : Machine) (w : World) :
    SimRes env f (session initial bpsRel cs m w) (preamble (session initial bpsRel cs m w).d m)
      (refSession env f initial bpsRel cs m w) := by
  have hk := preamble_keep (session initial bpsRel cs m w).d m
  exact session_sim env f hf initial.pc cs hcs _ (session initial bpsRel cs m w) _ _ rfl
    (asks_of_wait env _ m w (preamble_wait _ m rfl)) (by rw [hk.1.cmds]; rfl)
    (by rw [hk.1.bps]; exact bpRel_ofList initial.pc bpsRel) hk.2.1
    (by rw [hk.1.ncmds]; exact Nat.le_refl _) (by show (preamble _ m).initial.pc = _; rw [hk.1.initial]; rfl)

theorem pend_session (initial : Machine) (bpsRel : List Word) (cs : List Command) (m : Machine) (w : World) :
    pend (session initial bpsRel cs m w) (preamble (session initial bpsRel cs m w).d m) = [] := by
  have hk := preamble_keep (session initial bpsRel cs m w).d m
  unfold pend
  rw [hk.1.ncmds]
  simp [session]

theorem tally_of_book (initial : Machine) (bpsRel : List Word) (cs : List Command) (m : Machine) (w : World)
    (dF : Dbg) (exF : List Word) (R : Result)
    (hb : Book (session initial bpsRel cs m w) (preamble (session initial bpsRel cs m w).d m) dF exF R.log R.executed) :
    Tally dF exF R := by
  have hk := preamble_keep (session initial bpsRel cs m w).d m
  obtain ⟨h1, h2, h3⟩ := hb
  rw [hk.1.cmdAt] at h1
  rw [hk.1.ncmds] at h2
  refine ⟨?_, ?_, ?_⟩
  · simpa [session, newDbg] using h3
  · rw [h1]; simp [session, newDbg]
  · rw [h2]; simp [session, newDbg]

/-- **C10 — refinement, model ⇒ reference.** Take any program state `m`, world, assembler
environment, `.break` list and any script over {step, step into k (k ≥ 1: a count of 0 is read
as 1), step out, continue, break add l, break remove l}, followed by `exit`.  If the model
session ends within `n` iterations of `RunEnvironment::run` (by the `exit` command, or because
an instruction ended the process, or in lace's RTI `todo!()`), then the reference debugger, given
at least `n` instructions of fuel per command, ends too, and the two agree: same ending, same
final machine and world, same number of instructions executed, same event log (instructions
executed before each command read), and the same machine in front of the user at every command
read. -/
theorem stepping_refines_reference (env : Env) (initial : Machine) (bpsRel : List Word) (cs : List Command)
    (hcs : ∀ x ∈ cs, InAlphabet x = true) (m : Machine) (w : World) (n f : Nat) (hnf : n ≤ f)
    (hfin : isFuel (runObs env n (session initial bpsRel cs m w)).1 = false) :
    Agree (runObs env n (session initial bpsRel cs m w)) (refSession env f initial bpsRel cs m w) := by
  have hn0 : 0 < n := by
    cases n with
    | zero => simp [runObs, isFuel] at hfin
    | succ k => omega
  have hs := session_simres env f (by omega) initial bpsRel cs hcs m w
  have hfinal := sim_final hs n (by show n + 0 ≤ f; omega) hfin
  rw [pend_session] at hfinal
  unfold Agree
  cases hR : (refSession env f initial bpsRel cs m w).final <;> rw [hR] at hfinal <;> simp only at hfinal ⊢
  · obtain ⟨dF, exF, h1, hb⟩ := hfinal
    exact ⟨dF, exF, by simpa using h1, tally_of_book initial bpsRel cs m w dF exF _ hb⟩
  · obtain ⟨dF, exF, h1, hb⟩ := hfinal
    exact ⟨dF, exF, by simpa using h1, tally_of_book initial bpsRel cs m w dF exF _ hb⟩
  · exact hfinal

/-- The same, read off `runLoop` directly for a session ended by `exit`: the reference ends with
`exit` on the same machine and world, after the same number of instructions, with the same
event log. -/
theorem stepping_refines_reference_done (env : Env) (initial : Machine) (bpsRel : List Word) (cs : List Command)
    (hcs : ∀ x ∈ cs, InAlphabet x = true) (m : Machine) (w : World) (n f : Nat) (hnf : n ≤ f)
    (d : Dbg) (m' : Machine) (w' : World) (ex : List Word)
    (hrun : runLoop env n true (newDbg initial bpsRel (cs ++ [.exit])) m w [] = .done true d m' w' ex) :
    (refSession env f initial bpsRel cs m w).final = .exited m' w' ∧
    ex.length = (refSession env f initial bpsRel cs m w).executed ∧
    d.cmdAt.reverse = (refSession env f initial bpsRel cs m w).log.map (·.executed) := by
  have hfst := runObs_fst env n (session initial bpsRel cs m w)
  have hrun' : (runObs env n (session initial bpsRel cs m w)).1 = .done true d m' w' ex := by
    rw [hfst]; exact hrun
  have ha := stepping_refines_reference env initial bpsRel cs hcs m w n f hnf (by rw [hrun']; rfl)
  unfold Agree at ha
  cases hR : (refSession env f initial bpsRel cs m w).final <;> rw [hR] at ha <;> simp only at ha
  · obtain ⟨d2, ex2, h1, ht⟩ := ha
    rw [h1] at hrun'
    simp only [DbgRun.done.injEq, true_and] at hrun'
    obtain ⟨rfl, rfl, rfl, rfl⟩ := hrun'
    exact ⟨rfl, ht.executed, ht.cmdAt⟩
  · obtain ⟨d2, ex2, h1, _⟩ := ha
    rw [h1] at hrun'; cases hrun'
  · rw [ha] at hrun'; cases hrun'
  · obtain ⟨d2, ex2, h1, _⟩ := ha
    rw [h1] at hrun'; cases hrun'

/-- **C10 — refinement, reference ⇒ model.** If the reference run ends (all commands done and
`exit`, or an instruction ended the process), then there is a number of iterations after which
every model session has ended, in agreement with it. -/
theorem reference_refines_stepping (env : Env) (initial : Machine) (bpsRel : List Word) (cs : List Command)
    (hcs : ∀ x ∈ cs, InAlphabet x = true) (m : Machine) (w : World) (f : Nat) (hf : 0 < f)
    (hfin : ∀ m' w', (refSession env f initial bpsRel cs m w).final ≠ .fuel m' w') :
    ∃ k, ∀ n, k ≤ n →
      Agree (runObs env n (session initial bpsRel cs m w)) (refSession env f initial bpsRel cs m w) := by
  have hs := session_simres env f hf initial bpsRel cs hcs m w
  unfold SimRes at hs
  unfold Agree
  cases hR : (refSession env f initial bpsRel cs m w).final <;> rw [hR] at hs <;>
    simp only [SimFin, pend_session] at hs ⊢
  · obtain ⟨k, dF, exF, h1, hb⟩ := hs
    refine ⟨k, fun n hn => ⟨dF, exF, ?_, tally_of_book initial bpsRel cs m w dF exF _ hb⟩⟩
    have := h1 (n - k)
    rw [show n - k + k = n by omega] at this
    simpa using this
  · obtain ⟨k, dF, exF, h1, hb⟩ := hs
    refine ⟨k, fun n hn => ⟨dF, exF, ?_, tally_of_book initial bpsRel cs m w dF exF _ hb⟩⟩
    have := h1 (n - k)
    rw [show n - k + k = n by omega] at this
    simpa using this
  · obtain ⟨k, sh', h1⟩ := hs
    refine ⟨k, fun n hn => ?_⟩
    have := h1 (n - k)
    rw [show n - k + k = n by omega] at this
    rw [this]
  · exact absurd hR (hfin _ _)

/-- **C10 — fuel exhaustion on the reference side.** If a command of the reference run is still
running after `f` instructions, then there is a model session of `k ≥ f` iterations that is still
running too (attached, not waiting for a command), having read the same commands, shown the
same machines, executed the same number of instructions (at least `f`) and standing at the same
machine. -/
theorem reference_fuel_refines_stepping (env : Env) (initial : Machine) (bpsRel : List Word) (cs : List Command)
    (hcs : ∀ x ∈ cs, InAlphabet x = true) (m : Machine) (w : World) (f : Nat) (hf : 0 < f)
    (m' : Machine) (w' : World) (hfu : (refSession env f initial bpsRel cs m w).final = .fuel m' w') :
    ∃ k, f ≤ k ∧
      Agree (runObs env k (session initial bpsRel cs m w)) (refSession env f initial bpsRel cs m w) ∧
      f ≤ (refSession env f initial bpsRel cs m w).executed := by
  have hs := session_simres env f hf initial bpsRel cs hcs m w
  unfold SimRes at hs
  rw [hfu] at hs
  simp only [SimFin, pend_session] at hs
  obtain ⟨k, dF, exF, h1, hb, hle⟩ := hs
  have e1 := h1 0
  rw [Nat.zero_add] at e1
  have hl := runObs_fuel_len env k _ true dF _ _ exF _ e1
  have ht := tally_of_book initial bpsRel cs m w dF exF _ hb
  refine ⟨k, ?_, ?_, hle⟩
  · have := ht.executed
    simp only [session, List.length_nil] at hl
    omega
  · unfold Agree
    rw [hfu]
    exact ⟨dF, exF, by simpa [runObs] using e1, ht⟩

/-! ### Fuel exhaustion on the model side -/

theorem runObs_add (env : Env) : ∀ (n k : Nat) (c : Cfg) (a : Bool) (d : Dbg) (m : Machine) (w : World)
    (ex : List Word) (sh : List Entry), runObs env n c = (.fuel a d m w ex, sh) →
    runObs env (n + k) c = runObs env k ⟨a, d, m, w, ex, sh⟩
  | 0, k, c, a, d, m, w, ex, sh, h => by
    simp only [runObs, Prod.mk.injEq, DbgRun.fuel.injEq] at h
    obtain ⟨⟨h1, h2, h3, h4, h5⟩, h6⟩ := h
    obtain ⟨att, d0, m0, w0, ex0, sh0⟩ := c
    simp only at h1 h2 h3 h4 h5 h6
    subst h1 h2 h3 h4 h5 h6
    rw [Nat.zero_add]
  | n + 1, k, c, a, d, m, w, ex, sh, h => by
    have e : n + 1 + k = (n + k) + 1 := by omega
    rw [e]
    conv => lhs; unfold runObs
    conv at h => lhs; unfold runObs
    cases hi : iter env c.att c.d c.m c.w with
    | cont a1 d1 m1 w1 e1 =>
      rw [hi] at h
      exact runObs_add env n k _ a d m w ex sh h
    | done a1 d1 m1 w1 => rw [hi] at h; simp at h
    | exit code a1 d1 m1 w1 e1 => rw [hi] at h; simp at h
    | panic s1 => rw [hi] at h; simp at h

theorem note_suffix (att : Bool) (d d' : Dbg) (m : Machine) (w : World) (sh : List Entry) :
    ∃ p, note att d d' m w sh = p ++ sh := by
  unfold note
  split
  · exact ⟨_, rfl⟩
  · exact ⟨[], rfl⟩

/-- Entries are only ever added. -/
theorem runObs_sh_suffix (env : Env) : ∀ (k : Nat) (c : Cfg), ∃ pre, (runObs env k c).2 = pre ++ c.sh
  | 0, c => ⟨[], rfl⟩
  | k + 1, c => by
    unfold runObs
    cases hi : iter env c.att c.d c.m c.w with
    | cont a1 d1 m1 w1 e1 =>
      obtain ⟨p, hp⟩ := note_suffix c.att c.d d1 c.m c.w c.sh
      obtain ⟨q, hq⟩ := runObs_sh_suffix env k ⟨a1, d1, m1, w1, pushExec e1 c.ex, note c.att c.d d1 c.m c.w c.sh⟩
      exact ⟨q ++ p, by simp only; rw [hq, hp, List.append_assoc]⟩
    | done a1 d1 m1 w1 => exact note_suffix c.att c.d d1 c.m c.w c.sh
    | exit code a1 d1 m1 w1 e1 => exact note_suffix c.att c.d d1 c.m c.w c.sh
    | panic s1 => exact ⟨[], rfl⟩

/-- **C10 — fuel exhaustion on the model side.** A model session cut off after `n` iterations
(whatever it was doing) has so far shown the user a PREFIX of the reference's log (counts and
machines), for every reference fuel `f ≥ n` — the cut-off session is on the reference's path.
(Where it stands is `paused_machine_on_trajectory`. RTI's `todo!()` is excluded: the model's
record of a panicking session is not compared.) -/
theorem stepping_fuel_prefix (env : Env) (initial : Machine) (bpsRel : List Word) (cs : List Command)
    (hcs : ∀ x ∈ cs, InAlphabet x = true) (m : Machine) (w : World) (n f : Nat) (hnf : n ≤ f) (hf : 0 < f)
    (a : Bool) (d : Dbg) (m' : Machine) (w' : World) (ex : List Word) (sh : List Entry)
    (hrun : runObs env n (session initial bpsRel cs m w) = (.fuel a d m' w' ex, sh))
    (hnp : ∀ s, (refSession env f initial bpsRel cs m w).final ≠ .panic s) :
    sh.reverse <+: (refSession env f initial bpsRel cs m w).log := by
  have hs := session_simres env f hf initial bpsRel cs hcs m w
  unfold SimRes at hs
  have key : ∀ k r, runObs env (n + k) (session initial bpsRel cs m w) =
      (r, (refSession env f initial bpsRel cs m w).log.reverse) →
      sh.reverse <+: (refSession env f initial bpsRel cs m w).log := by
    intro k r hk
    rw [runObs_add env n k _ a d m' w' ex sh hrun] at hk
    obtain ⟨pre, hpre⟩ := runObs_sh_suffix env k ⟨a, d, m', w', ex, sh⟩
    rw [hk] at hpre
    simp only at hpre
    refine ⟨pre.reverse, ?_⟩
    have := congrArg List.reverse hpre
    simp only [List.reverse_reverse, List.reverse_append] at this
    exact this.symm
  cases hR : (refSession env f initial bpsRel cs m w).final <;> rw [hR] at hs <;>
    simp only [SimFin, pend_session, List.append_nil] at hs
  · obtain ⟨k, dF, exF, h1, _⟩ := hs
    exact key k _ (h1 n)
  · obtain ⟨k, dF, exF, h1, _⟩ := hs
    exact key k _ (h1 n)
  · exact absurd hR (hnp _)
  · obtain ⟨k, dF, exF, h1, hb, hle⟩ := hs
    have e1 := h1 0
    rw [Nat.zero_add] at e1
    have hl := runObs_fuel_len env k _ true dF _ _ exF _ e1
    have ht := (tally_of_book initial bpsRel cs m w dF exF _ hb).executed
    simp only [session, List.length_nil] at hl
    have hkn : n ≤ k := by omega
    apply key (k - n) (.fuel true dF _ _ exF)
    rw [show n + (k - n) = k by omega, e1]
    rfl

/-! ### What the reference promises (facts about `Spec/RefDebug.lean` alone) -/

/-- When `runUntil` pauses, at least one instruction was executed and the machine shown was
reached by executing the instruction at some `mp`, after which the command's stop condition or
`interrupt` held. -/
theorem runUntil_paused (so mi : Bool) (stop : Word → Nat → Machine → Bool) (bps : BpSet) :
    ∀ (f j : Nat) (m : Machine) (w : World) (j' : Nat) (m' : Machine) (w' : World),
    runUntil so mi stop bps f j m w = .paused j' m' w' →
    j < j' ∧ ∃ mp wp, RefDebug.step so mi mp wp = .ok m' w' ∧
      (stop (mp.read mp.pc) j' m' = true ∨ interrupt bps m' = true)
  | 0, j, m, w, j', m', w', h => by simp [runUntil] at h
  | f + 1, j, m, w, j', m', w', h => by
    unfold runUntil at h
    cases hx : RefDebug.step so mi m w with
    | ok m1 w1 =>
      rw [hx] at h
      simp only at h
      split at h
      · rename_i hc
        simp only [Out.paused.injEq] at h
        obtain ⟨rfl, rfl, rfl⟩ := h
        exact ⟨by omega, m, w, hx, by simpa using hc⟩
      · obtain ⟨h1, h2⟩ := runUntil_paused so mi stop bps f (j + 1) m1 w1 j' m' w' h
        exact ⟨by omega, h2⟩
    | exit c w1 => rw [hx] at h; cases h
    | panic s1 => rw [hx] at h; cases h

/-- `step into`: never more than the count. -/
theorem runUntil_count_le (so mi : Bool) (bps : BpSet) (K : Nat) :
    ∀ (f j : Nat) (m : Machine) (w : World) (j' : Nat) (m' : Machine) (w' : World), j < K →
    runUntil so mi (fun _ n _ => n == K) bps f j m w = .paused j' m' w' → j' ≤ K
  | 0, j, m, w, j', m', w', _, h => by simp [runUntil] at h
  | f + 1, j, m, w, j', m', w', hj, h => by
    unfold runUntil at h
    cases hx : RefDebug.step so mi m w with
    | ok m1 w1 =>
      rw [hx] at h
      simp only at h
      split at h
      · simp only [Out.paused.injEq] at h
        omega
      · rename_i hc
        have hne : ¬ (j + 1 = K) := by
          intro e; apply hc; simp [e]
        exact runUntil_count_le so mi bps K f (j + 1) m1 w1 j' m' w' (by omega) h
    | exit c w1 => rw [hx] at h; cases h
    | panic s1 => rw [hx] at h; cases h

/-- A resuming command that pauses was either refused on the spot (HALT or outside user space at
the address where it was issued: nothing executed) or ran `runUntil` for at least one instruction. -/
theorem resume_paused (so mi : Bool) (stop : Word → Nat → Machine → Bool) (bps : BpSet) (f : Nat)
    (m : Machine) (w : World) (j' : Nat) (m' : Machine) (w' : World)
    (h : resume so mi stop bps f m w = .paused j' m' w') :
    (j' = 0 ∧ m' = m ∧ w' = w ∧ interrupt bps m = true) ∨
    (0 < j' ∧ runUntil so mi stop bps f 0 m w = .paused j' m' w') := by
  unfold resume at h
  split at h
  · rename_i hc
    simp only [Out.paused.injEq] at h
    obtain ⟨rfl, rfl, rfl⟩ := h
    left
    refine ⟨rfl, rfl, rfl, ?_⟩
    unfold interrupt
    simp only [Bool.or_eq_true] at hc ⊢
    rcases hc with hc | hc
    · exact Or.inl (Or.inr hc)
    · exact Or.inr hc
  · right
    exact ⟨(runUntil_paused so mi stop bps f 0 m w j' m' w' h).1, h⟩

/-! ### Corollaries: one command, ANY breakpoint list, any debugger record waiting for a command -/

/-- the debugger's breakpoint list as a set of addresses -/
def bpsOf (d : Dbg) : BpSet := fun a => (bpGet d.bps a).isSome

/-- A session `x; exit` from any record that is waiting for a command, ending with `exit`: the
machine shown at the end is where the reference's `run` of that command pauses, after as many
instructions. -/
theorem single_command (env : Env) (d : Dbg) (m : Machine) (w : World) (ex : List Word) (x : Command)
    (hx : InAlphabet x = true) (hs : d.status = .wait) (hc : d.cmds = [x, .exit])
    (n : Nat) (dF : Dbg) (m' : Machine) (w' : World) (exF : List Word)
    (hrun : runLoop env n true d m w ex = .done true dF m' w' exF) :
    ∃ f j, run env.stackOn env.minimal (bpsOf d) f m w (toRef env (origOf d) x) = .paused j m' w' ∧
      exF.length = ex.length + j := by
  have hk := preamble_keep d m
  have hsim := session_sim env (n + d.nexec + 1) (by omega) (origOf d) [x] (by simpa using hx) (bpsOf d)
    ⟨true, d, m, w, ex, []⟩ (preamble d m) _ rfl (asks_of_wait env d m w (preamble_wait d m hs))
    (by rw [hk.1.cmds, hc]; rfl) (by rw [hk.1.bps]; intro a; rfl) hk.2.1
    (by show d.ncmds ≤ (preamble d m).ncmds; rw [hk.1.ncmds]; exact Nat.le_refl _)
    (by show (preamble d m).initial.pc = _; rw [hk.1.initial]; rfl)
  have hfin : isFuel (runObs env n ⟨true, d, m, w, ex, []⟩).1 = false := by
    rw [runObs_fst]; show isFuel (runLoop env n true d m w ex) = false; rw [hrun]; rfl
  have hfinal := sim_final hsim n (by show n + d.nexec ≤ _; omega) hfin
  simp only [List.map_cons, List.map_nil, runScript_cons] at hfinal
  refine ⟨n + d.nexec + 1, ?_⟩
  cases hrn : run env.stackOn env.minimal (bpsOf d) (n + d.nexec + 1) m w (toRef env (origOf d) x) with
  | paused j m'' w'' =>
    rw [hrn] at hfinal
    simp only [contRef, runScript, Result.cons] at hfinal
    obtain ⟨dF', exF', h1, hb⟩ := hfinal
    have h2 := congrArg Prod.fst h1
    rw [runObs_fst] at h2
    simp only at h2
    rw [hrun] at h2
    simp only [DbgRun.done.injEq, true_and] at h2
    obtain ⟨_, rfl, rfl, rfl⟩ := h2
    refine ⟨j, rfl, ?_⟩
    have := hb.ex
    simp only at this
    omega
  | ended j code m'' w'' =>
    rw [hrn] at hfinal
    simp only [contRef, Result.cons] at hfinal
    obtain ⟨dF', exF', h1, _⟩ := hfinal
    have h2 := congrArg Prod.fst h1
    rw [runObs_fst] at h2
    simp only at h2
    rw [hrun] at h2
    cases h2
  | panic j s =>
    rw [hrn] at hfinal
    simp only [contRef, Result.cons] at hfinal
    rw [runObs_fst] at hfinal
    simp only at hfinal
    rw [hrun] at hfinal
    cases hfinal
  | fuel j m'' w'' =>
    rw [hrn] at hfinal
    simp only [contRef, Result.cons] at hfinal

/-- **`step into N` with breakpoints present.** From a debugger waiting for a command, with any
breakpoint list, `step into k` (k ≥ 1) executes `j ≤ k` instructions, and fewer than `k` only if
the machine it then shows is interrupted: a breakpoint at its PC, HALT at its PC, or PC outside
user space (when `j = 0`: the command was refused because that already held where it was issued). -/
theorem step_into_exact_with_breakpoints (env : Env) (d : Dbg) (m : Machine) (w : World) (ex : List Word)
    (k : Word) (hk : k ≠ 0#16) (hs : d.status = .wait) (hc : d.cmds = [.stepInto k, .exit])
    (n : Nat) (dF : Dbg) (m' : Machine) (w' : World) (exF : List Word)
    (hrun : runLoop env n true d m w ex = .done true dF m' w' exF) :
    ∃ j, exF.length = ex.length + j ∧ j ≤ k.toNat ∧ (j = k.toNat ∨ interrupt (bpsOf d) m' = true) := by
  obtain ⟨f, j, hr, hl⟩ := single_command env d m w ex (.stepInto k) (by simpa [InAlphabet] using hk) hs hc
    n dF m' w' exF hrun
  have hk1 : k.toNat ≠ 0 := fun h0 => hk (BitVec.eq_of_toNat_eq (by simpa using h0))
  have hK : max k.toNat 1 = k.toNat := by omega
  refine ⟨j, hl, ?_⟩
  simp only [toRef, run] at hr
  rcases resume_paused _ _ _ _ _ _ _ _ _ _ hr with ⟨rfl, rfl, _, hi⟩ | ⟨hj, hru⟩
  · exact ⟨by omega, Or.inr hi⟩
  · have hle := runUntil_count_le env.stackOn env.minimal (bpsOf d) (max k.toNat 1) f 0 m w j m' w' (by omega) hru
    obtain ⟨_, mp, wp, _, hstop | hi⟩ := runUntil_paused _ _ _ _ f 0 m w j m' w' hru
    · simp only [stepIntoStop, beq_iff_eq] at hstop
      exact ⟨by omega, Or.inl (by omega)⟩
    · exact ⟨by omega, Or.inr hi⟩

/-- **`step` on JSR/JSRR/CALL** runs the subroutine and pauses at the address following the call
— or earlier, at an interrupted machine; **`step` on anything else** executes exactly one
instruction (none if refused at HALT / outside user space). -/
theorem step_over_call_pauses_at_return (env : Env) (d : Dbg) (m : Machine) (w : World) (ex : List Word)
    (hs : d.status = .wait) (hc : d.cmds = [.stepOver, .exit])
    (n : Nat) (dF : Dbg) (m' : Machine) (w' : World) (exF : List Word)
    (hrun : runLoop env n true d m w ex = .done true dF m' w' exF) :
    (RefDebug.isCall (m.read m.pc) = true → m'.pc = m.pc + 1 ∨ interrupt (bpsOf d) m' = true) ∧
    (RefDebug.isCall (m.read m.pc) = false →
      exF.length = ex.length + 1 ∨ (exF.length = ex.length ∧ m' = m ∧ interrupt (bpsOf d) m = true)) := by
  obtain ⟨f, j, hr, hl⟩ := single_command env d m w ex .stepOver rfl hs hc n dF m' w' exF hrun
  simp only [toRef, run] at hr
  constructor
  · intro hcall
    rw [if_pos hcall] at hr
    rcases resume_paused _ _ _ _ _ _ _ _ _ _ hr with ⟨_, rfl, _, hi⟩ | ⟨_, hru⟩
    · exact Or.inr hi
    · obtain ⟨_, mp, wp, _, hstop | hi⟩ := runUntil_paused _ _ _ _ f 0 m w j m' w' hru
      · exact Or.inl (by simpa [stepOverStop] using hstop)
      · exact Or.inr hi
  · intro hcall
    rw [if_neg (by simp [hcall])] at hr
    rcases resume_paused _ _ _ _ _ _ _ _ _ _ hr with ⟨rfl, rfl, _, hi⟩ | ⟨hj, hru⟩
    · exact Or.inr ⟨by omega, rfl, hi⟩
    · have hle := runUntil_count_le env.stackOn env.minimal (bpsOf d) 1 f 0 m w j m' w' (by omega) hru
      exact Or.inl (by omega)

/-- **`step out`** (stack feature on) runs until a RET/RETS has executed — the machine shown was
reached by executing one — or pauses earlier at an interrupted machine. -/
theorem step_out_stops_after_ret (env : Env) (d : Dbg) (m : Machine) (w : World) (ex : List Word)
    (hso : env.stackOn = true) (hs : d.status = .wait) (hc : d.cmds = [.stepOut, .exit])
    (n : Nat) (dF : Dbg) (m' : Machine) (w' : World) (exF : List Word)
    (hrun : runLoop env n true d m w ex = .done true dF m' w' exF) :
    interrupt (bpsOf d) m' = true ∨
    ∃ mp wp, RefDebug.step env.stackOn env.minimal mp wp = .ok m' w' ∧ RefDebug.isRet (mp.read mp.pc) = true := by
  obtain ⟨f, j, hr, hl⟩ := single_command env d m w ex .stepOut rfl hs hc n dF m' w' exF hrun
  simp only [toRef, run] at hr
  rw [if_pos hso] at hr
  rcases resume_paused _ _ _ _ _ _ _ _ _ _ hr with ⟨_, rfl, _, hi⟩ | ⟨_, hru⟩
  · exact Or.inl hi
  · obtain ⟨_, mp, wp, hst, hstop | hi⟩ := runUntil_paused _ _ _ _ f 0 m w j m' w' hru
    · exact Or.inr ⟨mp, wp, hst, hstop⟩
    · exact Or.inl hi

/-- **`step out` without the stack feature** (I7) does nothing. -/
theorem step_out_without_stack (env : Env) (d : Dbg) (m : Machine) (w : World) (ex : List Word)
    (hso : env.stackOn = false) (hs : d.status = .wait) (hc : d.cmds = [.stepOut, .exit])
    (n : Nat) (dF : Dbg) (m' : Machine) (w' : World) (exF : List Word)
    (hrun : runLoop env n true d m w ex = .done true dF m' w' exF) :
    m' = m ∧ w' = w ∧ exF.length = ex.length := by
  obtain ⟨f, j, hr, hl⟩ := single_command env d m w ex .stepOut rfl hs hc n dF m' w' exF hrun
  simp only [toRef, run, hso, Bool.false_eq_true, if_false, Out.paused.injEq] at hr
  obtain ⟨rfl, rfl, rfl⟩ := hr
  exact ⟨rfl, rfl, by omega⟩

/-- **`continue`** pauses only at an interrupted machine: a breakpoint at PC, HALT at PC (never
executed), or PC outside user space. -/
theorem continue_stops_only_at_interrupt (env : Env) (d : Dbg) (m : Machine) (w : World) (ex : List Word)
    (hs : d.status = .wait) (hc : d.cmds = [.continue_, .exit])
    (n : Nat) (dF : Dbg) (m' : Machine) (w' : World) (exF : List Word)
    (hrun : runLoop env n true d m w ex = .done true dF m' w' exF) :
    interrupt (bpsOf d) m' = true := by
  obtain ⟨f, j, hr, hl⟩ := single_command env d m w ex .continue_ rfl hs hc n dF m' w' exF hrun
  simp only [toRef, run] at hr
  rcases resume_paused _ _ _ _ _ _ _ _ _ _ hr with ⟨_, rfl, _, hi⟩ | ⟨_, hru⟩
  · exact hi
  · obtain ⟨_, mp, wp, _, hstop | hi⟩ := runUntil_paused _ _ _ _ f 0 m w j m' w' hru
    · simp [continueStop] at hstop
    · exact hi

end Lace.C10
