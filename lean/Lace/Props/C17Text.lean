/-
  C17, first clause, text level — **proved in full** for the layout space of C01's text-level theorem
  (`Layout.ok`, `Spec/Render.lean`; see the header of `Props/C01.lean` for what it covers):

    "For every address that holds an assembled statement, `assembly <address>` (and the breakpoint
     table) shows exactly the source text of the statement that produced that word — mnemonic or
     directive through its last operand, without label or comment — and addresses holding no
     statement show nothing."

  The specification side is `Spec.stmtTextOf L P i` (`Spec/Render.lean`): the text `render L P`
  contains for the statement that produced word `i` of the image — the spelling of its mnemonic /
  directive token, then every operand token with the separator (white space, commas, comments) the
  layout put in front of it; no label, nothing behind the last operand; every word of one `.blkw` /
  `.stringz` has the whole directive's text; `none` when the image has no word `i`.

  For **every** abstract program `P` in the domain (`syntaxOk`), **every** well-formed layout `L`,
  **every** flag value, whenever `assemble so [] (render L P) = (.ok img, tbl)` (which, by C01 / C04,
  happens exactly when `P` is well formed):

    * `spans_render`                  — `img.spans` is the list of the statements' spans in the text
                                        (`itemsStmtSpans`: first byte of the mnemonic to the end of
                                        the last operand, one entry per word);
    * `span_text_eq_statement_render` — slicing the source at `img.spans` gives `stmtTexts L P`;
    * `span_text_eq_statement_index`  — … index by index: `sliceBytes (render L P) spanᵢ = stmtTextOf L P i`,
                                        with `spans_length_render`: one span per image word;
    * `stmtText_render`               — the debugger's `Env.stmtText i` (what the `assembly` command of
                                        the debugger model prints, `Model/Debugger.lean`) is
                                        `stmtTextOf L P i`, for every `i`;
    * `assembly_shows_statement_text` — `show_single_line` at every address `a`, for every load
                                        address: nothing below the origin or behind the last word,
                                        otherwise the text `stmtTextOf L P (a − orig)`;
    * `span_text_eq_statement_wf`     — the same from `P.image flag` being defined (no hypothesis on
                                        the assembler's answer).

  Route: `Proofs/RenderRel.lean` (`textRel_render`: the rendered text is a sequence of pieces whose
  tokens get the spans `progESpans`), `Proofs/PreRender.lean` (`preprocess_textRel_spans`: the
  preprocessor's tokens have these spans and stand in reading order), `Proofs/ParseSpans.lean`
  (`parse_tokens_spans`: the parser's statement spans are read off the token spans),
  `Proofs/RenderSpans.lean` (`itemsSpansOf_ESpans`, `slice_itemsStmtSpans`: list reasoning).
-/
import Lace.Props.C17
import Lace.Props.C04
import Lace.Proofs.RenderSpans
namespace Lace.C17
open Lace Lace.Asm Lace.Dbg Lace.Spec Lace.C01 Lace.C04

/-! ### `backpatch` keeps the list of spans -/

theorem backpatchAll_spans {tbl : SymTab} : ∀ {l l' : List AsmLine},
    backpatchAll tbl l = some l' → l'.map (·.span) = l.map (·.span) := by
  intro l
  induction l with
  | nil => intro l' h; simp only [backpatchAll, Option.some.injEq] at h; subst h; rfl
  | cons a rest ih =>
    intro l' h
    unfold backpatchAll at h
    split at h
    · cases h
    · rename_i a1 ha
      split at h
      · cases h
      · rename_i rest' hr
        cases h
        simp only [List.map_cons, backpatch_span ha, ih hr]

/-! ### the assembler's spans on a rendered program -/

/-- **The statement spans of a rendered program.**  Whenever a layout of `P` is accepted, the image's
span list is, word by word, the span of the statement in the text: from the first byte of the
mnemonic / directive token to the end of the last operand token. -/
theorem spans_render (so : Bool) (L : Layout) (P : Prog) (hsyn : P.syntaxOk = true) (hok : L.ok P = true)
    (img : Image) (tbl : SymTab) (h : assemble so [] (render L P) = (.ok img, tbl)) :
    img.spans = itemsStmtSpans L.names 0 L.toks P.items := by
  have himg := accept_render_image so L P hsyn hok img (by rw [h])
  have hst := image_stack (flag := so) (P := P) (by rw [himg]; rfl)
  have htr : TrailEnds (some so) L.trail := by
    have hok' := hok
    simp only [Layout.ok, Bool.and_eq_true] at hok'
    exact trailOk_ends (some so) hok'.1.2
  obtain ⟨toks, hpre, hm, hsp, hpos⟩ :=
    preprocess_textRel_spans (some so) L.trail (render L P) _ _ htr (textRel_render so L P hok hst)
  have hok' := hok
  simp only [Layout.ok, Bool.and_eq_true] at hok'
  obtain ⟨⟨⟨hren, _⟩, _⟩, _⟩ := hok'
  unfold assemble assembleWith parse at h
  rw [hpre] at h
  simp only [] at h
  generalize hpl : parseLoop (utf8Len (render L P)) (toks.length + 1) toks
    { orig := none, stmts := [], n := 0, bps := [], line := 1, tokEnd := 0 } [] = r at h
  obtain ⟨r, tbl'⟩ := r
  cases r with
  | diag k s => cases h
  | panic s => cases h
  | ok air =>
    simp only [] at h
    cases hb : backpatchAll tbl' air.stmts with
    | none => rw [hb] at h; cases h
    | some stmts =>
      rw [hb] at h
      simp only [] at h
      cases he : emitAll stmts [] with
      | diag k s => rw [he] at h; cases h
      | panic s => rw [he] at h; cases h
      | ok words =>
        rw [he] at h
        simp only [Prod.mk.injEq, Outcome.ok.injEq] at h
        obtain ⟨rfl, _⟩ := h
        have h1 := parse_tokens_spans L.names P _ toks hm hren hsyn hpos air tbl' hpl
        rw [hsp] at h1
        have hren' := hren
        unfold Prog.renderable at hren'
        rw [Bool.and_eq_true, List.all_eq_true, stmts_eq] at hren'
        have h2 := itemsSpansOf_ESpans L.names P.items 0 L.toks hren'.1
        have h3 := backpatchAll_spans hb
        show stmts.map (fun a => (a.span.offs, a.span.len)) = _
        have h1' : air.stmts.map (fun a => spanPair a.span) =
            itemsSpansOf L.names P.items (itemsESpans L.names 0 L.toks P.items) := h1
        rw [← h2, ← h1']
        have key : ∀ l : List AsmLine,
            l.map (fun a => (a.span.offs, a.span.len)) = (l.map (·.span)).map spanPair := by
          intro l; rw [List.map_map]; rfl
        rw [key stmts, h3, ← key air.stmts]
        rfl

/-! ### the text-level theorem -/

/-- **C17, first clause, text level.**  For every abstract program, every well-formed layout and
every flag value: when the assembler accepts the rendered text, slicing the source at the image's
statement spans gives — word by word — the specification's statement texts (`Spec.stmtTexts`):
mnemonic / directive through last operand with the layout's inner separators and comments, without
label, without trailing separator or comment; one entry per word, all words of a `.blkw` / `.stringz`
showing the directive. -/
theorem span_text_eq_statement_render (so : Bool) (L : Layout) (P : Prog) (hsyn : P.syntaxOk = true)
    (hok : L.ok P = true) (img : Image) (tbl : SymTab)
    (h : assemble so [] (render L P) = (.ok img, tbl)) :
    img.spans.map (fun p => sliceBytes (render L P) p.1 p.2) = (stmtTexts L P).map some := by
  rw [spans_render so L P hsyn hok img tbl h]
  exact slice_itemsStmtSpans L.names L.trail P.items L.toks []

/-- … index by index: the slice at the span of word `i` is `stmtTextOf L P i`; there is no span
exactly where the specification has no text. -/
theorem span_text_eq_statement_index (so : Bool) (L : Layout) (P : Prog) (hsyn : P.syntaxOk = true)
    (hok : L.ok P = true) (img : Image) (tbl : SymTab)
    (h : assemble so [] (render L P) = (.ok img, tbl)) (i : Nat) :
    (img.spans[i]?).bind (fun p => sliceBytes (render L P) p.1 p.2) = stmtTextOf L P i ∧
    ((img.spans[i]?).isSome = (stmtTextOf L P i).isSome) := by
  have hm := span_text_eq_statement_render so L P hsyn hok img tbl h
  have hi := congrArg (fun l => l[i]?) hm
  simp only [List.getElem?_map] at hi
  unfold stmtTextOf
  cases hs : img.spans[i]? with
  | none =>
    rw [hs] at hi
    cases ht : (stmtTexts L P)[i]? with
    | none => exact ⟨rfl, rfl⟩
    | some t => rw [ht] at hi; cases hi
  | some p =>
    rw [hs] at hi
    cases ht : (stmtTexts L P)[i]? with
    | none => rw [ht] at hi; cases hi
    | some t =>
      rw [ht] at hi
      simp only [Option.map_some, Option.some.injEq] at hi
      exact ⟨hi, rfl⟩

/-! ### one span, one text per image word -/

theorem one_length {i : Option Instr} {addr : Word} {x : List Word} (h : one i addr = some x) :
    x.length = 1 := by
  unfold one at h
  split at h
  · rename_i i'
    cases he : encode i' addr with
    | none => rw [he] at h; cases h
    | some w => rw [he] at h; cases h; rfl
  · cases h

theorem words_length {lab : Nat → Option Word} {addr : Word} {s : SrcStmt} {w : List Word}
    (h : s.words lab addr = some w) : w.length = s.size := by
  cases s <;> simp only [SrcStmt.words] at h
  case fill v => cases h; rfl
  case blkw n => cases h; simp [SrcStmt.size]
  case stringz b => cases h; simp [SrcStmt.size, stringWords]
  all_goals first
    | exact one_length h
    | (split at h <;> first | exact one_length h | cases h)

theorem wordsFrom_length (lab : Nat → Option Word) (o : Word) : ∀ (ss : List LStmt) (k : Nat) (ws : List Word),
    wordsFrom lab o ss k = some ws → ws.length = totalSize ss := by
  intro ss
  induction ss with
  | nil => intro k ws h; cases h; rfl
  | cons ls rest ih =>
    intro k ws h
    obtain ⟨l, s⟩ := ls
    simp only [wordsFrom] at h
    split at h
    · rename_i w ws' h1 h2
      cases h
      simp only [List.length_append, totalSize, words_length h1, ih _ _ h2]
    · cases h

theorem image_words_length {flag : Bool} {P : Prog} {o : Option Word} {ws : List Word}
    (h : P.image flag = some (o, ws)) : ws.length = totalSize P.stmts := by
  unfold Prog.image at h
  simp only [] at h
  split at h
  · cases hwf : wordsFrom (fun id => ((labelDefs P.stmts 0).lookup id).map fun k =>
        P.origs.head?.getD 0x3000#16 + BitVec.ofNat 16 k) (P.origs.head?.getD 0x3000#16) P.stmts 0 with
    | none => rw [hwf] at h; cases h
    | some ws0 =>
      rw [hwf] at h
      simp only [Option.map_some, Option.some.injEq, Prod.mk.injEq] at h
      obtain ⟨_, rfl⟩ := h
      exact wordsFrom_length _ _ _ _ _ hwf
  · cases h

theorem itemsTexts_length (names : Nat → List Char) : ∀ (its : List Item) (ls : List TokLay),
    (itemsTexts names ls its).length = totalSize (itemsStmts its) := by
  intro its
  induction its with
  | nil => intro _; rfl
  | cons it rest ih =>
    intro ls
    cases it with
    | orig w => simp only [itemsTexts, itemTexts, itemsStmts, List.nil_append, ih]
    | brk => simp only [itemsTexts, itemTexts, itemsStmts, List.nil_append, ih]
    | stmt l s =>
      cases l <;>
        simp only [itemsTexts, itemTexts, itemsStmts, totalSize, List.length_append, List.length_replicate, ih]

/-- **One span and one text per image word.** -/
theorem spans_length_render (so : Bool) (L : Layout) (P : Prog) (hsyn : P.syntaxOk = true)
    (hok : L.ok P = true) (img : Image) (tbl : SymTab)
    (h : assemble so [] (render L P) = (.ok img, tbl)) :
    img.spans.length = img.words.length ∧ (stmtTexts L P).length = img.words.length := by
  have himg := accept_render_image so L P hsyn hok img (by rw [h])
  have h1 := image_words_length himg
  have h2 : (stmtTexts L P).length = totalSize P.stmts := by
    rw [stmts_eq]; exact itemsTexts_length L.names P.items L.toks
  have h3 := congrArg List.length (span_text_eq_statement_render so L P hsyn hok img tbl h)
  simp only [List.length_map] at h3
  omega

/-! ### what the debugger shows -/

/-- **The debugger's statement texts are the specification's.**  The environment the debugger gets
for an assembled layout of `P` (`envOf`) answers `stmtText i = stmtTextOf L P i` for every index —
the text `assembly` prints for address `orig + i` in the debugger model (`Model/Debugger.lean`),
`none` (nothing printed) exactly where the image has no word. -/
theorem stmtText_render (so : Bool) (L : Layout) (P : Prog) (hsyn : P.syntaxOk = true)
    (hok : L.ok P = true) (img : Image) (tbl : SymTab)
    (h : assemble so [] (render L P) = (.ok img, tbl)) (i : Nat) :
    (envOf so (render L P) img tbl).stmtText i = stmtTextOf L P i := by
  obtain ⟨h1, h2⟩ := span_text_eq_statement_index so L P hsyn hok img tbl h i
  show (match img.spans[i]? with
    | none => none
    | some (o, l) =>
      match sliceBytes (render L P) o l with
      | some t => some t
      | none => some "<slice-panic>".toList) = _
  cases hs : img.spans[i]? with
  | none => rw [hs] at h1; exact h1
  | some p =>
    obtain ⟨o, l⟩ := p
    rw [hs] at h1 h2
    simp only [Option.bind_some] at h1
    simp only []
    rw [h1]
    cases ht : stmtTextOf L P i with
    | some t => rfl
    | none => rw [ht] at h2; cases h2

/-- **`assembly <address>` in minimal mode, characterised by the renderer alone.**  For a program
assembled from a layout of `P` and loaded at any `orig`, `show_single_line` prints nothing for an
address below the origin or at / behind `orig + (number of words)`, and otherwise exactly the
specification's text of the statement that produced the word at that address. -/
theorem assembly_shows_statement_text (so : Bool) (L : Layout) (P : Prog) (hsyn : P.syntaxOk = true)
    (hok : L.ok P = true) (img : Image) (tbl : SymTab)
    (h : assemble so [] (render L P) = (.ok img, tbl)) (orig a : Word) :
    (AsmSource.mk orig img.spans (render L P)).showSingleLine a =
      if a < orig then .nothing
      else match stmtTextOf L P (a - orig).toNat with
        | some t => .text t
        | none => .nothing := by
  obtain ⟨h1, h2⟩ := span_text_eq_statement_index so L P hsyn hok img tbl h (a - orig).toNat
  by_cases ha : a < orig
  · rw [if_pos ha]
    exact no_statement_no_text _ a (Or.inl ha)
  · rw [if_neg ha]
    by_cases hlen : (a - orig).toNat < img.spans.length
    · have hst := statement_text (AsmSource.mk orig img.spans (render L P)) a ha hlen
      have hg : img.spans[(a - orig).toNat]? = some (img.spans[(a - orig).toNat]'hlen) :=
        List.getElem?_eq_getElem hlen
      rw [hg] at h1
      simp only [Option.bind_some] at h1
      unfold AsmSource.showSingleLine
      rw [hst]
      simp only []
      rw [h1]
      cases hs : stmtTextOf L P (a - orig).toNat with
      | some t => rfl
      | none =>
        rw [hg, hs] at h2
        cases h2
    · have hn : img.spans[(a - orig).toNat]? = none := List.getElem?_eq_none (by omega)
      rw [hn] at h1
      rw [← h1]
      exact no_statement_no_text _ a (Or.inr (by show img.spans.length ≤ (a - orig).toNat; omega))

/-- **… from well-formedness alone.**  Every layout of a well-formed program assembles, and the
debugger then shows the specification's statement texts. -/
theorem span_text_eq_statement_wf (so : Bool) (L : Layout) (P : Prog) (hsyn : P.syntaxOk = true)
    (hok : L.ok P = true) (himg : (P.image so).isSome = true) :
    ∃ img tbl, assemble so [] (render L P) = (.ok img, tbl) ∧
      P.image so = some (img.orig, img.words) ∧
      img.spans.map (fun p => sliceBytes (render L P) p.1 p.2) = (stmtTexts L P).map some ∧
      ∀ i, (envOf so (render L P) img tbl).stmtText i = stmtTextOf L P i := by
  obtain ⟨img, h, hi⟩ := assemble_image_render so P _ hsyn himg ⟨L, hok, rfl⟩
  have h' : assemble so [] (render L P) = (.ok img, (assemble so [] (render L P)).2) := by
    rw [← h]
  exact ⟨img, _, h', hi, span_text_eq_statement_render so L P hsyn hok img _ h',
    stmtText_render so L P hsyn hok img _ h'⟩

/-- The full text-level statement of the first clause of C17 (it is `span_text_eq_statement_render`
together with `stmtText_render`; kept as a named proposition so that the claim is visible in one
place). -/
def span_text_eq_statement_text : Prop :=
  ∀ (so : Bool) (L : Layout) (P : Prog), P.syntaxOk = true → L.ok P = true →
    ∀ (img : Image) (tbl : SymTab), assemble so [] (render L P) = (.ok img, tbl) →
      img.spans.map (fun p => sliceBytes (render L P) p.1 p.2) = (stmtTexts L P).map some ∧
      ∀ i, (envOf so (render L P) img tbl).stmtText i = stmtTextOf L P i

theorem span_text_eq_statement_text_holds : span_text_eq_statement_text :=
  fun so L P hsyn hok img tbl h =>
    ⟨span_text_eq_statement_render so L P hsyn hok img tbl h, stmtText_render so L P hsyn hok img tbl h⟩

/-! ### the hypotheses are satisfiable: the far-from-canonical layout of `Props/C01.lean` -/

/-- `exProg` under `exLayout` (comment first, mixed case, `loop:` with a colon, commas between the
operands of `ADD`, a comment and a line break between `.STringz` and its string, an open comment at
the end): the seven words of the image and the texts of their statements -/
example : (stmtTexts exLayout exProg).map String.ofList =
    ["ADD R1, r1,#-01", "bRp loop", ".STringz ;c\n\t\"a\\n\"", ".STringz ;c\n\t\"a\\n\"",
     ".STringz ;c\n\t\"a\\n\"", ".fill x-4111", "Halt"] := by
  decide

example : (stmtTextOf exLayout exProg 1).map String.ofList = some "bRp loop" ∧
    stmtTextOf exLayout exProg 7 = none := by
  decide

/-- … and their spans in the text (`spans_render`): `ADD R1, r1,#-01` stands at bytes 28 … 43 behind
`loop:  `, the three words of the `.STringz` share the directive's span -/
example : itemsStmtSpans exLayout.names 0 exLayout.toks exProg.items =
    [(28, 15), (51, 8), (74, 18), (74, 18), (74, 18), (93, 12), (107, 4)] := by
  decide

/-- the theorem applies: the text assembles, and the debugger shows these texts -/
example : ∃ img tbl, assemble false [] (render exLayout exProg) = (.ok img, tbl) ∧
    img.spans.map (fun p => sliceBytes (render exLayout exProg) p.1 p.2) = (stmtTexts exLayout exProg).map some ∧
    (AsmSource.mk 0x3000#16 img.spans (render exLayout exProg)).showSingleLine 0x3002#16 =
      .text ".STringz ;c\n\t\"a\\n\"".toList ∧
    (AsmSource.mk 0x3000#16 img.spans (render exLayout exProg)).showSingleLine 0x3007#16 = .nothing := by
  obtain ⟨img, tbl, h, _, h2, _⟩ :=
    span_text_eq_statement_wf false exLayout exProg (by decide) (by decide) (by decide)
  refine ⟨img, tbl, h, h2, ?_, ?_⟩
  · rw [assembly_shows_statement_text false exLayout exProg (by decide) (by decide) img tbl h]
    decide
  · rw [assembly_shows_statement_text false exLayout exProg (by decide) (by decide) img tbl h]
    decide

end Lace.C17
